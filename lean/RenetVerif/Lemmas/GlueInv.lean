/-
  Transport glue (renet_netcode/src/{server,client}.rs, model `Transport/Glue.lean`) : property C20.

  Part 1  the netcode slot table: which public call adds / removes which client id (`TStep`)
  Part 2  `handle_server_result` against the renet connection table: the lock-step relation `Sync`
  Part 3  the loops of `update` / `send_packets` / `disconnect_all`; `LockStep`
  Part 4  the event log mirrors the netcode results
  Part 5  payload routing
  Part 6  the client glue
  Part 7  no unwinding
-/
import RenetVerif.Transport.Glue
import RenetVerif.Lemmas.ServerLemmas
import RenetVerif.Lemmas.ConnInv
namespace RenetVerif.GI
open RenetVerif RenetVerif.Netcode RenetVerif.Transport

/-! ## Part 1 : the netcode slot table -/

abbrev Slots := List (Option Connection)

/-- the client id stored in a slot, as a list of length ≤ 1 -/
def optId : Option Connection → List Nat
  | some c => [c.clientId]
  | none => []

/-- `clients_id` of a slot table -/
def ids (cl : Slots) : List Nat := cl.filterMap fun c => c.map (·.clientId)

theorem clientsId_eq (s : NetcodeServer) : s.clientsId = ids s.clients := rfl

theorem ids_nil : ids [] = [] := rfl

theorem ids_cons (x : Option Connection) (cl : Slots) : ids (x :: cl) = optId x ++ ids cl := by
  cases x <;> simp [ids, optId]

theorem ids_replicate_none (n : Nat) : ids (List.replicate n none) = [] := by
  induction n with
  | zero => rfl
  | succ n ih => rw [List.replicate_succ, ids_cons, ih]; rfl

/-- overwriting slot `i` (holding `x`) with `y` replaces the id of `x` by the id of `y`, in place -/
theorem ids_set : ∀ (cl : Slots) (i : Nat) (x y : Option Connection), cl[i]? = some x →
    ∃ l1 l2, ids cl = l1 ++ optId x ++ l2 ∧ ids (cl.set i y) = l1 ++ optId y ++ l2
  | [], i, x, y, h => by simp at h
  | z :: cl, 0, x, y, h => by
    simp only [List.getElem?_cons_zero, Option.some.injEq] at h
    subst h
    exact ⟨[], ids cl, by simp [ids_cons], by simp [ids_cons]⟩
  | z :: cl, i + 1, x, y, h => by
    simp only [List.getElem?_cons_succ] at h
    obtain ⟨l1, l2, e1, e2⟩ := ids_set cl i x y h
    refine ⟨optId z ++ l1, l2, ?_, ?_⟩
    · rw [ids_cons, e1]; simp
    · rw [List.set_cons_succ, ids_cons, e2]; simp

theorem ids_set_same {cl : Slots} {i : Nat} {x y : Option Connection} (h : cl[i]? = some x)
    (hxy : optId y = optId x) : ids (cl.set i y) = ids cl := by
  obtain ⟨l1, l2, e1, e2⟩ := ids_set cl i x y h
  rw [e1, e2, hxy]

theorem getD_eq {cl : Slots} {i : Nat} {c : Connection} (h : cl.getD i none = some c) : cl[i]? = some (some c) := by
  rw [List.getD_eq_getElem?_getD] at h
  cases hc : cl[i]? with
  | none => rw [hc] at h; cases h
  | some x => rw [hc] at h; simp only [Option.getD_some] at h; rw [h]

theorem findSlot_go_some (id : Nat) : ∀ (cl : Slots) (k i : Nat), findClientSlotById.go id cl k = some i →
    ∃ c, k ≤ i ∧ cl[i - k]? = some (some c) ∧ c.clientId = id
  | [], k, i, h => by simp [findClientSlotById.go] at h
  | none :: cl, k, i, h => by
    simp only [findClientSlotById.go] at h
    obtain ⟨c, h1, h2, h3⟩ := findSlot_go_some id cl (k + 1) i h
    refine ⟨c, by omega, ?_, h3⟩
    have : i - k = (i - (k + 1)) + 1 := by omega
    rw [this, List.getElem?_cons_succ]; exact h2
  | some c0 :: cl, k, i, h => by
    simp only [findClientSlotById.go] at h
    split at h
    · rename_i hc
      cases h
      exact ⟨c0, Nat.le_refl _, by simp, hc⟩
    · obtain ⟨c, h1, h2, h3⟩ := findSlot_go_some id cl (k + 1) i h
      refine ⟨c, by omega, ?_, h3⟩
      have : i - k = (i - (k + 1)) + 1 := by omega
      rw [this, List.getElem?_cons_succ]; exact h2

theorem findSlot_go_none (id : Nat) : ∀ (cl : Slots) (k : Nat), findClientSlotById.go id cl k = none ↔ id ∉ ids cl
  | [], k => by simp [findClientSlotById.go, ids]
  | none :: cl, k => by
    simp only [findClientSlotById.go, ids_cons, optId, List.nil_append]
    exact findSlot_go_none id cl (k + 1)
  | some c0 :: cl, k => by
    simp only [findClientSlotById.go, ids_cons, optId, List.cons_append, List.nil_append, List.mem_cons, not_or]
    split
    · rename_i hc
      simp [hc]
    · rename_i hc
      rw [findSlot_go_none id cl (k + 1)]
      exact ⟨fun h => ⟨fun e => hc e.symm, h⟩, fun h => h.2⟩

theorem findSlot_some {cl : Slots} {id i : Nat} (h : findClientSlotById cl id = some i) :
    ∃ c, cl[i]? = some (some c) ∧ c.clientId = id := by
  obtain ⟨c, _, h2, h3⟩ := findSlot_go_some id cl 0 i h
  exact ⟨c, h2, h3⟩

theorem findSlot_none {cl : Slots} {id : Nat} : findClientSlotById cl id = none ↔ id ∉ ids cl :=
  findSlot_go_none id cl 0

theorem findSlot_isSome {cl : Slots} {id : Nat} : (findClientSlotById cl id).isSome = true ↔ id ∈ ids cl := by
  cases h : findClientSlotById cl id with
  | none => simp [findSlot_none.mp h]
  | some i =>
    simp only [Option.isSome_some, true_iff]
    apply Classical.byContradiction
    intro hn
    rw [findSlot_none.mpr hn] at h
    cases h

theorem findById_some : ∀ {cl : Slots} {id : Nat} {c : Connection}, findClientById cl id = some c → c.clientId = id
  | [], id, c, h => by simp [findClientById] at h
  | none :: cl, id, c, h => by
    simp only [findClientById] at h
    exact findById_some h
  | some c0 :: cl, id, c, h => by
    simp only [findClientById] at h
    split at h
    · rename_i hc; cases h; exact hc
    · exact findById_some h

theorem findAddr_go_some (ad : Addr) : ∀ (cl : Slots) (k i : Nat) (c : Connection),
    findClientByAddr.go ad cl k = some (i, c) → k ≤ i ∧ cl[i - k]? = some (some c)
  | [], k, i, c, h => by simp [findClientByAddr.go] at h
  | none :: cl, k, i, c, h => by
    simp only [findClientByAddr.go] at h
    obtain ⟨h1, h2⟩ := findAddr_go_some ad cl (k + 1) i c h
    refine ⟨by omega, ?_⟩
    have : i - k = (i - (k + 1)) + 1 := by omega
    rw [this, List.getElem?_cons_succ]; exact h2
  | some c0 :: cl, k, i, c, h => by
    simp only [findClientByAddr.go] at h
    split at h
    · simp only [Option.some.injEq, Prod.mk.injEq] at h
      obtain ⟨e1, e2⟩ := h
      subst e1; subst e2
      exact ⟨Nat.le_refl _, by simp⟩
    · obtain ⟨h1, h2⟩ := findAddr_go_some ad cl (k + 1) i c h
      refine ⟨by omega, ?_⟩
      have : i - k = (i - (k + 1)) + 1 := by omega
      rw [this, List.getElem?_cons_succ]; exact h2

theorem findAddr_some {cl : Slots} {ad : Addr} {i : Nat} {c : Connection}
    (h : findClientByAddr cl ad = some (i, c)) : cl[i]? = some (some c) :=
  (findAddr_go_some ad cl 0 i c h).2

theorem firstFree_go_some : ∀ (cl : Slots) (k i : Nat), firstFreeSlot.go cl k = some i →
    k ≤ i ∧ cl[i - k]? = some none
  | [], k, i, h => by simp [firstFreeSlot.go] at h
  | none :: cl, k, i, h => by
    simp only [firstFreeSlot.go, Option.some.injEq] at h
    subst h
    exact ⟨Nat.le_refl _, by simp⟩
  | some c0 :: cl, k, i, h => by
    simp only [firstFreeSlot.go] at h
    obtain ⟨h1, h2⟩ := firstFree_go_some cl (k + 1) i h
    refine ⟨by omega, ?_⟩
    have : i - k = (i - (k + 1)) + 1 := by omega
    rw [this, List.getElem?_cons_succ]; exact h2

theorem firstFree_some {cl : Slots} {i : Nat} (h : firstFreeSlot cl = some i) : cl[i]? = some none :=
  (firstFree_go_some cl 0 i h).2

/-- what one netcode server call may do to the id table, by the `ServerResult` it returns:
    `ClientConnected id` – `id` was absent and is inserted; `ClientDisconnected id` – one occurrence of
    `id` is removed; `Payload id` – table unchanged and `id` present; otherwise table unchanged -/
def TStep (cl cl' : Slots) : ServerResult → Prop
  | .clientConnected id _ _ _ => id ∉ ids cl ∧ ∃ l1 l2, ids cl = l1 ++ l2 ∧ ids cl' = l1 ++ id :: l2
  | .clientDisconnected id _ _ => ∃ l1 l2, ids cl = l1 ++ id :: l2 ∧ ids cl' = l1 ++ l2
  | .payload id _ => ids cl' = ids cl ∧ id ∈ ids cl
  | .none => ids cl' = ids cl
  | .packetToSend _ _ => ids cl' = ids cl

theorem TStep.congr_left {cl0 cl cl' : Slots} {r : ServerResult} (e : ids cl = ids cl0) (h : TStep cl cl' r) :
    TStep cl0 cl' r := by
  cases r <;> simp only [TStep] at h ⊢ <;> rw [← e] <;> exact h

theorem tstep_remove {cl : Slots} {i : Nat} {c : Connection} (h : cl[i]? = some (some c)) (ad : Addr) (p : Option Bytes) :
    TStep cl (cl.set i none) (.clientDisconnected c.clientId ad p) := by
  obtain ⟨l1, l2, e1, e2⟩ := ids_set cl i (some c) none h
  exact ⟨l1, l2, by simpa [optId] using e1, by simpa [optId] using e2⟩

/-- result of the fallible netcode server calls: table effect on success, table ids unchanged on error -/
def Post (cl : Slots) : NetcodeServer.SRes → Prop
  | .ok (r, s') => TStep cl s'.clients r
  | .err (_, s') => ids s'.clients = ids cl
  | .panic _ => True

theorem post_bind {α : Type} {cl : Slots} {x : Res (NetcodeError × NetcodeServer) α} {f : α → NetcodeServer.SRes}
    (hx : ∀ e s', x = .err (e, s') → ids s'.clients = ids cl) (hf : ∀ v, x = .ok v → Post cl (f v)) :
    Post cl (x >>= f) := by
  cases x with
  | ok v => exact hf v rfl
  | err e => obtain ⟨e, s'⟩ := e; exact hx e s' rfl
  | panic m => trivial

theorem lift_err {α : Type} {s s' : NetcodeServer} {y : NRes α} {e : NetcodeError}
    (h : NetcodeServer.lift s y = .err (e, s')) : s' = s := by
  cases y <;> simp [NetcodeServer.lift] at h
  exact h.2.symm

theorem incU64_not_err {ε : Type} {a : Nat} {site : String} {e : ε} : (incU64 a site : Res ε Nat) ≠ .err e := by
  unfold incU64; split <;> simp

theorem findOrAdd_clients (s : NetcodeServer) (e : ConnectTokenEntry) :
    (s.findOrAddConnectTokenEntry e).1.clients = s.clients := by
  unfold NetcodeServer.findOrAddConnectTokenEntry
  extract_lets st
  split <;> rfl

theorem hcr_post (a : AEAD) (cl : Slots) (s : NetcodeServer) (hs : ids s.clients = ids cl) (addr : Addr) (vi : Bytes)
    (pid ex : Nat) (xn d : Bytes) : Post cl (NetcodeServer.handleConnectionRequest a s addr vi pid ex xn d) := by
  unfold NetcodeServer.handleConnectionRequest
  split
  · exact hs
  split
  · exact hs
  split
  · exact hs
  split
  · trivial
  · exact hs
  rename_i tok htok
  extract_lets inHost ac ic mac
  split
  · exact hs
  split
  · exact hs
  split
  · exact hs
  split
  rename_i s1 added hfa
  have hs1 : ids s1.clients = ids cl := by
    have := findOrAdd_clients s { address := addr, time := s.currentTime, mac := mac }
    rw [hfa] at this
    show ids s1.clients = ids cl
    rw [this]; exact hs
  split
  · exact hs1
  split
  · extract_lets s2
    refine post_bind (fun e s' he => ?_) (fun out _ => ?_)
    · rw [lift_err he]; exact hs1
    · refine post_bind (fun e s' he => absurd he incU64_not_err) (fun g _ => ?_)
      exact hs1
  · refine post_bind (fun e s' he => absurd he incU64_not_err) (fun cs _ => ?_)
    extract_lets s2
    refine post_bind (fun e s' he => ?_) (fun pk _ => ?_)
    · rw [lift_err he]; exact hs1
    refine post_bind (fun e s' he => ?_) (fun out _ => ?_)
    · rw [lift_err he]; exact hs1
    refine post_bind (fun e s' he => absurd he incU64_not_err) (fun g _ => ?_)
    exact hs1

theorem mem_ids_of_at {cl : Slots} {i : Nat} {c : Connection} (h : cl[i]? = some (some c)) : c.clientId ∈ ids cl := by
  obtain ⟨l1, l2, e1, _⟩ := ids_set cl i (some c) none h
  rw [e1]; simp [optId]

theorem ppi_post (a : AEAD) (s : NetcodeServer) (addr : Addr) (buf : Bytes) :
    Post s.clients (NetcodeServer.processPacketInternal a s addr buf) := by
  unfold NetcodeServer.processPacketInternal
  split
  · exact rfl
  split
  · -- datagram from the address of a connected client
    rename_i slot client hfa
    have hat := findAddr_some hfa
    split
    rename_i r rp hdec
    extract_lets client1 s1 client2
    have hs1 : ids s1.clients = ids s.clients := ids_set_same hat rfl
    have e0 : s1.clients.set slot none = s.clients.set slot none := List.set_set ..
    have e2 : s1.clients.set slot (some client2) = s.clients.set slot (some client2) := List.set_set ..
    have hs2 : ids (s1.clients.set slot (some client2)) = ids s.clients := by
      rw [e2]; exact ids_set_same hat rfl
    have hdis : TStep s.clients (s1.clients.set slot none) (.clientDisconnected client1.clientId addr none) := by
      rw [e0]; exact tstep_remove hat addr none
    split
    · trivial
    · exact hs1
    · split
      · split
        · exact hdis
        · exact ⟨hs2, (mem_ids_of_at hat : client.clientId ∈ ids s.clients)⟩
        · exact hs2
        · exact hs1
      · exact hs1
  split
  · -- datagram from the address of a pending client
    rename_i pending hpf
    split
    rename_i r rp hdec
    extract_lets pending1 s1 pending2 s2 s3
    split
    · trivial
    · exact rfl
    · 
      split
      · exact hcr_post a s.clients s2 rfl _ _ _ _ _ _
      · refine post_bind (fun e s' he => ?_) (fun ct _ => ?_)
        · rw [lift_err he]
        split
        · exact rfl
        rename_i hct
        split
        · exact rfl
        rename_i hfree
        split
        · refine post_bind (fun e s' he => ?_) (fun out _ => ?_)
          · rw [lift_err he]
          refine post_bind (fun e s' he => absurd he incU64_not_err) (fun g _ => ?_)
          exact rfl
        · rename_i clientIndex hff
          extract_lets pending3 packet
          refine post_bind (fun e s' he => ?_) (fun out _ => ?_)
          · rw [lift_err he]
          refine post_bind (fun e s' he => absurd he incU64_not_err) (fun sq _ => ?_)
          extract_lets pending4
          have hid : ct.clientId = pending.clientId := by
            apply Classical.byContradiction
            intro hn
            exact hct (Or.inl hn)
          have hnot : pending.clientId ∉ ids s.clients := by
            intro hm
            apply hfree
            rw [hid]
            exact findSlot_isSome.mpr hm
          obtain ⟨l1, l2, e1, e2⟩ := ids_set s.clients clientIndex none (some pending4) (firstFree_some hff)
          exact ⟨hnot, l1, l2, by simpa [optId] using e1, by simpa [optId] using e2⟩
      · exact rfl
  · -- datagram from an unknown address
    split
    rename_i r rp hdec
    split
    · trivial
    · exact rfl
    · split
      · exact hcr_post a s.clients s rfl _ _ _ _ _ _
      · trivial

/-- **`process_packet`**, any datagram from any address: the id table changes exactly as the returned
    `ServerResult` says -/
theorem processPacket_tstep {a : AEAD} {s s' : NetcodeServer} {addr : Addr} {buf : Bytes} {r : ServerResult}
    (h : s.processPacket a addr buf = .ok (r, s')) : TStep s.clients s'.clients r := by
  have hp := ppi_post a s addr buf
  unfold NetcodeServer.processPacket at h
  cases hx : NetcodeServer.processPacketInternal a s addr buf with
  | ok v =>
    rw [hx] at h hp
    simp only [Res.ok.injEq] at h
    subst h
    exact hp
  | err e =>
    obtain ⟨e, s1⟩ := e
    rw [hx] at h hp
    simp only [Res.ok.injEq, Prod.mk.injEq] at h
    obtain ⟨h1, h2⟩ := h
    subst h1; subst h2
    exact hp
  | panic m => rw [hx] at h; cases h

/-- the same for the infallible-by-type calls -/
def PostE (cl : Slots) : Res Empty (ServerResult × NetcodeServer) → Prop
  | .ok (r, s') => TStep cl s'.clients r
  | _ => True

theorem postE_bind {α : Type} {cl : Slots} {x : Res Empty α} {f : α → Res Empty (ServerResult × NetcodeServer)}
    (hf : ∀ v, x = .ok v → PostE cl (f v)) : PostE cl (x >>= f) := by
  cases x with
  | ok v => exact hf v rfl
  | err e => exact e.elim
  | panic m => trivial

theorem updateClient_post (a : AEAD) (s : NetcodeServer) (id : Nat) : PostE s.clients (s.updateClient a id) := by
  unfold NetcodeServer.updateClient
  split
  · exact rfl
  rename_i slot hslot
  obtain ⟨c, hat, hid⟩ := findSlot_some hslot
  split
  · exact rfl
  rename_i client hget
  have hc : client = c := by
    have := getD_eq hget
    rw [hat] at this
    simp only [Option.some.injEq] at this
    exact this.symm
  subst hc
  refine postE_bind (fun timedOut _ => ?_)
  extract_lets client1 s1 packet
  have hdis : ∀ p, TStep s.clients (s.clients.set slot none) (.clientDisconnected id client1.addr p) := by
    intro p
    have := tstep_remove hat client1.addr p
    rw [hid] at this
    exact this
  split
  · split
    · trivial
    · exact hdis none
    · rename_i out _
      exact hdis (some out)
  · generalize (durAdd client1.lastPacketSendTime C.NETCODE_SEND_RATE_NS "server.rs update_client: last_packet_send_time + SEND_RATE" : Res Empty Nat) = x
    apply postE_bind
    intro due _
    split
    · split
      · trivial
      · exact rfl
      · refine postE_bind (fun sq _ => ?_)
        extract_lets client2
        show ids (s.clients.set slot (some client2)) = ids s.clients
        refine ids_set_same hat ?_
        show [client1.clientId] = [client.clientId]
        have : client1.clientId = client.clientId := by
          show (if timedOut = true then _ else _ : Connection).clientId = _
          split <;> rfl
        rw [this]
    · exact rfl

theorem updateClient_tstep {a : AEAD} {s s' : NetcodeServer} {id : Nat} {r : ServerResult}
    (h : s.updateClient a id = .ok (r, s')) : TStep s.clients s'.clients r := by
  have hp := updateClient_post a s id
  rw [h] at hp
  exact hp

/-- **`disconnect(id)`**: a known id is removed and reported `ClientDisconnected id`; an unknown id is a no-op -/
theorem disconnect_spec {a : AEAD} {s s' : NetcodeServer} {id : Nat} {r : ServerResult}
    (h : s.disconnect a id = .ok (r, s')) :
    TStep s.clients s'.clients r ∧
    (id ∈ ids s.clients → ∃ ad p, r = .clientDisconnected id ad p) ∧
    (id ∉ ids s.clients → r = .none ∧ s' = s) := by
  unfold NetcodeServer.disconnect at h
  split at h
  · rename_i hnone
    simp only [Res.ok.injEq, Prod.mk.injEq] at h
    obtain ⟨h1, h2⟩ := h
    subst h1; subst h2
    exact ⟨rfl, fun hm => absurd hm (findSlot_none.mp hnone), fun _ => ⟨rfl, rfl⟩⟩
  · rename_i slot hslot
    obtain ⟨c, hat, hid⟩ := findSlot_some hslot
    have hmem : id ∈ ids s.clients := hid ▸ mem_ids_of_at hat
    split at h
    · cases h
    rename_i client hget
    have hc : client = c := by
      have := getD_eq hget
      rw [hat] at this
      simp only [Option.some.injEq] at this
      exact this.symm
    subst hc
    have hdis : ∀ p, TStep s.clients (s.clients.set slot none) (.clientDisconnected id client.addr p) := by
      intro p
      have := tstep_remove hat client.addr p
      rw [hid] at this
      exact this
    extract_lets s1 at h
    split at h
    · cases h
    · simp only [Res.ok.injEq, Prod.mk.injEq] at h
      obtain ⟨h1, h2⟩ := h
      subst h1; subst h2
      exact ⟨hdis _, fun _ => ⟨_, _, rfl⟩, fun hn => absurd hmem hn⟩
    · simp only [Res.ok.injEq, Prod.mk.injEq] at h
      obtain ⟨h1, h2⟩ := h
      subst h1; subst h2
      exact ⟨hdis _, fun _ => ⟨_, _, rfl⟩, fun hn => absurd hmem hn⟩

theorem update_clients {s s' : NetcodeServer} {d : Nat} (h : s.update d = .ok s') : s'.clients = s.clients := by
  unfold NetcodeServer.update at h
  cases hd : (durAdd s.currentTime d "server.rs update: current_time += duration" : Res Empty Nat) with
  | ok now => rw [hd] at h; simp only [Res.bind_ok, Res.pure_eq, Res.ok.injEq] at h; subst h; rfl
  | err e => exact e.elim
  | panic m => rw [hd] at h; cases h

/-- **`generate_payload_packet`**: only for an id in the table, which stays as it is -/
theorem generatePayloadPacket_ids {a : AEAD} {s s' : NetcodeServer} {id : Nat} {p : Bytes} {dg : Addr × Bytes}
    (h : s.generatePayloadPacket a id p = .ok (dg, s')) : ids s'.clients = ids s.clients ∧ id ∈ ids s.clients := by
  unfold NetcodeServer.generatePayloadPacket at h
  split at h
  · cases h
  split at h
  · rename_i slot client hslot hfind
    obtain ⟨c, hat, hid⟩ := findSlot_some hslot
    have hcid := findById_some hfind
    cases he : (Packet.payload p).encode a C.NETCODE_MAX_PACKET_BYTES s.protocolId (some (client.sequence, client.sendKey)) with
    | ok out =>
      rw [he] at h
      simp only [Res.bind_ok] at h
      cases hi : (incU64 client.sequence "server.rs generate_payload_packet: client.sequence += 1" : NRes Nat) with
      | ok sq =>
        rw [hi] at h
        simp only [Res.bind_ok, Res.pure_eq, Res.ok.injEq, Prod.mk.injEq] at h
        obtain ⟨_, h2⟩ := h
        subst h2
        refine ⟨ids_set_same hat ?_, hid ▸ mem_ids_of_at hat⟩
        show [client.clientId] = [c.clientId]
        rw [hcid, hid]
      | err e => rw [hi] at h; cases h
      | panic m => rw [hi] at h; cases h
    | err e => rw [he] at h; cases h
    | panic m => rw [he] at h; cases h
  · cases h

/-! ## Part 2 : `handle_server_result` and the lock-step relation -/

theorem contains_insert {α : Type} (m : SMap α) (k j : Nat) (v : α) :
    SMap.contains (SMap.insert m k v) j = true ↔ j = k ∨ SMap.contains m j = true := by
  unfold SMap.contains
  by_cases e : j = k
  · subst e; simp [SL.SMap.find?_insert_self]
  · simp [SL.SMap.find?_insert_ne _ _ _ _ e, e]

theorem contains_erase {α : Type} (m : SMap α) (hs : SL.SMap.Sorted m) (k j : Nat) :
    SMap.contains (SMap.erase m k) j = true ↔ j ≠ k ∧ SMap.contains m j = true := by
  unfold SMap.contains
  by_cases e : j = k
  · subst e; simp [SL.SMap.find?_erase_self _ _ hs]
  · simp [SL.SMap.find?_erase_ne _ _ _ e, e]

theorem contains_of_find {α : Type} {m : SMap α} {k : Nat} {v : α} (h : SMap.find? m k = some v) :
    SMap.contains m k = true := by simp [SMap.contains, h]

theorem find_of_contains {α : Type} {m : SMap α} {k : Nat} (h : SMap.contains m k = true) :
    ∃ v, SMap.find? m k = some v := by
  unfold SMap.contains at h
  cases hf : SMap.find? m k with
  | none => rw [hf] at h; cases h
  | some v => exact ⟨v, rfl⟩

/-- **Lock-step.**  The renet connection table and the netcode slot table hold the same client ids
    (`sync`); both tables are keyed without repetition (`nodup`: the ids in the slots are pairwise distinct,
    `sorted`: the `HashMap` keys of renet, modelled as a strictly ascending association list). -/
structure LockStep (g : ServerGlue) : Prop where
  nodup : g.netcode.clientsId.Nodup
  sorted : SL.SMap.Sorted g.renet.conns
  sync : ∀ id, SMap.contains g.renet.conns id = true ↔ id ∈ g.netcode.clientsId

/-- no connection of the renet table is in the disconnected state (`disconnections_id()` is empty) -/
def NoDead (rs : Server) : Prop := ∀ id c, SMap.find? rs.conns id = some c → c.isDisconnected = false

/-- the `RenetServer` calls `handle_server_result` makes for a netcode result -/
def opOf : ServerResult → List SL.SrvOp
  | .payload id p => [.processPacketFrom p id]
  | .clientConnected id _ _ _ => [.add id]
  | .clientDisconnected id _ _ => [.remove id]
  | .none => []
  | .packetToSend _ _ => []

/-- the datagrams `handle_server_result` hands to `send_to` for a netcode result -/
def dgOf : ServerResult → List Dgram
  | .packetToSend addr p => [(addr, p)]
  | .clientConnected _ addr _ p => [(addr, p)]
  | .clientDisconnected _ addr (some p) => [(addr, p)]
  | .clientDisconnected _ _ none => []
  | .payload _ _ => []
  | .none => []

/-- the event `handle_server_result` makes renet push for a netcode result while the tables are in lock-step -/
def evOf (rs : Server) : ServerResult → List Event
  | .clientConnected id _ _ _ => [.connected id]
  | .clientDisconnected id _ _ =>
    [.disconnected id (((SMap.find? rs.conns id).bind (·.disconnectReason)).getD .transport)]
  | .payload _ _ => []
  | .none => []
  | .packetToSend _ _ => []

/-- kind and id of an event / of a netcode result that is reported to the application -/
def evKey : Event → Bool × Nat
  | .connected id => (true, id)
  | .disconnected id _ => (false, id)

def resKey : ServerResult → Option (Bool × Nat)
  | .clientConnected id _ _ _ => some (true, id)
  | .clientDisconnected id _ _ => some (false, id)
  | .payload _ _ => none
  | .none => none
  | .packetToSend _ _ => none

theorem evOf_key (rs : Server) (r : ServerResult) : (evOf rs r).map evKey = (resKey r).toList := by
  cases r <;> rfl

theorem runSrv_single {st st' : SL.SrvState} {op : SL.SrvOp} (h : op.apply st = .ok st') :
    SL.runSrv st [op] = .ok st' := by
  simp [SL.runSrv, h]

/-- `handle_server_result` = the renet calls `opOf r` + the datagrams `dgOf r` -/
theorem handle_factor {r : ServerResult} {rs rs' : Server} {out out' : Array Dgram}
    (h : handleServerResult r rs out = .ok (rs', out')) (popped : List Event) :
    SL.runSrv (rs, popped) (opOf r) = .ok (rs', popped) ∧ out'.toList = out.toList ++ dgOf r := by
  cases r with
  | none => cases h; exact ⟨rfl, by simp [dgOf]⟩
  | packetToSend addr p => cases h; exact ⟨rfl, by simp [dgOf]⟩
  | payload id p =>
    simp only [handleServerResult] at h
    cases hp : rs.processPacketFrom p id with
    | ok x =>
      obtain ⟨rs1, ok⟩ := x
      rw [hp] at h
      simp only [Res.bind_ok, Res.pure_eq, Res.ok.injEq, Prod.mk.injEq] at h
      obtain ⟨h1, h2⟩ := h
      subst h1; subst h2
      refine ⟨runSrv_single ?_, by simp [dgOf]⟩
      simp [SL.SrvOp.apply, hp, SL.Res.stateOf, SL.keepPopped]
    | err e => exact e.elim
    | panic m => rw [hp] at h; cases h
  | clientConnected id addr ud p =>
    cases h
    exact ⟨runSrv_single rfl, by simp [dgOf]⟩
  | clientDisconnected id addr p =>
    cases p with
    | none => cases h; exact ⟨runSrv_single rfl, by simp [dgOf]⟩
    | some p => cases h; exact ⟨runSrv_single rfl, by simp [dgOf]⟩

/-- the renet state after `handle_server_result`, case by case -/
theorem handle_renet {r : ServerResult} {rs rs' : Server} {out out' : Array Dgram}
    (h : handleServerResult r rs out = .ok (rs', out')) :
    match r with
    | .payload id p => ∃ ok, rs.processPacketFrom p id = .ok (rs', ok)
    | .clientConnected id _ _ _ => rs' = rs.addConnection id
    | .clientDisconnected id _ _ => rs' = rs.removeConnection id
    | .none => rs' = rs
    | .packetToSend _ _ => rs' = rs := by
  cases r with
  | none => cases h; rfl
  | packetToSend addr p => cases h; rfl
  | payload id p =>
    simp only [handleServerResult] at h
    cases hp : rs.processPacketFrom p id with
    | ok x =>
      obtain ⟨rs1, ok⟩ := x
      rw [hp] at h
      simp only [Res.bind_ok, Res.pure_eq, Res.ok.injEq, Prod.mk.injEq] at h
      exact ⟨ok, by rw [← h.1]; exact hp⟩
    | err e => exact e.elim
    | panic m => rw [hp] at h; cases h
  | clientConnected id addr ud p => cases h; rfl
  | clientDisconnected id addr p =>
    cases p with
    | none => cases h; rfl
    | some p => cases h; rfl

/-- **the combined step**: a netcode call whose table effect is `TStep cl cl' r`, followed by
    `handle_server_result r`, keeps the two tables in bijection and pushes exactly the event `evOf rs r` -/
theorem handle_sync {cl cl' : Slots} {r : ServerResult} {rs rs' : Server} {out out' : Array Dgram}
    (ht : TStep cl cl' r) (hn : (ids cl).Nodup) (hs : SL.SMap.Sorted rs.conns)
    (hy : ∀ id, SMap.contains rs.conns id = true ↔ id ∈ ids cl)
    (h : handleServerResult r rs out = .ok (rs', out')) :
    (ids cl').Nodup ∧ SL.SMap.Sorted rs'.conns ∧ (∀ id, SMap.contains rs'.conns id = true ↔ id ∈ ids cl') ∧
    rs'.events = rs.events ++ evOf rs r := by
  have hr := handle_renet h
  cases r with
  | none =>
    simp only at hr; subst hr
    simp only [TStep] at ht
    rw [ht]; exact ⟨hn, hs, hy, by simp [evOf]⟩
  | packetToSend addr p =>
    simp only at hr; subst hr
    simp only [TStep] at ht
    rw [ht]; exact ⟨hn, hs, hy, by simp [evOf]⟩
  | payload id p =>
    simp only at hr
    obtain ⟨ok, hp⟩ := hr
    obtain ⟨ad, q, _⟩ := SL.Server.processPacketFrom_spec hp
    simp only [TStep] at ht
    rw [ht.1]
    exact ⟨hn, q.sorted hs, fun j => by rw [q.contains j]; exact hy j, by simp [evOf, ad.events]⟩
  | clientConnected id addr ud p =>
    simp only at hr; subst hr
    simp only [TStep] at ht
    obtain ⟨hnot, l1, l2, e1, e2⟩ := ht
    have hnc : SMap.contains rs.conns id = false := by
      cases hc : SMap.contains rs.conns id with
      | false => rfl
      | true => exact absurd ((hy id).mp hc) hnot
    rw [e1] at hn hnot hy
    rw [e2]
    unfold Server.addConnection
    rw [hnc]
    simp only [Bool.false_eq_true, if_false]
    refine ⟨by grind [List.nodup_append, List.nodup_cons], SL.SMap.sorted_insert _ _ _ hs, fun j => ?_, by simp [evOf]⟩
    rw [contains_insert, hy j]
    simp only [List.mem_append, List.mem_cons]
    constructor
    · rintro (h1 | h1 | h1)
      · exact Or.inr (Or.inl h1)
      · exact Or.inl h1
      · exact Or.inr (Or.inr h1)
    · rintro (h1 | h1 | h1)
      · exact Or.inr (Or.inl h1)
      · exact Or.inl h1
      · exact Or.inr (Or.inr h1)
  | clientDisconnected id addr p =>
    simp only at hr; subst hr
    simp only [TStep] at ht
    obtain ⟨l1, l2, e1, e2⟩ := ht
    have hc : SMap.contains rs.conns id = true := (hy id).mpr (by rw [e1]; simp)
    obtain ⟨c, hf⟩ := find_of_contains hc
    rw [e1] at hn hy
    rw [e2]
    have hnn : (l1 ++ l2).Nodup ∧ id ∉ l1 ++ l2 := by grind [List.nodup_append, List.nodup_cons]
    unfold Server.removeConnection
    rw [hf]
    refine ⟨hnn.1, SL.SMap.sorted_erase _ _ hs, fun j => ?_, by simp [evOf, hf]⟩
    show SMap.contains (SMap.erase rs.conns id) j = true ↔ _
    rw [contains_erase _ hs, hy j]
    simp only [List.mem_append, List.mem_cons]
    constructor
    · rintro ⟨hne, h1 | h1 | h1⟩
      · exact Or.inl h1
      · exact absurd h1 hne
      · exact Or.inr h1
    · intro h1
      refine ⟨?_, ?_⟩
      · intro e; subst e; exact hnn.2 (List.mem_append.mpr h1)
      · rcases h1 with h1 | h1
        · exact Or.inl h1
        · exact Or.inr (Or.inr h1)

theorem lockStep_handle {g : ServerGlue} {ns' : NetcodeServer} {r : ServerResult} {rs' : Server}
    {out out' : Array Dgram} (hl : LockStep g) (ht : TStep g.netcode.clients ns'.clients r)
    (h : handleServerResult r g.renet out = .ok (rs', out')) :
    LockStep { netcode := ns', renet := rs' } ∧ rs'.events = g.renet.events ++ evOf g.renet r := by
  obtain ⟨h1, h2, h3, h4⟩ := handle_sync ht hl.nodup hl.sorted hl.sync h
  exact ⟨⟨h1, h2, h3⟩, h4⟩

/-! ## Part 3 : the loops -/

/-- the common shape of the three loops of `update` and of `disconnect_all`:
    `for x in l { handle_server_result(f(netcode, x)) }` -/
def handleLoop {α : Type} (f : NetcodeServer → α → Res Empty (ServerResult × NetcodeServer)) (g : ServerGlue) :
    List α → Array Dgram → Res Empty (ServerGlue × Array Dgram)
  | [], out => pure (g, out)
  | x :: rest, out => do
    let (r, ns) ← f g.netcode x
    let (rs, out) ← handleServerResult r g.renet out
    handleLoop f { netcode := ns, renet := rs } rest out

theorem idLoop_eq (f : NetcodeServer → Nat → Res Empty (ServerResult × NetcodeServer)) :
    ∀ (l : List Nat) (g : ServerGlue) (out : Array Dgram), serverIdLoop f g l out = handleLoop f g l out
  | [], g, out => rfl
  | id :: rest, g, out => by
    simp only [serverIdLoop, handleLoop, idLoop_eq f rest]

theorem recvLoop_eq (a : AEAD) :
    ∀ (l : List Dgram) (g : ServerGlue) (out : Array Dgram),
      serverRecvLoop a g l out = handleLoop (fun ns d => ns.processPacket a d.1 d.2) g l out
  | [], g, out => rfl
  | (addr, buf) :: rest, g, out => by
    simp only [serverRecvLoop, handleLoop, recvLoop_eq a rest]

/-- the netcode half of a loop on its own: the results it returns, in order, and the final netcode state.
    (The netcode state never depends on renet.) -/
def ncTrace {α : Type} (f : NetcodeServer → α → Res Empty (ServerResult × NetcodeServer)) (ns : NetcodeServer) :
    List α → Res Empty (List ServerResult × NetcodeServer)
  | [] => pure ([], ns)
  | x :: rest => do
    let (r, ns1) ← f ns x
    let (tr, ns2) ← ncTrace f ns1 rest
    pure (r :: tr, ns2)

theorem runSrv_append : ∀ (l1 l2 : List SL.SrvOp) (st st1 st2 : SL.SrvState), SL.runSrv st l1 = .ok st1 →
    SL.runSrv st1 l2 = .ok st2 → SL.runSrv st (l1 ++ l2) = .ok st2
  | [], l2, st, st1, st2, h1, h2 => by cases h1; exact h2
  | op :: l1, l2, st, st1, st2, h1, h2 => by
    simp only [List.cons_append, SL.runSrv] at h1 ⊢
    split at h1
    · rename_i st' hop
      exact runSrv_append l1 l2 st' st1 st2 h1 h2
    · cases h1
    · cases h1

/-- one iteration of a loop, taken apart -/
theorem handleLoop_cons {α : Type} {f : NetcodeServer → α → Res Empty (ServerResult × NetcodeServer)}
    {g g' : ServerGlue} {x : α} {rest : List α} {out out' : Array Dgram}
    (h : handleLoop f g (x :: rest) out = .ok (g', out')) :
    ∃ r ns rs out1, f g.netcode x = .ok (r, ns) ∧ handleServerResult r g.renet out = .ok (rs, out1) ∧
      handleLoop f { netcode := ns, renet := rs } rest out1 = .ok (g', out') := by
  simp only [handleLoop] at h
  obtain ⟨⟨r, ns⟩, h1, h2⟩ := CI.bind_ok_cases h
  obtain ⟨⟨rs, out1⟩, h3, h4⟩ := CI.bind_ok_cases h2
  exact ⟨r, ns, rs, out1, h1, h3, h4⟩

/-- **factorisation of a loop**: the netcode results `tr` are those of the netcode calls alone; renet receives exactly the
    calls `opOf` of these results, in order; the datagrams sent are exactly `dgOf` of these results, in order -/
theorem handleLoop_factor {α : Type} (f : NetcodeServer → α → Res Empty (ServerResult × NetcodeServer))
    (popped : List Event) :
    ∀ (l : List α) (g g' : ServerGlue) (out out' : Array Dgram), handleLoop f g l out = .ok (g', out') →
    ∃ tr, ncTrace f g.netcode l = .ok (tr, g'.netcode) ∧
      SL.runSrv (g.renet, popped) (tr.flatMap opOf) = .ok (g'.renet, popped) ∧
      out'.toList = out.toList ++ tr.flatMap dgOf
  | [], g, g', out, out', h => by
    cases h
    exact ⟨[], rfl, rfl, by simp⟩
  | x :: rest, g, g', out, out', h => by
    obtain ⟨r, ns, rs, out1, h1, h2, h3⟩ := handleLoop_cons h
    obtain ⟨tr, t1, t2, t3⟩ := handleLoop_factor f popped rest _ g' out1 out' h3
    obtain ⟨f1, f2⟩ := handle_factor h2 popped
    refine ⟨r :: tr, ?_, ?_, ?_⟩
    · simp only [ncTrace, h1, Res.bind_ok]
      rw [t1]; rfl
    · rw [List.flatMap_cons]
      exact runSrv_append _ _ _ _ _ f1 t2
    · rw [t3, f2, List.flatMap_cons, List.append_assoc]

/-- a loop whose netcode call obeys `TStep` keeps lock-step, and the renet events it pushes are, in order,
    the connect / disconnect results of the netcode calls, with the same ids -/
theorem handleLoop_lockstep {α : Type} {f : NetcodeServer → α → Res Empty (ServerResult × NetcodeServer)}
    (hf : ∀ ns x r ns', f ns x = .ok (r, ns') → TStep ns.clients ns'.clients r) :
    ∀ (l : List α) (g g' : ServerGlue) (out out' : Array Dgram) (tr : List ServerResult),
    handleLoop f g l out = .ok (g', out') → ncTrace f g.netcode l = .ok (tr, g'.netcode) → LockStep g →
    LockStep g' ∧ ∃ new, g'.renet.events = g.renet.events ++ new ∧ new.map evKey = tr.filterMap resKey
  | [], g, g', out, out', tr, h, ht, hl => by
    cases h
    cases ht
    exact ⟨hl, [], by simp, rfl⟩
  | x :: rest, g, g', out, out', tr, h, ht, hl => by
    obtain ⟨r, ns, rs, out1, h1, h2, h3⟩ := handleLoop_cons h
    simp only [ncTrace, h1, Res.bind_ok] at ht
    obtain ⟨⟨tr1, ns2⟩, t1, t2⟩ := CI.bind_ok_cases ht
    simp only [Res.pure_eq, Res.ok.injEq, Prod.mk.injEq] at t2
    obtain ⟨t2, t3⟩ := t2
    subst t2; subst t3
    obtain ⟨hl1, he1⟩ := lockStep_handle hl (hf _ _ _ _ h1) h2
    obtain ⟨hl2, new, he2, hk⟩ := handleLoop_lockstep hf rest _ g' out1 out' tr1 h3 t1 hl1
    refine ⟨hl2, evOf g.renet r ++ new, ?_, ?_⟩
    · rw [he2]
      show rs.events ++ new = _
      rw [he1, List.append_assoc]
    · rw [List.map_append, evOf_key, hk, List.filterMap_cons]
      cases resKey r <;> rfl

abbrev ppF (a : AEAD) : NetcodeServer → Dgram → Res Empty (ServerResult × NetcodeServer) :=
  fun ns d => ns.processPacket a d.1 d.2
abbrev ucF (a : AEAD) : NetcodeServer → Nat → Res Empty (ServerResult × NetcodeServer) :=
  fun ns id => ns.updateClient a id
abbrev dcF (a : AEAD) : NetcodeServer → Nat → Res Empty (ServerResult × NetcodeServer) :=
  fun ns id => ns.disconnect a id

theorem ppF_tstep (a : AEAD) : ∀ ns x r ns', ppF a ns x = .ok (r, ns') → TStep ns.clients ns'.clients r :=
  fun _ _ _ _ h => processPacket_tstep h
theorem ucF_tstep (a : AEAD) : ∀ ns x r ns', ucF a ns x = .ok (r, ns') → TStep ns.clients ns'.clients r :=
  fun _ _ _ _ h => updateClient_tstep h
theorem dcF_tstep (a : AEAD) : ∀ ns x r ns', dcF a ns x = .ok (r, ns') → TStep ns.clients ns'.clients r :=
  fun _ _ _ _ h => (disconnect_spec h).1

theorem handleLoop_lockstep' {α : Type} {f : NetcodeServer → α → Res Empty (ServerResult × NetcodeServer)}
    (hf : ∀ ns x r ns', f ns x = .ok (r, ns') → TStep ns.clients ns'.clients r)
    {l : List α} {g g' : ServerGlue} {out out' : Array Dgram}
    (h : handleLoop f g l out = .ok (g', out')) (hl : LockStep g) : LockStep g' := by
  obtain ⟨tr, t1, _, _⟩ := handleLoop_factor f [] l g g' out out' h
  exact (handleLoop_lockstep hf l g g' out out' tr h t1 hl).1

theorem removeConnection_find_self (rs : Server) (hs : SL.SMap.Sorted rs.conns) (id : Nat) :
    SMap.find? (rs.removeConnection id).conns id = none := by
  unfold Server.removeConnection
  cases hf : SMap.find? rs.conns id with
  | none => exact hf
  | some c => exact SL.SMap.find?_erase_self _ _ hs

/-- the loop `for id in l { handle(netcode.disconnect(id)) }` under lock-step: every id of `l` is gone from
    renet afterwards, every other connection is untouched -/
theorem disconnectLoop_spec (a : AEAD) :
    ∀ (l : List Nat) (g g' : ServerGlue) (out out' : Array Dgram),
    handleLoop (dcF a) g l out = .ok (g', out') → LockStep g →
    (∀ j, j ∈ l → SMap.find? g'.renet.conns j = none) ∧
    (∀ j, j ∉ l → SMap.find? g'.renet.conns j = SMap.find? g.renet.conns j)
  | [], g, g', out, out', h, hl => by
    cases h
    exact ⟨fun j hj => by cases hj, fun j _ => rfl⟩
  | id :: rest, g, g', out, out', h, hl => by
    obtain ⟨r, ns, rs, out1, h1, h2, h3⟩ := handleLoop_cons h
    obtain ⟨ht, hin, hout⟩ := disconnect_spec h1
    obtain ⟨hl1, _⟩ := lockStep_handle hl ht h2
    obtain ⟨ih1, ih2⟩ := disconnectLoop_spec a rest _ g' out1 out' h3 hl1
    have hr := handle_renet h2
    have hself : SMap.find? rs.conns id = none := by
      by_cases hm : id ∈ ids g.netcode.clients
      · obtain ⟨ad, p, e⟩ := hin hm
        subst e
        simp only at hr
        rw [hr]
        exact removeConnection_find_self _ hl.sorted id
      · obtain ⟨e1, e2⟩ := hout hm
        subst e1
        simp only at hr
        rw [hr]
        cases hc : SMap.find? g.renet.conns id with
        | none => rfl
        | some c => exact absurd ((hl.sync id).mp (contains_of_find hc)) hm
    have hother : ∀ j, j ≠ id → SMap.find? rs.conns j = SMap.find? g.renet.conns j := by
      intro j hj
      by_cases hm : id ∈ ids g.netcode.clients
      · obtain ⟨ad, p, e⟩ := hin hm
        subst e
        simp only at hr
        rw [hr]
        exact SL.removeConnection_frame _ _ _ hj
      · obtain ⟨e1, e2⟩ := hout hm
        subst e1
        simp only at hr
        rw [hr]
    refine ⟨fun j hj => ?_, fun j hj => ?_⟩
    · by_cases hjr : j ∈ rest
      · exact ih1 j hjr
      · have : j = id := by
          rcases List.mem_cons.mp hj with e | e
          · exact e
          · exact absurd e hjr
        subst this
        rw [ih2 j hjr]; exact hself
    · have hne : j ≠ id := fun e => hj (e ▸ List.mem_cons_self)
      have hjr : j ∉ rest := fun e => hj (List.mem_cons_of_mem _ e)
      rw [ih2 j hjr]; exact hother j hne

theorem mem_disconnectionsId {rs : Server} {j : Nat} {c : Conn} (hf : SMap.find? rs.conns j = some c)
    (hd : c.isDisconnected = true) : j ∈ rs.disconnectionsId := by
  unfold Server.disconnectionsId
  exact List.mem_map.mpr ⟨(j, c), List.mem_filter.mpr ⟨SMap.mem_of_find? hf, hd⟩, rfl⟩

theorem contains_of_mem_clientsId {rs : Server} {j : Nat} (h : j ∈ rs.clientsId) : SMap.contains rs.conns j = true := by
  unfold Server.clientsId at h
  obtain ⟨x, hx, rfl⟩ := List.mem_map.mp h
  have hk : x.1 ∈ SMap.keys rs.conns := List.mem_map.mpr ⟨x, (List.mem_filter.mp hx).1, rfl⟩
  rw [SL.SMap.contains_iff]
  intro hn
  exact (SL.SMap.find?_eq_none_iff _ _).mp hn hk

/-- `NetcodeServerTransport::update`, taken apart into its four stages -/
theorem serverUpdate_unfold {a : AEAD} {g g' : ServerGlue} {d : Nat} {inbox : List Dgram} {out : Array Dgram}
    (h : serverUpdate a g d inbox = .ok (g', out)) :
    ∃ ns0 g1 out1 g2 out2, g.netcode.update d = .ok ns0 ∧
      handleLoop (ppF a) { g with netcode := ns0 } inbox #[] = .ok (g1, out1) ∧
      handleLoop (ucF a) g1 g1.netcode.clientsId out1 = .ok (g2, out2) ∧
      handleLoop (dcF a) g2 g2.renet.disconnectionsId out2 = .ok (g', out) := by
  unfold serverUpdate at h
  obtain ⟨ns0, h0, h⟩ := CI.bind_ok_cases h
  obtain ⟨⟨g1, out1⟩, h1, h⟩ := CI.bind_ok_cases h
  obtain ⟨⟨g2, out2⟩, h2, h3⟩ := CI.bind_ok_cases h
  rw [recvLoop_eq] at h1
  rw [idLoop_eq] at h2 h3
  exact ⟨ns0, g1, out1, g2, out2, h0, h1, h2, h3⟩

/-- **(b)** `update` keeps lock-step and leaves no disconnected connection in the renet table: a disconnect decided
    by the message layer (an error on a channel, `RenetServer::disconnect`) ends the netcode session and removes the
    connection within this one `update` -/
theorem serverUpdate_lockstep {a : AEAD} {g g' : ServerGlue} {d : Nat} {inbox : List Dgram} {out : Array Dgram}
    (h : serverUpdate a g d inbox = .ok (g', out)) (hl : LockStep g) : LockStep g' ∧ NoDead g'.renet := by
  obtain ⟨ns0, g1, out1, g2, out2, h0, h1, h2, h3⟩ := serverUpdate_unfold h
  have hl0 : LockStep { g with netcode := ns0 } := by
    refine ⟨?_, hl.sorted, ?_⟩
    · show (ids ns0.clients).Nodup
      rw [update_clients h0]; exact hl.nodup
    · intro id
      show _ ↔ id ∈ ids ns0.clients
      rw [update_clients h0]; exact hl.sync id
  have hl1 := handleLoop_lockstep' (ppF_tstep a) h1 hl0
  have hl2 := handleLoop_lockstep' (ucF_tstep a) h2 hl1
  have hl3 := handleLoop_lockstep' (dcF_tstep a) h3 hl2
  obtain ⟨d1, d2⟩ := disconnectLoop_spec a _ g2 g' out2 out h3 hl2
  refine ⟨hl3, fun j c hf => ?_⟩
  cases hd : c.isDisconnected with
  | false => rfl
  | true =>
    by_cases hj : j ∈ g2.renet.disconnectionsId
    · rw [d1 j hj] at hf; cases hf
    · rw [d2 j hj] at hf
      exact absurd (mem_disconnectionsId hf hd) hj

/-! #### `send_packets` -/

theorem sendClient_ids (a : AEAD) (id : Nat) : ∀ (ps : List Bytes) (ns ns' : NetcodeServer) (out out' : Array Dgram),
    serverSendClient a ns id ps out = .ok (ns', out') → ids ns'.clients = ids ns.clients
  | [], ns, ns', out, out', h => by cases h; rfl
  | p :: rest, ns, ns', out, out', h => by
    simp only [serverSendClient] at h
    split at h
    · cases h
    · cases h; rfl
    · rename_i addr dg ns1 hg
      rw [sendClient_ids a id rest ns1 ns' _ out' h]
      exact (generatePayloadPacket_ids hg).1

theorem sendLoop_cons {a : AEAD} {g g' : ServerGlue} {id : Nat} {rest : List Nat} {out out' : Array Dgram}
    (h : serverSendLoop a g (id :: rest) out = .ok (g', out')) :
    ∃ rs ps ns out1, g.renet.getPacketsToSend id = .ok (rs, some ps) ∧
      serverSendClient a g.netcode id ps out = .ok (ns, out1) ∧
      serverSendLoop a { netcode := ns, renet := rs } rest out1 = .ok (g', out') := by
  simp only [serverSendLoop] at h
  obtain ⟨⟨rs, ps⟩, h1, h2⟩ := CI.bind_ok_cases h
  cases ps with
  | none => cases h2
  | some ps =>
    obtain ⟨⟨ns, out1⟩, h3, h4⟩ := CI.bind_ok_cases h2
    exact ⟨rs, ps, ns, out1, h1, h3, h4⟩

/-- **(c)** `send_packets` keeps lock-step: it only replaces connections under existing keys and slot contents
    under existing ids, and pushes no event -/
theorem sendLoop_lockstep (a : AEAD) : ∀ (l : List Nat) (g g' : ServerGlue) (out out' : Array Dgram),
    serverSendLoop a g l out = .ok (g', out') → LockStep g →
    LockStep g' ∧ SL.QuietC g.renet.conns g'.renet.conns ∧ g'.renet.events = g.renet.events
  | [], g, g', out, out', h, hl => by
    cases h
    exact ⟨hl, SL.QuietC.refl _, rfl⟩
  | id :: rest, g, g', out, out', h, hl => by
    obtain ⟨rs, ps, ns, out1, h1, h2, h3⟩ := sendLoop_cons h
    obtain ⟨ad, q, _⟩ := SL.Server.getPacketsToSend_spec h1
    have hi := sendClient_ids a id ps _ _ _ _ h2
    have hl1 : LockStep { netcode := ns, renet := rs } := by
      refine ⟨?_, q.sorted hl.sorted, fun j => ?_⟩
      · show (ids ns.clients).Nodup
        rw [hi]; exact hl.nodup
      · show SMap.contains rs.conns j = true ↔ j ∈ ids ns.clients
        rw [hi, q.contains j]; exact hl.sync j
    obtain ⟨hl2, q2, e2⟩ := sendLoop_lockstep a rest _ g' out1 out' h3 hl1
    exact ⟨hl2, q.trans q2, e2.trans ad.events⟩

theorem serverSendPackets_lockstep {a : AEAD} {g g' : ServerGlue} {out : Array Dgram}
    (h : serverSendPackets a g = .ok (g', out)) (hl : LockStep g) :
    LockStep g' ∧ SL.QuietC g.renet.conns g'.renet.conns ∧ g'.renet.events = g.renet.events :=
  sendLoop_lockstep a _ g g' _ out h hl

theorem noDead_of_quiet_sorted {m m' : SMap Conn} (q : SL.QuietC m m') : True := trivial

/-! #### `disconnect_all` -/

theorem smap_eq_nil_of_find {α : Type} {m : SMap α} (h : ∀ j, SMap.find? m j = none) : m = [] := by
  cases m with
  | nil => rfl
  | cons p r =>
    obtain ⟨k, v⟩ := p
    have := h k
    simp [SMap.find?] at this

/-- **(c)** `disconnect_all` keeps lock-step and empties both tables -/
theorem serverDisconnectAll_lockstep {a : AEAD} {g g' : ServerGlue} {out : Array Dgram}
    (h : serverDisconnectAll a g = .ok (g', out)) (hl : LockStep g) :
    LockStep g' ∧ g'.renet.conns = [] ∧ g'.netcode.clientsId = [] := by
  unfold serverDisconnectAll at h
  rw [idLoop_eq] at h
  have hl' := handleLoop_lockstep' (dcF_tstep a) h hl
  obtain ⟨d1, d2⟩ := disconnectLoop_spec a _ g g' _ out h hl
  have hnone : ∀ j, SMap.find? g'.renet.conns j = none := by
    intro j
    by_cases hj : j ∈ g.netcode.clientsId
    · exact d1 j hj
    · rw [d2 j hj]
      cases hc : SMap.find? g.renet.conns j with
      | none => rfl
      | some c => exact absurd ((hl.sync j).mp (contains_of_find hc)) hj
  refine ⟨hl', smap_eq_nil_of_find hnone, ?_⟩
  apply List.eq_nil_iff_forall_not_mem.mpr
  intro j hj
  have := (hl'.sync j).mpr hj
  simp [SMap.contains, hnone j] at this

end RenetVerif.GI
