/-
  Transport glue (renet_netcode/src/{server,client}.rs, model `Transport/Glue.lean`) : property C20.

  Part 1  the netcode slot table: which public call adds / removes which client id (`TStep`), where a `Payload` /
          `ClientDisconnected` result of `process_packet` comes from (`Auth`), when `update_client` drops a client
          (`UCShape`); proved by unfolding the netcode model, no table invariant assumed
  Part 2  `handle_server_result` against the renet connection table: the combined step (`handle_sync`), `LockStep`
  Part 3  the loops of `update` / `send_packets` / `disconnect_all` (`handleLoop`), their factorisation into a netcode-only
          run (`ncTrace`) + renet calls (`opOf`) + datagrams (`dgOf`); `runGlue`, `GInv`
  Part 4  `update` factorised (`IsUpdateRun`); the event log mirrors the netcode results
  Part 5  payload routing, inbound and outbound (`Sealed`, `SendRun`); why a session ends on the server
  Part 6  the client glue, branch by branch
  Part 7  no unwinding: `disconnect_all` and the client `update` total; server `update` / `send_packets` unwind only if a
          netcode call does (`NcPanic`)
  Part 8  no server-side connection is ever `Connecting` (`Live`); after `update`, renet's connected ids = netcode's ids
-/
import RenetVerif.Transport.Glue
import RenetVerif.Lemmas.ServerLemmas
import RenetVerif.Lemmas.ConnInv
import RenetVerif.Lemmas.NcWire
namespace RenetVerif.GI
open RenetVerif RenetVerif.Netcode RenetVerif.Transport

/-! ## Part 1 : the netcode slot table -/

abbrev Slots := List (Option Connection)

/-- the client id stored in a slot, as a list of length ≤ 1 -/
def optId : Option Connection → List Nat
  | some c => [c.clientId]
  | none => []

/-- `clients_id` of a slot table -/
def ids (cl : Slots) : List Nat := cl.filterMap fun c => c.map (·.clientId)

theorem clientsId_eq (s : NetcodeServer) : s.clientsId = ids s.clients := rfl

theorem ids_nil : ids [] = [] := rfl

theorem ids_cons (x : Option Connection) (cl : Slots) : ids (x :: cl) = optId x ++ ids cl := by
  cases x <;> simp [ids, optId]

theorem ids_replicate_none (n : Nat) : ids (List.replicate n none) = [] := by
  induction n with
  | zero => rfl
  | succ n ih => rw [List.replicate_succ, ids_cons, ih]; rfl

/-- overwriting slot `i` (holding `x`) with `y` replaces the id of `x` by the id of `y`, in place -/
theorem ids_set : ∀ (cl : Slots) (i : Nat) (x y : Option Connection), cl[i]? = some x →
    ∃ l1 l2, ids cl = l1 ++ optId x ++ l2 ∧ ids (cl.set i y) = l1 ++ optId y ++ l2
  | [], i, x, y, h => by simp at h
  | z :: cl, 0, x, y, h => by
    simp only [List.getElem?_cons_zero, Option.some.injEq] at h
    subst h
    exact ⟨[], ids cl, by simp [ids_cons], by simp [ids_cons]⟩
  | z :: cl, i + 1, x, y, h => by
    simp only [List.getElem?_cons_succ] at h
    obtain ⟨l1, l2, e1, e2⟩ := ids_set cl i x y h
    refine ⟨optId z ++ l1, l2, ?_, ?_⟩
    · rw [ids_cons, e1]; simp
    · rw [List.set_cons_succ, ids_cons, e2]; simp

theorem ids_set_same {cl : Slots} {i : Nat} {x y : Option Connection} (h : cl[i]? = some x)
    (hxy : optId y = optId x) : ids (cl.set i y) = ids cl := by
  obtain ⟨l1, l2, e1, e2⟩ := ids_set cl i x y h
  rw [e1, e2, hxy]

theorem getD_eq {cl : Slots} {i : Nat} {c : Connection} (h : cl.getD i none = some c) : cl[i]? = some (some c) := by
  rw [List.getD_eq_getElem?_getD] at h
  cases hc : cl[i]? with
  | none => rw [hc] at h; cases h
  | some x => rw [hc] at h; simp only [Option.getD_some] at h; rw [h]

theorem findSlot_go_some (id : Nat) : ∀ (cl : Slots) (k i : Nat), findClientSlotById.go id cl k = some i →
    ∃ c, k ≤ i ∧ cl[i - k]? = some (some c) ∧ c.clientId = id
  | [], k, i, h => by simp [findClientSlotById.go] at h
  | none :: cl, k, i, h => by
    simp only [findClientSlotById.go] at h
    obtain ⟨c, h1, h2, h3⟩ := findSlot_go_some id cl (k + 1) i h
    refine ⟨c, by omega, ?_, h3⟩
    have : i - k = (i - (k + 1)) + 1 := by omega
    rw [this, List.getElem?_cons_succ]; exact h2
  | some c0 :: cl, k, i, h => by
    simp only [findClientSlotById.go] at h
    split at h
    · rename_i hc
      cases h
      exact ⟨c0, Nat.le_refl _, by simp, hc⟩
    · obtain ⟨c, h1, h2, h3⟩ := findSlot_go_some id cl (k + 1) i h
      refine ⟨c, by omega, ?_, h3⟩
      have : i - k = (i - (k + 1)) + 1 := by omega
      rw [this, List.getElem?_cons_succ]; exact h2

theorem findSlot_go_none (id : Nat) : ∀ (cl : Slots) (k : Nat), findClientSlotById.go id cl k = none ↔ id ∉ ids cl
  | [], k => by simp [findClientSlotById.go, ids]
  | none :: cl, k => by
    simp only [findClientSlotById.go, ids_cons, optId, List.nil_append]
    exact findSlot_go_none id cl (k + 1)
  | some c0 :: cl, k => by
    simp only [findClientSlotById.go, ids_cons, optId, List.cons_append, List.nil_append, List.mem_cons, not_or]
    split
    · rename_i hc
      simp [hc]
    · rename_i hc
      rw [findSlot_go_none id cl (k + 1)]
      exact ⟨fun h => ⟨fun e => hc e.symm, h⟩, fun h => h.2⟩

theorem findSlot_some {cl : Slots} {id i : Nat} (h : findClientSlotById cl id = some i) :
    ∃ c, cl[i]? = some (some c) ∧ c.clientId = id := by
  obtain ⟨c, _, h2, h3⟩ := findSlot_go_some id cl 0 i h
  exact ⟨c, h2, h3⟩

theorem findSlot_none {cl : Slots} {id : Nat} : findClientSlotById cl id = none ↔ id ∉ ids cl :=
  findSlot_go_none id cl 0

theorem findSlot_isSome {cl : Slots} {id : Nat} : (findClientSlotById cl id).isSome = true ↔ id ∈ ids cl := by
  cases h : findClientSlotById cl id with
  | none => simp [findSlot_none.mp h]
  | some i =>
    simp only [Option.isSome_some, true_iff]
    apply Classical.byContradiction
    intro hn
    rw [findSlot_none.mpr hn] at h
    cases h

theorem findById_some : ∀ {cl : Slots} {id : Nat} {c : Connection}, findClientById cl id = some c → c.clientId = id
  | [], id, c, h => by simp [findClientById] at h
  | none :: cl, id, c, h => by
    simp only [findClientById] at h
    exact findById_some h
  | some c0 :: cl, id, c, h => by
    simp only [findClientById] at h
    split at h
    · rename_i hc; cases h; exact hc
    · exact findById_some h

theorem findAddr_go_some (ad : Addr) : ∀ (cl : Slots) (k i : Nat) (c : Connection),
    findClientByAddr.go ad cl k = some (i, c) → k ≤ i ∧ cl[i - k]? = some (some c)
  | [], k, i, c, h => by simp [findClientByAddr.go] at h
  | none :: cl, k, i, c, h => by
    simp only [findClientByAddr.go] at h
    obtain ⟨h1, h2⟩ := findAddr_go_some ad cl (k + 1) i c h
    refine ⟨by omega, ?_⟩
    have : i - k = (i - (k + 1)) + 1 := by omega
    rw [this, List.getElem?_cons_succ]; exact h2
  | some c0 :: cl, k, i, c, h => by
    simp only [findClientByAddr.go] at h
    split at h
    · simp only [Option.some.injEq, Prod.mk.injEq] at h
      obtain ⟨e1, e2⟩ := h
      subst e1; subst e2
      exact ⟨Nat.le_refl _, by simp⟩
    · obtain ⟨h1, h2⟩ := findAddr_go_some ad cl (k + 1) i c h
      refine ⟨by omega, ?_⟩
      have : i - k = (i - (k + 1)) + 1 := by omega
      rw [this, List.getElem?_cons_succ]; exact h2

theorem findAddr_some {cl : Slots} {ad : Addr} {i : Nat} {c : Connection}
    (h : findClientByAddr cl ad = some (i, c)) : cl[i]? = some (some c) :=
  (findAddr_go_some ad cl 0 i c h).2

theorem firstFree_go_some : ∀ (cl : Slots) (k i : Nat), firstFreeSlot.go cl k = some i →
    k ≤ i ∧ cl[i - k]? = some none
  | [], k, i, h => by simp [firstFreeSlot.go] at h
  | none :: cl, k, i, h => by
    simp only [firstFreeSlot.go, Option.some.injEq] at h
    subst h
    exact ⟨Nat.le_refl _, by simp⟩
  | some c0 :: cl, k, i, h => by
    simp only [firstFreeSlot.go] at h
    obtain ⟨h1, h2⟩ := firstFree_go_some cl (k + 1) i h
    refine ⟨by omega, ?_⟩
    have : i - k = (i - (k + 1)) + 1 := by omega
    rw [this, List.getElem?_cons_succ]; exact h2

theorem firstFree_some {cl : Slots} {i : Nat} (h : firstFreeSlot cl = some i) : cl[i]? = some none :=
  (firstFree_go_some cl 0 i h).2

/-- what one netcode server call may do to the id table, by the `ServerResult` it returns:
    `ClientConnected id` – `id` was absent and is inserted; `ClientDisconnected id` – one occurrence of
    `id` is removed; `Payload id` – table unchanged and `id` present; otherwise table unchanged -/
def TStep (cl cl' : Slots) : ServerResult → Prop
  | .clientConnected id _ _ _ => id ∉ ids cl ∧ ∃ l1 l2, ids cl = l1 ++ l2 ∧ ids cl' = l1 ++ id :: l2
  | .clientDisconnected id _ _ => ∃ l1 l2, ids cl = l1 ++ id :: l2 ∧ ids cl' = l1 ++ l2
  | .payload id _ => ids cl' = ids cl ∧ id ∈ ids cl
  | .none => ids cl' = ids cl
  | .packetToSend _ _ => ids cl' = ids cl

theorem TStep.congr_left {cl0 cl cl' : Slots} {r : ServerResult} (e : ids cl = ids cl0) (h : TStep cl cl' r) :
    TStep cl0 cl' r := by
  cases r <;> simp only [TStep] at h ⊢ <;> rw [← e] <;> exact h

theorem tstep_remove {cl : Slots} {i : Nat} {c : Connection} (h : cl[i]? = some (some c)) (ad : Addr) (p : Option Bytes) :
    TStep cl (cl.set i none) (.clientDisconnected c.clientId ad p) := by
  obtain ⟨l1, l2, e1, e2⟩ := ids_set cl i (some c) none h
  exact ⟨l1, l2, by simpa [optId] using e1, by simpa [optId] using e2⟩

/-- result of the fallible netcode server calls: table effect `TStep` and a further property `A` of the result on
    success, table ids unchanged on error -/
def Post (cl : Slots) (A : ServerResult → Prop) : NetcodeServer.SRes → Prop
  | .ok (r, s') => TStep cl s'.clients r ∧ A r
  | .err (_, s') => ids s'.clients = ids cl
  | .panic _ => True

/-- `A` holds of the results that concern no connected client -/
structure Benign (A : ServerResult → Prop) : Prop where
  none : A .none
  toSend : ∀ ad p, A (.packetToSend ad p)

theorem post_bind {α : Type} {cl : Slots} {A : ServerResult → Prop} {x : Res (NetcodeError × NetcodeServer) α}
    {f : α → NetcodeServer.SRes}
    (hx : ∀ e s', x = .err (e, s') → ids s'.clients = ids cl) (hf : ∀ v, x = .ok v → Post cl A (f v)) :
    Post cl A (x >>= f) := by
  cases x with
  | ok v => exact hf v rfl
  | err e => obtain ⟨e, s'⟩ := e; exact hx e s' rfl
  | panic m => trivial

theorem lift_err {α : Type} {s s' : NetcodeServer} {y : NRes α} {e : NetcodeError}
    (h : NetcodeServer.lift s y = .err (e, s')) : s' = s := by
  cases y <;> simp [NetcodeServer.lift] at h
  exact h.2.symm

theorem incU64_not_err {ε : Type} {a : Nat} {site : String} {e : ε} : (incU64 a site : Res ε Nat) ≠ .err e := by
  unfold incU64; split <;> simp

theorem findOrAdd_clients (s : NetcodeServer) (e : ConnectTokenEntry) :
    (s.findOrAddConnectTokenEntry e).1.clients = s.clients := by
  unfold NetcodeServer.findOrAddConnectTokenEntry
  extract_lets st
  split <;> rfl

theorem hcr_post (a : AEAD) (cl : Slots) {A : ServerResult → Prop} (hA : Benign A) (s : NetcodeServer)
    (hs : ids s.clients = ids cl) (addr : Addr) (vi : Bytes)
    (pid ex : Nat) (xn d : Bytes) : Post cl A (NetcodeServer.handleConnectionRequest a s addr vi pid ex xn d) := by
  unfold NetcodeServer.handleConnectionRequest
  split
  · exact hs
  split
  · exact hs
  split
  · exact hs
  split
  · trivial
  · exact hs
  rename_i tok htok
  extract_lets inHost ac ic mac
  split
  · exact hs
  split
  · exact ⟨hs, hA.none⟩
  split
  · exact ⟨hs, hA.none⟩
  split
  rename_i s1 added hfa
  have hs1 : ids s1.clients = ids cl := by
    have := findOrAdd_clients s { address := addr, time := s.currentTime, mac := mac }
    rw [hfa] at this
    show ids s1.clients = ids cl
    rw [this]; exact hs
  split
  · exact ⟨hs1, hA.none⟩
  split
  · extract_lets s2
    refine post_bind (fun e s' he => ?_) (fun out _ => ?_)
    · rw [lift_err he]; exact hs1
    · refine post_bind (fun e s' he => absurd he incU64_not_err) (fun g _ => ?_)
      exact ⟨hs1, hA.toSend _ _⟩
  · refine post_bind (fun e s' he => absurd he incU64_not_err) (fun cs _ => ?_)
    extract_lets s2
    refine post_bind (fun e s' he => ?_) (fun pk _ => ?_)
    · rw [lift_err he]; exact hs1
    refine post_bind (fun e s' he => ?_) (fun out _ => ?_)
    · rw [lift_err he]; exact hs1
    refine post_bind (fun e s' he => absurd he incU64_not_err) (fun g _ => ?_)
    exact ⟨hs1, hA.toSend _ _⟩

theorem mem_ids_of_at {cl : Slots} {i : Nat} {c : Connection} (h : cl[i]? = some (some c)) : c.clientId ∈ ids cl := by
  obtain ⟨l1, l2, e1, _⟩ := ids_set cl i (some c) none h
  rw [e1]; simp [optId]

/-- **where a `Payload` / `ClientDisconnected` result of `process_packet` comes from**: the datagram came from the
    address of a connected client with that id and decodes — under that client's receive key and replay window — as a
    payload packet with these bytes / as a disconnect packet.  (With C04 this makes it that client's own datagram.) -/
def Auth (a : AEAD) (s : NetcodeServer) (addr : Addr) (buf : Bytes) : ServerResult → Prop
  | .payload id p => ∃ slot client sq rp, findClientByAddr s.clients addr = some (slot, client) ∧
      client.clientId = id ∧ client.state = .connected ∧
      Netcode.Packet.decode a buf s.protocolId (some client.receiveKey) (some client.replayProtection) =
        (Res.ok (sq, Netcode.Packet.payload p), rp)
  | .clientDisconnected id ad pl => ∃ slot client sq rp, findClientByAddr s.clients addr = some (slot, client) ∧
      client.clientId = id ∧ client.state = .connected ∧ ad = addr ∧ pl = none ∧
      Netcode.Packet.decode a buf s.protocolId (some client.receiveKey) (some client.replayProtection) =
        (Res.ok (sq, Netcode.Packet.disconnect), rp)
  | .clientConnected _ ad _ _ => ad = addr
  | .none => True
  | .packetToSend _ _ => True

theorem auth_benign (a : AEAD) (s : NetcodeServer) (addr : Addr) (buf : Bytes) : Benign (Auth a s addr buf) :=
  ⟨trivial, fun _ _ => trivial⟩

theorem ppi_post (a : AEAD) (s : NetcodeServer) (addr : Addr) (buf : Bytes) :
    Post s.clients (Auth a s addr buf) (NetcodeServer.processPacketInternal a s addr buf) := by
  have hB := auth_benign a s addr buf
  unfold NetcodeServer.processPacketInternal
  split
  · exact rfl
  split
  · -- datagram from the address of a connected client
    rename_i slot client hfa
    have hat := findAddr_some hfa
    split
    rename_i r rp hdec
    extract_lets client1 s1 client2
    have hs1 : ids s1.clients = ids s.clients := ids_set_same hat rfl
    have e0 : s1.clients.set slot none = s.clients.set slot none := List.set_set ..
    have e2 : s1.clients.set slot (some client2) = s.clients.set slot (some client2) := List.set_set ..
    have hs2 : ids (s1.clients.set slot (some client2)) = ids s.clients := by
      rw [e2]; exact ids_set_same hat rfl
    have hdis : TStep s.clients (s1.clients.set slot none) (.clientDisconnected client1.clientId addr none) := by
      rw [e0]; exact tstep_remove hat addr none
    split
    · trivial
    · exact hs1
    · split
      · rename_i hstate
        split
        · exact ⟨hdis, slot, client, _, rp, hfa, rfl, hstate, rfl, rfl, hdec⟩
        · exact ⟨⟨hs2, (mem_ids_of_at hat : client.clientId ∈ ids s.clients)⟩, slot, client, _, rp, hfa, rfl, hstate, hdec⟩
        · exact ⟨hs2, trivial⟩
        · exact ⟨hs1, trivial⟩
      · exact ⟨hs1, trivial⟩
  split
  · -- datagram from the address of a pending client
    rename_i pending hpf
    split
    rename_i r rp hdec
    extract_lets pending1 s1 pending2 s2 s3
    split
    · trivial
    · exact rfl
    · split
      · exact hcr_post a s.clients hB s2 rfl _ _ _ _ _ _
      · refine post_bind (fun e s' he => ?_) (fun ct _ => ?_)
        · rw [lift_err he]
        split
        · exact ⟨rfl, trivial⟩
        rename_i hct
        split
        · exact ⟨rfl, trivial⟩
        rename_i hfree
        split
        · refine post_bind (fun e s' he => ?_) (fun out _ => ?_)
          · rw [lift_err he]
          refine post_bind (fun e s' he => absurd he incU64_not_err) (fun g _ => ?_)
          exact ⟨rfl, trivial⟩
        · rename_i clientIndex hff
          extract_lets pending3 packet
          refine post_bind (fun e s' he => ?_) (fun out _ => ?_)
          · rw [lift_err he]
          refine post_bind (fun e s' he => absurd he incU64_not_err) (fun sq _ => ?_)
          extract_lets pending4
          have hid : ct.clientId = pending.clientId := by
            apply Classical.byContradiction
            intro hn
            exact hct (Or.inl hn)
          have hnot : pending.clientId ∉ ids s.clients := by
            intro hm
            apply hfree
            rw [hid]
            exact findSlot_isSome.mpr hm
          obtain ⟨l1, l2, e1, e2⟩ := ids_set s.clients clientIndex none (some pending4) (firstFree_some hff)
          exact ⟨⟨hnot, l1, l2, by simpa [optId] using e1, by simpa [optId] using e2⟩, rfl⟩
      · exact ⟨rfl, trivial⟩
  · -- datagram from an unknown address
    split
    rename_i r rp hdec
    split
    · trivial
    · exact rfl
    · split
      · exact hcr_post a s.clients hB s rfl _ _ _ _ _ _
      · trivial

theorem processPacket_post {a : AEAD} {s s' : NetcodeServer} {addr : Addr} {buf : Bytes} {r : ServerResult}
    (h : s.processPacket a addr buf = .ok (r, s')) : TStep s.clients s'.clients r ∧ Auth a s addr buf r := by
  have hp := ppi_post a s addr buf
  unfold NetcodeServer.processPacket at h
  cases hx : NetcodeServer.processPacketInternal a s addr buf with
  | ok v =>
    rw [hx] at h hp
    simp only [Res.ok.injEq] at h
    subst h
    exact hp
  | err e =>
    obtain ⟨e, s1⟩ := e
    rw [hx] at h hp
    simp only [Res.ok.injEq, Prod.mk.injEq] at h
    obtain ⟨h1, h2⟩ := h
    subst h1; subst h2
    exact ⟨hp, trivial⟩
  | panic m => rw [hx] at h; cases h

/-- **`process_packet`**, any datagram from any address: the id table changes exactly as the returned
    `ServerResult` says -/
theorem processPacket_tstep {a : AEAD} {s s' : NetcodeServer} {addr : Addr} {buf : Bytes} {r : ServerResult}
    (h : s.processPacket a addr buf = .ok (r, s')) : TStep s.clients s'.clients r := (processPacket_post h).1

theorem processPacket_auth {a : AEAD} {s s' : NetcodeServer} {addr : Addr} {buf : Bytes} {r : ServerResult}
    (h : s.processPacket a addr buf = .ok (r, s')) : Auth a s addr buf r := (processPacket_post h).2

/-- the time-out test of `update_client` -/
def TimedOut (s : NetcodeServer) (c : Connection) : Prop :=
  c.timeoutSeconds > 0 ∧ c.lastPacketReceivedTime + fromSecs c.timeoutSeconds.toNat < s.currentTime

/-- `update_client(id)` reports nothing but a disconnect of `id` itself, and that only for a slot that timed out
    (or was already marked disconnected) -/
def UCShape (s : NetcodeServer) (id : Nat) : ServerResult → Prop
  | .payload _ _ => False
  | .clientConnected _ _ _ _ => False
  | .clientDisconnected i _ _ => i = id ∧ ∃ (slot : Nat) (c : Connection), s.clients[slot]? = some (some c) ∧
      c.clientId = id ∧ (c.state = .disconnected ∨ TimedOut s c)
  | .none => True
  | .packetToSend _ _ => True

def PostE (cl : Slots) (A : ServerResult → Prop) : Res Empty (ServerResult × NetcodeServer) → Prop
  | .ok (r, s') => TStep cl s'.clients r ∧ A r
  | _ => True

theorem postE_bind {α : Type} {cl : Slots} {A : ServerResult → Prop} {x : Res Empty α}
    {f : α → Res Empty (ServerResult × NetcodeServer)}
    (hf : ∀ v, x = .ok v → PostE cl A (f v)) : PostE cl A (x >>= f) := by
  cases x with
  | ok v => exact hf v rfl
  | err e => exact e.elim
  | panic m => trivial

theorem timedOut_of {s : NetcodeServer} {c : Connection}
    (h : (if c.timeoutSeconds > 0 then do
            let deadline ← durAdd c.lastPacketReceivedTime (fromSecs c.timeoutSeconds.toNat)
                             "server.rs update_client: last_packet_received_time + timeout"
            pure (decide (deadline < s.currentTime))
          else pure false : Res Empty Bool) = .ok true) : TimedOut s c := by
  split at h
  · rename_i hpos
    obtain ⟨dl, h1, h2⟩ := CI.bind_ok_cases h
    unfold durAdd at h1
    split at h1
    · cases h1
      simp only [Res.pure_eq, Res.ok.injEq, decide_eq_true_eq] at h2
      exact ⟨hpos, h2⟩
    · cases h1
  · cases h

theorem updateClient_post (a : AEAD) (s : NetcodeServer) (id : Nat) :
    PostE s.clients (UCShape s id) (s.updateClient a id) := by
  unfold NetcodeServer.updateClient
  split
  · exact ⟨rfl, trivial⟩
  rename_i slot hslot
  obtain ⟨c, hat, hid⟩ := findSlot_some hslot
  split
  · exact ⟨rfl, trivial⟩
  rename_i client hget
  have hc : client = c := by
    have := getD_eq hget
    rw [hat] at this
    simp only [Option.some.injEq] at this
    exact this.symm
  subst hc
  refine postE_bind (fun timedOut hto => ?_)
  extract_lets client1 s1 packet
  have hdis : ∀ p, TStep s.clients (s.clients.set slot none) (.clientDisconnected id client1.addr p) := by
    intro p
    have := tstep_remove hat client1.addr p
    rw [hid] at this
    exact this
  split
  · rename_i hstate
    have hcause : client.state = .disconnected ∨ TimedOut s client := by
      cases timedOut with
      | true => exact Or.inr (timedOut_of hto)
      | false => exact Or.inl hstate
    split
    · trivial
    · exact ⟨hdis none, rfl, slot, client, hat, hid, hcause⟩
    · rename_i out _
      exact ⟨hdis (some out), rfl, slot, client, hat, hid, hcause⟩
  · generalize (durAdd client1.lastPacketSendTime C.NETCODE_SEND_RATE_NS "server.rs update_client: last_packet_send_time + SEND_RATE" : Res Empty Nat) = x
    apply postE_bind
    intro due _
    split
    · split
      · trivial
      · exact ⟨rfl, trivial⟩
      · refine postE_bind (fun sq _ => ?_)
        extract_lets client2
        refine ⟨?_, trivial⟩
        show ids (s.clients.set slot (some client2)) = ids s.clients
        refine ids_set_same hat ?_
        show [client1.clientId] = [client.clientId]
        have : client1.clientId = client.clientId := by
          show (if timedOut = true then _ else _ : Connection).clientId = _
          split <;> rfl
        rw [this]
    · exact ⟨rfl, trivial⟩

theorem updateClient_tstep {a : AEAD} {s s' : NetcodeServer} {id : Nat} {r : ServerResult}
    (h : s.updateClient a id = .ok (r, s')) : TStep s.clients s'.clients r := by
  have hp := updateClient_post a s id
  rw [h] at hp
  exact hp.1

theorem updateClient_shape {a : AEAD} {s s' : NetcodeServer} {id : Nat} {r : ServerResult}
    (h : s.updateClient a id = .ok (r, s')) : UCShape s id r := by
  have hp := updateClient_post a s id
  rw [h] at hp
  exact hp.2

/-- **`disconnect(id)`**: a known id is removed and reported `ClientDisconnected id`; an unknown id is a no-op -/
theorem disconnect_spec {a : AEAD} {s s' : NetcodeServer} {id : Nat} {r : ServerResult}
    (h : s.disconnect a id = .ok (r, s')) :
    TStep s.clients s'.clients r ∧
    (id ∈ ids s.clients → ∃ ad p, r = .clientDisconnected id ad p) ∧
    (id ∉ ids s.clients → r = .none ∧ s' = s) := by
  unfold NetcodeServer.disconnect at h
  split at h
  · rename_i hnone
    simp only [Res.ok.injEq, Prod.mk.injEq] at h
    obtain ⟨h1, h2⟩ := h
    subst h1; subst h2
    exact ⟨rfl, fun hm => absurd hm (findSlot_none.mp hnone), fun _ => ⟨rfl, rfl⟩⟩
  · rename_i slot hslot
    obtain ⟨c, hat, hid⟩ := findSlot_some hslot
    have hmem : id ∈ ids s.clients := hid ▸ mem_ids_of_at hat
    split at h
    · cases h
    rename_i client hget
    have hc : client = c := by
      have := getD_eq hget
      rw [hat] at this
      simp only [Option.some.injEq] at this
      exact this.symm
    subst hc
    have hdis : ∀ p, TStep s.clients (s.clients.set slot none) (.clientDisconnected id client.addr p) := by
      intro p
      have := tstep_remove hat client.addr p
      rw [hid] at this
      exact this
    extract_lets s1 at h
    split at h
    · cases h
    · simp only [Res.ok.injEq, Prod.mk.injEq] at h
      obtain ⟨h1, h2⟩ := h
      subst h1; subst h2
      exact ⟨hdis _, fun _ => ⟨_, _, rfl⟩, fun hn => absurd hmem hn⟩
    · simp only [Res.ok.injEq, Prod.mk.injEq] at h
      obtain ⟨h1, h2⟩ := h
      subst h1; subst h2
      exact ⟨hdis _, fun _ => ⟨_, _, rfl⟩, fun hn => absurd hmem hn⟩

theorem update_clients {s s' : NetcodeServer} {d : Nat} (h : s.update d = .ok s') : s'.clients = s.clients := by
  unfold NetcodeServer.update at h
  cases hd : (durAdd s.currentTime d "server.rs update: current_time += duration" : Res Empty Nat) with
  | ok now => rw [hd] at h; simp only [Res.bind_ok, Res.pure_eq, Res.ok.injEq] at h; subst h; rfl
  | err e => exact e.elim
  | panic m => rw [hd] at h; cases h

/-- **`generate_payload_packet`**: only for an id in the table, which stays as it is -/
theorem generatePayloadPacket_ids {a : AEAD} {s s' : NetcodeServer} {id : Nat} {p : Bytes} {dg : Addr × Bytes}
    (h : s.generatePayloadPacket a id p = .ok (dg, s')) : ids s'.clients = ids s.clients ∧ id ∈ ids s.clients := by
  unfold NetcodeServer.generatePayloadPacket at h
  split at h
  · cases h
  split at h
  · rename_i slot client hslot hfind
    obtain ⟨c, hat, hid⟩ := findSlot_some hslot
    have hcid := findById_some hfind
    cases he : (Packet.payload p).encode a C.NETCODE_MAX_PACKET_BYTES s.protocolId (some (client.sequence, client.sendKey)) with
    | ok out =>
      rw [he] at h
      simp only [Res.bind_ok] at h
      cases hi : (incU64 client.sequence "server.rs generate_payload_packet: client.sequence += 1" : NRes Nat) with
      | ok sq =>
        rw [hi] at h
        simp only [Res.bind_ok, Res.pure_eq, Res.ok.injEq, Prod.mk.injEq] at h
        obtain ⟨_, h2⟩ := h
        subst h2
        refine ⟨ids_set_same hat ?_, hid ▸ mem_ids_of_at hat⟩
        show [client.clientId] = [c.clientId]
        rw [hcid, hid]
      | err e => rw [hi] at h; cases h
      | panic m => rw [hi] at h; cases h
    | err e => rw [he] at h; cases h
    | panic m => rw [he] at h; cases h
  · cases h

/-! ## Part 2 : `handle_server_result` and the lock-step relation -/

theorem contains_insert {α : Type} (m : SMap α) (k j : Nat) (v : α) :
    SMap.contains (SMap.insert m k v) j = true ↔ j = k ∨ SMap.contains m j = true := by
  unfold SMap.contains
  by_cases e : j = k
  · subst e; simp [SL.SMap.find?_insert_self]
  · simp [SL.SMap.find?_insert_ne _ _ _ _ e, e]

theorem contains_erase {α : Type} (m : SMap α) (hs : SL.SMap.Sorted m) (k j : Nat) :
    SMap.contains (SMap.erase m k) j = true ↔ j ≠ k ∧ SMap.contains m j = true := by
  unfold SMap.contains
  by_cases e : j = k
  · subst e; simp [SL.SMap.find?_erase_self _ _ hs]
  · simp [SL.SMap.find?_erase_ne _ _ _ e, e]

theorem contains_of_find {α : Type} {m : SMap α} {k : Nat} {v : α} (h : SMap.find? m k = some v) :
    SMap.contains m k = true := by simp [SMap.contains, h]

theorem find_of_contains {α : Type} {m : SMap α} {k : Nat} (h : SMap.contains m k = true) :
    ∃ v, SMap.find? m k = some v := by
  unfold SMap.contains at h
  cases hf : SMap.find? m k with
  | none => rw [hf] at h; cases h
  | some v => exact ⟨v, rfl⟩

/-- **Lock-step.**  The renet connection table and the netcode slot table hold the same client ids
    (`sync`); both tables are keyed without repetition (`nodup`: the ids in the slots are pairwise distinct,
    `sorted`: the `HashMap` keys of renet, modelled as a strictly ascending association list). -/
structure LockStep (g : ServerGlue) : Prop where
  nodup : g.netcode.clientsId.Nodup
  sorted : SL.SMap.Sorted g.renet.conns
  sync : ∀ id, SMap.contains g.renet.conns id = true ↔ id ∈ g.netcode.clientsId

/-- no connection of the renet table is in the disconnected state (`disconnections_id()` is empty) -/
def NoDead (rs : Server) : Prop := ∀ id c, SMap.find? rs.conns id = some c → c.isDisconnected = false

/-- the `RenetServer` calls `handle_server_result` makes for a netcode result -/
def opOf : ServerResult → List SL.SrvOp
  | .payload id p => [.processPacketFrom p id]
  | .clientConnected id _ _ _ => [.add id]
  | .clientDisconnected id _ _ => [.remove id]
  | .none => []
  | .packetToSend _ _ => []

/-- the datagrams `handle_server_result` hands to `send_to` for a netcode result -/
def dgOf : ServerResult → List Dgram
  | .packetToSend addr p => [(addr, p)]
  | .clientConnected _ addr _ p => [(addr, p)]
  | .clientDisconnected _ addr (some p) => [(addr, p)]
  | .clientDisconnected _ _ none => []
  | .payload _ _ => []
  | .none => []

/-- the event `handle_server_result` makes renet push for a netcode result while the tables are in lock-step -/
def evOf (rs : Server) : ServerResult → List Event
  | .clientConnected id _ _ _ => [.connected id]
  | .clientDisconnected id _ _ =>
    [.disconnected id (((SMap.find? rs.conns id).bind (·.disconnectReason)).getD .transport)]
  | .payload _ _ => []
  | .none => []
  | .packetToSend _ _ => []

/-- kind and id of an event / of a netcode result that is reported to the application -/
def evKey : Event → Bool × Nat
  | .connected id => (true, id)
  | .disconnected id _ => (false, id)

def resKey : ServerResult → Option (Bool × Nat)
  | .clientConnected id _ _ _ => some (true, id)
  | .clientDisconnected id _ _ => some (false, id)
  | .payload _ _ => none
  | .none => none
  | .packetToSend _ _ => none

theorem evOf_key (rs : Server) (r : ServerResult) : (evOf rs r).map evKey = (resKey r).toList := by
  cases r <;> rfl

theorem runSrv_single {st st' : SL.SrvState} {op : SL.SrvOp} (h : op.apply st = .ok st') :
    SL.runSrv st [op] = .ok st' := by
  simp [SL.runSrv, h]

/-- `handle_server_result` = the renet calls `opOf r` + the datagrams `dgOf r` -/
theorem handle_factor {r : ServerResult} {rs rs' : Server} {out out' : Array Dgram}
    (h : handleServerResult r rs out = .ok (rs', out')) (popped : List Event) :
    SL.runSrv (rs, popped) (opOf r) = .ok (rs', popped) ∧ out'.toList = out.toList ++ dgOf r := by
  cases r with
  | none => cases h; exact ⟨rfl, by simp [dgOf]⟩
  | packetToSend addr p => cases h; exact ⟨rfl, by simp [dgOf]⟩
  | payload id p =>
    simp only [handleServerResult] at h
    cases hp : rs.processPacketFrom p id with
    | ok x =>
      obtain ⟨rs1, ok⟩ := x
      rw [hp] at h
      simp only [Res.bind_ok, Res.pure_eq, Res.ok.injEq, Prod.mk.injEq] at h
      obtain ⟨h1, h2⟩ := h
      subst h1; subst h2
      refine ⟨runSrv_single ?_, by simp [dgOf]⟩
      simp [SL.SrvOp.apply, hp, SL.Res.stateOf, SL.keepPopped]
    | err e => exact e.elim
    | panic m => rw [hp] at h; cases h
  | clientConnected id addr ud p =>
    cases h
    exact ⟨runSrv_single rfl, by simp [dgOf]⟩
  | clientDisconnected id addr p =>
    cases p with
    | none => cases h; exact ⟨runSrv_single rfl, by simp [dgOf]⟩
    | some p => cases h; exact ⟨runSrv_single rfl, by simp [dgOf]⟩

/-- the renet state after `handle_server_result`, case by case -/
theorem handle_renet {r : ServerResult} {rs rs' : Server} {out out' : Array Dgram}
    (h : handleServerResult r rs out = .ok (rs', out')) :
    match r with
    | .payload id p => ∃ ok, rs.processPacketFrom p id = .ok (rs', ok)
    | .clientConnected id _ _ _ => rs' = rs.addConnection id
    | .clientDisconnected id _ _ => rs' = rs.removeConnection id
    | .none => rs' = rs
    | .packetToSend _ _ => rs' = rs := by
  cases r with
  | none => cases h; rfl
  | packetToSend addr p => cases h; rfl
  | payload id p =>
    simp only [handleServerResult] at h
    cases hp : rs.processPacketFrom p id with
    | ok x =>
      obtain ⟨rs1, ok⟩ := x
      rw [hp] at h
      simp only [Res.bind_ok, Res.pure_eq, Res.ok.injEq, Prod.mk.injEq] at h
      exact ⟨ok, by rw [← h.1]; exact hp⟩
    | err e => exact e.elim
    | panic m => rw [hp] at h; cases h
  | clientConnected id addr ud p => cases h; rfl
  | clientDisconnected id addr p =>
    cases p with
    | none => cases h; rfl
    | some p => cases h; rfl

/-- **the combined step**: a netcode call whose table effect is `TStep cl cl' r`, followed by
    `handle_server_result r`, keeps the two tables in bijection and pushes exactly the event `evOf rs r` -/
theorem handle_sync {cl cl' : Slots} {r : ServerResult} {rs rs' : Server} {out out' : Array Dgram}
    (ht : TStep cl cl' r) (hn : (ids cl).Nodup) (hs : SL.SMap.Sorted rs.conns)
    (hy : ∀ id, SMap.contains rs.conns id = true ↔ id ∈ ids cl)
    (h : handleServerResult r rs out = .ok (rs', out')) :
    (ids cl').Nodup ∧ SL.SMap.Sorted rs'.conns ∧ (∀ id, SMap.contains rs'.conns id = true ↔ id ∈ ids cl') ∧
    rs'.events = rs.events ++ evOf rs r := by
  have hr := handle_renet h
  cases r with
  | none =>
    simp only at hr; subst hr
    simp only [TStep] at ht
    rw [ht]; exact ⟨hn, hs, hy, by simp [evOf]⟩
  | packetToSend addr p =>
    simp only at hr; subst hr
    simp only [TStep] at ht
    rw [ht]; exact ⟨hn, hs, hy, by simp [evOf]⟩
  | payload id p =>
    simp only at hr
    obtain ⟨ok, hp⟩ := hr
    obtain ⟨ad, q, _⟩ := SL.Server.processPacketFrom_spec hp
    simp only [TStep] at ht
    rw [ht.1]
    exact ⟨hn, q.sorted hs, fun j => by rw [q.contains j]; exact hy j, by simp [evOf, ad.events]⟩
  | clientConnected id addr ud p =>
    simp only at hr; subst hr
    simp only [TStep] at ht
    obtain ⟨hnot, l1, l2, e1, e2⟩ := ht
    have hnc : SMap.contains rs.conns id = false := by
      cases hc : SMap.contains rs.conns id with
      | false => rfl
      | true => exact absurd ((hy id).mp hc) hnot
    rw [e1] at hn hnot hy
    rw [e2]
    unfold Server.addConnection
    rw [hnc]
    simp only [Bool.false_eq_true, if_false]
    refine ⟨by grind [List.nodup_append, List.nodup_cons], SL.SMap.sorted_insert _ _ _ hs, fun j => ?_, by simp [evOf]⟩
    rw [contains_insert, hy j]
    simp only [List.mem_append, List.mem_cons]
    constructor
    · rintro (h1 | h1 | h1)
      · exact Or.inr (Or.inl h1)
      · exact Or.inl h1
      · exact Or.inr (Or.inr h1)
    · rintro (h1 | h1 | h1)
      · exact Or.inr (Or.inl h1)
      · exact Or.inl h1
      · exact Or.inr (Or.inr h1)
  | clientDisconnected id addr p =>
    simp only at hr; subst hr
    simp only [TStep] at ht
    obtain ⟨l1, l2, e1, e2⟩ := ht
    have hc : SMap.contains rs.conns id = true := (hy id).mpr (by rw [e1]; simp)
    obtain ⟨c, hf⟩ := find_of_contains hc
    rw [e1] at hn hy
    rw [e2]
    have hnn : (l1 ++ l2).Nodup ∧ id ∉ l1 ++ l2 := by grind [List.nodup_append, List.nodup_cons]
    unfold Server.removeConnection
    rw [hf]
    refine ⟨hnn.1, SL.SMap.sorted_erase _ _ hs, fun j => ?_, by simp [evOf, hf]⟩
    show SMap.contains (SMap.erase rs.conns id) j = true ↔ _
    rw [contains_erase _ hs, hy j]
    simp only [List.mem_append, List.mem_cons]
    constructor
    · rintro ⟨hne, h1 | h1 | h1⟩
      · exact Or.inl h1
      · exact absurd h1 hne
      · exact Or.inr h1
    · intro h1
      refine ⟨?_, ?_⟩
      · intro e; subst e; exact hnn.2 (List.mem_append.mpr h1)
      · rcases h1 with h1 | h1
        · exact Or.inl h1
        · exact Or.inr (Or.inr h1)

theorem lockStep_handle {g : ServerGlue} {ns' : NetcodeServer} {r : ServerResult} {rs' : Server}
    {out out' : Array Dgram} (hl : LockStep g) (ht : TStep g.netcode.clients ns'.clients r)
    (h : handleServerResult r g.renet out = .ok (rs', out')) :
    LockStep { netcode := ns', renet := rs' } ∧ rs'.events = g.renet.events ++ evOf g.renet r := by
  obtain ⟨h1, h2, h3, h4⟩ := handle_sync ht hl.nodup hl.sorted hl.sync h
  exact ⟨⟨h1, h2, h3⟩, h4⟩

/-! ## Part 3 : the loops -/

/-- the common shape of the three loops of `update` and of `disconnect_all`:
    `for x in l { handle_server_result(f(netcode, x)) }` -/
def handleLoop {α : Type} (f : NetcodeServer → α → Res Empty (ServerResult × NetcodeServer)) (g : ServerGlue) :
    List α → Array Dgram → Res Empty (ServerGlue × Array Dgram)
  | [], out => pure (g, out)
  | x :: rest, out => do
    let (r, ns) ← f g.netcode x
    let (rs, out) ← handleServerResult r g.renet out
    handleLoop f { netcode := ns, renet := rs } rest out

theorem idLoop_eq (f : NetcodeServer → Nat → Res Empty (ServerResult × NetcodeServer)) :
    ∀ (l : List Nat) (g : ServerGlue) (out : Array Dgram), serverIdLoop f g l out = handleLoop f g l out
  | [], g, out => rfl
  | id :: rest, g, out => by
    simp only [serverIdLoop, handleLoop, idLoop_eq f rest]

theorem recvLoop_eq (a : AEAD) :
    ∀ (l : List Dgram) (g : ServerGlue) (out : Array Dgram),
      serverRecvLoop a g l out = handleLoop (fun ns d => ns.processPacket a d.1 d.2) g l out
  | [], g, out => rfl
  | (addr, buf) :: rest, g, out => by
    simp only [serverRecvLoop, handleLoop, recvLoop_eq a rest]

/-- the netcode half of a loop on its own: the results it returns, in order, and the final netcode state.
    (The netcode state never depends on renet.) -/
def ncTrace {α : Type} (f : NetcodeServer → α → Res Empty (ServerResult × NetcodeServer)) (ns : NetcodeServer) :
    List α → Res Empty (List ServerResult × NetcodeServer)
  | [] => pure ([], ns)
  | x :: rest => do
    let (r, ns1) ← f ns x
    let (tr, ns2) ← ncTrace f ns1 rest
    pure (r :: tr, ns2)

theorem runSrv_append : ∀ (l1 l2 : List SL.SrvOp) (st st1 st2 : SL.SrvState), SL.runSrv st l1 = .ok st1 →
    SL.runSrv st1 l2 = .ok st2 → SL.runSrv st (l1 ++ l2) = .ok st2
  | [], l2, st, st1, st2, h1, h2 => by cases h1; exact h2
  | op :: l1, l2, st, st1, st2, h1, h2 => by
    simp only [List.cons_append, SL.runSrv] at h1 ⊢
    split at h1
    · rename_i st' hop
      exact runSrv_append l1 l2 st' st1 st2 h1 h2
    · cases h1
    · cases h1

/-- one iteration of a loop, taken apart -/
theorem handleLoop_cons {α : Type} {f : NetcodeServer → α → Res Empty (ServerResult × NetcodeServer)}
    {g g' : ServerGlue} {x : α} {rest : List α} {out out' : Array Dgram}
    (h : handleLoop f g (x :: rest) out = .ok (g', out')) :
    ∃ r ns rs out1, f g.netcode x = .ok (r, ns) ∧ handleServerResult r g.renet out = .ok (rs, out1) ∧
      handleLoop f { netcode := ns, renet := rs } rest out1 = .ok (g', out') := by
  simp only [handleLoop] at h
  obtain ⟨⟨r, ns⟩, h1, h2⟩ := CI.bind_ok_cases h
  obtain ⟨⟨rs, out1⟩, h3, h4⟩ := CI.bind_ok_cases h2
  exact ⟨r, ns, rs, out1, h1, h3, h4⟩

/-- **factorisation of a loop**: the netcode results `tr` are those of the netcode calls alone; renet receives exactly the
    calls `opOf` of these results, in order; the datagrams sent are exactly `dgOf` of these results, in order -/
theorem handleLoop_factor {α : Type} (f : NetcodeServer → α → Res Empty (ServerResult × NetcodeServer))
    (popped : List Event) :
    ∀ (l : List α) (g g' : ServerGlue) (out out' : Array Dgram), handleLoop f g l out = .ok (g', out') →
    ∃ tr, ncTrace f g.netcode l = .ok (tr, g'.netcode) ∧
      SL.runSrv (g.renet, popped) (tr.flatMap opOf) = .ok (g'.renet, popped) ∧
      out'.toList = out.toList ++ tr.flatMap dgOf
  | [], g, g', out, out', h => by
    cases h
    exact ⟨[], rfl, rfl, by simp⟩
  | x :: rest, g, g', out, out', h => by
    obtain ⟨r, ns, rs, out1, h1, h2, h3⟩ := handleLoop_cons h
    obtain ⟨tr, t1, t2, t3⟩ := handleLoop_factor f popped rest _ g' out1 out' h3
    obtain ⟨f1, f2⟩ := handle_factor h2 popped
    refine ⟨r :: tr, ?_, ?_, ?_⟩
    · simp only [ncTrace, h1, Res.bind_ok]
      rw [t1]; rfl
    · rw [List.flatMap_cons]
      exact runSrv_append _ _ _ _ _ f1 t2
    · rw [t3, f2, List.flatMap_cons, List.append_assoc]

/-- a loop whose netcode call obeys `TStep` keeps lock-step, and the renet events it pushes are, in order,
    the connect / disconnect results of the netcode calls, with the same ids -/
theorem handleLoop_lockstep {α : Type} {f : NetcodeServer → α → Res Empty (ServerResult × NetcodeServer)}
    (hf : ∀ ns x r ns', f ns x = .ok (r, ns') → TStep ns.clients ns'.clients r) :
    ∀ (l : List α) (g g' : ServerGlue) (out out' : Array Dgram) (tr : List ServerResult),
    handleLoop f g l out = .ok (g', out') → ncTrace f g.netcode l = .ok (tr, g'.netcode) → LockStep g →
    LockStep g' ∧ ∃ new, g'.renet.events = g.renet.events ++ new ∧ new.map evKey = tr.filterMap resKey
  | [], g, g', out, out', tr, h, ht, hl => by
    cases h
    cases ht
    exact ⟨hl, [], by simp, rfl⟩
  | x :: rest, g, g', out, out', tr, h, ht, hl => by
    obtain ⟨r, ns, rs, out1, h1, h2, h3⟩ := handleLoop_cons h
    simp only [ncTrace, h1, Res.bind_ok] at ht
    obtain ⟨⟨tr1, ns2⟩, t1, t2⟩ := CI.bind_ok_cases ht
    simp only [Res.pure_eq, Res.ok.injEq, Prod.mk.injEq] at t2
    obtain ⟨t2, t3⟩ := t2
    subst t2; subst t3
    obtain ⟨hl1, he1⟩ := lockStep_handle hl (hf _ _ _ _ h1) h2
    obtain ⟨hl2, new, he2, hk⟩ := handleLoop_lockstep hf rest _ g' out1 out' tr1 h3 t1 hl1
    refine ⟨hl2, evOf g.renet r ++ new, ?_, ?_⟩
    · rw [he2]
      show rs.events ++ new = _
      rw [he1, List.append_assoc]
    · rw [List.map_append, evOf_key, hk, List.filterMap_cons]
      cases resKey r <;> rfl

abbrev ppF (a : AEAD) : NetcodeServer → Dgram → Res Empty (ServerResult × NetcodeServer) :=
  fun ns d => ns.processPacket a d.1 d.2
abbrev ucF (a : AEAD) : NetcodeServer → Nat → Res Empty (ServerResult × NetcodeServer) :=
  fun ns id => ns.updateClient a id
abbrev dcF (a : AEAD) : NetcodeServer → Nat → Res Empty (ServerResult × NetcodeServer) :=
  fun ns id => ns.disconnect a id

theorem ppF_tstep (a : AEAD) : ∀ ns x r ns', ppF a ns x = .ok (r, ns') → TStep ns.clients ns'.clients r :=
  fun _ _ _ _ h => processPacket_tstep h
theorem ucF_tstep (a : AEAD) : ∀ ns x r ns', ucF a ns x = .ok (r, ns') → TStep ns.clients ns'.clients r :=
  fun _ _ _ _ h => updateClient_tstep h
theorem dcF_tstep (a : AEAD) : ∀ ns x r ns', dcF a ns x = .ok (r, ns') → TStep ns.clients ns'.clients r :=
  fun _ _ _ _ h => (disconnect_spec h).1

theorem handleLoop_lockstep' {α : Type} {f : NetcodeServer → α → Res Empty (ServerResult × NetcodeServer)}
    (hf : ∀ ns x r ns', f ns x = .ok (r, ns') → TStep ns.clients ns'.clients r)
    {l : List α} {g g' : ServerGlue} {out out' : Array Dgram}
    (h : handleLoop f g l out = .ok (g', out')) (hl : LockStep g) : LockStep g' := by
  obtain ⟨tr, t1, _, _⟩ := handleLoop_factor f [] l g g' out out' h
  exact (handleLoop_lockstep hf l g g' out out' tr h t1 hl).1

theorem removeConnection_find_self (rs : Server) (hs : SL.SMap.Sorted rs.conns) (id : Nat) :
    SMap.find? (rs.removeConnection id).conns id = none := by
  unfold Server.removeConnection
  cases hf : SMap.find? rs.conns id with
  | none => exact hf
  | some c => exact SL.SMap.find?_erase_self _ _ hs

/-- the loop `for id in l { handle(netcode.disconnect(id)) }` under lock-step: every id of `l` is gone from
    renet afterwards, every other connection is untouched -/
theorem disconnectLoop_spec (a : AEAD) :
    ∀ (l : List Nat) (g g' : ServerGlue) (out out' : Array Dgram),
    handleLoop (dcF a) g l out = .ok (g', out') → LockStep g →
    (∀ j, j ∈ l → SMap.find? g'.renet.conns j = none) ∧
    (∀ j, j ∉ l → SMap.find? g'.renet.conns j = SMap.find? g.renet.conns j)
  | [], g, g', out, out', h, hl => by
    cases h
    exact ⟨fun j hj => (by cases hj), fun j _ => rfl⟩
  | id :: rest, g, g', out, out', h, hl => by
    obtain ⟨r, ns, rs, out1, h1, h2, h3⟩ := handleLoop_cons h
    obtain ⟨ht, hin, hout⟩ := disconnect_spec h1
    obtain ⟨hl1, _⟩ := lockStep_handle hl ht h2
    obtain ⟨ih1, ih2⟩ := disconnectLoop_spec a rest _ g' out1 out' h3 hl1
    have hr := handle_renet h2
    have hself : SMap.find? rs.conns id = none := by
      by_cases hm : id ∈ ids g.netcode.clients
      · obtain ⟨ad, p, e⟩ := hin hm
        subst e
        simp only at hr
        rw [hr]
        exact removeConnection_find_self _ hl.sorted id
      · obtain ⟨e1, e2⟩ := hout hm
        subst e1
        simp only at hr
        rw [hr]
        cases hc : SMap.find? g.renet.conns id with
        | none => rfl
        | some c => exact absurd ((hl.sync id).mp (contains_of_find hc)) hm
    have hother : ∀ j, j ≠ id → SMap.find? rs.conns j = SMap.find? g.renet.conns j := by
      intro j hj
      by_cases hm : id ∈ ids g.netcode.clients
      · obtain ⟨ad, p, e⟩ := hin hm
        subst e
        simp only at hr
        rw [hr]
        exact SL.removeConnection_frame _ _ _ hj
      · obtain ⟨e1, e2⟩ := hout hm
        subst e1
        simp only at hr
        rw [hr]
    refine ⟨fun j hj => ?_, fun j hj => ?_⟩
    · by_cases hjr : j ∈ rest
      · exact ih1 j hjr
      · have : j = id := by
          rcases List.mem_cons.mp hj with e | e
          · exact e
          · exact absurd e hjr
        subst this
        rw [ih2 j hjr]; exact hself
    · have hne : j ≠ id := fun e => hj (e ▸ List.mem_cons_self)
      have hjr : j ∉ rest := fun e => hj (List.mem_cons_of_mem _ e)
      rw [ih2 j hjr]; exact hother j hne

theorem mem_disconnectionsId {rs : Server} {j : Nat} {c : Conn} (hf : SMap.find? rs.conns j = some c)
    (hd : c.isDisconnected = true) : j ∈ rs.disconnectionsId := by
  unfold Server.disconnectionsId
  exact List.mem_map.mpr ⟨(j, c), List.mem_filter.mpr ⟨SMap.mem_of_find? hf, hd⟩, rfl⟩

theorem contains_of_mem_clientsId {rs : Server} {j : Nat} (h : j ∈ rs.clientsId) : SMap.contains rs.conns j = true := by
  unfold Server.clientsId at h
  obtain ⟨x, hx, rfl⟩ := List.mem_map.mp h
  have hk : x.1 ∈ SMap.keys rs.conns := List.mem_map.mpr ⟨x, (List.mem_filter.mp hx).1, rfl⟩
  rw [SL.SMap.contains_iff]
  intro hn
  exact (SL.SMap.find?_eq_none_iff _ _).mp hn hk

/-- `NetcodeServerTransport::update`, taken apart into its four stages -/
theorem serverUpdate_unfold {a : AEAD} {g g' : ServerGlue} {d : Nat} {inbox : List Dgram} {out : Array Dgram}
    (h : serverUpdate a g d inbox = .ok (g', out)) :
    ∃ ns0 g1 out1 g2 out2, g.netcode.update d = .ok ns0 ∧
      handleLoop (ppF a) { g with netcode := ns0 } inbox #[] = .ok (g1, out1) ∧
      handleLoop (ucF a) g1 g1.netcode.clientsId out1 = .ok (g2, out2) ∧
      handleLoop (dcF a) g2 g2.renet.disconnectionsId out2 = .ok (g', out) := by
  unfold serverUpdate at h
  obtain ⟨ns0, h0, h⟩ := CI.bind_ok_cases h
  obtain ⟨⟨g1, out1⟩, h1, h⟩ := CI.bind_ok_cases h
  dsimp only at h
  obtain ⟨⟨g2, out2⟩, h2, h3⟩ := CI.bind_ok_cases h
  dsimp only at h3
  rw [recvLoop_eq] at h1
  rw [idLoop_eq] at h2 h3
  exact ⟨ns0, g1, out1, g2, out2, h0, h1, h2, h3⟩

/-- **(b)** `update` keeps lock-step and leaves no disconnected connection in the renet table: a disconnect decided
    by the message layer (an error on a channel, `RenetServer::disconnect`) ends the netcode session and removes the
    connection within this one `update` -/
theorem serverUpdate_lockstep {a : AEAD} {g g' : ServerGlue} {d : Nat} {inbox : List Dgram} {out : Array Dgram}
    (h : serverUpdate a g d inbox = .ok (g', out)) (hl : LockStep g) : LockStep g' ∧ NoDead g'.renet := by
  obtain ⟨ns0, g1, out1, g2, out2, h0, h1, h2, h3⟩ := serverUpdate_unfold h
  have hl0 : LockStep { g with netcode := ns0 } := by
    refine ⟨?_, hl.sorted, ?_⟩
    · show (ids ns0.clients).Nodup
      rw [update_clients h0]; exact hl.nodup
    · intro id
      show _ ↔ id ∈ ids ns0.clients
      rw [update_clients h0]; exact hl.sync id
  have hl1 := handleLoop_lockstep' (ppF_tstep a) h1 hl0
  have hl2 := handleLoop_lockstep' (ucF_tstep a) h2 hl1
  have hl3 := handleLoop_lockstep' (dcF_tstep a) h3 hl2
  obtain ⟨d1, d2⟩ := disconnectLoop_spec a _ g2 g' out2 out h3 hl2
  refine ⟨hl3, fun j c hf => ?_⟩
  cases hd : c.isDisconnected with
  | false => rfl
  | true =>
    by_cases hj : j ∈ g2.renet.disconnectionsId
    · rw [d1 j hj] at hf; cases hf
    · rw [d2 j hj] at hf
      exact absurd (mem_disconnectionsId hf hd) hj

/-! #### `send_packets` -/

theorem sendClient_ids (a : AEAD) (id : Nat) : ∀ (ps : List Bytes) (ns ns' : NetcodeServer) (out out' : Array Dgram),
    serverSendClient a ns id ps out = .ok (ns', out') → ids ns'.clients = ids ns.clients
  | [], ns, ns', out, out', h => by cases h; rfl
  | p :: rest, ns, ns', out, out', h => by
    simp only [serverSendClient] at h
    split at h
    · cases h
    · cases h; rfl
    · rename_i addr dg ns1 hg
      rw [sendClient_ids a id rest ns1 ns' _ out' h]
      exact (generatePayloadPacket_ids hg).1

theorem sendLoop_cons {a : AEAD} {g g' : ServerGlue} {id : Nat} {rest : List Nat} {out out' : Array Dgram}
    (h : serverSendLoop a g (id :: rest) out = .ok (g', out')) :
    ∃ rs ps ns out1, g.renet.getPacketsToSend id = .ok (rs, some ps) ∧
      serverSendClient a g.netcode id ps out = .ok (ns, out1) ∧
      serverSendLoop a { netcode := ns, renet := rs } rest out1 = .ok (g', out') := by
  simp only [serverSendLoop] at h
  obtain ⟨⟨rs, ps⟩, h1, h2⟩ := CI.bind_ok_cases h
  cases ps with
  | none => cases h2
  | some ps =>
    obtain ⟨⟨ns, out1⟩, h3, h4⟩ := CI.bind_ok_cases h2
    exact ⟨rs, ps, ns, out1, h1, h3, h4⟩

/-- **(c)** `send_packets` keeps lock-step: it only replaces connections under existing keys and slot contents
    under existing ids, and pushes no event -/
theorem sendLoop_lockstep (a : AEAD) : ∀ (l : List Nat) (g g' : ServerGlue) (out out' : Array Dgram),
    serverSendLoop a g l out = .ok (g', out') → LockStep g →
    LockStep g' ∧ SL.QuietC g.renet.conns g'.renet.conns ∧ g'.renet.events = g.renet.events
  | [], g, g', out, out', h, hl => by
    cases h
    exact ⟨hl, SL.QuietC.refl _, rfl⟩
  | id :: rest, g, g', out, out', h, hl => by
    obtain ⟨rs, ps, ns, out1, h1, h2, h3⟩ := sendLoop_cons h
    obtain ⟨ad, q, _⟩ := SL.Server.getPacketsToSend_spec h1
    have hi := sendClient_ids a id ps _ _ _ _ h2
    have hl1 : LockStep { netcode := ns, renet := rs } := by
      refine ⟨?_, q.sorted hl.sorted, fun j => ?_⟩
      · show (ids ns.clients).Nodup
        rw [hi]; exact hl.nodup
      · show SMap.contains rs.conns j = true ↔ j ∈ ids ns.clients
        rw [hi, q.contains j]; exact hl.sync j
    obtain ⟨hl2, q2, e2⟩ := sendLoop_lockstep a rest _ g' out1 out' h3 hl1
    exact ⟨hl2, q.trans q2, e2.trans ad.events⟩

theorem serverSendPackets_lockstep {a : AEAD} {g g' : ServerGlue} {out : Array Dgram}
    (h : serverSendPackets a g = .ok (g', out)) (hl : LockStep g) :
    LockStep g' ∧ SL.QuietC g.renet.conns g'.renet.conns ∧ g'.renet.events = g.renet.events :=
  sendLoop_lockstep a _ g g' _ out h hl

/-! #### `disconnect_all` -/

theorem smap_eq_nil_of_find {α : Type} {m : SMap α} (h : ∀ j, SMap.find? m j = none) : m = [] := by
  cases m with
  | nil => rfl
  | cons p r =>
    obtain ⟨k, v⟩ := p
    have := h k
    simp [SMap.find?] at this

/-- **(c)** `disconnect_all` keeps lock-step and empties both tables -/
theorem serverDisconnectAll_lockstep {a : AEAD} {g g' : ServerGlue} {out : Array Dgram}
    (h : serverDisconnectAll a g = .ok (g', out)) (hl : LockStep g) :
    LockStep g' ∧ g'.renet.conns = [] ∧ g'.netcode.clientsId = [] := by
  unfold serverDisconnectAll at h
  rw [idLoop_eq] at h
  have hl' := handleLoop_lockstep' (dcF_tstep a) h hl
  obtain ⟨d1, d2⟩ := disconnectLoop_spec a _ g g' _ out h hl
  have hnone : ∀ j, SMap.find? g'.renet.conns j = none := by
    intro j
    by_cases hj : j ∈ g.netcode.clientsId
    · exact d1 j hj
    · rw [d2 j hj]
      cases hc : SMap.find? g.renet.conns j with
      | none => rfl
      | some c => exact absurd ((hl.sync j).mp (contains_of_find hc)) hj
  refine ⟨hl', smap_eq_nil_of_find hnone, ?_⟩
  apply List.eq_nil_iff_forall_not_mem.mpr
  intro j hj
  have := (hl'.sync j).mpr hj
  simp [SMap.contains, hnone j] at this

/-! #### any sequence of transport calls and application calls -/

/-- the `RenetServer` calls an application may make: everything except the four that add or remove
    connections themselves (`add_connection` / `remove_connection` are for transports only, the local-client
    pair is a transport of its own) -/
def appOp : SL.SrvOp → Bool
  | .add _ => false
  | .remove _ => false
  | .newLocalClient _ => false
  | .disconnectLocalClient _ _ => false
  | _ => true

theorem appOp_quiet {st st' : SL.SrvState} {op : SL.SrvOp} (ha : appOp op = true) (h : op.apply st = .ok st') :
    SL.QuietC st.1.conns st'.1.conns ∧ SL.eventLog st' = SL.eventLog st := by
  have key : ∀ {s' : Server} {p' : List Event}, SL.QuietC st.1.conns s'.conns → s'.events = st.1.events →
      p' = st.2 → SL.QuietC st.1.conns s'.conns ∧ SL.eventLog (s', p') = SL.eventLog st := by
    intro s' p' q e1 e2
    exact ⟨q, by simp [SL.eventLog, e1, e2]⟩
  obtain ⟨s, popped⟩ := st
  cases op with
  | add id => cases ha
  | remove id => cases ha
  | newLocalClient id => cases ha
  | disconnectLocalClient id cl => cases ha
  | disconnect id =>
    cases h
    exact key (SL.Server.disconnect_spec s id).2.1 (SL.Server.disconnect_spec s id).1.events rfl
  | disconnectAll =>
    cases h
    exact key (SL.Server.disconnectAll_quiet s) rfl rfl
  | broadcast ch m =>
    obtain ⟨h1, h2⟩ := SL.keepPopped_ok h
    obtain ⟨e, q, _⟩ := SL.Server.broadcast_spec h1
    exact key q e h2
  | broadcastExcept ex ch m =>
    obtain ⟨h1, h2⟩ := SL.keepPopped_ok h
    obtain ⟨e, q, _⟩ := SL.Server.broadcastExcept_spec h1
    exact key q e h2
  | update dt =>
    obtain ⟨h1, h2⟩ := SL.keepPopped_ok h
    obtain ⟨e, q, _⟩ := SL.Server.update_spec h1
    exact key q e h2
  | send id ch m =>
    obtain ⟨h1, h2⟩ := SL.keepPopped_ok h
    obtain ⟨ad, q, _⟩ := SL.Server.sendMessage_spec h1
    exact key q ad.events h2
  | receive id ch =>
    obtain ⟨h1, h2⟩ := SL.keepPopped_ok h
    obtain ⟨o, h3⟩ := SL.Res.stateOf_ok h1
    obtain ⟨ad, q, _⟩ := SL.Server.receiveMessage_spec h3
    exact key q ad.events h2
  | getPacketsToSend id =>
    obtain ⟨h1, h2⟩ := SL.keepPopped_ok h
    obtain ⟨o, h3⟩ := SL.Res.stateOf_ok h1
    obtain ⟨ad, q, _⟩ := SL.Server.getPacketsToSend_spec h3
    exact key q ad.events h2
  | processPacketFrom b id =>
    obtain ⟨h1, h2⟩ := SL.keepPopped_ok h
    obtain ⟨o, h3⟩ := SL.Res.stateOf_ok h1
    obtain ⟨ad, q, _⟩ := SL.Server.processPacketFrom_spec h3
    exact key q ad.events h2
  | processLocalClient id cl =>
    obtain ⟨h1, h2⟩ := SL.keepPopped_ok h
    obtain ⟨o, h3⟩ := SL.Res.stateOf_ok h1
    obtain ⟨cl', ok⟩ := o
    obtain ⟨ad, q⟩ := SL.Server.processLocalClient_spec h3
    exact key q ad.events h2
  | getEvent =>
    cases h
    refine ⟨?_, ?_⟩
    · show SL.QuietC s.conns (s.getEvent).1.conns
      unfold Server.getEvent
      split <;> exact SL.QuietC.refl _
    · show SL.eventLog ((s.getEvent).1, popped ++ (s.getEvent).2.toList) = SL.eventLog (s, popped)
      unfold Server.getEvent SL.eventLog
      split
      · rename_i he
        have he' : s.events = [] := he
        simp [he']
      · rename_i e rest he
        have he' : s.events = e :: rest := he
        simp [he']

/-- a transport call or an application call -/
inductive GlueOp where
  | update (d : Nat) (inbox : List Dgram)
  | sendPackets
  | disconnectAll
  | app (op : SL.SrvOp)

/-- the glue state and (ghost) the events the application has already taken with `get_event` -/
abbrev GState := ServerGlue × List Event

def GlueOp.apply (a : AEAD) (st : GState) : GlueOp → Res Empty GState
  | .update d inbox => do
    let (g, _) ← serverUpdate a st.1 d inbox
    pure (g, st.2)
  | .sendPackets => do
    let (g, _) ← serverSendPackets a st.1
    pure (g, st.2)
  | .disconnectAll => do
    let (g, _) ← serverDisconnectAll a st.1
    pure (g, st.2)
  | .app op => do
    let st' ← op.apply (st.1.renet, st.2)
    pure ({ st.1 with renet := st'.1 }, st'.2)

def GlueOp.allowed : GlueOp → Bool
  | .app op => appOp op
  | _ => true

def runGlue (a : AEAD) (st : GState) : List GlueOp → Res Empty GState
  | [] => .ok st
  | op :: rest =>
    match op.apply a st with
    | .ok st' => runGlue a st' rest
    | .err e => .err e
    | .panic m => .panic m

/-- the invariant of the server side: lock-step, and the per-client alternation invariant of the event log -/
def GInv (st : GState) : Prop := LockStep st.1 ∧ SL.SrvInv (st.1.renet, st.2)

theorem handleLoop_srvInv {α : Type} {f : NetcodeServer → α → Res Empty (ServerResult × NetcodeServer)}
    {l : List α} {g g' : ServerGlue} {out out' : Array Dgram} (h : handleLoop f g l out = .ok (g', out'))
    (popped : List Event) (hi : SL.SrvInv (g.renet, popped)) : SL.SrvInv (g'.renet, popped) := by
  obtain ⟨tr, _, t2, _⟩ := handleLoop_factor f popped l g g' out out' h
  exact SL.runSrv_inv _ _ _ t2 hi

theorem srvInv_of_quiet {rs rs' : Server} {popped : List Event} (q : SL.QuietC rs.conns rs'.conns)
    (e : rs'.events = rs.events) (hi : SL.SrvInv (rs, popped)) : SL.SrvInv (rs', popped) :=
  SL.Step.inv (st := (rs, popped)) (st' := (rs', popped)) (SL.Step.quiet_of q e rfl) hi

theorem GlueOp.apply_inv {a : AEAD} {st st' : GState} {op : GlueOp} (h : op.apply a st = .ok st')
    (ha : op.allowed = true) (hi : GInv st) : GInv st' ∧ (∀ d inbox, op = .update d inbox → NoDead st'.1.renet) := by
  obtain ⟨g, popped⟩ := st
  obtain ⟨hl, hs⟩ := hi
  cases op with
  | update d inbox =>
    simp only [GlueOp.apply] at h
    obtain ⟨⟨g1, out⟩, h1, h2⟩ := CI.bind_ok_cases h
    cases h2
    obtain ⟨hl', hnd⟩ := serverUpdate_lockstep h1 hl
    refine ⟨⟨hl', ?_⟩, fun _ _ _ => hnd⟩
    obtain ⟨ns0, ga, outa, gb, outb, _, l1, l2, l3⟩ := serverUpdate_unfold h1
    exact handleLoop_srvInv l3 popped (handleLoop_srvInv l2 popped (handleLoop_srvInv l1 popped hs))
  | sendPackets =>
    simp only [GlueOp.apply] at h
    obtain ⟨⟨g1, out⟩, h1, h2⟩ := CI.bind_ok_cases h
    cases h2
    obtain ⟨hl', q, e⟩ := serverSendPackets_lockstep h1 hl
    exact ⟨⟨hl', srvInv_of_quiet q e hs⟩, fun _ _ hh => by cases hh⟩
  | disconnectAll =>
    simp only [GlueOp.apply] at h
    obtain ⟨⟨g1, out⟩, h1, h2⟩ := CI.bind_ok_cases h
    cases h2
    obtain ⟨hl', _, _⟩ := serverDisconnectAll_lockstep h1 hl
    refine ⟨⟨hl', ?_⟩, fun _ _ hh => by cases hh⟩
    unfold serverDisconnectAll at h1
    rw [idLoop_eq] at h1
    exact handleLoop_srvInv h1 popped hs
  | app sop =>
    simp only [GlueOp.apply] at h
    obtain ⟨st1, h1, h2⟩ := CI.bind_ok_cases h
    cases h2
    obtain ⟨q, _⟩ := appOp_quiet ha h1
    refine ⟨⟨⟨hl.nodup, q.sorted hl.sorted, fun j => ?_⟩, (SL.SrvOp.apply_step h1).inv hs⟩, fun _ _ hh => by cases hh⟩
    show SMap.contains st1.1.conns j = true ↔ _
    rw [q.contains j]; exact hl.sync j

theorem runGlue_inv (a : AEAD) : ∀ (ops : List GlueOp) (st st' : GState), runGlue a st ops = .ok st' →
    (∀ op ∈ ops, op.allowed = true) → GInv st → GInv st'
  | [], st, st', h, _, hi => by cases h; exact hi
  | op :: rest, st, st', h, ha, hi => by
    unfold runGlue at h
    split at h
    · rename_i st1 h1
      exact runGlue_inv a rest st1 st' h (fun o ho => ha o (List.mem_cons_of_mem _ ho))
        (GlueOp.apply_inv h1 (ha op List.mem_cons_self) hi).1
    · cases h
    · cases h

theorem new_clientsId {now maxClients pid : Nat} {addrs : List Addr} {secure : Bool} {pk ck : Bytes} {ns : NetcodeServer}
    (h : NetcodeServer.new now maxClients pid addrs secure pk ck = .ok ns) : ns.clientsId = [] := by
  unfold NetcodeServer.new at h
  split at h
  · cases h
  · cases h
    exact ids_replicate_none _

theorem gInv_fresh {ns : NetcodeServer} (h : ns.clientsId = []) (budget : Nat) (sc cc : List ChanCfg) :
    GInv ({ netcode := ns, renet := Server.new budget sc cc }, []) := by
  refine ⟨⟨?_, SL.SMap.sorted_nil, fun id => ?_⟩, SL.srvInv_new budget sc cc⟩
  · show ns.clientsId.Nodup
    rw [h]; exact List.nodup_nil
  · show SMap.contains (Server.new budget sc cc).conns id = true ↔ id ∈ ns.clientsId
    rw [h]; simp [Server.new, SMap.contains]

/-! ## Part 4 : `update` factorised; the event log mirrors the netcode results -/

/-- the netcode side of one `NetcodeServerTransport::update`: the clock step, then the results of
    `process_packet` on the queued datagrams (`tr1`), of `update_client` on the ids connected at that point (`tr2`),
    of `disconnect` on the ids renet holds disconnected at that point (`tr3`) -/
structure UpdateTrace where
  ns0 : NetcodeServer
  tr1 : List ServerResult
  ns1 : NetcodeServer
  tr2 : List ServerResult
  ns2 : NetcodeServer
  rs2 : Server
  tr3 : List ServerResult

def UpdateTrace.all (T : UpdateTrace) : List ServerResult := T.tr1 ++ T.tr2 ++ T.tr3

structure IsUpdateRun (a : AEAD) (g : ServerGlue) (d : Nat) (inbox : List Dgram) (g' : ServerGlue)
    (out : Array Dgram) (popped : List Event) (T : UpdateTrace) : Prop where
  clock : g.netcode.update d = .ok T.ns0
  recv : ncTrace (ppF a) T.ns0 inbox = .ok (T.tr1, T.ns1)
  ticks : ncTrace (ucF a) T.ns1 T.ns1.clientsId = .ok (T.tr2, T.ns2)
  renet12 : SL.runSrv (g.renet, popped) ((T.tr1 ++ T.tr2).flatMap opOf) = .ok (T.rs2, popped)
  dead : ncTrace (dcF a) T.ns2 T.rs2.disconnectionsId = .ok (T.tr3, g'.netcode)
  renet3 : SL.runSrv (T.rs2, popped) (T.tr3.flatMap opOf) = .ok (g'.renet, popped)
  sent : out.toList = T.all.flatMap dgOf

theorem IsUpdateRun.renet {a : AEAD} {g g' : ServerGlue} {d : Nat} {inbox : List Dgram} {out : Array Dgram}
    {popped : List Event} {T : UpdateTrace} (h : IsUpdateRun a g d inbox g' out popped T) :
    SL.runSrv (g.renet, popped) (T.all.flatMap opOf) = .ok (g'.renet, popped) := by
  unfold UpdateTrace.all
  rw [List.flatMap_append]
  exact runSrv_append _ _ _ _ _ h.renet12 h.renet3

/-- **`update` factorised, and the event log.**  The netcode calls run on their own (`UpdateTrace`); renet receives
    exactly the calls `opOf` of the netcode results, in order; the datagrams sent are exactly `dgOf` of the results, in
    order; and in lock-step the events renet pushes are, in order, exactly the connects and disconnects netcode
    reported, with the same ids. -/
theorem serverUpdate_factor {a : AEAD} {g g' : ServerGlue} {d : Nat} {inbox : List Dgram} {out : Array Dgram}
    (h : serverUpdate a g d inbox = .ok (g', out)) (popped : List Event) :
    ∃ T, IsUpdateRun a g d inbox g' out popped T ∧
      (LockStep g → ∃ new, g'.renet.events = g.renet.events ++ new ∧ new.map evKey = T.all.filterMap resKey) := by
  obtain ⟨ns0, g1, out1, g2, out2, h0, l1, l2, l3⟩ := serverUpdate_unfold h
  obtain ⟨tr1, t1, r1, o1⟩ := handleLoop_factor (ppF a) popped _ _ _ _ _ l1
  obtain ⟨tr2, t2, r2, o2⟩ := handleLoop_factor (ucF a) popped _ _ _ _ _ l2
  obtain ⟨tr3, t3, r3, o3⟩ := handleLoop_factor (dcF a) popped _ _ _ _ _ l3
  refine ⟨⟨ns0, tr1, g1.netcode, tr2, g2.netcode, g2.renet, tr3⟩, ⟨h0, t1, t2, ?_, t3, r3, ?_⟩, ?_⟩
  · rw [List.flatMap_append]
    exact runSrv_append _ _ _ _ _ r1 r2
  · rw [o3, o2, o1]
    simp [UpdateTrace.all, List.flatMap_append]
  · intro hl
    have hl0 : LockStep { g with netcode := ns0 } := by
      refine ⟨?_, hl.sorted, ?_⟩
      · show (ids ns0.clients).Nodup
        rw [update_clients h0]; exact hl.nodup
      · intro id
        show _ ↔ id ∈ ids ns0.clients
        rw [update_clients h0]; exact hl.sync id
    obtain ⟨hl1, n1, e1, k1⟩ := handleLoop_lockstep (ppF_tstep a) _ _ _ _ _ tr1 l1 t1 hl0
    obtain ⟨hl2, n2, e2, k2⟩ := handleLoop_lockstep (ucF_tstep a) _ _ _ _ _ tr2 l2 t2 hl1
    obtain ⟨hl3, n3, e3, k3⟩ := handleLoop_lockstep (dcF_tstep a) _ _ _ _ _ tr3 l3 t3 hl2
    refine ⟨n1 ++ n2 ++ n3, ?_, ?_⟩
    · rw [e3, e2, e1]; simp
    · simp only [UpdateTrace.all, List.map_append, List.filterMap_append, k1, k2, k3]

theorem ncTrace_mem {α : Type} {f : NetcodeServer → α → Res Empty (ServerResult × NetcodeServer)} :
    ∀ {l : List α} {ns ns' : NetcodeServer} {tr : List ServerResult}, ncTrace f ns l = .ok (tr, ns') →
    ∀ r ∈ tr, ∃ nsA x nsB, x ∈ l ∧ f nsA x = .ok (r, nsB)
  | [], ns, ns', tr, h, r, hr => by
    cases h; cases hr
  | x :: rest, ns, ns', tr, h, r, hr => by
    simp only [ncTrace] at h
    obtain ⟨⟨r0, ns1⟩, h1, h2⟩ := CI.bind_ok_cases h
    obtain ⟨⟨tr1, ns2⟩, h3, h4⟩ := CI.bind_ok_cases h2
    simp only [Res.pure_eq, Res.ok.injEq, Prod.mk.injEq] at h4
    obtain ⟨e1, e2⟩ := h4
    subst e1; subst e2
    rcases List.mem_cons.mp hr with e | e
    · subst e
      exact ⟨ns, x, ns1, List.mem_cons_self, h1⟩
    · obtain ⟨nsA, y, nsB, hy, hf⟩ := ncTrace_mem h3 r e
      exact ⟨nsA, y, nsB, List.mem_cons_of_mem _ hy, hf⟩

/-! ## Part 5 : payload routing -/

theorem mem_flatMap_opOf_ppf {tr : List ServerResult} {b : Bytes} {id : Nat}
    (h : SL.SrvOp.processPacketFrom b id ∈ tr.flatMap opOf) : ServerResult.payload id b ∈ tr := by
  obtain ⟨r, hr, hm⟩ := List.mem_flatMap.mp h
  cases r with
  | payload i p =>
    simp only [opOf, List.mem_singleton, SL.SrvOp.processPacketFrom.injEq] at hm
    obtain ⟨e1, e2⟩ := hm
    subst e1; subst e2
    exact hr
  | none => simp [opOf] at hm
  | packetToSend ad p => simp [opOf] at hm
  | clientConnected i ad ud p => simp [opOf] at hm
  | clientDisconnected i ad p => simp [opOf] at hm

/-- **routing, inbound.**  Every `(bytes, id)` that one `update` hands to `RenetServer::process_packet_from` is a
    payload that `NetcodeServer::process_packet` returned as `Payload{client_id = id}` for one of the queued datagrams,
    `id` being in the netcode table at that moment. -/
theorem serverUpdate_routing {a : AEAD} {g g' : ServerGlue} {d : Nat} {inbox : List Dgram} {out : Array Dgram}
    {popped : List Event} {T : UpdateTrace} (hr : IsUpdateRun a g d inbox g' out popped T) {b : Bytes} {id : Nat}
    (h : SL.SrvOp.processPacketFrom b id ∈ T.all.flatMap opOf) :
    ∃ (nsA : NetcodeServer) (dg : Dgram) (nsB : NetcodeServer), dg ∈ inbox ∧
      nsA.processPacket a dg.1 dg.2 = .ok (.payload id b, nsB) ∧ id ∈ nsA.clientsId ∧
      Auth a nsA dg.1 dg.2 (.payload id b) := by
  have hm := mem_flatMap_opOf_ppf h
  unfold UpdateTrace.all at hm
  rcases List.mem_append.mp hm with hm | hm
  · rcases List.mem_append.mp hm with hm | hm
    · obtain ⟨nsA, dg, nsB, hdg, hf⟩ := ncTrace_mem hr.recv _ hm
      exact ⟨nsA, dg, nsB, hdg, hf, (processPacket_tstep hf).2, processPacket_auth hf⟩
    · obtain ⟨nsA, x, nsB, _, hf⟩ := ncTrace_mem hr.ticks _ hm
      exact (updateClient_shape hf).elim
  · obtain ⟨nsA, x, nsB, _, hf⟩ := ncTrace_mem hr.dead _ hm
    obtain ⟨_, hin, hout⟩ := disconnect_spec hf
    by_cases hx : x ∈ ids nsA.clients
    · obtain ⟨ad, p, e⟩ := hin hx; cases e
    · cases (hout hx).1

/-- **why a session ends on the server.**  Every `ClientDisconnected{id}` netcode reports during one `update` has one
    of three causes: (1) a queued datagram from that client's address that decodes under that client's key as a
    disconnect packet; (2) `update_client(id)` found the slot timed out; (3) renet held the connection disconnected
    (channel error or `RenetServer::disconnect`) and the transport told netcode.  Nothing else removes a client. -/
theorem serverUpdate_disconnect_causes {a : AEAD} {g g' : ServerGlue} {d : Nat} {inbox : List Dgram} {out : Array Dgram}
    {popped : List Event} {T : UpdateTrace} (hr : IsUpdateRun a g d inbox g' out popped T) {id : Nat} {ad : Addr}
    {pl : Option Bytes} (h : ServerResult.clientDisconnected id ad pl ∈ T.all) :
    (∃ (nsA : NetcodeServer) (dg : Dgram) (nsB : NetcodeServer), dg ∈ inbox ∧
        nsA.processPacket a dg.1 dg.2 = .ok (.clientDisconnected id ad pl, nsB) ∧
        Auth a nsA dg.1 dg.2 (.clientDisconnected id ad pl)) ∨
    (∃ (nsA nsB : NetcodeServer), nsA.updateClient a id = .ok (.clientDisconnected id ad pl, nsB) ∧
        UCShape nsA id (.clientDisconnected id ad pl)) ∨
    id ∈ T.rs2.disconnectionsId := by
  unfold UpdateTrace.all at h
  rcases List.mem_append.mp h with hm | hm
  · rcases List.mem_append.mp hm with hm | hm
    · obtain ⟨nsA, dg, nsB, hdg, hf⟩ := ncTrace_mem hr.recv _ hm
      exact Or.inl ⟨nsA, dg, nsB, hdg, hf, processPacket_auth hf⟩
    · obtain ⟨nsA, x, nsB, _, hf⟩ := ncTrace_mem hr.ticks _ hm
      have hs := updateClient_shape hf
      have hx : id = x := hs.1
      subst hx
      exact Or.inr (Or.inl ⟨nsA, nsB, hf, hs⟩)
  · obtain ⟨nsA, x, nsB, hx, hf⟩ := ncTrace_mem hr.dead _ hm
    obtain ⟨_, hin, hout⟩ := disconnect_spec hf
    by_cases hxi : x ∈ ids nsA.clients
    · obtain ⟨ad', p', e⟩ := hin hxi
      cases e
      exact Or.inr (Or.inr hx)
    · cases (hout hxi).1

/-- **a disconnect decided by the message layer on the server ends the session within one `update`**: if renet holds
    client `id` disconnected with reason `r`, the next `update` makes netcode free its slot and the application's next
    event about `id` is `ClientDisconnected{id, r}` -/
theorem server_disconnect_propagates {a : AEAD} {g g' : ServerGlue} {d : Nat} {inbox : List Dgram} {out : Array Dgram}
    (h : serverUpdate a g d inbox = .ok (g', out)) (hk : LockStep g) {popped : List Event}
    (hs : SL.SrvInv (g.renet, popped)) {id : Nat} {c : Conn} {r : Reason}
    (hf : SMap.find? g.renet.conns id = some c) (hst : c.status = .disconnected r) :
    ∃ new tl, SL.eventLog (g'.renet, popped) = SL.eventLog (g.renet, popped) ++ new ∧
      new.filter (SL.Event.about id) = .disconnected id r :: tl := by
  obtain ⟨T, hr, _⟩ := serverUpdate_factor h popped
  obtain ⟨_, hnd⟩ := serverUpdate_lockstep h hk
  obtain ⟨new, hn, ho⟩ := SL.runSrv_first_reason _ _ _ hr.renet hs id c r hf hst
  rcases ho with ⟨_, c', hf', hst'⟩ | ⟨tl, htl⟩
  · have := hnd id c' hf'
    rw [SL.Conn.isDisconnected_of_status hst'] at this
    cases this
  · exact ⟨new, tl, hn, htl⟩

/-- what `generate_payload_packet(id, ·)` makes of the packets `ps`, in order, threading the netcode state;
    the first error abandons the rest -/
inductive Sealed (a : AEAD) (id : Nat) : NetcodeServer → List Bytes → List Dgram → NetcodeServer → Prop
  | nil (ns : NetcodeServer) : Sealed a id ns [] [] ns
  | abandon {ns : NetcodeServer} {p : Bytes} {ps : List Bytes} {e : NetcodeError} :
      ns.generatePayloadPacket a id p = .err e → Sealed a id ns (p :: ps) [] ns
  | cons {ns ns1 ns2 : NetcodeServer} {p : Bytes} {ps : List Bytes} {d : Dgram} {ds : List Dgram} :
      ns.generatePayloadPacket a id p = .ok (d, ns1) → Sealed a id ns1 ps ds ns2 →
      Sealed a id ns (p :: ps) (d :: ds) ns2

theorem sendClient_sealed (a : AEAD) (id : Nat) :
    ∀ (ps : List Bytes) (ns ns' : NetcodeServer) (out out' : Array Dgram),
    serverSendClient a ns id ps out = .ok (ns', out') →
    ∃ ds, out'.toList = out.toList ++ ds ∧ Sealed a id ns ps ds ns'
  | [], ns, ns', out, out', h => by
    cases h
    exact ⟨[], by simp, .nil ns⟩
  | p :: rest, ns, ns', out, out', h => by
    simp only [serverSendClient] at h
    split at h
    · cases h
    · rename_i e he
      cases h
      exact ⟨[], by simp, .abandon he⟩
    · rename_i addr dg ns1 hg
      obtain ⟨ds, e1, e2⟩ := sendClient_sealed a id rest ns1 ns' _ out' h
      exact ⟨(addr, dg) :: ds, by rw [e1]; simp, .cons hg e2⟩

/-- one `send_packets`: for each id of the list, renet's `get_packets_to_send(id)` returned `ps` and the datagrams
    sent for it are `Sealed … ps` -/
inductive SendRun (a : AEAD) : ServerGlue → List Nat → List Dgram → ServerGlue → Prop
  | nil (g : ServerGlue) : SendRun a g [] [] g
  | cons {g g' : ServerGlue} {id : Nat} {rest : List Nat} {rs : Server} {ps : List Bytes} {ds ds' : List Dgram}
      {ns : NetcodeServer} :
      g.renet.getPacketsToSend id = .ok (rs, some ps) → Sealed a id g.netcode ps ds ns →
      SendRun a { netcode := ns, renet := rs } rest ds' g' → SendRun a g (id :: rest) (ds ++ ds') g'

theorem sendLoop_run (a : AEAD) : ∀ (l : List Nat) (g g' : ServerGlue) (out out' : Array Dgram),
    serverSendLoop a g l out = .ok (g', out') → ∃ ds, out'.toList = out.toList ++ ds ∧ SendRun a g l ds g'
  | [], g, g', out, out', h => by
    cases h
    exact ⟨[], by simp, .nil g⟩
  | id :: rest, g, g', out, out', h => by
    obtain ⟨rs, ps, ns, out1, h1, h2, h3⟩ := sendLoop_cons h
    obtain ⟨ds, e1, s1⟩ := sendClient_sealed a id ps _ _ _ _ h2
    obtain ⟨ds', e2, s2⟩ := sendLoop_run a rest _ g' out1 out' h3
    exact ⟨ds ++ ds', by rw [e2, e1, List.append_assoc], .cons h1 s1 s2⟩

theorem Sealed.mem {a : AEAD} {id : Nat} {ns ns' : NetcodeServer} {ps : List Bytes} {ds : List Dgram}
    (h : Sealed a id ns ps ds ns') : ∀ d ∈ ds, ∃ (p : Bytes) (nsA nsB : NetcodeServer), p ∈ ps ∧ nsA.generatePayloadPacket a id p = .ok (d, nsB) := by
  induction h with
  | nil ns => intro d hd; cases hd
  | abandon he => intro d hd; cases hd
  | cons hg _ ih =>
    intro d hd
    rcases List.mem_cons.mp hd with e | e
    · subst e
      exact ⟨_, _, _, List.mem_cons_self, hg⟩
    · obtain ⟨p, nsA, nsB, hp, hf⟩ := ih d e
      exact ⟨p, nsA, nsB, List.mem_cons_of_mem _ hp, hf⟩

/-- **routing, outbound.**  Every datagram one `send_packets` sends is `generate_payload_packet(id, p)` for a connected
    renet client `id` and a packet `p` that `RenetServer::get_packets_to_send(id)` returned in this call. -/
theorem SendRun.mem {a : AEAD} {g g' : ServerGlue} {l : List Nat} {ds : List Dgram} (h : SendRun a g l ds g') :
    ∀ d ∈ ds, ∃ (id : Nat) (rsA rsB : Server) (ps : List Bytes) (p : Bytes) (nsA nsB : NetcodeServer), id ∈ l ∧
      rsA.getPacketsToSend id = .ok (rsB, some ps) ∧ p ∈ ps ∧ nsA.generatePayloadPacket a id p = .ok (d, nsB) := by
  induction h with
  | nil g => intro d hd; cases hd
  | cons h1 s1 _ ih =>
    intro d hd
    rcases List.mem_append.mp hd with e | e
    · obtain ⟨p, nsA, nsB, hp, hf⟩ := s1.mem d e
      exact ⟨_, _, _, _, p, nsA, nsB, List.mem_cons_self, h1, hp, hf⟩
    · obtain ⟨id, rsA, rsB, ps, p, nsA, nsB, hid, hg, hp, hf⟩ := ih d e
      exact ⟨id, rsA, rsB, ps, p, nsA, nsB, List.mem_cons_of_mem _ hid, hg, hp, hf⟩

theorem serverSendPackets_run {a : AEAD} {g g' : ServerGlue} {out : Array Dgram}
    (h : serverSendPackets a g = .ok (g', out)) : SendRun a g g.renet.clientsId out.toList g' := by
  obtain ⟨ds, e, s⟩ := sendLoop_run a _ g g' _ out h
  simp only [List.nil_append] at e
  rw [e]; exact s

/-! ## Part 6 : the client glue -/

/-- `RenetClient` status the transport sets at the start of an `update` (step 3) -/
def mirror (g : ClientGlue) : Conn :=
  if g.netcode.isConnected then g.renet.setConnected
  else if g.netcode.isConnecting then g.renet.setConnecting else g.renet

/-- **client, netcode session over** (denied, timed out, `Disconnect` datagram received, `transport.disconnect()`):
    `RenetClient::disconnect_due_to_transport()`, the socket is not read, nothing is sent, the call reports the netcode
    reason -/
theorem clientUpdate_netcode_disconnected {a : AEAD} {g : ClientGlue} {reason : DisconnectReason}
    (hn : g.netcode.disconnectReason = some reason) (d : Nat) (inbox : List Dgram) :
    clientUpdate a g d inbox =
      .ok ⟨.error (.netcode (.disconnected reason)), { g with renet := g.renet.disconnectWith .transport }, #[], inbox⟩ := by
  unfold clientUpdate
  rw [hn]
  rfl

/-- the renet client is then disconnected; with reason `Transport` unless it already was disconnected -/
theorem disconnect_due_to_transport_status (c : Conn) :
    (c.disconnectWith .transport).isDisconnected = true ∧
    (c.disconnectWith .transport).status = if c.isDisconnected then c.status else .disconnected .transport :=
  ⟨SL.Conn.disconnectWith_isDisconnected c _, SL.Conn.disconnectWith_status c _⟩

/-- **client, the application called `RenetClient::disconnect()`** (or a channel error disconnected it): the netcode
    client is told to disconnect — whatever its state — and its `Disconnect` datagram is sent; the socket is not read -/
theorem clientUpdate_renet_disconnected {a : AEAD} {g : ClientGlue} {error : Reason}
    (hn : g.netcode.disconnectReason = none) (hr : g.renet.disconnectReason = some error) (d : Nat) (inbox : List Dgram) :
    clientUpdate a g d inbox =
      match (g.netcode.disconnect a).1 with
      | .panic m => .panic m
      | .err e => .ok ⟨.error (.netcode e), { g with netcode := (g.netcode.disconnect a).2 }, #[], inbox⟩
      | .ok (addr, pkt) =>
        .ok ⟨.error (.renet error), { g with netcode := (g.netcode.disconnect a).2 }, #[(addr, pkt)], inbox⟩ := by
  unfold clientUpdate
  rw [hn, hr]
  dsimp only
  generalize NetcodeClient.disconnect a g.netcode = x
  obtain ⟨r, nc⟩ := x
  cases r with
  | ok v => obtain ⟨addr, pkt⟩ := v; rfl
  | err e => rfl
  | panic m => rfl

theorem netcodeClient_disconnect_state (a : AEAD) (nc : NetcodeClient) :
    (nc.disconnect a).2.state = .disconnected .disconnectedByClient ∧ (nc.disconnect a).2.isDisconnected = true ∧
    (nc.disconnect a).2.disconnectReason = some .disconnectedByClient := ⟨rfl, rfl, rfl⟩

theorem netcodeClient_disconnect_packet {a : AEAD} {nc : NetcodeClient} {addr : Addr} {pkt : Bytes}
    (h : (nc.disconnect a).1 = .ok (addr, pkt)) :
    addr = nc.serverAddr ∧
    Packet.disconnect.encode a C.NETCODE_MAX_PACKET_BYTES nc.connectToken.protocolId
      (some (nc.sequence, nc.connectToken.clientToServerKey)) = .ok pkt := by
  unfold NetcodeClient.disconnect at h
  dsimp only at h
  obtain ⟨out, h1, h2⟩ := CI.bind_ok_cases h
  simp only [Res.pure_eq, Res.ok.injEq, Prod.mk.injEq] at h2
  exact ⟨h2.1.symm, by rw [← h2.2]; exact h1⟩

/-- **client, session alive**: status mirrored, socket drained through netcode into renet, then the netcode tick -/
theorem clientUpdate_alive {a : AEAD} {g : ClientGlue}
    (hn : g.netcode.disconnectReason = none) (hr : g.renet.disconnectReason = none) (d : Nat) (inbox : List Dgram) :
    clientUpdate a g d inbox = (do
      let g1 ← clientRecvLoop a { g with renet := mirror g } inbox
      let (o, nc) ← g1.netcode.update a d
      match o with
      | some (pkt, addr) => pure ⟨.ok (), { g1 with netcode := nc }, #[(addr, pkt)], []⟩
      | none => pure ⟨.ok (), { g1 with netcode := nc }, #[], []⟩) := by
  unfold clientUpdate
  rw [hn, hr]
  rfl

/-- the status after step 3: `Connected` iff netcode is connected, else `Connecting` -/
theorem mirror_status {g : ClientGlue} (hn : g.netcode.disconnectReason = none) (hr : g.renet.disconnectReason = none) :
    (mirror g).status = if g.netcode.isConnected then .connected else .connecting := by
  have hd : g.renet.isDisconnected = false := by
    unfold Conn.disconnectReason at hr
    unfold Conn.isDisconnected
    split at hr
    · cases hr
    · rfl
  unfold mirror
  split
  · simp [Conn.setConnected, hd]
  · rename_i hc
    have hcg : g.netcode.isConnecting = true := by
      unfold NetcodeClient.disconnectReason at hn
      unfold NetcodeClient.isConnected at hc
      unfold NetcodeClient.isConnecting
      cases hs : g.netcode.state <;> simp [hs] at hn hc ⊢
    rw [if_pos hcg]
    simp [Conn.setConnecting, hd]

/-- the netcode half of the client's receive loop on its own: the payloads it surfaces, in order -/
def clientPayloads (a : AEAD) (nc : NetcodeClient) : List Dgram → Res Empty (List Bytes × NetcodeClient)
  | [] => pure ([], nc)
  | (addr, buf) :: rest =>
    if addr ≠ nc.serverAddr then clientPayloads a nc rest else do
    let (p, nc1) ← nc.processPacket a buf
    let (ps, nc2) ← clientPayloads a nc1 rest
    pure (p.toList ++ ps, nc2)

/-- **client routing, inbound**: what is fed to `RenetClient::process_packet` is exactly the sequence of payloads
    `NetcodeClient::process_packet` surfaced for the datagrams that came from the server address, in order -/
theorem clientRecvLoop_factor (a : AEAD) : ∀ (l : List Dgram) (g g' : ClientGlue), clientRecvLoop a g l = .ok g' →
    ∃ ps, clientPayloads a g.netcode l = .ok (ps, g'.netcode) ∧ Server.feedClient g.renet ps = .ok g'.renet
  | [], g, g', h => by
    cases h
    exact ⟨[], rfl, rfl⟩
  | (addr, buf) :: rest, g, g', h => by
    simp only [clientRecvLoop] at h
    split at h
    · rename_i hne
      obtain ⟨ps, h1, h2⟩ := clientRecvLoop_factor a rest g g' h
      exact ⟨ps, by simp only [clientPayloads, if_pos hne]; exact h1, h2⟩
    · rename_i heq
      obtain ⟨⟨p, nc⟩, h1, h2⟩ := CI.bind_ok_cases h
      cases p with
      | none =>
        dsimp only at h2
        obtain ⟨ps, h3, h4⟩ := clientRecvLoop_factor a rest _ g' h2
        refine ⟨ps, ?_, h4⟩
        simp only [clientPayloads, if_neg heq, h1, Res.bind_ok]
        have h3' : clientPayloads a nc rest = .ok (ps, g'.netcode) := h3
        rw [h3']; rfl
      | some p =>
        dsimp only at h2
        obtain ⟨rc, h5, h6⟩ := CI.bind_ok_cases h2
        obtain ⟨ps, h3, h4⟩ := clientRecvLoop_factor a rest _ g' h6
        refine ⟨p :: ps, ?_, ?_⟩
        · simp only [clientPayloads, if_neg heq, h1, Res.bind_ok]
          have h3' : clientPayloads a nc rest = .ok (ps, g'.netcode) := h3
          rw [h3']; rfl
        · simp only [Server.feedClient, h5, Res.bind_ok]
          exact h4

/-- the alive branch of `update`, end to end -/
theorem clientUpdate_alive_spec {a : AEAD} {g : ClientGlue} {d : Nat} {inbox : List Dgram} {o : ClientOut}
    (hn : g.netcode.disconnectReason = none) (hr : g.renet.disconnectReason = none)
    (h : clientUpdate a g d inbox = .ok o) :
    (mirror g).status = (if g.netcode.isConnected then .connected else .connecting) ∧
    ∃ (ps : List Bytes) (nc1 : NetcodeClient) (op : Option (Bytes × Addr)),
      clientPayloads a g.netcode inbox = .ok (ps, nc1) ∧
      Server.feedClient (mirror g) ps = .ok o.g.renet ∧
      nc1.update a d = .ok (op, o.g.netcode) ∧
      o.result = .ok () ∧ o.rest = [] ∧ o.out.toList = op.toList.map (fun x => (x.2, x.1)) := by
  refine ⟨mirror_status hn hr, ?_⟩
  rw [clientUpdate_alive hn hr] at h
  obtain ⟨g1, h1, h2⟩ := CI.bind_ok_cases h
  obtain ⟨⟨op, nc⟩, h3, h4⟩ := CI.bind_ok_cases h2
  obtain ⟨ps, p1, p2⟩ := clientRecvLoop_factor a inbox _ g1 h1
  cases op with
  | none =>
    simp only [Res.pure_eq, Res.ok.injEq] at h4
    subst h4
    exact ⟨ps, g1.netcode, none, p1, p2, h3, rfl, rfl, rfl⟩
  | some v =>
    obtain ⟨pkt, addr⟩ := v
    simp only [Res.pure_eq, Res.ok.injEq] at h4
    subst h4
    exact ⟨ps, g1.netcode, some (pkt, addr), p1, p2, h3, rfl, rfl, rfl⟩

/-- the application-disconnect branch of `update`, end to end: it always returns; netcode is disconnected with reason
    `DisconnectedByClient`; the `Disconnect` datagram goes to the server address unless it could not be encoded -/
theorem clientUpdate_app_disconnect_spec {a : AEAD} {g : ClientGlue} {error : Reason}
    (hn : g.netcode.disconnectReason = none) (hr : g.renet.disconnectReason = some error) (d : Nat) (inbox : List Dgram) :
    ∃ o, clientUpdate a g d inbox = .ok o ∧
      o.g.netcode.disconnectReason = some .disconnectedByClient ∧ o.g.renet = g.renet ∧ o.rest = inbox ∧
      ((∃ pkt, Netcode.Packet.disconnect.encode a C.NETCODE_MAX_PACKET_BYTES g.netcode.connectToken.protocolId
            (some (g.netcode.sequence, g.netcode.connectToken.clientToServerKey)) = .ok pkt ∧
          o.result = .error (.renet error) ∧ o.out = #[(g.netcode.serverAddr, pkt)]) ∨
       (∃ e, o.result = .error (.netcode e) ∧ o.out = #[])) := by
  rw [clientUpdate_renet_disconnected hn hr]
  cases hd : (g.netcode.disconnect a).1 with
  | ok v =>
    obtain ⟨addr, pkt⟩ := v
    obtain ⟨e1, e2⟩ := netcodeClient_disconnect_packet hd
    subst e1
    exact ⟨_, rfl, rfl, rfl, rfl, Or.inl ⟨pkt, e2, rfl, rfl⟩⟩
  | err e => exact ⟨_, rfl, rfl, rfl, rfl, Or.inr ⟨e, rfl, rfl⟩⟩
  | panic m =>
    exfalso
    unfold NetcodeClient.disconnect at hd
    dsimp only at hd
    rcases hp : Netcode.Packet.disconnect.encode a C.NETCODE_MAX_PACKET_BYTES g.netcode.connectToken.protocolId
        (some (g.netcode.sequence, g.netcode.connectToken.clientToServerKey)) with out | e | m'
    · rw [hp] at hd; cases hd
    · rw [hp] at hd; cases hd
    · exact Packet.encode_no_panic a _ _ _ _ m' hp

/-- `send_packets` of the client: refused while netcode is disconnected -/
theorem clientSendPackets_disconnected {a : AEAD} {g : ClientGlue} {reason : DisconnectReason}
    (hn : g.netcode.disconnectReason = some reason) :
    clientSendPackets a g = .ok (.error (.netcode (.disconnected reason)), g, #[]) := by
  unfold clientSendPackets
  rw [hn]
  rfl

/-- what `NetcodeClient::generate_payload_packet` makes of the packets `ps`, in order; the first error ends the call -/
inductive CSealed (a : AEAD) : NetcodeClient → List Bytes → List Dgram → NetcodeClient → Option NetcodeError → Prop
  | nil (nc : NetcodeClient) : CSealed a nc [] [] nc none
  | stop {nc : NetcodeClient} {p : Bytes} {ps : List Bytes} {e : NetcodeError} :
      nc.generatePayloadPacket a p = .err e → CSealed a nc (p :: ps) [] nc (some e)
  | cons {nc nc1 nc2 : NetcodeClient} {p : Bytes} {ps : List Bytes} {d : Dgram} {ds : List Dgram}
      {e : Option NetcodeError} :
      nc.generatePayloadPacket a p = .ok (d, nc1) → CSealed a nc1 ps ds nc2 e → CSealed a nc (p :: ps) (d :: ds) nc2 e

theorem clientSendLoop_sealed (a : AEAD) : ∀ (ps : List Bytes) (nc nc' : NetcodeClient) (out out' : Array Dgram)
    (e : Option NetcodeError), clientSendLoop a nc ps out = .ok (e, nc', out') →
    ∃ ds, out'.toList = out.toList ++ ds ∧ CSealed a nc ps ds nc' e
  | [], nc, nc', out, out', e, h => by
    cases h
    exact ⟨[], by simp, .nil nc⟩
  | p :: rest, nc, nc', out, out', e, h => by
    simp only [clientSendLoop] at h
    split at h
    · cases h
    · rename_i e0 he
      cases h
      exact ⟨[], by simp, .stop he⟩
    · rename_i addr dg nc1 hg
      obtain ⟨ds, e1, e2⟩ := clientSendLoop_sealed a rest nc1 nc' _ out' e h
      exact ⟨(addr, dg) :: ds, by rw [e1]; simp, .cons hg e2⟩

/-- **client routing, outbound**: every datagram sent wraps, in order, a packet `RenetClient::get_packets_to_send`
    returned; the call fails with the first netcode error -/
theorem clientSendPackets_alive {a : AEAD} {g g' : ClientGlue} {res : Except TransportError Unit} {out : Array Dgram}
    (hn : g.netcode.disconnectReason = none) (h : clientSendPackets a g = .ok (res, g', out)) :
    ∃ ps e, g.renet.getPacketsToSend = .ok (g'.renet, ps) ∧ CSealed a g.netcode ps out.toList g'.netcode e ∧
      res = match e with | some e => .error (.netcode e) | none => .ok () := by
  unfold clientSendPackets at h
  rw [hn] at h
  dsimp only at h
  obtain ⟨⟨rc, ps⟩, h1, h2⟩ := CI.bind_ok_cases h
  obtain ⟨⟨e, nc, o⟩, h3, h4⟩ := CI.bind_ok_cases h2
  obtain ⟨ds, e1, e2⟩ := clientSendLoop_sealed a ps _ _ _ _ e h3
  simp only [List.nil_append] at e1
  cases e with
  | none =>
    simp only [Res.pure_eq, Res.ok.injEq, Prod.mk.injEq] at h4
    obtain ⟨r1, r2, r3⟩ := h4
    subst r1; subst r2; subst r3
    exact ⟨ps, none, h1, by rw [e1]; exact e2, rfl⟩
  | some e =>
    simp only [Res.pure_eq, Res.ok.injEq, Prod.mk.injEq] at h4
    obtain ⟨r1, r2, r3⟩ := h4
    subst r1; subst r2; subst r3
    exact ⟨ps, some e, h1, by rw [e1]; exact e2, rfl⟩

/-- `NetcodeClientTransport::disconnect()` -/
theorem clientDisconnect_spec (a : AEAD) (g : ClientGlue) :
    clientDisconnect a g =
      if g.netcode.isDisconnected then .ok (g, #[]) else
      match (g.netcode.disconnect a).1 with
      | .panic m => .panic m
      | .err _ => .ok ({ g with netcode := (g.netcode.disconnect a).2 }, #[])
      | .ok (addr, pkt) => .ok ({ g with netcode := (g.netcode.disconnect a).2 }, #[(addr, pkt)]) := by
  unfold clientDisconnect
  split
  · rfl
  · rfl

/-! ## Part 7 : no unwinding -/

/-- `NetcodeServer::disconnect` never unwinds (the `take().unwrap()` is guarded by the slot search) -/
theorem disconnect_total (a : AEAD) (s : NetcodeServer) (id : Nat) : ∃ r s', s.disconnect a id = .ok (r, s') := by
  unfold NetcodeServer.disconnect
  split
  · exact ⟨_, _, rfl⟩
  rename_i slot hslot
  obtain ⟨c, hat, _⟩ := findSlot_some hslot
  have hg : s.clients.getD slot none = some c := by
    rw [List.getD_eq_getElem?_getD, hat]; rfl
  rw [hg]
  dsimp only
  split
  · rename_i m hm
    exact absurd hm (Packet.encode_no_panic a _ _ _ _ m)
  · exact ⟨_, _, rfl⟩
  · exact ⟨_, _, rfl⟩

/-- one of the netcode server calls the glue makes unwound with message `m` (`disconnect` never does) -/
inductive NcPanic (a : AEAD) (m : String) : Prop
  | update (ns : NetcodeServer) (d : Nat) : ns.update d = .panic m → NcPanic a m
  | processPacket (ns : NetcodeServer) (addr : Addr) (buf : Bytes) : ns.processPacket a addr buf = .panic m → NcPanic a m
  | updateClient (ns : NetcodeServer) (id : Nat) : ns.updateClient a id = .panic m → NcPanic a m
  | generatePayloadPacket (ns : NetcodeServer) (id : Nat) (p : Bytes) :
      ns.generatePayloadPacket a id p = .panic m → NcPanic a m

/-- `handle_server_result` never unwinds on a renet server satisfying its invariant, and keeps the invariant -/
theorem handle_total {P : SliceCtor → Prop} (hP : GoodP P) {rs : Server} (hi : rs.InvP P) (r : ServerResult)
    (out : Array Dgram) : ∃ rs' out', handleServerResult r rs out = .ok (rs', out') ∧ rs'.InvP P := by
  cases r with
  | none => exact ⟨rs, out, rfl, hi⟩
  | packetToSend addr p => exact ⟨rs, _, rfl, hi⟩
  | payload id p =>
    obtain ⟨rs', ok, e, hi', _⟩ := CI.server_processPacketFrom_totalP hP hi p id
    exact ⟨rs', out, by simp only [handleServerResult, e, Res.bind_ok, Res.pure_eq], hi'⟩
  | clientConnected id addr ud p => exact ⟨_, _, rfl, CI.server_addConnection_invP hi id⟩
  | clientDisconnected id addr p =>
    cases p with
    | none => exact ⟨_, _, rfl, CI.server_removeConnection_invP hi id⟩
    | some p => exact ⟨_, _, rfl, CI.server_removeConnection_invP hi id⟩

theorem handleLoop_inv {P : SliceCtor → Prop} (hP : GoodP P) {α : Type}
    {f : NetcodeServer → α → Res Empty (ServerResult × NetcodeServer)} :
    ∀ (l : List α) (g g' : ServerGlue) (out out' : Array Dgram), handleLoop f g l out = .ok (g', out') →
    g.renet.InvP P → g'.renet.InvP P
  | [], g, g', out, out', h, hi => by cases h; exact hi
  | x :: rest, g, g', out, out', h, hi => by
    obtain ⟨r, ns, rs, out1, h1, h2, h3⟩ := handleLoop_cons h
    obtain ⟨rs', out1', e, hi'⟩ := handle_total hP hi r out
    rw [e] at h2
    simp only [Res.ok.injEq, Prod.mk.injEq] at h2
    obtain ⟨e1, e2⟩ := h2
    subst e1; subst e2
    exact handleLoop_inv hP rest _ g' _ out' h3 hi'

/-- a loop unwinds only if its netcode call does -/
theorem handleLoop_panic {P : SliceCtor → Prop} (hP : GoodP P) {α : Type}
    {f : NetcodeServer → α → Res Empty (ServerResult × NetcodeServer)} :
    ∀ (l : List α) (g : ServerGlue) (out : Array Dgram) (m : String), g.renet.InvP P →
    handleLoop f g l out = .panic m → ∃ ns x, f ns x = .panic m
  | [], g, out, m, hi, h => by cases h
  | x :: rest, g, out, m, hi, h => by
    cases hf : f g.netcode x with
    | ok v =>
      obtain ⟨r, ns⟩ := v
      obtain ⟨rs', out', e, hi'⟩ := handle_total hP hi r out
      simp only [handleLoop, hf, Res.bind_ok, e] at h
      exact handleLoop_panic hP rest _ out' m hi' h
    | err e => exact e.elim
    | panic m' =>
      simp only [handleLoop, hf, Res.bind_panic, Res.panic.injEq] at h
      subst h
      exact ⟨_, _, hf⟩

theorem res_cases {α : Type} (x : Res Empty α) : (∃ v, x = .ok v) ∨ (∃ m, x = .panic m) := by
  cases x with
  | ok v => exact Or.inl ⟨v, rfl⟩
  | err e => exact e.elim
  | panic m => exact Or.inr ⟨m, rfl⟩

/-- **`update` (server), partial.**  With the renet server in its invariant, `NetcodeServerTransport::update` unwinds only
    if one of the netcode calls it makes unwinds (with the same message): neither the glue nor renet — for any datagrams
    whatever — contributes an unwinding of its own.  (Assumed / not shown here: the netcode calls themselves.) -/
theorem serverUpdate_panic_partial {P : SliceCtor → Prop} (hP : GoodP P) {a : AEAD} {g : ServerGlue} {d : Nat}
    {inbox : List Dgram} {m : String} (hi : g.renet.InvP P) (h : serverUpdate a g d inbox = .panic m) :
    NcPanic a m := by
  simp only [serverUpdate, recvLoop_eq, idLoop_eq] at h
  rcases res_cases (g.netcode.update d) with ⟨ns0, h0⟩ | ⟨m0, h0⟩
  · rw [h0] at h
    simp only [Res.bind_ok] at h
    rcases res_cases (handleLoop (ppF a) { g with netcode := ns0 } inbox #[]) with ⟨⟨g1, out1⟩, h1⟩ | ⟨m1, h1⟩
    · have hi1 := handleLoop_inv hP _ _ _ _ _ h1 hi
      rw [h1] at h
      simp only [Res.bind_ok] at h
      rcases res_cases (handleLoop (ucF a) g1 g1.netcode.clientsId out1) with ⟨⟨g2, out2⟩, h2⟩ | ⟨m2, h2⟩
      · have hi2 := handleLoop_inv hP _ _ _ _ _ h2 hi1
        rw [h2] at h
        simp only [Res.bind_ok] at h
        obtain ⟨ns, x, hx⟩ := handleLoop_panic hP _ _ _ _ hi2 h
        obtain ⟨r, s', e⟩ := disconnect_total a ns x
        have hx' : ns.disconnect a x = .panic m := hx
        rw [e] at hx'; cases hx'
      · rw [h2] at h
        simp only [Res.bind_panic, Res.panic.injEq] at h
        subst h
        obtain ⟨ns, x, hx⟩ := handleLoop_panic hP _ _ _ _ hi1 h2
        exact .updateClient ns x hx
    · rw [h1] at h
      simp only [Res.bind_panic, Res.panic.injEq] at h
      subst h
      obtain ⟨ns, x, hx⟩ := handleLoop_panic hP _ { g with netcode := ns0 } _ _ hi h1
      exact .processPacket ns x.1 x.2 hx
  · rw [h0] at h
    simp only [Res.bind_panic, Res.panic.injEq] at h
    subst h
    exact .update _ _ h0

theorem serverUpdate_inv {P : SliceCtor → Prop} (hP : GoodP P) {a : AEAD} {g g' : ServerGlue} {d : Nat}
    {inbox : List Dgram} {out : Array Dgram} (hi : g.renet.InvP P) (h : serverUpdate a g d inbox = .ok (g', out)) :
    g'.renet.InvP P := by
  obtain ⟨ns0, g1, out1, g2, out2, _, l1, l2, l3⟩ := serverUpdate_unfold h
  exact handleLoop_inv hP _ _ _ _ _ l3 (handleLoop_inv hP _ _ _ _ _ l2 (handleLoop_inv hP _ _ _ _ _ l1 hi))

/-- `disconnect_all` never unwinds -/
theorem serverDisconnectAll_total {P : SliceCtor → Prop} (hP : GoodP P) (a : AEAD) {g : ServerGlue}
    (hi : g.renet.InvP P) : ∃ g' out, serverDisconnectAll a g = .ok (g', out) ∧ g'.renet.InvP P := by
  unfold serverDisconnectAll
  rw [idLoop_eq]
  rcases res_cases (handleLoop (dcF a) g g.netcode.clientsId #[]) with ⟨⟨g1, out1⟩, h1⟩ | ⟨m1, h1⟩
  · exact ⟨g1, out1, h1, handleLoop_inv hP _ _ _ _ _ h1 hi⟩
  · obtain ⟨ns, x, hx⟩ := handleLoop_panic hP _ _ _ _ hi h1
    obtain ⟨r, s', e⟩ := disconnect_total a ns x
    have hx' : ns.disconnect a x = .panic m1 := hx
    rw [e] at hx'; cases hx'

theorem sendClient_panic (a : AEAD) (id : Nat) : ∀ (ps : List Bytes) (ns : NetcodeServer) (out : Array Dgram) (m : String),
    serverSendClient a ns id ps out = .panic m → NcPanic a m
  | [], ns, out, m, h => by cases h
  | p :: rest, ns, out, m, h => by
    simp only [serverSendClient] at h
    split at h
    · rename_i m' hm
      cases h
      exact .generatePayloadPacket ns id p hm
    · cases h
    · exact sendClient_panic a id rest _ _ m h

/-- the `get_packets_to_send(client_id).unwrap()` of `send_packets` is never reached with `Err`: the loop runs over
    keys of the connection table, and nothing in the loop removes a key.  Any unwinding of `send_packets` is that of a
    connection's `get_packets_to_send` or of netcode's `generate_payload_packet`. -/
theorem sendLoop_panic (a : AEAD) : ∀ (l : List Nat) (g : ServerGlue) (out : Array Dgram) (m : String),
    (∀ id ∈ l, SMap.contains g.renet.conns id = true) → serverSendLoop a g l out = .panic m →
    (∃ c : Conn, c.getPacketsToSend = .panic m) ∨ NcPanic a m
  | [], g, out, m, _, h => by cases h
  | id :: rest, g, out, m, hk, h => by
    obtain ⟨c, hf⟩ := find_of_contains (hk id List.mem_cons_self)
    rcases res_cases c.getPacketsToSend with ⟨⟨c', ps⟩, hc⟩ | ⟨m1, hc⟩
    · have hg : g.renet.getPacketsToSend id = .ok ({ g.renet with conns := SMap.insert g.renet.conns id c' }, some ps) := by
        unfold Server.getPacketsToSend
        rw [hf]
        simp only [hc, Res.bind_ok, Res.pure_eq]
      obtain ⟨_, q, _⟩ := SL.Server.getPacketsToSend_spec hg
      simp only [serverSendLoop, hg, Res.bind_ok] at h
      rcases res_cases (serverSendClient a g.netcode id ps out) with ⟨⟨ns, out1⟩, h1⟩ | ⟨m1, h1⟩
      · rw [h1] at h
        simp only [Res.bind_ok] at h
        refine sendLoop_panic a rest _ out1 m (fun j hj => ?_) h
        show SMap.contains (SMap.insert g.renet.conns id c') j = true
        have := q.contains j
        simp only at this
        rw [this]
        exact hk j (List.mem_cons_of_mem _ hj)
      · rw [h1] at h
        simp only [Res.bind_panic, Res.panic.injEq] at h
        subst h
        exact Or.inr (sendClient_panic a id ps _ _ _ h1)
    · left
      refine ⟨c, ?_⟩
      have hg : g.renet.getPacketsToSend id = .panic m1 := by
        unfold Server.getPacketsToSend
        rw [hf]
        simp only [hc, Res.bind_panic]
      simp only [serverSendLoop, hg, Res.bind_panic, Res.panic.injEq] at h
      subst h
      exact hc

theorem serverSendPackets_panic_partial {a : AEAD} {g : ServerGlue} {m : String}
    (h : serverSendPackets a g = .panic m) : (∃ c : Conn, c.getPacketsToSend = .panic m) ∨ NcPanic a m :=
  sendLoop_panic a _ g _ m (fun _ hid => contains_of_mem_clientsId hid) h

/-! #### client -/

theorem cinv_disconnect (a : AEAD) {nc : NetcodeClient} (h : NetcodeClient.CInv nc) :
    NetcodeClient.CInv (nc.disconnect a).2 :=
  ⟨h.start_le, h.send_le, h.recv_le, h.addrs, h.timeout⟩

theorem clientRecvLoop_total {P : SliceCtor → Prop} (hP : GoodP P) (a : AEAD) :
    ∀ (l : List Dgram) (g : ClientGlue), NetcodeClient.CInv g.netcode → g.renet.InvP P →
    ∃ g', clientRecvLoop a g l = .ok g' ∧ NetcodeClient.CInv g'.netcode ∧ g'.renet.InvP P ∧
      g'.netcode.sequence = g.netcode.sequence ∧ g'.netcode.currentTime = g.netcode.currentTime
  | [], g, hc, hi => ⟨g, rfl, hc, hi, rfl, rfl⟩
  | (addr, buf) :: rest, g, hc, hi => by
    simp only [clientRecvLoop]
    split
    · exact clientRecvLoop_total hP a rest g hc hi
    · obtain ⟨p, nc, e⟩ := NetcodeClient.processPacket_total a g.netcode buf
      obtain ⟨hc', hs, ht⟩ := NetcodeClient.processPacket_cinv a hc e
      rw [e]
      simp only [Res.bind_ok]
      cases p with
      | none =>
        obtain ⟨g', e', c1, c2, c3, c4⟩ := clientRecvLoop_total hP a rest { g with netcode := nc } hc' hi
        exact ⟨g', e', c1, c2, c3.trans hs, c4.trans ht⟩
      | some p =>
        obtain ⟨rc, er, hi', _⟩ := CI.processPacket_totalP hP hi p
        simp only [er, Res.bind_ok]
        obtain ⟨g', e', c1, c2, c3, c4⟩ := clientRecvLoop_total hP a rest { netcode := nc, renet := rc } hc' hi'
        exact ⟨g', e', c1, c2, c3.trans hs, c4.trans ht⟩

/-- **`update` (client) never unwinds**, whatever is queued at the socket, while the netcode client satisfies its
    invariant, the renet client its own, the clock stays below `Duration::MAX` minus the largest timeout and the
    datagram counter below `u64::MAX` -/
theorem clientUpdate_total {P : SliceCtor → Prop} (hP : GoodP P) (a : AEAD) {g : ClientGlue} (d : Nat)
    (inbox : List Dgram) (hc : NetcodeClient.CInv g.netcode) (hi : g.renet.InvP P)
    (ht : g.netcode.currentTime + d + NetcodeClient.TIMEOUT_MAX_NS ≤ DURATION_MAX)
    (hseq : g.netcode.sequence + 1 ≤ U64_MAX) :
    ∃ o, clientUpdate a g d inbox = .ok o ∧ NetcodeClient.CInv o.g.netcode ∧ o.g.renet.InvP P := by
  cases hn : g.netcode.disconnectReason with
  | some reason =>
    rw [clientUpdate_netcode_disconnected hn]
    exact ⟨_, rfl, hc, hi.disconnectWith _⟩
  | none =>
    cases hr : g.renet.disconnectReason with
    | some error =>
      rw [clientUpdate_renet_disconnected hn hr]
      cases hd : (g.netcode.disconnect a).1 with
      | ok v => obtain ⟨addr, pkt⟩ := v; exact ⟨_, rfl, cinv_disconnect a hc, hi⟩
      | err e => exact ⟨_, rfl, cinv_disconnect a hc, hi⟩
      | panic m =>
        exfalso
        unfold NetcodeClient.disconnect at hd
        dsimp only at hd
        rcases hp : Packet.disconnect.encode a C.NETCODE_MAX_PACKET_BYTES g.netcode.connectToken.protocolId
            (some (g.netcode.sequence, g.netcode.connectToken.clientToServerKey)) with out | e | m'
        · rw [hp] at hd; cases hd
        · rw [hp] at hd; cases hd
        · exact Packet.encode_no_panic a _ _ _ _ m' hp
    | none =>
      rw [clientUpdate_alive hn hr]
      have him : (mirror g).InvP P := by
        unfold mirror
        split
        · exact hi.setConnected
        · split
          · exact hi.setConnecting
          · exact hi
      obtain ⟨g1, e1, c1, c2, c3, c4⟩ := clientRecvLoop_total hP a inbox { g with renet := mirror g } hc him
      obtain ⟨o, nc, e2, c5⟩ := NetcodeClient.update_total a g1.netcode d c1 (by rw [c4]; exact ht) (by rw [c3]; exact hseq)
      rw [e1]
      simp only [Res.bind_ok, e2]
      cases o with
      | none => exact ⟨_, rfl, c5, c2⟩
      | some v => obtain ⟨pkt, addr⟩ := v; exact ⟨_, rfl, c5, c2⟩

/-! ## Part 8 : "reported connected" = "in the netcode table" -/

/-- a connection's status stays or becomes `Disconnected` -/
def StatusStep (c c' : Conn) : Prop := c'.status = c.status ∨ ∃ r, c'.status = .disconnected r

theorem StatusStep.refl (c : Conn) : StatusStep c c := Or.inl rfl

theorem StatusStep.live {c c' : Conn} (h : StatusStep c c') (hc : c.status ≠ .connecting) : c'.status ≠ .connecting := by
  rcases h with h | ⟨r, h⟩
  · rw [h]; exact hc
  · rw [h]; intro e; cases e

theorem statusStep_dw (c : Conn) (r : Reason) : StatusStep c (c.disconnectWith r) := by
  rw [StatusStep, SL.Conn.disconnectWith_status]
  split
  · exact Or.inl rfl
  · exact Or.inr ⟨r, rfl⟩

theorem statusStep_sendMessage {c c' : Conn} {ch : Nat} {m : Bytes} (h : c.sendMessage ch m = .ok c') :
    StatusStep c c' := by
  unfold Conn.sendMessage at h
  split at h
  · cases h; exact .refl c
  · split at h
    · split at h
      · cases h; exact Or.inl rfl
      · cases h; exact statusStep_dw c _
    · split at h
      · cases h; exact Or.inl rfl
      · cases h

theorem statusStep_receiveMessage {c c' : Conn} {ch : Nat} {m : Option Bytes} (h : c.receiveMessage ch = .ok (c', m)) :
    StatusStep c c' := Or.inl (SL.Conn.receiveMessage_frame h).2.2.2.1

theorem statusStep_update {c c' : Conn} {dt : Nat} (h : c.update dt = .ok c') : StatusStep c c' :=
  Or.inl (SL.Conn.update_status h)

theorem statusStep_processPacket {P : SliceCtor → Prop} (hP : GoodP P) {c c' : Conn} {b : Bytes} (hi : c.InvP P)
    (h : c.processPacket b = .ok c') : StatusStep c c' := by
  obtain ⟨c1, e, _, hs, _⟩ := CI.processPacket_totalP hP hi b
  rw [e] at h
  cases h
  exact hs

theorem statusStep_getPacketsToSend {c c' : Conn} {out : List Bytes} (h : c.getPacketsToSend = .ok (c', out)) :
    StatusStep c c' := by
  unfold Conn.getPacketsToSend at h
  split at h
  · cases h; exact .refl c
  · obtain ⟨⟨sr, su, pk, seq, av⟩, _, h⟩ := CI.bind_ok_cases h
    dsimp only at h
    obtain ⟨sent, _, h⟩ := CI.bind_ok_cases h
    split at h
    · cases h; exact Or.inl rfl
    · cases h
      rename_i e _
      exact statusStep_dw _ _
    · cases h

/-- no connection of the server is `Connecting` (they are created `Connected`) -/
def Live (rs : Server) : Prop := ∀ id c, SMap.find? rs.conns id = some c → c.status ≠ .connecting

theorem live_addressed {i : Nat} {s s' : Server} (ad : SL.Server.Addressed i s s')
    (h : s' = s ∨ ∃ c c', SMap.find? s.conns i = some c ∧ StatusStep c c' ∧ SMap.find? s'.conns i = some c')
    (hl : Live s) : Live s' := by
  rcases h with h | ⟨c, c', h1, h2, h3⟩
  · rw [h]; exact hl
  · intro j x hx
    by_cases e : j = i
    · subst e
      rw [h3] at hx; cases hx
      exact h2.live (hl j c h1)
    · rw [ad.others j e] at hx
      exact hl j x hx

theorem live_all {s s' : Server}
    (h : ∀ j, (SMap.find? s.conns j = none → SMap.find? s'.conns j = none) ∧
      (∀ c, SMap.find? s.conns j = some c → ∃ c', StatusStep c c' ∧ SMap.find? s'.conns j = some c'))
    (hl : Live s) : Live s' := by
  intro j x hx
  cases hf : SMap.find? s.conns j with
  | none => rw [(h j).1 hf] at hx; cases hx
  | some c =>
    obtain ⟨c', h1, h2⟩ := (h j).2 c hf
    rw [h2] at hx; cases hx
    exact h1.live (hl j c hf)

theorem fromChannels_status (b : Nat) (sc cc : List ChanCfg) : (Conn.fromChannels b sc cc).status = .connecting := rfl

theorem live_addConnection {rs : Server} (hl : Live rs) (id : Nat) : Live (rs.addConnection id) := by
  unfold Server.addConnection
  split
  · exact hl
  · intro j x hx
    by_cases e : j = id
    · subst e
      rw [SL.SMap.find?_insert_self] at hx
      cases hx
      simp [Server.newConn, Conn.setConnected, Conn.isDisconnected, fromChannels_status]
    · rw [SL.SMap.find?_insert_ne _ _ _ _ e] at hx
      exact hl j x hx

theorem live_removeConnection {rs : Server} (hs : SL.SMap.Sorted rs.conns) (hl : Live rs) (id : Nat) :
    Live (rs.removeConnection id) := by
  intro j x hx
  by_cases e : j = id
  · subst e
    rw [removeConnection_find_self rs hs j] at hx; cases hx
  · rw [SL.removeConnection_frame rs id j e] at hx
    exact hl j x hx

theorem live_handle {P : SliceCtor → Prop} (hP : GoodP P) {r : ServerResult} {rs rs' : Server} {out out' : Array Dgram}
    (h : handleServerResult r rs out = .ok (rs', out')) (hi : rs.InvP P) (hs : SL.SMap.Sorted rs.conns) (hl : Live rs) :
    Live rs' := by
  have hr := handle_renet h
  cases r with
  | none => simp only at hr; rw [hr]; exact hl
  | packetToSend addr p => simp only at hr; rw [hr]; exact hl
  | payload id p =>
    simp only at hr
    obtain ⟨ok, hp⟩ := hr
    obtain ⟨ad, _, hc⟩ := SL.Server.processPacketFrom_spec hp
    refine live_addressed ad ?_ hl
    rcases hc with ⟨_, e, _⟩ | ⟨c, c', h1, h2, _, h3⟩
    · exact Or.inl e
    · exact Or.inr ⟨c, c', h1, statusStep_processPacket hP (hi.find h1).1 h2, h3⟩
  | clientConnected id addr ud p => simp only at hr; rw [hr]; exact live_addConnection hl id
  | clientDisconnected id addr p => simp only at hr; rw [hr]; exact live_removeConnection hs hl id

theorem handleLoop_live {P : SliceCtor → Prop} (hP : GoodP P) {α : Type}
    {f : NetcodeServer → α → Res Empty (ServerResult × NetcodeServer)}
    (hf : ∀ ns x r ns', f ns x = .ok (r, ns') → TStep ns.clients ns'.clients r) :
    ∀ (l : List α) (g g' : ServerGlue) (out out' : Array Dgram), handleLoop f g l out = .ok (g', out') →
    LockStep g → g.renet.InvP P → Live g.renet → Live g'.renet
  | [], g, g', out, out', h, _, _, hl => by cases h; exact hl
  | x :: rest, g, g', out, out', h, hk, hi, hl => by
    obtain ⟨r, ns, rs, out1, h1, h2, h3⟩ := handleLoop_cons h
    obtain ⟨hk1, _⟩ := lockStep_handle hk (hf _ _ _ _ h1) h2
    obtain ⟨rs', out1', e, hi'⟩ := handle_total hP hi r out
    rw [e] at h2
    simp only [Res.ok.injEq, Prod.mk.injEq] at h2
    obtain ⟨e1, e2⟩ := h2
    subst e1; subst e2
    exact handleLoop_live hP hf rest _ g' _ out' h3 hk1 hi' (live_handle hP e hi hk.sorted hl)

theorem serverUpdate_live {P : SliceCtor → Prop} (hP : GoodP P) {a : AEAD} {g g' : ServerGlue} {d : Nat}
    {inbox : List Dgram} {out : Array Dgram} (h : serverUpdate a g d inbox = .ok (g', out))
    (hk : LockStep g) (hi : g.renet.InvP P) (hl : Live g.renet) : Live g'.renet := by
  obtain ⟨ns0, g1, out1, g2, out2, h0, l1, l2, l3⟩ := serverUpdate_unfold h
  have hk0 : LockStep { g with netcode := ns0 } := by
    refine ⟨?_, hk.sorted, ?_⟩
    · show (ids ns0.clients).Nodup
      rw [update_clients h0]; exact hk.nodup
    · intro id
      show _ ↔ id ∈ ids ns0.clients
      rw [update_clients h0]; exact hk.sync id
  have hk1 := handleLoop_lockstep' (ppF_tstep a) l1 hk0
  have hk2 := handleLoop_lockstep' (ucF_tstep a) l2 hk1
  have hi1 := handleLoop_inv hP _ _ _ _ _ l1 hi
  have hi2 := handleLoop_inv hP _ _ _ _ _ l2 hi1
  have hl1 := handleLoop_live hP (ppF_tstep a) _ _ _ _ _ l1 hk0 hi hl
  have hl2 := handleLoop_live hP (ucF_tstep a) _ _ _ _ _ l2 hk1 hi1 hl1
  exact handleLoop_live hP (dcF_tstep a) _ _ _ _ _ l3 hk2 hi2 hl2

theorem find_of_mem_sorted {α : Type} : ∀ {m : SMap α}, SL.SMap.Sorted m → ∀ {k : Nat} {v : α}, (k, v) ∈ m →
    SMap.find? m k = some v
  | [], _, k, v, h => by cases h
  | (k', v') :: r, hs, k, v, h => by
    rw [SL.SMap.sorted_cons] at hs
    simp only [SMap.find?]
    rcases List.mem_cons.mp h with e | e
    · cases e; simp
    · have hk : k ∈ SMap.keys r := List.mem_map.mpr ⟨(k, v), e, rfl⟩
      have := hs.1 k hk
      rw [if_neg (by omega)]
      exact find_of_mem_sorted hs.2 e

theorem mem_clientsId_iff {rs : Server} (hs : SL.SMap.Sorted rs.conns) (j : Nat) :
    j ∈ rs.clientsId ↔ ∃ c, SMap.find? rs.conns j = some c ∧ c.isConnected = true := by
  unfold Server.clientsId
  constructor
  · intro h
    obtain ⟨x, hx, rfl⟩ := List.mem_map.mp h
    obtain ⟨hm, hc⟩ := List.mem_filter.mp hx
    exact ⟨x.2, find_of_mem_sorted hs hm, hc⟩
  · rintro ⟨c, hf, hc⟩
    exact List.mem_map.mpr ⟨(j, c), List.mem_filter.mpr ⟨SMap.mem_of_find? hf, hc⟩, rfl⟩

/-- **after an `update`, "reported connected" = "in the netcode table".**  `RenetServer::clients_id()` (the connected
    ones) and `NetcodeServer::clients_id()` (handshake completed, session not ended) have the same members. -/
theorem connected_exactly {P : SliceCtor → Prop} (hP : GoodP P) {a : AEAD} {g g' : ServerGlue} {d : Nat}
    {inbox : List Dgram} {out : Array Dgram} (h : serverUpdate a g d inbox = .ok (g', out))
    (hk : LockStep g) (hi : g.renet.InvP P) (hl : Live g.renet) :
    ∀ id, id ∈ g'.renet.clientsId ↔ id ∈ g'.netcode.clientsId := by
  obtain ⟨hk', hnd⟩ := serverUpdate_lockstep h hk
  have hl' := serverUpdate_live hP h hk hi hl
  intro id
  rw [mem_clientsId_iff hk'.sorted, ← hk'.sync id]
  constructor
  · rintro ⟨c, hf, _⟩
    exact contains_of_find hf
  · intro hc
    obtain ⟨c, hf⟩ := find_of_contains hc
    refine ⟨c, hf, ?_⟩
    have h1 := hnd id c hf
    have h2 := hl' id c hf
    unfold Conn.isDisconnected at h1
    unfold Conn.isConnected
    cases hs : c.status with
    | connected => rfl
    | connecting => exact absurd hs h2
    | disconnected r => rw [hs] at h1; cases h1

/-- between updates: whoever renet reports connected is in the netcode table -/
theorem connected_subset {g : ServerGlue} (hk : LockStep g) : ∀ id, id ∈ g.renet.clientsId → id ∈ g.netcode.clientsId :=
  fun id h => (hk.sync id).mp (contains_of_mem_clientsId h)

theorem appOp_live {P : SliceCtor → Prop} (hP : GoodP P) {st st' : SL.SrvState} {op : SL.SrvOp} (ha : appOp op = true)
    (hv : CI.SrvValid st.1 op) (h : op.apply st = .ok st') (hi : st.1.InvP P) (hl : Live st.1) : Live st'.1 := by
  obtain ⟨s, popped⟩ := st
  cases op with
  | add id => cases ha
  | remove id => cases ha
  | newLocalClient id => cases ha
  | disconnectLocalClient id cl => cases ha
  | disconnect id =>
    cases h
    obtain ⟨ad, _, hf⟩ := SL.Server.disconnect_spec s id
    refine live_addressed ad ?_ hl
    cases hc : SMap.find? s.conns id with
    | none =>
      left
      show s.disconnect id = s
      unfold Server.disconnect; rw [hc]
    | some c =>
      right
      rw [hc] at hf
      exact ⟨c, _, rfl, statusStep_dw c _, hf⟩
  | disconnectAll =>
    cases h
    refine live_all (fun j => ⟨fun hn => ?_, fun c hc => ?_⟩) hl
    · show SMap.find? s.disconnectAll.conns j = none
      rw [SL.Server.disconnectAll_find, hn]; rfl
    · exact ⟨_, statusStep_dw c _, by show SMap.find? s.disconnectAll.conns j = _; rw [SL.Server.disconnectAll_find, hc]; rfl⟩
  | broadcast ch m =>
    obtain ⟨h1, h2⟩ := SL.keepPopped_ok h
    obtain ⟨_, _, hp⟩ := SL.Server.broadcast_spec h1
    refine live_all (fun j => ⟨(hp j).1, fun c hc => ?_⟩) hl
    obtain ⟨c', e1, e2⟩ := (hp j).2 c hc
    exact ⟨c', statusStep_sendMessage e1, e2⟩
  | broadcastExcept ex ch m =>
    obtain ⟨h1, h2⟩ := SL.keepPopped_ok h
    obtain ⟨_, _, hex, hp⟩ := SL.Server.broadcastExcept_spec h1
    refine live_all (fun j => ?_) hl
    by_cases e : j = ex
    · subst e
      exact ⟨fun hn => by rw [hex]; exact hn, fun c hc => ⟨c, .refl c, by rw [hex]; exact hc⟩⟩
    · refine ⟨(hp j e).1, fun c hc => ?_⟩
      obtain ⟨c', e1, e2⟩ := (hp j e).2 c hc
      exact ⟨c', statusStep_sendMessage e1, e2⟩
  | update dt =>
    obtain ⟨h1, h2⟩ := SL.keepPopped_ok h
    obtain ⟨_, _, hp⟩ := SL.Server.update_spec h1
    refine live_all (fun j => ⟨(hp j).1, fun c hc => ?_⟩) hl
    obtain ⟨c', e1, e2⟩ := (hp j).2 c hc
    exact ⟨c', statusStep_update e1, e2⟩
  | send id ch m =>
    obtain ⟨h1, h2⟩ := SL.keepPopped_ok h
    obtain ⟨ad, _, hc⟩ := SL.Server.sendMessage_spec h1
    refine live_addressed ad ?_ hl
    rcases hc with ⟨_, e⟩ | ⟨c, c', e1, e2, e3⟩
    · exact Or.inl e
    · exact Or.inr ⟨c, c', e1, statusStep_sendMessage e2, e3⟩
  | receive id ch =>
    obtain ⟨h1, h2⟩ := SL.keepPopped_ok h
    obtain ⟨o, h3⟩ := SL.Res.stateOf_ok h1
    obtain ⟨ad, _, hc⟩ := SL.Server.receiveMessage_spec h3
    refine live_addressed ad ?_ hl
    rcases hc with ⟨_, e, _⟩ | ⟨c, c', e1, e2, e3⟩
    · exact Or.inl e
    · exact Or.inr ⟨c, c', e1, statusStep_receiveMessage e2, e3⟩
  | getPacketsToSend id =>
    obtain ⟨h1, h2⟩ := SL.keepPopped_ok h
    obtain ⟨o, h3⟩ := SL.Res.stateOf_ok h1
    obtain ⟨ad, _, hc⟩ := SL.Server.getPacketsToSend_spec h3
    refine live_addressed ad ?_ hl
    rcases hc with ⟨_, e, _⟩ | ⟨c, c', ps, e1, e2, _, e3⟩
    · exact Or.inl e
    · exact Or.inr ⟨c, c', e1, statusStep_getPacketsToSend e2, e3⟩
  | processPacketFrom b id =>
    obtain ⟨h1, h2⟩ := SL.keepPopped_ok h
    obtain ⟨o, h3⟩ := SL.Res.stateOf_ok h1
    obtain ⟨ad, _, hc⟩ := SL.Server.processPacketFrom_spec h3
    refine live_addressed ad ?_ hl
    rcases hc with ⟨_, e, _⟩ | ⟨c, c', e1, e2, _, e3⟩
    · exact Or.inl e
    · exact Or.inr ⟨c, c', e1, statusStep_processPacket hP (hi.find e1).1 e2, e3⟩
  | processLocalClient id cl => exact hv.elim
  | getEvent =>
    cases h
    show Live (s.getEvent).1
    unfold Server.getEvent
    split <;> exact hl

/-! #### the strong invariant along any run -/

/-- lock-step, event alternation, the renet invariant, and no server-side connection `Connecting` -/
def GInv2 (P : SliceCtor → Prop) (st : GState) : Prop :=
  GInv st ∧ st.1.renet.InvP P ∧ Live st.1.renet

/-- side conditions of a run: application calls are application calls (`appOp`) and name existing channels
    (`SrvValid`) -/
def opValid (st : GState) : GlueOp → Prop
  | .app sop => appOp sop = true ∧ CI.SrvValid st.1.renet sop
  | .update _ _ => True
  | .sendPackets => True
  | .disconnectAll => True

def GPre (a : AEAD) (st : GState) : List GlueOp → Prop
  | [] => True
  | op :: rest => opValid st op ∧ ∀ st', op.apply a st = .ok st' → GPre a st' rest

def opValidb (st : GState) : GlueOp → Bool
  | .app sop => appOp sop && CI.srvValidb st.1.renet sop
  | .update _ _ => true
  | .sendPackets => true
  | .disconnectAll => true

def gpreb (a : AEAD) (st : GState) : List GlueOp → Bool
  | [] => true
  | op :: rest =>
    opValidb st op &&
    match op.apply a st with
    | .ok st' => gpreb a st' rest
    | _ => true

theorem opValid_of_b {st : GState} {op : GlueOp} (h : opValidb st op = true) : opValid st op := by
  cases op with
  | app sop =>
    simp only [opValidb, Bool.and_eq_true] at h
    exact ⟨h.1, CI.srvValid_of_b h.2⟩
  | update d inbox => trivial
  | sendPackets => trivial
  | disconnectAll => trivial

theorem gpre_of_b (a : AEAD) : ∀ (ops : List GlueOp) (st : GState), gpreb a st ops = true → GPre a st ops
  | [], _, _ => trivial
  | op :: rest, st, h => by
    simp only [gpreb, Bool.and_eq_true] at h
    refine ⟨opValid_of_b h.1, fun st' e => ?_⟩
    have h2 := h.2
    rw [e] at h2
    exact gpre_of_b a rest st' h2

theorem sendLoop_inv_live {P : SliceCtor → Prop} (a : AEAD) :
    ∀ (l : List Nat) (g g' : ServerGlue) (out out' : Array Dgram), serverSendLoop a g l out = .ok (g', out') →
    g.renet.InvP P → Live g.renet → g'.renet.InvP P ∧ Live g'.renet
  | [], g, g', out, out', h, hi, hl => by cases h; exact ⟨hi, hl⟩
  | id :: rest, g, g', out, out', h, hi, hl => by
    obtain ⟨rs, ps, ns, out1, h1, h2, h3⟩ := sendLoop_cons h
    obtain ⟨ad, _, hc⟩ := SL.Server.getPacketsToSend_spec h1
    rcases hc with ⟨_, _, e⟩ | ⟨c, c', ps', e1, e2, e3, e4⟩
    · cases e
    · have hi1 : rs.InvP P := by
        have hrs : rs = { g.renet with conns := SMap.insert g.renet.conns id c' } := by
          unfold Server.getPacketsToSend at h1
          rw [e1] at h1
          simp only [e2, Res.bind_ok, Res.pure_eq, Res.ok.injEq, Prod.mk.injEq] at h1
          exact h1.1.symm
        rw [hrs]
        obtain ⟨ic, sc⟩ := hi.find e1
        exact hi.setConn id (CI.getPacketsToSend_invP ic e2) (sc.trans (CI.getPacketsToSend_sameChansP ic e2))
      have hl1 : Live rs := live_addressed ad (Or.inr ⟨c, c', e1, statusStep_getPacketsToSend e2, e4⟩) hl
      exact sendLoop_inv_live a rest _ g' out1 out' h3 hi1 hl1

theorem GlueOp.apply_inv2 {P : SliceCtor → Prop} (hP : GoodP P) {a : AEAD} {st st' : GState} {op : GlueOp}
    (h : op.apply a st = .ok st') (hv : opValid st op) (hi : GInv2 P st) : GInv2 P st' := by
  obtain ⟨hg, hin, hl⟩ := hi
  have hallowed : op.allowed = true := by
    cases op with
    | app sop => exact hv.1
    | _ => rfl
  refine ⟨(GlueOp.apply_inv h hallowed hg).1, ?_⟩
  obtain ⟨g, popped⟩ := st
  cases op with
  | update d inbox =>
    simp only [GlueOp.apply] at h
    obtain ⟨⟨g1, out⟩, h1, h2⟩ := CI.bind_ok_cases h
    cases h2
    exact ⟨serverUpdate_inv hP hin h1, serverUpdate_live hP h1 hg.1 hin hl⟩
  | sendPackets =>
    simp only [GlueOp.apply] at h
    obtain ⟨⟨g1, out⟩, h1, h2⟩ := CI.bind_ok_cases h
    cases h2
    exact sendLoop_inv_live a _ _ _ _ _ h1 hin hl
  | disconnectAll =>
    simp only [GlueOp.apply] at h
    obtain ⟨⟨g1, out⟩, h1, h2⟩ := CI.bind_ok_cases h
    cases h2
    unfold serverDisconnectAll at h1
    rw [idLoop_eq] at h1
    exact ⟨handleLoop_inv hP _ _ _ _ _ h1 hin, handleLoop_live hP (dcF_tstep a) _ _ _ _ _ h1 hg.1 hin hl⟩
  | app sop =>
    simp only [GlueOp.apply] at h
    obtain ⟨st1, h1, h2⟩ := CI.bind_ok_cases h
    cases h2
    obtain ⟨st2, e, i2, _⟩ := CI.srvApply_totalP hP (st := (g.renet, popped)) hin sop hv.2
    rw [e] at h1
    cases h1
    exact ⟨i2, appOp_live hP hv.1 hv.2 e hin hl⟩

theorem runGlue_inv2 {P : SliceCtor → Prop} (hP : GoodP P) (a : AEAD) :
    ∀ (ops : List GlueOp) (st st' : GState), runGlue a st ops = .ok st' → GPre a st ops → GInv2 P st → GInv2 P st'
  | [], st, st', h, _, hi => by cases h; exact hi
  | op :: rest, st, st', h, hp, hi => by
    unfold runGlue at h
    split at h
    · rename_i st1 h1
      exact runGlue_inv2 hP a rest st1 st' h (hp.2 st1 h1) (GlueOp.apply_inv2 hP h1 hp.1 hi)
    · cases h
    · cases h

theorem runGlue_snoc (a : AEAD) : ∀ (ops : List GlueOp) (op : GlueOp) (st st' : GState),
    runGlue a st (ops ++ [op]) = .ok st' → ∃ st1, runGlue a st ops = .ok st1 ∧ op.apply a st1 = .ok st'
  | [], op, st, st', h => by
    simp only [List.nil_append, runGlue] at h
    split at h
    · rename_i st1 h1
      cases h
      exact ⟨st, rfl, h1⟩
    · cases h
    · cases h
  | o :: ops, op, st, st', h => by
    simp only [List.cons_append, runGlue] at h ⊢
    split at h
    · rename_i st1 h1
      exact runGlue_snoc a ops op st1 st' h
    · cases h
    · cases h

theorem gpre_prefix (a : AEAD) : ∀ (ops ops2 : List GlueOp) (st : GState), GPre a st (ops ++ ops2) → GPre a st ops
  | [], _, _, _ => trivial
  | _ :: ops, ops2, _, h => ⟨h.1, fun st' e => gpre_prefix a ops ops2 st' (h.2 st' e)⟩

theorem gInv2_fresh {P : SliceCtor → Prop} {ns : NetcodeServer} (h : ns.clientsId = []) (budget : Nat)
    (sc cc : List ChanCfg) : GInv2 P ({ netcode := ns, renet := Server.new budget sc cc }, []) :=
  ⟨gInv_fresh h budget sc cc, CI.server_new_invP budget sc cc, fun _ _ hf => by simp [Server.new] at hf⟩

end RenetVerif.GI
