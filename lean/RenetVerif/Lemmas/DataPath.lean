/-
  Receive-side data path of one channel under an adversarial network (C01/C02/C03):
  SMap facts, the op/run model (`RecvOp`, `step`, `run`; `UOp`, `ustep`, `urun`), the specification of
  `RecvRel.processMessage/processSlice` against a submission log (`Accept`, `SlicesOK`), the ordered and
  unordered invariants (`OrdInv`, `UnordInv`), the unreliable-channel invariant (`UInv`), and the
  correspondence between packets and op sequences.
-/
import RenetVerif.Lemmas.Reassembly
import RenetVerif.Renet.Conn
namespace RenetVerif.DataPath
open RenetVerif C Reasm

section SMapLemmas
variable {α : Type}

/-- keys strictly increasing -/
def WF (m : SMap α) : Prop := m.Pairwise (fun a b => a.1 < b.1)

theorem wf_nil : WF ([] : SMap α) := List.Pairwise.nil

theorem find?_insert (m : SMap α) (k : Nat) (v : α) (k' : Nat) :
    SMap.find? (SMap.insert m k v) k' = if k = k' then some v else SMap.find? m k' := by
  induction m with
  | nil => simp [SMap.insert, SMap.find?]
  | cons p r ih =>
    obtain ⟨a, b⟩ := p
    simp only [SMap.insert]
    split
    · simp [SMap.find?]
    · split
      · subst_vars; simp only [SMap.find?]; split <;> simp_all
      · simp only [SMap.find?, ih]; grind

theorem mem_insert {m : SMap α} {k : Nat} {v : α} {p : Nat × α} (h : p ∈ SMap.insert m k v) :
    p = (k, v) ∨ p ∈ m := by
  induction m with
  | nil => simp [SMap.insert] at h; exact Or.inl h
  | cons q r ih =>
    obtain ⟨a, b⟩ := q
    simp only [SMap.insert] at h
    split at h
    · simp at h; grind
    · split at h
      · simp at h; grind
      · simp at h; grind

theorem wf_insert {m : SMap α} (h : WF m) (k : Nat) (v : α) : WF (SMap.insert m k v) := by
  induction m with
  | nil => simp [SMap.insert, WF]
  | cons q r ih =>
    obtain ⟨a, b⟩ := q
    unfold WF at h ih ⊢
    rw [List.pairwise_cons] at h
    simp only [SMap.insert]
    split
    · rw [List.pairwise_cons, List.pairwise_cons]
      refine ⟨?_, h⟩
      intro p hp
      simp only [List.mem_cons] at hp
      rcases hp with rfl | hp
      · assumption
      · have := h.1 p hp; simp only at this ⊢; omega
    · split
      · subst_vars
        rw [List.pairwise_cons]; exact h
      · rw [List.pairwise_cons]
        refine ⟨?_, ih h.2⟩
        intro p hp
        rcases mem_insert hp with rfl | hp
        · simp only; omega
        · exact h.1 p hp

theorem mem_of_find? {m : SMap α} {k : Nat} {v : α} (h : SMap.find? m k = some v) : (k, v) ∈ m := by
  induction m with
  | nil => simp [SMap.find?] at h
  | cons q r ih =>
    obtain ⟨a, b⟩ := q
    simp only [SMap.find?] at h
    split at h
    · simp at h; subst_vars; simp
    · exact List.mem_cons_of_mem _ (ih h)

theorem find?_tail_none {k : Nat} {v : α} {r : SMap α} (h : WF ((k, v) :: r)) : SMap.find? r k = none := by
  unfold WF at h
  rw [List.pairwise_cons] at h
  cases hf : SMap.find? r k with
  | none => rfl
  | some w => have := h.1 _ (mem_of_find? hf); simp at this

theorem wf_tail {p : Nat × α} {r : SMap α} (h : WF (p :: r)) : WF r := by
  unfold WF at h ⊢; exact (List.pairwise_cons.1 h).2

theorem find?_erase {m : SMap α} (h : WF m) (k k' : Nat) :
    SMap.find? (SMap.erase m k) k' = if k = k' then none else SMap.find? m k' := by
  induction m with
  | nil => simp [SMap.erase, SMap.find?]
  | cons q r ih =>
    obtain ⟨a, b⟩ := q
    have ht := find?_tail_none h
    have ih := ih (wf_tail h)
    simp only [SMap.erase]
    split
    · subst_vars
      simp only [SMap.find?]
      split
      · subst_vars; exact ht
      · rfl
    · simp only [SMap.find?, ih]; grind

theorem erase_sublist (m : SMap α) (k : Nat) : (SMap.erase m k).Sublist m := by
  induction m with
  | nil => simp [SMap.erase]
  | cons q r ih =>
    obtain ⟨a, b⟩ := q
    simp only [SMap.erase]
    split
    · exact List.sublist_cons_self _ _
    · exact ih.cons_cons _

theorem wf_erase {m : SMap α} (h : WF m) (k : Nat) : WF (SMap.erase m k) :=
  List.Pairwise.sublist (erase_sublist m k) h

theorem contains_iff (m : SMap α) (k : Nat) : SMap.contains m k = true ↔ ∃ v, SMap.find? m k = some v := by
  simp [SMap.contains, Option.isSome_iff_exists]

theorem not_contains_iff (m : SMap α) (k : Nat) : ¬ SMap.contains m k = true ↔ SMap.find? m k = none := by
  simp [SMap.contains]

end SMapLemmas

/-! ### the receiving side of one reliable channel under an adversarial network -/

/-- message `id` of the submission log `L` is `m` -/
def GenuineMsg (L : List Bytes) (id : Nat) (m : Bytes) : Prop := L[id]? = some m

/-- `sl` is one of the slices the sender cuts out of a logged message -/
def GenuineSlice (L : List Bytes) (sl : Slice) : Prop :=
  ∃ m, L[sl.messageId]? = some m ∧ m.length > SLICE_SIZE ∧ sl.numSlices = divCeil m.length SLICE_SIZE ∧
       sl.sliceIndex < sl.numSlices ∧ sl.payload = sliceBytes m sl.numSlices sl.sliceIndex

/-- what can happen to the receiving channel: the network hands over (a copy of) a small-message entry
    or a slice, or the application asks for the next message -/
inductive RecvOp where
  | msg (id : Nat) (m : Bytes)
  | slice (sl : Slice)
  | recv
  deriving Repr, DecidableEq

def Genuine (L : List Bytes) : RecvOp → Prop
  | .msg id m => GenuineMsg L id m
  | .slice sl => GenuineSlice L sl
  | .recv => True

/-- channel state, ghost list of everything the application has obtained so far, and whether the
    connection has been torn down (a channel error disconnects; `receive_message` on a disconnected
    connection returns nothing, and no further packet is processed) -/
structure RunSt where
  r : RecvRel
  obtained : List Bytes
  dead : Bool
  deriving Repr, DecidableEq

def step (st : RunSt) (op : RecvOp) : RunSt :=
  if st.dead then st else
  match op with
  | .msg id m =>
    match st.r.processMessage m id with
    | .ok r' => { st with r := r' }
    | .err _ => { st with dead := true }
    | .panic _ => { st with dead := true }
  | .slice sl =>
    match st.r.processSlice sl with
    | .ok r' => { st with r := r' }
    | .err _ => { st with dead := true }
    | .panic _ => { st with dead := true }
  | .recv =>
    match st.r.receive with
    | .ok (r', some m) => { st with r := r', obtained := st.obtained ++ [m] }
    | .ok (r', none) => { st with r := r' }
    | .err _ => { st with dead := true }
    | .panic _ => { st with dead := true }

def run (r0 : RecvRel) (ops : List RecvOp) : RunSt := ops.foldl step ⟨r0, [], false⟩

/-- every reassembly in progress belongs to a logged message and agrees with it -/
def SlicesOK (L : List Bytes) (r : RecvRel) : Prop :=
  WF r.slices ∧ ∀ id c, SMap.find? r.slices id = some c →
    ∃ m, L[id]? = some m ∧ m.length > SLICE_SIZE ∧ CtorAgrees m c

/-- the effect on the queue of offering the complete message `(id, m)` to the channel:
    ignored, or inserted (and, unordered, remembered in `received`) -/
def Accept (r r' : RecvRel) (id : Nat) (m : Bytes) : Prop :=
  r'.oldest = r.oldest ∧ r'.ordered = r.ordered ∧
  ((r'.messages = r.messages ∧ r'.received = r.received) ∨
   (¬ id < r.oldest ∧ r'.messages = SMap.insert r.messages id m ∧
     ((r.ordered = true ∧ SMap.find? r.messages id = none ∧ r'.received = r.received) ∨
      (r.ordered = false ∧ id ∉ r.received ∧ r'.received = id :: r.received))))

theorem accept_refl (r : RecvRel) (id : Nat) (m : Bytes) : Accept r r id m :=
  ⟨rfl, rfl, Or.inl ⟨rfl, rfl⟩⟩

theorem accept_congr {r r1 r2 r' : RecvRel} {id : Nat} {m : Bytes}
    (h : Accept r1 r2 id m)
    (a1 : r1.messages = r.messages) (a2 : r1.oldest = r.oldest) (a3 : r1.ordered = r.ordered) (a4 : r1.received = r.received)
    (b1 : r'.messages = r2.messages) (b2 : r'.oldest = r2.oldest) (b3 : r'.ordered = r2.ordered) (b4 : r'.received = r2.received) :
    Accept r r' id m := by
  unfold Accept at h ⊢
  rw [b1, b2, b3, b4, ← a1, ← a2, ← a3, ← a4]
  exact h

theorem processMessage_ok {r r' : RecvRel} {m : Bytes} {id : Nat} (h : r.processMessage m id = .ok r') :
    Accept r r' id m ∧ r'.slices = r.slices := by
  unfold RecvRel.processMessage at h
  split at h
  · cases h; exact ⟨accept_refl _ _ _, rfl⟩
  · rename_i hlt
    split at h
    · rename_i hord
      split at h
      · cases h; exact ⟨accept_refl _ _ _, rfl⟩
      · rename_i hc
        split at h
        · cases h
        · cases h
          refine ⟨⟨rfl, rfl, Or.inr ⟨hlt, rfl, Or.inl ⟨hord, (not_contains_iff _ _).1 hc, rfl⟩⟩⟩, rfl⟩
    · rename_i hord
      split at h
      · cases h; exact ⟨accept_refl _ _ _, rfl⟩
      · rename_i hc
        split at h
        · cases h
        · cases h
          refine ⟨⟨rfl, rfl, Or.inr ⟨hlt, rfl, Or.inr ⟨by simpa using hord, by simpa using hc, rfl⟩⟩⟩, rfl⟩

/-- the part of `RecvRel.processSlice` after the constructor has been looked up / created -/
def sliceTail (r : RecvRel) (sl : Slice) : RecvRelRes :=
  match SMap.find? r.slices sl.messageId with
  | none => .panic "unreachable: constructor just inserted"
  | some c =>
    if c.numSlices ≠ sl.numSlices then .err (.invalidSlice, r) else
    match c.processSlice sl.sliceIndex sl.payload with
    | .panic s => .panic s
    | .err e => .err (e, r)
    | .ok (c', none) => pure { r with slices := SMap.insert r.slices sl.messageId c' }
    | .ok (c', some m) => do
      let mem ← Res.csub r.mem (c.numSlices * SLICE_SIZE) "reliable.rs memory_usage_bytes -= num_slices * SLICE_SIZE"
      let r := { r with mem := mem, slices := SMap.insert r.slices sl.messageId c' }
      let r ← r.processMessage m sl.messageId
      pure { r with slices := SMap.erase r.slices sl.messageId }

/-- the constructor lookup / creation at the head of `RecvRel.processSlice` -/
def sliceHead (r : RecvRel) (sl : Slice) : RecvRelRes :=
  if SMap.contains r.slices sl.messageId then (pure r : RecvRelRes) else
    let len := sl.numSlices * SLICE_SIZE
    if r.mem + len > r.maxMem then Res.err (ChanErr.maxMemory, r)
    else pure { r with mem := r.mem + len, slices := SMap.insert r.slices sl.messageId (SliceCtor.new sl.numSlices) }

theorem processSlice_eq (r : RecvRel) (sl : Slice) :
    r.processSlice sl =
      if SMap.contains r.messages sl.messageId ∨ sl.messageId < r.oldest then .ok r else
      if ¬ r.ordered ∧ r.received.contains sl.messageId then .ok r else
      sliceHead r sl >>= fun r1 => sliceTail r1 sl := by
  unfold RecvRel.processSlice sliceHead sliceTail
  split
  · rfl
  · split
    · rfl
    · dsimp only
      split
      · rfl
      · split <;> rfl


theorem sliceHead_ok {L : List Bytes} {r r1 : RecvRel} {sl : Slice} {m : Bytes}
    (hs : SlicesOK L r) (hL : L[sl.messageId]? = some m) (hlen : m.length > SLICE_SIZE)
    (hn : sl.numSlices = divCeil m.length SLICE_SIZE) (h : sliceHead r sl = .ok r1) :
    SlicesOK L r1 ∧ r1.messages = r.messages ∧ r1.oldest = r.oldest ∧ r1.ordered = r.ordered ∧
      r1.received = r.received := by
  unfold sliceHead at h
  split at h
  · cases h; exact ⟨hs, rfl, rfl, rfl, rfl⟩
  · dsimp only at h
    split at h
    · cases h
    · cases h
      refine ⟨⟨wf_insert hs.1 _ _, ?_⟩, rfl, rfl, rfl, rfl⟩
      intro id c hf
      dsimp only at hf
      rw [find?_insert] at hf
      split at hf
      · cases hf; subst_vars
        exact ⟨m, hL, hlen, by rw [hn]; exact agrees_new m⟩
      · exact hs.2 id c hf

theorem slicesOK_insert {L : List Bytes} {r : RecvRel} {id : Nat} {c : SliceCtor} {m : Bytes}
    (hs : SlicesOK L r) (hL : L[id]? = some m) (hlen : m.length > SLICE_SIZE) (hc : CtorAgrees m c) :
    SlicesOK L { r with slices := SMap.insert r.slices id c } := by
  refine ⟨wf_insert hs.1 _ _, ?_⟩
  intro id' c' hf
  dsimp only at hf
  rw [find?_insert] at hf
  split at hf
  · cases hf; subst_vars; exact ⟨m, hL, hlen, hc⟩
  · exact hs.2 id' c' hf

theorem sliceTail_ok {L : List Bytes} {r r' : RecvRel} {sl : Slice} {m : Bytes}
    (hs : SlicesOK L r) (hL : L[sl.messageId]? = some m) (hlen : m.length > SLICE_SIZE)
    (hn : sl.numSlices = divCeil m.length SLICE_SIZE) (hi : sl.sliceIndex < sl.numSlices)
    (hp : sl.payload = sliceBytes m sl.numSlices sl.sliceIndex)
    (h : sliceTail r sl = .ok r') :
    SlicesOK L r' ∧ Accept r r' sl.messageId m := by
  unfold sliceTail at h
  split at h
  · cases h
  · rename_i c hfind
    obtain ⟨m', hL', hlen', hag⟩ := hs.2 _ _ hfind
    rw [hL] at hL'; cases hL'
    have hcn : c.numSlices = sl.numSlices := by rw [hn]; exact hag.numSlices
    rw [if_neg (by simp [hcn])] at h
    obtain ⟨c', out, hproc, _, _, hnone, hsome, _⟩ :=
      processSlice_genuine (m := m) (by omega) hag (idx := sl.sliceIndex) (by rw [← hn]; exact hi)
    rw [hp, hn, hproc] at h
    cases out with
    | none =>
      dsimp only at h
      cases h
      exact ⟨slicesOK_insert hs hL hlen (hnone rfl).1, ⟨rfl, rfl, Or.inl ⟨rfl, rfl⟩⟩⟩
    | some mm =>
      have := hsome mm rfl; subst this
      dsimp only at h
      cases hsub : (Res.csub r.mem (c.numSlices * SLICE_SIZE) "reliable.rs memory_usage_bytes -= num_slices * SLICE_SIZE" : Res (ChanErr × RecvRel) Nat) with
      | panic s => rw [hsub] at h; cases h
      | err e => rw [hsub] at h; cases h
      | ok mem =>
        rw [hsub] at h
        simp only [Res.bind_ok] at h
        generalize hr2 : ({ r with mem := mem, slices := SMap.insert r.slices sl.messageId c' } : RecvRel) = r2 at h
        cases hpm : r2.processMessage mm sl.messageId with
        | panic s => rw [hpm] at h; cases h
        | err e => rw [hpm] at h; cases h
        | ok r3 =>
          rw [hpm] at h
          simp only [Res.bind_ok, Res.pure_eq] at h
          cases h
          obtain ⟨hacc, hsl⟩ := processMessage_ok hpm
          subst hr2
          refine ⟨⟨?_, ?_⟩, ?_⟩
          · dsimp only; rw [hsl]; exact wf_erase (wf_insert hs.1 _ _) _
          · intro id c0 hf
            dsimp only at hf
            rw [hsl] at hf
            dsimp only at hf
            rw [find?_erase (wf_insert hs.1 _ _), find?_insert] at hf
            split at hf
            · cases hf
            · exact hs.2 id c0 hf
          · exact accept_congr hacc rfl rfl rfl rfl rfl rfl rfl rfl

/-- A genuine slice offered to a channel whose reassemblies all agree with the log: whenever the
    channel accepts it, the reassemblies still agree, and the queue is either untouched or has been
    offered the complete logged message. -/
theorem processSlice_ok {L : List Bytes} {r r' : RecvRel} {sl : Slice}
    (hs : SlicesOK L r) (g : GenuineSlice L sl) (h : r.processSlice sl = .ok r') :
    SlicesOK L r' ∧ ∃ m, L[sl.messageId]? = some m ∧ Accept r r' sl.messageId m := by
  obtain ⟨m, hL, hlen, hn, hi, hp⟩ := g
  rw [processSlice_eq] at h
  split at h
  · cases h; exact ⟨hs, m, hL, accept_refl _ _ _⟩
  · split at h
    · cases h; exact ⟨hs, m, hL, accept_refl _ _ _⟩
    · cases hh : sliceHead r sl with
      | panic s => rw [hh] at h; cases h
      | err e => rw [hh] at h; cases h
      | ok r1 =>
        rw [hh] at h
        simp only [Res.bind_ok] at h
        obtain ⟨hs1, a1, a2, a3, a4⟩ := sliceHead_ok hs hL hlen hn hh
        obtain ⟨hs', hacc⟩ := sliceTail_ok hs1 hL hlen hn hi hp h
        exact ⟨hs', m, hL, accept_congr hacc a1 a2 a3 a4 rfl rfl rfl rfl⟩


theorem slicesOK_new (L : List Bytes) (maxMem : Nat) (o : Bool) : SlicesOK L (RecvRel.new maxMem o) :=
  ⟨wf_nil, by intro id c h; simp [RecvRel.new, SMap.find?] at h⟩

theorem foldl_inv {σ ω : Type} (f : σ → ω → σ) (P : σ → Prop) (G : ω → Prop)
    (hstep : ∀ s o, P s → G o → P (f s o)) :
    ∀ (ops : List ω) (s : σ), P s → (∀ o ∈ ops, G o) → P (ops.foldl f s) := by
  intro ops
  induction ops with
  | nil => intro s h _; exact h
  | cons o ops ih =>
    intro s h hg
    exact ih _ (hstep s o h (hg o (by simp))) (fun o' ho => hg o' (by simp [ho]))

/-! ### ReliableOrdered -/

structure OrdInv (L : List Bytes) (st : RunSt) : Prop where
  ord : st.r.ordered = true
  wfM : WF st.r.messages
  msgs : ∀ id x, SMap.find? st.r.messages id = some x → L[id]? = some x ∧ st.r.oldest ≤ id
  slices : SlicesOK L st.r
  obt : st.obtained = L.take st.r.oldest

theorem ord_init (L : List Bytes) (maxMem : Nat) : OrdInv L ⟨RecvRel.new maxMem true, [], false⟩ :=
  ⟨rfl, wf_nil, by intro id x h; simp [RecvRel.new, SMap.find?] at h, slicesOK_new _ _ _, by simp [RecvRel.new]⟩

theorem ord_accept {L : List Bytes} {st : RunSt} {r' : RecvRel} {id : Nat} {m : Bytes}
    (hinv : OrdInv L st) (hL : L[id]? = some m) (hs' : SlicesOK L r') (hacc : Accept st.r r' id m) :
    OrdInv L { st with r := r' } := by
  obtain ⟨ho, hord, hcase⟩ := hacc
  obtain ⟨i1, i2, i3, _, i5⟩ := hinv
  rcases hcase with ⟨hm, _⟩ | ⟨hlt, hm, _⟩
  · refine ⟨by rw [hord]; exact i1, by dsimp only; rw [hm]; exact i2, ?_, hs', by dsimp only; rw [ho]; exact i5⟩
    intro id' x hf
    dsimp only at hf ⊢
    rw [hm] at hf; rw [ho]; exact i3 id' x hf
  · refine ⟨by rw [hord]; exact i1, by dsimp only; rw [hm]; exact wf_insert i2 _ _, ?_, hs', by dsimp only; rw [ho]; exact i5⟩
    intro id' x hf
    dsimp only at hf ⊢
    rw [hm, find?_insert] at hf
    rw [ho]
    split at hf
    · cases hf; subst_vars; exact ⟨hL, by omega⟩
    · exact i3 id' x hf

theorem ord_receive {L : List Bytes} {st : RunSt} {r' : RecvRel} {out : Option Bytes}
    (hinv : OrdInv L st) (h : st.r.receive = .ok (r', out)) :
    OrdInv L { st with r := r', obtained := st.obtained ++ out.toList } := by
  obtain ⟨i1, i2, i3, i4, i5⟩ := hinv
  unfold RecvRel.receive at h
  rw [if_pos i1] at h
  split at h
  · cases h
    exact ⟨i1, i2, i3, i4, by simpa using i5⟩
  · rename_i x hfind
    cases hsub : (Res.csub st.r.mem x.length "reliable.rs memory_usage_bytes -= message.len() (receive ordered)" : Res Empty Nat) with
    | panic s => rw [hsub] at h; cases h
    | err e => rw [hsub] at h; cases h
    | ok mem =>
      rw [hsub] at h
      simp only [Res.bind_ok, Res.pure_eq] at h
      cases h
      refine ⟨i1, wf_erase i2 _, ?_, i4, ?_⟩
      · intro id y hf
        dsimp only at hf ⊢
        rw [find?_erase i2] at hf
        split at hf
        · cases hf
        · have := i3 id y hf; exact ⟨this.1, by omega⟩
      · dsimp only
        rw [i5, List.take_add_one, (i3 _ _ hfind).1]

theorem ord_step (L : List Bytes) (st : RunSt) (op : RecvOp) (hinv : OrdInv L st) (g : Genuine L op) :
    OrdInv L (step st op) := by
  unfold step
  split
  · exact hinv
  · cases op with
    | msg id m =>
      dsimp only
      split
      · rename_i r' h
        obtain ⟨hacc, hsl⟩ := processMessage_ok h
        exact ord_accept hinv g (by unfold SlicesOK; rw [hsl]; exact hinv.slices) hacc
      · exact ⟨hinv.ord, hinv.wfM, hinv.msgs, hinv.slices, hinv.obt⟩
      · exact ⟨hinv.ord, hinv.wfM, hinv.msgs, hinv.slices, hinv.obt⟩
    | slice sl =>
      dsimp only
      split
      · rename_i r' h
        obtain ⟨hs', m, hL, hacc⟩ := processSlice_ok hinv.slices g h
        exact ord_accept hinv hL hs' hacc
      · exact ⟨hinv.ord, hinv.wfM, hinv.msgs, hinv.slices, hinv.obt⟩
      · exact ⟨hinv.ord, hinv.wfM, hinv.msgs, hinv.slices, hinv.obt⟩
    | recv =>
      dsimp only
      split
      · rename_i r' m h
        simpa using ord_receive hinv h
      · rename_i r' h
        simpa using ord_receive hinv h
      · exact ⟨hinv.ord, hinv.wfM, hinv.msgs, hinv.slices, hinv.obt⟩
      · exact ⟨hinv.ord, hinv.wfM, hinv.msgs, hinv.slices, hinv.obt⟩

theorem ord_run (L : List Bytes) (maxMem : Nat) (ops : List RecvOp) (hg : ∀ op ∈ ops, Genuine L op) :
    OrdInv L (run (RecvRel.new maxMem true) ops) :=
  foldl_inv step (OrdInv L) (Genuine L) (ord_step L) ops _ (ord_init L maxMem) hg


/-! ### ReliableUnordered -/

/-- advancing `oldest` over remembered ids never forgets that an id was accepted -/
theorem advance_mono : ∀ (f o : Nat) (rec : List Nat) (o' : Nat) (rec' : List Nat),
    advanceOldest f o rec = (o', rec') → ∀ id, (id < o ∨ id ∈ rec) → (id < o' ∨ id ∈ rec')
  | 0, o, rec, o', rec', h, id, hid => by
    simp only [advanceOldest, Prod.mk.injEq] at h
    obtain ⟨rfl, rfl⟩ := h; exact hid
  | f + 1, o, rec, o', rec', h, id, hid => by
    simp only [advanceOldest] at h
    split at h
    · apply advance_mono f (o + 1) (rec.erase o) o' rec' h id
      rcases hid with hlt | hmem
      · left; omega
      · by_cases he : id = o
        · left; omega
        · right; exact (List.mem_erase_of_ne he).2 hmem
    · simp only [Prod.mk.injEq] at h
      obtain ⟨rfl, rfl⟩ := h; exact hid

structure UnordInv (L : List Bytes) (st : RunSt) : Prop where
  ord : st.r.ordered = false
  wfM : WF st.r.messages
  msgs : ∀ id x, SMap.find? st.r.messages id = some x →
    L[id]? = some x ∧ (id < st.r.oldest ∨ id ∈ st.r.received)
  slices : SlicesOK L st.r
  obt : ∃ ids : List Nat, ids.Nodup ∧ st.obtained.map some = ids.map (fun id => L[id]?) ∧
    ∀ id ∈ ids, (id < st.r.oldest ∨ id ∈ st.r.received) ∧ SMap.find? st.r.messages id = none

theorem unord_init (L : List Bytes) (maxMem : Nat) : UnordInv L ⟨RecvRel.new maxMem false, [], false⟩ :=
  ⟨rfl, wf_nil, by intro id x h; simp [RecvRel.new, SMap.find?] at h, slicesOK_new _ _ _,
   ⟨[], List.nodup_nil, rfl, by intro id h; cases h⟩⟩

theorem unord_accept {L : List Bytes} {st : RunSt} {r' : RecvRel} {id : Nat} {m : Bytes}
    (hinv : UnordInv L st) (hL : L[id]? = some m) (hs' : SlicesOK L r') (hacc : Accept st.r r' id m) :
    UnordInv L { st with r := r' } := by
  obtain ⟨ho, hord, hcase⟩ := hacc
  obtain ⟨i1, i2, i3, _, ids, j1, j2, j3⟩ := hinv
  rcases hcase with ⟨hm, hr⟩ | ⟨hlt, hm, hmode⟩
  · refine ⟨by rw [hord]; exact i1, by dsimp only; rw [hm]; exact i2, ?_, hs', ids, j1, j2, ?_⟩
    · intro id' x hf
      dsimp only at hf ⊢
      rw [hm] at hf; rw [ho, hr]; exact i3 id' x hf
    · intro id' hid
      dsimp only
      rw [ho, hr, hm]; exact j3 id' hid
  · rcases hmode with ⟨ht, _, _⟩ | ⟨_, hnr, hr⟩
    · rw [i1] at ht; cases ht
    · refine ⟨by rw [hord]; exact i1, by dsimp only; rw [hm]; exact wf_insert i2 _ _, ?_, hs', ids, j1, j2, ?_⟩
      · intro id' x hf
        dsimp only at hf ⊢
        rw [hm, find?_insert] at hf
        rw [ho, hr]
        split at hf
        · cases hf; subst_vars; exact ⟨hL, Or.inr (by simp)⟩
        · have := i3 id' x hf
          exact ⟨this.1, this.2.imp (fun h => h) (List.mem_cons_of_mem _)⟩
      · intro id' hid
        dsimp only
        have := j3 id' hid
        rw [ho, hr, hm, find?_insert]
        refine ⟨this.1.imp (fun h => h) (List.mem_cons_of_mem _), ?_⟩
        have hne : ¬ id = id' := by
          intro he; subst he
          rcases this.1 with h | h
          · exact hlt h
          · exact hnr h
        rw [if_neg hne]; exact this.2

theorem unord_receive {L : List Bytes} {st : RunSt} {r' : RecvRel} {out : Option Bytes}
    (hinv : UnordInv L st) (h : st.r.receive = .ok (r', out)) :
    UnordInv L { st with r := r', obtained := st.obtained ++ out.toList } := by
  obtain ⟨i1, i2, i3, i4, ids, j1, j2, j3⟩ := hinv
  unfold RecvRel.receive at h
  rw [if_neg (by simp [i1])] at h
  split at h
  · cases h
    exact ⟨i1, i2, i3, i4, ids, j1, by simpa using j2, j3⟩
  · rename_i id x rest hmsgs
    generalize hadv : (if st.r.oldest = id then advanceOldest (st.r.received.length) st.r.oldest st.r.received
      else (st.r.oldest, st.r.received)) = p at h
    obtain ⟨o, rec⟩ := p
    dsimp only at h
    have hmono : ∀ id0, (id0 < st.r.oldest ∨ id0 ∈ st.r.received) → (id0 < o ∨ id0 ∈ rec) := by
      split at hadv
      · exact advance_mono _ _ _ _ _ hadv
      · simp only [Prod.mk.injEq] at hadv
        obtain ⟨rfl, rfl⟩ := hadv; exact fun _ h => h
    cases hsub : (Res.csub st.r.mem x.length "reliable.rs memory_usage_bytes -= message.len() (receive unordered)" : Res Empty Nat) with
    | panic s => rw [hsub] at h; cases h
    | err e => rw [hsub] at h; cases h
    | ok mem =>
      rw [hsub] at h
      simp only [Res.bind_ok, Res.pure_eq] at h
      cases h
      rw [hmsgs] at i2 i3 j3
      have hhead : SMap.find? ((id, x) :: rest) id = some x := by simp [SMap.find?]
      have hrest : ∀ k, k ≠ id → SMap.find? ((id, x) :: rest) k = SMap.find? rest k := by
        intro k hk; simp only [SMap.find?]; rw [if_neg (fun e => hk e.symm)]
      have hnone := find?_tail_none i2
      have hidL := i3 id x hhead
      refine ⟨i1, wf_tail i2, ?_, i4, ids ++ [id], ?_, ?_, ?_⟩
      · intro k y hf
        dsimp only at hf ⊢
        have hk : k ≠ id := by intro e; subst e; rw [hnone] at hf; cases hf
        rw [← hrest k hk] at hf
        have := i3 k y hf
        exact ⟨this.1, hmono k this.2⟩
      · rw [List.nodup_append]
        refine ⟨j1, by simp, ?_⟩
        intro a ha b hb
        simp only [List.mem_singleton] at hb
        subst hb
        intro e; subst e
        have := (j3 a ha).2
        rw [hhead] at this; cases this
      · simp only [List.map_append, Option.toList_some, List.map_cons, List.map_nil, j2, hidL.1]
      · intro k hk
        dsimp only
        simp only [List.mem_append, List.mem_singleton] at hk
        rcases hk with hk | rfl
        · have := j3 k hk
          have hne : k ≠ id := by intro e; subst e; rw [hhead] at this; cases this.2
          exact ⟨hmono k this.1, by rw [← hrest k hne]; exact this.2⟩
        · exact ⟨hmono _ hidL.2, hnone⟩

theorem unord_step (L : List Bytes) (st : RunSt) (op : RecvOp) (hinv : UnordInv L st) (g : Genuine L op) :
    UnordInv L (step st op) := by
  unfold step
  split
  · exact hinv
  · cases op with
    | msg id m =>
      dsimp only
      split
      · rename_i r' h
        obtain ⟨hacc, hsl⟩ := processMessage_ok h
        exact unord_accept hinv g (by unfold SlicesOK; rw [hsl]; exact hinv.slices) hacc
      · exact ⟨hinv.ord, hinv.wfM, hinv.msgs, hinv.slices, hinv.obt⟩
      · exact ⟨hinv.ord, hinv.wfM, hinv.msgs, hinv.slices, hinv.obt⟩
    | slice sl =>
      dsimp only
      split
      · rename_i r' h
        obtain ⟨hs', m, hL, hacc⟩ := processSlice_ok hinv.slices g h
        exact unord_accept hinv hL hs' hacc
      · exact ⟨hinv.ord, hinv.wfM, hinv.msgs, hinv.slices, hinv.obt⟩
      · exact ⟨hinv.ord, hinv.wfM, hinv.msgs, hinv.slices, hinv.obt⟩
    | recv =>
      dsimp only
      split
      · rename_i r' m h
        simpa using unord_receive hinv h
      · rename_i r' h
        simpa using unord_receive hinv h
      · exact ⟨hinv.ord, hinv.wfM, hinv.msgs, hinv.slices, hinv.obt⟩
      · exact ⟨hinv.ord, hinv.wfM, hinv.msgs, hinv.slices, hinv.obt⟩

theorem unord_run (L : List Bytes) (maxMem : Nat) (ops : List RecvOp) (hg : ∀ op ∈ ops, Genuine L op) :
    UnordInv L (run (RecvRel.new maxMem false) ops) :=
  foldl_inv step (UnordInv L) (Genuine L) (unord_step L) ops _ (unord_init L maxMem) hg


/-! ### no head-of-line blocking (unordered) -/

theorem unord_receive_head {r : RecvRel} {id : Nat} {x : Bytes} {rest : SMap Bytes}
    (ho : r.ordered = false) (hm : r.messages = (id, x) :: rest) (hmem : x.length ≤ r.mem) :
    ∃ r', r.receive = .ok (r', some x) ∧ r'.messages = rest := by
  unfold RecvRel.receive
  rw [if_neg (by simp [ho]), hm]
  dsimp only
  generalize (if r.oldest = id then advanceOldest (r.received.length) r.oldest r.received
      else (r.oldest, r.received)) = p
  obtain ⟨o, rec⟩ := p
  simp [Res.csub, hmem]

/-- a small message not yet accepted is queued at once (unordered) -/
theorem unord_msg_queued {r : RecvRel} {id : Nat} {m : Bytes}
    (ho : r.ordered = false) (hlt : ¬ id < r.oldest) (hnr : id ∉ r.received)
    (hmem : r.mem + m.length ≤ r.maxMem) :
    ∃ r', r.processMessage m id = .ok r' ∧ SMap.find? r'.messages id = some m := by
  unfold RecvRel.processMessage
  rw [if_neg hlt, if_neg (by simp [ho]), if_neg (by simpa using hnr), if_neg (by omega)]
  exact ⟨_, rfl, by simp [find?_insert]⟩

/-- the slice that completes a message not yet accepted puts it into the queue at once (unordered),
    whatever older messages are still missing -/
theorem unord_slice_queued {L : List Bytes} {r : RecvRel} {sl : Slice} {m : Bytes} {c : SliceCtor}
    (ho : r.ordered = false) (hs : SlicesOK L r)
    (hL : L[sl.messageId]? = some m) (hlen : m.length > SLICE_SIZE)
    (hn : sl.numSlices = divCeil m.length SLICE_SIZE) (hi : sl.sliceIndex < sl.numSlices)
    (hp : sl.payload = sliceBytes m sl.numSlices sl.sliceIndex)
    (hc : SMap.find? r.slices sl.messageId = some c)
    (hall : ∀ j, j < sl.numSlices → j ≠ sl.sliceIndex → c.received[j]? = some true)
    (hnm : SMap.find? r.messages sl.messageId = none)
    (hlt : ¬ sl.messageId < r.oldest) (hnr : sl.messageId ∉ r.received)
    (hmem1 : sl.numSlices * SLICE_SIZE ≤ r.mem)
    (hmem2 : r.mem - sl.numSlices * SLICE_SIZE + m.length ≤ r.maxMem) :
    ∃ r', r.processSlice sl = .ok r' ∧ SMap.find? r'.messages sl.messageId = some m := by
  obtain ⟨m', hL', _, hag⟩ := hs.2 _ _ hc
  rw [hL] at hL'; cases hL'
  have hcn : c.numSlices = sl.numSlices := by rw [hn]; exact hag.numSlices
  obtain ⟨c', out, hproc, hrecv, _, _, hsome, hiff⟩ :=
    processSlice_genuine (m := m) (by omega) hag (idx := sl.sliceIndex) (by rw [← hn]; exact hi)
  have hout : out = some m := by
    have : out ≠ none := by
      rw [hiff]
      intro j hj
      rw [hrecv, List.getElem?_set]
      split
      · have : sl.sliceIndex < c.received.length := by rw [hag.recvLen, ← hn]; exact hi
        subst_vars; simp [this]
      · rename_i hne; exact hall j (by rw [hn]; exact hj) (fun e => hne e.symm)
    cases out with
    | none => exact absurd rfl this
    | some m' => rw [hsome m' rfl]
  subst hout
  have hcont : SMap.contains r.messages sl.messageId = false := by simp [SMap.contains, hnm]
  have hcs : SMap.contains r.slices sl.messageId = true := by simp [SMap.contains, hc]
  rw [processSlice_eq, if_neg (by simp [hcont, hlt]), if_neg (by simp [ho, hnr])]
  have hhead : sliceHead r sl = .ok r := by simp [sliceHead, hcs]
  rw [hhead]
  simp only [Res.bind_ok]
  unfold sliceTail
  rw [hc]
  dsimp only
  rw [if_neg (by simp [hcn]), hp, hn, hproc]
  dsimp only
  have hsub : ∀ site, (Res.csub r.mem (c.numSlices * SLICE_SIZE) site : Res (ChanErr × RecvRel) Nat)
      = .ok (r.mem - c.numSlices * SLICE_SIZE) := by
    intro site; simp [Res.csub, hcn, hmem1]
  rw [hsub]
  simp only [Res.bind_ok]
  obtain ⟨r3, hpm, hfind⟩ := unord_msg_queued (m := m) (id := sl.messageId)
    (r := { r with mem := r.mem - c.numSlices * SLICE_SIZE, slices := SMap.insert r.slices sl.messageId c' })
    ho hlt hnr (by dsimp only; rw [hcn]; exact hmem2)
  rw [hpm]
  exact ⟨_, rfl, hfind⟩


/-! ### the receiving side of one unreliable channel -/

/-- what can happen to an unreliable receiving channel: a small message or a slice arrives (at time
    `now`), the application asks for a message, or `update` discards stale reassemblies -/
inductive UOp where
  | msg (m : Bytes)
  | slice (sl : Slice) (now : Nat)
  | recv
  | discard (now : Nat)
  deriving Repr, DecidableEq

/-- `S`: every message ever passed to `send_message` on the channel.  `idOf`: the message the sender
    numbered with a given sliced-message id (it uses a fresh id for every sliced message, so all
    slices carrying the same id belong to the same message). -/
def GenuineU (S : List Bytes) (idOf : Nat → Option Bytes) : UOp → Prop
  | .msg m => m ∈ S
  | .slice sl _ => ∃ m, idOf sl.messageId = some m ∧ m ∈ S ∧ m.length > SLICE_SIZE ∧
      sl.numSlices = divCeil m.length SLICE_SIZE ∧ sl.sliceIndex < sl.numSlices ∧
      sl.payload = sliceBytes m sl.numSlices sl.sliceIndex
  | .recv => True
  | .discard _ => True

/-- channel state, ghost list of everything obtained, ghost list of every (message id, slice index)
    the network has handed over so far, disconnected flag -/
structure URunSt where
  r : RecvUnrel
  obtained : List Bytes
  seen : List (Nat × Nat)
  dead : Bool
  deriving Repr, DecidableEq

def ustep (st : URunSt) (op : UOp) : URunSt :=
  if st.dead then st else
  match op with
  | .msg m => { st with r := st.r.processMessage m }
  | .slice sl now =>
    match st.r.processSlice sl now with
    | .ok r' => { st with r := r', seen := st.seen ++ [(sl.messageId, sl.sliceIndex)] }
    | .err _ => { st with dead := true }
    | .panic _ => { st with dead := true }
  | .recv =>
    match st.r.receive with
    | .ok (r', some m) => { st with r := r', obtained := st.obtained ++ [m] }
    | .ok (r', none) => { st with r := r' }
    | .err _ => { st with dead := true }
    | .panic _ => { st with dead := true }
  | .discard now =>
    match st.r.discardOld now with
    | .ok r' => { st with r := r' }
    | .err _ => { st with dead := true }
    | .panic _ => { st with dead := true }

def urun (r0 : RecvUnrel) (ops : List UOp) : URunSt := ops.foldl ustep ⟨r0, [], [], false⟩

structure UInv (S : List Bytes) (idOf : Nat → Option Bytes) (st : URunSt) : Prop where
  msgs : ∀ x ∈ st.r.messages, x ∈ S
  wfS : WF st.r.slices
  slices : ∀ id c, SMap.find? st.r.slices id = some c →
    ∃ m, idOf id = some m ∧ m ∈ S ∧ m.length > SLICE_SIZE ∧ CtorAgrees m c
  marks : ∀ id c, SMap.find? st.r.slices id = some c → ∀ j, c.received[j]? = some true → (id, j) ∈ st.seen
  obt : ∀ x ∈ st.obtained, x ∈ S

def uHead (r : RecvUnrel) (sl : Slice) : Option RecvUnrel :=
  if SMap.contains r.slices sl.messageId then some r else
    let len := sl.numSlices * SLICE_SIZE
    if r.mem + len > r.maxMem then none
    else some { r with mem := r.mem + len, slices := SMap.insert r.slices sl.messageId (SliceCtor.new sl.numSlices) }

def uTail (r : RecvUnrel) (sl : Slice) (now : Nat) : Res (ChanErr × RecvUnrel) RecvUnrel :=
  match SMap.find? r.slices sl.messageId with
  | none => .panic "unreachable: constructor just inserted"
  | some c =>
    if c.numSlices ≠ sl.numSlices then .err (.invalidSlice, r) else
    match c.processSlice sl.sliceIndex sl.payload with
    | .panic s => .panic s
    | .err e => .err (e, r)
    | .ok (_, some m) => do
      let mem ← Res.csub r.mem (c.numSlices * SLICE_SIZE) "unreliable.rs memory_usage_bytes -= num_slices * SLICE_SIZE"
      pure { r with slices := SMap.erase r.slices sl.messageId, lastReceived := SMap.erase r.lastReceived sl.messageId,
                    mem := mem + m.length, messages := r.messages ++ [m] }
    | .ok (c', none) =>
      pure { r with slices := SMap.insert r.slices sl.messageId c', lastReceived := SMap.insert r.lastReceived sl.messageId now }

theorem uprocessSlice_eq (r : RecvUnrel) (sl : Slice) (now : Nat) :
    r.processSlice sl now = match uHead r sl with
      | none => .ok r
      | some r1 => uTail r1 sl now := rfl

/-- state-level part of `UInv` (everything but `obtained`) -/
structure UInvR (S : List Bytes) (idOf : Nat → Option Bytes) (seen : List (Nat × Nat)) (r : RecvUnrel) : Prop where
  msgs : ∀ x ∈ r.messages, x ∈ S
  wfS : WF r.slices
  slices : ∀ id c, SMap.find? r.slices id = some c →
    ∃ m, idOf id = some m ∧ m ∈ S ∧ m.length > SLICE_SIZE ∧ CtorAgrees m c
  marks : ∀ id c, SMap.find? r.slices id = some c → ∀ j, c.received[j]? = some true → (id, j) ∈ seen

theorem uHead_ok {S : List Bytes} {idOf : Nat → Option Bytes} {seen : List (Nat × Nat)} {r r1 : RecvUnrel}
    {sl : Slice} {m : Bytes} (hinv : UInvR S idOf seen r)
    (hid : idOf sl.messageId = some m) (hS : m ∈ S) (hlen : m.length > SLICE_SIZE)
    (hn : sl.numSlices = divCeil m.length SLICE_SIZE) (h : uHead r sl = some r1) :
    UInvR S idOf seen r1 ∧ r1.messages = r.messages := by
  unfold uHead at h
  split at h
  · cases h; exact ⟨hinv, rfl⟩
  · dsimp only at h
    split at h
    · cases h
    · cases h
      refine ⟨⟨hinv.msgs, wf_insert hinv.wfS _ _, ?_, ?_⟩, rfl⟩
      · intro id c hf
        dsimp only at hf
        rw [find?_insert] at hf
        split at hf
        · cases hf; subst_vars
          exact ⟨m, hid, hS, hlen, by rw [hn]; exact agrees_new m⟩
        · exact hinv.slices id c hf
      · intro id c hf j hj
        dsimp only at hf
        rw [find?_insert] at hf
        split at hf
        · cases hf
          simp [SliceCtor.new, List.getElem?_replicate] at hj
        · exact hinv.marks id c hf j hj

/-- A genuine slice offered to an unreliable channel: the invariant is kept, and a message is pushed to
    the queue only if it is the complete submitted message and every one of its slice indices has
    been handed over by the network (this one included). -/
theorem uTail_ok {S : List Bytes} {idOf : Nat → Option Bytes} {seen : List (Nat × Nat)} {r r' : RecvUnrel}
    {sl : Slice} {now : Nat} {m : Bytes} (hinv : UInvR S idOf seen r)
    (hid : idOf sl.messageId = some m) (hS : m ∈ S) (hlen : m.length > SLICE_SIZE)
    (hn : sl.numSlices = divCeil m.length SLICE_SIZE) (hi : sl.sliceIndex < sl.numSlices)
    (hp : sl.payload = sliceBytes m sl.numSlices sl.sliceIndex)
    (h : uTail r sl now = .ok r') :
    UInvR S idOf (seen ++ [(sl.messageId, sl.sliceIndex)]) r' ∧
    (r'.messages = r.messages ∨
      (r'.messages = r.messages ++ [m] ∧
        ∀ j, j < sl.numSlices → (sl.messageId, j) ∈ seen ++ [(sl.messageId, sl.sliceIndex)])) := by
  unfold uTail at h
  split at h
  · cases h
  · rename_i c hfind
    obtain ⟨m', hid', _, _, hag⟩ := hinv.slices _ _ hfind
    rw [hid] at hid'; cases hid'
    have hcn : c.numSlices = sl.numSlices := by rw [hn]; exact hag.numSlices
    rw [if_neg (by simp [hcn])] at h
    obtain ⟨c', out, hproc, hrecv, _, hnone, hsome, hiff⟩ :=
      processSlice_genuine (m := m) (by omega) hag (idx := sl.sliceIndex) (by rw [← hn]; exact hi)
    rw [hp, hn, hproc] at h
    have hmark : ∀ j, c'.received[j]? = some true → (sl.messageId, j) ∈ seen ++ [(sl.messageId, sl.sliceIndex)] := by
      intro j hj
      rw [hrecv, List.getElem?_set] at hj
      split at hj
      · subst_vars; simp
      · exact List.mem_append_left _ (hinv.marks _ _ hfind j hj)
    cases out with
    | none =>
      dsimp only at h
      cases h
      refine ⟨⟨hinv.msgs, wf_insert hinv.wfS _ _, ?_, ?_⟩, Or.inl rfl⟩
      · intro id c0 hf
        dsimp only at hf
        rw [find?_insert] at hf
        split at hf
        · cases hf; subst_vars; exact ⟨m, hid, hS, hlen, (hnone rfl).1⟩
        · exact hinv.slices id c0 hf
      · intro id c0 hf j hj
        dsimp only at hf
        rw [find?_insert] at hf
        split at hf
        · cases hf; subst_vars; exact hmark j hj
        · exact List.mem_append_left _ (hinv.marks id c0 hf j hj)
    | some mm =>
      have := hsome mm rfl; subst this
      dsimp only at h
      cases hsub : (Res.csub r.mem (c.numSlices * SLICE_SIZE) "unreliable.rs memory_usage_bytes -= num_slices * SLICE_SIZE" : Res (ChanErr × RecvUnrel) Nat) with
      | panic s => rw [hsub] at h; cases h
      | err e => rw [hsub] at h; cases h
      | ok mem =>
        rw [hsub] at h
        simp only [Res.bind_ok, Res.pure_eq] at h
        cases h
        refine ⟨⟨?_, wf_erase hinv.wfS _, ?_, ?_⟩, Or.inr ⟨rfl, ?_⟩⟩
        · intro x hx
          dsimp only at hx
          rw [List.mem_append] at hx
          rcases hx with hx | hx
          · exact hinv.msgs x hx
          · simp only [List.mem_singleton] at hx; subst hx; exact hS
        · intro id c0 hf
          dsimp only at hf
          rw [find?_erase hinv.wfS] at hf
          split at hf
          · cases hf
          · exact hinv.slices id c0 hf
        · intro id c0 hf j hj
          dsimp only at hf
          rw [find?_erase hinv.wfS] at hf
          split at hf
          · cases hf
          · exact List.mem_append_left _ (hinv.marks id c0 hf j hj)
        · intro j hj
          have hall := hiff.1 (by simp)
          exact hmark j (hall j (by rw [← hn]; exact hj))

theorem uInvR_seen_mono {S : List Bytes} {idOf : Nat → Option Bytes} {seen : List (Nat × Nat)} {r : RecvUnrel}
    (hinv : UInvR S idOf seen r) (p : Nat × Nat) : UInvR S idOf (seen ++ [p]) r :=
  ⟨hinv.msgs, hinv.wfS, hinv.slices, fun id c hf j hj => List.mem_append_left _ (hinv.marks id c hf j hj)⟩

theorem uprocessSlice_ok {S : List Bytes} {idOf : Nat → Option Bytes} {seen : List (Nat × Nat)} {r r' : RecvUnrel}
    {sl : Slice} {now : Nat} (hinv : UInvR S idOf seen r) (g : GenuineU S idOf (.slice sl now))
    (h : r.processSlice sl now = .ok r') :
    UInvR S idOf (seen ++ [(sl.messageId, sl.sliceIndex)]) r' ∧
    (r'.messages = r.messages ∨
      ∃ m, idOf sl.messageId = some m ∧ m ∈ S ∧ r'.messages = r.messages ++ [m] ∧
        ∀ j, j < sl.numSlices → (sl.messageId, j) ∈ seen ++ [(sl.messageId, sl.sliceIndex)]) := by
  obtain ⟨m, hid, hS, hlen, hn, hi, hp⟩ := g
  rw [uprocessSlice_eq] at h
  cases hh : uHead r sl with
  | none =>
    rw [hh] at h; dsimp only at h; cases h
    exact ⟨uInvR_seen_mono hinv _, Or.inl rfl⟩
  | some r1 =>
    rw [hh] at h; dsimp only at h
    obtain ⟨hinv1, hm1⟩ := uHead_ok hinv hid hS hlen hn hh
    obtain ⟨hinv', hcase⟩ := uTail_ok hinv1 hid hS hlen hn hi hp h
    refine ⟨hinv', ?_⟩
    rcases hcase with hc | ⟨hc, hall⟩
    · left; rw [hc, hm1]
    · right; exact ⟨m, hid, hS, by rw [hc, hm1], hall⟩

theorem discardLoop_ok {S : List Bytes} {idOf : Nat → Option Bytes} {seen : List (Nat × Nat)} :
    ∀ (l : List Nat) (r r' : RecvUnrel), UInvR S idOf seen r → discardLoop l r = .ok r' →
      UInvR S idOf seen r' ∧ r'.messages = r.messages
  | [], r, r', hinv, h => by
    simp only [discardLoop] at h; cases h; exact ⟨hinv, rfl⟩
  | id :: rest, r, r', hinv, h => by
    simp only [discardLoop] at h
    split at h
    · cases h
    · rename_i c hfind
      cases hsub : (Res.csub r.mem (c.numSlices * SLICE_SIZE) "unreliable.rs memory_usage_bytes -= num_slices * SLICE_SIZE (discard)" : Res Empty Nat) with
      | panic s => rw [hsub] at h; cases h
      | err e => rw [hsub] at h; cases h
      | ok mem =>
        rw [hsub] at h
        simp only [Res.bind_ok] at h
        have hinv1 : UInvR S idOf seen { r with lastReceived := SMap.erase r.lastReceived id, slices := SMap.erase r.slices id, mem := mem } := by
          refine ⟨hinv.msgs, wf_erase hinv.wfS _, ?_, ?_⟩
          · intro id' c0 hf
            dsimp only at hf
            rw [find?_erase hinv.wfS] at hf
            split at hf
            · cases hf
            · exact hinv.slices id' c0 hf
          · intro id' c0 hf j hj
            dsimp only at hf
            rw [find?_erase hinv.wfS] at hf
            split at hf
            · cases hf
            · exact hinv.marks id' c0 hf j hj
        have := discardLoop_ok rest _ r' hinv1 h
        exact this

theorem uinv_of {S : List Bytes} {idOf : Nat → Option Bytes} {st : URunSt} (h : UInv S idOf st) :
    UInvR S idOf st.seen st.r := ⟨h.msgs, h.wfS, h.slices, h.marks⟩

theorem uinv_mk {S : List Bytes} {idOf : Nat → Option Bytes} {st : URunSt} (h : UInvR S idOf st.seen st.r)
    (ho : ∀ x ∈ st.obtained, x ∈ S) : UInv S idOf st := ⟨h.msgs, h.wfS, h.slices, h.marks, ho⟩

theorem uinv_init (S : List Bytes) (idOf : Nat → Option Bytes) (ch maxMem : Nat) :
    UInv S idOf ⟨RecvUnrel.new ch maxMem, [], [], false⟩ :=
  ⟨(by intro x h; cases h), wf_nil, (by intro id c h; simp [RecvUnrel.new, SMap.find?] at h),
   (by intro id c h; simp [RecvUnrel.new, SMap.find?] at h), (by intro x h; cases h)⟩

theorem ustep_inv (S : List Bytes) (idOf : Nat → Option Bytes) (st : URunSt) (op : UOp)
    (hinv : UInv S idOf st) (g : GenuineU S idOf op) : UInv S idOf (ustep st op) := by
  unfold ustep
  split
  · exact hinv
  · cases op with
    | msg m =>
      dsimp only
      unfold RecvUnrel.processMessage
      split
      · exact hinv
      · refine ⟨?_, hinv.wfS, hinv.slices, hinv.marks, hinv.obt⟩
        intro x hx
        dsimp only at hx
        rw [List.mem_append] at hx
        rcases hx with hx | hx
        · exact hinv.msgs x hx
        · simp only [List.mem_singleton] at hx; subst hx; exact g
    | slice sl now =>
      dsimp only
      split
      · rename_i r' h
        exact uinv_mk (uprocessSlice_ok (uinv_of hinv) g h).1 hinv.obt
      · exact ⟨hinv.msgs, hinv.wfS, hinv.slices, hinv.marks, hinv.obt⟩
      · exact ⟨hinv.msgs, hinv.wfS, hinv.slices, hinv.marks, hinv.obt⟩
    | recv =>
      dsimp only
      split
      · rename_i r' m h
        unfold RecvUnrel.receive at h
        split at h
        · cases h
        · rename_i x rest hm
          cases hsub : (Res.csub st.r.mem x.length "unreliable.rs memory_usage_bytes -= message.len() (receive)" : Res Empty Nat) with
          | panic s => rw [hsub] at h; cases h
          | err e => rw [hsub] at h; cases h
          | ok mem =>
            rw [hsub] at h
            simp only [Res.bind_ok, Res.pure_eq] at h
            cases h
            have hmsgs := hinv.msgs
            rw [hm] at hmsgs
            refine ⟨fun y hy => hmsgs y (List.mem_cons_of_mem _ hy), hinv.wfS, hinv.slices, hinv.marks, ?_⟩
            intro y hy
            dsimp only at hy
            rw [List.mem_append] at hy
            rcases hy with hy | hy
            · exact hinv.obt y hy
            · simp only [List.mem_singleton] at hy; subst hy; exact hmsgs _ (by simp)
      · rename_i r' h
        unfold RecvUnrel.receive at h
        split at h
        · cases h; exact hinv
        · rename_i x rest hm
          cases hsub : (Res.csub st.r.mem x.length "unreliable.rs memory_usage_bytes -= message.len() (receive)" : Res Empty Nat) with
          | panic s => rw [hsub] at h; cases h
          | err e => rw [hsub] at h; cases h
          | ok mem =>
            rw [hsub] at h
            simp only [Res.bind_ok, Res.pure_eq] at h
            cases h
      · exact ⟨hinv.msgs, hinv.wfS, hinv.slices, hinv.marks, hinv.obt⟩
      · exact ⟨hinv.msgs, hinv.wfS, hinv.slices, hinv.marks, hinv.obt⟩
    | discard now =>
      dsimp only
      split
      · rename_i r' h
        unfold RecvUnrel.discardOld at h
        obtain ⟨hr, _⟩ := discardLoop_ok _ _ _ (uinv_of hinv) h
        exact uinv_mk hr hinv.obt
      · exact ⟨hinv.msgs, hinv.wfS, hinv.slices, hinv.marks, hinv.obt⟩
      · exact ⟨hinv.msgs, hinv.wfS, hinv.slices, hinv.marks, hinv.obt⟩

theorem uinv_run (S : List Bytes) (idOf : Nat → Option Bytes) (ch maxMem : Nat) (ops : List UOp)
    (hg : ∀ op ∈ ops, GenuineU S idOf op) : UInv S idOf (urun (RecvUnrel.new ch maxMem) ops) :=
  foldl_inv ustep (UInv S idOf) (GenuineU S idOf) (ustep_inv S idOf) ops _ (uinv_init S idOf ch maxMem) hg

/-- every ghost mark comes from a slice op of the schedule -/
theorem seen_from_ops : ∀ (ops : List UOp) (st : URunSt) (p : Nat × Nat), p ∈ (ops.foldl ustep st).seen →
    p ∈ st.seen ∨ ∃ sl now, UOp.slice sl now ∈ ops ∧ (sl.messageId, sl.sliceIndex) = p
  | [], st, p, h => Or.inl h
  | op :: ops, st, p, h => by
    rw [List.foldl_cons] at h
    rcases seen_from_ops ops (ustep st op) p h with h1 | ⟨sl, now, hm, he⟩
    · unfold ustep at h1
      split at h1
      · exact Or.inl h1
      · cases op with
        | msg m => exact Or.inl h1
        | slice sl now =>
          dsimp only at h1
          split at h1
          · dsimp only at h1
            rw [List.mem_append] at h1
            rcases h1 with h1 | h1
            · exact Or.inl h1
            · simp only [List.mem_singleton] at h1
              exact Or.inr ⟨sl, now, by simp, h1.symm⟩
          · exact Or.inl h1
          · exact Or.inl h1
        | recv =>
          dsimp only at h1
          split at h1 <;> exact Or.inl h1
        | discard now =>
          dsimp only at h1
          split at h1 <;> exact Or.inl h1
    · exact Or.inr ⟨sl, now, List.mem_cons_of_mem _ hm, he⟩


/-! ### packets as op sequences (`Conn.processPacket` dispatch) -/

theorem foldl_step_dead (ops : List RecvOp) (st : RunSt) (h : st.dead = true) : ops.foldl step st = st := by
  induction ops with
  | nil => rfl
  | cons op ops ih =>
    rw [List.foldl_cons]
    have : step st op = st := by unfold step; rw [if_pos h]
    rw [this, ih]

theorem processMessage_err {r r' : RecvRel} {m : Bytes} {id : Nat} {e : ChanErr}
    (h : r.processMessage m id = .err (e, r')) : r' = r := by
  unfold RecvRel.processMessage at h
  repeat' split at h
  all_goals first | cases h; rfl | cases h

theorem processMessage_no_panic (r : RecvRel) (m : Bytes) (id : Nat) (s : String) :
    r.processMessage m id ≠ .panic s := by
  unfold RecvRel.processMessage
  repeat' split
  all_goals intro h; cases h

/-- A `SmallReliable` packet carrying `msgs` acts on the channel exactly like the op sequence
    `msg id₁ m₁, msg id₂ m₂, …`: same final channel on success; on a channel error the run is dead and
    holds the state the error carries (which `Conn.processPacket` stores before disconnecting). -/
theorem relMsgLoop_as_ops : ∀ (msgs : List (Nat × Bytes)) (r : RecvRel) (o : List Bytes),
    (∀ r', Conn.relMsgLoop r msgs = .ok r' →
      (msgs.map (fun p => RecvOp.msg p.1 p.2)).foldl step ⟨r, o, false⟩ = ⟨r', o, false⟩) ∧
    (∀ e r', Conn.relMsgLoop r msgs = .err (e, r') →
      (msgs.map (fun p => RecvOp.msg p.1 p.2)).foldl step ⟨r, o, false⟩ = ⟨r', o, true⟩) ∧
    (∀ s, Conn.relMsgLoop r msgs ≠ .panic s)
  | [], r, o => by
    refine ⟨?_, ?_, ?_⟩
    · intro r' h; simp only [Conn.relMsgLoop] at h; cases h; rfl
    · intro e r' h; simp only [Conn.relMsgLoop] at h; cases h
    · intro s h; simp only [Conn.relMsgLoop] at h; cases h
  | (id, m) :: rest, r, o => by
    simp only [Conn.relMsgLoop, List.map_cons, List.foldl_cons]
    have hstep : step ⟨r, o, false⟩ (.msg id m) = match r.processMessage m id with
        | .ok r' => ⟨r', o, false⟩
        | .err _ => ⟨r, o, true⟩
        | .panic _ => ⟨r, o, true⟩ := by
      unfold step; rw [if_neg (by simp)]
    rw [hstep]
    cases hpm : r.processMessage m id with
    | ok r1 =>
      dsimp only
      exact relMsgLoop_as_ops rest r1 o
    | err e =>
      obtain ⟨e1, r1⟩ := e
      have := processMessage_err hpm; subst this
      dsimp only
      refine ⟨?_, ?_, ?_⟩
      · intro r' h; cases h
      · intro e' r' h; cases h; exact foldl_step_dead _ _ rfl
      · intro s h; cases h
    | panic s => exact absurd hpm (processMessage_no_panic _ _ _ _)

theorem foldl_ustep_msgs : ∀ (msgs : List Bytes) (r : RecvUnrel) (o : List Bytes) (seen : List (Nat × Nat)),
    (msgs.map UOp.msg).foldl ustep ⟨r, o, seen, false⟩ = ⟨msgs.foldl RecvUnrel.processMessage r, o, seen, false⟩
  | [], _, _, _ => rfl
  | m :: rest, r, o, seen => by
    simp only [List.map_cons, List.foldl_cons]
    have : ustep ⟨r, o, seen, false⟩ (.msg m) = ⟨r.processMessage m, o, seen, false⟩ := by
      unfold ustep; rw [if_neg (by simp)]
    rw [this]
    exact foldl_ustep_msgs rest _ o seen

end RenetVerif.DataPath
