/-
  Netcode handshake authentication (property C05): what must have happened for `ClientConnected` to be reported, and
  for a half-open session to exist; every way a request or response can be wrong ends without a connection.
-/
import RenetVerif.Lemmas.NcTableEvents
namespace RenetVerif.Netcode
namespace NS
open RenetVerif

/-! ## Part 6 : `ClientConnected` only after a matching response -/

/-- **`process_packet` reports `ClientConnected id addr' ud` only when**: the datagram came from `addr' = addr`; that
    address had a half-open session `p` with `p.clientId = id`, `p.userData = ud`; the datagram decodes under `p`'s
    client-to-server key to a `Response` whose challenge token opens under *this server's* challenge key to exactly
    `(id, ud)` (the comparison missing in the original code, defect D10); `id` was not connected and a slot was free. -/
theorem connected_only_if {a : AEAD} {s s' : NetcodeServer} {addr addr' : Addr} {buf ud ka : Bytes} {id : Nat}
    (hi : ServerInv s) (h : s.processPacket a addr buf = .ok (.clientConnected id addr' ud ka, s')) :
    addr' = addr ∧ ∃ p sq ts td w' i,
      pendingFind s.pendingClients addr = some p ∧ p.clientId = id ∧ p.userData = ud ∧ p.addr = addr ∧
      findClientByAddr s.clients addr = none ∧ findClientById s.clients id = none ∧
      Packet.decode a buf s.protocolId (some p.receiveKey) (some p.replayProtection) =
        (.ok (sq, .response ts td), some w') ∧
      ChallengeToken.decode a td ts s.challengeKey = .ok ⟨id, ud⟩ ∧
      firstFreeSlot s.clients = some i ∧
      s'.clients = s.clients.set i (some (promoted p w' s.currentTime)) ∧
      s'.pendingClients = pendingRemove s.pendingClients addr ∧
      (Packet.keepAlive (i % 2 ^ 32) (s.maxClients % 2 ^ 32)).encode a C.NETCODE_MAX_PACKET_BYTES s.protocolId
        (some (p.sequence, p.sendKey)) = .ok ka := by
  have ho := pp_ok hi h
  generalize hr : ServerResult.clientConnected id addr' ud ka = r at ho
  cases ho with
  | respConnected p sq ts td w' i out hfa hpf hdec hct hid hff hen =>
    cases hr
    exact ⟨rfl, p, sq, ts, td, w', i, hpf, rfl, rfl, (hi.pend (addr, p) (pendingFind_mem hpf)).key, hfa, hid, hdec, hct,
      hff, rfl, rfl, hen⟩
  | pendRequest p' sq v pid expire xnonce data w' R _ _ hfa hpf hdec hout hres =>
    subst hr
    rcases (hcr_clients hout hres).2 with h | ⟨_, h⟩ <;> cases h
  | newRequest sq v pid expire xnonce data R _ _ hfa hpf hdec hout hres =>
    subst hr
    rcases (hcr_clients hout hres).2 with h | ⟨_, h⟩ <;> cases h
  | _ => cases hr

/-- no other operation reports `ClientConnected` -/
theorem step_connected_is_packet {a : AEAD} {s s' : NetcodeServer} {op : Op} {id : Nat} {ad : Addr} {ud ka : Bytes}
    (hi : ServerInv s) (h : step a s op = some (.clientConnected id ad ud ka, s')) :
    ∃ buf, op = .packet ad buf ∧ s.processPacket a ad buf = .ok (.clientConnected id ad ud ka, s') := by
  cases op with
  | packet addr buf =>
    simp only [step] at h
    cases hp : s.processPacket a addr buf with
    | ok x =>
      rw [hp] at h; cases h
      obtain ⟨rfl, _⟩ := connected_only_if hi hp
      exact ⟨buf, rfl, hp⟩
    | err e => exact e.elim
    | panic m => rw [hp] at h; cases h
  | update d =>
    simp only [step] at h
    cases hp : s.update d with
    | ok x => rw [hp] at h; cases h
    | err e => exact e.elim
    | panic m => rw [hp] at h; cases h
  | updateClient id' =>
    simp only [step] at h
    cases hp : s.updateClient a id' with
    | ok x =>
      rw [hp] at h; cases h
      cases hf : findClientSlotById s.clients id' with
      | none => rw [updateClient_absent a hf] at hp; cases hp
      | some i =>
        obtain ⟨c, hc, hid, _⟩ := findSlot_some hf
        rcases updateClient_spec a hi hf hc with ⟨_, o, e⟩ | ⟨_, e | ⟨out, _, _, e⟩⟩ | ⟨⟨m, e⟩, _⟩ <;>
          (rw [e] at hp; cases hp)
    | err e => exact e.elim
    | panic m => rw [hp] at h; cases h
  | disconnect id' =>
    simp only [step] at h
    cases hp : s.disconnect a id' with
    | ok x =>
      rw [hp] at h; cases h
      rcases disconnect_spec a s id' with ⟨_, e⟩ | ⟨i, c, o, _, _, _, e⟩ <;> (rw [e] at hp; cases hp)
    | err e => exact e.elim
    | panic m => rw [hp] at h; cases h
  | setMaxClients m => simp [step] at h
  | sendPayload id' p =>
    simp only [step] at h
    cases hp : s.generatePayloadPacket a id' p with
    | ok x => obtain ⟨⟨ad, out⟩, s''⟩ := x; rw [hp] at h; cases h
    | err e => rw [hp] at h; cases h
    | panic m => rw [hp] at h; cases h

/-! ## Part 7 : a half-open session exists only after an accepted connection request -/

/-- a connection request decodes to the same packet whatever key / window the decoder is given -/
theorem decode_request_indep {a : AEAD} {buf : Bytes} {pid : Nat} {key : Option Bytes} {rp rp' : Option RP} {sq : Nat}
    {v : Bytes} {pi e : Nat} {x d : Bytes}
    (h : Packet.decode a buf pid key rp = (.ok (sq, .connectionRequest v pi e x d), rp')) (key2 : Option Bytes)
    (rp2 : Option RP) :
    Packet.decode a buf pid key2 rp2 = (.ok (0, .connectionRequest v pi e x d), rp2) ∧ sq = 0 ∧ rp' = rp := by
  rw [decode_eq] at h ⊢
  split at h
  · cases h
  · rename_i hlen
    rw [if_neg hlen]
    cases buf with
    | nil => cases h
    | cons pfx rest =>
      simp only at h ⊢
      cases hty : PacketType.fromU8 (pfx.toNat % 16) with
      | err e' => rw [hty] at h; cases h
      | panic m => rw [hty] at h; cases h
      | ok ty =>
        rw [hty] at h
        simp only at h ⊢
        split at h
        · rename_i hreq
          rw [if_pos hreq]
          simp only [Prod.mk.injEq] at h
          obtain ⟨h1, h2⟩ := h
          cases hr : Packet.read .connectionRequest rest with
          | err e' => rw [hr] at h1; cases h1
          | panic m => rw [hr] at h1; cases h1
          | ok q =>
            rw [hr] at h1
            simp only [Res.bind_ok, Res.pure_eq, Res.ok.injEq, Prod.mk.injEq] at h1
            obtain ⟨rfl, rfl⟩ := h1
            exact ⟨rfl, rfl, h2.symm⟩
        · rename_i hne
          exfalso
          cases key with
          | none => cases h
          | some k =>
            simp only at h
            cases hs : Packet.readSequence rest (pfx.toNat / 16) with
            | none => rw [hs] at h; cases h
            | some sb =>
              obtain ⟨sq0, body⟩ := sb
              rw [hs] at h
              simp only at h
              split at h
              · cases h
              · split at h
                · cases h
                · cases ho : Packet.openBody a k sq0 (Packet.additionalData pfx pid) body with
                  | err e' => rw [ho] at h; cases h
                  | panic m => rw [ho] at h; cases h
                  | ok plain =>
                    rw [ho] at h
                    simp only [Prod.mk.injEq] at h
                    cases hr2 : Packet.read ty plain with
                    | err e' => rw [hr2] at h; cases h.1
                    | panic m => rw [hr2] at h; cases h.1
                    | ok q =>
                      rw [hr2] at h
                      simp only [Res.bind_ok, Res.pure_eq, Res.ok.injEq, Prod.mk.injEq] at h
                      have := (read_ok hr2).1
                      rw [h.1.2] at this
                      exact hne this.symm

/-- the token-to-address check reads only the token-entry table -/
theorem findOrAdd_snd_congr {s s2 : NetcodeServer} (h : s2.connectTokenEntries = s.connectTokenEntries)
    (e : ConnectTokenEntry) : (s2.findOrAddConnectTokenEntry e).2 = (s.findOrAddConnectTokenEntry e).2 := by
  unfold NetcodeServer.findOrAddConnectTokenEntry
  simp only [h]
  cases (NetcodeServer.scanEntries e.mac s.connectTokenEntries 0 ⟨DURATION_MAX, 0, false, none⟩).matchingEntry <;> rfl

/-- **How a half-open session comes to exist**: the datagram `buf` from `addr` is a connection request that passes
    every check of `Accepted` (version, protocol id, not expired, private token opens under the server's key with
    AAD = version‖protocol‖expiry, (secure mode) a listed address is one of the server's, address and id not
    connected, room in the pending map, token MAC not bound to another address), fewer clients than the limit are
    connected, and the session's fields are exactly those of the opened token. -/
def Created (a : AEAD) (s : NetcodeServer) (addr : Addr) (buf : Bytes) (p' : Connection) : Prop :=
  ∃ v pid expire xnonce data t,
    (Packet.decode a buf s.protocolId none none).1 = .ok (0, .connectionRequest v pid expire xnonce data) ∧
    Accepted a s addr v pid expire xnonce data t ∧ countConnected s.clients < s.maxClients ∧
    p' = mkPending s.currentTime addr expire t

theorem hcr_pending {a : AEAD} {s : NetcodeServer} {addr : Addr} {v : Bytes} {pid expire : Nat} {xnonce data : Bytes}
    {R : NetcodeServer.SRes} {r : ServerResult} {s' : NetcodeServer}
    (ho : HcrOut a s addr v pid expire xnonce data R) (hr : HcrRes R r s') {x : Addr} {p' : Connection}
    (hp : pendingFind s'.pendingClients x = some p') :
    pendingFind s.pendingClients x = some p' ∨
    (x = addr ∧ ∃ t, Accepted a s addr v pid expire xnonce data t ∧ countConnected s.clients < s.maxClients ∧
      p' = mkPending s.currentTime addr expire t) := by
  cases ho with
  | err e => rcases hr with h | ⟨rfl, e', h⟩ <;> cases h; exact Or.inl hp
  | none => rcases hr with h | ⟨rfl, e', h⟩ <;> cases h; exact Or.inl hp
  | deniedErr t s1 e hacc hstep hfull =>
    rcases hr with h | ⟨rfl, e', h⟩ <;> cases h
    left
    simp only [pendingFind_filter_ne, (entryStep_fields hstep).2.1] at hp
    split at hp
    · cases hp
    · exact hp
  | denied t s1 out hacc hstep hfull hen =>
    rcases hr with h | ⟨rfl, e', h⟩ <;> cases h
    left
    simp only [pendingFind_filter_ne, (entryStep_fields hstep).2.1] at hp
    split at hp
    · cases hp
    · exact hp
  | challengeErr t s1 e hacc hstep hfull =>
    rcases hr with h | ⟨rfl, e', h⟩ <;> cases h
    left
    simpa only [(entryStep_fields hstep).2.1] using hp
  | challenge t s1 pkt out hacc hstep hfull hgen hen =>
    rcases hr with h | ⟨rfl, e', h⟩ <;> cases h
    simp only [pendingFind_set, (entryStep_fields hstep).2.1] at hp
    split at hp
    · rename_i hx
      cases hp
      exact Or.inr ⟨hx, t, hacc, hfull, rfl⟩
    · exact Or.inl hp

theorem ident_touched (p : Connection) (w : RP) (now : Nat) : ident (touched p w now) = ident p := rfl

/-- `Accepted` for the server whose half-open session of `addr` was only touched -/
theorem accepted_of_touched {a : AEAD} {s : NetcodeServer} {addr : Addr} {p q : Connection}
    (hpf : pendingFind s.pendingClients addr = some p) {v : Bytes} {pid expire : Nat} {xnonce data : Bytes}
    {t : PrivateConnectToken}
    (h : Accepted a { s with pendingClients := pendingSet s.pendingClients addr q } addr v pid expire xnonce data t) :
    Accepted a s addr v pid expire xnonce data t := by
  obtain ⟨h1, h2, h3, h4, h5, h6, h7, h8, h9⟩ := h
  refine ⟨h1, h2, h3, h4, h5, h6, h7, Or.inl (by rw [hpf]; rfl), ?_⟩
  rw [← h9]
  exact (findOrAdd_snd_congr (s := s) (s2 := { s with pendingClients := pendingSet s.pendingClients addr q }) rfl _).symm

/-- **`pending_only_if`**: after `process_packet`, every half-open session either was there before (same identity: id,
    address, user data, keys, timeout, expiry — only its window / receive timer may have moved) or was created by this
    very datagram, which then is an accepted connection request from that address (`Created`). -/
theorem pending_only_if {a : AEAD} {s s' : NetcodeServer} {addr : Addr} {buf : Bytes} {r : ServerResult}
    (hi : ServerInv s) (h : s.processPacket a addr buf = .ok (r, s')) {x : Addr} {p' : Connection}
    (hp : pendingFind s'.pendingClients x = some p') :
    (∃ p, pendingFind s.pendingClients x = some p ∧ ident p' = ident p) ∨ (x = addr ∧ Created a s addr buf p') := by
  have ho := pp_ok hi h
  cases ho with
  | short _ => exact Or.inl ⟨p', hp, rfl⟩
  | connErr i c e w' hfa hdec => exact Or.inl ⟨p', hp, rfl⟩
  | connDisconnect i c sq w' hfa hdec => exact Or.inl ⟨p', hp, rfl⟩
  | connPayload i c sq p w' hfa hdec => exact Or.inl ⟨p', hp, rfl⟩
  | connKeepAlive i c sq ci mc w' hfa hdec => exact Or.inl ⟨p', hp, rfl⟩
  | connOther i c sq pk w' hfa hdec _ _ _ => exact Or.inl ⟨p', hp, rfl⟩
  | pendErr p e w' hfa hpf hdec =>
    simp only [pendingFind_set] at hp
    split at hp
    · rename_i hx; cases hp; subst hx; exact Or.inl ⟨p, hpf, rfl⟩
    · exact Or.inl ⟨p', hp, rfl⟩
  | pendRequest p sq v pid expire xnonce data w' R _ _ hfa hpf hdec hout hres =>
    rcases hcr_pending hout hres hp with hp | ⟨hx, t, hacc, hlt, rfl⟩
    · simp only [pendingFind_set] at hp
      split at hp
      · rename_i hx; cases hp; subst hx; exact Or.inl ⟨p, hpf, rfl⟩
      · exact Or.inl ⟨p', hp, rfl⟩
    · refine Or.inr ⟨hx, v, pid, expire, xnonce, data, t, ?_, accepted_of_touched hpf hacc, hlt, rfl⟩
      rw [(decode_request_indep hdec none none).1]
  | pendOther p sq pk w' hfa hpf hdec _ _ =>
    simp only [pendingFind_set] at hp
    split at hp
    · rename_i hx; cases hp; subst hx; exact Or.inl ⟨p, hpf, rfl⟩
    · exact Or.inl ⟨p', hp, rfl⟩
  | respRejected p sq ts td w' hfa hpf hdec _ =>
    simp only [pendingFind_set] at hp
    split at hp
    · rename_i hx; cases hp; subst hx; exact Or.inl ⟨p, hpf, rfl⟩
    · exact Or.inl ⟨p', hp, rfl⟩
  | respDropped p sq ts td w' hfa hpf hdec _ =>
    simp only [pendingFind_filter_ne] at hp
    split at hp
    · cases hp
    · exact Or.inl ⟨p', hp, rfl⟩
  | respFull p sq ts td w' out hfa hpf hdec _ _ _ _ =>
    simp only [pendingFind_filter_ne] at hp
    split at hp
    · cases hp
    · exact Or.inl ⟨p', hp, rfl⟩
  | respConnected p sq ts td w' i out hfa hpf hdec hct hid hff hen =>
    simp only [pendingFind_filter_ne] at hp
    split at hp
    · cases hp
    · exact Or.inl ⟨p', hp, rfl⟩
  | newErr e hfa hpf hdec => exact Or.inl ⟨p', hp, rfl⟩
  | newRequest sq v pid expire xnonce data R _ _ hfa hpf hdec hout hres =>
    rcases hcr_pending hout hres hp with hp | ⟨hx, t, hacc, hlt, rfl⟩
    · exact Or.inl ⟨p', hp, rfl⟩
    · refine Or.inr ⟨hx, v, pid, expire, xnonce, data, t, ?_, hacc, hlt, rfl⟩
      have hd : Packet.decode a buf s.protocolId none none =
          (.ok (sq, .connectionRequest v pid expire xnonce data), (Packet.decode a buf s.protocolId none none).2) := by
        rw [← hdec]
      rw [(decode_request_indep hd none none).1]

/-! ## Part 8 : every wrong request / response ends without a session -/

/-- a request that is not `Accepted` changes nothing: `handle_connection_request` returns `Ok(None)` or an error,
    with the server state as it was -/
theorem hcr_rejects {a : AEAD} {s : NetcodeServer} {addr : Addr} {v : Bytes} {pid expire : Nat} {xnonce data : Bytes}
    (hd : C.NETCODE_MAC_BYTES ≤ data.length) (hno : ∀ t, ¬ Accepted a s addr v pid expire xnonce data t) :
    NetcodeServer.handleConnectionRequest a s addr v pid expire xnonce data = .ok (.none, s) ∨
    ∃ e, NetcodeServer.handleConnectionRequest a s addr v pid expire xnonce data = .err (e, s) := by
  rcases hcr_spec a s addr v pid expire xnonce data hd with ho | ⟨_, ⟨t, ht⟩, _⟩
  · generalize NetcodeServer.handleConnectionRequest a s addr v pid expire xnonce data = R at ho
    cases ho with
    | err e => exact Or.inr ⟨e, rfl⟩
    | none => exact Or.inl rfl
    | deniedErr t s1 e hacc => exact absurd hacc (hno t)
    | denied t s1 out hacc => exact absurd hacc (hno t)
    | challengeErr t s1 e hacc => exact absurd hacc (hno t)
    | challenge t s1 pkt out hacc => exact absurd hacc (hno t)
  · exact absurd ht (hno t)

/-- the exact answers for the three header checks -/
theorem hcr_invalid_version {a : AEAD} {s : NetcodeServer} {addr : Addr} {v : Bytes} {pid expire : Nat}
    {xnonce data : Bytes} (h : v ≠ C.NETCODE_VERSION_INFO) :
    NetcodeServer.handleConnectionRequest a s addr v pid expire xnonce data = .err (.invalidVersion, s) := by
  unfold NetcodeServer.handleConnectionRequest; rw [if_pos h]

theorem hcr_invalid_protocol {a : AEAD} {s : NetcodeServer} {addr : Addr} {pid expire : Nat}
    {xnonce data : Bytes} (h : pid ≠ s.protocolId) :
    NetcodeServer.handleConnectionRequest a s addr C.NETCODE_VERSION_INFO pid expire xnonce data =
      .err (.invalidProtocolID, s) := by
  unfold NetcodeServer.handleConnectionRequest; rw [if_neg (by simp), if_pos h]

theorem hcr_expired {a : AEAD} {s : NetcodeServer} {addr : Addr} {expire : Nat} {xnonce data : Bytes}
    (h : expire ≤ asSecs s.currentTime) :
    NetcodeServer.handleConnectionRequest a s addr C.NETCODE_VERSION_INFO s.protocolId expire xnonce data =
      .err (.expired, s) := by
  unfold NetcodeServer.handleConnectionRequest; rw [if_neg (by simp), if_neg (by simp), if_pos h]

/-- tampered token / foreign key / foreign protocol id or expiry in the AAD: the AEAD does not open ⇒ `CryptoError` -/
theorem hcr_crypto_error {a : AEAD} {s : NetcodeServer} {addr : Addr} {expire : Nat} {xnonce data : Bytes}
    (hx : asSecs s.currentTime < expire) (hd : C.NETCODE_MAC_BYTES ≤ data.length)
    (h : a.xopen s.connectKey xnonce (PrivateConnectToken.additionalData s.protocolId expire) data = none) :
    NetcodeServer.handleConnectionRequest a s addr C.NETCODE_VERSION_INFO s.protocolId expire xnonce data =
      .err (.tokenGenerationError .cryptoError, s) := by
  unfold NetcodeServer.handleConnectionRequest PrivateConnectToken.decode
  rw [if_neg (by simp), if_neg (by simp), if_neg (by omega), if_neg (by omega), h]

theorem not_accepted_expired {a : AEAD} {s : NetcodeServer} {addr : Addr} {v : Bytes} {pid expire : Nat}
    {xnonce data : Bytes} (h : expire ≤ asSecs s.currentTime) (t : PrivateConnectToken) :
    ¬ Accepted a s addr v pid expire xnonce data t := fun ha => by have := ha.unexpired; omega

theorem not_accepted_protocol {a : AEAD} {s : NetcodeServer} {addr : Addr} {v : Bytes} {pid expire : Nat}
    {xnonce data : Bytes} (h : pid ≠ s.protocolId) (t : PrivateConnectToken) :
    ¬ Accepted a s addr v pid expire xnonce data t := fun ha => h ha.protocol

theorem not_accepted_version {a : AEAD} {s : NetcodeServer} {addr : Addr} {v : Bytes} {pid expire : Nat}
    {xnonce data : Bytes} (h : v ≠ C.NETCODE_VERSION_INFO) (t : PrivateConnectToken) :
    ¬ Accepted a s addr v pid expire xnonce data t := fun ha => h ha.version

/-- the private token does not authenticate under (server key, protocol id, expiry): tampered token or public
    expiry field, token made with another key or for another protocol id -/
theorem not_accepted_xopen {a : AEAD} {s : NetcodeServer} {addr : Addr} {v : Bytes} {pid expire : Nat}
    {xnonce data : Bytes}
    (h : a.xopen s.connectKey xnonce (PrivateConnectToken.additionalData s.protocolId expire) data = none)
    (t : PrivateConnectToken) : ¬ Accepted a s addr v pid expire xnonce data t := fun ha => by
  obtain ⟨p, h1, _⟩ := ha.opens; rw [h] at h1; cases h1

/-- secure mode, and none of the addresses sealed in the token is one of the server's -/
theorem not_accepted_host {a : AEAD} {s : NetcodeServer} {addr : Addr} {v : Bytes} {pid expire : Nat}
    {xnonce data : Bytes} {t : PrivateConnectToken} (hs : s.secure = true) (ht : TokenOpens a s expire xnonce data t)
    (hh : ∀ x, some x ∈ t.serverAddresses → x ∉ s.publicAddresses) (t' : PrivateConnectToken) :
    ¬ Accepted a s addr v pid expire xnonce data t' := fun ha => by
  have := tokenOpens_unique ht ha.opens; subst this
  obtain ⟨x, h1, h2⟩ := ha.host hs
  exact hh x h1 h2

/-- the token's MAC is recorded in the token-entry table with another address -/
theorem not_accepted_bound {a : AEAD} {s : NetcodeServer} {addr : Addr} {v : Bytes} {pid expire : Nat}
    {xnonce data : Bytes} (hi : ServerInv s) {e : ConnectTokenEntry} (he : some e ∈ s.connectTokenEntries)
    (hm : e.mac = tokenMac data) (ha : e.address ≠ addr) (t : PrivateConnectToken) :
    ¬ Accepted a s addr v pid expire xnonce data t := fun hacc => by
  have := hacc.binding
  rw [findOrAdd_other_addr hi.entries he hm ha] at this
  cases this

theorem req_decode {a : AEAD} {buf : Bytes} {pid : Nat} {v : Bytes} {pi e : Nat} {x d : Bytes}
    (h : (Packet.decode a buf pid none none).1 = .ok (0, .connectionRequest v pi e x d)) (key : Option Bytes)
    (rp : Option RP) : Packet.decode a buf pid key rp = (.ok (0, .connectionRequest v pi e x d), rp) := by
  have hd : Packet.decode a buf pid none none =
      (.ok (0, .connectionRequest v pi e x d), (Packet.decode a buf pid none none).2) := by rw [← h]
  exact (decode_request_indep hd key rp).1

/-- **A connection request that fails any check of `Accepted`** (expired, wrong protocol id, token not authentic under
    the server's key, no listed address is the server's, token bound to another address, already connected, …)
    **produces no result, no session, and no half-open session**: the connected sessions are as before and every
    half-open session was there before with the same identity. -/
theorem processPacket_rejects {a : AEAD} {s s' : NetcodeServer} {addr : Addr} {buf : Bytes} {r : ServerResult}
    (hi : ServerInv s) (h : s.processPacket a addr buf = .ok (r, s')) {v : Bytes} {pid expire : Nat}
    {xnonce data : Bytes}
    (hdec : (Packet.decode a buf s.protocolId none none).1 = .ok (0, .connectionRequest v pid expire xnonce data))
    (hno : ∀ t, ¬ Accepted a s addr v pid expire xnonce data t) :
    r = .none ∧ sessions s'.clients = sessions s.clients ∧
    ∀ y p', pendingFind s'.pendingClients y = some p' → ∃ p, pendingFind s.pendingClients y = some p ∧ ident p' = ident p := by
  have hpend : ∀ y p', pendingFind s'.pendingClients y = some p' →
      ∃ p, pendingFind s.pendingClients y = some p ∧ ident p' = ident p := by
    intro y p' hp
    rcases pending_only_if hi h hp with h1 | ⟨_, v', pid', e', x', d', t, hd', hacc, _⟩
    · exact h1
    · rw [hdec] at hd'; cases hd'; exact absurd hacc (hno t)
  have hrq := req_decode hdec
  have ho := pp_ok hi h
  have hreject : ∀ {s0 : NetcodeServer} {R : NetcodeServer.SRes} {r : ServerResult} {s' : NetcodeServer},
      (∀ t, ¬ Accepted a s0 addr v pid expire xnonce data t) → HcrOut a s0 addr v pid expire xnonce data R →
      HcrRes R r s' → r = .none ∧ s' = s0 := by
    intro s0 R r s' hno' hout hres
    cases hout with
    | err e => rcases hres with h | ⟨rfl, e', h⟩ <;> cases h; exact ⟨rfl, rfl⟩
    | none => rcases hres with h | ⟨rfl, e', h⟩ <;> cases h; exact ⟨rfl, rfl⟩
    | deniedErr t s1 e hacc => exact absurd hacc (hno' t)
    | denied t s1 out hacc => exact absurd hacc (hno' t)
    | challengeErr t s1 e hacc => exact absurd hacc (hno' t)
    | challenge t s1 pkt out hacc => exact absurd hacc (hno' t)
  refine ⟨?_, ?_, hpend⟩
  · cases ho with
    | short _ => rfl
    | connErr i c e w' hfa hdec' => rfl
    | connDisconnect i c sq w' hfa hdec' => rw [hrq] at hdec'; cases hdec'
    | connPayload i c sq p w' hfa hdec' => rw [hrq] at hdec'; cases hdec'
    | connKeepAlive i c sq ci mc w' hfa hdec' => rfl
    | connOther i c sq pk w' hfa hdec' _ _ _ => rfl
    | pendErr p e w' hfa hpf hdec' => rfl
    | pendRequest p sq v' pid' expire' xnonce' data' w' R _ _ hfa hpf hdec' hout hres =>
      rw [hrq] at hdec'; cases hdec'
      exact (hreject (fun t ht => hno t (accepted_of_touched hpf ht)) hout hres).1
    | pendOther p sq pk w' hfa hpf hdec' _ _ => rfl
    | respRejected p sq ts td w' hfa hpf hdec' _ => rfl
    | respDropped p sq ts td w' hfa hpf hdec' _ => rfl
    | respFull p sq ts td w' out hfa hpf hdec' _ _ _ _ => rw [hrq] at hdec'; cases hdec'
    | respConnected p sq ts td w' i out hfa hpf hdec' hct hid hff hen => rw [hrq] at hdec'; cases hdec'
    | newErr e hfa hpf hdec' => rfl
    | newRequest sq v' pid' expire' xnonce' data' R _ _ hfa hpf hdec' hout hres =>
      rw [hdec] at hdec'; cases hdec'
      exact (hreject hno hout hres).1
  · have hst := ppOut_step hi ho
    cases ho with
    | connDisconnect i c sq w' hfa hdec' => rw [hrq] at hdec'; cases hdec'
    | respConnected p sq ts td w' i out hfa hpf hdec' hct hid hff hen => rw [hrq] at hdec'; cases hdec'
    | pendRequest p sq v' pid' expire' xnonce' data' w' R _ _ hfa hpf hdec' hout hres =>
      rw [(hcr_clients hout hres).1]
    | newRequest sq v' pid' expire' xnonce' data' R _ _ hfa hpf hdec' hout hres =>
      rw [(hcr_clients hout hres).1]
    | _ => exact hst

/-- **`token_address_binding_partial`** — a token whose MAC is still recorded in the token-entry table with address
    `e.address` is refused from every other address: no result, no session, no half-open session.
    MISSING for the full clause "a token already used from a different address never connects": the table holds
    `NETCODE_TOKEN_ENTRIES` = 2048 entries and `find_or_add_connect_token_entry` overwrites the oldest one when it is
    full (see `binding_lost_when_full`), so after 2048 *other* tokens have been accepted the binding of an unexpired
    token is forgotten and the token is accepted from a new address (the entries carry no expiry, and eviction does
    not look at it). -/
theorem token_address_binding_partial {a : AEAD} {s s' : NetcodeServer} {addr : Addr} {buf : Bytes} {r : ServerResult}
    (hi : ServerInv s) (h : s.processPacket a addr buf = .ok (r, s')) {v : Bytes} {pid expire : Nat}
    {xnonce data : Bytes}
    (hdec : (Packet.decode a buf s.protocolId none none).1 = .ok (0, .connectionRequest v pid expire xnonce data))
    {e : ConnectTokenEntry} (he : some e ∈ s.connectTokenEntries) (hm : e.mac = tokenMac data) (ha : e.address ≠ addr) :
    r = .none ∧ sessions s'.clients = sessions s.clients ∧
    ∀ y p', pendingFind s'.pendingClients y = some p' → ∃ p, pendingFind s.pendingClients y = some p ∧ ident p' = ident p :=
  processPacket_rejects hi h hdec (not_accepted_bound hi he hm ha)

/-- responses carrying anything but the matching challenge never produce a connection -/
theorem response_needs_matching_challenge {a : AEAD} {s s' : NetcodeServer} {addr : Addr} {buf : Bytes}
    {r : ServerResult} (hi : ServerInv s) (h : s.processPacket a addr buf = .ok (r, s'))
    (hbad : ∀ p sq ts td w', pendingFind s.pendingClients addr = some p →
      Packet.decode a buf s.protocolId (some p.receiveKey) (some p.replayProtection) = (.ok (sq, .response ts td), some w') →
      ChallengeToken.decode a td ts s.challengeKey ≠ .ok ⟨p.clientId, p.userData⟩) :
    ∀ id ad ud ka, r ≠ .clientConnected id ad ud ka := by
  intro id ad ud ka hr
  subst hr
  obtain ⟨_, p, sq, ts, td, w', i, hpf, h1, h2, _, _, _, hdec, hct, _⟩ := connected_only_if hi h
  exact hbad p sq ts td w' hpf hdec (by rw [h1, h2]; exact hct)

/-- no half-open session for the source address ⇒ no connection, whatever the datagram -/
theorem no_pending_no_connection {a : AEAD} {s s' : NetcodeServer} {addr : Addr} {buf : Bytes} {r : ServerResult}
    (hi : ServerInv s) (h : s.processPacket a addr buf = .ok (r, s'))
    (hnp : pendingFind s.pendingClients addr = none) : ∀ id ad ud ka, r ≠ .clientConnected id ad ud ka := by
  intro id ad ud ka hr
  subst hr
  obtain ⟨_, p, _, _, _, _, _, hpf, _⟩ := connected_only_if hi h
  rw [hnp] at hpf; cases hpf

/-! ### what is missing from the token-to-address binding -/

theorem scan_cons (mac : Bytes) (x : Option ConnectTokenEntry) (rest : Entries) (k : Nat)
    (st : NetcodeServer.EntryScan) :
    ∃ st', NetcodeServer.scanEntries mac (x :: rest) k st = NetcodeServer.scanEntries mac rest (k + 1) st' ∧
      (st'.oldestEntry = st.oldestEntry ∨ st'.oldestEntry = k) := by
  cases x with
  | none =>
    simp only [NetcodeServer.scanEntries]
    split
    · exact ⟨_, rfl, Or.inr rfl⟩
    · exact ⟨_, rfl, Or.inl rfl⟩
  | some e0 =>
    simp only [NetcodeServer.scanEntries]
    by_cases hm : e0.mac = mac
    · simp only [hm, if_true]
      split
      · exact ⟨_, rfl, Or.inr rfl⟩
      · exact ⟨_, rfl, Or.inl rfl⟩
    · simp only [hm, if_false]
      split
      · exact ⟨_, rfl, Or.inr rfl⟩
      · exact ⟨_, rfl, Or.inl rfl⟩

theorem scanEntries_oldest (mac : Bytes) : ∀ (es : Entries) (k : Nat) (st : NetcodeServer.EntryScan),
    (NetcodeServer.scanEntries mac es k st).oldestEntry = st.oldestEntry ∨
    (k ≤ (NetcodeServer.scanEntries mac es k st).oldestEntry ∧
      (NetcodeServer.scanEntries mac es k st).oldestEntry < k + es.length)
  | [], k, st => Or.inl rfl
  | x :: rest, k, st => by
    obtain ⟨st', he, hst'⟩ := scan_cons mac x rest k st
    rw [he, List.length_cons]
    rcases scanEntries_oldest mac rest (k + 1) st' with h | h
    · rcases hst' with h' | h'
      · left; rw [h, h']
      · right; rw [h, h']; omega
    · right; omega

/-- **The binding is lost when the table is full.**  If no entry carries the new token's MAC, the new entry is written
    over an existing index `k`; when that slot was occupied by `e_old`, `e_old.mac` is no longer in the table
    (MACs are distinct), so a later request carrying the token of `e_old` from *any* address passes the
    token-to-address check again. -/
theorem binding_lost_when_full {s : NetcodeServer} (hi : ServerInv s) {ne : ConnectTokenEntry}
    (hn : ∀ e, some e ∈ s.connectTokenEntries → e.mac ≠ ne.mac) (hfull : ∀ x ∈ s.connectTokenEntries, x ≠ none) :
    ∃ k e_old, s.connectTokenEntries[k]? = some (some e_old) ∧
      s.findOrAddConnectTokenEntry ne = ({ s with connectTokenEntries := s.connectTokenEntries.set k (some ne) }, true) ∧
      (∀ e, some e ∈ (s.findOrAddConnectTokenEntry ne).1.connectTokenEntries → e.mac ≠ e_old.mac) ∧
      ∀ addr', ((s.findOrAddConnectTokenEntry ne).1.findOrAddConnectTokenEntry ⟨s.currentTime, addr', e_old.mac⟩).2 = true := by
  have hlen := hi.entriesPos
  have hk := scanEntries_oldest ne.mac s.connectTokenEntries 0 ⟨DURATION_MAX, 0, false, none⟩
  have hs := scanEntries_spec ne.mac s.connectTokenEntries 0 ⟨DURATION_MAX, 0, false, none⟩
  have hnone : (NetcodeServer.scanEntries ne.mac s.connectTokenEntries 0 ⟨DURATION_MAX, 0, false, none⟩).matchingEntry = none := by
    cases hm : (NetcodeServer.scanEntries ne.mac s.connectTokenEntries 0 ⟨DURATION_MAX, 0, false, none⟩).matchingEntry with
    | none => rfl
    | some e =>
      rcases hs.1 e hm with h | h
      · cases h
      · exact absurd h.2 (hn e h.1)
  generalize hkk : (NetcodeServer.scanEntries ne.mac s.connectTokenEntries 0 ⟨DURATION_MAX, 0, false, none⟩).oldestEntry = k at hk
  have hklt : k < s.connectTokenEntries.length := by
    rcases hk with h | h
    · simp only at h; rw [h]; exact hlen
    · omega
  have heq : s.findOrAddConnectTokenEntry ne =
      ({ s with connectTokenEntries := s.connectTokenEntries.set k (some ne) }, true) := by
    unfold NetcodeServer.findOrAddConnectTokenEntry
    simp only [hnone, hkk]
  cases hold : s.connectTokenEntries[k]? with
  | none => rw [List.getElem?_eq_none_iff] at hold; omega
  | some x =>
    cases x with
    | none => exact absurd rfl (hfull none (List.mem_iff_getElem?.mpr ⟨k, hold⟩))
    | some e_old =>
      have hgone : ∀ e, some e ∈ s.connectTokenEntries.set k (some ne) → e.mac ≠ e_old.mac := by
        intro e he
        obtain ⟨j, hj⟩ := List.mem_iff_getElem?.mp he
        rw [List.getElem?_set] at hj
        by_cases hkj : k = j
        · rw [if_pos hkj, if_pos hklt] at hj
          cases hj
          exact fun e' => hn e_old (List.mem_iff_getElem?.mpr ⟨k, hold⟩) e'.symm
        · rw [if_neg hkj] at hj
          have hne := hkj
          intro e'
          exact hne (hi.entries k j e_old e hold hj e'.symm)
      refine ⟨k, e_old, hold, heq, ?_, ?_⟩
      · rw [heq]; exact hgone
      · intro addr'
        rw [heq]
        rcases findOrAdd_spec { s with connectTokenEntries := s.connectTokenEntries.set k (some ne) }
            ⟨s.currentTime, addr', e_old.mac⟩ with ⟨e, he, hm, _⟩ | ⟨_, k', h'⟩
        · exact absurd hm (hgone e he)
        · rw [h']

/-! ## Part 8b : the whole story of a connection — request accepted earlier, response now -/

/-- a datagram handed to `process_packet`, together with the server state it met -/
structure Arrival where
  s : NetcodeServer
  addr : Addr
  buf : Bytes

def arrivalOf (s : NetcodeServer) : Op → List Arrival
  | .packet addr buf => [⟨s, addr, buf⟩]
  | _ => []

/-- reachable states with the history of the datagrams processed so far -/
inductive ReachH (a : AEAD) : NetcodeServer → List Arrival → Prop
  | init {s : NetcodeServer} : EmptyServer s → ReachH a s []
  | step {s s' : NetcodeServer} {hist : List Arrival} {op : Op} {r : ServerResult} :
      ReachH a s hist → step a s op = some (r, s') → ReachH a s' (hist ++ arrivalOf s op)

theorem ReachH.reach {a : AEAD} {s : NetcodeServer} {hist : List Arrival} (h : ReachH a s hist) :
    ∃ log, Reach a s log := by
  induction h with
  | init h => exact ⟨[], .init h⟩
  | step _ hs ih => obtain ⟨log, hl⟩ := ih; exact ⟨_, .step hl hs⟩

theorem ReachH.inv {a : AEAD} {s : NetcodeServer} {hist : List Arrival} (h : ReachH a s hist) : ServerInv s := by
  obtain ⟨log, hl⟩ := h.reach; exact hl.inv

theorem pendingFind_of_mem {m : Pending} (hnd : (m.map (·.1)).Nodup) {x : Addr} {p : Connection} (h : (x, p) ∈ m) :
    pendingFind m x = some p := by
  induction m with
  | nil => cases h
  | cons q rest ih =>
    obtain ⟨a0, c0⟩ := q
    simp only [List.map_cons, List.nodup_cons, List.mem_map, not_exists, not_and] at hnd
    simp only [List.mem_cons, Prod.mk.injEq] at h
    simp only [pendingFind]
    rcases h with ⟨rfl, rfl⟩ | h
    · simp
    · have : ¬ a0 = x := fun e => hnd.1 (x, p) h e.symm
      rw [if_neg this]
      exact ih hnd.2 h

/-- every operation: a half-open session was there before (same identity) or is created by this datagram -/
theorem step_pending {a : AEAD} {s s' : NetcodeServer} {op : Op} {r : ServerResult} (hi : ServerInv s)
    (h : step a s op = some (r, s')) {x : Addr} {p' : Connection} (hp : pendingFind s'.pendingClients x = some p') :
    (∃ p, pendingFind s.pendingClients x = some p ∧ ident p' = ident p) ∨
    (∃ buf, op = .packet x buf ∧ Created a s x buf p') := by
  cases op with
  | packet addr buf =>
    simp only [step] at h
    cases hpp : s.processPacket a addr buf with
    | ok y =>
      rw [hpp] at h; cases h
      rcases pending_only_if hi hpp hp with h1 | ⟨rfl, h2⟩
      · exact Or.inl h1
      · exact Or.inr ⟨buf, rfl, h2⟩
    | err e => exact e.elim
    | panic m => rw [hpp] at h; cases h
  | update d =>
    simp only [step] at h
    cases hpp : s.update d with
    | ok y =>
      rw [hpp] at h; cases h
      rw [update_ok hpp] at hp
      have hm := (List.mem_filter.mp (pendingFind_mem hp)).1
      exact Or.inl ⟨p', pendingFind_of_mem hi.pendKeys hm, rfl⟩
    | err e => exact e.elim
    | panic m => rw [hpp] at h; cases h
  | updateClient id =>
    simp only [step] at h
    cases hpp : s.updateClient a id with
    | ok y =>
      rw [hpp] at h; cases h
      cases hf : findClientSlotById s.clients id with
      | none => rw [updateClient_absent a hf] at hpp; cases hpp; exact Or.inl ⟨p', hp, rfl⟩
      | some i =>
        obtain ⟨c, hc, hid, _⟩ := findSlot_some hf
        rcases updateClient_spec a hi hf hc with ⟨_, o, e⟩ | ⟨_, e | ⟨out, _, _, e⟩⟩ | ⟨⟨m, e⟩, _⟩ <;>
          (rw [e] at hpp; cases hpp) <;> exact Or.inl ⟨p', hp, rfl⟩
    | err e => exact e.elim
    | panic m => rw [hpp] at h; cases h
  | disconnect id =>
    simp only [step] at h
    cases hpp : s.disconnect a id with
    | ok y =>
      rw [hpp] at h; cases h
      rcases disconnect_spec a s id with ⟨_, e⟩ | ⟨i, c, o, _, _, _, e⟩ <;> (rw [e] at hpp; cases hpp) <;>
        exact Or.inl ⟨p', hp, rfl⟩
    | err e => exact e.elim
    | panic m => rw [hpp] at h; cases h
  | setMaxClients m =>
    simp only [step, Option.some.injEq, Prod.mk.injEq] at h
    rw [← h.2, (setMaxClients_eq s m).2.2.1] at hp
    exact Or.inl ⟨p', hp, rfl⟩
  | sendPayload id pl =>
    simp only [step] at h
    cases hpp : s.generatePayloadPacket a id pl with
    | ok y =>
      obtain ⟨⟨ad, out⟩, s''⟩ := y
      rw [hpp] at h; cases h
      obtain ⟨i, c, _, _, _, _, _, rfl⟩ := generatePayload_ok hpp
      exact Or.inl ⟨p', hp, rfl⟩
    | err e => rw [hpp] at h; cases h; exact Or.inl ⟨p', hp, rfl⟩
    | panic m => rw [hpp] at h; cases h

/-- **every half-open session of a reachable state is certified by an earlier arrival**: a datagram from its address
    that was an accepted connection request for the server state it met, whose token carries the session's identity -/
theorem ReachH.certified {a : AEAD} {s : NetcodeServer} {hist : List Arrival} (h : ReachH a s hist) {x : Addr}
    {p : Connection} (hp : pendingFind s.pendingClients x = some p) :
    ∃ ar ∈ hist, ar.addr = x ∧ ∃ p0, Created a ar.s x ar.buf p0 ∧ ident p = ident p0 := by
  induction h generalizing x p with
  | init h => rw [h.pending] at hp; cases hp
  | @step s s' hist op r hr hs ih =>
    rcases step_pending hr.inv hs hp with ⟨p1, hp1, hid⟩ | ⟨buf, rfl, hc⟩
    · obtain ⟨ar, har, hax, p0, hc, hid0⟩ := ih hp1
      exact ⟨ar, List.mem_append_left _ har, hax, p0, hc, hid.trans hid0⟩
    · exact ⟨⟨s, x, buf⟩, List.mem_append_right _ (by simp [arrivalOf]), rfl, p, hc, rfl⟩

/-- **C05, the positive half.**  If `process_packet` on a reachable server reports `ClientConnected id addr' ud` for
    a datagram from `addr`, then `addr' = addr` and
    * earlier, a datagram `ar.buf` from the same address `addr` reached the server (in state `ar.s`) that was a
      connection request passing every check of `Accepted`: version and protocol id match, `now.secs < expiry`, the
      private token opens under the server's connect key with AAD = version ‖ protocol id ‖ expiry to a token `t`,
      (secure mode) a listed address is one of the server's public addresses, the token's MAC was not bound to
      another address; and fewer than `max_clients` clients were connected;
    * **the reported id and user data are exactly those sealed in that token**: `t.clientId = id`, `t.userData = ud`;
    * the present datagram decodes under that token's client-to-server key to a `Response` whose challenge token
      opens under this server's challenge key to exactly `(id, ud)`. -/
theorem connected_only_after_request {a : AEAD} {s s' : NetcodeServer} {hist : List Arrival} (hr : ReachH a s hist)
    {addr addr' : Addr} {buf ud ka : Bytes} {id : Nat}
    (h : s.processPacket a addr buf = .ok (.clientConnected id addr' ud ka, s')) :
    addr' = addr ∧
    ∃ ar ∈ hist, ar.addr = addr ∧ ∃ v pid expire xnonce data t,
      (Packet.decode a ar.buf ar.s.protocolId none none).1 = .ok (0, .connectionRequest v pid expire xnonce data) ∧
      Accepted a ar.s addr v pid expire xnonce data t ∧ countConnected ar.s.clients < ar.s.maxClients ∧
      t.clientId = id ∧ t.userData = ud ∧
      ∃ sq ts td w' rk, Packet.decode a buf s.protocolId (some t.clientToServerKey) (some rk) =
          (.ok (sq, .response ts td), some w') ∧
        ChallengeToken.decode a td ts s.challengeKey = .ok ⟨id, ud⟩ := by
  obtain ⟨h0, p, sq, ts, td, w', i, hpf, hid, hud, _, _, _, hdec, hct, _⟩ := connected_only_if hr.inv h
  refine ⟨h0, ?_⟩
  obtain ⟨ar, har, hax, p0, ⟨v, pid, expire, xnonce, data, t, hd, hacc, hlt, rfl⟩, hident⟩ := hr.certified hpf
  simp only [ident, mkPending, Ident.mk.injEq] at hident
  refine ⟨ar, har, hax, v, pid, expire, xnonce, data, t, hd, hacc, hlt, by rw [← hid, hident.1], by rw [← hud, hident.2.2.1],
    sq, ts, td, w', p.replayProtection, ?_, hct⟩
  rw [← hident.2.2.2.2.1]; exact hdec

end NS
end RenetVerif.Netcode
