import RenetVerif.Lemmas.SendInvG
namespace RenetVerif
open C SMap

/-! ### process_packet -/

theorem Conn.same_dw {c c2 : Conn} {X : List AckRange} (r : Reason) (h1 : c.SendSame c2) (h2 : c2.pendingAcks = X) :
    c.SendSame (c2.disconnectWith r) ∧ (c2.disconnectWith r).pendingAcks = X := by
  obtain ⟨a, b, -, -⟩ := c2.disconnectWith_same r
  exact ⟨h1.trans a, b.trans h2⟩

/-- the three ways `process_packet` can return normally -/
theorem Conn.processPacket_cases {c c' : Conn} {bytes : Bytes} (hr : c.processPacket bytes = .ok c') :
    (c.SendSame c' ∧ c'.pendingAcks = c.pendingAcks ∧ (c.isDisconnected = true ∨ ∃ e, Packet.fromBytes bytes = .error e)) ∨
    (∃ p, Packet.fromBytes bytes = .ok p ∧ p.isAck = false ∧ c.SendSame c' ∧
      c'.pendingAcks = Acks.add ACK_RANGE_CAP p.sequence c.pendingAcks) ∨
    (∃ aseq ranges L, c.isDisconnected = false ∧ Packet.fromBytes bytes = .ok (.ack aseq ranges) ∧
      Conn.newAcks c.sent ranges = .ok L ∧
      Conn.ackLoop { c with pendingAcks := Acks.add ACK_RANGE_CAP aseq c.pendingAcks } L = .ok c') := by
  unfold Conn.processPacket at hr
  split at hr
  · cases hr; exact Or.inl ⟨Conn.SendSame.refl _, rfl, Or.inl ‹_›⟩
  · rename_i hdis
    split at hr
    · rename_i e he
      cases hr
      obtain ⟨a, b, -, -⟩ := c.disconnectWith_same (.packetDeser e)
      exact Or.inl ⟨a, b, Or.inr ⟨e, he⟩⟩
    · rename_i p hp
      dsimp only at hr
      have base : c.SendSame { c with pendingAcks := Acks.add ACK_RANGE_CAP p.sequence c.pendingAcks } := ⟨rfl, rfl, rfl, rfl, rfl⟩
      split at hr
      iterate 4
        · refine Or.inr (Or.inl ⟨_, hp, rfl, ?_⟩)
          repeat' (first | (cases hr; done) | split at hr)
          all_goals (simp only [Res.ok.injEq] at hr; subst hr)
          trace_state
          all_goals sorry
      · sorry

end RenetVerif
