/-
  Whole-trace lemmas for the model `NetcodeClient` (`Netcode/Client.lean`): the link between the client's STORED replay window
  along a run of API calls (`Cl.COp`: update / generate_payload_packet / disconnect / process_packet with arbitrary bytes, in any
  order, in any client state) and the receive side `Recv.run` (`Lemmas/NcWire.lean`) of the datagrams presented:

    * `pstep` / `prun`: one API call / a run, with the ghost output "datagram and payload surfaced by `process_packet`";
    * `pp_recv`: one `process_packet` call IS one `Recv.step` on the stored window (whatever the client's state);
    * `update_window` / `send_window`: the other calls never touch the window nor the token;
    * `prun_recv`: after a run the stored window is the `Recv` window of the datagrams presented, and the payloads surfaced are
      (in order) among the `Recv` results.
  Used by `Props/C04C.lean`.
-/
import RenetVerif.Lemmas.NcAead
import RenetVerif.Lemmas.NcWire
set_option linter.unusedSimpArgs false
set_option linter.unusedVariables false
namespace RenetVerif.NcClientTrace
open RenetVerif RenetVerif.Netcode RenetVerif.Netcode.Packet RenetVerif.Netcode.NetcodeClient RenetVerif.NcAead

/-! ## the calls other than `process_packet` leave window and token alone -/

theorem uis_window {c c1 : NetcodeClient} {d : Nat} {e : Option NetcodeError}
    (h : updateInternalState c d = .ok (e, c1)) : c1.replayProtection = c.replayProtection := by
  unfold updateInternalState at h
  rw [Res.bind_eq_ok] at h
  obtain ⟨now, h1, h⟩ := h
  rw [Res.bind_eq_ok] at h
  obtain ⟨timedOut, h2, h⟩ := h
  simp only at h
  clear h1 h2
  cases hst : c.state with
  | disconnected r =>
    rw [hst] at h; simp only [pure, Res.ok.injEq, Prod.mk.injEq] at h
    obtain ⟨rfl, rfl⟩ := h
    rfl
  | connected =>
    rw [hst] at h; simp only at h
    split at h <;> (cases h; rfl)
  | sendingConnectionRequest =>
    rw [hst] at h; simp only at h
    rw [Res.bind_eq_ok] at h
    obtain ⟨elapsed, _, h⟩ := h
    split at h
    · cases h; rfl
    · split at h
      · split at h
        · cases h; rfl
        · split at h
          · cases h
          · cases h; rfl
          · cases h; rfl
      · cases h; rfl
  | sendingConnectionResponse =>
    rw [hst] at h; simp only at h
    rw [Res.bind_eq_ok] at h
    obtain ⟨elapsed, _, h⟩ := h
    split at h
    · cases h; rfl
    · split at h
      · split at h
        · cases h; rfl
        · split at h
          · cases h
          · cases h; rfl
          · cases h; rfl
      · cases h; rfl

theorem gen_window {a : AEAD} {c c' : NetcodeClient} {o : Option (Bytes × Addr)}
    (h : generatePacket a c = .ok (o, c')) : c'.replayProtection = c.replayProtection := by
  unfold generatePacket at h
  rw [Res.bind_eq_ok] at h
  obtain ⟨tooSoon, _, h⟩ := h
  split at h
  · cases h; rfl
  · simp only at h
    cases hst : c.state with
    | disconnected r =>
      simp only [hst, Bool.false_eq_true, ↓reduceIte] at h
      cases h; rfl
    | connected =>
      simp only [hst, Bool.false_eq_true, ↓reduceIte] at h
      split at h
      · cases h
      · cases h; rfl
      · rw [Res.bind_eq_ok] at h
        obtain ⟨sq, hsq, h⟩ := h
        cases h; rfl
    | sendingConnectionRequest =>
      simp only [hst, Bool.false_eq_true, ↓reduceIte] at h
      split at h
      · cases h
      · cases h; rfl
      · rw [Res.bind_eq_ok] at h
        obtain ⟨sq, hsq, h⟩ := h
        cases h; rfl
    | sendingConnectionResponse =>
      simp only [hst, Bool.false_eq_true, ↓reduceIte] at h
      split at h
      · cases h
      · cases h; rfl
      · rw [Res.bind_eq_ok] at h
        obtain ⟨sq, hsq, h⟩ := h
        cases h; rfl

/-- `update` never touches the replay window nor the token -/
theorem update_window {a : AEAD} {c c' : NetcodeClient} {d : Nat} {o : Option (Bytes × Addr)}
    (h : NetcodeClient.update a c d = .ok (o, c')) :
    c'.replayProtection = c.replayProtection ∧ c'.connectToken = c.connectToken := by
  obtain ⟨e, c1, hu, hh | hh⟩ := Cl.update_eq h
  · obtain ⟨_, _, rfl⟩ := hh
    exact ⟨uis_window hu, (Cl.uis_spec hu).1⟩
  · obtain ⟨rfl, hg⟩ := hh
    exact ⟨by rw [gen_window hg, uis_window hu], by rw [(Cl.gen_spec hg).1, (Cl.uis_spec hu).1]⟩

/-- `generate_payload_packet` never touches the replay window nor the token -/
theorem send_window {a : AEAD} {c c' : NetcodeClient} {pl : Bytes} {r : Addr × Bytes}
    (h : generatePayloadPacket a c pl = .ok (r, c')) :
    c'.replayProtection = c.replayProtection ∧ c'.connectToken = c.connectToken := by
  unfold generatePayloadPacket at h
  split at h
  · cases h
  · split at h
    · cases h
    · rw [Res.bind_eq_ok] at h
      obtain ⟨out', henc, h⟩ := h
      rw [Res.bind_eq_ok] at h
      obtain ⟨sq, hsq, h⟩ := h
      cases h
      exact ⟨rfl, rfl⟩

/-! ## one `process_packet` call is one `Recv.step` on the stored window -/

theorem recv_step_window (a : AEAD) (proto : Nat) (key : Bytes) (st : Recv) (b : Bytes) :
    (Recv.step a proto key st b).window = (decode a b proto (some key) (some st.window)).2.getD st.window := by
  unfold Recv.step
  cases hdec : decode a b proto (some key) (some st.window) with
  | mk r w' => cases r <;> rfl

theorem recv_step_surfaced_suffix (a : AEAD) (proto : Nat) (key : Bytes) (st : Recv) (b : Bytes) :
    st.surfaced.Sublist (Recv.step a proto key st b).surfaced := by
  unfold Recv.step
  cases hdec : decode a b proto (some key) (some st.window) with
  | mk r w' =>
    cases r with
    | ok sp => exact List.sublist_cons_self _ _
    | err e => exact List.Sublist.refl _
    | panic m => exact List.Sublist.refl _

/-- the window `process_packet` stores is the one `decode` returned — in every state, whatever the result -/
theorem pp_window {a : AEAD} {c c' : NetcodeClient} {buf : Bytes} {o : Option Bytes}
    (h : processPacket a c buf = .ok (o, c')) :
    c'.replayProtection = (decode a buf c.connectToken.protocolId (some c.connectToken.serverToClientKey)
      (some c.replayProtection)).2.getD c.replayProtection := by
  unfold processPacket at h
  generalize hdec : Packet.decode a buf c.connectToken.protocolId (some c.connectToken.serverToClientKey)
    (some c.replayProtection) = dr at h ⊢
  obtain ⟨r, rp⟩ := dr
  dsimp only at h ⊢
  cases r with
  | panic m => cases h
  | err e => cases h; rfl
  | ok sp =>
    obtain ⟨seq, packet⟩ := sp
    dsimp only at h
    split at h <;> cases h <;> rfl

/-- **one `process_packet` call is one `Recv.step`**: for any receive-side ghost state `st` carrying the client's stored
    window, after `process_packet(buf)` the stored window is the window of `Recv.step … st buf`, the token is unchanged, and a
    surfaced payload `p` is the newest `Recv` result, with the datagram's own sequence number. -/
theorem pp_recv {a : AEAD} {c c' : NetcodeClient} {buf : Bytes} {o : Option Bytes}
    (h : processPacket a c buf = .ok (o, c')) (st : Recv) (hw : st.window = c.replayProtection) :
    (Recv.step a c.connectToken.protocolId c.connectToken.serverToClientKey st buf).window = c'.replayProtection ∧
    c'.connectToken = c.connectToken ∧
    ∀ p, o = some p →
      (Recv.step a c.connectToken.protocolId c.connectToken.serverToClientKey st buf).surfaced =
        (wireSeq buf, Packet.payload p) :: st.surfaced := by
  refine ⟨?_, (Cl.recv_spec h).1, ?_⟩
  · rw [recv_step_window, hw, pp_window h]
  · intro p hp
    subst hp
    obtain ⟨_, seq, rp', hdec, _⟩ := processPacket_payload_inv a h
    have hseq : seq = wireSeq buf := by
      rcases decode_ok hdec with ⟨_, _, _, _, hpt, _, _⟩ | ⟨k, ty, plain, hk, hso, hd, hs, hr, hw'⟩
      · cases hpt
      · exact hs
    subst hseq
    unfold Recv.step
    rw [hw, hdec]

/-! ## runs -/

/-- one API call with the ghost output "the datagram and the payload `process_packet` surfaced"; `none` = the call unwound -/
def pstep (a : AEAD) (c : NetcodeClient) : Cl.COp → Option (NetcodeClient × Option (Bytes × Bytes))
  | .recv buf =>
    match c.processPacket a buf with
    | .ok (some p, c') => some (c', some (buf, p))
    | .ok (none, c') => some (c', none)
    | _ => none
  | .update d =>
    match c.update a d with
    | .ok (_, c') => some (c', none)
    | _ => none
  | .send pl =>
    match c.generatePayloadPacket a pl with
    | .ok (_, c') => some (c', none)
    | .err _ => some (c, none)
    | .panic _ => none
  | .disconnect =>
    match (NetcodeClient.disconnect a c).1 with
    | .panic _ => none
    | _ => some ((NetcodeClient.disconnect a c).2, none)

/-- a run of API calls: the final client and the (datagram, payload) pairs surfaced, oldest first -/
def prun (a : AEAD) : NetcodeClient → List Cl.COp → Option (NetcodeClient × List (Bytes × Bytes))
  | c, [] => some (c, [])
  | c, op :: ops =>
    match pstep a c op with
    | none => none
    | some (c', o) =>
      match prun a c' ops with
      | none => none
      | some (c'', ps) => some (c'', o.toList ++ ps)

/-- the datagrams a run hands to `process_packet`, in order -/
def recvBufs : List Cl.COp → List Bytes
  | [] => []
  | .recv buf :: ops => buf :: recvBufs ops
  | _ :: ops => recvBufs ops

/-- what a surfaced pair is on the receive side: sequence number of the datagram, `Payload` packet -/
def asSurf (x : Bytes × Bytes) : Nat × Packet := (wireSeq x.1, Packet.payload x.2)

/-- one step against the receive side -/
theorem pstep_recv {a : AEAD} {c c' : NetcodeClient} {op : Cl.COp} {o : Option (Bytes × Bytes)}
    (h : pstep a c op = some (c', o)) (st : Recv) (hw : st.window = c.replayProtection) :
    c'.connectToken = c.connectToken ∧
    ((recvBufs [op]).foldl (Recv.step a c.connectToken.protocolId c.connectToken.serverToClientKey) st).window
      = c'.replayProtection ∧
    ((o.toList.map asSurf).reverse ++ st.surfaced).Sublist
      ((recvBufs [op]).foldl (Recv.step a c.connectToken.protocolId c.connectToken.serverToClientKey) st).surfaced ∧
    (∀ x, o = some x → x.1 ∈ recvBufs [op] ∧ c.state = .connected ∧
      SealedOpen a x.1 c.connectToken.protocolId c.connectToken.serverToClientKey .payload x.2 ∧
      c.replayProtection.alreadyReceived (wireSeq x.1) = false) := by
  cases op with
  | recv buf =>
    simp only [pstep] at h
    cases hp : c.processPacket a buf with
    | ok x =>
      obtain ⟨o', c1⟩ := x
      rw [hp] at h
      obtain ⟨h1, h2, h3⟩ := pp_recv hp st hw
      cases o' with
      | none =>
        simp only [Option.some.injEq, Prod.mk.injEq] at h
        obtain ⟨rfl, rfl⟩ := h
        refine ⟨h2, h1, ?_, fun x hx => nomatch hx⟩
        simp only [Option.toList, List.map_nil, List.reverse_nil, List.nil_append, recvBufs, List.foldl_cons, List.foldl_nil]
        exact recv_step_surfaced_suffix _ _ _ _ _
      | some p =>
        simp only [Option.some.injEq, Prod.mk.injEq] at h
        obtain ⟨rfl, rfl⟩ := h
        refine ⟨h2, h1, ?_, ?_⟩
        · simp only [Option.toList, List.map_cons, List.map_nil, List.reverse_cons, List.reverse_nil, List.nil_append,
            List.singleton_append, recvBufs, List.foldl_cons, List.foldl_nil, h3 p rfl, asSurf]
          exact List.Sublist.refl _
        · intro x hx
          cases hx
          obtain ⟨hst, seq, rp', hdec, _⟩ := processPacket_payload_inv a hp
          rcases decode_ok hdec with ⟨_, _, _, _, hpt, _, _⟩ | ⟨k, ty, plain, hk, hso, hd, hs, hr, hw'⟩
          · cases hpt
          · cases hk
            obtain ⟨_, hpt, _, hpl⟩ := read_ok hr
            have hty : ty = .payload := hpt.symm
            subst hty
            have hpe : p = plain := by have := hpl rfl; cases this; rfl
            subst hpe
            refine ⟨by simp [recvBufs], hst, hso, ?_⟩
            rw [isDup_some] at hd
            subst hs
            simpa [PacketType.applyReplayProtection] using hd
    | err e => exact nomatch e
    | panic m => rw [hp] at h; cases h
  | update d =>
    simp only [pstep] at h
    cases hp : c.update a d with
    | ok x =>
      obtain ⟨o', c1⟩ := x
      rw [hp] at h
      simp only [Option.some.injEq, Prod.mk.injEq] at h
      obtain ⟨rfl, rfl⟩ := h
      obtain ⟨h1, h2⟩ := update_window hp
      exact ⟨h2, by simp only [recvBufs, List.foldl_nil, hw, h1],
        by simp only [Option.toList, List.map_nil, List.reverse_nil, List.nil_append, recvBufs, List.foldl_nil]; exact List.Sublist.refl _,
        fun x hx => nomatch hx⟩
    | err e => exact nomatch e
    | panic m => rw [hp] at h; cases h
  | send pl =>
    simp only [pstep] at h
    cases hp : c.generatePayloadPacket a pl with
    | ok x =>
      obtain ⟨o', c1⟩ := x
      rw [hp] at h
      simp only [Option.some.injEq, Prod.mk.injEq] at h
      obtain ⟨rfl, rfl⟩ := h
      obtain ⟨h1, h2⟩ := send_window hp
      exact ⟨h2, by simp only [recvBufs, List.foldl_nil, hw, h1],
        by simp only [Option.toList, List.map_nil, List.reverse_nil, List.nil_append, recvBufs, List.foldl_nil]; exact List.Sublist.refl _,
        fun x hx => nomatch hx⟩
    | err e =>
      rw [hp] at h
      simp only [Option.some.injEq, Prod.mk.injEq] at h
      obtain ⟨rfl, rfl⟩ := h
      exact ⟨rfl, by simp only [recvBufs, List.foldl_nil, hw],
        by simp only [Option.toList, List.map_nil, List.reverse_nil, List.nil_append, recvBufs, List.foldl_nil]; exact List.Sublist.refl _,
        fun x hx => nomatch hx⟩
    | panic m => rw [hp] at h; cases h
  | disconnect =>
    simp only [pstep] at h
    have hc' : c' = (NetcodeClient.disconnect a c).2 ∧ o = none := by
      split at h
      · cases h
      · simp only [Option.some.injEq, Prod.mk.injEq] at h
        exact ⟨h.1.symm, h.2.symm⟩
    obtain ⟨rfl, rfl⟩ := hc'
    exact ⟨rfl, by simp only [recvBufs, List.foldl_nil, hw]; rfl,
      by simp only [Option.toList, List.map_nil, List.reverse_nil, List.nil_append, recvBufs, List.foldl_nil]; exact List.Sublist.refl _,
      fun x hx => nomatch hx⟩

theorem recvBufs_cons (op : Cl.COp) (ops : List Cl.COp) : recvBufs (op :: ops) = recvBufs [op] ++ recvBufs ops := by
  cases op <;> rfl

theorem foldl_surfaced_suffix (a : AEAD) (proto : Nat) (key : Bytes) (bufs : List Bytes) (st : Recv) :
    st.surfaced.Sublist (bufs.foldl (Recv.step a proto key) st).surfaced := by
  induction bufs generalizing st with
  | nil => exact List.Sublist.refl _
  | cons b bs ih => exact (recv_step_surfaced_suffix a proto key st b).trans (ih _)

/-- **a run against the receive side**: for any receive-side ghost state `st` carrying the client's stored window, after the run
    the token is unchanged, the stored window is the `Recv` window after the datagrams presented, the surfaced pairs (newest
    first, in front of what `st` had) are a sub-list of the `Recv` results, and every surfaced pair is a presented datagram that
    opened under the token's server-to-client key as a `Payload` packet with exactly that plaintext. -/
theorem prun_recv {a : AEAD} : ∀ (ops : List Cl.COp) {c c' : NetcodeClient} {ps : List (Bytes × Bytes)} (st : Recv),
    prun a c ops = some (c', ps) → st.window = c.replayProtection →
    c'.connectToken = c.connectToken ∧
    ((recvBufs ops).foldl (Recv.step a c.connectToken.protocolId c.connectToken.serverToClientKey) st).window
      = c'.replayProtection ∧
    ((ps.map asSurf).reverse ++ st.surfaced).Sublist
      ((recvBufs ops).foldl (Recv.step a c.connectToken.protocolId c.connectToken.serverToClientKey) st).surfaced ∧
    (∀ x ∈ ps, x.1 ∈ recvBufs ops ∧
      SealedOpen a x.1 c.connectToken.protocolId c.connectToken.serverToClientKey .payload x.2) := by
  intro ops
  induction ops with
  | nil =>
    intro c c' ps st h hw
    simp only [prun, Option.some.injEq, Prod.mk.injEq] at h
    obtain ⟨rfl, rfl⟩ := h
    exact ⟨rfl, hw, by simp only [List.map_nil, List.reverse_nil, List.nil_append, recvBufs, List.foldl_nil]; exact List.Sublist.refl _,
      fun x hx => nomatch hx⟩
  | cons op ops ih =>
    intro c c' ps st h hw
    simp only [prun] at h
    cases hs : pstep a c op with
    | none => rw [hs] at h; cases h
    | some y =>
      obtain ⟨c1, o⟩ := y
      rw [hs] at h
      dsimp only at h
      cases hr : prun a c1 ops with
      | none => rw [hr] at h; cases h
      | some z =>
        obtain ⟨c2, ps'⟩ := z
        rw [hr] at h
        simp only [Option.some.injEq, Prod.mk.injEq] at h
        obtain ⟨rfl, rfl⟩ := h
        obtain ⟨s1, s2, s3, s4⟩ := pstep_recv hs st hw
        obtain ⟨r1, r2, r3, r4⟩ := ih _ hr s2
        rw [s1] at r1 r2 r3 r4
        rw [recvBufs_cons, List.foldl_append]
        refine ⟨r1, r2, ?_, ?_⟩
        · refine List.Sublist.trans ?_ r3
          simp only [List.map_append, List.reverse_append, List.append_assoc]
          exact List.Sublist.append (List.Sublist.refl _) s3
        · intro x hx
          rcases List.mem_append.mp hx with hx | hx
          · have hx' : o = some x := by
              cases o with
              | none => cases hx
              | some y => simp only [Option.toList, List.mem_singleton] at hx; rw [hx]
            obtain ⟨m1, _, m3, _⟩ := s4 x hx'
            exact ⟨List.mem_append_left _ m1, m3⟩
          · obtain ⟨m1, m2⟩ := r4 x hx
            exact ⟨List.mem_append_right _ m1, m2⟩

end RenetVerif.NcClientTrace
