/-
  Byte-level decode → re-encode → decode for the two netcode records whose readers do not consume their whole
  buffer: `PrivateConnectToken::read` (1024-byte buffer) and the reader inside `ChallengeToken::decode`
  (300-byte buffer).  Helpers for Props/C16P.lean.

  Part A  inverse codec lemmas: what a successful read says about the bytes it consumed
  Part B  the address array: exact set of byte strings `read_server_addresses` maps to a given array
          (the announced count is clamped to 32 by `.take(n)`, so it is NOT determined when 32 hosts follow)
  Part C  `PrivateConnectToken.read` characterised exactly; the sealed level
  Part D  the challenge token reader characterised exactly; the sealed level

  Namespace `RenetVerif.NcTokenRT`; nothing of the model or of the older lemma files is modified.
-/
import RenetVerif.Lemmas.NcAead
namespace RenetVerif.NcTokenRT
open RenetVerif RenetVerif.Netcode RenetVerif.NcAead RenetVerif.NcAead.Token

/-! ## Part A : inverse codec lemmas -/

theorem readU_eq {n : Nat} {src r : Bytes} {v : Nat} (h : readU n src = some (v, r)) :
    src = leBytes v n ++ r ∧ v < 256 ^ n := by
  obtain ⟨b, h1, h2, h3, h4⟩ := readU_some h
  refine ⟨?_, h4⟩
  rw [h2, h3, ← h1, leBytes_leVal]

theorem i32le_i32OfU32 {v : Nat} (h : v < 2 ^ 32) : i32le (i32OfU32 v) = leBytes v 4 := by
  unfold i32le i32OfU32
  congr 1
  split <;> omega

theorem readI32_eq {src r : Bytes} {t : Int} (h : readI32 src = some (t, r)) : src = i32le t ++ r := by
  unfold readI32 at h
  cases hu : readU 4 src with
  | none => rw [hu] at h; cases h
  | some x =>
    obtain ⟨v, r'⟩ := x
    rw [hu] at h
    simp only [Option.some.injEq, Prod.mk.injEq] at h
    obtain ⟨rfl, rfl⟩ := h
    obtain ⟨h1, h2⟩ := readU_eq hu
    rw [i32le_i32OfU32 (by simpa using h2)]
    exact h1

theorem readN_eq {n : Nat} {src b r : Bytes} (h : readN n src = some (b, r)) : src = b ++ r ∧ b.length = n := by
  obtain ⟨_, _, _, h4, h5⟩ := readN_some h
  exact ⟨h5, h4⟩

/-! ## Part B : the address array -/

/-- the hosts of an address array, in order (what `write_server_addresses` iterates over) -/
def hostsOf (addrs : AddrArray) : List Addr := addrs.filterMap fun x => x

/-- the address section with `num` in the count field instead of the number of hosts -/
def addrsBytesN (addrs : AddrArray) (num : Nat) : Bytes := leBytes num 4 ++ hostsBytes (hostsOf addrs)

theorem addrsBytesN_self (addrs : AddrArray) : addrsBytesN addrs (hostsOf addrs).length = addrsBytes addrs := rfl

/-- the loop, inverted: the entries are well-formed hosts and the bytes consumed are exactly their serialisation -/
theorem readAddrLoop_eq : ∀ (n : Nat) {src r : Bytes} {l : List (Option Addr)}, readAddrLoop n src = some (l, r) →
    ∃ hosts : List Addr, l = hosts.map some ∧ hosts.length = n ∧ (∀ x ∈ hosts, x.WF) ∧ src = hostsBytes hosts ++ r := by
  intro n
  induction n with
  | zero => intro src r l h; simp only [readAddrLoop] at h; cases h; exact ⟨[], rfl, rfl, by simp, rfl⟩
  | succ n ih =>
    intro src r l h
    simp only [readAddrLoop, Option.bind_eq_bind, Option.bind_eq_some_iff, Prod.exists] at h
    obtain ⟨ty, r1, h1, h⟩ := h
    obtain ⟨e1, _⟩ := readU_eq h1
    split at h
    · rename_i hty
      simp only [Option.bind_eq_some_iff, Option.pure_def, Option.some.injEq, Prod.exists, Prod.mk.injEq] at h
      obtain ⟨ip, r2, h2, port, r3, h3, rest, r4, h4, rfl, rfl⟩ := h
      obtain ⟨hosts, rfl, hl, hw, e4⟩ := ih h4
      obtain ⟨e2, l2⟩ := readN_eq h2
      obtain ⟨e3, b3⟩ := readU_eq h3
      refine ⟨.v4 ip port :: hosts, rfl, by simp [hl], ?_, ?_⟩
      · intro x hx
        simp only [List.mem_cons] at hx
        rcases hx with rfl | hx
        · exact ⟨l2, by simpa using b3⟩
        · exact hw x hx
      · rw [e1, e2, e3, e4, hty]; simp [hostsBytes, addrBytes]
    · split at h
      · rename_i hty
        simp only [Option.bind_eq_some_iff, Option.pure_def, Option.some.injEq, Prod.exists, Prod.mk.injEq] at h
        obtain ⟨ip, r2, h2, port, r3, h3, rest, r4, h4, rfl, rfl⟩ := h
        obtain ⟨hosts, rfl, hl, hw, e4⟩ := ih h4
        obtain ⟨e2, l2⟩ := readN_eq h2
        obtain ⟨e3, b3⟩ := readU_eq h3
        refine ⟨.v6 ip port :: hosts, rfl, by simp [hl], ?_, ?_⟩
        · intro x hx
          simp only [List.mem_cons] at hx
          rcases hx with rfl | hx
          · exact ⟨l2, by simpa using b3⟩
          · exact hw x hx
        · rw [e1, e2, e3, e4, hty]; simp [hostsBytes, addrBytes]
      · split at h <;> cases h

theorem hostsOf_compact (hosts : List Addr) (n : Nat) :
    hostsOf (hosts.map some ++ List.replicate n (none : Option Addr)) = hosts := filterMap_compact hosts n

/-- **`read_server_addresses`, inverted.**  The array is prefix-compact; the bytes consumed are a count field `num`
    followed by the serialised hosts, where `num` clamped to 32 is the number of hosts. -/
theorem readServerAddresses_eq {src r : Bytes} {arr : AddrArray} (h : readServerAddresses src = some (arr, r)) :
    Compact arr ∧ ∃ num, num < 2 ^ 32 ∧ min num 32 = (hostsOf arr).length ∧ src = addrsBytesN arr num ++ r := by
  refine ⟨readServerAddresses_compact h, ?_⟩
  unfold readServerAddresses at h
  simp only [Option.bind_eq_bind, Option.bind_eq_some_iff, Prod.exists] at h
  obtain ⟨num, r1, h1, l, r2, h2, h⟩ := h
  obtain ⟨hosts, rfl, hl, hw, e2⟩ := readAddrLoop_eq _ h2
  obtain ⟨e1, b1⟩ := readU_eq h1
  split at h
  · simp only [Option.pure_def, Option.some.injEq, Prod.mk.injEq] at h
    obtain ⟨rfl, rfl⟩ := h
    refine ⟨num, by simpa using b1, ?_, ?_⟩
    · rw [List.length_map, hostsOf_compact, hl]; rfl
    · rw [e1, e2, addrsBytesN, List.length_map, hostsOf_compact, List.append_assoc]
  · cases h

/-- conversely every such byte string is read to the array -/
theorem readServerAddresses_addrsBytesN {addrs : AddrArray} (h : Compact addrs) {num : Nat} (hn : num < 2 ^ 32)
    (hm : min num 32 = (hostsOf addrs).length) (rest : Bytes) :
    readServerAddresses (addrsBytesN addrs num ++ rest) = some (addrs, rest) := by
  obtain ⟨hosts, hne, hlen, hwf, rfl⟩ := h
  rw [hostsOf_compact] at hm
  unfold readServerAddresses addrsBytesN
  rw [hostsOf_compact, List.append_assoc, readU32_leBytes _ hn]
  simp only [Option.bind_eq_bind, Option.bind_some]
  have h32 : C.NETCODE_TOKEN_MAX_ADDRESSES = 32 := rfl
  rw [h32, hm, readAddrLoop_hostsBytes hosts hwf]
  simp only [Option.bind_some, List.length_map]
  cases hosts with
  | nil => exact absurd rfl hne
  | cons h tl => rfl

/-- fewer than 32 hosts: the count field is determined -/
theorem count_determined {num k : Nat} (hm : min num 32 = k) (hk : k < 32) : num = k := by omega

/-! ## Part C : the private connect token -/

/-- the serialisation with `num` in the host-count field (`ptBytes t` is the case `num` = number of hosts) -/
def ptBytesN (t : PrivateConnectToken) (num : Nat) : Bytes :=
  leBytes t.clientId 8 ++ (i32le t.timeoutSeconds ++ (addrsBytesN t.serverAddresses num ++
  (t.clientToServerKey ++ (t.serverToClientKey ++ t.userData))))

theorem ptBytesN_self (t : PrivateConnectToken) : ptBytesN t (hostsOf t.serverAddresses).length = ptBytes t := rfl

/-- **`PrivateConnectToken::read`, exactly**: `b` is read to `t` iff `t` is well-formed and `b` is the
    serialisation of `t` — with any count field that clamps to the number of hosts — followed by anything. -/
theorem pt_read_iff (b : Bytes) (t : PrivateConnectToken) :
    PrivateConnectToken.read b = some t ↔
      PTokenWF t ∧ ∃ num rest, num < 2 ^ 32 ∧ min num 32 = (hostsOf t.serverAddresses).length ∧
        b = ptBytesN t num ++ rest := by
  constructor
  · intro h
    refine ⟨pt_read_wf h, ?_⟩
    unfold PrivateConnectToken.read at h
    simp only [Option.bind_eq_bind, Option.bind_eq_some_iff, Option.pure_def, Option.some.injEq, Prod.exists] at h
    obtain ⟨cid, r1, h1, to, r2, h2, sa, r3, h3, k1, r4, h4, k2, r5, h5, ud, r6, h6, rfl⟩ := h
    obtain ⟨e1, _⟩ := readU_eq h1
    have e2 := readI32_eq h2
    obtain ⟨_, num, hn, hm, e3⟩ := readServerAddresses_eq h3
    obtain ⟨e4, _⟩ := readN_eq h4
    obtain ⟨e5, _⟩ := readN_eq h5
    obtain ⟨e6, _⟩ := readN_eq h6
    refine ⟨num, r6, hn, hm, ?_⟩
    rw [e1, e2, e3, e4, e5, e6]
    simp [ptBytesN]
  · rintro ⟨hwf, num, rest, hn, hm, rfl⟩
    unfold PrivateConnectToken.read ptBytesN
    simp only [List.append_assoc]
    rw [readU64_leBytes _ hwf.clientId]
    simp only [Option.bind_eq_bind, Option.bind_some]
    rw [readI32_i32le _ hwf.timeout_lo hwf.timeout_hi]
    simp only [Option.bind_some]
    rw [readServerAddresses_addrsBytesN hwf.compact hn hm]
    simp only [Option.bind_some]
    rw [readN_append' _ _ hwf.c2s]
    simp only [Option.bind_some]
    rw [readN_append' _ _ hwf.s2c]
    simp only [Option.bind_some]
    rw [readN_append' _ _ hwf.userData]
    rfl

theorem ptBytesN_length (t : PrivateConnectToken) (num : Nat) : (ptBytesN t num).length = (ptBytes t).length := by
  simp [ptBytesN, ptBytes, addrsBytesN, addrsBytes, hostsOf]

/-- `ptBytesN` and `ptBytes` agree outside the four count bytes (offsets 12..15) -/
theorem ptBytesN_take12 (t : PrivateConnectToken) (num : Nat) : (ptBytesN t num).take 12 = (ptBytes t).take 12 := by
  have e : ∀ x : Bytes, (leBytes t.clientId 8 ++ (i32le t.timeoutSeconds ++ x)).take 12 =
      leBytes t.clientId 8 ++ i32le t.timeoutSeconds := by
    intro x
    rw [← List.append_assoc, List.take_left' (by simp [i32le_length])]
  simp only [ptBytesN, ptBytes]
  rw [e, e]

theorem drop16_aux (a1 a2 c h x : Bytes) (h1 : a1.length = 8) (h2 : a2.length = 4) (hc : c.length = 4) :
    (a1 ++ (a2 ++ ((c ++ h) ++ x))).drop 16 = h ++ x := by
  have e : a1 ++ (a2 ++ ((c ++ h) ++ x)) = (a1 ++ a2 ++ c) ++ (h ++ x) := by simp only [List.append_assoc]
  rw [e, List.drop_left' (by simp [h1, h2, hc])]

theorem ptBytesN_drop16 (t : PrivateConnectToken) (num : Nat) : (ptBytesN t num).drop 16 = (ptBytes t).drop 16 := by
  simp only [ptBytesN, ptBytes, addrsBytesN, addrsBytes, hostsOf]
  rw [drop16_aux _ _ _ _ _ (by simp) (i32le_length _) (by simp), drop16_aux _ _ _ _ _ (by simp) (i32le_length _) (by simp)]

/-- exact length of the meaningful prefix: 336 fixed bytes plus the host entries (7 per IPv4, 19 per IPv6 host) -/
theorem ptBytes_length_eq {t : PrivateConnectToken} (h : PTokenWF t) :
    (ptBytes t).length = 336 + (hostsBytes (hostsOf t.serverAddresses)).length := by
  simp only [ptBytes, addrsBytes, hostsOf, List.length_append, leBytes_length, i32le_length, h.c2s, h.s2c, h.userData]
  omega

theorem hostsBytes_length_ge (hosts : List Addr) (h : ∀ x ∈ hosts, x.WF) : 7 * hosts.length ≤ (hostsBytes hosts).length := by
  induction hosts with
  | nil => simp [hostsBytes]
  | cons x tl ih =>
    have := ih (fun y hy => h y (by simp [hy]))
    have hx := h x (by simp)
    have : 7 ≤ (addrBytes x).length := by
      cases x <;> obtain ⟨h1, _⟩ := hx <;> simp [addrBytes, h1]
    simp only [hostsBytes, List.length_append, List.length_cons]; omega

theorem ptBytes_length_ge {t : PrivateConnectToken} (h : PTokenWF t) : 343 ≤ (ptBytes t).length := by
  rw [ptBytes_length_eq h]
  obtain ⟨hosts, hne, _, hwf, e⟩ := h.compact
  rw [e, hostsOf_compact]
  have := hostsBytes_length_ge hosts hwf
  have : 1 ≤ hosts.length := by cases hosts with
    | nil => exact absurd rfl hne
    | cons => simp
  omega

/-- what `writeTo` puts into a buffer that is large enough (`encode` uses 1024 ≥ 944) -/
theorem pt_writeTo_out {t : PrivateConnectToken} (h : PTokenWF t) (cap : Nat) (hc : 944 ≤ cap) :
    t.writeTo (Wr.new cap) = some ⟨cap, ptBytes t⟩ := by
  have := ptBytes_length h
  rw [pt_writeTo_eq, Wr.writeAll_eq, if_pos (by simp [Netcode.Wr.new]; omega)]
  simp [Netcode.Wr.new]

theorem take_prefix_eq {b p : Bytes} (h : b.take p.length = p) : b = p ++ b.drop p.length := by
  conv => lhs; rw [← List.take_append_drop p.length b, h]

/-! ### the sealed level -/

theorem xseal_inj {a : AEAD} (hl : a.Laws) {k n ad p p' : Bytes} (h : a.xseal k n ad p = a.xseal k n ad p') : p = p' := by
  have := congrArg (a.xopen k n ad) h
  rw [hl.xopen_xseal, hl.xopen_xseal] at this
  exact Option.some.inj this

theorem seal_inj {a : AEAD} (hl : a.Laws) {k n ad p p' : Bytes} (h : a.seal k n ad p = a.seal k n ad p') : p = p' := by
  have := congrArg (a.open k n ad) h
  rw [hl.open_seal, hl.open_seal] at this
  exact Option.some.inj this

/-- `PrivateConnectToken::decode`, exactly (no assumption on the AEAD) -/
theorem pt_decode_iff (a : AEAD) (buf : Bytes) (proto expire : Nat) (xnonce key : Bytes) (t : PrivateConnectToken) :
    PrivateConnectToken.decode a buf proto expire xnonce key = .ok t ↔
      16 ≤ buf.length ∧ ∃ plain, a.xopen key xnonce (PrivateConnectToken.additionalData proto expire) buf = some plain ∧
        PrivateConnectToken.read (plain ++ buf.drop plain.length) = some t := by
  constructor
  · exact Bind.pt_decode_binds
  · rintro ⟨h16, plain, ho, hr⟩
    unfold PrivateConnectToken.decode
    rw [if_neg (by simp [C.NETCODE_MAC_BYTES, RenetVerif.C.NETCODE_MAC_BYTES]; omega), ho]
    simp only [hr]

/-- sealing the serialisation followed by ANY padding (and with any admissible count field) opens to the token -/
theorem pt_decode_padded (a : AEAD) (hl : a.Laws) {t : PrivateConnectToken} (h : PTokenWF t) {num : Nat}
    (hn : num < 2 ^ 32) (hm : min num 32 = (hostsOf t.serverAddresses).length) (pad : Bytes)
    (proto expire : Nat) (xnonce key : Bytes) :
    PrivateConnectToken.decode a
      (a.xseal key xnonce (PrivateConnectToken.additionalData proto expire) (ptBytesN t num ++ pad))
      proto expire xnonce key = .ok t := by
  rw [pt_decode_iff]
  refine ⟨by rw [hl.xseal_length]; omega, _, hl.xopen_xseal _ _ _ _, ?_⟩
  rw [pt_read_iff]
  exact ⟨h, num, _, hn, hm, List.append_assoc _ _ _⟩

/-! ## Part D : the challenge token -/

/-- the reader inside `ChallengeToken::decode` (run over decrypted part ‖ stale tag bytes) -/
def chRead (b : Bytes) : Option ChallengeToken := do
  let (cid, r) ← readU64 b
  let (ud, _) ← readN C.NETCODE_USER_DATA_BYTES r
  pure ⟨cid, ud⟩

/-- what `generate_challenge` writes at the front of its zeroed 300-byte buffer -/
def chBytes (t : ChallengeToken) : Bytes := leBytes t.clientId 8 ++ t.userData

/-- field widths of the Rust type: u64 client id, `[u8; 256]` user data -/
structure ChWF (t : ChallengeToken) : Prop where
  clientId : t.clientId < 2 ^ 64
  userData : t.userData.length = 256

instance (t : ChallengeToken) : Decidable (ChWF t) :=
  decidable_of_iff (t.clientId < 2 ^ 64 ∧ t.userData.length = 256) ⟨fun h => ⟨h.1, h.2⟩, fun h => ⟨h.1, h.2⟩⟩

theorem ch_decode_eq (a : AEAD) (data : Bytes) (tseq : Nat) (ckey : Bytes) :
    ChallengeToken.decode a data tseq ckey =
      (Netcode.Packet.openBody a ckey tseq [] data >>= fun plain => io? (chRead (plain ++ data.drop plain.length))) := rfl

theorem chBytes_length {t : ChallengeToken} (h : ChWF t) : (chBytes t).length = 264 := by
  simp [chBytes, h.userData]

/-- **the challenge token reader, exactly**: `b` is read to `t` iff `t` has the field widths and `b` is
    client id (8 bytes LE) ‖ user data (256 bytes) followed by anything -/
theorem chRead_iff (b : Bytes) (t : ChallengeToken) :
    chRead b = some t ↔ ChWF t ∧ ∃ rest, b = chBytes t ++ rest := by
  constructor
  · intro h
    unfold chRead at h
    simp only [Option.bind_eq_bind, Option.bind_eq_some_iff, Option.pure_def, Option.some.injEq, Prod.exists] at h
    obtain ⟨cid, r1, h1, ud, r2, h2, rfl⟩ := h
    obtain ⟨e1, b1⟩ := readU_eq h1
    obtain ⟨e2, l2⟩ := readN_eq h2
    refine ⟨⟨by simpa using b1, l2⟩, r2, ?_⟩
    rw [e1, e2]; simp [chBytes]
  · rintro ⟨hwf, rest, rfl⟩
    unfold chRead chBytes
    rw [List.append_assoc, readU64_leBytes _ hwf.clientId]
    simp only [Option.bind_eq_bind, Option.bind_some]
    rw [readN_append' _ _ (show t.userData.length = C.NETCODE_USER_DATA_BYTES from hwf.userData)]
    rfl

/-- `ChallengeToken::decode`, exactly (no assumption on the AEAD) -/
theorem ch_decode_iff (a : AEAD) (data : Bytes) (tseq : Nat) (ckey : Bytes) (t : ChallengeToken) :
    ChallengeToken.decode a data tseq ckey = .ok t ↔
      16 ≤ data.length ∧ ∃ plain, a.open ckey (Netcode.Packet.nonce tseq) [] data = some plain ∧
        chRead (plain ++ data.drop plain.length) = some t := by
  constructor
  · intro h
    obtain ⟨h16, plain, ho, hr⟩ := Bind.ch_decode_binds h
    exact ⟨h16, plain, ho, hr⟩
  · rintro ⟨h16, plain, ho, hr⟩
    rw [ch_decode_eq]
    unfold Netcode.Packet.openBody
    rw [if_neg (by simp [C.NETCODE_MAC_BYTES, RenetVerif.C.NETCODE_MAC_BYTES]; omega), ho]
    simp only [Res.bind_ok, hr, io?]

/-- sealing client id ‖ user data followed by ANY padding opens to the token -/
theorem ch_decode_padded (a : AEAD) (hl : a.Laws) {t : ChallengeToken} (h : ChWF t) (pad : Bytes) (tseq : Nat) (ckey : Bytes) :
    ChallengeToken.decode a (a.seal ckey (Netcode.Packet.nonce tseq) [] (chBytes t ++ pad)) tseq ckey = .ok t := by
  rw [ch_decode_iff]
  refine ⟨by rw [hl.seal_length]; omega, _, hl.open_seal _ _ _ _, ?_⟩
  rw [chRead_iff]
  exact ⟨h, _, List.append_assoc _ _ _⟩

/-- the plaintext `generate_challenge` seals is `chBytes` followed by 20 zero bytes -/
theorem chPlain_eq (t : ChallengeToken) (h : ChWF t) : chPlain t.clientId t.userData = chBytes t ++ List.replicate 20 0 := by
  simp [chPlain, chBytes, h.userData]

/-! ## Part E : prefix forms -/

/-- the count field sits at offsets 12..15 -/
theorem ptBytesN_count (t : PrivateConnectToken) (num : Nat) : ((ptBytesN t num).drop 12).take 4 = leBytes num 4 := by
  have e : ptBytesN t num = (leBytes t.clientId 8 ++ i32le t.timeoutSeconds) ++ (leBytes num 4 ++
      (hostsBytes (hostsOf t.serverAddresses) ++ (t.clientToServerKey ++ (t.serverToClientKey ++ t.userData)))) := by
    simp only [ptBytesN, addrsBytesN, List.append_assoc]
  rw [e, List.drop_left' (by simp [i32le_length]), List.take_left' (by simp)]

/-- a successful read fixes the first `(ptBytes t).length` bytes of `b` up to the count field -/
theorem pt_read_take {b : Bytes} {t : PrivateConnectToken} (h : PrivateConnectToken.read b = some t) :
    (ptBytes t).length ≤ b.length ∧ ∃ num, num < 2 ^ 32 ∧ min num 32 = (hostsOf t.serverAddresses).length ∧
      b.take (ptBytes t).length = ptBytesN t num := by
  obtain ⟨_, num, rest, hn, hm, rfl⟩ := (pt_read_iff b t).1 h
  refine ⟨by rw [List.length_append, ptBytesN_length]; omega, num, hn, hm, ?_⟩
  rw [← ptBytesN_length t num, List.take_left' rfl]

/-- fewer than 32 hosts: the whole prefix is the canonical serialisation -/
theorem pt_read_take_lt {b : Bytes} {t : PrivateConnectToken} (h : PrivateConnectToken.read b = some t)
    (h32 : (hostsOf t.serverAddresses).length < 32) : b.take (ptBytes t).length = ptBytes t := by
  obtain ⟨_, num, _, hm, e⟩ := pt_read_take h
  rw [e, count_determined hm h32, ptBytesN_self]

/-- conversely: agreeing with the canonical serialisation on its length suffices -/
theorem pt_read_of_take {b : Bytes} {t : PrivateConnectToken} (hwf : PTokenWF t)
    (h : b.take (ptBytes t).length = ptBytes t) : PrivateConnectToken.read b = some t := by
  rw [take_prefix_eq h]
  exact pt_read_bytes hwf _

theorem leBytes_ne {n m k : Nat} (hn : n < 256 ^ k) (hm : m < 256 ^ k) (h : n ≠ m) : leBytes n k ≠ leBytes m k :=
  fun e => h (leBytes_inj hn hm e)

/-- a different count field gives a different byte string -/
theorem ptBytesN_ne (t : PrivateConnectToken) {n m : Nat} (hn : n < 2 ^ 32) (hm : m < 2 ^ 32) (h : n ≠ m) :
    ptBytesN t n ≠ ptBytesN t m := by
  intro e
  have := congrArg (fun x => (x.drop 12).take 4) e
  simp only [ptBytesN_count] at this
  exact leBytes_ne (by simpa using hn) (by simpa using hm) h this

theorem chRead_take (b : Bytes) (t : ChallengeToken) :
    chRead b = some t ↔ ChWF t ∧ b.take 264 = chBytes t := by
  rw [chRead_iff]
  constructor
  · rintro ⟨hwf, rest, rfl⟩
    refine ⟨hwf, ?_⟩
    rw [← chBytes_length hwf, List.take_left' rfl]
  · rintro ⟨hwf, h⟩
    refine ⟨hwf, b.drop 264, ?_⟩
    have := take_prefix_eq (p := chBytes t) (b := b) (by rw [chBytes_length hwf]; exact h)
    rwa [chBytes_length hwf] at this

end RenetVerif.NcTokenRT
