import RenetVerif.Lemmas.SendInvB
namespace RenetVerif
open C SMap

/-! ### get_packets_to_send (channel) -/

/-- what `get_packets_to_send` may change in an entry: send times and the round-robin cursor -/
def Unacked.Sim : Unacked → Unacked → Prop
  | .small m _, .small m' _ => m = m'
  | .sliced m n k _ a ls, .sliced m' n' k' _ a' ls' => m = m' ∧ n = n' ∧ k = k' ∧ a = a' ∧ ls.length = ls'.length
  | _, _ => False

theorem Unacked.Sim.kin : ∀ {a b : Unacked}, a.Sim b → a.Kin b
  | .small .., .small .., h => h
  | .sliced .., .sliced .., h => ⟨h.1, h.2.1⟩
  | .small .., .sliced .., h => h.elim
  | .sliced .., .small .., h => h.elim

theorem Unacked.Sim.ok : ∀ {a b : Unacked}, a.Sim b → a.OK → b.OK
  | .small .., .small .., h, ho => by simp only [Unacked.Sim] at h; subst h; exact ho
  | .sliced .., .sliced .., h, ho => by
    obtain ⟨rfl, rfl, rfl, rfl, h5⟩ := h
    obtain ⟨o1, o2, o3, o4, o5, o6⟩ := ho
    exact ⟨o1, o2, o3, by omega, o5, o6⟩
  | .small .., .sliced .., h, _ => h.elim
  | .sliced .., .small .., h, _ => h.elim

def MapSim : SMap Unacked → SMap Unacked → Prop
  | [], [] => True
  | (k, u) :: r, (k', u') :: r' => k = k' ∧ u.Sim u' ∧ MapSim r r'
  | [], _ :: _ => False
  | _ :: _, [] => False

theorem Unacked.Sim.refl : ∀ (u : Unacked), u.Sim u
  | .small .. => rfl
  | .sliced .. => ⟨rfl, rfl, rfl, rfl, rfl⟩

theorem MapSim.refl : ∀ (a : SMap Unacked), MapSim a a
  | [] => trivial
  | (_, u) :: r => ⟨rfl, Unacked.Sim.refl u, MapSim.refl r⟩

theorem MapSim.find : ∀ {a b : SMap Unacked}, MapSim a b → ∀ id,
    (find? a id = none ∧ find? b id = none) ∨ ∃ u u', find? a id = some u ∧ find? b id = some u' ∧ u.Sim u'
  | [], [], _, _ => Or.inl ⟨rfl, rfl⟩
  | (k, u) :: r, (k', u') :: r', h, id => by
    obtain ⟨rfl, h2, h3⟩ := h
    simp only [find?_cons]
    by_cases c : k = id
    · simp only [if_pos c]; exact Or.inr ⟨u, u', rfl, rfl, h2⟩
    · simp only [if_neg c]; exact MapSim.find h3 id
  | [], _ :: _, h, _ => h.elim
  | _ :: _, [], h, _ => h.elim

theorem MapSim.msum : ∀ {a b : SMap Unacked}, MapSim a b → msum a = msum b
  | [], [], _ => rfl
  | (k, u) :: r, (k', u') :: r', h => by
    simp only [msum_cons, MapSim.msum h.2.2, h.2.1.kin.msg]
  | [], _ :: _, h => h.elim
  | _ :: _, [], h => h.elim

theorem MapSim.mem : ∀ {a b : SMap Unacked}, MapSim a b → ∀ x' ∈ b, ∃ x ∈ a, x.1 = x'.1 ∧ x.2.Sim x'.2
  | [], [], _, _, hx => by cases hx
  | (k, u) :: r, (k', u') :: r', h, x', hx => by
    simp only [List.mem_cons] at hx
    rcases hx with rfl | hx
    · exact ⟨(k, u), by simp, h.1, h.2.1⟩
    · obtain ⟨x, hx1, hx2⟩ := MapSim.mem h.2.2 x' hx
      exact ⟨x, List.mem_cons_of_mem _ hx1, hx2⟩
  | [], _ :: _, h, _, _ => h.elim
  | _ :: _, [], h, _, _ => h.elim

theorem MapSim.sorted : ∀ {a b : SMap Unacked}, MapSim a b → Sorted a → Sorted b
  | [], [], _, _ => sorted_nil
  | (k, u) :: r, (k', u') :: r', h, hs => by
    rw [sorted_cons] at hs ⊢
    obtain ⟨rfl, h2, h3⟩ := h
    refine ⟨?_, MapSim.sorted h3 hs.2⟩
    intro x' hx'
    obtain ⟨x, hx1, hx2, -⟩ := MapSim.mem h3 x' hx'
    have := hs.1 x hx1; omega
  | [], _ :: _, h, _ => h.elim
  | _ :: _, [], h, _ => h.elim

/-- a packet emitted by the reliable send channel `ch` speaks about messages really stored in `U` -/
def PktOK (ch : Nat) (U : SMap Unacked) : Packet → Prop
  | .smallReliable _ ch' msgs => ch' = ch ∧ ∀ x ∈ msgs, ∃ ls, find? U x.1 = some (.small x.2 ls)
  | .reliableSlice _ ch' sl => ch' = ch ∧ sl.sliceIndex < sl.numSlices ∧
      ∃ m k nx a ls, find? U sl.messageId = some (.sliced m sl.numSlices k nx a ls) ∧
        sl.payload = sliceBytes m sl.numSlices sl.sliceIndex
  | _ => False

theorem PktOK.mapSim {ch : Nat} {a b : SMap Unacked} (h : MapSim a b) : ∀ {p : Packet}, PktOK ch a p → PktOK ch b p
  | .smallReliable _ _ msgs, hp => by
    refine ⟨hp.1, fun x hx => ?_⟩
    obtain ⟨ls, hf⟩ := hp.2 x hx
    rcases h.find x.1 with ⟨h1, _⟩ | ⟨u, u', h1, h2, h3⟩
    · rw [hf] at h1; cases h1
    · rw [hf] at h1; cases h1
      cases u' with
      | small m' ls' => simp only [Unacked.Sim] at h3; subst h3; exact ⟨ls', h2⟩
      | sliced => exact h3.elim
  | .reliableSlice _ _ sl, hp => by
    obtain ⟨h0, h1, m, k, nx, a, ls, hf, hpay⟩ := hp
    refine ⟨h0, h1, ?_⟩
    rcases h.find sl.messageId with ⟨h1, _⟩ | ⟨u, u', h1, h2, h3⟩
    · rw [hf] at h1; cases h1
    · rw [hf] at h1; cases h1
      cases u' with
      | small => exact h3.elim
      | sliced m' n' k' nx' a' ls' =>
        obtain ⟨rfl, rfl, rfl, rfl, -⟩ := h3
        exact ⟨_, _, _, _, _, h2, hpay⟩
  | .smallUnreliable .., hp => hp.elim
  | .unreliableSlice .., hp => hp.elim
  | .ack .., hp => hp.elim

/-- loop invariant of one `get_packets_to_send` -/
def GPOK (ch : Nat) (U : SMap Unacked) (seq0 : Nat) (gp : GP) : Prop :=
  (∀ p ∈ gp.packets, PktOK ch U p ∧ seq0 ≤ p.sequence ∧ p.sequence < gp.seq) ∧
  (∀ x ∈ gp.small, ∃ ls, find? U x.1 = some (.small x.2 ls)) ∧ seq0 ≤ gp.seq

def dueOpt (now resend : Nat) : Option Nat → Bool
  | some t => !decide (now - t < resend)
  | none => true

theorem slicedLoop_cons (ch id now resend : Nat) (msg : Bytes) (n start : Nat) (acked : List Bool) (i0 : Nat)
    (rest : List Nat) (ls : List (Option Nat)) (next : Nat) (gp : GP) :
    slicedLoop ch id now resend msg n start acked (i0 :: rest) (ls, next, gp) =
      if gp.avail < SLICE_SIZE then (ls, next, gp) else
      if acked.getD ((start + i0) % n) false = true then slicedLoop ch id now resend msg n start acked rest (ls, next, gp) else
      if (!dueOpt now resend (ls.getD ((start + i0) % n) none)) = true then
        slicedLoop ch id now resend msg n start acked rest (ls, next, gp)
      else
        slicedLoop ch id now resend msg n start acked rest
          (ls.set ((start + i0) % n) (some now), (start + i0) % n + 1 % n,
           { gp with
              avail := gp.avail - (sliceBytes msg n ((start + i0) % n)).length,
              packets := gp.packets ++ [Packet.reliableSlice gp.seq ch ⟨id, (start + i0) % n, n, sliceBytes msg n ((start + i0) % n)⟩],
              seq := gp.seq + 1 }) := by
  rfl

/-- the state after queueing small message `(id, m)` (flushing the current packet first when it is full) -/
def smallQueue (ch id : Nat) (m : Bytes) (gp : GP) : GP :=
  let gp1 : GP := { gp with avail := gp.avail - m.length }
  let ser := m.length + varintLen m.length + varintLen id
  let gp2 := if gp1.smallBytes + ser > SLICE_SIZE then flushSmall ch gp1 else gp1
  { gp2 with smallBytes := gp2.smallBytes + ser, small := gp2.small ++ [(id, m)] }

theorem relLoop_small (ch now resend id : Nat) (m : Bytes) (lastSent : Option Nat) (rest : SMap Unacked) (gp : GP) :
    relLoop ch now resend ((id, .small m lastSent) :: rest) gp =
      if gp.avail < m.length ∨ dueOpt now resend lastSent = false then
        ((id, .small m lastSent) :: (relLoop ch now resend rest gp).1, (relLoop ch now resend rest gp).2)
      else
        ((id, .small m (some now)) :: (relLoop ch now resend rest (smallQueue ch id m gp)).1,
         (relLoop ch now resend rest (smallQueue ch id m gp)).2) := by
  cases lastSent <;> rfl

theorem relLoop_sliced (ch now resend id : Nat) (m : Bytes) (n numAcked next : Nat) (acked : List Bool)
    (lastSent : List (Option Nat)) (rest : SMap Unacked) (gp : GP) :
    relLoop ch now resend ((id, .sliced m n numAcked next acked lastSent) :: rest) gp =
      let r := slicedLoop ch id now resend m n next acked (List.range n) (lastSent, next, gp)
      ((id, .sliced m n numAcked r.2.1 acked r.1) :: (relLoop ch now resend rest r.2.2).1,
       (relLoop ch now resend rest r.2.2).2) := by
  rfl

theorem slicedLoop_spec (ch id now resend : Nat) (msg : Bytes) (n start : Nat) (acked : List Bool)
    (U : SMap Unacked) (seq0 : Nat) (hn : 0 < n)
    (hU : ∃ k nx a ls, find? U id = some (.sliced msg n k nx a ls)) :
    ∀ (l : List Nat) (ls : List (Option Nat)) (next : Nat) (gp : GP) (r : List (Option Nat) × Nat × GP),
      slicedLoop ch id now resend msg n start acked l (ls, next, gp) = r → GPOK ch U seq0 gp →
      r.1.length = ls.length ∧ GPOK ch U seq0 r.2.2 ∧ r.2.2.small = gp.small ∧ r.2.2.smallBytes = gp.smallBytes ∧
      gp.seq ≤ r.2.2.seq
  | [], ls, next, gp, r, hr, hg => by
    simp only [slicedLoop] at hr; subst hr; exact ⟨rfl, hg, rfl, rfl, Nat.le_refl _⟩
  | i0 :: rest, ls, next, gp, r, hr, hg => by
    rw [slicedLoop_cons] at hr
    have ihA := slicedLoop_spec ch id now resend msg n start acked U seq0 hn hU rest ls next gp r
    split at hr
    · subst hr; exact ⟨rfl, hg, rfl, rfl, Nat.le_refl _⟩
    · split at hr
      · exact ihA hr hg
      · split at hr
        · exact ihA hr hg
        · have hg' : GPOK ch U seq0 { gp with
              avail := gp.avail - (sliceBytes msg n ((start + i0) % n)).length,
              packets := gp.packets ++ [Packet.reliableSlice gp.seq ch ⟨id, (start + i0) % n, n, sliceBytes msg n ((start + i0) % n)⟩],
              seq := gp.seq + 1 } := by
            obtain ⟨g1, g2, g3⟩ := hg
            refine ⟨?_, g2, (by dsimp only; omega)⟩
            intro p hp
            simp only [List.mem_append, List.mem_singleton] at hp
            rcases hp with hp | rfl
            · obtain ⟨a1, a2, a3⟩ := g1 p hp
              exact ⟨a1, a2, (by dsimp only; omega)⟩
            · refine ⟨⟨rfl, Nat.mod_lt _ hn, ?_⟩, g3, (by simp [Packet.sequence])⟩
              obtain ⟨k, nx, a, ls0, hf⟩ := hU
              exact ⟨msg, k, nx, a, ls0, hf, rfl⟩
          have ih := slicedLoop_spec ch id now resend msg n start acked U seq0 hn hU rest _ _ _ r hr hg'
          obtain ⟨i1, i2, i3, i4, i5⟩ := ih
          refine ⟨(by rw [i1, List.length_set]), i2, i3, i4, ?_⟩
          dsimp only at i5; omega

theorem flushSmall_ok {ch : Nat} {U : SMap Unacked} {seq0 : Nat} {gp : GP} (hg : GPOK ch U seq0 gp) :
    GPOK ch U seq0 (flushSmall ch gp) := by
  obtain ⟨g1, g2, g3⟩ := hg
  unfold flushSmall
  refine ⟨?_, (fun x hx => by cases hx), (by dsimp only; omega)⟩
  intro p hp
  simp only [List.mem_append, List.mem_singleton] at hp
  rcases hp with hp | rfl
  · obtain ⟨a1, a2, a3⟩ := g1 p hp
    exact ⟨a1, a2, (by dsimp only; omega)⟩
  · exact ⟨⟨rfl, g2⟩, g3, (by simp [Packet.sequence])⟩

theorem flushSmall_seq (ch : Nat) (gp : GP) : (flushSmall ch gp).seq = gp.seq + 1 := rfl

theorem smallQueue_ok {ch : Nat} {U : SMap Unacked} {seq0 id : Nat} {m : Bytes} {gp : GP} (hg : GPOK ch U seq0 gp)
    (hsm : ∃ ls, find? U id = some (.small m ls)) :
    GPOK ch U seq0 (smallQueue ch id m gp) ∧ gp.seq ≤ (smallQueue ch id m gp).seq := by
  have key : ∀ g0 : GP, GPOK ch U seq0 g0 →
      GPOK ch U seq0 { g0 with smallBytes := g0.smallBytes + (m.length + varintLen m.length + varintLen id),
                                small := g0.small ++ [(id, m)] } := by
    intro g0 ⟨g1, g2, g3⟩
    refine ⟨g1, ?_, g3⟩
    intro x hx
    simp only [List.mem_append, List.mem_singleton] at hx
    rcases hx with hx | rfl
    · exact g2 x hx
    · exact hsm
  have hg1 : GPOK ch U seq0 { gp with avail := gp.avail - m.length } := hg
  unfold smallQueue
  dsimp only
  split
  · exact ⟨key _ (flushSmall_ok hg1), by simp only [flushSmall]; omega⟩
  · exact ⟨key _ hg1, Nat.le_refl _⟩

theorem relLoop_spec (ch now resend : Nat) (U : SMap Unacked) (seq0 : Nat) :
    ∀ (l : SMap Unacked) (gp : GP),
      (∀ x ∈ l, find? U x.1 = some x.2) → (∀ x ∈ l, x.2.OK) → GPOK ch U seq0 gp →
      MapSim l (relLoop ch now resend l gp).1 ∧ GPOK ch U seq0 (relLoop ch now resend l gp).2 ∧
      gp.seq ≤ (relLoop ch now resend l gp).2.seq
  | [], gp, _, _, hg => ⟨trivial, hg, Nat.le_refl _⟩
  | (id, .small m lastSent) :: rest, gp, hU, hok, hg => by
    have hU' : ∀ x ∈ rest, find? U x.1 = some x.2 := fun x hx => hU x (List.mem_cons_of_mem _ hx)
    have hok' : ∀ x ∈ rest, x.2.OK := fun x hx => hok x (List.mem_cons_of_mem _ hx)
    rw [relLoop_small]
    by_cases c0 : gp.avail < m.length ∨ dueOpt now resend lastSent = false
    · simp only [if_pos c0]
      obtain ⟨i1, i2, i3⟩ := relLoop_spec ch now resend U seq0 rest gp hU' hok' hg
      exact ⟨⟨rfl, rfl, i1⟩, i2, i3⟩
    · simp only [if_neg c0]
      obtain ⟨q1, q2⟩ := smallQueue_ok (id := id) (m := m) hg ⟨lastSent, hU (id, .small m lastSent) (by simp)⟩
      obtain ⟨i1, i2, i3⟩ := relLoop_spec ch now resend U seq0 rest _ hU' hok' q1
      exact ⟨⟨rfl, rfl, i1⟩, i2, by omega⟩
  | (id, .sliced m n numAcked next acked lastSent) :: rest, gp, hU, hok, hg => by
    have hU' : ∀ x ∈ rest, find? U x.1 = some x.2 := fun x hx => hU x (List.mem_cons_of_mem _ hx)
    have hok' : ∀ x ∈ rest, x.2.OK := fun x hx => hok x (List.mem_cons_of_mem _ hx)
    have h0 := hok (id, .sliced m n numAcked next acked lastSent) (by simp)
    have hn : 0 < n := by have := Unacked.OK.two_le h0; omega
    have hf := hU (id, .sliced m n numAcked next acked lastSent) (by simp)
    rw [relLoop_sliced]
    obtain ⟨s1, s2, -, -, s5⟩ := slicedLoop_spec ch id now resend m n next acked U seq0 hn ⟨_, _, _, _, hf⟩
      (List.range n) lastSent next gp _ rfl hg
    obtain ⟨i1, i2, i3⟩ := relLoop_spec ch now resend U seq0 rest _ hU' hok' s2
    refine ⟨⟨rfl, ⟨rfl, rfl, rfl, rfl, s1.symm⟩, i1⟩, i2, ?_⟩
    dsimp only
    omega

theorem SendRel.getPackets_spec {s : SendRel} (h : s.Inv) (seq avail now : Nat) :
    ∀ (s' : SendRel) (ps : List Packet) (seq' avail' : Nat), s.getPackets seq avail now = (s', ps, seq', avail') →
      s'.Inv ∧ s.Step s' ∧ s'.mem = s.mem ∧ s'.nextId = s.nextId ∧ MapSim s.unacked s'.unacked ∧ seq ≤ seq' ∧
      ∀ p ∈ ps, PktOK s'.ch s'.unacked p ∧ seq ≤ p.sequence ∧ p.sequence < seq' := by
  intro s' ps seq' avail' hr
  unfold SendRel.getPackets at hr
  split at hr
  · simp only [Prod.mk.injEq] at hr
    obtain ⟨rfl, rfl, rfl, rfl⟩ := hr
    exact ⟨h, SendRel.Step.refl _, rfl, rfl, MapSim.refl _, Nat.le_refl _, fun p hp => by cases hp⟩
  · have hg0 : GPOK s.ch s.unacked seq ⟨[], [], 0, seq, avail⟩ :=
      ⟨fun p hp => (by cases hp), fun x hx => (by cases hx), Nat.le_refl _⟩
    obtain ⟨i1, i2, i3⟩ := relLoop_spec s.ch now s.resend s.unacked seq s.unacked _
      (fun x hx => mem_find?_of_sorted h.sorted hx) h.entries hg0
    generalize relLoop s.ch now s.resend s.unacked ⟨[], [], 0, seq, avail⟩ = rr at hr i1 i2 i3
    obtain ⟨un, gp⟩ := rr
    simp only [Prod.mk.injEq] at hr
    obtain ⟨rfl, rfl, rfl, rfl⟩ := hr
    · skip
      have i2' : GPOK s.ch s.unacked seq (if gp.small.isEmpty then gp else flushSmall s.ch gp) := by
        split
        · exact i2
        · exact flushSmall_ok i2
      have i3' : seq ≤ (if gp.small.isEmpty then gp else flushSmall s.ch gp).seq := i2'.2.2
      refine ⟨⟨i1.sorted h.sorted, ?_, ?_, ?_, h.bound⟩, ⟨rfl, rfl, Nat.le_refl _, ?_⟩, rfl, rfl, i1, i3', ?_⟩
      · intro x' hx'
        obtain ⟨x, hx1, hx2, -⟩ := i1.mem x' hx'
        have := h.keys x hx1; dsimp only; omega
      · intro x' hx'
        obtain ⟨x, hx1, -, hx3⟩ := i1.mem x' hx'
        exact hx3.ok (h.entries x hx1)
      · dsimp only; rw [← i1.msum]; exact h.mem
      · intro id u' _ hf
        dsimp only at hf
        rcases i1.find id with ⟨_, h2⟩ | ⟨u, u'', h1, h2, h3⟩
        · rw [hf] at h2; cases h2
        · rw [hf] at h2; cases h2; exact ⟨u, h1, h3.kin⟩
      · intro p hp
        obtain ⟨a1, a2, a3⟩ := i2'.1 p hp
        exact ⟨a1.mapSim i1, a2, a3⟩

end RenetVerif
