/-
  C15 — last clause, at connection level:

    "a reliable message (or slice) … is never transmitted again after an acknowledgement for a packet carrying it
     (sent less than 3 s earlier) has been processed."

  Props/C15 proves the one-flush facts about a reliable send channel (`acked_never`: an id absent from `unacked` is in
  no packet of the flush; `slice_not_early`: an acknowledged slice is in no packet).  Here the chain is closed for one
  connection `c : Conn`; proofs are in Lemmas/AckFinal.lean.

    0. `carried_is_recorded`     a flush records, under each packet's sequence number, what the packet carried;
    1. `ack_processed_releases`  processing an Ack packet that covers a recorded sequence number `q` never panics,
                                 removes `q` from the sent table, releases the small messages packet `q` carried
                                 (`Released`), resp. marks the slice it carried (`SliceAcked`);
    2. `released_stays_released` `Released` / `SliceAcked` survive every public operation; ids are allocated increasingly
                                 (`released_id_not_reused`);
    3. `never_retransmitted`     after ANY finite sequence of later operations, no packet of a flush carries the
                                 acknowledged message / slice — `never_retransmitted_wire` says the same of the datagrams;
    4. the proviso "(sent less than 3 s earlier)": `stale_ack_changes_nothing`, `release_needs_recorded_packet`,
       `older_than_3s_is_pruned`.

  Invariant: `Good c := c.SendInv ∧ Acks.WF c.pendingAcks` (plus `TimeOK c` for the pruning lemma); both hold in every
  state reachable from `Conn.fromChannels` (`good_of_reach`, `AckFinal.timeOK_run`).
  Operations: `SL.ConnOp` / `SL.ConnOp.apply` / `SL.Conn.runOps` (Lemmas/ServerLemmas.lean) — every public operation of
  `RenetClient`, as data.
-/
import RenetVerif.Lemmas.AckFinal
namespace RenetVerif.C15A
open RenetVerif C RenetVerif.AckFinal

/-! ### vocabulary (definitions of Lemmas/AckFinal, spelled out) -/

/-- the invariant -/
theorem good_iff (c : Conn) : Good c ↔ c.SendInv ∧ Acks.WF c.pendingAcks := Iff.rfl

/-- it holds in every state reachable by any interleaving of API calls and arbitrary incoming datagrams -/
theorem good_of_reach {budget : Nat} {send recv : List ChanCfg} {c : Conn} (h : C08.Reach budget send recv c) : Good c :=
  C08.reach_inv h

/-- message `id` of reliable send channel `ch` is released: the channel exists, allocated the id, no longer stores it -/
theorem released_iff (c : Conn) (ch id : Nat) :
    Released c ch id ↔ ∃ s, SMap.find? c.sendRel ch = some s ∧ id < s.nextId ∧ SMap.find? s.unacked id = none := Iff.rfl

/-- slice `i` of message `id` of channel `ch` is acknowledged: the message is gone (that was its last unacked slice),
    or it is still stored and the ack bit of slice `i` is set -/
theorem sliceAcked_iff (c : Conn) (ch id i : Nat) :
    SliceAcked c ch id i ↔ ∃ s, SMap.find? c.sendRel ch = some s ∧ id < s.nextId ∧
      (SMap.find? s.unacked id = none ∨
        ∃ m n k nx ak ls, SMap.find? s.unacked id = some (.sliced m n k nx ak ls) ∧ ak.getD i false = true) := Iff.rfl

/-- "packet `p` carries message `id` of reliable channel `ch`" -/
theorem carriesMsg_small (ch id sq c : Nat) (msgs : List (Nat × Bytes)) :
    CarriesMsg ch id (.smallReliable sq c msgs) ↔ c = ch ∧ ∃ x ∈ msgs, x.1 = id := Iff.rfl
theorem carriesMsg_slice (ch id sq c : Nat) (sl : Slice) :
    CarriesMsg ch id (.reliableSlice sq c sl) ↔ c = ch ∧ sl.messageId = id := Iff.rfl
/-- "packet `p` carries slice `i` of message `id` of reliable channel `ch`" -/
theorem carriesSlice_slice (ch id i sq c : Nat) (sl : Slice) :
    CarriesSlice ch id i (.reliableSlice sq c sl) ↔ c = ch ∧ sl.messageId = id ∧ sl.sliceIndex = i := Iff.rfl

/-! ### 0. the sent table records what each packet carried -/

/-- After a flush that leaves the connection live, every packet `p` of the flush is recorded under its sequence number
    with the flush time, and the record names exactly what `p` carried: the ids of a small-message packet, the message
    id and slice index of a slice packet. -/
theorem carried_is_recorded {c c' : Conn} {bs : List Bytes} (hi : c.SendInv) (h : c.getPacketsToSend = .ok (c', bs))
    (hd' : c'.isDisconnected = false) :
    (∀ sq ch msgs, Packet.smallReliable sq ch msgs ∈ System.flushPk c →
      SMap.find? c'.sent sq = some (c.now, .relMsgs ch (msgs.map (·.1)))) ∧
    (∀ sq ch sl, Packet.reliableSlice sq ch sl ∈ System.flushPk c →
      SMap.find? c'.sent sq = some (c.now, .relSlice ch sl.messageId sl.sliceIndex)) := by
  refine ⟨fun sq ch msgs hp => ?_, fun sq ch sl hp => ?_⟩
  · obtain ⟨info, h1, h2⟩ := Live.flush_records hi h hd' _ hp
    simp only [Conn.sentInfoOf, Res.ok.injEq] at h1
    rw [← h1] at h2; exact h2
  · obtain ⟨info, h1, h2⟩ := Live.flush_records hi h hd' _ hp
    simp only [Conn.sentInfoOf, Res.ok.injEq] at h1
    rw [← h1] at h2; exact h2

/-! ### 1. processing the acknowledgement -/

/-- **ack_processed_releases.**  `c` satisfies the send invariant and is not disconnected; `bytes` decodes to an Ack
    packet (its ranges are then well formed: `SI.fromBytes_ack_wf`) covering `q`; `c.sent` maps `q` to `(t, info)`.
    Then `process_packet` returns (no panic) a `c'` that satisfies the invariant again, in which `q` is no longer in the
    sent table, every small message named by `info` is released and the slice named by `info` is acknowledged. -/
theorem ack_processed_releases {c : Conn} {bytes : Bytes} {aseq : Nat} {ranges : List AckRange} (hi : c.SendInv)
    (hd : c.isDisconnected = false) (hp : Packet.fromBytes bytes = .ok (.ack aseq ranges))
    {q t : Nat} {info : SentInfo} (hq : SMap.find? c.sent q = some (t, info)) (hm : Acks.Mem q ranges) :
    ∃ c', c.processPacket bytes = .ok c' ∧ c'.SendInv ∧ c'.isDisconnected = false ∧
      SMap.find? c'.sent q = none ∧
      (∀ ch ids, info = .relMsgs ch ids → ∀ id ∈ ids, Released c' ch id) ∧
      (∀ ch id i, info = .relSlice ch id i → SliceAcked c' ch id i) := by
  obtain ⟨c', he⟩ := SI.Conn.processPacket_no_panic_ack hi (Or.inr ⟨aseq, ranges, hp⟩)
  refine ⟨c', he, SI.Conn.processPacket_inv hi he, (Live.processPacket_ack_forward hi hd hp he).2.1,
    ack_erases_sent hi hd hp he hq hm, ?_, ?_⟩
  · rintro ch ids rfl
    exact (ack_releases_msgs hi hd hp he hq hm).1
  · rintro ch id i rfl
    exact (ack_releases_slice hi hd hp he hq hm).1

/-! ### 2. released stays released -/

/-- **released_stays_released.**  Every public operation that returns — `send_message`, `receive_message`,
    `process_packet` of ANY bytes, `get_packets_to_send`, `update`, the status setters — keeps the invariant, keeps every
    released message released and every acknowledged slice acknowledged. -/
theorem released_stays_released {c c' : Conn} (hg : Good c) {op : SL.ConnOp} (e : op.apply c = .ok c') :
    Good c' ∧ (∀ ch id, Released c ch id → Released c' ch id) ∧
    (∀ ch id i, SliceAcked c ch id i → SliceAcked c' ch id i) :=
  ⟨good_apply hg e, fun _ id h => holds_apply (msgDone_stable id) hg h e,
   fun _ id i h => holds_apply (sliceDone_stable id i) hg h e⟩

/-- … and so does every finite sequence of them -/
theorem released_stays_released_run {c c1 : Conn} (hg : Good c) (ops : List SL.ConnOp)
    (hrun : SL.Conn.runOps c ops = .ok c1) :
    Good c1 ∧ (∀ ch id, Released c ch id → Released c1 ch id) ∧
    (∀ ch id i, SliceAcked c ch id i → SliceAcked c1 ch id i) :=
  ⟨(timeless ops c c1 hg hrun), fun _ id h => (run_inv (msgDone_stable id) ops c c1 hg h hrun).2,
   fun _ id i h => (run_inv (sliceDone_stable id i) ops c c1 hg h hrun).2⟩
where
  timeless : ∀ (ops : List SL.ConnOp) (c c1 : Conn), Good c → SL.Conn.runOps c ops = .ok c1 → Good c1
    | [], c, c1, hg, e => by
      simp only [SL.Conn.runOps, Res.ok.injEq] at e
      subst e; exact hg
    | op :: rest, c, c1, hg, e => by
      unfold SL.Conn.runOps at e
      cases h1 : op.apply c with
      | ok c2 => rw [h1] at e; exact timeless rest c2 c1 (good_apply hg h1) e
      | err x => exact x.elim
      | panic m => rw [h1] at e; cases e

/-- **ids are never reused.**  `send_message` is the only operation that stores a new entry, and the entry gets an id
    above every id the channel allocated before — in particular above every released one (`Released`/`SliceAcked`
    contain `id < nextId`).  So a released id never names a new message. -/
theorem released_id_not_reused {c c' : Conn} {ch ch0 id : Nat} {m : Bytes} (hi : c.SendInv)
    {s s' : SendRel} (hs : SMap.find? c.sendRel ch = some s) (hid : id < s.nextId)
    (hr : c.sendMessage ch0 m = .ok c') (hs' : SMap.find? c'.sendRel ch = some s') :
    ∀ id', SMap.find? s.unacked id' = none → SMap.find? s'.unacked id' ≠ none → id < id' :=
  released_not_reused hi hs hid hr hs'

/-! ### 3. never transmitted again -/

/-- **never_retransmitted** (packet form).  In a good, live state `c` an Ack packet covering the recorded sequence
    number `q` is processed, giving `c'`.  Then ANY finite sequence `ops` of public operations is run (it may contain
    further sends, flushes, clock updates, arbitrary incoming datagrams), reaching `c1`, and `c1` is flushed.  The
    packets of that flush (`System.flushPk c1`: their encodings are the datagrams handed out, one for one) carry none
    of the small messages packet `q` carried, resp. not the slice it carried. -/
theorem never_retransmitted {c c' : Conn} {bytes : Bytes} {aseq : Nat} {ranges : List AckRange} (hg : Good c)
    (hd : c.isDisconnected = false) (hp : Packet.fromBytes bytes = .ok (.ack aseq ranges))
    (he : c.processPacket bytes = .ok c')
    {q t : Nat} {info : SentInfo} (hq : SMap.find? c.sent q = some (t, info)) (hm : Acks.Mem q ranges)
    (ops : List SL.ConnOp) {c1 c2 : Conn} {out : List Bytes} (hrun : SL.Conn.runOps c' ops = .ok c1)
    (hf : c1.getPacketsToSend = .ok (c2, out)) :
    (System.flushPk c1).map System.encO = out.map some ∧
    (∀ ch ids, info = .relMsgs ch ids → ∀ id ∈ ids, ∀ p ∈ System.flushPk c1, ¬ CarriesMsg ch id p) ∧
    (∀ ch id i, info = .relSlice ch id i → ∀ p ∈ System.flushPk c1, ¬ CarriesSlice ch id i p) := by
  have hg' : Good c' := good_apply (op := .processPacket bytes) hg he
  refine ⟨?_, ?_, ?_⟩
  · obtain ⟨hg1, -⟩ := released_stays_released_run hg' ops hrun
    exact (System.flush_facts hg1.1 hf).1
  · rintro ch ids rfl id hid
    have hrel := (ack_releases_msgs hg.1 hd hp he hq hm).1 id hid
    exact ((quiet_after (msgDone_stable id) (quiet_msg ch id) hg' hrel ops hrun).2.2 c2 out hf).1
  · rintro ch id i rfl
    have hrel := (ack_releases_slice hg.1 hd hp he hq hm).1
    exact ((quiet_after (sliceDone_stable id i) (quiet_slice ch id i) hg' hrel ops hrun).2.2 c2 out hf).1

/-- **never_retransmitted** (datagram form): every datagram of the later flush is the encoding of a packet that does
    not carry the acknowledged message / slice. -/
theorem never_retransmitted_wire {c c' : Conn} {bytes : Bytes} {aseq : Nat} {ranges : List AckRange} (hg : Good c)
    (hd : c.isDisconnected = false) (hp : Packet.fromBytes bytes = .ok (.ack aseq ranges))
    (he : c.processPacket bytes = .ok c')
    {q t : Nat} {info : SentInfo} (hq : SMap.find? c.sent q = some (t, info)) (hm : Acks.Mem q ranges)
    (ops : List SL.ConnOp) {c1 c2 : Conn} {out : List Bytes} (hrun : SL.Conn.runOps c' ops = .ok c1)
    (hf : c1.getPacketsToSend = .ok (c2, out)) :
    (∀ ch ids, info = .relMsgs ch ids → ∀ id ∈ ids, ∀ b ∈ out, ∃ p, p.enc = .ok b ∧ ¬ CarriesMsg ch id p) ∧
    (∀ ch id i, info = .relSlice ch id i → ∀ b ∈ out, ∃ p, p.enc = .ok b ∧ ¬ CarriesSlice ch id i p) := by
  obtain ⟨henc, h1, h2⟩ := never_retransmitted hg hd hp he hq hm ops hrun hf
  refine ⟨fun ch ids hinfo id hid b hb => ?_, fun ch id i hinfo b hb => ?_⟩
  · obtain ⟨p, hp, hpe⟩ := System.enc_mem henc hb
    exact ⟨p, hpe, h1 ch ids hinfo id hid p hp⟩
  · obtain ⟨p, hp, hpe⟩ := System.enc_mem henc hb
    exact ⟨p, hpe, h2 ch id i hinfo p hp⟩

/-- **never_retransmitted**, for every flush INSIDE an arbitrary later run: wherever `get_packets_to_send` occurs in
    the sequence of later operations, the packets it emits carry none of the acknowledged content. -/
theorem never_retransmitted_every_flush {c c' : Conn} {bytes : Bytes} {aseq : Nat} {ranges : List AckRange} (hg : Good c)
    (hd : c.isDisconnected = false) (hp : Packet.fromBytes bytes = .ok (.ack aseq ranges))
    (he : c.processPacket bytes = .ok c')
    {q t : Nat} {info : SentInfo} (hq : SMap.find? c.sent q = some (t, info)) (hm : Acks.Mem q ranges)
    (pre post : List SL.ConnOp) {cN : Conn}
    (hrun : SL.Conn.runOps c' (pre ++ SL.ConnOp.getPacketsToSend :: post) = .ok cN) :
    ∃ c1 c2 out, SL.Conn.runOps c' pre = .ok c1 ∧ c1.getPacketsToSend = .ok (c2, out) ∧
      SL.Conn.runOps c2 post = .ok cN ∧
      (System.flushPk c1).map System.encO = out.map some ∧
      (∀ ch ids, info = .relMsgs ch ids → ∀ id ∈ ids, ∀ p ∈ System.flushPk c1, ¬ CarriesMsg ch id p) ∧
      (∀ ch id i, info = .relSlice ch id i → ∀ p ∈ System.flushPk c1, ¬ CarriesSlice ch id i p) := by
  obtain ⟨c1, c2, out, h1, h2, h3⟩ := runOps_flush_inside hrun
  exact ⟨c1, c2, out, h1, h2, h3, never_retransmitted hg hd hp he hq hm pre h1 h2⟩

/-- the same, started from the property instead of from the ack: once released / acknowledged, never in a flush -/
theorem released_never_sent {c c1 c2 : Conn} {out : List Bytes} (hg : Good c) (ops : List SL.ConnOp)
    (hrun : SL.Conn.runOps c ops = .ok c1) (hf : c1.getPacketsToSend = .ok (c2, out)) :
    (∀ ch id, Released c ch id → ∀ p ∈ System.flushPk c1, ¬ CarriesMsg ch id p) ∧
    (∀ ch id i, SliceAcked c ch id i → ∀ p ∈ System.flushPk c1, ¬ CarriesSlice ch id i p) :=
  ⟨fun ch id h => ((quiet_after (msgDone_stable id) (quiet_msg ch id) hg h ops hrun).2.2 c2 out hf).1,
   fun ch id i h => ((quiet_after (sliceDone_stable id i) (quiet_slice ch id i) hg h ops hrun).2.2 c2 out hf).1⟩

/-! ### 4. the proviso "(sent less than 3 s earlier)" -/

/-- **Converse guard.**  If none of the sequence numbers the Ack covers is in `c.sent` — never sent, acknowledged
    before, or pruned by `update` because it was sent `DISCARD_AFTER` (3 s) or more ago — the Ack changes nothing on
    the send side: the result is `c` with only the receiver-side pending-ack list extended by the Ack packet's own
    sequence number. -/
theorem stale_ack_changes_nothing {c : Conn} {bytes : Bytes} {aseq : Nat} {ranges : List AckRange} (hi : c.SendInv)
    (hd : c.isDisconnected = false) (hp : Packet.fromBytes bytes = .ok (.ack aseq ranges))
    (hstale : ∀ x, Acks.Mem x ranges → SMap.find? c.sent x = none) :
    c.processPacket bytes = .ok { c with pendingAcks := Acks.add ACK_RANGE_CAP aseq c.pendingAcks } :=
  stale_ack_noop hi hd hp hstale

/-- … and in general: whatever `process_packet` removes from `unacked`, and whatever slice it marks, is named by an
    entry of `c.sent` whose sequence number the Ack's ranges cover.  An Ack for `q ∉ c.sent` contributes nothing. -/
theorem release_needs_recorded_packet {c c' : Conn} {bytes : Bytes} (hi : c.SendInv)
    (hr : c.processPacket bytes = .ok c')
    {ch : Nat} {s s' : SendRel} (hs : SMap.find? c.sendRel ch = some s) (hs' : SMap.find? c'.sendRel ch = some s') :
    (∀ id, SMap.find? s.unacked id ≠ none → SMap.find? s'.unacked id = none →
      ∃ aseq ranges seq t info, Packet.fromBytes bytes = .ok (.ack aseq ranges) ∧ Acks.Mem seq ranges ∧
        SMap.find? c.sent seq = some (t, info) ∧ SI.Names info ch id) ∧
    (∀ id i, s.Pending id i → ¬ s'.Pending id i →
      ∃ aseq ranges seq t, Packet.fromBytes bytes = .ok (.ack aseq ranges) ∧ Acks.Mem seq ranges ∧
        SMap.find? c.sent seq = some (t, .relSlice ch id i)) :=
  release_only_if_recorded hi hr hs hs'

/-- **3 s.**  In a good state whose sent table is in time order (`TimeOK`, an invariant: `AckFinal.timeOK_run`), an
    `update` that moves the clock to `DISCARD_AFTER` or more past the send time of packet `q` removes `q` from the sent
    table; from then on an Ack for `q` falls under `stale_ack_changes_nothing` / `release_needs_recorded_packet`. -/
theorem older_than_3s_is_pruned {c c' : Conn} {dt : Nat} (hg : Good c) (ht : TimeOK c) (hr : c.update dt = .ok c')
    {q t : Nat} {info : SentInfo} (hq : SMap.find? c.sent q = some (t, info))
    (hold : DISCARD_AFTER_NS ≤ c.now + dt - t) : SMap.find? c'.sent q = none :=
  update_prunes_inv hg ht hr hq hold

/-- `DISCARD_AFTER` is 3 s -/
example : DISCARD_AFTER_NS = 3 * 1000000000 := by decide

/-! ### non-vacuity: a concrete run of the model -/
namespace Ex

def cfg : List ChanCfg := [⟨0, .ordered, 100000, 100⟩]
def bytesOf (p : Packet) : Bytes := match p.toBytes SER_BUFFER with | .ok b => b | _ => []
/-- a 2500-byte message: three slices (1200 + 1200 + 100) -/
def big : Bytes := List.replicate 2500 7
def c0 : Conn := Conn.fromChannels 60000 cfg cfg

/-- connect, submit a small message (id 0) and a sliced one (id 1) on the reliable channel 0 … -/
def ops0 : List SL.ConnOp := [.setConnected, .sendMessage 0 [1, 2, 3], .sendMessage 0 big]
def exS : Conn := match SL.Conn.runOps c0 ops0 with | .ok c => c | _ => c0
/-- … and flush at time 0 -/
def exA : Conn := match SL.ConnOp.apply exS .getPacketsToSend with | .ok c => c | _ => exS
/-- an Ack packet for packets 1 and 3 -/
def ackBytes : Bytes := bytesOf (.ack 0 [(1, 2), (3, 4)])
def exB : Conn := match exA.processPacket ackBytes with | .ok c => c | _ => exA
/-- the resend time (100 ns) passes -/
def exC : Conn := match SL.Conn.runOps exB [.update 100] with | .ok c => c | _ => exB
def exD : Conn × List Bytes := match exC.getPacketsToSend with | .ok x => x | _ => (exC, [])

set_option maxRecDepth 100000 in
theorem exS_run : SL.Conn.runOps c0 ops0 = .ok exS := by decide +kernel
set_option maxRecDepth 100000 in
theorem exA_step : SL.ConnOp.apply exS .getPacketsToSend = .ok exA := by decide +kernel
set_option maxRecDepth 100000 in
theorem exA_flush : exS.getPacketsToSend = .ok (exA, (match exS.getPacketsToSend with | .ok x => x.2 | _ => [])) := by
  decide +kernel

theorem exS_inv : Good exS ∧ TimeOK exS :=
  timeOK_run ops0 c0 exS (C08.conn_new _ _ _) (timeOK_fresh _ _ _) exS_run
theorem exA_inv : Good exA ∧ TimeOK exA :=
  ⟨good_apply exS_inv.1 exA_step, timeOK_apply exS_inv.1 exS_inv.2 exA_step⟩

set_option maxRecDepth 100000 in
/-- the first flush: packets 0, 1, 2 are the three slices of message 1, packet 3 carries the small message 0 -/
theorem first_flush : System.flushPk exS =
    [.reliableSlice 0 0 ⟨1, 0, 3, sliceBytes big 3 0⟩, .reliableSlice 1 0 ⟨1, 1, 3, sliceBytes big 3 1⟩,
     .reliableSlice 2 0 ⟨1, 2, 3, sliceBytes big 3 2⟩, .smallReliable 3 0 [(0, [1, 2, 3])]] := by decide +kernel

set_option maxRecDepth 100000 in
theorem exA_live : exA.isDisconnected = false := by decide +kernel

/-- `carried_is_recorded` on this flush: packet 1 is recorded as "slice 1 of message 1", packet 3 as "message 0" -/
theorem exA_sent : SMap.find? exA.sent 1 = some (0, .relSlice 0 1 1) ∧ SMap.find? exA.sent 3 = some (0, .relMsgs 0 [0]) := by
  obtain ⟨h1, h2⟩ := carried_is_recorded exS_inv.1.1 exA_flush exA_live
  have n0 : exS.now = 0 := by decide +kernel
  refine ⟨?_, ?_⟩
  · have := h2 1 0 ⟨1, 1, 3, sliceBytes big 3 1⟩ (by rw [first_flush]; simp)
    rw [n0] at this; exact this
  · have := h1 3 0 [(0, [1, 2, 3])] (by rw [first_flush]; simp)
    rw [n0] at this; exact this

theorem ack_decodes : Packet.fromBytes ackBytes = .ok (.ack 0 [(1, 2), (3, 4)]) := by decide +kernel
theorem mem1 : Acks.Mem 1 [(1, 2), (3, 4)] := Or.inl ⟨by decide, by decide⟩
theorem mem3 : Acks.Mem 3 [(1, 2), (3, 4)] := Or.inr (Or.inl ⟨by decide, by decide⟩)

set_option maxRecDepth 100000 in
theorem exB_step : exA.processPacket ackBytes = .ok exB := by decide +kernel
set_option maxRecDepth 100000 in
theorem exC_run : SL.Conn.runOps exB [.update 100] = .ok exC := by decide +kernel
set_option maxRecDepth 100000 in
theorem exD_flush : exC.getPacketsToSend = .ok (exD.1, exD.2) := by decide +kernel

/-- **`ack_processed_releases` on the run**: after the Ack, packets 1 and 3 are out of the sent table, message 0 is
    released and slice 1 of message 1 is acknowledged (its message still stored: slices 0 and 2 are open) -/
example : SMap.find? exB.sent 1 = none ∧ SMap.find? exB.sent 3 = none ∧ Released exB 0 0 ∧ SliceAcked exB 0 1 1 := by
  obtain ⟨c1, e1, -, -, g1, -, s1⟩ := ack_processed_releases exA_inv.1.1 exA_live ack_decodes exA_sent.1 mem1
  obtain ⟨c3, e3, -, -, g3, m3, -⟩ := ack_processed_releases exA_inv.1.1 exA_live ack_decodes exA_sent.2 mem3
  rw [exB_step] at e1 e3
  rw [← Res.ok.inj e1] at g1 s1
  rw [← Res.ok.inj e3] at g3 m3
  exact ⟨g1, g3, m3 0 [0] rfl 0 (by simp), s1 0 1 1 rfl⟩

set_option maxRecDepth 100000 in
/-- … concretely: the channel after the Ack -/
example : (SMap.find? exB.sendRel 0).map (fun s => (s.nextId, s.unacked)) =
    some (2, [(1, .sliced big 3 1 3 [false, true, false] [some 0, some 0, some 0])]) := by decide +kernel

/-- **`released_stays_released` on the run** (the clock update) -/
example : Released exC 0 0 ∧ SliceAcked exC 0 1 1 := by
  have hB : Good exB := good_apply (op := .processPacket ackBytes) exA_inv.1 exB_step
  obtain ⟨-, hm, hs⟩ := released_stays_released_run hB [.update 100] exC_run
  exact ⟨hm 0 0 ((ack_releases_msgs exA_inv.1.1 exA_live ack_decodes exB_step exA_sent.2 mem3).1 0 (by simp)),
    hs 0 1 1 (ack_releases_slice exA_inv.1.1 exA_live ack_decodes exB_step exA_sent.1 mem1).1⟩

/-- **`never_retransmitted` on the run**: the flush after the resend time carries neither message 0 nor slice 1 of
    message 1 … -/
example : (∀ p ∈ System.flushPk exC, ¬ CarriesMsg 0 0 p) ∧ (∀ p ∈ System.flushPk exC, ¬ CarriesSlice 0 1 1 p) ∧
    (∀ b ∈ exD.2, ∃ p, p.enc = .ok b ∧ ¬ CarriesMsg 0 0 p ∧ ¬ CarriesSlice 0 1 1 p) := by
  have h3 := never_retransmitted exA_inv.1 exA_live ack_decodes exB_step exA_sent.2 mem3 [.update 100] exC_run exD_flush
  have h1 := never_retransmitted exA_inv.1 exA_live ack_decodes exB_step exA_sent.1 mem1 [.update 100] exC_run exD_flush
  refine ⟨h3.2.1 0 [0] rfl 0 (by simp), h1.2.2 0 1 1 rfl, ?_⟩
  intro b hb
  obtain ⟨p, hp, hpe⟩ := System.enc_mem h1.1 hb
  exact ⟨p, hpe, h3.2.1 0 [0] rfl 0 (by simp) p hp, h1.2.2 0 1 1 rfl p hp⟩

set_option maxRecDepth 100000 in
/-- … while the rest IS retransmitted: exactly slices 0 and 2 of message 1 (and the connection's own ack packet) -/
theorem second_flush : System.flushPk exC =
    [.reliableSlice 4 0 ⟨1, 0, 3, sliceBytes big 3 0⟩, .reliableSlice 5 0 ⟨1, 2, 3, sliceBytes big 3 2⟩,
     .ack 6 [(0, 1)]] := by decide +kernel

set_option maxRecDepth 100000 in
/-- without the Ack everything is due again after the resend time: the theorem's hypothesis is not idle -/
example : (System.flushPk (match exA.update 100 with | .ok c => c | _ => exA)).map Packet.sequence = [4, 5, 6, 7] := by
  decide +kernel

/-! #### the 3 s proviso on the run -/

/-- 3 s pass after the first flush, before any Ack arrives -/
def exP : Conn := match exA.update 3000000000 with | .ok c => c | _ => exA
set_option maxRecDepth 100000 in
theorem exP_step : exA.update 3000000000 = .ok exP := by decide +kernel

/-- `older_than_3s_is_pruned`: packets 1 and 3 are no longer in the sent table -/
example : SMap.find? exP.sent 1 = none ∧ SMap.find? exP.sent 3 = none := by
  have n0 : exA.now = 0 := by decide +kernel
  have hold : DISCARD_AFTER_NS ≤ exA.now + 3000000000 - 0 := by rw [n0]; decide
  exact ⟨older_than_3s_is_pruned exA_inv.1 exA_inv.2 exP_step exA_sent.1 hold,
    older_than_3s_is_pruned exA_inv.1 exA_inv.2 exP_step exA_sent.2 hold⟩

set_option maxRecDepth 100000 in
theorem exP_sent : exP.sent = [] := by decide +kernel
set_option maxRecDepth 100000 in
theorem exP_live : exP.isDisconnected = false := by decide +kernel

/-- `stale_ack_changes_nothing`: the same Ack packet, arriving now, touches neither the channels nor the sent table … -/
theorem late_ack : exP.processPacket ackBytes = .ok { exP with pendingAcks := Acks.add ACK_RANGE_CAP 0 exP.pendingAcks } :=
  stale_ack_changes_nothing (good_apply (op := .update 3000000000) exA_inv.1 exP_step).1 exP_live ack_decodes
    (fun x _ => by rw [exP_sent]; rfl)

set_option maxRecDepth 100000 in
/-- … so message 0 and all three slices are transmitted again by the next flush: the proviso is sharp -/
example : (System.flushPk ({ exP with pendingAcks := Acks.add ACK_RANGE_CAP 0 exP.pendingAcks } : Conn)).map
      (fun p => decide (CarriesMsg 0 0 p) || decide (CarriesSlice 0 1 1 p)) = [false, true, false, true, false] := by
  decide +kernel

end Ex

end RenetVerif.C15A
