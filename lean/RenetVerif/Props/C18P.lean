/-
  C18 — Netcode liveness, the handshake-progress half (step lemmas under `AEAD.Laws`, and their composition for the
  lossless exchange).  The safety / time-out half is Props/C18.lean.

  request handed over + free capacity + valid token ⇒ `PacketToSend addr challenge` and a half-open session;
  challenge handed to the client ⇒ `SendingConnectionResponse`; its next packet is the response;
  response handed over + free slot ⇒ `ClientConnected id addr ud` + keep-alive; keep-alive handed to the client ⇒ `Connected`.

  Proofs: Lemmas/NcProgress.lean.  These use the wire round trip (`Packet.decode_sealedBytes`,
  `Packet.decode_request_bytes`, `Packet.encode_sealed_eq`, `Packet.encode_request_eq`: Lemmas/NcWire.lean) and the token
  round trips (`pt_read_bytes`, `ch_generate_eq`, `ch_decode_generate`: Lemmas/NcAead.lean).  `AEAD.Laws` = seal/open are
  inverse and add 16 bytes; nothing else is assumed of the AEAD.
-/
import RenetVerif.Lemmas.NcProgress
import RenetVerif.Props.C05
namespace RenetVerif.C18P
open RenetVerif RenetVerif.Netcode RenetVerif.Netcode.NS RenetVerif.NcAead.Token

/-- **request ⇒ challenge.**  (`requestBytes a s t expire xnonce`: the request datagram for the private token `t`
    sealed under the server's key; `challengeBytes a s t`: the challenge the server seals for `(t.clientId, t.userData)`
    with its next challenge sequence number, under `t.serverToClientKey` and its global sequence number.) -/
theorem request_gets_challenge (a : AEAD) (hl : a.Laws) {s : NetcodeServer} {addr : Addr} {t : PrivateConnectToken}
    {expire : Nat} {xnonce : Bytes} (hi : ServerInv s) (hg : s.globalSequence < U64_MAX)
    (hc : s.challengeSequence < U64_MAX) (hwf : PTokenWF t) (hxn : xnonce.length = 24) (hexp : expire < 2 ^ 64)
    (hpid : s.protocolId < 2 ^ 64) (hnow : asSecs s.currentTime < expire)
    (hhost : s.secure = true → ∃ x, some x ∈ t.serverAddresses ∧ x ∈ s.publicAddresses)
    (hfa : findClientByAddr s.clients addr = none) (hfi : findClientById s.clients t.clientId = none)
    (hpf : pendingFind s.pendingClients addr = none)
    (hroom : s.pendingClients.length < Netcode.C.NETCODE_MAX_PENDING_CLIENTS)
    (hbind : (s.findOrAddConnectTokenEntry ⟨s.currentTime, addr, tokenMac (sealedPriv a s t expire xnonce)⟩).2 = true)
    (hlt : countConnected s.clients < s.maxClients) :
    ∃ s', s.processPacket a addr (requestBytes a s t expire xnonce) = .ok (.packetToSend addr (challengeBytes a s t), s') ∧
      pendingFind s'.pendingClients addr = some (mkPending s.currentTime addr expire t) ∧
      s'.clients = s.clients ∧ s'.challengeSequence = s.challengeSequence + 1 ∧
      s'.globalSequence = s.globalSequence + 1 ∧ s'.challengeKey = s.challengeKey ∧ s'.protocolId = s.protocolId ∧
      s'.maxClients = s.maxClients ∧ s'.currentTime = s.currentTime :=
  progress_request a hl hi hg hc hwf hxn hexp hpid hnow hhost hfa hfi hpf hroom hbind hlt

/-- **the client emits that request** (its first packet) -/
theorem client_sends_request (a : AEAD) (hl : a.Laws) {c : NetcodeClient} {s : NetcodeServer}
    {t : PrivateConnectToken} {expire : Nat} {xnonce : Bytes} (htok : TokenFor a s t expire xnonce c.connectToken)
    (hwf : PTokenWF t) (hxn : xnonce.length = 24)
    (hst : c.state = .sendingConnectionRequest) (hsend : c.lastPacketSendTime = none) (hseq : c.sequence < U64_MAX) :
    c.generatePacket a = .ok (some (requestBytes a s t expire xnonce, c.serverAddr),
      { c with lastPacketSendTime := some c.currentTime, sequence := c.sequence + 1 }) :=
  progress_send_request a hl htok hwf hxn hst hsend hseq

/-- **challenge ⇒ SendingConnectionResponse** -/
theorem challenge_moves_client (a : AEAD) (hl : a.Laws) {c : NetcodeClient} {s : NetcodeServer}
    {t : PrivateConnectToken} (hst : c.state = .sendingConnectionRequest)
    (hkey : c.connectToken.serverToClientKey = t.serverToClientKey)
    (hpid : c.connectToken.protocolId = s.protocolId) (hg : s.globalSequence < 2 ^ 64)
    (hcs : s.challengeSequence + 1 < 2 ^ 64) (hud : t.userData.length = 256) :
    c.processPacket a (challengeBytes a s t) =
      .ok (none, { c with challengeTokenSequence := s.challengeSequence + 1, lastPacketReceivedTime := c.currentTime
                          lastPacketSendTime := none
                          challengeTokenData := challengeToken a s t.clientId t.userData (s.challengeSequence + 1)
                          state := .sendingConnectionResponse }) :=
  progress_challenge a hl hst hkey hpid hg hcs hud

/-- **its next `update` emits the response** (the challenge cleared the send timer, so no send-rate wait) -/
theorem client_sends_response (a : AEAD) (hl : a.Laws) {c : NetcodeClient} {d : Nat}
    (hst : c.state = .sendingConnectionResponse) (hsend : c.lastPacketSendTime = none)
    (hseq : c.sequence < U64_MAX) (htd : c.challengeTokenData.length = 300) (hok : ClockOK c d)
    (hwin : asSecs (c.currentTime + d - c.connectStartTime) < tokenWindow c)
    (hto : ¬ CTimedOut c (c.currentTime + d)) :
    c.update a d = .ok (some (responseBytes a c, c.serverAddr),
      { c with currentTime := c.currentTime + d, lastPacketSendTime := some (c.currentTime + d)
               sequence := c.sequence + 1 }) :=
  progress_update_response a hl hst hsend hseq htd hok hwin hto

/-- **response + free slot ⇒ ClientConnected + keep-alive** -/
theorem response_connects (a : AEAD) (hl : a.Laws) {s : NetcodeServer} {addr : Addr} {p : Connection} {i seq cs : Nat}
    (hi : ServerInv s) (hg : s.globalSequence < U64_MAX) (hc : s.challengeSequence < U64_MAX)
    (hfa : findClientByAddr s.clients addr = none) (hpf : pendingFind s.pendingClients addr = some p)
    (hid : findClientById s.clients p.clientId = none) (hff : firstFreeSlot s.clients = some i)
    (hud : p.userData.length = 256) (hcid : p.clientId < 2 ^ 64) (hcs : cs < 2 ^ 64) (hseq : seq < 2 ^ 64) :
    ∃ s', s.processPacket a addr
        (Packet.sealedBytes a (.response cs (challengeToken a s p.clientId p.userData cs)) s.protocolId seq p.receiveKey) =
      .ok (.clientConnected p.clientId addr p.userData (connectKeepAlive a s p i), s') ∧
      s'.clients = s.clients.set i (some (promoted p p.replayProtection s.currentTime)) ∧
      s'.pendingClients = pendingRemove s.pendingClients addr :=
  progress_response a hl hi hg hc hfa hpf hid hff hud hcid hcs hseq

/-- **keep-alive ⇒ Connected** -/
theorem keepalive_connects_client (a : AEAD) (hl : a.Laws) {c : NetcodeClient} {s : NetcodeServer} {p : Connection}
    {i : Nat} (hst : c.state = .sendingConnectionResponse) (hkey : c.connectToken.serverToClientKey = p.sendKey)
    (hpid : c.connectToken.protocolId = s.protocolId) (hseq : p.sequence < 2 ^ 64)
    (hfresh : c.replayProtection.alreadyReceived p.sequence = false) :
    c.processPacket a (connectKeepAlive a s p i) =
      .ok (none, { c with replayProtection := c.replayProtection.advance p.sequence
                          lastPacketReceivedTime := c.currentTime, maxClients := s.maxClients % 2 ^ 32
                          clientIndex := i % 2 ^ 32, state := .connected }) :=
  progress_keepalive a hl hst hkey hpid hseq hfresh

/-- **`handshake_round_partial`** — the lossless four-message exchange connects both sides: the server reports
    `ClientConnected t.clientId addr t.userData`, holds a session with exactly that id, address and user data, and the
    client ends `Connected`.  MISSING: `update(d)` wrappers with elapsed time / send-rate gate for the request,
    retransmission after loss or duplication, the bounded-time claim, failover composed with a second server
    (`C18.failover` is the client step). -/
theorem handshake_round_partial (a : AEAD) (hl : a.Laws) {s : NetcodeServer} {c0 : NetcodeClient} {addr : Addr}
    {t : PrivateConnectToken} {expire : Nat} {xnonce : Bytes}
    (hi : ServerInv s) (hg : s.globalSequence + 1 < U64_MAX) (hc : s.challengeSequence + 1 < U64_MAX)
    (hwf : PTokenWF t) (hxn : xnonce.length = 24) (hexp : expire < 2 ^ 64) (hpid : s.protocolId < 2 ^ 64)
    (hnow : asSecs s.currentTime < expire)
    (hhost : s.secure = true → ∃ x, some x ∈ t.serverAddresses ∧ x ∈ s.publicAddresses)
    (hfa : findClientByAddr s.clients addr = none) (hfi : findClientById s.clients t.clientId = none)
    (hpf : pendingFind s.pendingClients addr = none)
    (hroom : s.pendingClients.length < Netcode.C.NETCODE_MAX_PENDING_CLIENTS)
    (hbind : (s.findOrAddConnectTokenEntry ⟨s.currentTime, addr, tokenMac (sealedPriv a s t expire xnonce)⟩).2 = true)
    (hlt : countConnected s.clients < s.maxClients)
    (htok : TokenFor a s t expire xnonce c0.connectToken) (hst : c0.state = .sendingConnectionRequest)
    (hsend : c0.lastPacketSendTime = none) (hseq : c0.sequence + 1 < U64_MAX)
    (hrp : c0.replayProtection.alreadyReceived 0 = false) :
    ∃ req c1 chal s1 c2 resp c3 ka s2 c4 i cn,
      c0.generatePacket a = .ok (some (req, c0.serverAddr), c1) ∧
      s.processPacket a addr req = .ok (.packetToSend addr chal, s1) ∧
      c1.processPacket a chal = .ok (none, c2) ∧ c2.state = .sendingConnectionResponse ∧
      c2.generatePacket a = .ok (some (resp, c0.serverAddr), c3) ∧
      s1.processPacket a addr resp = .ok (.clientConnected t.clientId addr t.userData ka, s2) ∧
      c3.processPacket a ka = .ok (none, c4) ∧ c4.state = .connected ∧
      At s2.clients i cn ∧ cn.clientId = t.clientId ∧ cn.addr = addr ∧ cn.userData = t.userData ∧
      s2.isClientConnected t.clientId = true :=
  NS.handshake_round_partial a hl hi hg hc hwf hxn hexp hpid hnow hhost hfa hfi hpf hroom hbind hlt htok hst hsend hseq hrp

/-! ## example: the model's toy AEAD (`AEAD.toy`, `AEAD.toy_laws`), the server `Ex.s0`, client A's private token -/
section Examples
open Ex

theorem privA_wf : PTokenWF privA :=
  ⟨by decide, by decide, by decide, ⟨[srvAddr], by simp, by decide, by intro x hx; simp at hx; subst hx; decide, rfl⟩,
    List.length_replicate, List.length_replicate, List.length_replicate⟩

/-- client A with its token's private part sealed by `AEAD.toy` -/
def cT : NetcodeClient :=
  { cA0 with connectToken := { tokenA with privateData := sealedPriv AEAD.toy s0 privA 30 xnA } }

example : ∃ req c1 chal s1 c2 resp c3 ka s2 c4 i cn,
      cT.generatePacket AEAD.toy = .ok (some (req, cT.serverAddr), c1) ∧
      s0.processPacket AEAD.toy addrA req = .ok (.packetToSend addrA chal, s1) ∧
      c1.processPacket AEAD.toy chal = .ok (none, c2) ∧ c2.state = .sendingConnectionResponse ∧
      c2.generatePacket AEAD.toy = .ok (some (resp, cT.serverAddr), c3) ∧
      s1.processPacket AEAD.toy addrA resp = .ok (.clientConnected 11 addrA udA ka, s2) ∧
      c3.processPacket AEAD.toy ka = .ok (none, c4) ∧ c4.state = .connected ∧
      At s2.clients i cn ∧ cn.clientId = 11 ∧ cn.addr = addrA ∧ cn.userData = udA ∧
      s2.isClientConnected 11 = true :=
  handshake_round_partial AEAD.toy AEAD.toy_laws (s := s0) (c0 := cT) (addr := addrA) (t := privA) (expire := 30)
    (xnonce := xnA) s0_empty.inv (by decide) (by decide) privA_wf rfl (by decide) (by decide) (by decide)
    (fun _ => ⟨srvAddr, by simp [privA], by simp [s0]⟩) rfl rfl rfl (by decide) (by decide +kernel) (by decide)
    ⟨rfl, rfl, rfl, rfl, rfl, rfl⟩ rfl rfl (by decide) (by decide +kernel)

/-- the single steps on the same values (`s1`, `pendA`, `cA3` of Lemmas/NcExamples.lean do not depend on the AEAD) -/
example : ∃ s', s0.processPacket AEAD.toy addrA (requestBytes AEAD.toy s0 privA 30 xnA) =
    .ok (.packetToSend addrA (challengeBytes AEAD.toy s0 privA), s') ∧
    pendingFind s'.pendingClients addrA = some pendA := by
  obtain ⟨s', h1, h2, _⟩ := request_gets_challenge AEAD.toy AEAD.toy_laws (s := s0) (addr := addrA) (t := privA)
    (expire := 30) (xnonce := xnA) s0_empty.inv (by decide) (by decide) privA_wf rfl (by decide) (by decide) (by decide)
    (fun _ => ⟨srvAddr, by simp [privA], by simp [s0]⟩) rfl rfl rfl (by decide) (by decide +kernel) (by decide)
  exact ⟨s', h1, h2⟩
example : cT.generatePacket AEAD.toy = .ok (some (requestBytes AEAD.toy s0 privA 30 xnA, srvAddr),
    { cT with lastPacketSendTime := some 0, sequence := 1 }) :=
  client_sends_request AEAD.toy AEAD.toy_laws (s := s0) (t := privA) ⟨rfl, rfl, rfl, rfl, rfl, rfl⟩ privA_wf rfl rfl rfl
    (by decide)
example : (cT.processPacket AEAD.toy (challengeBytes AEAD.toy s0 privA)).isPanic = false := by
  rw [challenge_moves_client AEAD.toy AEAD.toy_laws (c := cT) (s := s0) (t := privA) rfl rfl rfl (by decide) (by decide)
    List.length_replicate]
  rfl
example : ∃ s', s1.processPacket AEAD.toy addrA
    (Packet.sealedBytes AEAD.toy (.response 1 (challengeToken AEAD.toy s1 11 udA 1)) 42 1 kc2s) =
    .ok (.clientConnected 11 addrA udA (connectKeepAlive AEAD.toy s1 pendA 0), s') := by
  obtain ⟨s', h, _⟩ := response_connects AEAD.toy AEAD.toy_laws (s := s1) (addr := addrA) (p := pendA) (i := 0) (seq := 1)
    (cs := 1) C05.inv_s1 (by decide) (by decide) (by decide +kernel) (by decide +kernel) (by decide +kernel)
    (by decide +kernel) List.length_replicate (by decide) (by decide) (by decide)
  exact ⟨s', h⟩
example : (cA3.processPacket AEAD.toy (connectKeepAlive AEAD.toy s1 pendA 0)).isPanic = false := by
  rw [keepalive_connects_client AEAD.toy AEAD.toy_laws (c := cA3) (s := s1) (p := pendA) (i := 0) rfl rfl rfl
    (by decide) (by decide +kernel)]
  rfl
example : ∃ out c', cA2.update AEAD.toy 250000000 = .ok (some (out, srvAddr), c') ∧ c'.sequence = 2 :=
  ⟨_, _, client_sends_response AEAD.toy AEAD.toy_laws (c := cA2) (d := 250000000) rfl rfl (by decide)
    (by decide +kernel) ⟨by decide, by decide, by decide⟩ (by decide) (by decide), rfl⟩

end Examples
end RenetVerif.C18P
