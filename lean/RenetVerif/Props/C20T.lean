/-
  C20T : the SERVER transport never unwinds (completes `C20.server_update_panic_partial` and
  `C20.server_send_packets_panic_partial`, which assumed the netcode calls; counterpart of `C20.client_update_total`).

  Model: `Transport/Glue.lean` (`serverUpdate`, `serverSendPackets`, `serverDisconnectAll` = renet_netcode/src/server.rs
  `NetcodeServerTransport::{update, send_packets, disconnect_all}`; `Res.panic` = the Rust code would unwind).

  Invariants (all re-established by every call):
    * `NS.ServerInv ns`   the netcode connection-table invariant of Lemmas/NcTable.lean (distinct ids / addresses, timers
                          not in the future, time-outs fit an `i32`, pending map keyed by address with sequence 0, …);
                          `NetcodeServer::new` establishes it (`NS.new_inv`)
    * `g.renet.Inv`       the renet server invariant (`Server.InvP SliceCtor.WInv`, Lemmas/ConnInv.lean)
    * `Sorted conns`      the renet connection table is keyed without repetition (`HashMap`)
  Range hypotheses (consumed):
    * `Room k ns`         each `u64` sequence counter of the netcode server — `global_sequence`, `challenge_sequence`,
                          `client.sequence` of every connected client — is ≤ `u64::MAX - k`
    * the netcode clock after the step is ≤ `Duration::MAX` − 2^31 s (`TMO_MAX_NS`, the largest `timeout_seconds`)
    * for `send_packets`: `Conn.CountersOK` (renet message ids / packet sequence below 2^62 — what
      `RenetClient::get_packets_to_send` needs, C13) for the connections reported connected

  Theorems
    * `server_update_total`        `update` returns `Ok` for EVERY inbox if the counters have room for one increment per
                                   slot + one per queued datagram; room `n` is left over
    * `server_send_packets_total`  `send_packets` returns `Ok` if the counters have room for the packets renet has to
                                   send (`sendBudget`)
    * `server_disconnect_all_total`
    * `server_run_total`, `server_run_total_fresh`   any finite sequence of transport + application calls stays `Ok` as
                                   long as each step is in range in the state it is applied to (`TPre`, checker `tpreb`)
  The necessity of the two kinds of range hypotheses is witnessed by the unwinding examples of C20.lean (clock at
  `Duration::MAX`: `exG1late`; `client.sequence = u64::MAX`: `exG1ov`), restated below against `Room` / the clock bound.
-/
import RenetVerif.Lemmas.GlueTotal
import RenetVerif.Props.C20
namespace RenetVerif.C20T
open RenetVerif RenetVerif.Netcode RenetVerif.Transport RenetVerif.GI RenetVerif.GlueTotal RenetVerif.C20

/-! ## 1. `update` -/

/-- **`NetcodeServerTransport::update` never unwinds**, whatever datagrams (from whatever addresses) are queued at
    the socket. -/
theorem server_update_total (a : AEAD) {g : ServerGlue} (d : Nat) (inbox : List Dgram) {n : Nat}
    (hnc : NS.ServerInv g.netcode)
    (hroom : Room (n + g.netcode.clients.length + inbox.length) g.netcode)
    (hclock : g.netcode.currentTime + d + TMO_MAX_NS ≤ DURATION_MAX)
    (hi : g.renet.Inv) (hs : SL.SMap.Sorted g.renet.conns) :
    ∃ g' out, serverUpdate a g d inbox = .ok (g', out) ∧
      NS.ServerInv g'.netcode ∧ Room n g'.netcode ∧ g'.netcode.currentTime = g.netcode.currentTime + d ∧
      g'.netcode.clients.length = g.netcode.clients.length ∧ g'.renet.Inv ∧ SL.SMap.Sorted g'.renet.conns := by
  obtain ⟨g', out, e, k, r⟩ := serverUpdate_total goodP_winv a d inbox hnc hroom hclock ⟨hi, hs⟩
  exact ⟨g', out, e, k.inv, k.room, k.time, k.len, r.inv, r.sorted⟩

/-! ### instance: client 7 connected, hostile inbox -/

theorem exNs0_inv : NS.ServerInv exNs0 := NS.EmptyServer.inv ⟨rfl, by decide, rfl, 2, by decide, rfl⟩

theorem exNs1_inv : NS.ServerInv exNs1 := by
  have hno : ∀ j cj, ¬ NS.At exNs0.clients j cj := by
    intro j cj h
    have := NS.at_mem h
    simp [exNs0] at this
  exact exNs0_inv.connect (ad := exAddr) (i := 0) (c := exConn7) (fun j cj h => absurd h (hno j cj))
    (fun j cj h => absurd h (hno j cj)) rfl rfl ⟨by decide, by decide, by decide⟩

theorem exNs1_room (n : Nat) (h : n ≤ U64_MAX) : Room n exNs1 := by
  refine ⟨by simpa [exNs1, exNs0] using h, by simpa [exNs1, exNs0] using h, fun i c hc => ?_⟩
  have := NS.at_mem hc
  simp only [exNs1, exNs0, List.mem_cons, Option.some.injEq, List.not_mem_nil, or_false, reduceCtorEq] at this
  subst this
  simpa [exConn7] using h

example (junk : List Dgram) (hj : 2 + junk.length ≤ U64_MAX) :
    ∃ g' out, serverUpdate toyAead exG1 16000000 junk = .ok (g', out) ∧ NS.ServerInv g'.netcode ∧ g'.renet.Inv := by
  obtain ⟨g', out, e, h1, _, _, _, h2, _⟩ := server_update_total toyAead (g := exG1) 16000000 junk (n := 0) exNs1_inv
    (exNs1_room _ (by rw [Nat.zero_add]; exact hj)) (by decide) exG1_inv exG1_lockstep.sorted
  exact ⟨g', out, e, h1, h2⟩

/-- the clock hypothesis fails for C20's unwinding example -/
example : ¬ (exG1late.netcode.currentTime + DURATION_MAX + TMO_MAX_NS ≤ DURATION_MAX) := by decide

/-! ## 2. `send_packets` -/

/-- **`NetcodeServerTransport::send_packets` never unwinds.** -/
theorem server_send_packets_total (a : AEAD) {g : ServerGlue} {n : Nat}
    (hnc : NS.ServerInv g.netcode) (hroom : Room (n + sendBudget g.renet) g.netcode)
    (hi : g.renet.Inv) (hs : SL.SMap.Sorted g.renet.conns)
    (hcnt : ∀ id ∈ g.renet.clientsId, ∀ c, SMap.find? g.renet.conns id = some c → c.CountersOK) :
    ∃ g' out, serverSendPackets a g = .ok (g', out) ∧
      NS.ServerInv g'.netcode ∧ Room n g'.netcode ∧ g'.netcode.currentTime = g.netcode.currentTime ∧
      g'.netcode.clients.length = g.netcode.clients.length ∧ g'.renet.Inv ∧ SL.SMap.Sorted g'.renet.conns := by
  obtain ⟨g', out, e, k, r⟩ := serverSendPackets_total (P := SliceCtor.WInv) a (g := g) (n := n)
    ⟨hnc, hroom, rfl, rfl⟩ ⟨hi, hs⟩ hcnt
  exact ⟨g', out, e, k.inv, k.room, k.time, k.len, r.inv, r.sorted⟩

/-! ### instance: client 7 with one message queued -/

theorem exG1m_ok : exG1m.netcode = exNs1 ∧ exG1m.renet.Inv ∧ SL.SMap.Sorted exG1m.renet.conns := by
  obtain ⟨s', e, i, _, q⟩ := CI.server_sendMessage_totalP exG1_inv 7 1 [1, 2, 3] (by decide)
  have : exG1m = ⟨exNs1, s'⟩ := by unfold exG1m; rw [e]
  rw [this]
  exact ⟨rfl, i, q.sorted exG1_lockstep.sorted⟩

theorem exG1m_budget : sendBudget exG1m.renet = 1 := by decide +kernel

example : ∃ g' out, serverSendPackets toyAead exG1m = .ok (g', out) ∧ NS.ServerInv g'.netcode ∧ g'.renet.Inv := by
  obtain ⟨hn, hi, hs⟩ := exG1m_ok
  obtain ⟨g', out, e, h1, _, _, _, h2, _⟩ := server_send_packets_total toyAead (g := exG1m) (n := 0)
    (by rw [hn]; exact exNs1_inv) (by rw [hn, exG1m_budget]; exact exNs1_room _ (by decide)) hi hs
    (fun id _ c hc => counters_of_b (rs := exG1m.renet) (by decide +kernel) id c hc)
  exact ⟨g', out, e, h1, h2⟩

/-- the counter hypothesis fails for C20's unwinding example (`client.sequence = u64::MAX`, one packet to send) -/
example : ¬ Room 1 exG1ov.netcode := by
  intro h
  have := h.seqs 0 { exConn7 with sequence := U64_MAX } rfl
  exact absurd this (by decide)

/-! ## 3. `disconnect_all` -/

/-- `disconnect_all` never unwinds and keeps all invariants (the renet half is `C20.server_disconnect_all_total`) -/
theorem server_disconnect_all_total (a : AEAD) {g : ServerGlue} (hnc : NS.ServerInv g.netcode) (hi : g.renet.Inv)
    (hs : SL.SMap.Sorted g.renet.conns) :
    ∃ g' out, serverDisconnectAll a g = .ok (g', out) ∧ NS.ServerInv g'.netcode ∧ g'.renet.Inv ∧
      SL.SMap.Sorted g'.renet.conns := by
  obtain ⟨g', out, e, k, r⟩ := serverDisconnectAll_inv goodP_winv a hnc ⟨hi, hs⟩
  exact ⟨g', out, e, k, r.inv, r.sorted⟩

example : ∃ g' out, serverDisconnectAll toyAead exG1 = .ok (g', out) ∧ NS.ServerInv g'.netcode ∧ g'.renet.Inv := by
  obtain ⟨g', out, e, h1, h2, _⟩ := server_disconnect_all_total toyAead (g := exG1) exNs1_inv exG1_inv exG1_lockstep.sorted
  exact ⟨g', out, e, h1, h2⟩

/-! ## 4. runs -/

/-- **Any finite sequence of server-side calls stays `Ok`** — transport calls (`update` with any inbox,
    `send_packets`, `disconnect_all`) and application calls on the `RenetServer` — from any state satisfying the
    invariants, provided each call is in range in the state it is applied to (`TPre`: `opValid` = application calls
    name existing channels; `opRange` = clock / counter room for that call).  The invariants hold at the end. -/
theorem server_run_total (a : AEAD) (ops : List GlueOp) (st : GState) (hnc : NS.ServerInv st.1.netcode)
    (hi : st.1.renet.Inv) (hs : SL.SMap.Sorted st.1.renet.conns) (hpre : TPre a st ops) :
    ∃ st', runGlue a st ops = .ok st' ∧ NS.ServerInv st'.1.netcode ∧ st'.1.renet.Inv ∧
      SL.SMap.Sorted st'.1.renet.conns := by
  obtain ⟨st', e, k, r⟩ := runGlue_total goodP_winv a ops st ⟨hnc, hi, hs⟩ hpre
  exact ⟨st', e, k, r.inv, r.sorted⟩

/-- the same from a fresh `NetcodeServer::new` + `RenetServer::new`; the two tables also end in lock-step (C20) -/
theorem server_run_total_fresh (a : AEAD) {now maxClients pid : Nat} {addrs : List Addr} {secure : Bool} {pk ck : Bytes}
    {ns : NetcodeServer} (hnew : NetcodeServer.new now maxClients pid addrs secure pk ck = .ok ns) (budget : Nat)
    (sc cc : List ChanCfg) (ops : List GlueOp)
    (hpre : TPre a ({ netcode := ns, renet := Server.new budget sc cc }, []) ops) :
    ∃ st', runGlue a ({ netcode := ns, renet := Server.new budget sc cc }, []) ops = .ok st' ∧
      NS.ServerInv st'.1.netcode ∧ st'.1.renet.Inv ∧ LockStep st'.1 := by
  obtain ⟨st', e, k, r⟩ := runGlue_total goodP_winv a ops _ (tInv_fresh hnew budget sc cc) hpre
  have h2 := runGlue_inv2 goodP_winv a ops _ st' e (tpre_gpre a ops _ hpre)
    (gInv2_fresh (new_clientsId hnew) budget sc cc)
  exact ⟨st', e, k, r.inv, h2.1.1⟩

/-- instance: the full handshake run of C20 (`hsOps`: request, response, a message, `send_packets`, a server-side
    disconnect, …) from the fresh two-slot server; the range conditions are checked by evaluation -/
example : ∃ st', runGlue toyAead (exG0, []) hsOps = .ok st' ∧ NS.ServerInv st'.1.netcode ∧ st'.1.renet.Inv := by
  obtain ⟨st', e, h1, h2, _⟩ := server_run_total toyAead hsOps (exG0, []) exNs0_inv (CI.server_new_invP _ _ _)
    SL.SMap.sorted_nil (tpre_of_b toyAead hsOps (exG0, []) (by decide +kernel))
  exact ⟨st', e, h1, h2⟩

/-- instance: junk, application calls and `disconnect_all` with client 7 connected -/
example : ∃ st', runGlue toyAead (exG1, []) exOps = .ok st' ∧ NS.ServerInv st'.1.netcode ∧ st'.1.renet.Inv := by
  obtain ⟨st', e, h1, h2, _⟩ := server_run_total toyAead exOps (exG1, []) exNs1_inv exG1_inv exG1_lockstep.sorted
    (tpre_of_b toyAead exOps (exG1, []) (by decide +kernel))
  exact ⟨st', e, h1, h2⟩

end RenetVerif.C20T
