/-
  C08 / C16 (pending acknowledgements denote exactly what was received) stated DIRECTLY about the generated
  `RenetClient::{add_pending_ack, acked_largest}` of `Generated/Src/Acks.lean` (derived from
  `renet/src/remote_connection.rs`).  The model (`Acks.add`, `Acks.ackedLargest`, `Acks.Mem`, `Acks.WF`) appears only in
  the proofs: `SrcTieAcks` (generated = model) ∘ the set semantics of `Lemmas/Acks.lean` (C16 `pending_acks_wf`,
  `pending_acks_exact`; C08 `pending_acks_only_received`).

  `RMem x l` / `RangesWF l` (`Lemmas/SrcCorollaries.lean`) are the intrinsic denotation / shape of a list of generated
  `Range<u64>` values: `x` lies in one of the half-open ranges; ranges ascending, non-empty, non-adjacent.
-/
import RenetVerif.Props.SrcTieAcks
import RenetVerif.Lemmas.Acks
import RenetVerif.Lemmas.SrcCorollaries
namespace RenetVerif.SrcCor
open RenetVerif RenetVerif.SrcEquiv RenetVerif.RustSem

/-! ### helpers (model level): `Acks.add` as "exact insertion, then the cap" and the exact effect of `ackedLargest` -/

/-- `Acks.add cap seq l` is `capFront cap full` for a well-formed `full` that denotes exactly `l ∪ {seq}` -/
theorem add_eq_capFront (cap seq : Nat) (l : List AckRange) (hc : 1 ≤ cap) (h : Acks.WF l) :
    ∃ full, Acks.WF full ∧ (∀ x, Acks.Mem x full ↔ (Acks.Mem x l ∨ x = seq)) ∧ full.length ≤ l.length + 1 ∧
      Acks.add cap seq l = Acks.capFront cap full := by
  cases l with
  | nil =>
    refine ⟨[(seq, seq + 1)], by simp [Acks.WF], ?_, by simp, ?_⟩
    · intro x; simp only [Acks.mem_cons, Acks.mem_nil, or_false, false_or]; omega
    · simp only [Acks.add, Acks.capFront]
      rw [if_neg (by simp only [List.length_cons, List.length_nil]; omega)]
  | cons r l =>
    cases ha : Acks.addAux seq (r :: l) with
    | some l' =>
      obtain ⟨h1, h2, _, h4⟩ := Acks.addAux_spec seq _ _ h ha
      exact ⟨l', h1, h2, h4, by simp only [Acks.add, ha]⟩
    | none =>
      have hlt := Acks.addAux_none seq _ h ha
      refine ⟨(r :: l) ++ [(seq, seq + 1)], Acks.wf_append_singleton _ _ h hlt, ?_, by simp, by simp only [Acks.add, ha]⟩
      intro x
      rw [Acks.mem_append]
      simp only [Acks.mem_cons, Acks.mem_nil, or_false]
      constructor
      · rintro (hx | hx)
        · exact .inl hx
        · right; omega
      · rintro (hx | hx)
        · exact .inl hx
        · right; omega

/-- members of a well-formed list are at least the first start -/
theorem wf_lb : ∀ (l : List AckRange) (s e : Nat), Acks.WF ((s, e) :: l) → ∀ x, Acks.Mem x ((s, e) :: l) → s ≤ x
  | [], s, e, _, x, hx => by
    simp only [Acks.mem_cons, Acks.mem_nil, or_false] at hx; exact hx.1
  | (s2, e2) :: l, s, e, h, x, hx => by
    rcases hx with hx | hx
    · exact hx.1
    · have h2 : s < e ∧ e < s2 ∧ Acks.WF ((s2, e2) :: l) := h
      have := wf_lb l s2 e2 h2.2.2 x hx
      omega

/-- `ackedLargest` removes exactly the sequence numbers `≤ largest` -/
theorem ackedLargest_mem_iff (largest : Nat) : ∀ (l : List AckRange), Acks.WF l → ∀ x,
    Acks.Mem x (Acks.ackedLargest largest l) ↔ (Acks.Mem x l ∧ largest < x)
  | [], _, x => by simp [Acks.ackedLargest]
  | (s, e) :: rest, h, x => by
    have hw := Acks.wf_cons_iff.1 h
    have ih := ackedLargest_mem_iff largest rest hw.2.1 x
    have hrest : ∀ x, Acks.Mem x rest → e < x := by
      intro y hy
      cases rest with
      | nil => cases hy
      | cons r2 rest2 =>
        obtain ⟨s2, e2⟩ := r2
        have := wf_lb rest2 s2 e2 hw.2.1 y hy
        have := hw.2.2 (s2, e2) rfl
        simp only at this
        omega
    simp only [Acks.ackedLargest]
    split
    · rename_i hl
      constructor
      · intro hx; exact ⟨hx, by have := wf_lb rest s e h x hx; omega⟩
      · exact fun hx => hx.1
    · split
      · rename_i hl he
        rw [ih, Acks.mem_cons]
        constructor
        · rintro ⟨hx, hlt⟩; exact ⟨.inr hx, hlt⟩
        · rintro ⟨hx | hx, hlt⟩
          · simp only at hx; omega
          · exact ⟨hx, hlt⟩
      · split
        · rename_i hl he hge
          rw [Acks.mem_cons]
          constructor
          · intro hx; exact ⟨.inr hx, by have := hrest x hx; omega⟩
          · rintro ⟨hx | hx, hlt⟩
            · simp only at hx; omega
            · exact hx
        · rename_i hl he hge
          simp only [Acks.mem_cons]
          constructor
          · rintro (hx | hx)
            · exact ⟨.inl (by omega), by omega⟩
            · exact ⟨.inr hx, by have := hrest x hx; omega⟩
          · rintro ⟨hx | hx, hlt⟩
            · exact .inl (by omega)
            · exact .inr hx

theorem map_ackR_pairs (l : List RustSem.Range) : (pairs l).map ackR = l := by
  induction l with
  | nil => rfl
  | cons r l ih => simp only [pairs, List.map_cons, ackR] at ih ⊢; rw [ih]

theorem pairs_map_ackR (l : List AckRange) : pairs (l.map ackR) = l := by
  induction l with
  | nil => rfl
  | cons r l ih => simp only [pairs, List.map_cons, ackR] at ih ⊢; rw [ih]

theorem pairs_tail (l : List RustSem.Range) : pairs l.tail = (pairs l).tail := by
  cases l <;> rfl

end RenetVerif.SrcCor

namespace RenetVerif.SrcProps
open RenetVerif RenetVerif.SrcEquiv RenetVerif.SrcTie RenetVerif.SrcCor RenetVerif.RustSem
open Src.renet.remote_connection

/-! ### headline statements -/

/-- **C08/C16, `add_pending_ack` is exact insertion followed by the cap.**  On a well-formed list of at most 64
    ranges and a sequence `< u64::MAX`, the generated `add_pending_ack` does not panic, changes nothing but
    `pending_acks`, and the new list is well-formed, has at most 64 ranges and is `full` cut to the cap — where `full` is
    a well-formed list denoting EXACTLY `old ∪ {sequence}`, and cutting drops its first (oldest, smallest) range iff it
    has more than 64 ranges. -/
theorem acks_add_pending_ack_denotes {ε : Type} (c : RenetClient) (sequence : Nat) (hs : sequence < 2 ^ 64 - 1)
    (hlen : c.pending_acks.length ≤ 64) (hwf : RangesWF c.pending_acks) :
    ∃ new full, (RenetClient.add_pending_ack c sequence : Res ε _) = .ok ({ c with pending_acks := new }, ()) ∧
      RangesWF new ∧ new.length ≤ 64 ∧
      RangesWF full ∧ (∀ x, RMem x full ↔ (RMem x c.pending_acks ∨ x = sequence)) ∧
      full.length ≤ c.pending_acks.length + 1 ∧
      new = if full.length > 64 then full.tail else full := by
  have htie := acks_add_pending_ack (ε := ε) c sequence hs hlen
  have hwf' : Acks.WF (absAcks c) := (rangesWF_iff c.pending_acks).1 hwf
  obtain ⟨full, hf1, hf2, hf3, hf4⟩ := add_eq_capFront 64 sequence (absAcks c) (by decide) hwf'
  have hlen' : (absAcks c).length ≤ 64 := by simpa [absAcks] using hlen
  refine ⟨(Acks.add 64 sequence (absAcks c)).map ackR, full.map ackR, htie, ?_, ?_, ?_, ?_, ?_, ?_⟩
  · rw [rangesWF_iff, pairs_map_ackR]; exact Acks.add_wf 64 sequence _ hwf'
  · simpa using Acks.add_length 64 sequence _ (by decide) hwf' hlen'
  · rw [rangesWF_iff, pairs_map_ackR]; exact hf1
  · intro x
    rw [rmem_iff, pairs_map_ackR, hf2 x, rmem_iff]; rfl
  · simpa [absAcks] using hf3
  · rw [hf4]
    unfold Acks.capFront
    simp only [List.length_map]
    split
    · rw [List.map_tail]
    · rfl

/-- **C16, below the cap nothing is forgotten**: with fewer than 64 ranges the new list denotes exactly
    `old ∪ {sequence}`. -/
theorem acks_add_pending_ack_exact {ε : Type} (c : RenetClient) (sequence : Nat) (hs : sequence < 2 ^ 64 - 1)
    (hlen : c.pending_acks.length < 64) (hwf : RangesWF c.pending_acks) :
    ∃ new, (RenetClient.add_pending_ack c sequence : Res ε _) = .ok ({ c with pending_acks := new }, ()) ∧
      RangesWF new ∧ ∀ x, RMem x new ↔ (RMem x c.pending_acks ∨ x = sequence) := by
  obtain ⟨new, full, h1, h2, _, _, h5, h6, h7⟩ :=
    acks_add_pending_ack_denotes (ε := ε) c sequence hs (by omega) hwf
  refine ⟨new, h1, h2, ?_⟩
  rw [h7, if_neg (by omega)]
  exact h5

/-- **C08, nothing is acknowledged that was not received** (any fill level), and **at the cap exactly the oldest
    range is evicted**: every member of the new list is a member of the old one or the sequence just received; and a
    member of `old ∪ {sequence}` is missing from the new list only if it belongs to the evicted range `r` — the range
    with the smallest start of `old ∪ {sequence}` — which happens only when the list was full. -/
theorem acks_add_pending_ack_evicts_oldest {ε : Type} (c : RenetClient) (sequence : Nat) (hs : sequence < 2 ^ 64 - 1)
    (hlen : c.pending_acks.length ≤ 64) (hwf : RangesWF c.pending_acks) :
    ∃ new, (RenetClient.add_pending_ack c sequence : Res ε _) = .ok ({ c with pending_acks := new }, ()) ∧
      (∀ x, RMem x new → (RMem x c.pending_acks ∨ x = sequence)) ∧
      ((∀ x, RMem x new ↔ (RMem x c.pending_acks ∨ x = sequence)) ∨
       (c.pending_acks.length = 64 ∧ ∃ r : RustSem.Range, r.start < r.«end» ∧
          (∀ y, (RMem y c.pending_acks ∨ y = sequence) → r.start ≤ y) ∧
          ∀ x, RMem x new ↔ ((RMem x c.pending_acks ∨ x = sequence) ∧ ¬ (r.start ≤ x ∧ x < r.«end»)))) := by
  obtain ⟨new, full, h1, _, _, h4, h5, h6, h7⟩ := acks_add_pending_ack_denotes (ε := ε) c sequence hs hlen hwf
  refine ⟨new, h1, ?_, ?_⟩
  · intro x hx
    rw [h7] at hx
    split at hx
    · cases full with
      | nil => cases hx
      | cons r rest => exact (h5 x).1 (.inr hx)
    · exact (h5 x).1 hx
  · by_cases hfull : full.length > 64
    · right
      refine ⟨by omega, ?_⟩
      cases full with
      | nil => simp at hfull
      | cons r rest =>
        rw [if_pos hfull] at h7
        simp only [List.tail_cons] at h7
        have hr : r.start < r.«end» := by
          cases rest with
          | nil => exact h4
          | cons _ _ => exact h4.1
        refine ⟨r, hr, ?_, ?_⟩
        · intro y hy
          have hy' := (h5 y).2 hy
          rcases hy' with hy' | hy'
          · exact hy'.1
          · obtain ⟨r', hm, h1', _⟩ := rmem_iff_exists.1 hy'
            have := rangesWF_head_lt h4 r' hm
            omega
        · intro x
          rw [h7, rmem_tail_iff h4 x, h5 x]
    · left
      rw [h7, if_neg hfull]
      exact h5

/-- **C08, `acked_largest` removes exactly the sequences `≤ largest_ack`.**  On a well-formed list of `u64` ranges
    the generated `acked_largest` (a `while` loop on manifest fuel) does not panic, changes nothing but `pending_acks`,
    keeps the list well-formed and no longer, and afterwards a sequence number is pending iff it was pending before and
    is greater than `largest_ack`. -/
theorem acks_acked_largest_denotes {ε : Type} (c : RenetClient) (largest_ack : Nat)
    (hb : ∀ r ∈ c.pending_acks, r.«end» < 2 ^ 64) (hfit : c.pending_acks.length + 1 < 2 ^ 64)
    (hwf : RangesWF c.pending_acks) :
    ∃ new, (RenetClient.acked_largest c largest_ack : Res ε _) = .ok ({ c with pending_acks := new }, ()) ∧
      RangesWF new ∧ new.length ≤ c.pending_acks.length ∧
      ∀ x, RMem x new ↔ (RMem x c.pending_acks ∧ largest_ack < x) := by
  have htie := acks_acked_largest (ε := ε) c largest_ack hb hfit
  have hwf' : Acks.WF (absAcks c) := (rangesWF_iff c.pending_acks).1 hwf
  refine ⟨(Acks.ackedLargest largest_ack (absAcks c)).map ackR, htie, ?_, ?_, ?_⟩
  · rw [rangesWF_iff, pairs_map_ackR]; exact Acks.ackedLargest_wf largest_ack _ hwf'
  · simpa [absAcks] using Acks.ackedLargest_length largest_ack (absAcks c)
  · intro x
    rw [rmem_iff, pairs_map_ackR, ackedLargest_mem_iff largest_ack _ hwf' x, rmem_iff]; rfl

/-! ### examples (evaluated on the generated text) -/

/-- 64 single-element ranges 0, 2, 4, …, 126: the list is full -/
def fullAcks : List RustSem.Range := (List.range 64).map fun k => ⟨2 * k, 2 * k + 1⟩

def afterEvict : List RustSem.Range := fullAcks.tail ++ [⟨1000, 1001⟩]
/-- a new sequence far above: appended, the oldest range `[0,1)` is evicted, the cap holds -/
example : okFst ((RenetClient.add_pending_ack (exClient fullAcks) 1000 : Res Empty _)) =
    some (exClient afterEvict) := by decide +kernel
example : RMem 0 fullAcks ∧ ¬ RMem 0 afterEvict ∧ RMem 1000 afterEvict ∧ afterEvict.length = 64 := by
  decide +kernel
/-- a sequence that bridges two ranges merges them: no eviction even at the cap -/
example : okFst ((RenetClient.add_pending_ack (exClient fullAcks) 1 : Res Empty _)) =
    some (exClient ((⟨0, 3⟩ : RustSem.Range) :: fullAcks.tail.tail)) := by decide +kernel
/-- the instance of the exactness theorem below the cap -/
example : ∃ new, (RenetClient.add_pending_ack (exClient [⟨0, 1⟩, ⟨2, 5⟩, ⟨7, 8⟩]) 1 : Res Empty _) =
      .ok ({ exClient [⟨0, 1⟩, ⟨2, 5⟩, ⟨7, 8⟩] with pending_acks := new }, ()) ∧
    RangesWF new ∧ ∀ x, RMem x new ↔ (RMem x (exClient [⟨0, 1⟩, ⟨2, 5⟩, ⟨7, 8⟩]).pending_acks ∨ x = 1) :=
  acks_add_pending_ack_exact _ 1 (by decide) (by decide) (by decide)
/-- `acked_largest(7)`: `[0,5) [7,10) [12,14)` keeps 8, 9, 12, 13 -/
example : okFst ((RenetClient.acked_largest (exClient [⟨0, 5⟩, ⟨7, 10⟩, ⟨12, 14⟩]) 7 : Res Empty _)) =
    some (exClient [⟨8, 10⟩, ⟨12, 14⟩]) := by decide +kernel

end RenetVerif.SrcProps
