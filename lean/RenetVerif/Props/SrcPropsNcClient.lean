/-
  Netcode CLIENT properties (C07, C04, C18, C17) stated DIRECTLY about the generated
  `Src.renetcode.client.NetcodeClient` functions of `Generated/Src/NcClient.lean` (the Lean text the translator derives from
  the current `renetcode/src/client.rs`).  The hand model (`Netcode.NetcodeClient`) appears only in the proofs:
  `SrcTieNcClient` (generated = model on representable states) ∘ `Props/C07, C04, C18, C17`.

  How states are constrained (said again in each doc comment):
    * `WfC g` — `g` is the image `reprNC out c` of SOME model client (byte lists hold bytes, addresses are `AddrOk`, the
      replay window has 256 entries, the scratch buffer has `NETCODE_MAX_PACKET_BYTES` entries): representability only —
      the client theorems of C04 / C07 / C18 need no further invariant;
    * everything else is INTRINSIC: `g.state`, `GClockOK g d` (no `Duration` operation of `update(d)` overflows),
      `GCTimedOut g now`, `g.connect_token.timeout_seconds < 2^31` (an `i32` on the Rust side; needed by the tie of
      `update_internal_state`), `g.server_addr_index + 1 < 2^64`.
  Inputs are intrinsic: `BytesOk` byte lists, datagrams shorter than `2^64 - 16` bytes.  The AEAD is the abstract parameter
  `a` with the length laws `a.Laws` (needed by the tie); nothing is assumed about authenticity.
-/
import RenetVerif.Lemmas.SrcCorollariesNc
import RenetVerif.Props.C07
import RenetVerif.Props.C04
import RenetVerif.Props.C17
import RenetVerif.Props.C18
import RenetVerif.Lemmas.NcAead
set_option maxRecDepth 10000
namespace RenetVerif.SrcPropsNc.Client
open RenetVerif RenetVerif.SrcEquiv RenetVerif.SrcTie RenetVerif.SrcCor RenetVerif.SrcCorNc RenetVerif.RustSem
open RenetVerif.Netcode
open Src.renetcode.client

abbrev SRP := Src.renetcode.replay_protection.ReplayProtection

/-- the generated `Packet::decode` as the client calls it: under the token's server-to-client key and the client's window -/
abbrev decodeC (a : AEAD) (g : SNetcodeClient) (gbuf : List Nat) : SDecRes :=
  @Src.renetcode.packet.Packet.decode (aeadOf a) gbuf g.connect_token.protocol_id
    (some g.connect_token.server_to_client_key) (some g.replay_protection)

/-- unpack `WfC`: the state is literally an image -/
theorem wfC_cases {g : SNetcodeClient} (hw : WfC g) :
    ∃ c out, out.length = C.NETCODE_MAX_PACKET_BYTES ∧ g = reprNC out c :=
  let ⟨c, hr⟩ := hw; ⟨c, g.out, hr.1, hr.2⟩

/-! ## C07 — hostile datagrams: no panic, no state change -/

/-- **C07 `client_process_packet_total`, on the generated `process_packet`.**  State: `WfC g` only.  For EVERY datagram the
    generated function returns `Ok` (never `.panic`); the post-state is representable, the scratch buffer untouched. -/
theorem process_packet_total {ε : Type} (a : AEAD) (hl : a.Laws) {g : SNetcodeClient} (hw : WfC g) {gbuf : List Nat}
    (hb : BytesOk gbuf) (hbl : gbuf.length + 16 < 2 ^ 64) :
    ∃ g' buf' r, @NetcodeClient.process_packet (aeadOf a) ε g gbuf = .ok (g', buf', r) ∧ WfC g' ∧ g'.out = g.out := by
  obtain ⟨c, hr⟩ := hw
  obtain ⟨buf, rfl⟩ := (bytesOk_iff gbuf).1 hb
  simp only [toNats_length] at hbl
  obtain ⟨r, c', hm⟩ := C07.client_process_packet_total a c buf
  rcases cli_process_packet_tie (ε := ε) a hl hr buf hbl with ⟨r2, c2, g', buf', hm2, hr', ho, hg⟩ | ⟨⟨m, hp⟩, _⟩
  · exact ⟨g', buf', _, hg, ⟨c2, hr'⟩, ho⟩
  · rw [hm] at hp; cases hp

theorem process_packet_no_panic {ε : Type} (a : AEAD) (hl : a.Laws) {g : SNetcodeClient} (hw : WfC g) {gbuf : List Nat}
    (hb : BytesOk gbuf) (hbl : gbuf.length + 16 < 2 ^ 64) :
    NoPanic (@NetcodeClient.process_packet (aeadOf a) ε g gbuf) := by
  obtain ⟨g', buf', r, h, _⟩ := process_packet_total (ε := ε) a hl hw hb hbl
  exact noPanic_of_eq_ok h

/-- **C07 `client_decode_error_noop`, on the generated `process_packet`.**  State: `WfC g`.  If the generated
    `Packet::decode` (under the server-to-client key and the client's window) returns `Err(ge)` handing back the window
    `st.2`, then nothing surfaces and
      * either the window came back untouched and the client is UNCHANGED (`g' = g`),
      * or — only for `ge = IoError` (an authentic keep-alive with a short body, see C07) — exactly the window is replaced
        by the one `decode` handed back. -/
theorem decode_error_noop {ε : Type} (a : AEAD) (hl : a.Laws) {g : SNetcodeClient} (hw : WfC g) {gbuf : List Nat}
    (hb : BytesOk gbuf) (hbl : gbuf.length + 16 < 2 ^ 64) {ge : SNErr} {st : List Nat × Option SRP}
    (hdec : decodeC a g gbuf = .err (ge, st)) :
    ∃ g' buf', @NetcodeClient.process_packet (aeadOf a) ε g gbuf = .ok (g', buf', none) ∧
      ((st.2 = some g.replay_protection ∧ g' = g) ∨
       (ge = .IoError .opaque ∧ ∃ w, st.2 = some w ∧ g' = { g with replay_protection := w })) := by
  obtain ⟨c, out, hout, rfl⟩ := wfC_cases hw
  have hr : CliRepr (reprNC out c) c := cliRepr_mk hout c
  obtain ⟨buf, rfl⟩ := (bytesOk_iff gbuf).1 hb
  simp only [toNats_length] at hbl
  obtain ⟨e, rp', hD, rfl, hst⟩ := decode_pull_err a hl buf hbl c.connectToken.protocolId
    (some c.connectToken.serverToClientKey) (some c.replayProtection) hdec
  have hm := NetcodeClient.processPacket_decode_err a c buf hD
  rcases cli_process_packet_tie (ε := ε) a hl hr buf hbl with ⟨r2, c2, g', buf', hm2, hr', ho, hg⟩ | ⟨⟨m, hp⟩, _⟩
  · rw [hm] at hm2; cases hm2
    refine ⟨g', buf', hg, ?_⟩
    have hg' : g' = reprNC out (c.withWindow (rp'.getD c.replayProtection)) := by
      have := hr'.2; rw [ho] at this; exact this
    rcases C04.decode_error_window hD with hw | ⟨k, plain, hk, hso, hdup, hlen, he, hw⟩
    · left; subst hw; exact ⟨hst, hg'⟩
    · right; subst hw
      exact ⟨by rw [he]; rfl, reprRP (c.replayProtection.advance (Packet.wireSeq buf)), hst, hg'⟩
  · rw [hm] at hp; cases hp

/-! ## C04 — payloads: only authentic ones surface, each at most once -/

/-- **C04 `client_payload_only_if_opened`, on the generated `process_packet`.**  State: `WfC g`.  If the generated
    `process_packet` surfaces a payload `gp` then the client is `Connected`; the generated `Packet::decode` of the datagram
    under the server-to-client key and the client's window returned `Payload(gp)` with the sequence number the datagram
    carries; the generated `already_received` of the old window says `false` for it, that of the new window `true` (the
    EMPTY marker `2^64-1` aside); and the new state is the old one with that window and receive timer := now. -/
theorem payload_only_if_opened {ε : Type} (a : AEAD) (hl : a.Laws) {g : SNetcodeClient} (hw : WfC g) {gbuf : List Nat}
    (hb : BytesOk gbuf) (hbl : gbuf.length + 16 < 2 ^ 64) {g' : SNetcodeClient} {buf' gp : List Nat}
    (h : @NetcodeClient.process_packet (aeadOf a) ε g gbuf = .ok (g', buf', some gp)) :
    g.state = .Connected ∧
      ∃ dbuf w' sq, decodeC a g gbuf = .ok (dbuf, some w', (sq, .Payload gp)) ∧ sq = gWireSeq gbuf ∧
        (Src.renetcode.replay_protection.ReplayProtection.already_received g.replay_protection sq : Res ε Bool) = .ok false ∧
        (sq ≠ 2 ^ 64 - 1 →
          (Src.renetcode.replay_protection.ReplayProtection.already_received w' sq : Res ε Bool) = .ok true) ∧
        g' = { g with replay_protection := w', last_packet_received_time := g.current_time } := by
  obtain ⟨c, out, hout, rfl⟩ := wfC_cases hw
  have hr : CliRepr (reprNC out c) c := cliRepr_mk hout c
  obtain ⟨buf, rfl⟩ := (bytesOk_iff gbuf).1 hb
  simp only [toNats_length] at hbl
  rcases cli_process_packet_tie (ε := ε) a hl hr buf hbl with ⟨r, c', g2, buf2, hm, hr', ho, hg⟩ | ⟨_, m, hp⟩
  · rw [hg] at h
    simp only [Res.ok.injEq, Prod.mk.injEq] at h
    obtain ⟨rfl, _, hres⟩ := h
    cases r with
    | none => cases hres
    | some p =>
      simp only [Option.map_some, Option.some.injEq] at hres
      subst hres
      obtain ⟨hst, sq, rp', hdec, hc'⟩ := NetcodeClient.processPacket_payload_inv a hm
      obtain ⟨k, hk, hsq, hso, hfresh, hrp⟩ := C04.payload_surfaced_only_if_opened hdec
      have hlt : sq < 2 ^ 64 := by rw [hsq]; exact Packet.wireSeq_lt hso.seq_len
      subst hrp
      obtain ⟨dbuf, hgd⟩ := decode_push_ok a hl buf hbl c.connectToken.protocolId
        (some c.connectToken.serverToClientKey) (some c.replayProtection) hdec
      refine ⟨by show reprCSt c.state = _; rw [hst]; rfl, dbuf, reprRP (c.replayProtection.advance sq), sq, hgd,
        by rw [gWireSeq_toNats, hsq], ?_, ?_, ?_⟩
      · show (Src.renetcode.replay_protection.ReplayProtection.already_received (reprRP c.replayProtection) sq : Res ε Bool) = _
        rw [already_received_eq _ _ hlt, hfresh _ rfl]
      · intro hne
        rw [already_received_eq _ _ hlt, RP.alreadyReceived_advance_self _ hne]
      · have := hr'.2
        rw [ho, hc'] at this
        exact this
  · rw [hp] at h; cases h

/-- **C04 `client_replay_rejected`**: once the generated `already_received` of the client's window reports the sequence number
    the datagram carries as received, no datagram carrying it surfaces a payload. -/
theorem replay_rejected {ε : Type} (a : AEAD) (hl : a.Laws) {g : SNetcodeClient} (hw : WfC g) {gbuf : List Nat}
    (hb : BytesOk gbuf) (hbl : gbuf.length + 16 < 2 ^ 64)
    (hdup : (Src.renetcode.replay_protection.ReplayProtection.already_received g.replay_protection (gWireSeq gbuf)
      : Res ε Bool) = .ok true) (g' : SNetcodeClient) (buf' gp : List Nat) :
    @NetcodeClient.process_packet (aeadOf a) ε g gbuf ≠ .ok (g', buf', some gp) := by
  intro h
  obtain ⟨_, dbuf, w', sq, _, hsq, hfresh, _⟩ := payload_only_if_opened (ε := ε) a hl hw hb hbl h
  subst hsq
  rw [hdup] at hfresh
  cases hfresh

/-- **C04 `client_genuine_accepted`**: a `Connected` client surfaces a genuine payload packet — what the generated
    `Packet::encode` makes of `Payload(gp)` under the token's protocol id, a `u64` sequence number `sq` and the
    server-to-client key — whenever the generated `already_received(window, sq)` says `false`; the window is then advanced by
    the generated `advance_sequence(sq)` and the receive timer := now. -/
theorem genuine_accepted {ε : Type} (a : AEAD) (hl : a.Laws) {g : SNetcodeClient} (hw : WfC g)
    (hst : g.state = .Connected) {gp : List Nat} (hgp : BytesOk gp) {sq : Nat} (hsq : sq < 2 ^ 64) {o : List Nat}
    (henc : CEncodes a g (.Payload gp) sq g.connect_token.server_to_client_key o)
    (hfresh : (Src.renetcode.replay_protection.ReplayProtection.already_received g.replay_protection sq : Res ε Bool)
      = .ok false) :
    ∃ g' buf' w', (Src.renetcode.replay_protection.ReplayProtection.advance_sequence g.replay_protection sq : Res ε _)
        = .ok (w', ()) ∧
      @NetcodeClient.process_packet (aeadOf a) ε g o = .ok (g', buf', some gp) ∧
      g' = { g with replay_protection := w', last_packet_received_time := g.current_time } := by
  obtain ⟨c, out, hout, rfl⟩ := wfC_cases hw
  have hr : CliRepr (reprNC out c) c := cliRepr_mk hout c
  obtain ⟨p, rfl⟩ := (bytesOk_iff gp).1 hgp
  have hst' : c.state = .connected := reprCSt_inj (x := c.state) (y := .connected) hst
  obtain ⟨d, hme, rfl⟩ := cencodes_pull a hl hr (p := .payload p) (key := c.connectToken.serverToClientKey) henc
  have hout' : d = Packet.sealedBytes a (.payload p) c.connectToken.protocolId sq c.connectToken.serverToClientKey ∧
      d.length + 16 < 2 ^ 64 := by
    rw [Packet.encode_sealed_eq a (.payload p) _ _ _ _ (by intro h; cases h)] at hme
    split at hme
    · rename_i hcap
      cases hme
      refine ⟨rfl, ?_⟩
      rw [Packet.sealed_length a (.payload p) _ sq _ hl]
      have : C.NETCODE_MAX_PACKET_BYTES = 1400 := rfl
      omega
    · cases hme
  obtain ⟨hd, hlen⟩ := hout'
  have hfresh' : c.replayProtection.alreadyReceived sq = false := by
    have h2 : (Src.renetcode.replay_protection.ReplayProtection.already_received (reprRP c.replayProtection) sq : Res ε Bool)
        = .ok false := hfresh
    rw [already_received_eq _ _ hsq] at h2
    exact Res.ok.inj h2
  have hm := C04.client_genuine_accepted a hl c hst' p hsq hfresh'
  rw [← hd] at hm
  rcases cli_process_packet_tie (ε := ε) a hl hr d hlen with ⟨r, c', g', buf', hm2, hr', ho, hg⟩ | ⟨⟨m, hp⟩, _⟩
  · rw [hm] at hm2; cases hm2
    refine ⟨g', buf', reprRP (c.replayProtection.advance sq), advance_sequence_eq _ _ hsq, hg, ?_⟩
    have := hr'.2
    rw [ho] at this
    exact this
  · rw [hm] at hp; cases hp

/-! ## C18 (client half) — time-out, fail-over -/

/-- INTRINSIC: the client's server has been silent for more than the token's timeout at time `now` -/
def GCTimedOut (g : SNetcodeClient) (now : Nat) : Prop :=
  g.connect_token.timeout_seconds > 0 ∧
    g.last_packet_received_time + RustSem.Duration.from_secs g.connect_token.timeout_seconds.toNat < now

/-- INTRINSIC: none of the three `Duration` operations of `update(d)` overflows / underflows -/
def GClockOK (g : SNetcodeClient) (d : Nat) : Prop :=
  g.current_time + d ≤ RustSem.Duration.MAX ∧ g.connect_start_time ≤ g.current_time + d ∧
  g.last_packet_received_time + RustSem.Duration.from_secs g.connect_token.timeout_seconds.toNat ≤ RustSem.Duration.MAX

/-- INTRINSIC side conditions of the tie of `update_internal_state`: the token's timeout is an `i32`, the address index a
    `usize` with room for `+ 1` -/
def GTieOK (g : SNetcodeClient) : Prop := g.connect_token.timeout_seconds < 2 ^ 31 ∧ g.server_addr_index + 1 < 2 ^ 64

instance (g : SNetcodeClient) (now : Nat) : Decidable (GCTimedOut g now) := by unfold GCTimedOut; infer_instance
instance (g : SNetcodeClient) (d : Nat) : Decidable (GClockOK g d) := by unfold GClockOK; infer_instance
instance (g : SNetcodeClient) : Decidable (GTieOK g) := by unfold GTieOK; infer_instance

theorem clockOK_repr {out : List Nat} {c : Netcode.NetcodeClient} {d : Nat} (h : GClockOK (reprNC out c) d) : NS.ClockOK c d :=
  ⟨h.1, h.2.1, h.2.2⟩

/-- **C18 `client_timeout`, on the generated `update`.**  State: `WfC g`, `g.state = Connected`, `GTieOK g`, `GClockOK g d`.
    A connected client that received nothing decodable for more than the token's timeout (`GCTimedOut`, intrinsic)
    disconnects at the next generated `update(d)` with reason `ConnectionTimedOut` and sends nothing; only the clock and the
    state change (and the scratch buffer is some buffer). -/
theorem client_timeout {ε : Type} (a : AEAD) (hl : a.Laws) {g : SNetcodeClient} (hw : WfC g) (hst : g.state = .Connected)
    (htie : GTieOK g) {d : Nat} (hok : GClockOK g d) (hto : GCTimedOut g (g.current_time + d)) :
    ∃ g', @NetcodeClient.update (aeadOf a) ε g d = .ok (g', none) ∧
      g' = { g with out := g'.out, current_time := g.current_time + d, state := .Disconnected .ConnectionTimedOut } := by
  obtain ⟨c, out, hout, rfl⟩ := wfC_cases hw
  have hr : CliRepr (reprNC out c) c := cliRepr_mk hout c
  have hst' : c.state = .connected := reprCSt_inj (x := c.state) (y := .connected) hst
  have hm := C18.client_timeout a hst' (clockOK_repr hok) hto
  rcases cli_update_tie (ε := ε) a hl hr htie.1 htie.2 d with ⟨r, c', g', hm2, hr', hg⟩ | ⟨⟨m, hp⟩, _⟩
  · rw [hm] at hm2; cases hm2
    exact ⟨g', hg, hr'.2⟩
  · rw [hm] at hp; cases hp

/-- **C18 `client_keeps`, on the generated `update_internal_state`**: a connected client that is not timed out stays
    connected — only the clock moves. -/
theorem client_keeps {g : SNetcodeClient} (hw : WfC g) (hst : g.state = .Connected) (htie : GTieOK g) {d : Nat}
    (hok : GClockOK g d) (hto : ¬ GCTimedOut g (g.current_time + d)) :
    NetcodeClient.update_internal_state g d = .ok ({ g with current_time := g.current_time + d }, ()) := by
  obtain ⟨c, out, hout, rfl⟩ := wfC_cases hw
  have hr : CliRepr (reprNC out c) c := cliRepr_mk hout c
  have hst' : c.state = .connected := reprCSt_inj (x := c.state) (y := .connected) hst
  have hm := C18.client_keeps hst' (clockOK_repr hok) hto
  rcases cli_update_internal_tie hr htie.1 htie.2 d with ⟨c', g', hm2, hr', ho, hg⟩ | ⟨e, c', g', hm2, _⟩ | ⟨⟨m, hp⟩, _⟩
  · rw [hm] at hm2; cases hm2
    rw [hg]
    have := hr'.2
    rw [ho] at this
    rw [this]; rfl
  · rw [hm] at hm2; cases hm2
  · rw [hm] at hp; cases hp

/-- INTRINSIC: the two connecting states -/
def GConnecting (g : SNetcodeClient) : Prop :=
  g.state = .SendingConnectionRequest ∨ g.state = .SendingConnectionResponse

/-- seconds the connect token allows for the handshake (`expire_timestamp.saturating_sub(create_timestamp)`) -/
def gTokenWindow (g : SNetcodeClient) : Nat := g.connect_token.expire_timestamp - g.connect_token.create_timestamp

theorem connecting_repr {out : List Nat} {c : Netcode.NetcodeClient} (h : GConnecting (reprNC out c)) : NS.Connecting c := by
  rcases h with h | h
  · exact .inl (reprCSt_inj (x := c.state) (y := .sendingConnectionRequest) h)
  · exact .inr (reprCSt_inj (x := c.state) (y := .sendingConnectionResponse) h)

/-- **C18 `failover`, on the generated `update_internal_state`.**  State: `WfC g`, connecting (request or response phase),
    `GTieOK g`, `GClockOK g d`, token time left, the current server silent for the timeout, and the token lists a next
    address `gnext` at index `server_addr_index + 1 < 32`.  Then the generated `update_internal_state(d)` returns `Ok` and
    the client starts over at the next address: state `SendingConnectionRequest`, `server_addr = gnext`, index + 1, fresh
    connect-start / receive timers, send timer cleared, same token, same sequence number. -/
theorem failover {g : SNetcodeClient} (hw : WfC g) (hst : GConnecting g) (htie : GTieOK g) {d : Nat} (hok : GClockOK g d)
    (hwin : RustSem.Duration.as_secs (g.current_time + d - g.connect_start_time) < gTokenWindow g)
    (hto : GCTimedOut g (g.current_time + d)) {gnext : RustSem.SocketAddr}
    (hnext : g.connect_token.server_addresses[g.server_addr_index + 1]? = some (some gnext))
    (hidx : g.server_addr_index + 1 < 32) :
    ∃ g', NetcodeClient.update_internal_state g d = .ok (g', ()) ∧ g'.state = .SendingConnectionRequest ∧
      g'.server_addr = gnext ∧ g'.server_addr_index = g.server_addr_index + 1 ∧
      g'.connect_start_time = g.current_time + d ∧ g'.last_packet_received_time = g.current_time + d ∧
      g'.last_packet_send_time = none ∧ g'.current_time = g.current_time + d ∧ g'.connect_token = g.connect_token ∧
      g'.sequence = g.sequence ∧ g'.out = g.out := by
  obtain ⟨c, out, hout, rfl⟩ := wfC_cases hw
  have hr : CliRepr (reprNC out c) c := cliRepr_mk hout c
  have hnext' : ∃ next, c.connectToken.serverAddresses[c.serverAddrIndex + 1]? = some (some next) ∧ gnext = reprAddr next := by
    have h1 : (reprAddrs c.connectToken.serverAddresses)[c.serverAddrIndex + 1]? = some (some gnext) := hnext
    rw [reprAddrs, List.getElem?_map] at h1
    cases hx : c.connectToken.serverAddresses[c.serverAddrIndex + 1]? with
    | none => rw [hx] at h1; cases h1
    | some oa =>
      rw [hx] at h1
      cases oa with
      | none => cases h1
      | some x => exact ⟨x, rfl, by simpa using h1.symm⟩
  obtain ⟨next, hn, rfl⟩ := hnext'
  obtain ⟨c', hm, h1, h2, h3, h4, h5, h6, h7, h8, h9⟩ :=
    C18.failover (connecting_repr hst) (clockOK_repr hok) hwin hto hn hidx
  rcases cli_update_internal_tie hr htie.1 htie.2 d with ⟨c2, g', hm2, hr', ho, hg⟩ | ⟨e, c2, g', hm2, _⟩ | ⟨⟨m, hp⟩, _⟩
  · rw [hm] at hm2; cases hm2
    refine ⟨g', hg, ?_, ?_, ?_, ?_, ?_, ?_, ?_, ?_, ?_, ho⟩
    · rw [hr'.state, h1]; rfl
    · rw [hr'.server_addr, h2]
    · rw [hr'.addr_index, h3]; rfl
    · rw [hr'.start_time, h4]; rfl
    · rw [hr'.recv_time, h5]; rfl
    · rw [hr'.2]; exact h6
    · rw [hr'.current_time, h7]; rfl
    · rw [hr'.token, h8]; rfl
    · rw [hr'.sequence, h9]; rfl
  · rw [hm] at hm2; cases hm2
  · rw [hm] at hp; cases hp

/-- **C18 `client_token_expired`, on the generated `update_internal_state`**: the token's lifetime is over before the
    handshake completed: `Err(Expired)` carrying the state `Disconnected(ConnectTokenExpired)`. -/
theorem client_token_expired {g : SNetcodeClient} (hw : WfC g) (hst : GConnecting g) (htie : GTieOK g) {d : Nat}
    (hok : GClockOK g d)
    (hwin : gTokenWindow g ≤ RustSem.Duration.as_secs (g.current_time + d - g.connect_start_time)) :
    NetcodeClient.update_internal_state g d =
      .err (.Expired, { g with current_time := g.current_time + d, state := .Disconnected .ConnectTokenExpired }) := by
  obtain ⟨c, out, hout, rfl⟩ := wfC_cases hw
  have hr : CliRepr (reprNC out c) c := cliRepr_mk hout c
  have hm := C18.client_token_expired (connecting_repr hst) (clockOK_repr hok) hwin
  rcases cli_update_internal_tie hr htie.1 htie.2 d with ⟨c', g', hm2, _⟩ | ⟨e, c', g', hm2, hr', ho, hg⟩ | ⟨⟨m, hp⟩, _⟩
  · rw [hm] at hm2; cases hm2
  · rw [hm] at hm2; cases hm2
    rw [hg]
    have := hr'.2
    rw [ho] at this
    rw [this]; rfl
  · rw [hm] at hp; cases hp

/-- **C18 `client_connect_timeout`, on the generated `update_internal_state`**: a connecting client whose server stayed
    silent for the timeout, with token time left and NO further server address (index + 1 = 32, or the next token slot is
    empty), gives up: `Err(NoMoreServers)` carrying the state `Disconnected(ConnectionRequestTimedOut)` resp.
    `Disconnected(ConnectionResponseTimedOut)`. -/
theorem client_connect_timeout {g : SNetcodeClient} (hw : WfC g) (hst : GConnecting g) (htie : GTieOK g) {d : Nat}
    (hok : GClockOK g d)
    (hwin : RustSem.Duration.as_secs (g.current_time + d - g.connect_start_time) < gTokenWindow g)
    (hto : GCTimedOut g (g.current_time + d))
    (hlast : 32 ≤ g.server_addr_index + 1 ∨ g.connect_token.server_addresses[g.server_addr_index + 1]? = some none) :
    ∃ g', NetcodeClient.update_internal_state g d = .err (.NoMoreServers, g') ∧
      g'.state = .Disconnected (if g.state = .SendingConnectionResponse then .ConnectionResponseTimedOut
                                else .ConnectionRequestTimedOut) := by
  obtain ⟨c, out, hout, rfl⟩ := wfC_cases hw
  have hr : CliRepr (reprNC out c) c := cliRepr_mk hout c
  have hlast' : C.NETCODE_TOKEN_MAX_ADDRESSES ≤ c.serverAddrIndex + 1 ∨
      c.connectToken.serverAddresses[c.serverAddrIndex + 1]? = some none := by
    rcases hlast with h | h
    · exact .inl h
    · right
      have h1 : (reprAddrs c.connectToken.serverAddresses)[c.serverAddrIndex + 1]? = some none := h
      rw [reprAddrs, List.getElem?_map] at h1
      cases hx : c.connectToken.serverAddresses[c.serverAddrIndex + 1]? with
      | none => rw [hx] at h1; cases h1
      | some oa =>
        rw [hx] at h1
        cases oa with
        | none => rfl
        | some x => cases h1
  obtain ⟨c', hm, hst'⟩ := C18.client_connect_timeout (connecting_repr hst) (clockOK_repr hok) hwin hto hlast'
  rcases cli_update_internal_tie hr htie.1 htie.2 d with ⟨c2, g', hm2, _⟩ | ⟨e, c2, g', hm2, hr', ho, hg⟩ | ⟨⟨m, hp⟩, _⟩
  · rw [hm] at hm2; cases hm2
  · rw [hm] at hm2; cases hm2
    refine ⟨g', hg, ?_⟩
    rw [hr'.state, hst']
    have hs : ((reprNC out c).state = .SendingConnectionResponse) = (c.state = .sendingConnectionResponse) :=
      reprCSt_eq_iff c.state .sendingConnectionResponse
    by_cases hc : c.state = .sendingConnectionResponse
    · rw [if_pos hc, if_pos (hs.mpr hc)]; rfl
    · rw [if_neg hc, if_neg (fun h => hc (hs.mp h))]; rfl
  · rw [hm] at hp; cases hp

/-! ## C17 (client half) — the nonce discipline of one call -/

/-- **C17 (client), `generate_payload_packet`.**  State: `WfC g`.  When the generated `generate_payload_packet(p)` returns
    `Ok((addr, o))` the client is `Connected`, `addr` is its server address, `o` is the generated encoding of `Payload(p)` under
    `(g.sequence, client_to_server_key)` — the sequence number is the nonce —, and afterwards the client is the same with
    `sequence + 1` and send timer := now.  So consecutive datagrams of a client carry strictly increasing sequence numbers
    under the one client-to-server key of its token. -/
theorem generate_payload_spec (a : AEAD) (hl : a.Laws) {g : SNetcodeClient} (hw : WfC g) {gp : List Nat} (hb : BytesOk gp)
    {g' : SNetcodeClient} {gad : RustSem.SocketAddr} {o : List Nat}
    (h : @NetcodeClient.generate_payload_packet (aeadOf a) g gp = .ok (g', (gad, o))) :
    g.state = .Connected ∧ gad = g.server_addr ∧
      CEncodes a g (.Payload gp) g.sequence g.connect_token.client_to_server_key o ∧
      g' = { g with out := g'.out, sequence := g.sequence + 1, last_packet_send_time := some g.current_time } := by
  obtain ⟨c, out, hout, rfl⟩ := wfC_cases hw
  have hr : CliRepr (reprNC out c) c := cliRepr_mk hout c
  obtain ⟨payload, rfl⟩ := (bytesOk_iff gp).1 hb
  rcases cli_generate_payload_tie a hl hr payload with ⟨addr, d, c', g2, hm, hr', hg⟩ | ⟨e, g2, hm, hr', hg⟩ | ⟨_, m, hp⟩
  · rw [hg] at h
    simp only [Res.ok.injEq, Prod.mk.injEq] at h
    obtain ⟨rfl, rfl, rfl⟩ := h
    obtain ⟨hst, rfl, henc, rfl⟩ := cli_generatePayload_ok hm
    exact ⟨by show reprCSt c.state = _; rw [hst]; rfl, rfl, cencodes_push a hl hr henc, hr'.2⟩
  · rw [hg] at h; cases h
  · rw [hp] at h; cases h

/-- **C17 (client), `generate_packet`** (the periodic sender: connection request / response / keep-alive).  State: `WfC g`.
    When the generated `generate_packet` returns a datagram `o`, it is the generated encoding of some packet under
    `(g.sequence, client_to_server_key)` and afterwards `sequence = g.sequence + 1`; when it returns nothing the sequence
    number is unchanged.  Token (hence key and protocol id) and state are unchanged in both cases. -/
theorem generate_packet_spec {ε : Type} (a : AEAD) (hl : a.Laws) {g : SNetcodeClient} (hw : WfC g) {g' : SNetcodeClient}
    {r : Option (List Nat × RustSem.SocketAddr)}
    (h : @NetcodeClient.generate_packet (aeadOf a) ε g = .ok (g', r)) :
    g'.connect_token = g.connect_token ∧ g'.state = g.state ∧ (r = none → g'.sequence = g.sequence) ∧
      ∀ o gad, r = some (o, gad) → g'.sequence = g.sequence + 1 ∧ g.sequence + 1 < 2 ^ 64 ∧
        ∃ pkt, CEncodes a g pkt g.sequence g.connect_token.client_to_server_key o := by
  obtain ⟨c, out, hout, rfl⟩ := wfC_cases hw
  have hr : CliRepr (reprNC out c) c := cliRepr_mk hout c
  rcases cli_generate_packet_tie (ε := ε) a hl hr with ⟨r2, c', g2, hm, hr', hg⟩ | ⟨_, m, hp⟩
  · rw [hg] at h
    simp only [Res.ok.injEq, Prod.mk.injEq] at h
    obtain ⟨rfl, rfl⟩ := h
    obtain ⟨h1, h2, _, h4, h5⟩ := NcAead.Cl.gen_spec hm
    refine ⟨by rw [hr'.token, h1]; rfl, by rw [hr'.state, h2]; rfl, ?_, ?_⟩
    · intro hn
      have : r2 = none := by cases r2 <;> first | rfl | cases hn
      rw [hr'.sequence, h4 this]; rfl
    · intro o gad ho
      cases r2 with
      | none => cases ho
      | some x =>
        obtain ⟨d, ad⟩ := x
        simp only [Option.map_some, Option.some.injEq, Prod.mk.injEq] at ho
        obtain ⟨rfl, rfl⟩ := ho
        obtain ⟨h6, h7, p, _, h8⟩ := h5 d ad rfl
        exact ⟨by rw [hr'.sequence, h6]; rfl, h7, reprNP p, cencodes_push a hl hr h8⟩
  · rw [hp] at h; cases h

/-- **C17 (client), `update`**: the same for the public `update(d)` (clock / time-out / fail-over step, then
    `generate_packet`): an emitted datagram is sealed under `(g.sequence, client_to_server_key)` and `sequence` becomes
    `g.sequence + 1`; no datagram, no change of `sequence`; the token never changes. -/
theorem update_nonce_step {ε : Type} (a : AEAD) (hl : a.Laws) {g : SNetcodeClient} (hw : WfC g) (htie : GTieOK g) {d : Nat}
    {g' : SNetcodeClient} {r : Option (List Nat × RustSem.SocketAddr)}
    (h : @NetcodeClient.update (aeadOf a) ε g d = .ok (g', r)) :
    g'.connect_token = g.connect_token ∧ (r = none → g'.sequence = g.sequence) ∧
      ∀ o gad, r = some (o, gad) → g'.sequence = g.sequence + 1 ∧ g.sequence + 1 < 2 ^ 64 ∧
        ∃ pkt, CEncodes a g pkt g.sequence g.connect_token.client_to_server_key o := by
  obtain ⟨c, out, hout, rfl⟩ := wfC_cases hw
  have hr : CliRepr (reprNC out c) c := cliRepr_mk hout c
  rcases cli_update_tie (ε := ε) a hl hr htie.1 htie.2 d with ⟨r2, c', g2, hm, hr', hg⟩ | ⟨_, m, hp⟩
  · rw [hg] at h
    simp only [Res.ok.injEq, Prod.mk.injEq] at h
    obtain ⟨rfl, rfl⟩ := h
    obtain ⟨e, c1, hu, hcase⟩ := NcAead.Cl.update_eq hm
    obtain ⟨u1, u2, _, _⟩ := NcAead.Cl.uis_spec hu
    rcases hcase with ⟨_, rfl, rfl⟩ | ⟨_, hgen⟩
    · refine ⟨by rw [hr'.token, u1]; rfl, fun _ => by rw [hr'.sequence, u2]; rfl, fun o gad ho => by cases ho⟩
    · obtain ⟨h1, _, _, h4, h5⟩ := NcAead.Cl.gen_spec hgen
      refine ⟨by rw [hr'.token, h1, u1]; rfl, ?_, ?_⟩
      · intro hn
        have : r2 = none := by cases r2 <;> first | rfl | cases hn
        rw [hr'.sequence, h4 this, u2]; rfl
      · intro o gad ho
        cases r2 with
        | none => cases ho
        | some x =>
          obtain ⟨dg, ad⟩ := x
          simp only [Option.map_some, Option.some.injEq, Prod.mk.injEq] at ho
          obtain ⟨rfl, rfl⟩ := ho
          obtain ⟨h6, h7, p, _, h8⟩ := h5 dg ad rfl
          rw [u2] at h6 h7 h8
          have h8' : p.encode a C.NETCODE_MAX_PACKET_BYTES c.connectToken.protocolId
              (some (c.sequence, c.connectToken.clientToServerKey)) = .ok dg := by
            have e1 : NcAead.Cl.proto c1 = c.connectToken.protocolId := by show c1.connectToken.protocolId = _; rw [u1]
            have e2 : NcAead.Cl.key c1 = c.connectToken.clientToServerKey := by
              show c1.connectToken.clientToServerKey = _; rw [u1]
            rw [e1, e2] at h8; exact h8
          exact ⟨by rw [hr'.sequence, h6]; rfl, h7, reprNP p, cencodes_push a hl hr h8'⟩
  · rw [hp] at h; cases h

/-! ## concrete instances: the hypotheses are satisfiable (example clients of `Lemmas/NcExamples.lean`, used by Props/C05, C18,
    through the representation map, zeroed scratch buffer); evaluations run on the generated text -/
set_option maxRecDepth 100000
section examples
open NS.Ex

/-! the clients of `Lemmas/NcExamples.lean` (AEAD `Ex.a`): `cA4` = A connected (sequence 2, last packet at 0.25 s, window has
    seen 0), `cA0` = A before its first request, `cF` = a requesting client whose token lists two servers -/
def gA4 : SNetcodeClient := reprNC out0 cA4
def gA0 : SNetcodeClient := reprNC out0 cA0
def gF : SNetcodeClient := reprNC out0 cF
theorem gA4_wf : WfC gA4 := ⟨cA4, cliRepr_mk out0_len _⟩
theorem gA0_wf : WfC gA0 := ⟨cA0, cliRepr_mk out0_len _⟩
theorem gF_wf : WfC gF := ⟨cF, cliRepr_mk out0_len _⟩

/-- C07: a forged keep-alive: never a panic; the generated `decode` says `CryptoError`, the client is unchanged -/
example : NoPanic (@NetcodeClient.process_packet (aeadOf a) Empty gA4 (toNats forgedKa)) :=
  process_packet_no_panic a exA_laws gA4_wf (bytesOk_toNats _) (by rw [toNats_length]; decide)
example : ∃ g' buf', @NetcodeClient.process_packet (aeadOf a) Empty gA4 (toNats forgedKa) = .ok (g', buf', none) ∧ g' = gA4 := by
  obtain ⟨g', buf', h, hcase⟩ := decode_error_noop (ε := Empty) a exA_laws gA4_wf (bytesOk_toNats forgedKa)
    (by rw [toNats_length]; decide) (ge := .CryptoError) (st := (toNats forgedKa, some (reprRP (RP.new.advance 0))))
    (by decide +kernel)
  rcases hcase with ⟨_, h2⟩ | ⟨h2, _⟩
  · exact ⟨g', buf', h, h2⟩
  · cases h2

/-- C04: a genuine payload `[7, 7]` from the server, sequence 1, under the server-to-client key -/
def payS : List Nat := [21, 1, 7, 7] ++ List.replicate 16 0
theorem payS_enc : CEncodes a gA4 (.Payload [7, 7]) 1 gA4.connect_token.server_to_client_key payS :=
  ⟨payS ++ List.replicate (1400 - 20) 0, by decide +kernel, by decide +kernel⟩
theorem gA4_accepts : ∃ g' buf' w', (Src.renetcode.replay_protection.ReplayProtection.advance_sequence gA4.replay_protection 1
      : Res Empty _) = .ok (w', ()) ∧
    @NetcodeClient.process_packet (aeadOf a) Empty gA4 payS = .ok (g', buf', some [7, 7]) ∧
    g' = { gA4 with replay_protection := w', last_packet_received_time := gA4.current_time } :=
  genuine_accepted (ε := Empty) a exA_laws gA4_wf rfl (gp := [7, 7]) (by decide) (sq := 1) (by decide) payS_enc
    (by decide +kernel)
/-- … `payload_only_if_opened` applies to that call, and afterwards the same datagram is a replay -/
example : ∃ dbuf w' sq, decodeC a gA4 payS = .ok (dbuf, some w', (sq, .Payload [7, 7])) ∧ sq = gWireSeq payS := by
  obtain ⟨g', buf', w', _, h, _⟩ := gA4_accepts
  obtain ⟨_, dbuf, w2, sq, h1, h2, _⟩ := payload_only_if_opened (ε := Empty) a exA_laws gA4_wf (by decide) (by decide) h
  exact ⟨dbuf, w2, sq, h1, h2⟩
example : gWireSeq payS = 1 := by decide
example : (match @NetcodeClient.process_packet (aeadOf a) Empty gA4 payS with
    | .ok (g', _, _) => (match @NetcodeClient.process_packet (aeadOf a) Empty g' payS with
        | .ok (_, _, r) => some r | _ => none)
    | _ => none) = some none := by decide +kernel

/-- C18: A's server silent since 0.25 s, timeout 5 s: timed out 5 s + 1 ns later, kept at exactly 5 s -/
example : ∃ g', @NetcodeClient.update (aeadOf a) Empty gA4 5000000001 = .ok (g', none) ∧
    g' = { gA4 with out := g'.out, current_time := gA4.current_time + 5000000001, state := .Disconnected .ConnectionTimedOut } :=
  client_timeout (ε := Empty) a exA_laws gA4_wf rfl (by decide) (by decide) (by decide)
example : NetcodeClient.update_internal_state gA4 5000000000 = .ok ({ gA4 with current_time := gA4.current_time + 5000000000 }, ()) :=
  client_keeps gA4_wf rfl (by decide) (by decide) (by decide)
/-- fail-over to the second listed server -/
example : ∃ g', NetcodeClient.update_internal_state gF 5000000001 = .ok (g', ()) ∧ g'.state = .SendingConnectionRequest ∧
    g'.server_addr = reprAddr srv2 ∧ g'.server_addr_index = 1 := by
  obtain ⟨g', h, h1, h2, h3, _⟩ := failover gF_wf (.inl rfl) (by decide) (d := 5000000001) (by decide) (by decide) (by decide)
    (gnext := reprAddr srv2) (by decide +kernel) (by decide)
  exact ⟨g', h, h1, h2, h3⟩
/-- the token's 30 s are over -/
example : NetcodeClient.update_internal_state gA0 30000000000 =
    .err (.Expired, { gA0 with current_time := gA0.current_time + 30000000000, state := .Disconnected .ConnectTokenExpired }) :=
  client_token_expired gA0_wf (.inl rfl) (by decide) (by decide) (by decide)

/-- C17: the first `update` of A sends the connection request and moves the counter 0 → 1; a payload of the connected A is
    sealed under its counter 2, which becomes 3 -/
example : ∀ g' r, @NetcodeClient.update (aeadOf a) Empty gA0 0 = .ok (g', r) →
    (r = none → g'.sequence = gA0.sequence) ∧ ∀ o gad, r = some (o, gad) → g'.sequence = gA0.sequence + 1 :=
  fun _ _ h =>
    let t := update_nonce_step (ε := Empty) a exA_laws gA0_wf (by decide) h
    ⟨t.2.1, fun o gad ho => (t.2.2 o gad ho).1⟩
example : (match @NetcodeClient.update (aeadOf a) Empty gA0 0 with
    | .ok (g', some (o, _)) => some (o == toNats reqA, g'.sequence) | _ => none) = some (true, 1) := by decide +kernel
example : ∀ g' gad o, @NetcodeClient.generate_payload_packet (aeadOf a) gA4 [5] = .ok (g', (gad, o)) →
    CEncodes a gA4 (.Payload [5]) gA4.sequence gA4.connect_token.client_to_server_key o ∧
      g' = { gA4 with out := g'.out, sequence := gA4.sequence + 1, last_packet_send_time := some gA4.current_time } :=
  fun _ _ _ h =>
    let t := generate_payload_spec a exA_laws gA4_wf (gp := [5]) (by decide) h
    ⟨t.2.2.1, t.2.2.2⟩
example : (match @NetcodeClient.generate_payload_packet (aeadOf a) gA4 [5] with
    | .ok (g', (_, o)) => some (o, g'.sequence) | _ => none) = some ([21, 2, 5] ++ List.replicate 16 0, 3) := by decide +kernel

end examples

end RenetVerif.SrcPropsNc.Client
