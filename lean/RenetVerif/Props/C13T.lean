/-
  C13, last clause: "… at most NETCODE_MAX_PACKET_BYTES (1400), the size of the transports' receive buffers.
  Otherwise the transport would drop that client's traffic every tick."

  The transports read the socket with `recv_from(&mut self.buffer)`, which cuts a longer datagram to the
  buffer (`Transport.recvFrom`, applied by the transport driver to everything a model socket hands out).  The
  buffer sizes are read from renet_netcode's source on every run (`Generated/Consts`).  Every datagram either
  netcode endpoint emits passes `recvFrom` unchanged, for both transports, so truncation never happens to
  genuine traffic — for any payload within the limit, any sequence number, any key.
-/
import RenetVerif.Props.C13N
import RenetVerif.Transport.Glue
namespace RenetVerif.C13T
open RenetVerif RenetVerif.Netcode RenetVerif.Netcode.Packet RenetVerif.Transport

theorem recvFrom_id_of_le {cap : Nat} (d : Dgram) (h : d.2.length ≤ cap) : recvFrom cap d = d := by
  unfold recvFrom
  rw [List.take_of_length_le h]

/-- a datagram of at most NETCODE_MAX_PACKET_BYTES is handed to the netcode layer whole by both transports -/
theorem recv_from_keeps_every_datagram (d : Dgram) (h : d.2.length ≤ Netcode.C.NETCODE_MAX_PACKET_BYTES) :
    recvFrom RenetVerif.C.TRANSPORT_SERVER_BUFFER d = d ∧ recvFrom RenetVerif.C.TRANSPORT_CLIENT_BUFFER d = d :=
  ⟨recvFrom_id_of_le d (Nat.le_trans h C13N.transport_buffers_hold_max_datagram.1),
   recvFrom_id_of_le d (Nat.le_trans h C13N.transport_buffers_hold_max_datagram.2)⟩

/-- server → client: whatever `generate_payload_packet` of the server emits reaches the client's netcode layer
    byte for byte -/
theorem server_payload_datagram_received_whole (a : AEAD) (hl : a.Laws) {s s' : NetcodeServer} {cid : Nat}
    {payload out : Bytes} {addr src : Addr}
    (h : NetcodeServer.generatePayloadPacket a s cid payload = .ok ((addr, out), s')) :
    recvFrom RenetVerif.C.TRANSPORT_CLIENT_BUFFER (src, out) = (src, out) :=
  (recv_from_keeps_every_datagram (src, out) (C13N.server_generate_payload_packet a hl h)).2

/-- client → server -/
theorem client_payload_datagram_received_whole (a : AEAD) (hl : a.Laws) {c c' : NetcodeClient}
    {payload out : Bytes} {addr src : Addr}
    (h : NetcodeClient.generatePayloadPacket a c payload = .ok ((addr, out), c')) :
    recvFrom RenetVerif.C.TRANSPORT_SERVER_BUFFER (src, out) = (src, out) :=
  (recv_from_keeps_every_datagram (src, out) (C13N.client_generate_payload_packet a hl h)).1

/-- handshake, keep-alive and disconnect datagrams of the server (`update_client`, `disconnect`,
    `process_packet` answers) -/
theorem server_control_datagram_received_whole (a : AEAD) (hl : a.Laws) {p : Netcode.Packet} {cap proto : Nat}
    {crypto : Option (Nat × Bytes)} {out : Bytes} {src : Addr}
    (h : Netcode.Packet.encode a p cap proto crypto = .ok out) (hc : cap ≤ Netcode.C.NETCODE_MAX_PACKET_BYTES) :
    recvFrom RenetVerif.C.TRANSPORT_CLIENT_BUFFER (src, out) = (src, out) ∧
    recvFrom RenetVerif.C.TRANSPORT_SERVER_BUFFER (src, out) = (src, out) :=
  have hle : out.length ≤ Netcode.C.NETCODE_MAX_PACKET_BYTES := Nat.le_trans (C13N.encode_fits_buffer a hl h) hc
  ⟨(recv_from_keeps_every_datagram (src, out) hle).2, (recv_from_keeps_every_datagram (src, out) hle).1⟩

/-! ### non-vacuity, and the witness that a smaller buffer would lose traffic -/

/-- the largest legal payload (1300 bytes) under the largest sequence number: a 1325-byte datagram survives -/
example : recvFrom RenetVerif.C.TRANSPORT_CLIENT_BUFFER
      (.v4 [1, 2, 3, 4] 5, sealedBytes AEAD.toy (.payload C13N.big) 42 (2 ^ 63) C13N.key)
    = (.v4 [1, 2, 3, 4] 5, sealedBytes AEAD.toy (.payload C13N.big) 42 (2 ^ 63) C13N.key) :=
  (recv_from_keeps_every_datagram _ (C13N.payload_encodes AEAD.toy AEAD.toy_laws C13N.big C13N.big_len 42 (2 ^ 63) C13N.key).2.2).2

/-- a receive buffer of NETCODE_MAX_PAYLOAD_BYTES (1300) would cut that datagram: the bound is needed -/
example : (recvFrom Netcode.C.NETCODE_MAX_PAYLOAD_BYTES
      ((.v4 [1, 2, 3, 4] 5 : Addr), sealedBytes AEAD.toy (.payload C13N.big) 42 (2 ^ 63) C13N.key)).2.length = 1300 := by
  decide +kernel

end RenetVerif.C13T
