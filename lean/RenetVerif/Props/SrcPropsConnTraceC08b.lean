/-
  C08 ON API TRACES OF THE GENERATED `RenetClient`, ENTIRELY IN TERMS OF BYTES THE GENERATED CODE EMITTED AND READ
  (closes `SrcPropsConnTraceC08.src_recorded_packet_was_emitted_partial`).

  `GConn` (`Lemmas/SrcEquiv/SrcConnSystem.lean`): one generated `RenetClient` from the generated `from_channels`, driven by ANY
  list of public operations `COp` (`process` with ARBITRARY bytes); `g.flushes` logs what every generated
  `get_packets_to_send` of the run RETURNED, in order.  `GDecodes b gp`: the generated `Packet::from_bytes` on a fresh cursor
  over `b` returns `gp`.  `GSerialises gp b`: the generated `Packet::to_bytes` of `gp` writes exactly `b`.

    * `src_recorded_packet_was_emitted`   every record `ps` under `seq` in the generated `sent_packets` (any reachable state) has a
                                          datagram `b` in the flush log which the GENERATED `from_bytes` reads back as a packet
                                          `gp` (the one the generated `to_bytes` wrote `b` for) with generated
                                          `Packet::sequence = seq`, and `ps.info` is what `get_packets_to_send` records for `gp`
                                          (`gRecordOf gp`: channel + the ids of the messages of a `SmallReliable`, channel /
                                          message id / slice index of a `ReliableSlice`, …).
    * `src_release_needs_emitted_and_acked`   one step of ANY kind: if message `id` leaves `unacked_messages`, the step is a
                                          `process_packet` whose bytes the generated decoder reads as an `Ack` packet, one of whose
                                          ranges covers a sequence number `seq`, and EARLIER a flush of the run returned a datagram
                                          that the generated decoder reads as a packet with sequence `seq` carrying message `id` of
                                          channel `ch` (`GCarriesMsg`).
    * `src_slice_mark_needs_emitted_and_acked`   the same for one slice: slice `i` of message `id` stops being pending only by an
                                          Ack covering the sequence of an emitted datagram that decodes to a `ReliableSlice` packet
                                          with exactly that message id and slice index (`GCarriesSlice`).
    * `src_flush_log_origin`, `src_release_end_to_end`   the flush log entry is the return value of the generated
                                          `get_packets_to_send` at a definite position of the trace; the end-to-end statement with
                                          that position made explicit: `… flush … process(Ack) …`.
    * `src_release_trace_emitted`         whole traces (the end-to-end statement): a message stored after `ops` and gone after
                                          `ops ++ ext` — `ext = ext1 ++ process bytes :: ext2`, `bytes` decode to an Ack covering
                                          `seq`, and the flush log of the run `ops ++ ext1` (so: before that `process_packet`)
                                          contains a datagram decoding to a packet with sequence `seq` that carries the message.

  Side conditions: `CRunInRange` (range condition of the source tie), `ChanBytes cfg` (configured send channel ids are bytes, `u8`
  in the Rust source) and `MsgLenOK ops` (every submitted message is at most `MAX_NUM_SLICES * SLICE_SIZE` bytes; needed —
  `SrcPropsConnTraceWF.oversized_message_rejected`: the decoder REJECTS what a longer message is turned into).

  Proofs: `Lemmas/SrcEquiv/SrcConnC08b.lean` (`SentEmittedWF`: `SrcConnC08.SentEmitted` with `Packet.WF` carried, its flush case
  by `FlushWF.flush_step_wf`) + `SrcPropsConnTraceWF.emitted_of` (C16 round trip through the ties) + the theorems of
  `SrcPropsConnTraceC08`.
-/
import RenetVerif.Lemmas.SrcEquiv.SrcConnC08b
import RenetVerif.Props.SrcPropsConnTraceWF
set_option maxRecDepth 100000
set_option linter.unusedVariables false
set_option linter.unusedSimpArgs false
namespace RenetVerif.SrcPropsConnTraceC08b
open RenetVerif RenetVerif.RustSem RenetVerif.C RenetVerif.System RenetVerif.SrcEquiv RenetVerif.SrcSystem RenetVerif.SrcConnSystem
open RenetVerif.SrcConnC08 RenetVerif.SrcConnC08b RenetVerif.SrcConnC15 RenetVerif.SI RenetVerif.FlushWF
open RenetVerif.SrcPropsConnTraceC08 RenetVerif.SrcPropsConnTraceWF
open Src.renet.remote_connection

/-- **a datagram of the flush log of `g` is a packet `gp` with sequence number `seq`**: some generated `get_packets_to_send` of
    the run behind `g` returned a datagram `b`; `b` is what the GENERATED `to_bytes` writes for `gp`; the GENERATED `from_bytes`
    reads `gp` from `b`; and the generated `Packet::sequence` of `gp` is `seq` -/
def GEmitted (g : GConn) (seq : Nat) (gp : GPacket) : Prop :=
  ∃ bs ∈ g.flushes, ∃ b ∈ bs, GSerialises gp b ∧ GDecodes b gp ∧
    (Src.renet.packet.Packet.sequence gp : Res Empty Nat) = .ok seq

/-! ## auxiliary: from the record to the packet's content -/

theorem gcarriesMsg_of_record {gp : GPacket} {info : PacketSentInfo} {ch id : Nat} (h : gRecordOf gp = some info)
    (hc : GCarried ch id info) : GCarriesMsg ch id gp := by
  cases gp with
  | SmallReliable s c m =>
    simp only [gRecordOf, Option.some.injEq] at h; subst h
    rcases hc with ⟨ids, e, hid⟩ | ⟨idx, e⟩
    · simp only [PacketSentInfo.ReliableMessages.injEq] at e
      obtain ⟨rfl, rfl⟩ := e
      obtain ⟨x, hx, rfl⟩ := List.mem_map.mp hid
      exact ⟨rfl, x, hx, rfl⟩
    · cases e
  | ReliableSlice s c sl =>
    simp only [gRecordOf, Option.some.injEq] at h; subst h
    rcases hc with ⟨ids, e, hid⟩ | ⟨idx, e⟩
    · cases e
    · simp only [PacketSentInfo.ReliableSliceMessage.injEq] at e
      exact ⟨e.1, e.2.1⟩
  | SmallUnreliable s c m =>
    simp only [gRecordOf, Option.some.injEq] at h; subst h
    rcases hc with ⟨ids, e, hid⟩ | ⟨idx, e⟩ <;> cases e
  | UnreliableSlice s c sl =>
    simp only [gRecordOf, Option.some.injEq] at h; subst h
    rcases hc with ⟨ids, e, hid⟩ | ⟨idx, e⟩ <;> cases e
  | Ack s r =>
    simp only [gRecordOf] at h
    cases hl : r.getLast? with
    | none => rw [hl] at h; cases h
    | some x =>
      rw [hl] at h; simp only [Option.map_some, Option.some.injEq] at h; subst h
      rcases hc with ⟨ids, e, hid⟩ | ⟨idx, e⟩ <;> cases e

theorem gcarriesSlice_of_record {gp : GPacket} {ch id i : Nat}
    (h : gRecordOf gp = some (.ReliableSliceMessage ch id i)) : GCarriesSlice ch id i gp := by
  cases gp with
  | SmallReliable s c m => simp only [gRecordOf, Option.some.injEq] at h; cases h
  | ReliableSlice s c sl =>
    simp only [gRecordOf, Option.some.injEq, PacketSentInfo.ReliableSliceMessage.injEq] at h
    exact h
  | SmallUnreliable s c m => simp only [gRecordOf, Option.some.injEq] at h; cases h
  | UnreliableSlice s c sl => simp only [gRecordOf, Option.some.injEq] at h; cases h
  | Ack s r =>
    simp only [gRecordOf] at h
    cases hl : r.getLast? with
    | none => rw [hl] at h; cases h
    | some x => rw [hl] at h; simp only [Option.map_some, Option.some.injEq] at h; cases h

theorem msgLenOK_prefix {ops ext : List COp} (h : MsgLenOK (ops ++ ext)) : MsgLenOK ops :=
  fun o ho => h o (List.mem_append_left _ ho)

/-! ## (1) every record of `sent_packets` is a datagram the generated code emitted, read back by the generated decoder -/

/-- **Every entry of the generated `sent_packets` is a datagram that a generated `get_packets_to_send` of the run returned, and
    the generated decoder reads that datagram back as the recorded packet** (full strength of
    `SrcPropsConnTraceC08.src_recorded_packet_was_emitted_partial`).  In the generated state after ANY run (send channel ids bytes,
    in range, submitted messages within the wire limit), a record `ps` under `seq` comes with a datagram `b` of the flush log and
    a generated packet `gp` such that: the generated `to_bytes` writes `b` for `gp`, the generated `from_bytes` reads `gp` from
    `b`, the generated `Packet::sequence` of `gp` is `seq`, and `ps.info` is exactly what `get_packets_to_send` records for `gp`
    (`gRecordOf`): `ReliableMessages ch (ids of the messages in gp)` for `SmallReliable`, `ReliableSliceMessage ch
    slice.message_id slice.slice_index` for `ReliableSlice`, `None` for the unreliable kinds, `Ack (last range end - 1)` for an
    Ack packet. -/
theorem src_recorded_packet_was_emitted (cfg : Cfg) (ops : List COp) (g : GConn) (hg : GConn.exec cfg ops = some g)
    (hrg : CRunInRange cfg ops) (hcb : ChanBytes cfg) (hl : MsgLenOK ops)
    (seq : Nat) (ps : PacketSent) (hf : RustSem.Map.find? g.cl.sent_packets seq = some ps) :
    ∃ gp : GPacket, GEmitted g seq gp ∧ gRecordOf gp = some ps.info := by
  obtain ⟨t, ht, sim⟩ := crun_sim_conv cfg ops g hrg hg
  obtain ⟨mrs, hC⟩ := sim.cl
  have hE := sentEmittedWF_trace cfg ops t hcb hrg.2 hl ht
  rw [hC, find_sent_repr] at hf
  cases hm : SMap.find? t.c.sent seq with
  | none => rw [hm] at hf; cases hf
  | some v =>
    obtain ⟨tm, info⟩ := v
    rw [hm] at hf; cases hf
    obtain ⟨bs, hbs, b, hb, p, henc, hlen, hwf, hseq, hinfo⟩ := hE seq tm info hm
    obtain ⟨e1, e2⟩ := emitted_of hwf henc hlen
    refine ⟨reprPacket p, ⟨bs.map toNats, ?_, toNats b, List.mem_map_of_mem hb, e1, e2, ?_⟩, gRecordOf_repr hinfo⟩
    · rw [sim.flushes]; exact List.mem_map_of_mem hbs
    · rw [packet_sequence_eq, hseq]

/-- the justification of `src_release_only_by_ack`, with the recorded packet replaced by the emitted datagram -/
theorem emitted_of_ackNames (cfg : Cfg) (ops : List COp) (g : GConn) (hg : GConn.exec cfg ops = some g)
    (hrg : CRunInRange cfg ops) (hcb : ChanBytes cfg) (hl : MsgLenOK ops) (bytes : Bytes) (P : PacketSentInfo → Prop)
    (h : GAckNames g.cl bytes P) :
    ∃ aseq ranges seq gp, GDecodes (toNats bytes) (.Ack aseq ranges) ∧ (∃ r ∈ ranges, r.start ≤ seq ∧ seq < r.«end») ∧
      GEmitted g seq gp ∧ ∃ info, gRecordOf gp = some info ∧ P info := by
  obtain ⟨aseq, ranges, seq, ps, hdec, hr, hfind, hP⟩ := h
  obtain ⟨gp, hem, hrec⟩ := src_recorded_packet_was_emitted cfg ops g hg hrg hcb hl seq ps hfind
  exact ⟨aseq, ranges, seq, gp, hdec, hr, hem, ps.info, hrec, hP⟩

/-! ## (2) one step: released only by an Ack covering the sequence of an emitted datagram that carried the message -/

/-- **C08, one step of ANY kind, in terms of emitted and received bytes only.**  `g` is the generated state after ANY run `ops`,
    `g'` the state after one more operation `op` of any kind.  If message `id` is in the generated `unacked_messages` of the
    reliable send channel `ch` in `g` and not in `g'`, then `op = process bytes`; the GENERATED decoder reads `bytes` as an
    `Ack aseq ranges`; a range of it covers a sequence number `seq`; and the flush log of `g` — the datagrams returned by the
    `get_packets_to_send` calls of `ops`, i.e. EARLIER in the trace — contains a datagram that the generated `to_bytes` wrote for,
    and the generated `from_bytes` reads back as, a packet `gp` with `Packet::sequence = seq` which carries message `id` of
    channel `ch` (`GCarriesMsg`: a `SmallReliable` on `ch` listing `id`, or a `ReliableSlice` on `ch` of message `id`). -/
theorem src_release_needs_emitted_and_acked (cfg : Cfg) (ops : List COp) (op : COp) (g g' : GConn)
    (hg : GConn.exec cfg ops = some g) (hg' : GConn.exec cfg (ops ++ [op]) = some g')
    (hrg : CRunInRange cfg (ops ++ [op])) (hcb : ChanBytes cfg) (hl : MsgLenOK ops) (ch id : Nat) (s : GSendRel)
    (hs : RustSem.Map.find? g.cl.send_reliable_channels ch = some s)
    (hin : RustSem.Map.contains_key s.unacked_messages id = true)
    (hout : ∀ s', RustSem.Map.find? g'.cl.send_reliable_channels ch = some s' →
      RustSem.Map.contains_key s'.unacked_messages id = false) :
    ∃ bytes aseq ranges seq gp, op = .process bytes ∧ GDecodes (toNats bytes) (.Ack aseq ranges) ∧
      (∃ r ∈ ranges, r.start ≤ seq ∧ seq < r.«end») ∧ GEmitted g seq gp ∧ GCarriesMsg ch id gp := by
  obtain ⟨bytes, e, hG⟩ := src_release_only_by_ack cfg ops op g g' hg hg' hrg ch id s hs hin hout
  obtain ⟨aseq, ranges, seq, gp, h1, h2, h3, info, h4, h5⟩ :=
    emitted_of_ackNames cfg ops g hg (crunInRange_prefix cfg ops _ hrg) hcb hl bytes _ hG
  exact ⟨bytes, aseq, ranges, seq, gp, e, h1, h2, h3, gcarriesMsg_of_record h4 h5⟩

/-- **Each slice is marked only by an Ack covering an emitted datagram that carried exactly that slice** (one step of ANY
    kind).  If slice `i` of message `id` is stored-and-unmarked in `g` (`GPending`) and no longer in `g'`, then `op` is a
    `process_packet` of bytes the generated decoder reads as an Ack covering a `seq` such that the flush log of `g` contains a
    datagram which the generated decoder reads as a `ReliableSlice` packet of channel `ch` with sequence `seq`, message id `id`
    and slice index `i` (`GCarriesSlice`). -/
theorem src_slice_mark_needs_emitted_and_acked (cfg : Cfg) (ops : List COp) (op : COp) (g g' : GConn)
    (hg : GConn.exec cfg ops = some g) (hg' : GConn.exec cfg (ops ++ [op]) = some g')
    (hrg : CRunInRange cfg (ops ++ [op])) (hcb : ChanBytes cfg) (hl : MsgLenOK ops) (ch id i : Nat) (s : GSendRel)
    (hs : RustSem.Map.find? g.cl.send_reliable_channels ch = some s)
    (hpend : GPending s id i)
    (hnot : ∀ s', RustSem.Map.find? g'.cl.send_reliable_channels ch = some s' → ¬ GPending s' id i) :
    ∃ bytes aseq ranges seq gp, op = .process bytes ∧ GDecodes (toNats bytes) (.Ack aseq ranges) ∧
      (∃ r ∈ ranges, r.start ≤ seq ∧ seq < r.«end») ∧ GEmitted g seq gp ∧ GCarriesSlice ch id i gp := by
  obtain ⟨bytes, e, hG⟩ := src_slice_marked_only_by_ack cfg ops op g g' hg hg' hrg ch id i s hs hpend hnot
  obtain ⟨aseq, ranges, seq, gp, h1, h2, h3, info, h4, h5⟩ :=
    emitted_of_ackNames cfg ops g hg (crunInRange_prefix cfg ops _ hrg) hcb hl bytes _ hG
  subst h5
  exact ⟨bytes, aseq, ranges, seq, gp, e, h1, h2, h3, gcarriesSlice_of_record h4⟩

/-! ## (3) whole traces: the end-to-end statement -/

/-- **C08 end to end on the generated code: "released only after a packet carrying it was emitted and acknowledged".**
    If message `id` of channel `ch` is in the generated `unacked_messages` after the run `ops` and no longer after `ops ++ ext`
    (ANY operations `ext`), then `ext = ext1 ++ process bytes :: ext2` where
      * the generated decoder reads `bytes` (the argument of that `process_packet`) as an `Ack` packet with a range covering
        a sequence number `seq`, and
      * in the generated run `ops ++ ext1` — the part of the trace BEFORE that `process_packet` — some `get_packets_to_send`
        returned a datagram (`g1.flushes`) which the generated `to_bytes` wrote for, and the generated `from_bytes` reads back
        as, a packet `gp` with `Packet::sequence = seq` carrying message `id` of channel `ch`.
    Everything is stated on bytes the generated code emitted (`flushes`) and bytes it was given (`process`). -/
theorem src_release_trace_emitted (cfg : Cfg) (ext ops : List COp) (g g' : GConn)
    (hg : GConn.exec cfg ops = some g) (hg' : GConn.exec cfg (ops ++ ext) = some g') (hrg : CRunInRange cfg (ops ++ ext))
    (hcb : ChanBytes cfg) (hl : MsgLenOK (ops ++ ext)) (ch id : Nat) (s : GSendRel)
    (hs : RustSem.Map.find? g.cl.send_reliable_channels ch = some s)
    (hin : RustSem.Map.contains_key s.unacked_messages id = true)
    (hout : ∀ s', RustSem.Map.find? g'.cl.send_reliable_channels ch = some s' →
      RustSem.Map.contains_key s'.unacked_messages id = false) :
    ∃ ext1 bytes ext2 g1 aseq ranges seq gp, ext = ext1 ++ COp.process bytes :: ext2 ∧
      GConn.exec cfg (ops ++ ext1) = some g1 ∧ GDecodes (toNats bytes) (.Ack aseq ranges) ∧
      (∃ r ∈ ranges, r.start ≤ seq ∧ seq < r.«end») ∧ GEmitted g1 seq gp ∧ GCarriesMsg ch id gp := by
  obtain ⟨ext1, bytes, ext2, g1, e, hg1, hG⟩ := src_release_trace cfg ext ops g g' hg hg' hrg ch id s hs hin hout
  have eapp : ops ++ ext = (ops ++ ext1) ++ (COp.process bytes :: ext2) := by rw [e, List.append_assoc]
  rw [eapp] at hrg hl
  obtain ⟨aseq, ranges, seq, gp, h1, h2, h3, info, h4, h5⟩ :=
    emitted_of_ackNames cfg (ops ++ ext1) g1 hg1 (crunInRange_prefix cfg _ _ hrg) hcb (msgLenOK_prefix hl) bytes _ hG
  exact ⟨ext1, bytes, ext2, g1, aseq, ranges, seq, gp, e, hg1, h1, h2, h3, gcarriesMsg_of_record h4 h5⟩

/-! ## (4) where in the trace the datagram was returned -/

theorem gstep_flushes {g g' : GConn} {op : COp} (h : g.step op = some g') (bs : List GBytes) (hbs : bs ∈ g'.flushes) :
    bs ∈ g.flushes ∨ (op = .flush ∧ ∃ c', (RenetClient.get_packets_to_send g.cl : Res Empty _) = .ok (c', bs)) := by
  cases op with
  | flush =>
    simp only [GConn.step] at h
    split at h
    · rename_i c' o heq
      cases h
      rcases List.mem_append.mp hbs with h1 | h1
      · exact Or.inl h1
      · rw [List.mem_singleton] at h1; subst h1; exact Or.inr ⟨rfl, c', heq⟩
    · cases h
  | send ch m => simp only [GConn.step] at h; split at h <;> cases h; exact Or.inl hbs
  | recv ch => simp only [GConn.step] at h; split at h <;> cases h; exact Or.inl hbs
  | update dt => simp only [GConn.step] at h; split at h <;> cases h; exact Or.inl hbs
  | process b => simp only [GConn.step] at h; split at h <;> cases h; exact Or.inl hbs
  | setConnected => simp only [GConn.step] at h; split at h <;> cases h; exact Or.inl hbs
  | setConnecting => simp only [GConn.step] at h; split at h <;> cases h; exact Or.inl hbs
  | disconnect => simp only [GConn.step] at h; split at h <;> cases h; exact Or.inl hbs
  | disconnectTransport => simp only [GConn.step] at h; split at h <;> cases h; exact Or.inl hbs

theorem grun_flushes : ∀ (ops : List COp) (g0 g : GConn), g0.run ops = some g → ∀ bs ∈ g.flushes,
    bs ∈ g0.flushes ∨ ∃ ops1 ops2 g1 c', ops = ops1 ++ COp.flush :: ops2 ∧ g0.run ops1 = some g1 ∧
      (RenetClient.get_packets_to_send g1.cl : Res Empty _) = .ok (c', bs)
  | [], g0, g, h, bs, hbs => by cases h; exact Or.inl hbs
  | op :: ops, g0, g, h, bs, hbs => by
    simp only [GConn.run] at h
    cases hs : g0.step op with
    | none => rw [hs] at h; cases h
    | some gm =>
      rw [hs] at h
      rcases grun_flushes ops gm g h bs hbs with h1 | ⟨ops1, ops2, g1, c', e, hr, hf⟩
      · rcases gstep_flushes hs bs h1 with h2 | ⟨rfl, c', hf⟩
        · exact Or.inl h2
        · exact Or.inr ⟨[], ops, g0, c', rfl, rfl, hf⟩
      · exact Or.inr ⟨op :: ops1, ops2, g1, c', by rw [e]; rfl, by simp only [GConn.run, hs]; exact hr, hf⟩

/-- **every entry of the flush log is the return value of a generated `get_packets_to_send` at a definite position of the
    trace** (no side condition: this is how `GConn.exec` logs): `ops = ops1 ++ flush :: ops2`, and the generated
    `get_packets_to_send` on the generated state reached after `ops1` returns `bs` -/
theorem src_flush_log_origin (cfg : Cfg) (ops : List COp) (g : GConn) (hg : GConn.exec cfg ops = some g)
    (bs : List GBytes) (hbs : bs ∈ g.flushes) :
    ∃ ops1 ops2 g1 c', ops = ops1 ++ COp.flush :: ops2 ∧ GConn.exec cfg ops1 = some g1 ∧
      (RenetClient.get_packets_to_send g1.cl : Res Empty _) = .ok (c', bs) := by
  unfold GConn.exec at hg ⊢
  cases hi : GConn.init cfg with
  | none => rw [hi] at hg; cases hg
  | some g0 =>
    rw [hi] at hg
    rcases grun_flushes ops g0 g hg bs hbs with h0 | h1
    · have : g0.flushes = [] := by
        unfold GConn.init at hi; split at hi <;> cases hi; rfl
      rw [this] at h0; cases h0
    · exact h1

/-- **C08 end to end, with the emitting call located in the trace.**  If message `id` of channel `ch` is stored after `ops` and
    gone after `ops ++ ext`, then the trace reads
        `ops ++ ext = pre ++ flush :: mid ++ process bytes :: ext2`     (the `process` lies inside `ext`)
    such that: the generated `get_packets_to_send`, called on the generated state reached after `pre`, RETURNS a list containing a
    datagram `b`; the generated `from_bytes` reads `b` as a packet `gp` (the one the generated `to_bytes` wrote `b` for) whose
    `Packet::sequence` is `seq` and which carries message `id` of channel `ch`; and the generated `from_bytes` reads `bytes` — the
    argument of the later `process_packet` — as an `Ack` packet one of whose ranges covers `seq`. -/
theorem src_release_end_to_end (cfg : Cfg) (ext ops : List COp) (g g' : GConn)
    (hg : GConn.exec cfg ops = some g) (hg' : GConn.exec cfg (ops ++ ext) = some g') (hrg : CRunInRange cfg (ops ++ ext))
    (hcb : ChanBytes cfg) (hl : MsgLenOK (ops ++ ext)) (ch id : Nat) (s : GSendRel)
    (hs : RustSem.Map.find? g.cl.send_reliable_channels ch = some s)
    (hin : RustSem.Map.contains_key s.unacked_messages id = true)
    (hout : ∀ s', RustSem.Map.find? g'.cl.send_reliable_channels ch = some s' →
      RustSem.Map.contains_key s'.unacked_messages id = false) :
    ∃ pre mid ext1 ext2 bytes gpre c' bs b aseq ranges seq gp,
      ext = ext1 ++ COp.process bytes :: ext2 ∧ ops ++ ext1 = pre ++ COp.flush :: mid ∧
      GConn.exec cfg pre = some gpre ∧ (RenetClient.get_packets_to_send gpre.cl : Res Empty _) = .ok (c', bs) ∧ b ∈ bs ∧
      GSerialises gp b ∧ GDecodes b gp ∧ (Src.renet.packet.Packet.sequence gp : Res Empty Nat) = .ok seq ∧
      GCarriesMsg ch id gp ∧
      GDecodes (toNats bytes) (.Ack aseq ranges) ∧ (∃ r ∈ ranges, r.start ≤ seq ∧ seq < r.«end») := by
  obtain ⟨ext1, bytes, ext2, g1, aseq, ranges, seq, gp, e, hg1, hdec, hr, ⟨bs, hbs, b, hb, h1, h2, h3⟩, hc⟩ :=
    src_release_trace_emitted cfg ext ops g g' hg hg' hrg hcb hl ch id s hs hin hout
  obtain ⟨pre, mid, gpre, c', e2, hpre, hf⟩ := src_flush_log_origin cfg (ops ++ ext1) g1 hg1 bs hbs
  exact ⟨pre, mid, ext1, ext2, bytes, gpre, c', bs, b, aseq, ranges, seq, gp, e, e2, hpre, hf, hb, h1, h2, h3, hc, hdec, hr⟩

/-! ## non-vacuity: the traces of `SrcPropsConnTraceC08.Ex`, executed by the kernel ON THE GENERATED CODE

  Channel 0 ReliableOrdered.  `ops0`: a 3-byte message (id 0) and a 1201-byte message (id 1, two slices) are sent and flushed —
  packet 0 = slice 0 of id 1, packet 1 = slice 1 of id 1, packet 2 = the small message id 0.  `opsQ` adds a non-matching Ack, a
  non-Ack packet, an update, a receive, one more send and a flush; `ackSmall` (covers packet 2) then releases id 0 (`opsR`);
  `ackSlice0` marks slice 0 of id 1 (`opsS`); `ackSlice1` marks slice 1 and releases id 1 (`opsT`). -/
namespace Ex
open RenetVerif.SrcPropsConnTraceC08.Ex

theorem chanBytes : ChanBytes cfg := by decide +kernel
theorem lenOK : MsgLenOK opsT := by decide +kernel
theorem lenQ : MsgLenOK opsQ := msgLenOK_prefix (ext := [.process ackSmall, .process ackSlice0, .process ackSlice1]) lenOK
theorem lenR : MsgLenOK opsR := msgLenOK_prefix (ext := [.process ackSlice0, .process ackSlice1]) lenOK
theorem lenS : MsgLenOK opsS := msgLenOK_prefix (ext := [.process ackSlice1]) lenOK

/-- what the generated decoder reads from a datagram: kind tag, sequence number, and what the packet carries on a reliable
    channel (channel, message ids / message id and slice index) -/
def look (b : GBytes) : Option (Nat × Option PacketSentInfo) :=
  (SrcPropsConnTraceC15.Ex.gdec b).map fun gp =>
    (match (Src.renet.packet.Packet.sequence gp : Res Empty Nat) with | .ok s => s | _ => 0, gRecordOf gp)

/-- **the kernel's view of the trace on the generated code**: the flush log of `gQ`, every datagram read by the GENERATED
    decoder (sequence number, what `get_packets_to_send` records for it), next to the generated `sent_packets` of `gQ`.  Each
    record is the reading of the datagram with its sequence number — what `src_recorded_packet_was_emitted` states in general. -/
theorem qfacts :
    gQ.flushes.map (·.map look) =
      [[some (0, some (.ReliableSliceMessage 0 1 0)), some (1, some (.ReliableSliceMessage 0 1 1)),
        some (2, some (.ReliableMessages 0 [0]))],
       [some (3, some (.ReliableMessages 0 [2])), some (4, some (.Ack 8))]] ∧
    gQ.cl.sent_packets.map (fun x => (x.1, x.2.info)) =
      [(0, .ReliableSliceMessage 0 1 0), (1, .ReliableSliceMessage 0 1 1), (2, .ReliableMessages 0 [0]),
       (3, .ReliableMessages 0 [2]), (4, .Ack 8)] := by
  decide +kernel

/-- **`src_recorded_packet_was_emitted` applied** to the record under sequence number 2 of `gQ` (the small packet that carried
    message 0; `ackSmall` covers it) -/
example : ∃ gp : GPacket, GEmitted gQ 2 gp ∧ gRecordOf gp = some (.ReliableMessages 0 [0]) :=
  src_recorded_packet_was_emitted cfg opsQ gQ runQ (crunInRange_prefix cfg opsQ _ inRange) chanBytes lenQ 2
    ⟨0, .ReliableMessages 0 [0]⟩ (by decide +kernel)

/-- … and to the record of an Ack packet (sequence number 4, largest acknowledged 8) -/
example : ∃ gp : GPacket, GEmitted gQ 4 gp ∧ gRecordOf gp = some (.Ack 8) :=
  src_recorded_packet_was_emitted cfg opsQ gQ runQ (crunInRange_prefix cfg opsQ _ inRange) chanBytes lenQ 4
    ⟨5, .Ack 8⟩ (by decide +kernel)

/-- **`src_release_needs_emitted_and_acked` applied** to the step `opsQ → opsR` (id 0 stored in `gQ`, not in `gR`) -/
example : ∃ bytes aseq ranges seq gp, COp.process ackSmall = .process bytes ∧ GDecodes (toNats bytes) (.Ack aseq ranges) ∧
    (∃ r ∈ ranges, r.start ≤ seq ∧ seq < r.«end») ∧ GEmitted gQ seq gp ∧ GCarriesMsg 0 0 gp :=
  src_release_needs_emitted_and_acked cfg opsQ (.process ackSmall) gQ gR runQ runR (crunInRange_prefix cfg opsR _ inRange)
    chanBytes lenQ 0 0 (chan gQ) chanQ (by decide +kernel) (gone_of (by decide +kernel))

/-- … and to the step `opsS → opsT` (the sliced message 1 leaves) -/
example : ∃ bytes aseq ranges seq gp, COp.process ackSlice1 = .process bytes ∧ GDecodes (toNats bytes) (.Ack aseq ranges) ∧
    (∃ r ∈ ranges, r.start ≤ seq ∧ seq < r.«end») ∧ GEmitted gS seq gp ∧ GCarriesMsg 0 1 gp :=
  src_release_needs_emitted_and_acked cfg opsS (.process ackSlice1) gS gT runS runT inRange chanBytes lenS 0 1 (chan gS) chanS
    (by decide +kernel) (gone_of (by decide +kernel))

/-- **`src_slice_mark_needs_emitted_and_acked` applied** to the step `opsR → opsS`: slice 0 of message 1 pending in `gR`, not in
    `gS` -/
example : ∃ bytes aseq ranges seq gp, COp.process ackSlice0 = .process bytes ∧ GDecodes (toNats bytes) (.Ack aseq ranges) ∧
    (∃ r ∈ ranges, r.start ≤ seq ∧ seq < r.«end») ∧ GEmitted gR seq gp ∧ GCarriesSlice 0 1 0 gp := by
  refine src_slice_mark_needs_emitted_and_acked cfg opsR (.process ackSlice0) gR gS runR runS
    (crunInRange_prefix cfg opsS _ inRange) chanBytes lenR 0 1 0 (chan gR) chanR ⟨_, _, _, _, _, _, entryR, rfl⟩ ?_
  rintro s' hs' ⟨m, n, k, nx, a, ls, hf, ha⟩
  rw [chanS] at hs'; cases hs'
  rw [entryS] at hf; cases hf; cases ha

/-- **`src_release_trace_emitted` applied** to the whole extension after the live phase: message 0 (stored in `g0`, gone in
    `gT`) -/
example : ∃ ext1 bytes ext2 g1 aseq ranges seq gp,
    extQ ++ [.process ackSmall, .process ackSlice0, .process ackSlice1] = ext1 ++ COp.process bytes :: ext2 ∧
    GConn.exec cfg (ops0 ++ ext1) = some g1 ∧ GDecodes (toNats bytes) (.Ack aseq ranges) ∧
    (∃ r ∈ ranges, r.start ≤ seq ∧ seq < r.«end») ∧ GEmitted g1 seq gp ∧ GCarriesMsg 0 0 gp :=
  src_release_trace_emitted cfg _ ops0 g0 gT run0 runT inRange chanBytes lenOK 0 0 (chan g0) chan0 (by decide +kernel)
    (gone_of (by decide +kernel))

/-- … and message 1 (sliced; released by the last Ack of the trace) -/
example : ∃ ext1 bytes ext2 g1 aseq ranges seq gp,
    extQ ++ [.process ackSmall, .process ackSlice0, .process ackSlice1] = ext1 ++ COp.process bytes :: ext2 ∧
    GConn.exec cfg (ops0 ++ ext1) = some g1 ∧ GDecodes (toNats bytes) (.Ack aseq ranges) ∧
    (∃ r ∈ ranges, r.start ≤ seq ∧ seq < r.«end») ∧ GEmitted g1 seq gp ∧ GCarriesMsg 0 1 gp :=
  src_release_trace_emitted cfg _ ops0 g0 gT run0 runT inRange chanBytes lenOK 0 1 (chan g0) chan0 (by decide +kernel)
    (gone_of (by decide +kernel))

/-- **`src_release_end_to_end` applied**: message 1 (sliced), stored in `g0`, gone in `gT` -/
example : ∃ pre mid ext1 ext2 bytes gpre c' bs b aseq ranges seq gp,
    extQ ++ [.process ackSmall, .process ackSlice0, .process ackSlice1] = ext1 ++ COp.process bytes :: ext2 ∧
    ops0 ++ ext1 = pre ++ COp.flush :: mid ∧
    GConn.exec cfg pre = some gpre ∧ (RenetClient.get_packets_to_send gpre.cl : Res Empty _) = .ok (c', bs) ∧ b ∈ bs ∧
    GSerialises gp b ∧ GDecodes b gp ∧ (Src.renet.packet.Packet.sequence gp : Res Empty Nat) = .ok seq ∧
    GCarriesMsg 0 1 gp ∧
    GDecodes (toNats bytes) (.Ack aseq ranges) ∧ (∃ r ∈ ranges, r.start ≤ seq ∧ seq < r.«end») :=
  src_release_end_to_end cfg _ ops0 g0 gT run0 runT inRange chanBytes lenOK 0 1 (chan g0) chan0 (by decide +kernel)
    (gone_of (by decide +kernel))

/-- **`src_flush_log_origin` applied** to the second flush of `gQ` -/
example : ∃ ops1 ops2 g1 c', opsQ = ops1 ++ COp.flush :: ops2 ∧ GConn.exec cfg ops1 = some g1 ∧
    (RenetClient.get_packets_to_send g1.cl : Res Empty _) = .ok (c', gQ.flushes.getLast!) :=
  src_flush_log_origin cfg opsQ gQ runQ _ (by decide +kernel)

/-- the concrete witnesses, computed by the kernel on the generated code: `ackSmall` is read by the generated decoder as an Ack
    with the range `[2, 3)`, and the third datagram of the first flush of `gQ` is read as the `SmallReliable` packet number 2 of
    channel 0 carrying message id 0 with payload `[1, 2, 3]` -/
example : SrcPropsConnTraceC15.Ex.gdec (toNats ackSmall) = some (.Ack 0 [⟨2, 3⟩]) ∧
    (gQ.flushes.head?.bind (·[2]?)).bind SrcPropsConnTraceC15.Ex.gdec = some (.SmallReliable 2 0 [(0, [1, 2, 3])]) := by
  decide +kernel

end Ex

end RenetVerif.SrcPropsConnTraceC08b
