/-
  C13 (packets fit), C09 (memory accounting) and C14 (byte budget, "dropped whole") stated DIRECTLY about the generated
  `SendChannelUnreliable::{send_message, get_packets_to_send}` of `Generated/Src/SendUnrel.lean`
  (derived from `renet/src/channel/unreliable.rs`) and, for C13, the generated `Packet::to_bytes`.
  The model (`SendUnrel`, `unrelLoop`, `unrelTaken`) appears only in the proofs:
  `SrcTieSendUnrel` (generated = model) ∘ `Props/C13`, `Props/C14`.

  `WfSU c seq` is intrinsic: queued bytes are bytes, the memory counter covers the queued bytes, and the `u64`/`usize`
  counters cannot overflow while the queue is flushed (`needG` bounds the number of packets).
-/
import RenetVerif.Props.SrcTieSendUnrel
import RenetVerif.Props.SrcPropsPacket
import RenetVerif.Props.C13
import RenetVerif.Props.C14
namespace RenetVerif.SrcCor
open RenetVerif RenetVerif.SrcEquiv RenetVerif.SrcTie RenetVerif.RustSem
open Src.renet.channel.unreliable

/-! ### helpers -/

/-- sum of the queued message lengths -/
def qBytesG (q : List (List Nat)) : Nat := (q.map List.length).sum
/-- upper bound on the packets one flush of the queue emits: `⌈len/SLICE_SIZE⌉ + 1` per message -/
def needG (q : List (List Nat)) : Nat := (q.map fun m => divCeil m.length C.SLICE_SIZE + 1).sum

/-- intrinsic well-formedness of a generated unreliable send channel for a flush starting at `*packet_sequence = seq` -/
def WfSU (c : SendChannelUnreliable) (seq : Nat) : Prop :=
  (∀ m ∈ c.unreliable_messages, BytesOk m) ∧ qBytesG c.unreliable_messages ≤ c.memory_usage_bytes ∧
  c.memory_usage_bytes < 2 ^ 64 ∧ seq + needG c.unreliable_messages + 1 < 2 ^ 64 ∧
  c.sliced_message_id + c.unreliable_messages.length < 2 ^ 64

/-- the budget scan of the flush: a queued message is taken iff the budget left at its turn covers its whole length -/
def takenG : List (List Nat) → Nat → List (List Nat)
  | [], _ => []
  | m :: r, avail => if avail < m.length then takenG r avail else m :: takenG r (avail - m.length)

/-- the small messages a generated packet carries -/
def smallMsgsG : SPacket → List (List Nat)
  | .SmallUnreliable _ _ msgs => msgs
  | _ => []

/-- message payload bytes a generated packet carries (what `available_bytes` is charged for) -/
def payloadBytesG : SPacket → Nat
  | .SmallReliable _ _ msgs => (msgs.map fun x => x.2.length).sum
  | .SmallUnreliable _ _ msgs => (msgs.map List.length).sum
  | .ReliableSlice _ _ sl => sl.payload.length
  | .UnreliableSlice _ _ sl => sl.payload.length
  | .Ack _ _ => 0

theorem qBytes_ofNats (q : List (List Nat)) : qBytes (q.map ofNats) = qBytesG q := by
  simp [qBytes, qBytesG, Function.comp_def, ofNats_length]

theorem need_ofNats (q : List (List Nat)) : need (q.map ofNats) = needG q := by
  simp [need, needG, Function.comp_def, ofNats_length]

theorem unrelSmallSum_ofNats (q : List (List Nat)) : unrelSmallSum (q.map ofNats) = qBytesG q := by
  simp [unrelSmallSum, qBytesG, Function.comp_def, ofNats_length]

theorem wfSU_abs {c : SendChannelUnreliable} {seq : Nat} (h : WfSU c seq) : WfSendUnrel (absSU c) seq := by
  obtain ⟨_, h2, h3, h4, h5⟩ := h
  refine ⟨?_, h3, ?_, ?_⟩
  · simpa [absSU, qBytes_ofNats] using h2
  · simpa [absSU, need_ofNats] using h4
  · simpa [absSU] using h5

theorem unrelTaken_ofNats : ∀ (q : List (List Nat)) (a : Nat), unrelTaken (q.map ofNats) a = (takenG q a).map ofNats
  | [], _ => rfl
  | m :: r, a => by
    simp only [List.map_cons, unrelTaken, takenG, ofNats_length]
    split
    · exact unrelTaken_ofNats r a
    · simp only [List.map_cons, unrelTaken_ofNats r (a - m.length)]

theorem payloadBytesG_repr (p : RenetVerif.Packet) : payloadBytesG (reprPacket p) = payloadBytes p := by
  cases p <;> simp [payloadBytesG, reprPacket, payloadBytes, reprSlice, Function.comp_def, toNats_length]

theorem payloadSumG_repr (ps : List RenetVerif.Packet) :
    ((ps.map reprPacket).map payloadBytesG).sum = payloadSum ps := by
  simp [payloadSum, Function.comp_def, payloadBytesG_repr]

theorem smallMsgsG_repr (p : RenetVerif.Packet) : smallMsgsG (reprPacket p) = p.unrelMsgs.map toNats := by
  cases p <;> simp [smallMsgsG, reprPacket, Packet.unrelMsgs]

theorem flatMap_smallMsgsG_repr (ps : List RenetVerif.Packet) :
    (ps.map reprPacket).flatMap smallMsgsG = (ps.flatMap Packet.unrelMsgs).map toNats := by
  induction ps with
  | nil => rfl
  | cons p r ih => simp only [List.map_cons, List.flatMap_cons, List.map_append, ih, smallMsgsG_repr]

theorem takenG_bytesOk : ∀ (q : List (List Nat)) (a : Nat), (∀ m ∈ q, BytesOk m) → ∀ m ∈ takenG q a, BytesOk m
  | [], _, _, m, hm => by cases hm
  | x :: r, a, h, m, hm => by
    simp only [takenG] at hm
    split at hm
    · exact takenG_bytesOk r a (fun y hy => h y (by simp [hy])) m hm
    · rcases List.mem_cons.1 hm with rfl | hm
      · exact h _ (by simp)
      · exact takenG_bytesOk r _ (fun y hy => h y (by simp [hy])) m hm

theorem map_toNats_ofNats' (l : List (List Nat)) (h : ∀ m ∈ l, BytesOk m) : (l.map ofNats).map toNats = l :=
  map_toNats_ofNats l h

/-- the sender's slice `i` of `n` of a message, on `List Nat` -/
def sliceOfG (msg : List Nat) (n i : Nat) : List Nat :=
  (msg.drop (i * C.SLICE_SIZE)).take ((if i = n - 1 then msg.length else (i + 1) * C.SLICE_SIZE) - i * C.SLICE_SIZE)

theorem toNats_sliceBytes_su (msg : List Nat) (hb : BytesOk msg) (n i : Nat) :
    toNats (sliceBytes (ofNats msg) n i) = sliceOfG msg n i := by
  unfold sliceBytes sliceOfG
  simp only [ofNats_length]
  show List.map UInt8.toNat _ = _
  rw [List.map_take, List.map_drop]
  have : List.map UInt8.toNat (ofNats msg) = msg := toNats_ofNats hb
  rw [this]

/-- the tie for an arbitrary well-formed GENERATED state -/
theorem su_get_packets {ε : Type} (c : SendChannelUnreliable) (seq avail : Nat) (h : WfSU c seq) :
    (SendChannelUnreliable.get_packets_to_send c seq avail : Res ε _) =
      .ok (reprSU ((absSU c).getPackets seq avail).1, ((absSU c).getPackets seq avail).2.2.1,
           ((absSU c).getPackets seq avail).2.2.2, ((absSU c).getPackets seq avail).2.1.map reprPacket) := by
  have := send_unrel_get_packets_to_send (ε := ε) (absSU c) seq avail (wfSU_abs h)
  rwa [reprSU_absSU c h.1] at this

/-- the same with the model's result named (so that later steps do not unfold it) -/
theorem su_get_packets' {ε : Type} (c : SendChannelUnreliable) (seq avail : Nat) (h : WfSU c seq) :
    ∃ s' ps seq' avail', (absSU c).getPackets seq avail = (s', ps, seq', avail') ∧
      (SendChannelUnreliable.get_packets_to_send c seq avail : Res ε _) =
        .ok (reprSU s', seq', avail', ps.map reprPacket) :=
  ⟨_, _, _, _, rfl, su_get_packets c seq avail h⟩

end RenetVerif.SrcCor

namespace RenetVerif.SrcProps
open RenetVerif RenetVerif.SrcEquiv RenetVerif.SrcTie RenetVerif.SrcCor RenetVerif.RustSem
open Src.renet.channel.unreliable

/-! ### headline statements -/

/-- **C13, unreliable channel.**  On a well-formed channel whose queued messages have machine-representable length
    (`≤ 2^62-1`) and whose slice-id counter stays in the varint domain, the generated `get_packets_to_send` returns
    normally and — provided the returned `*packet_sequence` is at most `2^62` — EVERY packet of the returned list is
    serialised by the generated `to_bytes` into any buffer of at least `NETCODE_MAX_PAYLOAD_BYTES` (1300) bytes, using at
    most 1300 of them: no `Err`, no panic. -/
theorem send_unrel_packets_fit {ε : Type} (c : SendChannelUnreliable) (seq avail : Nat) (h : WfSU c seq)
    (hlen : ∀ m ∈ c.unreliable_messages, m.length ≤ Varint.MAX)
    (hid : c.sliced_message_id + c.unreliable_messages.length ≤ Varint.MAX + 1) :
    ∃ c' seq' avail' ps, (SendChannelUnreliable.get_packets_to_send c seq avail : Res ε _) = .ok (c', seq', avail', ps) ∧
      (seq' ≤ Varint.MAX + 1 → ∀ gp ∈ ps, ∀ buf : List Nat, C.NETCODE_MAX_PAYLOAD_BYTES ≤ buf.length →
        ∃ b' n, Src.renet.packet.Packet.to_bytes gp (OctetsMut.with_slice buf) = .ok (b', n) ∧
          n ≤ C.NETCODE_MAX_PAYLOAD_BYTES) := by
  obtain ⟨s', ps, seq', avail', hG, hgen⟩ := su_get_packets' (ε := ε) c seq avail h
  refine ⟨_, _, _, _, hgen, ?_⟩
  intro hseq gp hgp buf hbuf
  obtain ⟨p, hp, rfl⟩ := List.mem_map.1 hgp
  have hq : ∀ m ∈ (absSU c).queue, m.length ≤ Varint.MAX := by
    intro m hm
    simp only [absSU, List.mem_map] at hm
    obtain ⟨x, hx, rfl⟩ := hm
    simpa [ofNats_length] using hlen x hx
  have hsid : s'.slicedId ≤ Varint.MAX + 1 := by
    have := C13.unreliable_sliced_id hG
    simp only [absSU, List.length_map] at this
    omega
  obtain ⟨b, hb, hsz⟩ := C13.unreliable_sizes hG hq hsid hseq p hp
  have hle : b.length ≤ C.NETCODE_MAX_PAYLOAD_BYTES := by
    have h1 := C13.small_unreliable_bound_fits
    have h2 := C13.slice_bound_fits
    rcases hsz with ⟨_, _, _, hl⟩ | ⟨_, _, _, hl⟩ <;> omega
  obtain ⟨b', hw⟩ := to_bytes_of_enc p b hb buf (by omega)
  exact ⟨b', b.length, hw, hle⟩

/-- **C09, `send_message` keeps the counter exact.**  If `memory_usage_bytes` equals the sum of the queued lengths, it
    still does after the generated `send_message` — which either queues the message at the back and adds its length,
    or (memory limit) leaves the channel unchanged.  No panic while the counter fits `usize`. -/
theorem send_unrel_send_message_accounting {ε : Type} (c : SendChannelUnreliable) (m : List Nat)
    (hq : ∀ x ∈ c.unreliable_messages, BytesOk x) (hm : BytesOk m)
    (hexact : c.memory_usage_bytes = qBytesG c.unreliable_messages) (hfit : c.memory_usage_bytes + m.length < 2 ^ 64) :
    ∃ c1, (SendChannelUnreliable.send_message c m : Res ε _) = .ok (c1, ()) ∧
      c1.memory_usage_bytes = qBytesG c1.unreliable_messages ∧
      (c1 = c ∨
       (c1 = { c with unreliable_messages := c.unreliable_messages ++ [m],
                      memory_usage_bytes := c.memory_usage_bytes + m.length } ∧
        c.memory_usage_bytes + m.length ≤ c.max_memory_usage_bytes)) := by
  have he := send_unrel_send_message (ε := ε) (absSU c) (ofNats m) (by simpa [absSU, ofNats_length] using hfit)
  rw [reprSU_absSU c hq, toNats_ofNats hm] at he
  refine ⟨_, he, ?_⟩
  unfold SendUnrel.sendMessage
  by_cases hl : (absSU c).mem + (ofNats m).length > (absSU c).maxMem
  · rw [if_pos hl, reprSU_absSU c hq]
    exact ⟨hexact, .inl rfl⟩
  · rw [if_neg hl]
    simp only [absSU, ofNats_length] at hl
    have hc1 : reprSU { absSU c with mem := (absSU c).mem + (ofNats m).length, queue := (absSU c).queue ++ [ofNats m] } =
        { c with unreliable_messages := c.unreliable_messages ++ [m],
                 memory_usage_bytes := c.memory_usage_bytes + m.length } := by
      simp only [reprSU, absSU, List.map_append, List.map_cons, List.map_nil, toNats_ofNats hm,
        map_toNats_ofNats c.unreliable_messages hq, ofNats_length]
    rw [hc1]
    refine ⟨?_, .inr ⟨rfl, by omega⟩⟩
    simp [qBytesG, hexact]

/-- **C09, the flush returns the accounting to zero.**  On a well-formed channel the generated `get_packets_to_send`
    empties the queue and subtracts exactly the queued bytes from `memory_usage_bytes`; with an exact counter the
    result is `0` (= the sum over the now empty queue).  The limit and the channel id are untouched. -/
theorem send_unrel_flush_accounting {ε : Type} (c : SendChannelUnreliable) (seq avail : Nat) (h : WfSU c seq) :
    ∃ c' seq' avail' ps, (SendChannelUnreliable.get_packets_to_send c seq avail : Res ε _) = .ok (c', seq', avail', ps) ∧
      c'.unreliable_messages = [] ∧
      c'.memory_usage_bytes = c.memory_usage_bytes - qBytesG c.unreliable_messages ∧
      (c.memory_usage_bytes = qBytesG c.unreliable_messages → c'.memory_usage_bytes = 0) ∧
      c'.max_memory_usage_bytes = c.max_memory_usage_bytes ∧ c'.channel_id = c.channel_id := by
  obtain ⟨s', ps, seq', avail', hG, hgen⟩ := su_get_packets' (ε := ε) c seq avail h
  refine ⟨_, _, _, _, hgen, ?_⟩
  obtain ⟨h1, h2, h3, h4⟩ := SendUnrel.getPackets_drains hG
  have hb := (C14.unreliable_budget hG).2.2.2.2.2.2
  simp only [absSU, unrelSmallSum_ofNats] at h2 hb
  refine ⟨by simp [reprSU, h1], by simpa [reprSU] using h2, fun he => by simpa [reprSU] using hb he,
    by simpa [reprSU, absSU] using h4, by simpa [reprSU, absSU] using h3⟩

/-- **C09, send then flush.**  Queue a message with the generated `send_message`, then flush with the generated
    `get_packets_to_send`: `memory_usage_bytes` is the sum of the queued lengths in between and `0` afterwards. -/
theorem send_unrel_send_then_flush {ε : Type} (c : SendChannelUnreliable) (m : List Nat) (seq avail : Nat)
    (hq : ∀ x ∈ c.unreliable_messages, BytesOk x) (hm : BytesOk m)
    (hexact : c.memory_usage_bytes = qBytesG c.unreliable_messages) (hfit : c.memory_usage_bytes + m.length < 2 ^ 64)
    (hseq : seq + needG (c.unreliable_messages ++ [m]) + 1 < 2 ^ 64)
    (hsid : c.sliced_message_id + c.unreliable_messages.length + 1 < 2 ^ 64) :
    ∃ c1 c2 seq' avail' ps, (SendChannelUnreliable.send_message c m : Res ε _) = .ok (c1, ()) ∧
      c1.memory_usage_bytes = qBytesG c1.unreliable_messages ∧
      (SendChannelUnreliable.get_packets_to_send c1 seq avail : Res ε _) = .ok (c2, seq', avail', ps) ∧
      c2.unreliable_messages = [] ∧ c2.memory_usage_bytes = 0 := by
  obtain ⟨c1, hs, hex1, hcase⟩ := send_unrel_send_message_accounting (ε := ε) c m hq hm hexact hfit
  have hneed : needG c.unreliable_messages ≤ needG (c.unreliable_messages ++ [m]) := by
    simp [needG, List.sum_append]
  have hwf : WfSU c1 seq := by
    rcases hcase with rfl | ⟨rfl, _⟩
    · exact ⟨hq, by omega, by omega, by omega, by omega⟩
    · refine ⟨?_, by dsimp only at hex1 ⊢; omega, by dsimp only; omega, hseq, by simp; omega⟩
      intro x hx
      rcases List.mem_append.1 hx with hx | hx
      · exact hq x hx
      · simp only [List.mem_cons, List.not_mem_nil, or_false] at hx; rw [hx]; exact hm
  obtain ⟨c2, seq', avail', ps, hg, he, _, hz, _⟩ := send_unrel_flush_accounting (ε := ε) c1 seq avail hwf
  exact ⟨c1, c2, seq', avail', ps, hs, hex1, hg, he, hz hex1⟩

/-- **C14, unreliable channel: the budget never grows, messages are sent or dropped whole.**  On a well-formed channel
    the generated `get_packets_to_send` returns normally; the new `*available_bytes` is the old one minus exactly the
    payload bytes of the returned packets (so it never increases); the messages sent are exactly `takenG queue avail`
    — scan the queue in order, take a message iff the budget left at its turn covers its whole length: their lengths
    add up to the payload emitted, and the small ones (`≤ SLICE_SIZE`) are, in queue order, exactly the contents of the
    `SmallUnreliable` packets.  Packets are numbered consecutively. -/
theorem send_unrel_budget {ε : Type} (c : SendChannelUnreliable) (seq avail : Nat) (h : WfSU c seq) :
    ∃ c' seq' avail' ps, (SendChannelUnreliable.get_packets_to_send c seq avail : Res ε _) = .ok (c', seq', avail', ps) ∧
      avail' ≤ avail ∧ (ps.map payloadBytesG).sum + avail' = avail ∧
      (ps.map payloadBytesG).sum = qBytesG (takenG c.unreliable_messages avail) ∧
      ps.flatMap smallMsgsG =
        (takenG c.unreliable_messages avail).filter (fun m => decide (m.length ≤ C.SLICE_SIZE)) ∧
      seq' = seq + ps.length := by
  obtain ⟨s', ps, seq', avail', hG, hgen⟩ := su_get_packets' (ε := ε) c seq avail h
  refine ⟨_, _, _, _, hgen, ?_⟩
  obtain ⟨hb1, _, hb3, hb4, _⟩ := C14.unreliable_budget hG
  obtain ⟨hd1, hd2, _⟩ := C14.unreliable_dropped_whole hG
  have hq : (absSU c).queue = c.unreliable_messages.map ofNats := rfl
  rw [hq, unrelTaken_ofNats] at hd1 hd2
  rw [unrelSmallSum_ofNats] at hd2
  refine ⟨hb3, by rw [payloadSumG_repr]; exact hb1, by rw [payloadSumG_repr]; exact hd2, ?_, by simpa using hb4⟩
  rw [flatMap_smallMsgsG_repr, hd1, List.filter_map, List.map_map]
  have hok := takenG_bytesOk c.unreliable_messages avail h.1
  have : (List.filter ((fun m => decide (m.length ≤ C.SLICE_SIZE)) ∘ ofNats) (takenG c.unreliable_messages avail)) =
      List.filter (fun m => decide (m.length ≤ C.SLICE_SIZE)) (takenG c.unreliable_messages avail) := by
    congr 1; funext m; simp [ofNats_length]
  rw [this]
  have hok' : ∀ m ∈ List.filter (fun m => decide (m.length ≤ C.SLICE_SIZE)) (takenG c.unreliable_messages avail),
      BytesOk m := fun m hm => hok m (List.mem_filter.1 hm).1
  rw [← List.map_map]
  exact map_toNats_ofNats _ hok'

/-- **C14, a large message is sent whole.**  Every message the budget scan takes that is longer than `SLICE_SIZE` appears
    in the returned packets as the COMPLETE set of its `n = ⌈len/SLICE_SIZE⌉` slices — one `UnreliableSlice` packet per
    index `j < n`, all with the same sliced-message id, slice `j` carrying bytes `j*SLICE_SIZE ..` of the message. -/
theorem send_unrel_large_sent_whole {ε : Type} (c : SendChannelUnreliable) (seq avail : Nat) (h : WfSU c seq) :
    ∃ c' seq' avail' ps, (SendChannelUnreliable.get_packets_to_send c seq avail : Res ε _) = .ok (c', seq', avail', ps) ∧
      ∀ m ∈ takenG c.unreliable_messages avail, C.SLICE_SIZE < m.length →
        ∃ id, ∀ j, j < divCeil m.length C.SLICE_SIZE →
          ∃ sq, Src.renet.packet.Packet.UnreliableSlice sq c.channel_id
            ⟨id, j, divCeil m.length C.SLICE_SIZE, sliceOfG m (divCeil m.length C.SLICE_SIZE) j⟩ ∈ ps := by
  obtain ⟨s', ps, seq', avail', hG, hgen⟩ := su_get_packets' (ε := ε) c seq avail h
  refine ⟨_, _, _, _, hgen, ?_⟩
  obtain ⟨_, _, hd3⟩ := C14.unreliable_dropped_whole hG
  intro m hm hlen
  have hmb : BytesOk m := takenG_bytesOk c.unreliable_messages avail h.1 m hm
  have hq : (absSU c).queue = c.unreliable_messages.map ofNats := rfl
  have hm' : ofNats m ∈ unrelTaken (absSU c).queue avail := by
    rw [hq, unrelTaken_ofNats]; exact List.mem_map_of_mem hm
  obtain ⟨id, hid⟩ := hd3 (ofNats m) hm' (by rw [ofNats_length]; exact hlen)
  refine ⟨id, fun j hj => ?_⟩
  obtain ⟨sq, hsq⟩ := hid j (by rw [ofNats_length]; exact hj)
  refine ⟨sq, ?_⟩
  have := List.mem_map_of_mem (f := reprPacket) hsq
  simpa [reprPacket, reprSlice, ofNats_length, toNats_sliceBytes_su m hmb, absSU] using this

/-! ### examples (evaluated on the generated text) -/

/-- a channel with a 2-byte, a 1201-byte and a 3-byte message queued, counter exact -/
def exSU : SendChannelUnreliable := ⟨3, [[1, 2], List.replicate 1201 7, [4, 5, 6]], 4, 5000, 1206⟩

theorem exSU_wf : WfSU exSU 10 := by
  refine ⟨by decide +kernel, by decide +kernel, by decide, by decide +kernel, by decide⟩

set_option maxRecDepth 100000 in
/-- budget 1203: the 2-byte and the 1201-byte message are sent whole, the 3-byte one is dropped whole (budget left 0);
    queue empty and counter back to 0 -/
example : (SendChannelUnreliable.get_packets_to_send exSU 10 1203 : Res Empty _) =
    .ok (⟨3, [], 5, 5000, 0⟩, 13, 0,
      [.UnreliableSlice 10 3 ⟨4, 0, 2, List.replicate 1200 7⟩, .UnreliableSlice 11 3 ⟨4, 1, 2, [7]⟩,
       .SmallUnreliable 12 3 [[1, 2]]]) := by decide +kernel
set_option maxRecDepth 100000 in
example : takenG exSU.unreliable_messages 1203 = [[1, 2], List.replicate 1201 7] := by decide +kernel
/-- every packet of that flush serialises into a 1300-byte buffer (instance of the theorem, and evaluated) -/
example : ∃ c' seq' avail' ps, (SendChannelUnreliable.get_packets_to_send exSU 10 1203 : Res Empty _) =
      .ok (c', seq', avail', ps) ∧
    (seq' ≤ Varint.MAX + 1 → ∀ gp ∈ ps, ∀ buf : List Nat, C.NETCODE_MAX_PAYLOAD_BYTES ≤ buf.length →
      ∃ b' n, Src.renet.packet.Packet.to_bytes gp (OctetsMut.with_slice buf) = .ok (b', n) ∧
        n ≤ C.NETCODE_MAX_PAYLOAD_BYTES) :=
  send_unrel_packets_fit exSU 10 1203 exSU_wf (by decide +kernel) (by decide)
set_option maxRecDepth 100000 in
example : okSnd (Src.renet.packet.Packet.to_bytes (.UnreliableSlice 10 3 ⟨4, 0, 2, List.replicate 1200 7⟩)
    (OctetsMut.with_slice (List.replicate 1300 0))) = some 1208 := by decide +kernel
/-- send then flush on the generated functions: counter 2 + 3 = 5 in between, 0 afterwards -/
example : ((SendChannelUnreliable.send_message ⟨0, [[1, 2]], 0, 100, 2⟩ [7, 8, 9] >>= fun r =>
    (.ok r.1.memory_usage_bytes : Res Empty Nat))) = .ok 5 := by decide +kernel
example : ((SendChannelUnreliable.send_message ⟨0, [[1, 2]], 0, 100, 2⟩ [7, 8, 9] >>= fun r =>
    SendChannelUnreliable.get_packets_to_send r.1 0 1000 >>= fun q =>
      (.ok (q.1.memory_usage_bytes, q.1.unreliable_messages.length) : Res Empty (Nat × Nat)))) = .ok (0, 0) := by
  decide +kernel

end RenetVerif.SrcProps
