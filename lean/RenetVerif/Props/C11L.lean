/-
  C11 (with C01 / C02), LIVENESS with several clients — "a broadcast is obtained EXACTLY ONCE by every currently
  connected client …  Misbehaviour, disconnection or a stalled ordered stream of one client or channel never delays,
  drops or corrupts traffic of other clients or other channels."

  Props/C11E.lean proves the safety half in the multi-client system `MSys` (Lemmas/MultiSystem.lean): a client obtains
  nothing more often than it was addressed to it (`broadcast_exactly_once_partial` = AT MOST once).  This file proves
  the other half: AT LEAST once, within ONE lossless round on the link of that client alone, from ANY reachable state
  and whatever happens to the other clients meanwhile.

  THE ROUND FOR CLIENT `i` on channel `ch` (`roundFor i ch ks n`, Lemmas/MultiLive.lean):

      srvFlush i ; deliverToCli i k (k ∈ ks) ; cliRecv i ch (n times)

  the server's `get_packets_to_send(i)`, the network of `i` handing datagrams of the server → `i` emission history to
  client `i`, client `i`'s application asking `n` times for a message.  "After the resend time has elapsed": the
  server's `update(dt)` (`srvUpdate dt`) with `dt ≥ resend_time` precedes the round.

  WHAT IS ASSUMED — about client `i` only, on the state `m` the tick starts from (ANY state reachable by ANY run `ops`
  of `MSys`: losses, reordering, duplication, other clients hostile / disconnected / removed / stalled):
    * the link of `i` is untainted (no hostile bytes in `i`'s name in its current session: `At P ops m i l`), `i` is
      in the server table (`conn? m.server i = some c`), neither end of the link is disconnected;
    * with `cu` = the table entry after the tick (`c.update dt = .ok cu`): the hypotheses of `C01L.bounded_delivery`,
      per link — counters in range (`CountersOK`, `cu.CountersOK`), H2 the per-tick budget left at the channel's turn
      covers the backlog, H3 the client's receive channel has room (`Room (l.subS ch) rB`), H4 the flush carries only
      channel `ch` and acks; `ks` = exactly the datagrams of this flush (`flushIdx l cu`), any order, repetitions
      allowed; `n` calls suffice.
  NOTHING is assumed about any other client.  The theorems speak about EVERY operation list `ops'` whose local trace for
  `i` (`MultiSystem.trace i ops'`: the operations addressed to `i`, the broadcasts that include `i`, the server's
  updates; everything else erased) is "tick, flush for `i`, deliveries `ks`, `n` receives" — i.e. the tick and the round
  of `i` INTERLEAVED WITH ANY operations that concern other clients only: their datagrams lost, duplicated, garbage in
  their name, their disconnection or removal in the middle, `broadcast_except(i)` traffic filling their channels — and
  that runs (`m.run ops' = some m''`: no model function panics on the OTHER clients' operations; that the operations
  of `i` itself do not panic is a conclusion, `round_delivers_to_client`).

  WHAT IS CONCLUDED: both ends of the link of `i` are still live and client `i`'s application has obtained EXACTLY the
  log `l.subS ch` — every message the server application addressed to `i` on `ch` (`send_message(i)`, each broadcast
  issued while `i` was connected and not excluded) that the reliable channel accepted (`addressed_is_logged`) —
  ReliableOrdered: in order (`broadcast_exactly_once`); ReliableUnordered: a permutation
  (`broadcast_exactly_once_unordered`); so every logged message is obtained at least once and (C11E) at most as often
  as it was addressed to `i`.

  HOW.  Lemmas/MultiLive.lean: (A) `GoodL` = the invariants the liveness proofs of Lemmas/Liveness.lean rest on
  (`AllInv`: Inv1, Inv2, InvR, InvD; `InvF`) are preserved by every step `VStep` of a bidirectional link, so they hold
  for both projections of every untainted link of every reachable `MSys` state (`reachL`); (B) the round theorems of
  Liveness.lean re-proved from these invariants instead of `System.Sys`-reachability; (D) a `System.Sys` round on the
  projection of `i` IS the `MSys` round of `i` (`lift_run`, `round_lift`), and `MultiSystem.run_view`/`lvrun_filter`
  make the view of `i` a function of its local trace alone (`tick_round_view`).

  NOT lifted: the k-round bound of Props/C01K (budget smaller than the backlog).  Its proof iterates over
  `System.Sys`-reachable states (`LiveK.RoundStep` quantifies over runs from `Sys.init`); re-proving Lemmas/LivenessK.lean
  over `GoodL` is the missing piece.  The one-round budget hypothesis H2 is met by the examples below.
-/
import RenetVerif.Lemmas.MultiLive
import RenetVerif.Props.C11E
import RenetVerif.Props.C01L
import RenetVerif.Props.C01K
namespace RenetVerif.C11L
open RenetVerif C RenetVerif.System RenetVerif.MultiSystem RenetVerif.Live RenetVerif.MultiLive RenetVerif.C11E

/-- direction server → client as a state of the two-endpoint system, for the table entry `c` and the link `l`
    (`C11E.projDown m i l` when `conn? m.server i = some c`) -/
def dirDown (c : Conn) (l : Link) : Sys := down ⟨some c, some l⟩ l

/-- the indices the datagrams of the next flush of the table entry `c` get in the emission history `l.outS` -/
def flushIdx (l : Link) (c : Conn) : List Nat := List.range' l.outS.length (flushPk c).length

theorem projDown_eq {m : MSys} {i : Nat} {c : Conn} {l : Link} (hc : conn? m.server i = some c) (hl : m.links i = some l) :
    projDown m i l = dirDown c l := by
  unfold projDown dirDown MSys.view; rw [hc, hl]

section Theorems
variable {P : Params} {ops : List MOp} {m : MSys} {i : Nat} {l : Link}

/-- **What the log `subS` is.**  Every operation that addresses a message `x` to client `i` on channel `ch`
    (`send_message(i, ch, x)`, `broadcast_message(ch, x)`, `broadcast_message_except(ex, ch, x)` with `ex ≠ i`) while
    `i` is in the table runs `send_message` on `i`'s table entry and appends `x` to the log `subS ch` of `i`'s link
    iff the reliable channel accepted it (`accepted`: the entry was live, `ch` is a reliable send channel, and
    `send_message` did not disconnect it). -/
theorem addressed_is_logged {m' : MSys} {op : MOp} {ch : Nat} {x : Bytes} {c : Conn} (hw : m.WF P)
    (hs : m.step op = some m')
    (hop : op = .srvSend i ch x ∨ op = .broadcast ch x ∨ ∃ ex, ex ≠ i ∧ op = .broadcastExcept ex ch x)
    (hc : conn? m.server i = some c) (hl : m.links i = some l) :
    ∃ c' l', c.sendMessage ch x = .ok c' ∧ conn? m'.server i = some c' ∧ m'.links i = some l' ∧
      l'.subS ch = (if accepted c c' ch then l.subS ch ++ [x] else l.subS ch) ∧ l'.obtC = l.obtC ∧ l'.cl = l.cl := by
  have ha : op.act i = .sSend ch x := by
    rcases hop with rfl | rfl | ⟨ex, hne, rfl⟩
    · simp [MOp.act]
    · rfl
    · have : ¬ i = ex := fun e => hne e.symm
      simp [MOp.act, this]
  obtain ⟨c', h1, h2, h3⟩ := sSend_logged hw hs ha hc hl
  exact ⟨c', _, h1, h2, h3, logS_subS l c c' ch x, rfl, rfl⟩

/-- **One lossless round for client `i` alone, from any reachable state (ReliableOrdered; H1 as a hypothesis).**
    The operations of the round do not panic, both ends of the link stay live, the client has obtained exactly the
    log `l.subS ch`, in order — and every operation list with the same local trace for `i` (the round interleaved with
    arbitrary operations that concern other clients only) ends in the same view of `i`. -/
theorem round_delivers_to_client (h : At P ops m i l) (c : Conn) (hconn : conn? m.server i = some c)
    (hc : CountersOK P.down (dirDown c l)) (hcA : c.CountersOK)
    (hda : c.isDisconnected = false) (hdb : l.cl.isDisconnected = false)
    (ch : Nat) (ho : P.down.Ordered ch) (sA : SendRel) (hfA : SMap.find? c.sendRel ch = some sA)
    (rB : RecvRel) (hfB : SMap.find? l.cl.recvRel ch = some rB)
    (H1 : AllDue c.now sA.resend sA.unacked) (H2 : backlog sA.unacked ≤ availAtTurn c ch)
    (H3 : Room (l.subS ch) rB) (H4 : ∀ p ∈ flushPk c, OnlyCh ch p)
    (ks : List Nat) (hks1 : ∀ k ∈ flushIdx l c, k ∈ ks) (hks2 : ∀ k ∈ ks, k ∈ flushIdx l c)
    (n : Nat) (hn : (l.subS ch).length ≤ (l.obtC ch).length + n) :
    ∃ m' c' l', m.run (roundFor i ch ks n) = some m' ∧ conn? m'.server i = some c' ∧ m'.links i = some l' ∧
      c'.isDisconnected = false ∧ l'.cl.isDisconnected = false ∧ l'.tainted = false ∧ l'.subS = l.subS ∧
      l'.obtC ch = l.subS ch ∧
      ∀ ops' m'', trace i ops' = trace i (roundFor i ch ks n) → m.run ops' = some m'' → m''.view i = m'.view i := by
  have hw := reach_wf P ops m h.run
  have r := reachL P ops m h.run i l h.link h.clean
  have hv : m.view i = ⟨some c, some l⟩ := by unfold MSys.view; rw [hconn, h.link]
  have g0 : GoodL P.down (dirDown c l) := by have := r.goodD; rw [hv] at this; exact this
  obtain ⟨pkA, hA, -⟩ := allInv_of_goodL g0 hc
  obtain ⟨u, hu, a1, a2, a3, a4⟩ := round_delivers_inv hA hc hcA hda hdb ch ho sA hfA rB hfB H1 H2 H3 H4 ks hks1 hks2 n hn
  have hu' : (down (m.view i) l).run (roundOps ch ks n) = some u := by rw [hv]; exact hu
  obtain ⟨m', hr, hc', hl', -, hint⟩ := round_lift hw hconn h.link (roundOps ch ks n) (roundOps_isRound ch ks n) u hu'
  rw [roundOps_map] at hr hint
  exact ⟨m', u.a, liftLink l u, hr, hc', hl', a1, a2, h.clean, rfl, a4, hint⟩

/-- **Broadcast reaches every connected client: the liveness half (ReliableOrdered).**  From ANY reachable state `m`,
    for every client `i` whose link is untainted and live on both ends: let the server's clock advance by
    `dt ≥ resend_time` and run ONE lossless round for client `i` ALONE — in ANY interleaving `ops'` with operations
    that concern other clients only.  Under the hypotheses of `C01L.bounded_delivery` for the link of `i`, afterwards
    both ends of the link are live and client `i` has obtained EXACTLY the messages addressed to it so far (the log
    `l.subS ch`, see `addressed_is_logged`), in order: each of them at least once, none more often than the run `ops`
    addressed it to `i` (`C11E.broadcast_exactly_once_partial`). -/
theorem broadcast_exactly_once (h : At P ops m i l) (c : Conn) (hconn : conn? m.server i = some c)
    (hda : c.isDisconnected = false) (hdb : l.cl.isDisconnected = false)
    (ch : Nat) (ho : P.down.Ordered ch) (sA : SendRel) (hfA : SMap.find? c.sendRel ch = some sA)
    (rB : RecvRel) (hfB : SMap.find? l.cl.recvRel ch = some rB)
    (dt : Nat) (hdt : sA.resend ≤ dt) (cu : Conn) (hcu : c.update dt = .ok cu)
    (hc : CountersOK P.down (dirDown cu l)) (hcA : cu.CountersOK)
    (H2 : backlog sA.unacked ≤ availAtTurn cu ch) (H3 : Room (l.subS ch) rB) (H4 : ∀ p ∈ flushPk cu, OnlyCh ch p)
    (ks : List Nat) (hks1 : ∀ k ∈ flushIdx l cu, k ∈ ks) (hks2 : ∀ k ∈ ks, k ∈ flushIdx l cu)
    (n : Nat) (hn : (l.subS ch).length ≤ (l.obtC ch).length + n)
    (ops' : List MOp) (ht : trace i ops' = trace i (.srvUpdate dt :: roundFor i ch ks n))
    (m'' : MSys) (hr : m.run ops' = some m'') :
    ∃ c'' l'', conn? m''.server i = some c'' ∧ m''.links i = some l'' ∧ c''.isDisconnected = false ∧
      l''.cl.isDisconnected = false ∧ l''.tainted = false ∧ l''.subS = l.subS ∧ l''.obtC ch = l.subS ch ∧
      ∀ x ∈ l.subS ch, 1 ≤ (l''.obtC ch).count x ∧ (l''.obtC ch).count x ≤ (addressedTo i ch ops).count x := by
  have hw := reach_wf P ops m h.run
  have r := reachL P ops m h.run i l h.link h.clean
  have hv : m.view i = ⟨some c, some l⟩ := by unfold MSys.view; rw [hconn, h.link]
  have g0 : GoodL P.down (dirDown c l) := by have := r.goodD; rw [hv] at this; exact this
  obtain ⟨hs, g1⟩ := goodL_tick g0 hcu
  obtain ⟨pk0, i1, -⟩ := id g0
  obtain ⟨hfu, hdue⟩ := due_after_update_inv i1 ch sA hfA dt hdt _ hs
  obtain ⟨-, -, e3, -⟩ := updA_frame hs
  obtain ⟨pkA, hA, -⟩ := allInv_of_goodL g1 hc
  obtain ⟨u, hu, a1, a2, a3, a4⟩ := round_delivers_inv (s := dirDown cu l) hA hc hcA (e3.trans hda) hdb ch ho sA hfu rB hfB
    hdue H2 H3 H4 ks hks1 hks2 n hn
  have hview := tick_round_view hw hconn h.link hcu u hu ops' ht hr
  have e4 : (liftLink l u).obtC ch = l.subS ch := a4
  refine ⟨u.a, liftLink l u, congrArg LV.conn hview, congrArg LV.link hview, a1, a2, h.clean, rfl, e4, ?_⟩
  intro x hx
  rw [e4]
  exact ⟨List.count_pos_iff.mpr hx, ((reach P ops m h.run i l h.link h.clean).subS ch).count_le x⟩

/-- **The same on a ReliableUnordered channel (C02's liveness clause):** the client has obtained a PERMUTATION of the
    log — every message addressed to it exactly as often as it was logged. -/
theorem broadcast_exactly_once_unordered (h : At P ops m i l) (c : Conn) (hconn : conn? m.server i = some c)
    (hda : c.isDisconnected = false) (hdb : l.cl.isDisconnected = false)
    (ch : Nat) (ho : P.down.Unordered ch) (sA : SendRel) (hfA : SMap.find? c.sendRel ch = some sA)
    (rB : RecvRel) (hfB : SMap.find? l.cl.recvRel ch = some rB)
    (dt : Nat) (hdt : sA.resend ≤ dt) (cu : Conn) (hcu : c.update dt = .ok cu)
    (hc : CountersOK P.down (dirDown cu l)) (hcA : cu.CountersOK)
    (H2 : backlog sA.unacked ≤ availAtTurn cu ch) (H3 : Room (l.subS ch) rB) (H4 : ∀ p ∈ flushPk cu, OnlyCh ch p)
    (ks : List Nat) (hks1 : ∀ k ∈ flushIdx l cu, k ∈ ks) (hks2 : ∀ k ∈ ks, k ∈ flushIdx l cu)
    (n : Nat) (hn : (l.subS ch).length ≤ (l.obtC ch).length + n)
    (ops' : List MOp) (ht : trace i ops' = trace i (.srvUpdate dt :: roundFor i ch ks n))
    (m'' : MSys) (hr : m.run ops' = some m'') :
    ∃ c'' l'', conn? m''.server i = some c'' ∧ m''.links i = some l'' ∧ c''.isDisconnected = false ∧
      l''.cl.isDisconnected = false ∧ l''.tainted = false ∧ l''.subS = l.subS ∧ (l''.obtC ch).Perm (l.subS ch) ∧
      ∀ x ∈ l.subS ch, 1 ≤ (l''.obtC ch).count x ∧ (l''.obtC ch).count x ≤ (addressedTo i ch ops).count x := by
  have hw := reach_wf P ops m h.run
  have r := reachL P ops m h.run i l h.link h.clean
  have hv : m.view i = ⟨some c, some l⟩ := by unfold MSys.view; rw [hconn, h.link]
  have g0 : GoodL P.down (dirDown c l) := by have := r.goodD; rw [hv] at this; exact this
  obtain ⟨hs, g1⟩ := goodL_tick g0 hcu
  obtain ⟨pk0, i1, -⟩ := id g0
  obtain ⟨hfu, hdue⟩ := due_after_update_inv i1 ch sA hfA dt hdt _ hs
  obtain ⟨-, -, e3, -⟩ := updA_frame hs
  obtain ⟨pkA, hA, hF⟩ := allInv_of_goodL g1 hc
  obtain ⟨u, hu, a1, a2, a3, a4⟩ := round_delivers_unordered_live_inv (s := dirDown cu l) hA hF hc hcA (e3.trans hda) hdb
    ch ho sA hfu rB hfB hdue H2 H3 H4 ks hks1 hks2 n hn
  have hview := tick_round_view hw hconn h.link hcu u hu ops' ht hr
  have e4 : ((liftLink l u).obtC ch).Perm (l.subS ch) := a4
  refine ⟨u.a, liftLink l u, congrArg LV.conn hview, congrArg LV.link hview, a1, a2, h.clean, rfl, e4, ?_⟩
  intro x hx
  rw [e4.count_eq x]
  exact ⟨List.count_pos_iff.mpr hx, ((reach P ops m h.run i l h.link h.clean).subS ch).count_le x⟩

/-- **… as C01 words it: "unless the client has been disconnected"** (no H3 / H4; the flush may carry other channels
    too, `ks` may contain ANY datagrams of the emission history — stale ones, repetitions — as long as those of this
    flush are among them).  Nothing panics on the link of `i`, the server side stays live, and unless client `i` has
    been disconnected it has obtained exactly the log, in order. -/
theorem broadcast_exactly_once_unless_disconnected (h : At P ops m i l) (c : Conn) (hconn : conn? m.server i = some c)
    (hda : c.isDisconnected = false)
    (ch : Nat) (ho : P.down.Ordered ch) (sA : SendRel) (hfA : SMap.find? c.sendRel ch = some sA)
    (dt : Nat) (hdt : sA.resend ≤ dt) (cu : Conn) (hcu : c.update dt = .ok cu)
    (hc : CountersOK P.down (dirDown cu l)) (hcA : cu.CountersOK)
    (H2 : backlog sA.unacked ≤ availAtTurn cu ch)
    (ks : List Nat) (hks1 : ∀ k ∈ flushIdx l cu, k ∈ ks) (hks2 : ∀ k ∈ ks, k < l.outS.length + (flushPk cu).length)
    (n : Nat) (hn : (l.subS ch).length ≤ (l.obtC ch).length + n)
    (ops' : List MOp) (ht : trace i ops' = trace i (.srvUpdate dt :: roundFor i ch ks n))
    (m'' : MSys) (hr : m.run ops' = some m'') :
    ∃ c'' l'', conn? m''.server i = some c'' ∧ m''.links i = some l'' ∧ c''.isDisconnected = false ∧
      l''.tainted = false ∧ l''.subS = l.subS ∧ (l''.cl.isDisconnected = false → l''.obtC ch = l.subS ch) := by
  have hw := reach_wf P ops m h.run
  have r := reachL P ops m h.run i l h.link h.clean
  have hv : m.view i = ⟨some c, some l⟩ := by unfold MSys.view; rw [hconn, h.link]
  have g0 : GoodL P.down (dirDown c l) := by have := r.goodD; rw [hv] at this; exact this
  obtain ⟨hs, g1⟩ := goodL_tick g0 hcu
  obtain ⟨pk0, i1, -⟩ := id g0
  obtain ⟨hfu, hdue⟩ := due_after_update_inv i1 ch sA hfA dt hdt _ hs
  obtain ⟨-, -, e3, -⟩ := updA_frame hs
  obtain ⟨pkA, hA, -⟩ := allInv_of_goodL g1 hc
  obtain ⟨t, u, -, -, hu, e1, e2, -, hcon⟩ := round_progress_inv (s := dirDown cu l) hA hc hcA (e3.trans hda) ch ho sA hfu
    sA.unacked [] (by simp) (l.subS ch).length (fun _ h => by cases h) (Nat.le_refl _) hdue H2 ks hks1 hks2 n hn
  have hview := tick_round_view hw hconn h.link hcu u hu ops' ht hr
  refine ⟨u.a, liftLink l u, congrArg LV.conn hview, congrArg LV.link hview, e2, h.clean, rfl, ?_⟩
  intro hl
  obtain ⟨p1, p2⟩ := hcon hl
  have p1' : l.subS ch <+: u.obtained ch := by
    have : (dirDown cu l).submitted ch = l.subS ch := rfl
    rw [this, List.take_length] at p1; exact p1
  exact p2.eq_of_length (Nat.le_antisymm p2.length_le p1'.length_le)

/-- **Single-channel configuration** (the only server → client channel is the ReliableOrdered channel `ch`): the
    budget hypothesis is just `backlog ≤ available_bytes_per_tick`, H4 is automatic, the datagrams of the flush are
    handed over in emission order. -/
theorem broadcast_exactly_once_single (h : At P ops m i l) (c : Conn) (hconn : conn? m.server i = some c)
    (hda : c.isDisconnected = false) (hdb : l.cl.isDisconnected = false)
    (ch : Nat) (hsingle : Single P.down ch) (sA : SendRel) (hfA : SMap.find? c.sendRel ch = some sA)
    (rB : RecvRel) (hfB : SMap.find? l.cl.recvRel ch = some rB)
    (dt : Nat) (hdt : sA.resend ≤ dt) (cu : Conn) (hcu : c.update dt = .ok cu)
    (hc : CountersOK P.down (dirDown cu l)) (hcA : cu.CountersOK)
    (H2 : backlog sA.unacked ≤ P.budget) (H3 : Room (l.subS ch) rB)
    (n : Nat) (hn : (l.subS ch).length ≤ (l.obtC ch).length + n)
    (ops' : List MOp) (ht : trace i ops' = trace i (.srvUpdate dt :: roundFor i ch (flushIdx l cu) n))
    (m'' : MSys) (hr : m.run ops' = some m'') :
    ∃ c'' l'', conn? m''.server i = some c'' ∧ m''.links i = some l'' ∧ c''.isDisconnected = false ∧
      l''.cl.isDisconnected = false ∧ l''.tainted = false ∧ l''.subS = l.subS ∧ l''.obtC ch = l.subS ch ∧
      ∀ x ∈ l.subS ch, 1 ≤ (l''.obtC ch).count x ∧ (l''.obtC ch).count x ≤ (addressedTo i ch ops).count x := by
  have r := reachL P ops m h.run i l h.link h.clean
  have hv : m.view i = ⟨some c, some l⟩ := by unfold MSys.view; rw [hconn, h.link]
  have g0 : GoodL P.down (dirDown c l) := by have := r.goodD; rw [hv] at this; exact this
  obtain ⟨-, pkU, hU, -⟩ := goodL_tick g0 hcu
  have hav : availAtTurn cu ch = P.budget := single_avail hsingle hU
  exact broadcast_exactly_once h c hconn hda hdb ch (single_ordered hsingle) sA hfA rB hfB dt hdt cu hcu hc hcA
    (by rw [hav]; exact H2) H3 (single_only hU.invA.1 (single_order hsingle hU)) (flushIdx l cu) (fun _ hk => hk)
    (fun _ hk => hk) n hn ops' ht m'' hr

/-- **A stalled or misbehaving client does not delay the others.**  Same hypotheses on client `i` as
    `broadcast_exactly_once`, stated on the reachable state `m`.  Then let ANYTHING happen to the other clients first
    (`opsJ`: any operations whose target is a client `j ≠ i` — client `j` never receives a datagram, its ordered stream
    stalled forever; hostile bytes in its name; its disconnection by the server because its send channel ran full,
    `ReliableChannelMaxMemoryReached`; its removal …), and let the tick and the round of `i` be interleaved with more
    of the same (`ops'`, incl. `broadcast_except(i)` traffic that fills the others' channels): the outcome for `i` is
    exactly that of `broadcast_exactly_once` — everything addressed to `i` is obtained, in order, in this ONE round. -/
theorem stalled_client_does_not_delay_others (h : At P ops m i l) (c : Conn) (hconn : conn? m.server i = some c)
    (hda : c.isDisconnected = false) (hdb : l.cl.isDisconnected = false)
    (ch : Nat) (ho : P.down.Ordered ch) (sA : SendRel) (hfA : SMap.find? c.sendRel ch = some sA)
    (rB : RecvRel) (hfB : SMap.find? l.cl.recvRel ch = some rB)
    (dt : Nat) (hdt : sA.resend ≤ dt) (cu : Conn) (hcu : c.update dt = .ok cu)
    (hc : CountersOK P.down (dirDown cu l)) (hcA : cu.CountersOK)
    (H2 : backlog sA.unacked ≤ availAtTurn cu ch) (H3 : Room (l.subS ch) rB) (H4 : ∀ p ∈ flushPk cu, OnlyCh ch p)
    (ks : List Nat) (hks1 : ∀ k ∈ flushIdx l cu, k ∈ ks) (hks2 : ∀ k ∈ ks, k ∈ flushIdx l cu)
    (n : Nat) (hn : (l.subS ch).length ≤ (l.obtC ch).length + n)
    (opsJ : List MOp) (hJ : ∀ op ∈ opsJ, ∃ j, target op = some j ∧ j ≠ i) (mJ : MSys) (hrJ : m.run opsJ = some mJ)
    (ops' : List MOp) (ht : trace i ops' = trace i (.srvUpdate dt :: roundFor i ch ks n))
    (m'' : MSys) (hr : mJ.run ops' = some m'') :
    mJ.view i = m.view i ∧
    ∃ c'' l'', conn? m''.server i = some c'' ∧ m''.links i = some l'' ∧ c''.isDisconnected = false ∧
      l''.cl.isDisconnected = false ∧ l''.tainted = false ∧ l''.subS = l.subS ∧ l''.obtC ch = l.subS ch ∧
      ∀ x ∈ l.subS ch, 1 ≤ (l''.obtC ch).count x ∧ (l''.obtC ch).count x ≤ (addressedTo i ch ops).count x := by
  have hvJ : mJ.view i = m.view i := faults_are_local_run i h.run hrJ hJ
  have hAt : At P (ops ++ opsJ) mJ i l := by
    refine ⟨?_, ?_, h.clean⟩
    · rw [MSys.run_append, h.run]; exact hrJ
    · have := congrArg LV.link hvJ
      exact this.trans h.link
  have hconnJ : conn? mJ.server i = some c := (congrArg LV.conn hvJ).trans hconn
  have hnil : addressedTo i ch opsJ = [] := by
    apply addressedTo_nil_of_skip
    intro op hop
    obtain ⟨j, hj, hne⟩ := hJ op hop
    exact act_skip_of_target hj hne
  have := broadcast_exactly_once hAt c hconnJ hda hdb ch ho sA hfA rB hfB dt hdt cu hcu hc hcA H2 H3 H4 ks hks1 hks2 n hn
    ops' ht m'' hr
  unfold addressedTo at this hnil
  rw [List.flatMap_append, hnil, List.append_nil] at this
  exact ⟨hvJ, this⟩

end Theorems

/-! ## non-vacuity: concrete runs, evaluated by the kernel AND covered by the theorems -/

def okD {ε α : Type} (x : Res ε α) (d : α) : α := match x with | .ok a => a | _ => d
def isOkB {ε α : Type} (x : Res ε α) : Bool := match x with | .ok _ => true | _ => false
theorem ok_okD {ε α : Type} {x : Res ε α} (h : isOkB x = true) (d : α) : x = .ok (okD x d) := by
  cases x with
  | ok a => rfl
  | err e => cases h
  | panic p => cases h

/-! `Ex0` — literally the final state of `C11E.Ex` (three clients; client 2 hostile, disconnected, removed; the
    datagram that carried [60] to client 1 LOST), no acknowledgement in between: after the tick the server's flush for
    client 1 retransmits [10], [20], [30], [60] on channel 0 AND [40] on channel 1 (`outS[4]`, `outS[5]`) and emits an
    ack packet (`outS[6]`) — H4 does not hold, so `broadcast_exactly_once_unless_disconnected` is the theorem that
    applies.  One lossless round for client 1 alone; meanwhile client 3 is fed a replayed datagram and disconnects. -/
namespace Ex0

def P : Params := C11E.Ex.P
def ops : List MOp := C11E.Ex.ops
def m : MSys := C11E.Ex.fin
def l : Link := C11E.Ex.l1
theorem at1 : At P ops m 1 l := C11E.Ex.at1
def c : Conn := (conn? m.server 1).getD l.last
theorem conn1 : conn? m.server 1 = some c := some_getD (by decide +kernel) _
def cu : Conn := okD (c.update 1000) c
theorem upd : c.update 1000 = .ok cu := ok_okD (by decide +kernel) _
def sA : SendRel := (SMap.find? c.sendRel 0).getD (SendRel.new 0 0 0)
theorem find_sA : SMap.find? c.sendRel 0 = some sA := some_getD (by decide +kernel) _

theorem facts : c.isDisconnected = false ∧ sA.resend ≤ 1000 ∧ backlog sA.unacked ≤ availAtTurn cu 0 ∧
    flushIdx l cu = [4, 5, 6] ∧ l.outS.length + (flushPk cu).length = 7 ∧
    l.subS 0 = [[10], [20], [30], [60]] ∧ l.obtC 0 = [[10], [20], [30]] ∧
    ¬ (∀ p ∈ flushPk cu, OnlyCh 0 p) := by
  decide +kernel

theorem counters : CountersOK P.down (dirDown cu l) := by
  refine ⟨?_, ?_, ?_, ?_, ?_⟩ <;> decide +kernel
theorem countersA : cu.CountersOK := CI.countersOK_of_b (by decide +kernel)

/-- the round of client 1 hands over the new datagrams 6, 4, 5 and — again — the stale datagram 1 -/
def ops' : List MOp :=
  [.srvUpdate 1000, .deliverToCli 3 2, .srvFlush 1, .deliverToCli 1 6, .deliverToCli 1 4, .cliDisconnect 3,
   .deliverToCli 1 1, .deliverToCli 1 5, .cliRecv 1 0]
def fin : MSys := (m.run ops').getD m
theorem run' : m.run ops' = some fin := some_getD (by decide +kernel) _

theorem client1_has_60_unless_disconnected :
    ∃ c'' l'', conn? fin.server 1 = some c'' ∧ fin.links 1 = some l'' ∧ c''.isDisconnected = false ∧
      l''.tainted = false ∧ l''.subS = l.subS ∧ (l''.cl.isDisconnected = false → l''.obtC 0 = l.subS 0) :=
  broadcast_exactly_once_unless_disconnected at1 c conn1 facts.1 0 C11E.Ex.ordered0 sA find_sA 1000 facts.2.1 cu upd
    counters countersA facts.2.2.1 [6, 4, 1, 5]
    (by rw [facts.2.2.2.1]; decide) (by rw [facts.2.2.2.2.1]; decide) 1
    (by rw [facts.2.2.2.2.2.1, facts.2.2.2.2.2.2.1]; decide)
    ops' (by decide) fin run'

/-- client 1 was not disconnected (evaluated), hence — by the theorem — it now has [60] too; and the kernel agrees -/
theorem live1 : (fin.links 1).map (fun l => l.cl.isDisconnected) = some false := by decide +kernel

example : ∃ l'', fin.links 1 = some l'' ∧ l''.obtC 0 = [[10], [20], [30], [60]] := by
  obtain ⟨_, l'', -, hl, -, -, -, himp⟩ := client1_has_60_unless_disconnected
  refine ⟨l'', hl, ?_⟩
  have hlive := live1
  rw [hl] at hlive
  rw [himp (Option.some.inj hlive)]
  exact facts.2.2.2.2.2.1

example : (fin.links 1).map (fun l => (l.obtC 0, l.obtC 1, l.delivC)) =
    some ([[10], [20], [30], [60]], [[40]], [0, 1, 6, 4, 1, 5]) := by decide +kernel

end Ex0

/-! `Ex1` — the run `C11E.Ex.ops` continued.  There: three clients; client 2 was fed garbage, disconnected and removed;
    the server broadcast [60]; the datagram for client 3 arrived, the one for client 1 was LOST (client 1 has obtained
    [10], [20], [30] of its log [10], [20], [30], [60]).  Here client 1 first acknowledges what it received earlier
    (`cliFlush 1`, `deliverToSrv 1 1`; so that only [60] is left in the server's `unacked` for client 1 and the next
    flush carries channel 0 only: H4).  State `m`.  Then the tick (`srvUpdate 1000`, resend time 100 ns) and ONE
    lossless round for client 1 ALONE: the flush emits `outS[4]` ([60] again) and `outS[5]` (an ack packet). -/
namespace Ex1

def P : Params := C11E.Ex.P
theorem ordered0 : P.down.Ordered 0 := C11E.Ex.ordered0

def ops : List MOp := C11E.Ex.ops ++ [.cliFlush 1, .deliverToSrv 1 1]
def m : MSys := ((MSys.init P).run ops).getD (MSys.init P)
theorem run : (MSys.init P).run ops = some m := some_getD (by decide +kernel) _
def l : Link := (m.links 1).getD (Link.fresh P)
theorem link : m.links 1 = some l := some_getD (by decide +kernel) _
theorem at1 : At P ops m 1 l := ⟨run, link, by decide +kernel⟩
def c : Conn := (conn? m.server 1).getD l.last
theorem conn1 : conn? m.server 1 = some c := some_getD (by decide +kernel) _
def cu : Conn := okD (c.update 1000) c
theorem upd : c.update 1000 = .ok cu := ok_okD (by decide +kernel) _
def sA : SendRel := (SMap.find? c.sendRel 0).getD (SendRel.new 0 0 0)
theorem find_sA : SMap.find? c.sendRel 0 = some sA := some_getD (by decide +kernel) _
def rB : RecvRel := (SMap.find? l.cl.recvRel 0).getD (RecvRel.new 0 true)
theorem find_rB : SMap.find? l.cl.recvRel 0 = some rB := some_getD (by decide +kernel) _

/-- the hypotheses of `broadcast_exactly_once` for client 1, evaluated: both ends live, the timer, H2 (backlog = the
    one byte of [60]), H3, H4, the indices of the flush, and where client 1 stands: [60] is logged, not yet obtained -/
theorem facts : c.isDisconnected = false ∧ l.cl.isDisconnected = false ∧ sA.resend ≤ 1000 ∧
    backlog sA.unacked ≤ availAtTurn cu 0 ∧ Room (l.subS 0) rB ∧ (∀ p ∈ flushPk cu, OnlyCh 0 p) ∧
    flushIdx l cu = [4, 5] ∧ l.subS 0 = [[10], [20], [30], [60]] ∧ l.obtC 0 = [[10], [20], [30]] ∧
    backlog sA.unacked = 1 ∧ sA.unacked.map (·.1) = [3] := by
  decide +kernel

theorem counters : CountersOK P.down (dirDown cu l) := by
  refine ⟨?_, ?_, ?_, ?_, ?_⟩ <;> decide +kernel
theorem countersA : cu.CountersOK := CI.countersOK_of_b (by decide +kernel)

/-- the tick and the round of client 1 (datagrams handed over in the order 5, 4), interleaved with what happens to the
    others meanwhile: garbage in client 3's name (which disconnects its slot), client 3 disconnecting and being
    removed, garbage in the name of the removed client 2, a stale datagram replayed to client 3 -/
def ops' : List MOp :=
  [.hostile 3 [255], .srvUpdate 1000, .cliDisconnect 3, .srvFlush 1, .deliverToCli 1 5, .hostile 2 [1],
   .deliverToCli 3 0, .deliverToCli 1 4, .remove 3, .cliRecv 1 0]
def fin : MSys := (m.run ops').getD m
theorem run' : m.run ops' = some fin := some_getD (by decide +kernel) _

/-- `broadcast_exactly_once` applied: client 1 now has everything that was addressed to it, [60] included -/
theorem client1_has_everything :
    ∃ c'' l'', conn? fin.server 1 = some c'' ∧ fin.links 1 = some l'' ∧ c''.isDisconnected = false ∧
      l''.cl.isDisconnected = false ∧ l''.tainted = false ∧ l''.subS = l.subS ∧ l''.obtC 0 = l.subS 0 ∧
      ∀ x ∈ l.subS 0, 1 ≤ (l''.obtC 0).count x ∧ (l''.obtC 0).count x ≤ (addressedTo 1 0 ops).count x :=
  broadcast_exactly_once at1 c conn1 facts.1 facts.2.1 0 ordered0 sA find_sA rB find_rB 1000 facts.2.2.1 cu upd
    counters countersA facts.2.2.2.1 facts.2.2.2.2.1 facts.2.2.2.2.2.1 [5, 4]
    (by rw [facts.2.2.2.2.2.2.1]; decide) (by rw [facts.2.2.2.2.2.2.1]; decide) 1
    (by rw [facts.2.2.2.2.2.2.2.1, facts.2.2.2.2.2.2.2.2.1]; decide)
    ops' (by decide) fin run'

/-- … in particular [60]: obtained exactly once -/
example : ∃ l'', fin.links 1 = some l'' ∧ (l''.obtC 0).count [60] = 1 := by
  obtain ⟨_, l'', -, hl, -, -, -, -, -, hcnt⟩ := client1_has_everything
  have hx : [60] ∈ l.subS 0 := by rw [facts.2.2.2.2.2.2.2.1]; decide
  obtain ⟨h1, h2⟩ := hcnt [60] hx
  have h3 : (addressedTo 1 0 ops).count [60] = 1 := by decide
  exact ⟨l'', hl, by omega⟩

/-- the same facts computed by the kernel: client 1 obtained [10], [20], [30], [60]; the datagrams 5 and 4 were handed
    over; client 3 is gone, client 1's slot is connected -/
example : (fin.links 1).map (fun l => (l.obtC 0, l.subS 0, l.delivC, l.tainted, l.cl.isDisconnected)) =
      some ([[10], [20], [30], [60]], [[10], [20], [30], [60]], [0, 1, 5, 4], false, false) ∧
    (conn? fin.server 1).map (·.status) = some .connected ∧ (conn? fin.server 3).map (·.status) = none := by
  decide +kernel

/-- the round of client 1 with nothing else going on does not panic either (`round_delivers_to_client`, applied to the
    state after the tick) -/
def mu : MSys := (m.step (.srvUpdate 1000)).getD m
theorem step_mu : m.step (.srvUpdate 1000) = some mu := some_getD (by decide +kernel) _
theorem run_mu : (MSys.init P).run (ops ++ [.srvUpdate 1000]) = some mu := by
  rw [MSys.run_append, run]; simp only [Option.bind_some, MSys.run, step_mu]
theorem viewU : conn? mu.server 1 = some cu ∧ mu.links 1 = some l := by
  obtain ⟨cu', h1, h2, h3, -⟩ := srvUpdate_down (reach_wf P ops m run) step_mu conn1 link
  rw [upd] at h1
  cases h1
  exact ⟨h2, h3⟩
def sAu : SendRel := (SMap.find? cu.sendRel 0).getD (SendRel.new 0 0 0)
theorem find_sAu : SMap.find? cu.sendRel 0 = some sAu := some_getD (by decide +kernel) _
theorem factsU : cu.isDisconnected = false ∧ AllDue cu.now sAu.resend sAu.unacked ∧
    backlog sAu.unacked ≤ availAtTurn cu 0 := by
  decide +kernel

example : ∃ m' c' l', mu.run (roundFor 1 0 [4, 5] 1) = some m' ∧ conn? m'.server 1 = some c' ∧ m'.links 1 = some l' ∧
      c'.isDisconnected = false ∧ l'.cl.isDisconnected = false ∧ l'.tainted = false ∧ l'.subS = l.subS ∧
      l'.obtC 0 = l.subS 0 ∧
      ∀ ops' m'', trace 1 ops' = trace 1 (roundFor 1 0 [4, 5] 1) → mu.run ops' = some m'' → m''.view 1 = m'.view 1 :=
  round_delivers_to_client ⟨run_mu, viewU.2, at1.clean⟩ cu viewU.1 counters countersA factsU.1 facts.2.1 0
    ordered0 sAu find_sAu rB find_rB factsU.2.1 factsU.2.2 facts.2.2.2.2.1 facts.2.2.2.2.2.1 [4, 5]
    (by rw [facts.2.2.2.2.2.2.1]; decide) (by rw [facts.2.2.2.2.2.2.1]; decide) 1
    (by rw [facts.2.2.2.2.2.2.2.1, facts.2.2.2.2.2.2.2.2.1]; decide)

end Ex1

/-! `ExU` — the ReliableUnordered channel 1 of `C11E.Ex.P`.  Clients 1 and 2 connect; the server broadcasts a
    1300-byte message (two slices) and [71] on channel 1, and [72] by `broadcast_except(1)`.  It flushes for both;
    client 2's first datagram arrives, client 1's three datagrams are ALL LOST.  State `m`.  The tick; one lossless
    round for client 1 alone, the datagrams handed over in the order small packet, slice 1, slice 0, slice 1 again. -/
namespace ExU

def P : Params := C11E.Ex.P
def big : Bytes := List.replicate 1200 7 ++ List.replicate 100 9
def ops : List MOp :=
  [.addClient 1, .addClient 2, .broadcast 1 big, .broadcast 1 [71], .broadcastExcept 1 1 [72], .srvFlush 1, .srvFlush 2,
   .deliverToCli 2 0]
set_option maxRecDepth 100000 in
def m : MSys := ((MSys.init P).run ops).getD (MSys.init P)
set_option maxRecDepth 100000 in
theorem run : (MSys.init P).run ops = some m := some_getD (by decide +kernel) _
def l : Link := (m.links 1).getD (Link.fresh P)
set_option maxRecDepth 100000 in
theorem link : m.links 1 = some l := some_getD (by decide +kernel) _
set_option maxRecDepth 100000 in
theorem at1 : At P ops m 1 l := ⟨run, link, by decide +kernel⟩
def c : Conn := (conn? m.server 1).getD l.last
set_option maxRecDepth 100000 in
theorem conn1 : conn? m.server 1 = some c := some_getD (by decide +kernel) _
def cu : Conn := okD (c.update 1000) c
set_option maxRecDepth 100000 in
theorem upd : c.update 1000 = .ok cu := ok_okD (by decide +kernel) _
def sA : SendRel := (SMap.find? c.sendRel 1).getD (SendRel.new 0 0 0)
set_option maxRecDepth 100000 in
theorem find_sA : SMap.find? c.sendRel 1 = some sA := some_getD (by decide +kernel) _
def rB : RecvRel := (SMap.find? l.cl.recvRel 1).getD (RecvRel.new 0 true)
set_option maxRecDepth 100000 in
theorem find_rB : SMap.find? l.cl.recvRel 1 = some rB := some_getD (by decide +kernel) _

set_option maxRecDepth 100000 in
theorem facts : c.isDisconnected = false ∧ l.cl.isDisconnected = false ∧ sA.resend ≤ 1000 ∧
    backlog sA.unacked ≤ availAtTurn cu 1 ∧ Room (l.subS 1) rB ∧ (∀ p ∈ flushPk cu, OnlyCh 1 p) ∧
    flushIdx l cu = [3, 4, 5] ∧ l.subS 1 = [big, [71]] ∧ l.obtC 1 = [] ∧ l.delivC = [] ∧
    backlog sA.unacked = 2401 := by
  decide +kernel

set_option maxRecDepth 100000 in
theorem counters : CountersOK P.down (dirDown cu l) := by
  refine ⟨?_, ?_, ?_, ?_, ?_⟩ <;> decide +kernel
set_option maxRecDepth 100000 in
theorem countersA : cu.CountersOK := CI.countersOK_of_b (by decide +kernel)

def ops' : List MOp :=
  [.cliRecv 2 1, .srvUpdate 1000, .srvFlush 1, .deliverToCli 1 5, .hostile 2 [3], .deliverToCli 1 4, .deliverToCli 1 3,
   .deliverToCli 1 4, .cliRecv 1 1, .srvDisconnect 2, .cliRecv 1 1]
set_option maxRecDepth 100000 in
def fin : MSys := (m.run ops').getD m
set_option maxRecDepth 100000 in
theorem run' : m.run ops' = some fin := some_getD (by decide +kernel) _

/-- `broadcast_exactly_once_unordered` applied -/
theorem client1_has_everything :
    ∃ c'' l'', conn? fin.server 1 = some c'' ∧ fin.links 1 = some l'' ∧ c''.isDisconnected = false ∧
      l''.cl.isDisconnected = false ∧ l''.tainted = false ∧ l''.subS = l.subS ∧ (l''.obtC 1).Perm (l.subS 1) ∧
      ∀ x ∈ l.subS 1, 1 ≤ (l''.obtC 1).count x ∧ (l''.obtC 1).count x ≤ (addressedTo 1 1 ops).count x :=
  broadcast_exactly_once_unordered at1 c conn1 facts.1 facts.2.1 1 C11E.Ex.unordered1 sA find_sA rB find_rB 1000
    facts.2.2.1 cu upd counters countersA facts.2.2.2.1 facts.2.2.2.2.1 facts.2.2.2.2.2.1 [5, 4, 3, 4]
    (by rw [facts.2.2.2.2.2.2.1]; decide) (by rw [facts.2.2.2.2.2.2.1]; decide) 2
    (by rw [facts.2.2.2.2.2.2.2.1, facts.2.2.2.2.2.2.2.2.1]; decide)
    ops' (by decide) fin run'

set_option maxRecDepth 100000 in
/-- what the kernel computes: both messages obtained, [72] (not addressed to client 1) is not among them -/
example : (fin.links 1).map (fun l => (l.obtC 1, l.delivC)) = some ([big, [71]], [5, 4, 3, 4]) := by decide +kernel

end ExU

/-! `ExStall` — a STALLED client.  Server → client channel 0: ReliableOrdered with `max_memory_usage_bytes = 10`.
    Clients 1 and 2 connect.  The server broadcasts three 4-byte messages.  Client 1 receives, drains and acknowledges
    the first two.  Client 2's network delivers NOTHING, ever (`delivC = []`): its ordered stream is stalled, nothing
    is acknowledged, and the third broadcast does not fit the server's send channel for client 2 any more — the
    server disconnects client 2 with `SendChannelError(0, ReliableChannelMaxMemoryReached)`.  The datagram that carries
    the third message to client 1 is LOST.  State `m`.  Then: more operations for client 2 (`opsJ`), the tick, and
    one lossless round for client 1 interleaved with still more of them (`ops'`, including a `broadcast_except(1)`
    and the removal of client 2): client 1 obtains the third message in this round. -/
namespace ExStall

def P : Params := ⟨60000, [⟨0, .ordered, 10, 100⟩], [⟨0, .ordered, 100000, 100⟩]⟩
def ops : List MOp :=
  [.addClient 1, .addClient 2,
   .broadcast 0 [1, 2, 3, 4], .srvFlush 1, .srvFlush 2, .deliverToCli 1 0, .cliRecv 1 0, .cliFlush 1, .deliverToSrv 1 0,
   .broadcast 0 [5, 6, 7, 8], .srvFlush 1, .srvFlush 2, .deliverToCli 1 1, .cliRecv 1 0, .cliFlush 1, .deliverToSrv 1 1,
   .broadcast 0 [9, 10, 11, 12], .srvFlush 1, .srvFlush 2]
def m : MSys := ((MSys.init P).run ops).getD (MSys.init P)
theorem run : (MSys.init P).run ops = some m := some_getD (by decide +kernel) _
def l : Link := (m.links 1).getD (Link.fresh P)
theorem link : m.links 1 = some l := some_getD (by decide +kernel) _
theorem at1 : At P ops m 1 l := ⟨run, link, by decide +kernel⟩
def c : Conn := (conn? m.server 1).getD l.last
theorem conn1 : conn? m.server 1 = some c := some_getD (by decide +kernel) _
def cu : Conn := okD (c.update 1000) c
theorem upd : c.update 1000 = .ok cu := ok_okD (by decide +kernel) _
def sA : SendRel := (SMap.find? c.sendRel 0).getD (SendRel.new 0 0 0)
theorem find_sA : SMap.find? c.sendRel 0 = some sA := some_getD (by decide +kernel) _
def rB : RecvRel := (SMap.find? l.cl.recvRel 0).getD (RecvRel.new 0 true)
theorem find_rB : SMap.find? l.cl.recvRel 0 = some rB := some_getD (by decide +kernel) _

theorem ordered0 : P.down.Ordered 0 := by unfold Cfg.Ordered; decide
theorem single_avail_eq : availAtTurn cu 0 = P.budget := by decide +kernel

/-- client 2 is stalled and has been disconnected by the server because its send channel ran full; client 1 is fine,
    the third message is logged for it and not yet obtained -/
theorem situation :
    (m.links 2).map (fun l => (l.delivC, l.obtC 0, l.subS 0)) = some ([], [], [[1, 2, 3, 4], [5, 6, 7, 8]]) ∧
    (conn? m.server 2).map (·.disconnectReason) = some (some (.sendChan 0 .maxMemory)) ∧
    (conn? m.server 1).map (·.status) = some .connected ∧
    l.subS 0 = [[1, 2, 3, 4], [5, 6, 7, 8], [9, 10, 11, 12]] ∧ l.obtC 0 = [[1, 2, 3, 4], [5, 6, 7, 8]] ∧
    l.delivC = [0, 1] ∧ l.outS.length = 5 := by
  decide +kernel

theorem facts : c.isDisconnected = false ∧ l.cl.isDisconnected = false ∧ sA.resend ≤ 1000 ∧
    backlog sA.unacked ≤ availAtTurn cu 0 ∧ Room (l.subS 0) rB ∧ (∀ p ∈ flushPk cu, OnlyCh 0 p) ∧
    flushIdx l cu = [5, 6] := by
  decide +kernel

theorem counters : CountersOK P.down (dirDown cu l) := by
  refine ⟨?_, ?_, ?_, ?_, ?_⟩ <;> decide +kernel
theorem countersA : cu.CountersOK := CI.countersOK_of_b (by decide +kernel)

/-- before the tick: the server flushes for the dead slot 2, client 2's application polls in vain, garbage arrives in
    client 2's name -/
def opsJ : List MOp := [.srvFlush 2, .cliRecv 2 0, .hostile 2 [7], .cliUpdate 2 5]
def mJ : MSys := (m.run opsJ).getD m
theorem runJ : m.run opsJ = some mJ := some_getD (by decide +kernel) _
/-- the tick and the round of client 1, interleaved with a `broadcast_except(1)`, more polling by client 2 and its
    removal -/
def ops' : List MOp :=
  [.srvUpdate 1000, .broadcastExcept 1 0 [42], .srvFlush 1, .cliRecv 2 0, .deliverToCli 1 6, .deliverToCli 1 5,
   .remove 2, .srvSend 2 0 [43], .cliRecv 1 0]
def fin : MSys := (mJ.run ops').getD mJ
theorem run' : mJ.run ops' = some fin := some_getD (by decide +kernel) _

/-- `stalled_client_does_not_delay_others` applied -/
theorem client1_not_delayed :
    mJ.view 1 = m.view 1 ∧
    ∃ c'' l'', conn? fin.server 1 = some c'' ∧ fin.links 1 = some l'' ∧ c''.isDisconnected = false ∧
      l''.cl.isDisconnected = false ∧ l''.tainted = false ∧ l''.subS = l.subS ∧ l''.obtC 0 = l.subS 0 ∧
      ∀ x ∈ l.subS 0, 1 ≤ (l''.obtC 0).count x ∧ (l''.obtC 0).count x ≤ (addressedTo 1 0 ops).count x :=
  stalled_client_does_not_delay_others at1 c conn1 facts.1 facts.2.1 0 ordered0 sA find_sA rB find_rB 1000 facts.2.2.1
    cu upd counters countersA facts.2.2.2.1 facts.2.2.2.2.1 facts.2.2.2.2.2.1 [6, 5]
    (by rw [facts.2.2.2.2.2.2]; decide) (by rw [facts.2.2.2.2.2.2]; decide) 1
    (by rw [situation.2.2.2.1, situation.2.2.2.2.1]; decide)
    opsJ (by decide) mJ runJ ops' (by decide) fin run'

/-- what the kernel computes: client 1 obtained all three broadcasts, each exactly once, in order; client 2 — stalled,
    disconnected, removed — obtained nothing -/
example : (fin.links 1).map (fun l => (l.obtC 0, l.delivC, l.cl.isDisconnected)) =
      some ([[1, 2, 3, 4], [5, 6, 7, 8], [9, 10, 11, 12]], [0, 1, 6, 5], false) ∧
    (fin.links 2).map (fun l => (l.obtC 0, l.delivC)) = some ([], []) ∧
    (conn? fin.server 2).map (·.status) = none := by
  decide +kernel

/-- the single-channel form (`P` has one server → client channel): H2 is `backlog ≤ 60000`, no H4 -/
theorem single0 : Single P.down 0 := ⟨_, _, rfl⟩
def opsS : List MOp :=
  [.srvFlush 2, .srvUpdate 1000, .hostile 2 [9], .srvFlush 1, .deliverToCli 1 5, .deliverToCli 1 6, .cliRecv 1 0]
def finS : MSys := (m.run opsS).getD m
theorem runS : m.run opsS = some finS := some_getD (by decide +kernel) _
example :
    ∃ c'' l'', conn? finS.server 1 = some c'' ∧ finS.links 1 = some l'' ∧ c''.isDisconnected = false ∧
      l''.cl.isDisconnected = false ∧ l''.tainted = false ∧ l''.subS = l.subS ∧ l''.obtC 0 = l.subS 0 ∧
      ∀ x ∈ l.subS 0, 1 ≤ (l''.obtC 0).count x ∧ (l''.obtC 0).count x ≤ (addressedTo 1 0 ops).count x :=
  broadcast_exactly_once_single at1 c conn1 facts.1 facts.2.1 0 single0 sA find_sA rB find_rB 1000 facts.2.2.1
    cu upd counters countersA (by have := facts.2.2.2.1; rw [single_avail_eq] at this; exact this) facts.2.2.2.2.1 1
    (by rw [situation.2.2.2.1, situation.2.2.2.2.1]; decide)
    opsS (by rw [facts.2.2.2.2.2.2]; decide) finS runS

/-- `addressed_is_logged` applied: one more broadcast in state `m` is accepted by client 1's channel (4 + 2 ≤ 10
    bytes) and logged for client 1; for client 2 (disconnected) `send_message` is a no-op and nothing is logged -/
def mB : MSys := (m.step (.broadcast 0 [13, 14])).getD m
theorem stepB : m.step (.broadcast 0 [13, 14]) = some mB := some_getD (by decide +kernel) _
def cB : Conn := okD (c.sendMessage 0 [13, 14]) c
theorem sendB : c.sendMessage 0 [13, 14] = .ok cB := ok_okD (by decide +kernel) _
theorem accB : accepted c cB 0 = true := by decide +kernel
example : ∃ l', mB.links 1 = some l' ∧ l'.subS 0 = l.subS 0 ++ [[13, 14]] ∧ l'.obtC = l.obtC := by
  obtain ⟨c', l', h1, -, h3, h4, h5, -⟩ :=
    addressed_is_logged (reach_wf P ops m run) stepB (Or.inr (Or.inl rfl)) conn1 link
  rw [sendB] at h1
  rw [← Res.ok.inj h1, accB] at h4
  exact ⟨l', h3, h4, h5⟩
example : (mB.links 2).map (fun l => l.subS 0) = (m.links 2).map (fun l => l.subS 0) := by decide +kernel

end ExStall

end RenetVerif.C11L
