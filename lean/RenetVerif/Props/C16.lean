/-
  C16 — wire formats round-trip; an acknowledgement packet denotes exactly the recorded set.
  (renet message-layer part; the netcode/token part is in Props/C16N.lean)
-/
import RenetVerif.Lemmas.PacketRT
import RenetVerif.Lemmas.Acks
namespace RenetVerif.C16

/-- QUIC varints: decoding the canonical encoding of any value the library can write (≤ 2^62-1),
    followed by arbitrary bytes, yields the value and those bytes. -/
theorem varint_roundtrip (v : Nat) (rest : Bytes) (h : v ≤ Varint.MAX) :
    Varint.get (Varint.enc v ++ rest) = some (v, rest) := Varint.get_enc v rest h

/-- Every well-formed message-layer packet (all five kinds, any field magnitudes up to 2^62-1, any
    number < 65536 of messages of any length, any well-formed range list) serialises without
    failure and deserialises to itself. -/
theorem packet_roundtrip (p : Packet) (h : p.WF) :
    ∃ b, p.enc = .ok b ∧ Packet.fromBytes b = .ok p := Packet.fromBytes_enc p h

/-- … also through the fixed-size buffer: whenever `to_bytes` succeeds the result decodes to `p`,
    and it fails with `BufferTooShort` (never a panic) exactly when the encoding exceeds the buffer. -/
theorem packet_roundtrip_buffer (cap : Nat) (p : Packet) (h : p.WF) :
    (∃ b, p.toBytes cap = .ok b ∧ b.length ≤ cap ∧ Packet.fromBytes b = .ok p) ∨
    (p.toBytes cap = .err .bufferTooShort ∧ ∃ b, p.enc = .ok b ∧ cap < b.length) := by
  obtain ⟨b, hb, hd⟩ := packet_roundtrip p h
  by_cases hc : b.length ≤ cap
  · left; exact ⟨b, by simp [Packet.toBytes, hb, hc], hc, hd⟩
  · right; exact ⟨by simp [Packet.toBytes, hb, hc], b, hb, by omega⟩

/-- The pending-ack list an endpoint keeps is always sorted, disjoint and non-adjacent, whatever
    sequence numbers arrive in whatever order, and however acknowledgements of acknowledgements
    trim it. -/
theorem pending_acks_wf (cap : Nat) (l : List AckRange) (h : Acks.WF l) (seq largest : Nat) :
    Acks.WF (Acks.add cap seq l) ∧ Acks.WF (Acks.ackedLargest largest l) :=
  ⟨Acks.add_wf cap seq l h, Acks.ackedLargest_wf largest l h⟩

/-- Recording a sequence number adds exactly that number to the denoted set (below the range cap;
    at the cap the oldest range is dropped, `pending_acks_only_received` bounds that case). -/
theorem pending_acks_exact (cap seq : Nat) (l : List AckRange) (h : Acks.WF l) (hl : l.length < cap) (x : Nat) :
    Acks.Mem x (Acks.add cap seq l) ↔ (Acks.Mem x l ∨ x = seq) := Acks.add_mem_iff cap seq l h hl x

/-- An ack packet built from a well-formed pending list decodes to exactly that list — so it denotes
    exactly the recorded set. -/
theorem ack_packet_denotes (seq : Nat) (l : List AckRange) (hs : seq ≤ Varint.MAX) (hne : l ≠ [])
    (h : Acks.WF l) (hb : ∀ r ∈ l, r.2 ≤ Varint.MAX + 1) :
    ∃ b, (Packet.ack seq l).enc = .ok b ∧ Packet.fromBytes b = .ok (Packet.ack seq l) :=
  packet_roundtrip (.ack seq l) ⟨hs, Acks.ackWF_of_wf l hne h hb⟩

/-- non-vacuity: a concrete non-trivial pending list (single-element range, gap of exactly one)
    meets the hypotheses, and a concrete packet of each kind is well-formed. -/
example : Acks.WF [(0, 1), (2, 5), (7, 8)] ∧ (∀ r ∈ [((0 : Nat), (1 : Nat)), (2, 5), (7, 8)], r.2 ≤ Varint.MAX + 1) := by
  refine ⟨by simp [Acks.WF], ?_⟩
  intro r hr; simp at hr; rcases hr with rfl | rfl | rfl <;> simp [Varint.MAX]
example : (Packet.smallReliable 16384 2 [(63, [1, 2, 3]), (64, [])]).WF := by
  refine ⟨by simp [Varint.MAX], by omega, by simp, ?_⟩
  intro x hx; simp at hx; rcases hx with rfl | rfl <;> simp [Varint.MAX]
example : (Packet.reliableSlice 5 2 ⟨0, 1, 2, [9]⟩).WF := by
  simp [Packet.WF, Varint.MAX, C.MAX_NUM_SLICES, C.SLICE_SIZE]

end RenetVerif.C16
