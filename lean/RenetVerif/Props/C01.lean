/-
  C01 — ReliableOrdered: what the receiving application has obtained is, at every moment, a prefix of
  what the sender submitted, whatever the network loses, duplicates, delays or reorders.

  Assume/guarantee split: the sender side (other files) shows that every entry of every packet it
  emits on a reliable channel is *genuine* with respect to the submission log `L` of that channel
  (message id = index in `L`; a slice is one of the `divCeil |m| SLICE_SIZE` pieces `sliceBytes` cuts
  out of `L[id]`).  Here the network is an adversary that may hand the receiving channel any genuine
  entry, any number of times, in any order, interleaved arbitrarily with the application's
  `receive_message` calls (`RecvOp`, `run`).  A channel error disconnects the connection, after which
  nothing is obtained any more (`RunSt.dead`).
-/
import RenetVerif.Lemmas.DataPath
namespace RenetVerif.C01
open RenetVerif C DataPath

/-- The list of messages obtained so far is exactly the first `oldest` submitted messages. -/
theorem obtained_eq_take (L : List Bytes) (maxMem : Nat) (ops : List RecvOp)
    (hg : ∀ op ∈ ops, Genuine L op) :
    (run (RecvRel.new maxMem true) ops).obtained = L.take (run (RecvRel.new maxMem true) ops).r.oldest :=
  (ord_run L maxMem ops hg).obt

/-- C01: byte-identical, no gaps, no duplicates, no reordering — the obtained sequence is a prefix of
    the submitted sequence, for every memory limit and every adversarial schedule (every `ops`, hence
    also at every intermediate moment of a longer schedule). -/
theorem obtained_prefix (L : List Bytes) (ops : List RecvOp) (hg : ∀ op ∈ ops, Genuine L op)
    (maxMem : Nat) : (run (RecvRel.new maxMem true) ops).obtained <+: L := by
  rw [obtained_eq_take L maxMem ops hg]
  exact List.take_prefix _ _

/-- the same at every intermediate moment, spelled out -/
theorem obtained_prefix_always (L : List Bytes) (ops : List RecvOp) (hg : ∀ op ∈ ops, Genuine L op)
    (maxMem k : Nat) : (run (RecvRel.new maxMem true) (ops.take k)).obtained <+: L :=
  obtained_prefix L (ops.take k) (fun op h => hg op (List.mem_of_mem_take h)) maxMem

/-- no gaps, positively: the message the application is waiting for is handed over as soon as it has
    arrived (memory accounting permitting: `mem ≥ |x|`, the accounting invariant of the channel) -/
theorem next_is_delivered (r : RecvRel) (x : Bytes) (ho : r.ordered = true)
    (hf : SMap.find? r.messages r.oldest = some x) (hmem : x.length ≤ r.mem) :
    ∃ r', r.receive = .ok (r', some x) ∧ r'.oldest = r.oldest + 1 := by
  unfold RecvRel.receive
  rw [if_pos ho, hf]
  simp [Res.csub, hmem]

/-! #### a concrete adversarial schedule -/
namespace Ex
def m0 : Bytes := List.replicate 1200 1 ++ List.replicate 1200 2 ++ List.replicate 600 3
def m1 : Bytes := [1, 2, 3, 4, 5]
def L : List Bytes := [m0, m1]
def s0 : Slice := ⟨0, 0, 3, List.replicate 1200 1⟩
def s1 : Slice := ⟨0, 1, 3, List.replicate 1200 2⟩
def s2 : Slice := ⟨0, 2, 3, List.replicate 600 3⟩
/-- slice 2 first, slice 0 twice, the later message before the earlier one is complete, a premature
    `receive`, a duplicate of an already-delivered message -/
def ops : List RecvOp :=
  [.slice s2, .slice s0, .recv, .slice s0, .msg 1 m1, .recv, .slice s1, .slice s2, .recv, .msg 0 m0, .msg 1 m1, .recv, .recv]

theorem m0_len : m0.length > SLICE_SIZE := by decide +kernel
theorem m0_n : (3 : Nat) = divCeil m0.length SLICE_SIZE := by decide +kernel
theorem p0 : s0.payload = sliceBytes m0 3 0 := by decide +kernel
theorem p1 : s1.payload = sliceBytes m0 3 1 := by decide +kernel
theorem p2 : s2.payload = sliceBytes m0 3 2 := by decide +kernel

/-- the three slices are genuine for any log whose message 0 is `m0` -/
theorem gsl (L : List Bytes) (hL : L[0]? = some m0) : ∀ sl ∈ [s0, s1, s2], GenuineSlice L sl := by
  intro sl h
  simp only [List.mem_cons, List.not_mem_nil, or_false] at h
  rcases h with rfl | rfl | rfl
  · exact ⟨m0, hL, m0_len, m0_n, by decide, p0⟩
  · exact ⟨m0, hL, m0_len, m0_n, by decide, p1⟩
  · exact ⟨m0, hL, m0_len, m0_n, by decide, p2⟩

theorem genuine : ∀ op ∈ ops, Genuine L op := by
  have g := gsl L rfl
  intro op h
  simp only [ops, List.mem_cons, List.not_mem_nil, or_false] at h
  rcases h with rfl | rfl | rfl | rfl | rfl | rfl | rfl | rfl | rfl | rfl | rfl | rfl | rfl <;>
    first
    | exact g _ (by simp)
    | trivial
    | exact (rfl : L[_]? = some _)

/-- the schedule is genuine, so the theorem applies … -/
example : (run (RecvRel.new 100000 true) ops).obtained <+: L := obtained_prefix L ops genuine 100000
/-- … and in this run everything does get through, exactly once, in order -/
example : (run (RecvRel.new 100000 true) ops).obtained = L ∧ (run (RecvRel.new 100000 true) ops).dead = false := by
  decide +kernel
end Ex

end RenetVerif.C01
