/-
  C19 — No traffic amplification towards addresses that have not proven themselves.

  "For any datagram from an address without a completed handshake the netcode server sends at most one datagram back,
   only to that same address, and it is strictly smaller than the datagram received; datagrams that do not carry a
   valid connect token or a valid response get no answer at all."

  Proofs: Lemmas/NcWire.lean (`unconnected_sat`).  "Without a completed handshake" = no slot of `clients` holds the
  address (`findClientByAddr = none`).  A `ServerResult` carries at most one datagram (`ServerResult.datagram`).
  Sizes need the AEAD length law (`AEAD.Laws.seal_length` for what the server seals, `open_length` for the lower bound
  on a datagram that opened as a response); everything else holds for any AEAD.
    request  ≥ 1 + 13+8+8+24+1024 = 1078 bytes    reply: challenge ≤ 1+8+8+300+16 = 333, denied ≤ 25
    response ≥ 1 + 0 + 8+300 + 16 = 325 bytes     reply: keep-alive ≤ 1+8+8+16 = 33,   denied ≤ 25
-/
import RenetVerif.Lemmas.NcWire
namespace RenetVerif.C19
open RenetVerif RenetVerif.Netcode RenetVerif.Netcode.Packet RenetVerif.Netcode.NetcodeServer

/-! ### side conditions on the constants -/
theorem request_min_eq : 1 + REQUEST_BODY = 1078 := by decide
theorem request_reply_max_eq : REQUEST_REPLY_MAX = 333 := by decide
theorem response_min_eq : RESPONSE_MIN = 325 := by decide
theorem response_reply_max_eq : RESPONSE_REPLY_MAX = 33 := by decide
theorem request_reply_smaller : REQUEST_REPLY_MAX < 1 + REQUEST_BODY := by decide
theorem response_reply_smaller : RESPONSE_REPLY_MAX < RESPONSE_MIN := by decide

/-- Main statement.  For a source address that is not connected, `process_packet` returns normally with `None`, or — only
    for a valid request resp. a valid response — with one datagram addressed to the source, bounded as stated.
    `ValidRequest`: the datagram (≥ 1078 bytes) parses as a connection request with the right version and protocol id,
    not expired, whose private token opens under the server's connect key.
    `ValidResponse`: the datagram opens under the pending connection's key as a response whose challenge token opens
    under the challenge key and names the pending client (and is ≥ 325 bytes long). -/
theorem no_amplification (a : AEAD) {n : Nat} {s : NetcodeServer} (hinv : SInv (n + 1) s) (addr : Addr) (buf : Bytes)
    (hf : findClientByAddr s.clients addr = none) :
    ∃ r s', processPacket a s addr buf = .ok (r, s') ∧ SInv n s' ∧
      (Reply a.Laws (ValidRequest a s buf) addr REQUEST_REPLY_MAX r ∨
       Reply a.Laws (ValidResponse a s addr buf) addr RESPONSE_REPLY_MAX r) :=
  processPacket_unconnected a hinv addr buf hf

/-- only to that same address -/
theorem reply_to_same_address (a : AEAD) {n : Nat} {s s' : NetcodeServer} (hinv : SInv (n + 1) s) {addr : Addr}
    {buf : Bytes} (hf : findClientByAddr s.clients addr = none) {r : ServerResult}
    (h : processPacket a s addr buf = .ok (r, s')) {out : Bytes} (ho : r.datagram = some out) :
    r = .packetToSend addr out ∨ ∃ id ud, r = .clientConnected id addr ud out := by
  obtain ⟨r', s'', h', _, hr⟩ := no_amplification a hinv addr buf hf
  rw [h] at h'; cases h'
  rcases hr with hr | hr <;> rcases hr with hr | ⟨_, ⟨o, hr, _⟩ | ⟨id, ud, o, hr, _⟩⟩
  all_goals subst hr
  all_goals first
    | (cases ho; done)
    | (cases ho; exact Or.inl rfl)
    | (cases ho; exact Or.inr ⟨_, _, rfl⟩)

/-- strictly smaller than the datagram received -/
theorem reply_strictly_smaller (a : AEAD) (hl : a.Laws) {n : Nat} {s s' : NetcodeServer} (hinv : SInv (n + 1) s)
    {addr : Addr} {buf : Bytes} (hf : findClientByAddr s.clients addr = none) {r : ServerResult}
    (h : processPacket a s addr buf = .ok (r, s')) {out : Bytes} (ho : r.datagram = some out) :
    out.length < buf.length := by
  obtain ⟨r', s'', h', _, hr⟩ := no_amplification a hinv addr buf hf
  rw [h] at h'; cases h'
  have h1 := request_reply_smaller
  have h2 := response_reply_smaller
  rcases hr with hr | hr
  · rcases hr with hr | ⟨hv, ⟨o, hr, hb⟩ | ⟨id, ud, o, hr, hb⟩⟩
    · subst hr; cases ho
    · subst hr; cases ho; have := hb hl; have := hv.1; omega
    · subst hr; cases ho; have := hb hl; have := hv.1; omega
  · rcases hr with hr | ⟨hv, ⟨o, hr, hb⟩ | ⟨id, ud, o, hr, hb⟩⟩
    · subst hr; cases ho
    · subst hr; cases ho; have := hb hl; have := hv.1 hl; omega
    · subst hr; cases ho; have := hb hl; have := hv.1 hl; omega

/-- no valid connect token, no valid response: no answer (and nobody connects) -/
theorem no_answer_unless_valid (a : AEAD) {n : Nat} {s s' : NetcodeServer} (hinv : SInv (n + 1) s) {addr : Addr}
    {buf : Bytes} (hf : findClientByAddr s.clients addr = none) {r : ServerResult}
    (h : processPacket a s addr buf = .ok (r, s'))
    (hreq : ¬ ValidRequest a s buf) (hresp : ¬ ValidResponse a s addr buf) : r = .none := by
  obtain ⟨r', s'', h', _, hr⟩ := no_amplification a hinv addr buf hf
  rw [h] at h'; cases h'
  rcases hr with hr | hr <;> rcases hr with hr | ⟨hv, _⟩
  · exact hr
  · exact absurd hv hreq
  · exact hr
  · exact absurd hv hresp

/-- in particular every datagram that fails `decode` (under the pending session of its address, if any) gets no answer -/
theorem no_answer_to_undecodable (a : AEAD) (s : NetcodeServer) (addr : Addr) (buf : Bytes)
    (hf : findClientByAddr s.clients addr = none)
    (hdec : match pendingFind s.pendingClients addr with
      | some c => ∃ e, (decode a buf s.protocolId (some c.receiveKey) (some c.replayProtection)).1 = .err e
      | none => ∃ e, (decode a buf s.protocolId none none).1 = .err e) :
    ∃ s', processPacket a s addr buf = .ok (.none, s') := by
  have hso : sessionOf s addr = pendingFind s.pendingClients addr := by unfold sessionOf; rw [hf]
  cases hp : pendingFind s.pendingClients addr with
  | some c =>
    rw [hp] at hdec hso
    obtain ⟨e, he⟩ := hdec
    generalize hD : decode a buf s.protocolId (some c.receiveKey) (some c.replayProtection) = D at he
    obtain ⟨r, rp'⟩ := D
    dsimp only at he; subst he
    exact ⟨_, processPacket_decode_err a s addr buf hso hD⟩
  | none =>
    rw [hp] at hdec hso
    obtain ⟨e, he⟩ := hdec
    exact ⟨s, processPacket_unknown_err a s addr buf hso he⟩

/-! ### non-vacuity: a handshake with the toy AEAD -/
section examples

def okOr {ε α : Type} (d : α) : Res ε α → α
  | .ok a => a
  | _ => d

def srvAddr : Addr := .v4 [127, 0, 0, 1] 5000
def cliAddr : Addr := .v4 [10, 0, 0, 2] 4000
def pk : Bytes := List.replicate 32 1
def srv0 : NetcodeServer :=
  { clients := [none, none], pendingClients := [], connectTokenEntries := [none, none, none, none], protocolId := 42,
    connectKey := pk, maxClients := 2, challengeSequence := 0, challengeKey := List.replicate 32 2,
    publicAddresses := [srvAddr], currentTime := 0, globalSequence := 2 ^ 63, secure := true }
theorem srv0_inv : SInv 3 srv0 := ⟨by decide, by decide, fun x hx => by cases hx⟩
theorem srv0_find : findClientByAddr srv0.clients cliAddr = none := rfl

def emptyTok : ConnectToken :=
  { clientId := 0, versionInfo := [], protocolId := 0, createTimestamp := 0, expireTimestamp := 0, xnonce := [],
    serverAddresses := [], clientToServerKey := [], serverToClientKey := [], privateData := [], timeoutSeconds := 0 }
/-- a connect token for client 77 sealed (toy) under the server's key -/
def tok : ConnectToken := okOr emptyTok
  (ConnectToken.generate AEAD.toy 0 42 30 77 15 [srvAddr] (List.replicate 256 9) (List.replicate 32 3)
    (List.replicate 32 4) (List.replicate 24 5) pk)
/-- the client's connection request: 1078 bytes -/
def req : Bytes := okOr [] (encode AEAD.toy
  (.connectionRequest Netcode.C.NETCODE_VERSION_INFO tok.protocolId tok.expireTimestamp tok.xnonce tok.privateData) 1400 42 none)
example : req.length = 1078 := by decide +kernel

example : ∃ r s', processPacket AEAD.toy srv0 cliAddr req = .ok (r, s') ∧ SInv 2 s' ∧
    (Reply AEAD.toy.Laws (ValidRequest AEAD.toy srv0 req) cliAddr REQUEST_REPLY_MAX r ∨
     Reply AEAD.toy.Laws (ValidResponse AEAD.toy srv0 cliAddr req) cliAddr RESPONSE_REPLY_MAX r) :=
  no_amplification AEAD.toy srv0_inv cliAddr req srv0_find

/-- the valid request is answered with a 333-byte challenge to the sender … -/
example : (match processPacket AEAD.toy srv0 cliAddr req with
    | .ok (.packetToSend to out, _) => some (to, out.length)
    | _ => none) = some (cliAddr, 333) := by decide +kernel
/-- … the same bytes with one flipped bit in the private token, or 1078 zero bytes, with nothing -/
example : (match processPacket AEAD.toy srv0 cliAddr (req.set 1077 1) with | .ok (r, _) => some r | _ => none)
    = some .none := by decide +kernel
example : (match processPacket AEAD.toy srv0 cliAddr (List.replicate 1078 0) with | .ok (r, _) => some r | _ => none)
    = some .none := by decide +kernel

end examples

end RenetVerif.C19
