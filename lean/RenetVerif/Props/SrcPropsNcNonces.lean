/-
  C17 (nonce uniqueness) on the GENERATED `NetcodeServer` (`Generated/Src/NcServer*.lean`, translated from
  `renetcode/src/server.rs`).

  Every theorem has a GENERATED RUN in its hypotheses: `GReach a g` (`Props/SrcPropsNcHistory.lean`: `g` is reached from the
  generated `NetcodeServer::new` by generated calls with arbitrary arguments, in range) continued by `GNc.run` / `gstep` — the
  generated functions only — and concludes about the seal records `SrcNcSeal.gEv` reads off the GENERATED struct before / after
  each generated call (`global_sequence`, `clients[i].sequence`, `clients[i].send_key`, generated `find_client_slot_by_id`,
  `clients.iter().position(is_none)`) and the `ServerResult` it returned (`Lemmas/SrcEquiv/SrcNcSeal.lean`).  The hand model
  and its instrumented semantics `NcAead.Sv.sstep` occur only inside the proofs (`gtrace_sim`, `gsessLog_sim`: the generated
  instrumentation is the image of the model one along the simulation).

    (1) `session_nonces_strict`      within one session of slot `i`, all datagrams the generated server seals are under that
                                     session's send key and carry `n, n+1, n+2, …`: strictly increasing, pairwise distinct;
    (2) `handshake_nonces_disjoint`  handshake replies (Challenge / Denied) carry `global_sequence, global_sequence+1, … ≥ 2^63`
                                     and never share a nonce with one of the first 2^63 datagrams of a session (whatever the key);
    (3) `log_sound` / `log_complete` the ghost records are the datagrams the generated functions returned: every event's
                                     datagram IS `prefix ‖ sequence bytes ‖ a.seal key (nonce seq) aad plain` for the
                                     recorded key and sequence number, and the events of a call are exactly the datagrams
                                     inside the `ServerResult` it returned.
  NOT covered (as in Props/C17.lean): two different sessions that reuse one connect token; that two simultaneously living
  sessions have different send keys.  The generated CLIENT (`client_nonces_strict` over `SrcNcClientSystem`) is NOT DONE here.
-/
import RenetVerif.Lemmas.SrcEquiv.SrcNcSeal
import RenetVerif.Props.SrcPropsNcHistory
import RenetVerif.Props.C17
set_option linter.unusedSimpArgs false
set_option linter.unusedVariables false
namespace RenetVerif.SrcPropsNcNonces
open RenetVerif RenetVerif.SrcEquiv RenetVerif.RustSem RenetVerif.Netcode RenetVerif.Netcode.NS RenetVerif.SrcNcSystem
open RenetVerif.NcAead RenetVerif.SrcNcSeal RenetVerif.SrcPropsNcHistory
open Src.renetcode.server

/-! ## helpers -/

theorem greach_inv {a : AEAD} (hl : a.Laws) {g : GNc} (h : GReach a g) : ∃ m, ServerInv m.srv ∧ SimNc m g := by
  obtain ⟨m, hm, hsim⟩ := greach_model hl h
  exact ⟨m, hm.reach.inv, hsim⟩

theorem gsv_some {m : MNc} {g : GNc} (hsim : SimNc m g) {i : Nat} {k : List Nat} {n : Nat}
    (h : gsv g.srv i = some (k, n)) : ∃ k', Sv.sv m.srv i = some (k', n) ∧ toNats k' = k := by
  obtain ⟨o, _, e⟩ := hsim.srv
  rw [e, gsv_repr] at h
  cases hs : Sv.sv m.srv i with
  | none => rw [hs] at h; cases h
  | some p =>
    obtain ⟨k', n'⟩ := p
    rw [hs] at h
    simp only [Option.map_some, Option.some.injEq, Prod.mk.injEq] at h
    exact ⟨k', by rw [h.2], h.1⟩

theorem gsv_none {m : MNc} {g : GNc} (hsim : SimNc m g) {i : Nat} (h : gsv g.srv i = none) : Sv.sv m.srv i = none := by
  obtain ⟨o, _, e⟩ := hsim.srv
  rw [e, gsv_repr] at h
  cases hs : Sv.sv m.srv i with
  | none => rfl
  | some p => rw [hs] at h; cases h

theorem map_seq_repr (l : List SealRec) : (l.map reprRec).map (·.seq) = l.map (·.seq) := by
  simp only [List.map_map]; rfl

theorem pairwise_of_range' {l : List GSeal} {n : Nat} (h : l.map (·.seq) = List.range' n l.length) :
    l.Pairwise (fun r r' => r.seq < r'.seq) := by
  have : (l.map (·.seq)).Pairwise (· < ·) := by rw [h]; exact List.pairwise_lt_range'
  exact List.pairwise_map.mp this

/-! ## (1) session nonces -/

/-- **Session nonces on generated runs.**  Let `g` be reached by a generated run, let slot `i` of the generated struct hold a
    connection with `send_key = k`, `sequence = n`, and continue with ANY generated calls `ops` (in range).  Then the seal
    records of slot `i` read off the generated run while that session lives — keep-alives, payloads, the final `Disconnect` —
    are all under `k` and carry exactly `n, n+1, n+2, …`; in particular the sequence numbers (= nonces) strictly increase, and
    two records with the same sequence number are the same record of the log. -/
theorem session_nonces_strict {a : AEAD} (hl : a.Laws) {g : GNc} (hg : GReach a g) (i : Nat) (k : List Nat) (n : Nat)
    (h : gsv g.srv i = some (k, n)) (ops : List Op) (hr : OpsInRange ops) :
    (∀ r ∈ gsessLog a i g ops, r.key = k) ∧
    (gsessLog a i g ops).map (·.seq) = List.range' n (gsessLog a i g ops).length ∧
    (gsessLog a i g ops).Pairwise (fun r r' => r.seq < r'.seq) ∧
    (gsessLog a i g ops).Pairwise (fun r r' => r.seq ≠ r'.seq) := by
  obtain ⟨m, hi, hsim⟩ := greach_inv hl hg
  obtain ⟨k', hk', rfl⟩ := gsv_some hsim h
  obtain ⟨h1, h2⟩ := C17.server_session_nonces_strict a i m.srv k' n hk' (ops.map ofOp)
  have e := gsessLog_sim a hl i ops m g hi hsim hr
  have hseq : (gsessLog a i g ops).map (·.seq) = List.range' n (gsessLog a i g ops).length := by
    rw [e, map_seq_repr, List.length_map]; exact h2
  have hp := pairwise_of_range' hseq
  refine ⟨?_, hseq, hp, hp.imp (fun h => Nat.ne_of_lt h)⟩
  intro r hr'
  rw [e] at hr'
  obtain ⟨r0, hr0, rfl⟩ := List.mem_map.mp hr'
  simp only [reprRec, h1 r0 hr0]

/-! ## (2) handshake replies against session datagrams -/

/-- **Handshake replies and the session that follows never share a nonce — on generated runs.**  Take a generated-reachable
    `g0` whose `global_sequence` is at least 2^63 (e.g. what the generated `NetcodeServer::new` returns), any generated run
    `pre` to `g`, a generated call `op` that opens a session in the free slot `i` (`clients[i]` is `None` before and holds
    `send_key = k`, `sequence = n` after), then any further generated calls `ops`.  Then
      (1) the handshake replies (Challenge, Denied) of the whole run carry `G, G+1, G+2, …`, `G` the `global_sequence` of `g0`:
          all ≥ 2^63, strictly increasing;
      (2) the records of the session — the handshake-completing keep-alive included — are under `k` and carry 0, 1, 2, …;
      (3) none of the first 2^63 datagrams of the session shares its sequence number with any handshake reply, whichever key
          that reply was sealed under. -/
theorem handshake_nonces_disjoint {a : AEAD} (hl : a.Laws) {g0 : GNc} (hg0 : GReach a g0)
    (hG : 2 ^ 63 ≤ g0.srv.global_sequence) (pre : List Op) (g : GNc) (hrun : g0.run a pre = some g)
    (op : Op) (g' : GNc) (evs : List GEv) (hstep : gstep a g op = some (g', evs))
    (i : Nat) (k : List Nat) (n : Nat) (hfree : gsv g.srv i = none) (hocc : gsv g'.srv i = some (k, n)) (ops : List Op)
    (hr : OpsInRange (pre ++ op :: ops)) :
    let sess := gsessRecs i evs ++ gsessLog a i g' ops
    let hs := ghsSeqs (gtrace a g0 (pre ++ op :: ops))
    hs = List.range' g0.srv.global_sequence hs.length ∧ (∀ q ∈ hs, 2 ^ 63 ≤ q) ∧ hs.Pairwise (· < ·) ∧
    (∀ r ∈ sess, r.key = k) ∧ sess.map (·.seq) = List.range' 0 sess.length ∧
    (∀ r ∈ sess.take (2 ^ 63), ∀ q ∈ hs, r.seq ≠ q) := by
  intro sess hs
  obtain ⟨m0, hi0, hsim0⟩ := greach_inv hl hg0
  have hrpre : OpsInRange pre := fun o ho => hr o (List.mem_append_left _ ho)
  have hrop : OpInRange op := hr op (List.mem_append_right _ List.mem_cons_self)
  have hrops : OpsInRange ops := fun o ho => hr o (List.mem_append_right _ (List.mem_cons_of_mem _ ho))
  obtain ⟨m, hm, hsim⟩ := run_sim_conv_of a hl pre hi0 hsim0 hrpre hrun
  have hi : ServerInv m.srv := inv_mrun pre hi0 hm
  have hsr := mrun_srun a pre m0 m hm
  -- the step
  have h1 := gstep_sim a hl hi hsim op hrop
  cases hs1 : Sv.sstep a m.srv (ofOp op) with
  | none => rw [hs1] at h1; rw [h1.1] at hstep; cases hstep
  | some x =>
    obtain ⟨s', mevs⟩ := x
    rw [hs1] at h1
    obtain ⟨m', g'', rfl, hmstep, hgs, hsim'⟩ := h1
    rw [hstep] at hgs
    simp only [Option.some.injEq, Prod.mk.injEq] at hgs
    obtain ⟨rfl, rfl⟩ := hgs
    have hi' : ServerInv m'.srv := inv_mstep hi hmstep
    obtain ⟨k', hk', rfl⟩ := gsv_some hsim' hocc
    have hfree' := gsv_none hsim hfree
    obtain ⟨o0, _, e0⟩ := hsim0.srv
    have hG' : 2 ^ 63 ≤ m0.srv.globalSequence := by rw [e0] at hG; exact hG
    have hp0 : Sv.PendInv m0.srv := fun x hx => (hi0.pend x hx).seq
    have M := C17.handshake_nonces_disjoint a m0.srv hG' hp0 (pre.map ofOp) m.srv hsr (ofOp op) m'.srv mevs hs1 i k' n hfree'
      hk' (ops.map ofOp)
    simp only at M
    obtain ⟨M1, M2, M3, M4, M5, M6⟩ := M
    have esess : sess = (Sv.sessRecs i mevs ++ Sv.sessLog a i m'.srv (ops.map ofOp)).map reprRec := by
      simp only [sess, List.map_append, gsessRecs_repr, gsessLog_sim a hl i ops m' g' hi' hsim' hrops]
    have ehs : hs = Sv.hsSeqs (Sv.strace a m0.srv (pre.map ofOp ++ ofOp op :: ops.map ofOp)) := by
      simp only [hs, gtrace_sim a hl _ m0 g0 hi0 hsim0 hr, ghsSeqs_repr, List.map_append, List.map_cons]
    have eG : g0.srv.global_sequence = m0.srv.globalSequence := by rw [e0]; rfl
    refine ⟨?_, ?_, ?_, ?_, ?_, ?_⟩
    · rw [ehs, eG]; exact M1
    · rw [ehs]; exact M2
    · rw [ehs]; exact M3
    · intro r hr'
      rw [esess] at hr'
      obtain ⟨r0, hr0, rfl⟩ := List.mem_map.mp hr'
      simp only [reprRec, M4 r0 hr0]
    · rw [esess, map_seq_repr, List.length_map]; exact M5
    · intro r hr' q hq
      rw [esess, ← List.map_take] at hr'
      obtain ⟨r0, hr0, rfl⟩ := List.mem_map.mp hr'
      rw [ehs] at hq
      exact M6 r0 hr0 q hq

/-- the struct the generated `NetcodeServer::new` returns is generated-reachable with `global_sequence = 2^63` and every slot
    free: `handshake_nonces_disjoint` applies to every run from a fresh generated server -/
theorem init_hyps {a : AEAD} {c : NcCfg} {g0 : GNc} (h : GNc.init c = some g0) :
    GReach a g0 ∧ g0.srv.global_sequence = 2 ^ 63 ∧ ∀ i, gsv g0.srv i = none := by
  have hreach : GReach a g0 := .exec (c := c) (ops := []) (fun _ ho => nomatch ho) (by simp only [GNc.exec, h, GNc.run])
  have h0 := init_sim c
  cases hm : MNc.init c with
  | none => rw [hm] at h0; rw [h0] at h; cases h
  | some m0 =>
    rw [hm] at h0
    obtain ⟨g0', e, hsim⟩ := h0
    rw [h] at e; cases e
    obtain ⟨o, _, e⟩ := hsim.srv
    unfold MNc.init at hm
    split at hm
    · rename_i s hs
      cases hm
      obtain ⟨_, h2, h3⟩ := C17.server_new_inv _ _ _ _ _ _ _ _ hs
      refine ⟨hreach, by rw [e]; exact h2, fun i => ?_⟩
      rw [e, gsv_repr, h3 i]; rfl
    · cases hm

/-! ## (3) the ghost records are the datagrams the generated functions returned -/

/-- what a ghost event over the generated code claims about its datagram -/
def GEvSound (a : AEAD) : GEv → Prop
  | .hs seq out => ∃ (key aad plain : Bytes), out = toNats (aad.drop 21 ++ (NcAead.Packet.seqBytes seq ++
      a.seal key (Netcode.Packet.nonce seq) aad plain))
  | .sess _ r out => ∃ (key aad plain : Bytes), toNats key = r.key ∧ out = toNats (aad.drop 21 ++ (NcAead.Packet.seqBytes r.seq ++
      a.seal key (Netcode.Packet.nonce r.seq) aad plain))

/-- **soundness of the generated instrumentation**: along a generated run every recorded datagram is
    `prefix ‖ sequence bytes ‖ a.seal key (nonce seq) aad plaintext` with `seq` the recorded sequence number and (session
    datagrams) `key` the recorded send key — the recorded sequence number IS the nonce the AEAD was called with -/
theorem log_sound {a : AEAD} (hl : a.Laws) {g : GNc} (hg : GReach a g) (ops : List Op) (hr : OpsInRange ops) :
    ∀ ev ∈ gtrace a g ops, GEvSound a ev := by
  obtain ⟨m, hi, hsim⟩ := greach_inv hl hg
  intro ev hev
  rw [gtrace_sim a hl ops m g hi hsim hr] at hev
  obtain ⟨ev0, hev0, rfl⟩ := List.mem_map.mp hev
  have hs := C17.server_log_sound a m.srv (ops.map ofOp) ev0 hev0
  cases ev0 with
  | hs q out =>
    obtain ⟨key, p, proto, _, rfl⟩ := hs
    exact ⟨key, _, _, rfl⟩
  | sess j r out =>
    have : out = r.datagram a := hs
    subst this
    exact ⟨r.key, r.aad, r.plain, rfl, rfl⟩

/-- the datagrams inside a generated `ServerResult` -/
def gOut : SServerResult → List (List Nat)
  | .PacketToSend _ out => [out]
  | .ClientConnected _ _ _ out => [out]
  | .ClientDisconnected _ _ (some out) => [out]
  | _ => []

theorem gOut_repr (r : Netcode.ServerResult) : gOut (reprNSR r) = (Sv.resOut r).map toNats := by
  cases r with
  | clientDisconnected i ad o => cases o <;> rfl
  | _ => rfl

/-- the datagrams of a model call, read off the `NS.step` result -/
theorem sout_eq (a : AEAD) (s : Netcode.NetcodeServer) (op : Op) :
    Sv.sout a s (ofOp op) = match NS.step a s op with
      | some (r, _) => Sv.resOut r
      | none => [] := by
  cases op with
  | packet addr buf =>
    simp only [ofOp, Sv.sout, NS.step]
    cases h : s.processPacket a addr buf with
    | ok x => rfl
    | err e => exact nomatch e
    | panic m => rfl
  | update d =>
    simp only [ofOp, Sv.sout, NS.step]
    cases h : s.update d <;> rfl
  | updateClient id =>
    simp only [ofOp, Sv.sout, NS.step]
    cases h : s.updateClient a id with
    | ok x => rfl
    | err e => exact nomatch e
    | panic m => rfl
  | disconnect id =>
    simp only [ofOp, Sv.sout, NS.step]
    cases h : s.disconnect a id with
    | ok x => rfl
    | err e => exact nomatch e
    | panic m => rfl
  | setMaxClients n => rfl
  | sendPayload id p =>
    simp only [ofOp, Sv.sout, NS.step]
    cases h : s.generatePayloadPacket a id p with
    | ok x => obtain ⟨⟨ad, out⟩, s'⟩ := x; rfl
    | err e => rfl
    | panic m => rfl

/-- **completeness of the generated instrumentation**: the ghost events of a generated call are, in order, exactly the
    datagrams inside the `ServerResult` the generated function returned (so no sealed datagram escapes the log) -/
theorem log_complete {a : AEAD} (hl : a.Laws) {g : GNc} (hg : GReach a g) (op : Op) (hop : OpInRange op) (g' : GNc)
    (evs : List GEv) (h : gstep a g op = some (g', evs)) : evs.map GEv.out = gOut (lastRes g') := by
  obtain ⟨m, hi, hsim⟩ := greach_inv hl hg
  have h1 := gstep_sim a hl hi hsim op hop
  cases hs1 : Sv.sstep a m.srv (ofOp op) with
  | none => rw [hs1] at h1; rw [h1.1] at h; cases h
  | some x =>
    obtain ⟨s', mevs⟩ := x
    rw [hs1] at h1
    obtain ⟨m', g'', rfl, hmstep, hgs, hsim'⟩ := h1
    rw [h] at hgs
    simp only [Option.some.injEq, Prod.mk.injEq] at hgs
    obtain ⟨rfl, rfl⟩ := hgs
    have hc := C17.server_log_complete a m.srv m'.srv (ofOp op) mevs hs1
    rw [sout_eq] at hc
    unfold MNc.step at hmstep
    cases hn : NS.step a m.srv op with
    | none => rw [hn] at hmstep; cases hmstep
    | some y =>
      obtain ⟨r, s''⟩ := y
      rw [hn] at hmstep hc
      cases hmstep
      have hlast : lastRes g' = reprNSR r := by
        simp only [lastRes, hsim'.results, List.map_append, List.map_cons, List.map_nil, List.getLast?_append,
          List.getLast?_singleton, Option.some_or, Option.getD_some]
      simp only at hc
      rw [hlast, gOut_repr, ← hc, List.map_map, List.map_map]
      apply List.map_congr_left
      intro ev _
      cases ev <;> rfl

/-! ## non-vacuity: a concrete generated run, evaluated by the kernel (world of `Lemmas/NcExamples.lean`, toy AEAD `Ex.a`)

  The generated `NetcodeServer::new(now 0, max_clients 2, protocol 42, [srvAddr], Secure{key})`, then: client A's connection
  request TWICE (two Challenges), A's response (→ `ClientConnected 11`, keep-alive), two payloads to A, a clock step,
  `update_client 11` (keep-alive), a payload, `update_client 11` again (nothing to send), a clock step, `update_client 11`
  (keep-alive), `disconnect 11` (Disconnect datagram), a payload to the now unknown client 11 (`Err`, nothing sealed). -/
section Examples
open Ex

def nOps : List Op :=
  [.packet addrA reqA, .packet addrA reqA, .packet addrA respA, .sendPayload 11 [9, 9], .sendPayload 11 [1],
   .update 1000000000, .updateClient 11, .sendPayload 11 [2], .updateClient 11, .update 1000000000, .updateClient 11,
   .disconnect 11, .sendPayload 11 [3]]

/-- what an example shows of a ghost event: kind (0 handshake / 1 session), slot, sequence number, datagram length -/
def evShape : GEv → Nat × Nat × Nat × Nat
  | .hs q out => (0, 0, q, out.length)
  | .sess i r out => (1, i, r.seq, out.length)

set_option maxRecDepth 100000 in
/-- **the ghost log of the generated run** (kernel evaluation of the generated code and of the instrumentation that reads the
    generated struct): two Challenges under 2^63, 2^63 + 1; then slot 0: connect keep-alive 0, payloads 1, 2, keep-alive 3,
    payload 4, keep-alive 5, Disconnect 6 -/
theorem ex_trace : (GNc.init exCfg).map (fun g0 => (gtrace Ex.a g0 nOps).map evShape) =
    some [(0, 0, 2 ^ 63, 333), (0, 0, 2 ^ 63 + 1, 333), (1, 0, 0, 26), (1, 0, 1, 20), (1, 0, 2, 19), (1, 0, 3, 26),
      (1, 0, 4, 19), (1, 0, 5, 26), (1, 0, 6, 18)] := by decide +kernel

theorem nOps_inRange : OpsInRange nOps := by decide +kernel

/-- the send key of A's session (server-to-client key of A's token), as the generated struct holds it -/
def kA : List Nat := List.replicate 32 4

/-- the hypotheses of `handshake_nonces_disjoint` / `session_nonces_strict`, checked on the generated run: after the two
    requests slot 0 of the generated struct is free, the generated `process_packet` of the response occupies it with
    (`send_key`, `sequence`) = (`kA`, 1) and yields one session event; the session log of the remaining calls is 1 … 6 -/
def exHypB : Bool :=
  match GNc.init exCfg with
  | some g0 =>
    match g0.run Ex.a (nOps.take 2) with
    | some g =>
      match gstep Ex.a g (.packet addrA respA) with
      | some (g', evs) =>
        decide (gsv g.srv 0 = none ∧ gsv g'.srv 0 = some (kA, 1) ∧ gsessRecs 0 evs = [⟨kA, 0⟩] ∧
          (gsessLog Ex.a 0 g' (nOps.drop 3)).map (·.seq) = [1, 2, 3, 4, 5, 6])
      | none => false
    | none => false
  | none => false

set_option maxRecDepth 100000 in
theorem ex_hyp : exHypB = true := by decide +kernel

/-- `handshake_nonces_disjoint`, `session_nonces_strict`, `log_sound`, `log_complete` instantiated on the generated run -/
example : ∃ g0 g g' evs, GNc.init exCfg = some g0 ∧ g0.run Ex.a (nOps.take 2) = some g ∧
    gstep Ex.a g (.packet addrA respA) = some (g', evs) ∧
    (let sess := gsessRecs 0 evs ++ gsessLog Ex.a 0 g' (nOps.drop 3)
     let hs := ghsSeqs (gtrace Ex.a g0 nOps)
     sess.length = 7 ∧ (∀ r ∈ sess, r.key = kA) ∧ sess.map (·.seq) = List.range' 0 sess.length ∧
       (∀ r ∈ sess.take (2 ^ 63), ∀ q ∈ hs, r.seq ≠ q)) ∧
    (gsessLog Ex.a 0 g' (nOps.drop 3)).Pairwise (fun r r' => r.seq < r'.seq) ∧
    (∀ ev ∈ gtrace Ex.a g0 nOps, GEvSound Ex.a ev) ∧
    evs.map GEv.out = gOut (lastRes g') ∧ evs.length = 1 := by
  have hB := ex_hyp
  unfold exHypB at hB
  cases h0 : GNc.init exCfg with
  | none => rw [h0] at hB; cases hB
  | some g0 =>
    rw [h0] at hB
    simp only at hB
    cases h1 : g0.run Ex.a (nOps.take 2) with
    | none => rw [h1] at hB; cases hB
    | some g =>
      rw [h1] at hB
      simp only at hB
      cases h2 : gstep Ex.a g (.packet addrA respA) with
      | none => rw [h2] at hB; cases hB
      | some x =>
        obtain ⟨g', evs⟩ := x
        rw [h2] at hB
        simp only [decide_eq_true_eq] at hB
        obtain ⟨hfree, hocc, hevs, hlog⟩ := hB
        obtain ⟨hreach0, hG, _⟩ := init_hyps (a := Ex.a) h0
        have hsplit : nOps = nOps.take 2 ++ Op.packet addrA respA :: nOps.drop 3 := rfl
        have hr : OpsInRange (nOps.take 2 ++ Op.packet addrA respA :: nOps.drop 3) := by rw [← hsplit]; exact nOps_inRange
        have H := handshake_nonces_disjoint C18V.a_laws hreach0 (by rw [hG]; exact Nat.le_refl _) (nOps.take 2) g h1
          (.packet addrA respA) g' evs h2 0 kA 1 hfree hocc (nOps.drop 3) hr
        simp only at H
        obtain ⟨_, _, _, H4, H5, H6⟩ := H
        have hg : GReach Ex.a g := hreach0.run (fun o ho => hr o (List.mem_append_left _ ho)) h1
        have hreach' : GReach Ex.a g' := by
          have hgs : g.run Ex.a [Op.packet addrA respA] = some g' := by
            simp only [gstep] at h2
            cases h3 : g.step Ex.a (.packet addrA respA) with
            | none => rw [h3] at h2; cases h2
            | some g'' =>
              rw [h3] at h2
              simp only [Option.map_some, Option.some.injEq, Prod.mk.injEq] at h2
              simp only [GNc.run, h3, h2.1]
          exact hg.run (fun o ho => by
            rcases List.mem_singleton.mp ho with rfl
            exact hr _ (List.mem_append_right _ List.mem_cons_self)) hgs
        have S := session_nonces_strict C18V.a_laws hreach' 0 kA 1 hocc (nOps.drop 3)
          (fun o ho => hr o (List.mem_append_right _ (List.mem_cons_of_mem _ ho)))
        have hC := log_complete C18V.a_laws hg (.packet addrA respA) (hr _ (List.mem_append_right _ List.mem_cons_self)) g' evs h2
        have hlen : evs.length = 1 := by
          cases evs with
          | nil => cases hevs
          | cons e tl =>
            cases tl with
            | nil => rfl
            | cons e2 tl2 =>
              exfalso
              have h3 := congrArg List.length hC
              have h4 : (gOut (lastRes g')).length ≤ 1 := by
                cases lastRes g' with
                | ClientDisconnected i ad o => cases o <;> simp [gOut]
                | _ => simp [gOut]
              simp only [List.map_cons, List.length_cons] at h3
              omega
        refine ⟨g0, g, g', evs, (by first | exact h0 | rfl), h1, h2, ⟨?_, H4, H5, ?_⟩, S.2.2.1, ?_, hC, hlen⟩
        · have : (gsessLog Ex.a 0 g' (nOps.drop 3)).length = 6 := by
            have := congrArg List.length hlog
            rw [List.length_map] at this
            exact this
          simp only [List.length_append, hevs, this, List.length_cons, List.length_nil]
        · rw [← hsplit] at H6; exact H6
        · exact log_sound C18V.a_laws hreach0 nOps nOps_inRange

end Examples

end RenetVerif.SrcPropsNcNonces
