/-
  C04 — Netcode payloads: only authentic ones surface, each at most once (anti-replay).

  "A netcode endpoint surfaces a payload only if it is byte-identical to one its session peer passed to
   generate_payload_packet for the same protocol id and session keys, attributes it to that peer's client id, and
   surfaces each generated packet at most once however often, late or out of order the datagram (or any modification
   of it) is presented.  Conversely a genuine packet is surfaced the first time it arrives on a connected session
   provided its sequence number is less than 256 behind the highest one already accepted."

  Proofs: Lemmas/NcWire.lean.  Layers:
    1. the replay window (`replay_protection.rs`), pure;
    2. `Packet::decode` with a key and a window (the discipline: replay check, open, advance, parse);
       a session's receive side as a run of `decode` calls (`Recv.run`);
    3. `NetcodeServer::process_packet` / `NetcodeClient::process_packet`, one call.

  What "authentic" means here: the AEAD opened the body under the session key with nonce = the datagram's sequence
  number and additional data = version ‖ protocol id ‖ prefix byte.  That this implies "the peer sealed exactly this"
  is the per-run hypothesis `NoForgery` (never an AEAD law).

  Excluded point (documented, proven): sequence 2^64-1 equals the window's EMPTY marker and is accepted again
  (`sentinel_collision`); an honest sender reaches it after 2^64-1 packets.
  Not covered: replay of a datagram into a *later* session that reuses the same keys (the window is per connection;
  recorded as known finding K1), and the lifting of the per-session statements to arbitrary interleavings of
  server API calls (the per-call statements below say exactly how the stored window evolves).
-/
import RenetVerif.Lemmas.NcWire
namespace RenetVerif.C04
open RenetVerif RenetVerif.Netcode RenetVerif.Netcode.Packet

/-! ### 1. replay window -/

/-- closed form of `already_received` (a total function: for `sequence + 256 > u64::MAX` the `checked_add` merely
    switches the first test off) -/
theorem alreadyReceived_closed_form (rp : RP) (s : Nat) :
    rp.alreadyReceived s = true ↔
      (s + 256 ≤ 2 ^ 64 - 1 ∧ s + 256 ≤ rp.mostRecent) ∨ (rp.at s ≠ Replay.EMPTY ∧ s ≤ rp.at s) :=
  RP.alreadyReceived_iff rp s

/-- The invariant `RP.Inv rp accepted` (`accepted` = ghost list of every sequence the window was advanced with):
    `mostRecent < 2^64`; every accepted `s ≤ mostRecent`; `mostRecent` is 0 or accepted (so it is the maximum);
    every entry is EMPTY or an accepted sequence congruent to its index mod 256; every accepted `s ≠ 2^64-1` is at
    least 256 behind `mostRecent` or covered by a non-EMPTY entry `≥ s`.  It holds initially … -/
theorem window_inv_new : RP.Inv RP.new [] := RP.inv_new

/-- … and is preserved by the discipline of `decode`: `advance` only after `already_received` said no. -/
theorem window_inv_advance {rp : RP} {accepted : List Nat} {s : Nat} (h : RP.Inv rp accepted) (hs : s < 2 ^ 64)
    (hf : rp.alreadyReceived s = false) : RP.Inv (rp.advance s) (s :: accepted) :=
  RP.inv_advance h hs hf

/-- an accepted sequence is rejected for ever after -/
theorem no_reaccept {rp : RP} {accepted : List Nat} {s : Nat} (h : RP.Inv rp accepted) (hs : s ∈ accepted)
    (hne : s ≠ 2 ^ 64 - 1) : rp.alreadyReceived s = true :=
  RP.no_reaccept h hs hne

/-- a sequence never accepted and less than 256 behind the highest accepted one is not rejected -/
theorem fresh_accept {rp : RP} {accepted : List Nat} {s : Nat} (h : RP.Inv rp accepted) (hs : s ∉ accepted)
    (hw : rp.mostRecent < s + 256) : rp.alreadyReceived s = false :=
  RP.fresh_accept h hs hw

/-- the excluded point: `2^64-1` is accepted, and accepted again -/
theorem sentinel_collision :
    RP.new.alreadyReceived (2 ^ 64 - 1) = false ∧ (RP.new.advance (2 ^ 64 - 1)).alreadyReceived (2 ^ 64 - 1) = false :=
  RP.sentinel_collision

/-! ### 2. `decode` and a session's receive side -/

/-- `decode` returns a payload only if the datagram's body opened under the key, with the nonce and additional data
    its own header determines, to exactly that payload; the window (if any) had not seen the sequence number and
    is advanced with it. -/
theorem payload_surfaced_only_if_opened {a : AEAD} {buf : Bytes} {proto : Nat} {key : Option Bytes}
    {rp rp' : Option RP} {seq : Nat} {p : Bytes}
    (h : decode a buf proto key rp = (.ok (seq, .payload p), rp')) :
    ∃ k, key = some k ∧ seq = wireSeq buf ∧ SealedOpen a buf proto k .payload p ∧
      (∀ w, rp = some w → w.alreadyReceived seq = false) ∧ rp' = rp.map (·.advance seq) := by
  rcases decode_ok h with ⟨_, _, _, _, hpt, _, _⟩ | ⟨k, ty, plain, hk, hso, hd, hs, hr, hw⟩
  · cases hpt
  · obtain ⟨_, hpt, _, hpl⟩ := read_ok hr
    have hty : ty = .payload := hpt.symm
    subst hty
    have hp : p = plain := by have := hpl rfl; cases this; rfl
    subst hp
    refine ⟨k, hk, hs, hso, ?_, ?_⟩
    · intro w hw'; subst hw'; rw [isDup_some] at hd; simpa [PacketType.applyReplayProtection] using hd
    · rw [hw]; exact stepWindow_protected rfl _ _

/-- the error results of `decode` leave the window alone, except: an authentic keep-alive whose plaintext is shorter
    than 8 bytes advances it (the window moves before the body is parsed) and the call returns `IoError`. -/
theorem decode_error_window {a : AEAD} {buf : Bytes} {proto : Nat} {key : Option Bytes} {rp rp' : Option RP}
    {e : NetcodeError} (h : decode a buf proto key rp = (.err e, rp')) :
    rp' = rp ∨
    (∃ k plain, key = some k ∧ SealedOpen a buf proto k .keepAlive plain ∧
      isDup .keepAlive (wireSeq buf) rp = false ∧ plain.length < 8 ∧ e = .ioError ∧
      rp' = rp.map (·.advance (wireSeq buf))) :=
  decode_err h

/-- Per-run authenticity hypothesis: whichever of the presented datagrams opens under `key` (with the nonce and
    additional data its header determines) was sealed by the session peer: `sealed seq prefix plaintext`. -/
def NoForgery (a : AEAD) (proto : Nat) (key : Bytes) (presented : List Bytes)
    (sealed : Nat → UInt8 → Bytes → Prop) : Prop :=
  ∀ buf ∈ presented, ∀ plain,
    a.open key (nonce (wireSeq buf)) (additionalData (wirePrefix buf) proto) (wireBody buf) = some plain →
    sealed (wireSeq buf) (wirePrefix buf) plain

/-- Every payload a session's receive side surfaces, over any sequence of datagrams, is byte-identical to a plaintext
    the peer sealed with that sequence number under a payload prefix. -/
theorem payloads_authentic {a : AEAD} {proto : Nat} {key : Bytes} {bufs : List Bytes}
    {sealed : Nat → UInt8 → Bytes → Prop} (hnf : NoForgery a proto key bufs sealed) {seq : Nat} {p : Bytes}
    (h : (seq, Packet.payload p) ∈ (Recv.run a proto key bufs).surfaced) :
    ∃ pfx, PacketType.fromU8 (pfx.toNat % 16) = .ok .payload ∧ sealed seq pfx p := by
  obtain ⟨buf, plain, hb, hs, hso, hr⟩ := (Recv.good_run a proto key bufs).surf _ h (by intro h; cases h)
  have hp : p = plain := by have := (read_ok hr).2.2.2 rfl; cases this; rfl
  subst hp
  dsimp only at hs
  refine ⟨wirePrefix buf, hso.kind, ?_⟩
  rw [← hs]
  exact hnf buf hb p hso.opened

/-- At most once: over any sequence of datagrams presented to a session (same key, window starting from `new`), the
    sequence numbers of the surfaced replay-protected packets (payload, keep-alive, disconnect; `2^64-1` excluded)
    are pairwise distinct.  A surfaced packet's sequence number is `wireSeq` of its datagram, so no datagram, replay
    of it, or modification keeping its sequence bytes is surfaced twice. -/
theorem payload_at_most_once (a : AEAD) (proto : Nat) (key : Bytes) (bufs : List Bytes) :
    (protectedSeqs (Recv.run a proto key bufs).surfaced).Nodup :=
  (Recv.good_run a proto key bufs).nodup

/-- the ghost list of the run is what the window invariant speaks about -/
theorem run_window_inv (a : AEAD) (proto : Nat) (key : Bytes) (bufs : List Bytes) :
    RP.Inv (Recv.run a proto key bufs).window (Recv.run a proto key bufs).accepted :=
  (Recv.good_run a proto key bufs).inv

/-- "first time it arrives": a sequence number is in the accepted list only if some presented datagram carrying it
    opened under the key -/
theorem accepted_only_if_presented {a : AEAD} {proto : Nat} {key : Bytes} {bufs : List Bytes} {seq : Nat}
    (h : seq ∈ (Recv.run a proto key bufs).accepted) :
    ∃ buf ty plain, buf ∈ bufs ∧ wireSeq buf = seq ∧ SealedOpen a buf proto key ty plain :=
  let ⟨buf, ty, plain, hb, hs, hso, _⟩ := (Recv.good_run a proto key bufs).auth seq h
  ⟨buf, ty, plain, hb, hs, hso⟩

/-- in particular a sequence number no presented datagram carries has not been accepted -/
theorem not_accepted_of_not_presented {a : AEAD} {proto : Nat} {key : Bytes} {bufs : List Bytes} {seq : Nat}
    (h : ∀ buf ∈ bufs, wireSeq buf ≠ seq) : seq ∉ (Recv.run a proto key bufs).accepted := by
  intro hm
  obtain ⟨buf, _, _, hb, hs, _⟩ := accepted_only_if_presented hm
  exact h buf hb hs

/-- Converse, wire level: what `encode` makes of a payload decodes, under the same protocol id and key, to that payload
    on any window that does not reject the sequence number. -/
theorem genuine_accepted (a : AEAD) (hl : a.Laws) (p : Bytes) (proto : Nat) {seq : Nat} (hs : seq < 2 ^ 64)
    (key : Bytes) (cap : Nat) (hc : 1 + 8 + p.length + 16 ≤ cap) (rp : RP) (hf : rp.alreadyReceived seq = false) :
    ∃ d, encode a (.payload p) cap proto (some (seq, key)) = .ok d ∧
      decode a d proto (some key) (some rp) = (.ok (seq, .payload p), some (rp.advance seq)) := by
  refine ⟨sealedBytes a (.payload p) proto seq key, ?_, ?_⟩
  · exact (encode_sealed_ok a hl (.payload p) cap proto seq key (by intro h; cases h) (by simp only [body]; omega)).1
  · rw [decode_sealedBytes a (.payload p) proto seq key hl hs (by intro h; cases h) trivial (some rp)
      (by rw [isDup_some, hf]; rfl)]
    rfl

/-- Converse, session level: after any history of datagrams (replays, forgeries, reordering …), a genuine payload packet
    whose sequence number was not accepted before and is less than 256 behind the highest accepted one is surfaced. -/
theorem genuine_accepted_after_history (a : AEAD) (hl : a.Laws) (proto : Nat) (key : Bytes) (bufs : List Bytes)
    (p : Bytes) {seq : Nat} (hs : seq < 2 ^ 64) (hfresh : seq ∉ (Recv.run a proto key bufs).accepted)
    (hw : (Recv.run a proto key bufs).window.mostRecent < seq + 256) :
    (Recv.run a proto key (bufs ++ [sealedBytes a (.payload p) proto seq key])).surfaced =
      (seq, .payload p) :: (Recv.run a proto key bufs).surfaced := by
  have hf := RP.fresh_accept (Recv.good_run a proto key bufs).inv hfresh hw
  have hdec := decode_sealedBytes a (.payload p) proto seq key hl hs (by intro h; cases h) trivial
    (some (Recv.run a proto key bufs).window) (by rw [isDup_some, hf]; rfl)
  simp only [Recv.run, List.foldl_append, List.foldl_cons, List.foldl_nil]
  simp only [Recv.run] at hdec
  simp only [Recv.step, hdec]

/-! ### 3. the endpoints, one call -/
open NetcodeServer in
/-- Server: a payload surfaces only from the address of a connected client, attributed to that client's id, only if the
    datagram opened under that client's receive key to exactly that payload and its sequence number was not rejected
    by the client's window; the window stored afterwards is advanced with it.  (`SInv 1`: the server's packet counters
    are below `u64::MAX`, see C07.) -/
theorem server_payload_only_if_opened (a : AEAD) {s s' : NetcodeServer} (hinv : SInv 1 s) {addr : Addr} {buf : Bytes}
    {cid : Nat} {p : Bytes} (h : processPacket a s addr buf = .ok (.payload cid p, s')) :
    ∃ slot c, findClientByAddr s.clients addr = some (slot, c) ∧ c.state = .connected ∧ cid = c.clientId ∧
      SealedOpen a buf s.protocolId c.receiveKey .payload p ∧
      c.replayProtection.alreadyReceived (wireSeq buf) = false ∧
      s' = setClient s slot (some (c.received (c.replayProtection.advance (wireSeq buf)) s.currentTime)) := by
  obtain ⟨slot, c, seq, rp', hf, hst, hcid, hdec, hs'⟩ := processPacket_payload_inv a hinv h
  obtain ⟨k, hk, hseq, hso, hfresh, hrp⟩ := payload_surfaced_only_if_opened hdec
  cases hk
  subst hseq
  refine ⟨slot, c, hf, hst, hcid, hso, hfresh _ rfl, ?_⟩
  rw [hs', hrp]; rfl

open NetcodeServer in
/-- Server: once the client's window reports a sequence number as received, no datagram carrying it surfaces a payload
    (with `RP.alreadyReceived_advance_self` and `no_reaccept`: the accepted datagram, any copy, any modification that
    keeps the sequence bytes). -/
theorem server_replay_rejected (a : AEAD) {s : NetcodeServer} (hinv : SInv 1 s) {addr : Addr} {buf : Bytes}
    {slot : Nat} {c : Connection} (hf : findClientByAddr s.clients addr = some (slot, c))
    (hdup : c.replayProtection.alreadyReceived (wireSeq buf) = true) (cid : Nat) (p : Bytes) (s' : NetcodeServer) :
    processPacket a s addr buf ≠ .ok (.payload cid p, s') := by
  intro h
  obtain ⟨slot', c', hf', _, _, _, hfresh, _⟩ := server_payload_only_if_opened a hinv h
  rw [hf] at hf'; cases hf'
  rw [hdup] at hfresh; cases hfresh

open NetcodeServer in
/-- Server, converse: a genuine payload packet for a connected client is surfaced, attributed to it, if the client's
    window does not reject its sequence number (`fresh_accept`: never accepted, less than 256 behind). -/
theorem server_genuine_accepted (a : AEAD) (hl : a.Laws) (s : NetcodeServer) (addr : Addr) {slot : Nat}
    {c : Connection} (hf : findClientByAddr s.clients addr = some (slot, c)) (hst : c.state = .connected)
    (p : Bytes) {seq : Nat} (hseq : seq < 2 ^ 64) (hfresh : c.replayProtection.alreadyReceived seq = false) :
    processPacket a s addr (sealedBytes a (.payload p) s.protocolId seq c.receiveKey) =
      .ok (.payload c.clientId p, setClient s slot (some (c.received (c.replayProtection.advance seq) s.currentTime))) :=
  processPacket_genuine_payload a hl s addr hf hst p hseq hfresh

open NetcodeClient in
/-- Client: the same three statements. -/
theorem client_payload_only_if_opened (a : AEAD) {c c' : NetcodeClient} {buf p : Bytes}
    (h : processPacket a c buf = .ok (some p, c')) :
    c.state = .connected ∧
      SealedOpen a buf c.connectToken.protocolId c.connectToken.serverToClientKey .payload p ∧
      c.replayProtection.alreadyReceived (wireSeq buf) = false ∧
      c' = { c.withWindow (c.replayProtection.advance (wireSeq buf)) with lastPacketReceivedTime := c.currentTime } := by
  obtain ⟨hst, seq, rp', hdec, hc'⟩ := processPacket_payload_inv a h
  obtain ⟨k, hk, hseq, hso, hfresh, hrp⟩ := payload_surfaced_only_if_opened hdec
  cases hk
  subst hseq
  refine ⟨hst, hso, hfresh _ rfl, ?_⟩
  rw [hc', hrp]; rfl

open NetcodeClient in
theorem client_replay_rejected (a : AEAD) {c : NetcodeClient} {buf : Bytes}
    (hdup : c.replayProtection.alreadyReceived (wireSeq buf) = true) (p : Bytes) (c' : NetcodeClient) :
    processPacket a c buf ≠ .ok (some p, c') := by
  intro h
  obtain ⟨_, _, hfresh, _⟩ := client_payload_only_if_opened a h
  rw [hdup] at hfresh; cases hfresh

open NetcodeClient in
theorem client_genuine_accepted (a : AEAD) (hl : a.Laws) (c : NetcodeClient) (hst : c.state = .connected)
    (p : Bytes) {seq : Nat} (hseq : seq < 2 ^ 64) (hfresh : c.replayProtection.alreadyReceived seq = false) :
    processPacket a c (sealedBytes a (.payload p) c.connectToken.protocolId seq c.connectToken.serverToClientKey) =
      .ok (some p, { c.withWindow (c.replayProtection.advance seq) with lastPacketReceivedTime := c.currentTime }) :=
  processPacket_genuine_payload a hl c hst p hseq hfresh

/-! ### non-vacuity (toy AEAD: identity cipher, constant tag; `AEAD.toy_laws`) -/
section examples

def key : Bytes := List.replicate 32 7
/-- two genuine payload datagrams (protocol id 42, sequences 0 and 1) -/
def d0 : Bytes := sealedBytes AEAD.toy (.payload [1, 2, 3]) 42 0 key
def d1 : Bytes := sealedBytes AEAD.toy (.payload [9]) 42 1 key
/-- a payload-shaped forgery: prefix 0x15 (payload, one sequence byte), sequence 3, a body the AEAD rejects -/
def forged : Bytes := 0x15 :: 3 :: List.replicate 20 0xFF

/-- a window that accepted 5, then 300 -/
def w2 : RP := (RP.new.advance 5).advance 300
theorem w2_inv : RP.Inv w2 [300, 5] :=
  window_inv_advance (window_inv_advance window_inv_new (by decide) (by decide +kernel)) (by decide) (by decide +kernel)

example : w2.alreadyReceived 5 = true := no_reaccept w2_inv (by simp) (by decide)
example : w2.alreadyReceived 300 = true := no_reaccept w2_inv (by simp) (by decide)
/-- 45 is 255 behind 300: still accepted; 44 is 256 behind: rejected -/
example : w2.alreadyReceived 45 = false := fresh_accept w2_inv (by simp) (by decide +kernel)
example : w2.alreadyReceived 44 = true := by decide +kernel
/-- 261 shares slot 5 with the accepted 5 and is fresh -/
example : w2.alreadyReceived 261 = false := fresh_accept w2_inv (by simp) (by decide +kernel)

/-- replays, reordering and a forgery: each genuine packet surfaces once -/
example : (Recv.run AEAD.toy 42 key [d1, d0, forged, d0, d1, d0]).surfaced =
    [(0, Packet.payload [1, 2, 3]), (1, Packet.payload [9])] := by decide +kernel
example : protectedSeqs (Recv.run AEAD.toy 42 key [d1, d0, forged, d0, d1, d0]).surfaced = [0, 1] := by decide +kernel
example : (protectedSeqs (Recv.run AEAD.toy 42 key [d1, d0, forged, d0, d1, d0]).surfaced).Nodup :=
  payload_at_most_once _ _ _ _
/-- the same datagram under another protocol id or another session's window state: additional data differ, but the
    toy cipher ignores them — with the real AEAD this is where `CryptoError` comes from; here only the shape -/
example : (decode AEAD.toy forged 42 (some key) (some RP.new)).1 = .err .cryptoError := by decide +kernel

/-- `NoForgery` for the datagrams of that run and the peer's two sealed packets -/
example : NoForgery AEAD.toy 42 key [d1, d0, forged, d0, d1, d0]
    (fun seq pfx p => (seq, pfx, p) ∈ [(0, (0x15 : UInt8), [1, 2, 3]), (1, 0x15, [9])]) := by
  intro buf hb plain h
  have e0 : AEAD.toy.open key (nonce (wireSeq d0)) (additionalData (wirePrefix d0) 42) (wireBody d0) = some [1, 2, 3] := by
    decide +kernel
  have e1 : AEAD.toy.open key (nonce (wireSeq d1)) (additionalData (wirePrefix d1) 42) (wireBody d1) = some [9] := by
    decide +kernel
  have ef : AEAD.toy.open key (nonce (wireSeq forged)) (additionalData (wirePrefix forged) 42) (wireBody forged) = none := by
    decide +kernel
  simp only [List.mem_cons, List.mem_nil_iff, or_false] at hb
  rcases hb with rfl | rfl | rfl | rfl | rfl | rfl
  all_goals first
    | (rw [e0] at h; cases h; decide +kernel)
    | (rw [e1] at h; cases h; decide +kernel)
    | (rw [ef] at h; cases h)

/-- `genuine_accepted` on a fresh window, and on `w2` for sequence 261 -/
example : ∃ d, encode AEAD.toy (.payload [1, 2, 3]) 1400 42 (some (0, key)) = .ok d ∧
    decode AEAD.toy d 42 (some key) (some RP.new) = (.ok (0, .payload [1, 2, 3]), some (RP.new.advance 0)) :=
  genuine_accepted AEAD.toy AEAD.toy_laws [1, 2, 3] 42 (by decide) key 1400 (by decide) RP.new (by decide +kernel)
example : ∃ d, encode AEAD.toy (.payload [1, 2, 3]) 1400 42 (some (261, key)) = .ok d ∧
    decode AEAD.toy d 42 (some key) (some w2) = (.ok (261, .payload [1, 2, 3]), some (w2.advance 261)) :=
  genuine_accepted AEAD.toy AEAD.toy_laws [1, 2, 3] 42 (by decide) key 1400 (by decide) w2
    (fresh_accept w2_inv (by simp) (by decide +kernel))
/-- the side condition matters: sequence 0 is more than 256 behind 300 and is rejected by `w2` -/
example : (decode AEAD.toy d0 42 (some key) (some w2)).1 = .err .duplicatedSequence := by decide +kernel

/-- `genuine_accepted_after_history`: after replays and a forgery, sequence 2 is new and surfaces -/
example : (Recv.run AEAD.toy 42 key ([d1, d0, forged, d0] ++ [sealedBytes AEAD.toy (.payload [4, 4]) 42 2 key])).surfaced =
    (2, Packet.payload [4, 4]) :: (Recv.run AEAD.toy 42 key [d1, d0, forged, d0]).surfaced :=
  genuine_accepted_after_history AEAD.toy AEAD.toy_laws 42 key [d1, d0, forged, d0] [4, 4] (by decide)
    (not_accepted_of_not_presented (by decide +kernel)) (by decide +kernel)

/-! a server with one connected client (id 77) -/
def cliAddr : Addr := .v4 [10, 0, 0, 2] 4000
def conn : Connection :=
  { confirmed := true, clientId := 77, state := .connected, sendKey := List.replicate 32 4, receiveKey := key,
    userData := [], addr := cliAddr, lastPacketReceivedTime := 0, lastPacketSendTime := 0, timeoutSeconds := 15,
    sequence := 0, expireTimestamp := 30, replayProtection := RP.new }
def srv : NetcodeServer :=
  { clients := [none, some conn], pendingClients := [], connectTokenEntries := [none, none], protocolId := 42,
    connectKey := List.replicate 32 1, maxClients := 2, challengeSequence := 0, challengeKey := List.replicate 32 2,
    publicAddresses := [.v4 [127, 0, 0, 1] 5000], currentTime := 1000, globalSequence := 2 ^ 63, secure := true }
theorem srv_inv : NetcodeServer.SInv 1 srv := ⟨by decide, by decide, fun x hx => by cases hx⟩
theorem srv_find : findClientByAddr srv.clients cliAddr = some (1, conn) := rfl

/-- the genuine datagram surfaces … -/
example : NetcodeServer.processPacket AEAD.toy srv cliAddr d0 =
    .ok (.payload 77 [1, 2, 3], NetcodeServer.setClient srv 1 (some (conn.received (RP.new.advance 0) 1000))) :=
  server_genuine_accepted AEAD.toy AEAD.toy_laws srv cliAddr srv_find rfl [1, 2, 3] (by decide) (by decide +kernel)
/-- … and on the state after it, neither it nor the bit-flipped copy (same sequence bytes) does -/
def srv' : NetcodeServer := NetcodeServer.setClient srv 1 (some (conn.received (RP.new.advance 0) 1000))
example (cid : Nat) (p : Bytes) (s' : NetcodeServer) :
    NetcodeServer.processPacket AEAD.toy srv' cliAddr d0 ≠ .ok (.payload cid p, s') :=
  server_replay_rejected AEAD.toy (s := srv') ⟨by decide, by decide, fun x hx => by cases hx⟩
    (slot := 1) (c := conn.received (RP.new.advance 0) 1000) rfl (by decide +kernel) cid p s'
example : (match NetcodeServer.processPacket AEAD.toy srv' cliAddr d0 with | .ok (r, _) => some r | _ => none)
    = some .none := by decide +kernel

end examples

end RenetVerif.C04
