/-
  C04 over WHOLE RUNS OF THE GENERATED SERVER (`Generated/Src/NcServer*.lean`, translated from `renetcode/src/server.rs`):
  "within one session each payload is surfaced at most once, and only if its datagram opened under the session's key".

  Same conventions as `Props/SrcPropsNcHistory.lean`: a generated run in the hypothesis — `GNc.exec a c ops = some g` (generated
  `NetcodeServer::new`, then the generated `process_packet` / `update` / `update_client` / `disconnect` / `set_max_clients` /
  `generate_payload_packet` with ARBITRARY arguments, in range `OpsInRange`) — and the conclusion read off the generated
  results log `g.results` (one entry per operation, in order: `ops.zip g.results` is the generated trace).  Proved by
  transporting `Props/C04H.lean` (model traces `NS.ReachT`) along `run_sim_conv`.

  `gSessPayloads id (ops.zip g.results)`: the (datagram, surfaced bytes) pairs of the generated `Payload id ..` results since
  the last generated `ClientConnected id ..` result — the current session of `id`.
-/
import RenetVerif.Props.SrcPropsNcHistory
import RenetVerif.Props.C04H
set_option linter.unusedSimpArgs false
set_option linter.unusedVariables false
namespace RenetVerif.SrcPropsNcPayloadOnce
open RenetVerif RenetVerif.SrcEquiv RenetVerif.RustSem RenetVerif.Netcode RenetVerif.Netcode.NS RenetVerif.SrcNcSystem
open Src.renetcode.server

/-! ## the generated trace and its sessions -/

abbrev GTrace := List (Op × SServerResult)

/-- mirror of `NS.sessStep` over the generated `ServerResult` -/
def gSessStep (id : Nat) (L : List (Bytes × List Nat)) : Op × SServerResult → List (Bytes × List Nat)
  | (_, .ClientConnected id' _ _ _) => if id' = id then [] else L
  | (.packet _ buf, .Payload id' p) => if id' = id then (buf, p) :: L else L
  | _ => L

/-- the (datagram, surfaced bytes) pairs of the generated `Payload id` results since the last generated `ClientConnected id` -/
def gSessPayloads (id : Nat) (tr : GTrace) : List (Bytes × List Nat) := tr.foldl (gSessStep id) []

/-- their sequence numbers, `2^64-1` excluded -/
def gSeqsOf (L : List (Bytes × List Nat)) : List Nat :=
  (L.map fun bp => Packet.wireSeq bp.1).filter fun x => decide (x ≠ 2 ^ 64 - 1)

def reprEntry (x : Op × Netcode.ServerResult) : Op × SServerResult := (x.1, reprNSR x.2)
def reprPair (bp : Bytes × Bytes) : Bytes × List Nat := (bp.1, toNats bp.2)

theorem gSessStep_repr (id : Nat) (L : List (Bytes × Bytes)) (x : Op × Netcode.ServerResult) :
    gSessStep id (L.map reprPair) (reprEntry x) = (sessStep id L x).map reprPair := by
  obtain ⟨op, r⟩ := x
  cases r with
  | clientConnected id' ad ud o =>
    rw [sessStep_connected]
    simp only [reprEntry, reprNSR, gSessStep]
    split <;> rfl
  | payload id' p =>
    cases op with
    | packet ad buf =>
      rw [sessStep_payload]
      simp only [reprEntry, reprNSR, gSessStep]
      split <;> rfl
    | _ => rfl
  | none => cases op <;> rfl
  | packetToSend ad out => cases op <;> rfl
  | clientDisconnected id' ad o => cases op <;> rfl

theorem gSessPayloads_repr (id : Nat) (tr : Trace) :
    gSessPayloads id (tr.map reprEntry) = (sessPayloads id tr).map reprPair := by
  unfold gSessPayloads sessPayloads
  have : ∀ (t : Trace) (L : List (Bytes × Bytes)),
      (t.map reprEntry).foldl (gSessStep id) (L.map reprPair) = (t.foldl (sessStep id) L).map reprPair := by
    intro t
    induction t with
    | nil => intro L; rfl
    | cons x rest ih => intro L; rw [List.map_cons, List.foldl_cons, List.foldl_cons, gSessStep_repr, ih]
  exact this tr []

theorem gSeqsOf_repr (L : List (Bytes × Bytes)) : gSeqsOf (L.map reprPair) = seqsOf L := by
  simp [gSeqsOf, seqsOf, reprPair, Function.comp_def]

/-! ## the model trace behind a generated run -/

theorem zip_repr : ∀ (t : Trace), (t.map (·.1)).zip ((t.map (·.2)).map reprNSR) = t.map reprEntry
  | [] => rfl
  | x :: r => by simp only [List.map_cons, List.zip_cons_cons, zip_repr r]; rfl

theorem mrun_trace {a : AEAD} : ∀ (ops : List Op) {m m' : MNc} {tr : Trace}, ReachT a m.srv tr →
    m.results = tr.map (·.2) → m.run a ops = some m' →
    ∃ t, ReachT a m'.srv (tr ++ t) ∧ m'.results = (tr ++ t).map (·.2) ∧ t.map (·.1) = ops := by
  intro ops
  induction ops with
  | nil => intro m m' tr hr hres h; cases h; exact ⟨[], by simpa using hr, by simpa using hres, rfl⟩
  | cons op ops ih =>
    intro m m' tr hr hres h
    simp only [MNc.run] at h
    cases hs : m.step a op with
    | none => rw [hs] at h; cases h
    | some m1 =>
      rw [hs] at h
      obtain ⟨r, hstep, hres1, -⟩ := SrcPropsNcHistory.mstep_spec hs
      obtain ⟨t, h1, h2, h3⟩ := ih (tr := tr ++ [(op, r)]) (ReachT.step hr hstep) (by rw [hres1, hres]; simp) h
      refine ⟨(op, r) :: t, by simpa using h1, by simpa using h2, by simp [h3]⟩

/-- **the simulation, packaged with the trace**: behind a generated execution there is a model run `NS.ReachT` whose final
    state the generated struct represents and whose trace is, entry by entry, the generated trace `ops.zip g.results` -/
theorem gexec_trace {a : AEAD} (hl : a.Laws) {c : NcCfg} {ops : List Op} {g : GNc} (hr : OpsInRange ops)
    (hg : GNc.exec a c ops = some g) :
    ∃ tr s, ReachT a s tr ∧ (∃ out, out.length = Netcode.C.NETCODE_MAX_PACKET_BYTES ∧ g.srv = reprNS out s) ∧
      ops.zip g.results = tr.map reprEntry := by
  obtain ⟨m, hm, hsim⟩ := run_sim_conv a hl c ops g hr hg
  unfold MNc.exec at hm
  cases h0 : MNc.init c with
  | none => rw [h0] at hm; cases hm
  | some m0 =>
    rw [h0] at hm
    have hm0 : ReachT a m0.srv [] ∧ m0.results = [] := by
      unfold MNc.init at h0
      split at h0
      · rename_i s hs; cases h0; exact ⟨C04H.reachT_new hs, rfl⟩
      · cases h0
    obtain ⟨t, h1, h2, h3⟩ := mrun_trace ops hm0.1 (by rw [hm0.2]; rfl) hm
    rw [List.nil_append] at h1 h2
    refine ⟨t, m.srv, h1, hsim.srv, ?_⟩
    rw [hsim.results, h2, ← h3]
    exact zip_repr t

/-! ## the theorems -/

/-- **C04 at most once per session, after any generated run**: the sequence numbers (`2^64-1` excluded) of the datagrams for
    which the generated `process_packet` returned `Payload id ..` since the last generated `ClientConnected id ..` are pairwise
    distinct.  (Transports `C04H.session_payload_once`.) -/
theorem src_session_payload_once {a : AEAD} (hl : a.Laws) {c : NcCfg} {ops : List Op} {g : GNc} (hr : OpsInRange ops)
    (hg : GNc.exec a c ops = some g) (id : Nat) : (gSeqsOf (gSessPayloads id (ops.zip g.results))).Nodup := by
  obtain ⟨tr, s, hreach, -, htr⟩ := gexec_trace hl hr hg
  rw [htr, gSessPayloads_repr, gSeqsOf_repr]
  exact C04H.session_payload_once hreach id

/-- **C04 authentic, one key per session, after any generated run**: all payloads the generated code surfaced in the current
    session of `id` are the plaintexts of their datagrams under ONE key, nonce = the datagram's own sequence number,
    additional data = version ‖ the generated struct's protocol id ‖ the datagram's own prefix byte.
    (Transports `C04H.session_payloads_authentic`.) -/
theorem src_session_payloads_authentic {a : AEAD} (hl : a.Laws) {c : NcCfg} {ops : List Op} {g : GNc} (hr : OpsInRange ops)
    (hg : GNc.exec a c ops = some g) (id : Nat) :
    ∃ key, ∀ bp ∈ gSessPayloads id (ops.zip g.results), ∃ p0, bp.2 = toNats p0 ∧
      Packet.SealedOpen a bp.1 g.srv.protocol_id key .payload p0 := by
  obtain ⟨tr, s, hreach, ⟨out, ho, hs⟩, htr⟩ := gexec_trace hl hr hg
  obtain ⟨key, hkey⟩ := C04H.session_payloads_authentic hreach id
  refine ⟨key, fun bp hbp => ?_⟩
  rw [htr, gSessPayloads_repr] at hbp
  obtain ⟨bp0, hbp0, rfl⟩ := List.mem_map.mp hbp
  rw [hs]
  exact ⟨bp0.2, rfl, hkey bp0 hbp0⟩

theorem reprNSR_payload {r : Netcode.ServerResult} {id : Nat} {p : List Nat} (h : reprNSR r = .Payload id p) :
    ∃ p0, r = .payload id p0 ∧ p = toNats p0 := by
  cases r <;> simp only [reprNSR, ServerResult.Payload.injEq, reduceCtorEq] at h
  obtain ⟨rfl, rfl⟩ := h
  exact ⟨_, rfl, rfl⟩

/-- **C04 at most once per session, any two positions of any generated run**: if the generated `process_packet` returned
    `Payload id ..` for the datagram `bj` and later for `bk`, with no generated `ClientConnected id ..` result between the two
    (same session), then `bj` and `bk` carry different sequence numbers (unless it is `2^64-1`) — a replayed datagram, or any
    modification of it that keeps the sequence bytes, yields no second `Payload` — and both opened under one and the same key
    to exactly the surfaced bytes.  (Transports `C04H.payload_once_per_session`.) -/
theorem src_payload_once_per_session {a : AEAD} (hl : a.Laws) {c : NcCfg} {ops : List Op} {g : GNc} (hr : OpsInRange ops)
    (hg : GNc.exec a c ops = some g) {pre mid post : GTrace} {id : Nat} {adj adk : Addr} {bj bk : Bytes} {pj pk : List Nat}
    (he : ops.zip g.results = pre ++ (.packet adj bj, .Payload id pj) :: (mid ++ (.packet adk bk, .Payload id pk) :: post))
    (hmid : ∀ x ∈ mid, ∀ ad ud o, x.2 ≠ .ClientConnected id ad ud o) :
    (Packet.wireSeq bj ≠ 2 ^ 64 - 1 → Packet.wireSeq bk ≠ Packet.wireSeq bj) ∧
    ∃ key pj0 pk0, pj = toNats pj0 ∧ pk = toNats pk0 ∧
      Packet.SealedOpen a bj g.srv.protocol_id key .payload pj0 ∧ Packet.SealedOpen a bk g.srv.protocol_id key .payload pk0 := by
  obtain ⟨tr, s, hreach, ⟨out, ho, hs⟩, htr⟩ := gexec_trace hl hr hg
  rw [htr] at he
  obtain ⟨pre', rest', hsplit, hpre, hrest⟩ := List.map_eq_append_iff.mp he
  obtain ⟨e, rest2, hrest', hee, hrest2⟩ := List.map_eq_cons_iff.mp hrest
  obtain ⟨mid', rest3, hsplit3, hmid', hrest3⟩ := List.map_eq_append_iff.mp hrest2
  obtain ⟨e', post', hrest3', hee', hpost⟩ := List.map_eq_cons_iff.mp hrest3
  obtain ⟨opj, rj⟩ := e
  obtain ⟨opk, rk⟩ := e'
  simp only [reprEntry, Prod.mk.injEq] at hee hee'
  obtain ⟨rfl, hrj⟩ := hee
  obtain ⟨rfl, hrk⟩ := hee'
  obtain ⟨pj0, rfl, rfl⟩ := reprNSR_payload hrj
  obtain ⟨pk0, rfl, rfl⟩ := reprNSR_payload hrk
  have hmidM : ∀ x ∈ mid', ∀ ad ud o, x.2 ≠ Netcode.ServerResult.clientConnected id ad ud o := by
    intro x hx ad ud o hxe
    refine hmid (reprEntry x) (by rw [← hmid']; exact List.mem_map.mpr ⟨x, hx, rfl⟩) (reprAddr ad) (toNats ud) (toNats o) ?_
    simp only [reprEntry, hxe, reprNSR]
  have := C04H.payload_once_per_session hreach (by rw [hsplit, hrest', hsplit3, hrest3']) hmidM
  refine ⟨this.1, ?_⟩
  obtain ⟨key, h1, h2⟩ := this.2
  rw [hs]
  exact ⟨key, pj0, pk0, rfl, rfl, h1, h2⟩

/-! ## non-vacuity: the generated run of `SrcPropsNcHistory.ex_run`, extended

  generated `NetcodeServer::new`, A's request, a hostile datagram, A's response (→ `ClientConnected 11`), the payload datagram
  (sequence 2), ITS REPLAY, a payload to A, a clock step, `update_client 11`, a hostile datagram from A, then a second genuine
  payload datagram (sequence 3) and a modified copy of the first (same sequence byte, other content).  The generated code is
  evaluated by the kernel. -/
section Examples
open Ex SrcPropsNcHistory

def exOps : List Op :=
  exOps1 ++ [.packet addrA respA, .packet addrA payFromA, .packet addrA payFromA, .sendPayload 11 [9, 9], .update 1000000000,
    .updateClient 11, .packet addrA SrcPropsNcHistory.hostile, .packet addrA C04H.pay3, .packet addrA C04H.pay2']

theorem exOps_inRange : OpsInRange exOps := by decide +kernel

set_option maxRecDepth 100000 in
/-- **the generated run**: `Payload 11 [1,2,3]` once, NOTHING for its replay, `Payload 11 [4,5]` for sequence 3, NOTHING for the
    modified copy carrying sequence 2 again; the session of id 11 read off the generated results log -/
theorem ex_run : (GNc.exec Ex.a exCfg exOps).map (fun g => (g.results.map shape, gSessPayloads 11 (exOps.zip g.results))) =
    some ([("PacketToSend", 333), ("None", 0), ("ClientConnected", 11), ("Payload", 11003), ("None", 0), ("PacketToSend", 20),
      ("None", 0), ("PacketToSend", 26), ("None", 0), ("Payload", 11002), ("None", 0)],
      [(C04H.pay3, [4, 5]), (payFromA, [1, 2, 3])]) := by decide +kernel

/-- `src_session_payload_once` / `src_session_payloads_authentic` instantiated on it: two payloads in the session, sequence
    numbers 3 and 2 -/
example : ∃ g, GNc.exec Ex.a exCfg exOps = some g ∧ gSeqsOf (gSessPayloads 11 (exOps.zip g.results)) = [3, 2] ∧
    (gSeqsOf (gSessPayloads 11 (exOps.zip g.results))).Nodup ∧
    ∃ key, ∀ bp ∈ gSessPayloads 11 (exOps.zip g.results), ∃ p0, bp.2 = toNats p0 ∧
      Packet.SealedOpen Ex.a bp.1 g.srv.protocol_id key .payload p0 := by
  have h := ex_run
  cases hg : GNc.exec Ex.a exCfg exOps with
  | none => rw [hg] at h; cases h
  | some g =>
    rw [hg] at h
    simp only [Option.map_some, Option.some.injEq, Prod.mk.injEq] at h
    exact ⟨g, rfl, by rw [h.2]; decide +kernel, src_session_payload_once C18V.a_laws exOps_inRange hg 11,
      src_session_payloads_authentic C18V.a_laws exOps_inRange hg 11⟩

/-- the model-side names of the results of that run -/
def exResults : List Netcode.ServerResult :=
  [.packetToSend addrA chalA, .none, .clientConnected 11 addrA udA kaA, .payload 11 [1, 2, 3], .none,
   .packetToSend addrA (21 :: 1 :: ([9, 9] ++ List.replicate 16 0)), .none,
   .packetToSend addrA (20 :: 2 :: (Netcode.leBytes 0 4 ++ Netcode.leBytes 2 4 ++ List.replicate 16 0)), .none, .payload 11 [4, 5], .none]

set_option maxRecDepth 100000 in
/-- the complete generated results log (kernel evaluation of the generated code) -/
theorem ex_results : (GNc.exec Ex.a exCfg exOps).map (·.results) = some (exResults.map reprNSR) := by decide +kernel

/-- `src_payload_once_per_session` instantiated: positions 3 (`payFromA`, sequence 2) and 9 (`pay3`, sequence 3) of the
    generated trace, no `ClientConnected 11` between them -/
example : Packet.wireSeq C04H.pay3 ≠ Packet.wireSeq payFromA := by
  have h := ex_results
  cases hg : GNc.exec Ex.a exCfg exOps with
  | none => rw [hg] at h; cases h
  | some g =>
    rw [hg] at h
    simp only [Option.map_some, Option.some.injEq] at h
    refine (src_payload_once_per_session C18V.a_laws exOps_inRange hg
      (pre := [(.packet addrA reqA, reprNSR (.packetToSend addrA chalA)), (.packet addrB SrcPropsNcHistory.hostile, .None),
        (.packet addrA respA, reprNSR (.clientConnected 11 addrA udA kaA))])
      (mid := [(.packet addrA payFromA, .None),
        (.sendPayload 11 [9, 9], reprNSR (.packetToSend addrA (21 :: 1 :: ([9, 9] ++ List.replicate 16 0)))),
        (.update 1000000000, .None),
        (.updateClient 11, reprNSR (.packetToSend addrA (20 :: 2 :: (Netcode.leBytes 0 4 ++ Netcode.leBytes 2 4 ++ List.replicate 16 0)))),
        (.packet addrA SrcPropsNcHistory.hostile, .None)])
      (post := [(.packet addrA C04H.pay2', .None)]) (id := 11) (pj := [1, 2, 3]) (pk := [4, 5]) (by rw [h]; rfl) ?_).1
      (by decide +kernel)
    intro x hx ad ud o
    simp only [List.mem_cons, List.mem_nil_iff, or_false] at hx
    rcases hx with rfl | rfl | rfl | rfl | rfl <;> simp [reprNSR]

end Examples

end RenetVerif.SrcPropsNcPayloadOnce
