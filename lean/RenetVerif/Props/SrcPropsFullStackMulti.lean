/-
  C20M — THE FULL STACK WITH SEVERAL CLIENTS, ABOUT THE GENERATED CODE.

  `GMS` is the system of `Props/C20M.lean` (`FullStackMulti.MS`) over GENERATED code: the generated full stack `GFS` of
  `Lemmas/SrcEquiv/SrcFullStack.lean` for the observed session `cid` and the server, plus a second generated client
  (`to` : generated `NetcodeClientTransport` with its socket, generated `NetcodeClient`, receive buffer; `ro` : generated
  `RenetClient`).  `GMS.step` executes every `MOp` through generated functions only:
      base op                                    `GFS.step` (the 14 operations of C20F)
      srvSendTo id / srvRecvFrom id / srvDisconnectId id
                                                 generated `RenetServer::{send_message, receive_message, disconnect}(id, …)`
      srvBroadcast / srvBroadcastExcept          generated `RenetServer::{broadcast_message, broadcast_message_except}`
      othSend … othTransportDisconnect           the client cases of `GFS.step` (generated `RenetClient::…`,
                                                 `NetcodeClientTransport::{update, send_packets, disconnect}`) applied to `to` / `ro`
  `gm0.run a cid ops = some gm`: every generated call of the run returned normally.

  Hypotheses of every theorem: those of `Props/SrcPropsFullStack.lean`, for the several-client system —
  * `Established cfg cid ms0.fs`, `MSGood ms0`, `SimMS ms0 gm0`: the generated start state represents a model state whose
    session for `cid` is established and which satisfies the model invariants (also for the other client's two layers);
    `gmOf ms0` is such a state (`simMS_gmOf`);
  * `MNoForgeryRunD`, `MSingleSessionRun` for `cid`, on the MODEL run of `ops.map cutMOp` (inboxes cut to the receive buffers);
  * `GCountersUp` / `GCountersDown` on the generated final state;
  * `MSRunOK a cid ms0 ops` — DECIDABLE: before every operation the range condition (`MOpInRange`: `FSOpInRange` for the
    base operations and, with the other client in the client's place, for its operations; messages `< 2^63` bytes and the
    connections of the server table in `ConnInRange` for the server's per-id and broadcast calls) and the local condition
    of the transport calls (`MOpLocalOk`).
-/
import RenetVerif.Lemmas.FullStackMulti
import RenetVerif.Props.SrcPropsFullStack
import RenetVerif.Props.C20M
set_option linter.unusedSimpArgs false
set_option linter.unusedVariables false
set_option maxRecDepth 100000
namespace RenetVerif.SrcPropsFullStackMulti
open RenetVerif C RenetVerif.RustSem RenetVerif.System RenetVerif.Netcode RenetVerif.Transport RenetVerif.FullStack
  RenetVerif.FullStackMulti
open RenetVerif.SrcEquiv RenetVerif.SrcSystem RenetVerif.SrcMulti RenetVerif.SrcFullStack
open Src.renet.remote_connection Src.renet.server Src.renet_netcode.server Src.renet_netcode.client

/-! ## the generated several-client system -/

structure GMS where
  /-- the observed client, the server, the ghost logs of the observed session -/
  g : GFS
  /-- the other client's generated `NetcodeClientTransport` and `RenetClient` -/
  to : SClientTransport
  ro : SRenetClient

/-- the generated server replaced (mirror of `FullStackMulti.setRenet`) -/
def gsetRenet (cid : Nat) (g : GFS) (rs' : SRenetServer) : GFS :=
  { g with rs := rs', ySeq := gtrackSeq cid rs' g.ySeq }

/-- mirror of `FullStackMulti.sendGhost` (the ghost update `GFS.step (.srvSend ch m)` makes) -/
def gsendGhost (cid : Nat) (g : GFS) (rs' : SRenetServer) (ch : Nat) (m : Bytes) : GFS :=
  let acc := match gconn? g.rs cid, gconn? rs' cid with
    | some y0, some y1 => gAccepted y0 y1 ch
    | _, _ => false
  let off := match gconn? g.rs cid with
    | some y0 => gOfferedU y0 ch
    | none => false
  { g with rs := rs', ySeq := gtrackSeq cid rs' g.ySeq
           subS := if acc then gpush g.subS ch (toNats m) else g.subS
           subSU := if off then gpush g.subSU ch (toNats m) else g.subSU }

/-- the generated full stack with the OTHER client in the client's place -/
def GMS.asO (gm : GMS) : GFS := { gm.g with tc := gm.to, rc := gm.ro }

/-- a client operation of `GFS.step`, executed on the other client's generated transport and `RenetClient` -/
def GMS.othStep (a : AEAD) (cid : Nat) (gm : GMS) (cop : FSOp) : Option GMS :=
  match gm.asO.step a cid cop with
  | some g' => some { gm with to := g'.tc, ro := g'.rc }
  | none => none

def GMS.step (a : AEAD) (cid : Nat) (gm : GMS) : MOp → Option GMS
  | .base op =>
    match gm.g.step a cid op with
    | some g' => some { gm with g := g' }
    | none => none
  | .srvSendTo id ch m =>
    if id = cid then
      match gm.g.step a cid (.srvSend ch m) with
      | some g' => some { gm with g := g' }
      | none => none
    else
      match (RenetServer.send_message gm.g.rs id ch (toNats m) : Res Empty _) with
      | .ok (rs', _) => some { gm with g := gsetRenet cid gm.g rs' }
      | _ => none
  | .srvRecvFrom id ch =>
    if id = cid then
      match gm.g.step a cid (.srvRecv ch) with
      | some g' => some { gm with g := g' }
      | none => none
    else
      match (RenetServer.receive_message gm.g.rs id ch : Res Empty _) with
      | .ok (rs', _) => some { gm with g := gsetRenet cid gm.g rs' }
      | _ => none
  | .srvDisconnectId id =>
    if id = cid then
      match gm.g.step a cid .srvDisconnect with
      | some g' => some { gm with g := g' }
      | none => none
    else
      match (RenetServer.disconnect gm.g.rs id : Res Empty _) with
      | .ok (rs', _) => some { gm with g := gsetRenet cid gm.g rs' }
      | _ => none
  | .srvBroadcast ch m =>
    match (RenetServer.broadcast_message gm.g.rs ch (toNats m) : Res Empty _) with
    | .ok (rs', _) => some { gm with g := gsendGhost cid gm.g rs' ch m }
    | _ => none
  | .srvBroadcastExcept ex ch m =>
    match (RenetServer.broadcast_message_except gm.g.rs ex ch (toNats m) : Res Empty _) with
    | .ok (rs', _) => some { gm with g := if ex = cid then gsetRenet cid gm.g rs' else gsendGhost cid gm.g rs' ch m }
    | _ => none
  | .othSend ch m => gm.othStep a cid (.cliSend ch m)
  | .othRecv ch => gm.othStep a cid (.cliRecv ch)
  | .othTick dt => gm.othStep a cid (.cliTick dt)
  | .othDisconnect => gm.othStep a cid .cliDisconnect
  | .othUpdate d inbox => gm.othStep a cid (.cliUpdate d inbox)
  | .othSendPackets => gm.othStep a cid .cliSendPackets
  | .othTransportDisconnect => gm.othStep a cid .cliTransportDisconnect

def GMS.run (a : AEAD) (cid : Nat) (gm : GMS) : List MOp → Option GMS
  | [] => some gm
  | op :: ops =>
    match gm.step a cid op with
    | some gm' => gm'.run a cid ops
    | none => none

/-- the model operation a generated operation corresponds to (inboxes cut to the receive buffers) -/
def cutMOp : MOp → MOp
  | .base op => .base (cutOp op)
  | .othUpdate d inbox => .othUpdate d (inbox.map (recvFrom C.TRANSPORT_CLIENT_BUFFER))
  | op => op

/-! ## the simulation relation, the invariants, the side conditions -/

/-- the model full stack with the OTHER client in the client's place -/
def fsO (ms : MS) : FS := { ms.fs with c := ms.o }

structure SimMS (ms : MS) (gm : GMS) : Prop where
  fs : SimFS ms.fs gm.g
  to : ∃ rest out o buf, o.length = C.NETCODE_MAX_PACKET_BYTES ∧ buf.length = C.TRANSPORT_CLIENT_BUFFER ∧
    gm.to = ctrR rest out o ms.o.netcode buf
  ro : ∃ mrs, gm.ro = reprConn mrs ms.o.renet

structure MSGood (ms : MS) : Prop where
  fs : FSGood ms.fs
  oR : EpGood ms.o.renet
  oN : CliInv ms.o.netcode

theorem SimMS.asO {ms : MS} {gm : GMS} (sim : SimMS ms gm) : SimFS (fsO ms) gm.asO :=
  ⟨sim.to, sim.ro, sim.fs.ts, sim.fs.rs, sim.fs.emC, sim.fs.emS, sim.fs.ySeq, sim.fs.subC, sim.fs.subCU, sim.fs.obtS,
    sim.fs.subS, sim.fs.subSU, sim.fs.obtC⟩

theorem MSGood.asO {ms : MS} (hg : MSGood ms) : FSGood (fsO ms) := ⟨hg.oR, hg.fs.srv, hg.oN, hg.fs.ncS⟩

def MOpInRange (ms : MS) : MOp → Prop
  | .base op => FSOpInRange ms.fs op
  | .srvSendTo _ _ m => m.length < 2 ^ 63 ∧ SrvInRange ms.fs.s.renet
  | .srvRecvFrom _ _ => SrvInRange ms.fs.s.renet
  | .srvDisconnectId _ => True
  | .srvBroadcast _ m => m.length < 2 ^ 63 ∧ SrvInRange ms.fs.s.renet
  | .srvBroadcastExcept _ _ m => m.length < 2 ^ 63 ∧ SrvInRange ms.fs.s.renet
  | .othSend ch m => FSOpInRange (fsO ms) (.cliSend ch m)
  | .othRecv ch => FSOpInRange (fsO ms) (.cliRecv ch)
  | .othTick dt => FSOpInRange (fsO ms) (.cliTick dt)
  | .othDisconnect => True
  | .othUpdate d inbox => FSOpInRange (fsO ms) (.cliUpdate d inbox)
  | .othSendPackets => True
  | .othTransportDisconnect => True

def MOpLocalOk (a : AEAD) (ms : MS) : MOp → Prop
  | .base op => OpLocalOk a ms.fs op
  | .othUpdate d inbox => OpLocalOk a (fsO ms) (.cliUpdate d inbox)
  | .othSendPackets => OpLocalOk a (fsO ms) .cliSendPackets
  | _ => True

instance (ms : MS) (op : MOp) : Decidable (MOpInRange ms op) := by cases op <;> unfold MOpInRange <;> infer_instance
instance (a : AEAD) (ms : MS) (op : MOp) : Decidable (MOpLocalOk a ms op) := by
  cases op <;> unfold MOpLocalOk <;> infer_instance

/-! ## one step -/

theorem simFS_setRenet {cid : Nat} {fs : FS} {g : GFS} (sim : SimFS fs g) (mrss : Nat → Nat → Nat) (rs' : Server) :
    SimFS (setRenet cid fs rs') (gsetRenet cid g (reprServer mrss rs')) :=
  ⟨sim.tc, sim.rc, sim.ts, ⟨mrss, rfl⟩, sim.emC, sim.emS, by
    show gtrackSeq cid (reprServer mrss rs') g.ySeq = trackSeq cid rs' fs.ySeq
    rw [gtrackSeq_repr, sim.ySeq], sim.subC, sim.subCU, sim.obtS, sim.subS, sim.subSU, sim.obtC⟩

theorem gpush_ite_map (p : Prop) [Decidable p] (f : Nat → List Bytes) (gf : Nat → List GBytes)
    (h : ∀ c, gf c = (f c).map toNats) (ch : Nat) (m : Bytes) (c : Nat) :
    (if p then gpush gf ch (toNats m) else gf) c = ((if p then System.push f ch m else f) c).map toNats := by
  split
  · exact gpush_map _ _ h ch m c
  · exact h c

theorem simFS_sendGhost {cid : Nat} {fs : FS} {g : GFS} (sim : SimFS fs g) (mrss : Nat → Nat → Nat)
    (hrs : g.rs = reprServer mrss fs.s.renet) (rs' : Server) (ch : Nat) (m : Bytes) :
    SimFS (sendGhost cid fs rs' ch m) (gsendGhost cid g (reprServer mrss rs') ch m) := by
  have hy : gtrackSeq cid (reprServer mrss rs') g.ySeq = trackSeq cid rs' fs.ySeq := by rw [gtrackSeq_repr, sim.ySeq]
  unfold sendGhost gsendGhost
  simp only [hrs, gconn_repr, MultiSystem.conn?, hy]
  cases h0 : SMap.find? fs.s.renet.conns cid with
  | none =>
    simp only [Option.map_none]
    exact ⟨sim.tc, sim.rc, sim.ts, ⟨mrss, rfl⟩, sim.emC, sim.emS, rfl, sim.subC, sim.subCU, sim.obtS,
      fun c => by dsimp only; exact gpush_ite_map _ _ _ sim.subS ch m c,
        fun c => by dsimp only; exact gpush_ite_map _ _ _ sim.subSU ch m c, sim.obtC⟩
  | some y0 =>
    cases h1 : SMap.find? rs'.conns cid with
    | none =>
      simp only [Option.map_some, Option.map_none, gOfferedU_repr]
      exact ⟨sim.tc, sim.rc, sim.ts, ⟨mrss, rfl⟩, sim.emC, sim.emS, rfl, sim.subC, sim.subCU, sim.obtS,
        fun c => by dsimp only; exact gpush_ite_map _ _ _ sim.subS ch m c,
        fun c => by dsimp only; exact gpush_ite_map _ _ _ sim.subSU ch m c, sim.obtC⟩
    | some y1 =>
      simp only [Option.map_some, gAccepted_repr, gOfferedU_repr]
      exact ⟨sim.tc, sim.rc, sim.ts, ⟨mrss, rfl⟩, sim.emC, sim.emS, rfl, sim.subC, sim.subCU, sim.obtS,
        fun c => by dsimp only; exact gpush_ite_map _ _ _ sim.subS ch m c,
        fun c => by dsimp only; exact gpush_ite_map _ _ _ sim.subSU ch m c, sim.obtC⟩

theorem fsGood_setRenet {cid : Nat} {fs : FS} (hg : FSGood fs) {rs' : Server} (h : SGood rs') :
    FSGood (setRenet cid fs rs') := ⟨hg.cli, h, hg.ncC, hg.ncS⟩

theorem fsGood_sendGhost {cid : Nat} {fs : FS} (hg : FSGood fs) {rs' : Server} (h : SGood rs') (ch : Nat) (m : Bytes) :
    FSGood (sendGhost cid fs rs' ch m) := ⟨hg.cli, h, hg.ncC, hg.ncS⟩

/-- the other client's model operations are the client operations of `FS.step` with the other client in the client's place -/
def othAsCli : MOp → Option FSOp
  | .othSend ch m => some (.cliSend ch m)
  | .othRecv ch => some (.cliRecv ch)
  | .othTick dt => some (.cliTick dt)
  | .othDisconnect => some .cliDisconnect
  | .othUpdate d inbox => some (.cliUpdate d inbox)
  | .othSendPackets => some .cliSendPackets
  | .othTransportDisconnect => some .cliTransportDisconnect
  | _ => none

theorem oth_as_cli (a : AEAD) (cid : Nat) (ms : MS) (op : MOp) (cop : FSOp) (h : othAsCli op = some cop) :
    match (fsO ms).step a cid cop with
    | some fs' => ∃ ms', ms.step a cid op = some ms' ∧ ms'.fs = ms.fs ∧ ms'.o = fs'.c
    | none => ms.step a cid op = none := by
  cases op <;> simp only [othAsCli, Option.some.injEq, reduceCtorEq] at h <;> subst h
  case othSend ch m =>
    simp only [MS.step, MS.othStep, FS.step, fsO]
    cases ms.o.renet.sendMessage ch m with
    | ok r' => exact ⟨_, rfl, rfl, rfl⟩
    | err e => rfl
    | panic p => rfl
  case othRecv ch =>
    simp only [MS.step, MS.othStep, FS.step, fsO]
    cases ms.o.renet.receiveMessage ch with
    | ok v =>
      obtain ⟨r', o⟩ := v
      cases o with
      | none => exact ⟨_, rfl, rfl, rfl⟩
      | some m => exact ⟨_, rfl, rfl, rfl⟩
    | err e => rfl
    | panic p => rfl
  case othTick dt =>
    simp only [MS.step, MS.othStep, FS.step, fsO]
    cases ms.o.renet.update dt with
    | ok r' => exact ⟨_, rfl, rfl, rfl⟩
    | err e => rfl
    | panic p => rfl
  case othDisconnect =>
    simp only [MS.step, MS.othStep, FS.step, fsO]
    exact ⟨_, rfl, rfl, rfl⟩
  case othUpdate d inbox =>
    simp only [MS.step, MS.othStep, FS.step, fsO]
    cases clientUpdate a ms.o d inbox with
    | ok o => exact ⟨_, rfl, rfl, rfl⟩
    | err e => rfl
    | panic p => rfl
  case othSendPackets =>
    simp only [MS.step, MS.othStep, FS.step, fsO]
    cases clientSendPackets a ms.o with
    | ok v =>
      obtain ⟨res, g', out⟩ := v
      exact ⟨_, rfl, rfl, rfl⟩
    | err e => rfl
    | panic p => rfl
  case othTransportDisconnect =>
    simp only [MS.step, MS.othStep, FS.step, fsO]
    cases clientDisconnect a ms.o with
    | ok v =>
      obtain ⟨g', out⟩ := v
      exact ⟨_, rfl, rfl, rfl⟩
    | err e => rfl
    | panic p => rfl

/-- an operation of the other client: the generated step succeeds iff the model step does, the results are related -/
theorem oth_gsim (a : AEAD) (hl : a.Laws) (cid : Nat) {ms : MS} {gm : GMS} (hg : MSGood ms) (sim : SimMS ms gm)
    (op : MOp) (cop : FSOp) (hc : othAsCli (cutMOp op) = some (cutOp cop)) (hgm : gm.step a cid op = gm.othStep a cid cop)
    (hrg : FSOpInRange (fsO ms) cop) (hloc : OpLocalOk a (fsO ms) cop) :
    match ms.step a cid (cutMOp op) with
    | some ms' => ∃ gm', gm.step a cid op = some gm' ∧ SimMS ms' gm' ∧ MSGood ms'
    | none => gm.step a cid op = none := by
  have hstep := fstep_sim a hl cid hg.asO sim.asO cop hrg (opTie_of_local a hl hg.asO cop hrg hloc)
  have hmod := oth_as_cli a cid ms (cutMOp op) (cutOp cop) hc
  rw [hgm]
  unfold GMS.othStep
  cases hs : (fsO ms).step a cid (cutOp cop) with
  | none =>
    rw [hs] at hstep hmod
    rw [hmod, hstep]
  | some fs' =>
    rw [hs] at hstep hmod
    obtain ⟨g', e, s', gd'⟩ := hstep
    obtain ⟨ms', e', hfs, ho⟩ := hmod
    rw [e', e]
    refine ⟨_, rfl, ⟨?_, ?_, ?_⟩, ⟨?_, ?_, ?_⟩⟩
    · rw [hfs]; exact sim.fs
    · rw [ho]; exact s'.tc
    · rw [ho]; exact s'.rc
    · rw [hfs]; exact hg.fs
    · rw [ho]; exact gd'.cli
    · rw [ho]; exact gd'.ncC

/-- a base operation (also reached through `srvSendTo cid` etc.) -/
theorem base_gsim (a : AEAD) (hl : a.Laws) (cid : Nat) {ms : MS} {gm : GMS} (hg : MSGood ms) (sim : SimMS ms gm) (op : FSOp)
    (hrg : FSOpInRange ms.fs op) (hloc : OpLocalOk a ms.fs op) :
    match ms.fs.step a cid (cutOp op) with
    | some fs' => ∃ g', gm.g.step a cid op = some g' ∧ SimFS fs' g' ∧ FSGood fs'
    | none => gm.g.step a cid op = none :=
  fstep_sim a hl cid hg.fs sim.fs op hrg (opTie_of_local a hl hg.fs op hrg hloc)

/-- **one operation** of the several-client system: the generated step succeeds iff the model step (cut inboxes) does,
    and the results are related -/
theorem mstep_gsim (a : AEAD) (hl : a.Laws) (cid : Nat) {ms : MS} {gm : GMS} (hg : MSGood ms) (sim : SimMS ms gm) (op : MOp)
    (hrg : MOpInRange ms op) (hloc : MOpLocalOk a ms op) :
    match ms.step a cid (cutMOp op) with
    | some ms' => ∃ gm', gm.step a cid op = some gm' ∧ SimMS ms' gm' ∧ MSGood ms'
    | none => gm.step a cid op = none := by
  obtain ⟨mrss, hrs⟩ := sim.fs.rs
  have hsg := hg.fs.srv
  cases op with
  | base op =>
    have h := base_gsim a hl cid hg sim op hrg hloc
    simp only [cutMOp, MS.step, GMS.step]
    cases hs : ms.fs.step a cid (cutOp op) with
    | none => rw [hs] at h; simp only [h]
    | some fs' =>
      rw [hs] at h
      obtain ⟨g', e, s', gd'⟩ := h
      simp only [e]
      exact ⟨_, rfl, ⟨s', sim.to, sim.ro⟩, ⟨gd', hg.oR, hg.oN⟩⟩
  | srvSendTo id ch m =>
    by_cases hid : id = cid
    · subst hid
      have h := base_gsim a hl id hg sim (.srvSend ch m) hrg trivial
      simp only [cutMOp, MS.step, GMS.step, if_true]
      simp only [cutOp] at h
      cases hs : ms.fs.step a id (.srvSend ch m) with
      | none => rw [hs] at h; simp only [h]
      | some fs' =>
        rw [hs] at h
        obtain ⟨g', e, s', gd'⟩ := h
        simp only [e]
        exact ⟨_, rfl, ⟨s', sim.to, sim.ro⟩, ⟨gd', hg.oR, hg.oN⟩⟩
    · have tie := server_send_message_eq (ε := Empty) mrss ms.fs.s.renet id ch m hsg.sorted
        (fun c hf => sendMsgOk_of (hsg.find hf) (hrg.2 (id, c) (SMap.mem_of_find? hf)) ch m hrg.1)
      simp only [cutMOp, MS.step, GMS.step, if_neg hid, hrs]
      cases hm : ms.fs.s.renet.sendMessage id ch m with
      | ok rs' =>
        rw [so_map_ok tie hm]
        exact ⟨_, rfl, ⟨simFS_setRenet sim.fs mrss rs', sim.to, sim.ro⟩,
          ⟨fsGood_setRenet hg.fs (hsg.sendMessage hm), hg.oR, hg.oN⟩⟩
      | err e => exact nomatch e
      | panic msg =>
        obtain ⟨m', e⟩ := so_map_panic tie hm
        rw [e]
  | srvRecvFrom id ch =>
    by_cases hid : id = cid
    · subst hid
      have h := base_gsim a hl id hg sim (.srvRecv ch) hrg trivial
      simp only [cutMOp, MS.step, GMS.step, if_true]
      simp only [cutOp] at h
      cases hs : ms.fs.step a id (.srvRecv ch) with
      | none => rw [hs] at h; simp only [h]
      | some fs' =>
        rw [hs] at h
        obtain ⟨g', e, s', gd'⟩ := h
        simp only [e]
        exact ⟨_, rfl, ⟨s', sim.to, sim.ro⟩, ⟨gd', hg.oR, hg.oN⟩⟩
    · have tie := server_receive_message_eq (ε := Empty) mrss ms.fs.s.renet id ch hsg.sorted
        (fun c hf => recvOk_of (hsg.find hf) (hrg (id, c) (SMap.mem_of_find? hf)) ch)
      simp only [cutMOp, MS.step, GMS.step, if_neg hid, hrs]
      cases hm : ms.fs.s.renet.receiveMessage id ch with
      | ok v =>
        obtain ⟨rs', o⟩ := v
        rw [so_map_ok tie hm]
        cases o with
        | none =>
          exact ⟨_, rfl, ⟨simFS_setRenet sim.fs mrss rs', sim.to, sim.ro⟩,
            ⟨fsGood_setRenet hg.fs (hsg.receiveMessage hm), hg.oR, hg.oN⟩⟩
        | some msg =>
          exact ⟨_, rfl, ⟨simFS_setRenet sim.fs mrss rs', sim.to, sim.ro⟩,
            ⟨fsGood_setRenet hg.fs (hsg.receiveMessage hm), hg.oR, hg.oN⟩⟩
      | err e => exact nomatch e
      | panic msg =>
        obtain ⟨m', e⟩ := so_map_panic tie hm
        rw [e]
  | srvDisconnectId id =>
    by_cases hid : id = cid
    · subst hid
      have h := base_gsim a hl id hg sim .srvDisconnect trivial trivial
      simp only [cutMOp, MS.step, GMS.step, if_true]
      simp only [cutOp] at h
      cases hs : ms.fs.step a id .srvDisconnect with
      | none => rw [hs] at h; simp only [h]
      | some fs' =>
        rw [hs] at h
        obtain ⟨g', e, s', gd'⟩ := h
        simp only [e]
        exact ⟨_, rfl, ⟨s', sim.to, sim.ro⟩, ⟨gd', hg.oR, hg.oN⟩⟩
    · have e := server_disconnect_eq (ε := Empty) mrss ms.fs.s.renet id hsg.sorted
      simp only [cutMOp, MS.step, GMS.step, if_neg hid, hrs, e]
      exact ⟨_, rfl, ⟨simFS_setRenet sim.fs mrss _, sim.to, sim.ro⟩,
        ⟨fsGood_setRenet hg.fs (hsg.disconnect id), hg.oR, hg.oN⟩⟩
  | srvBroadcast ch m =>
    have tie := server_broadcast_eq (ε := Empty) mrss ms.fs.s.renet ch m
      (fun p hp => sendMsgOk_of (hsg.conns p hp) (hrg.2 p hp) ch m hrg.1)
    simp only [cutMOp, MS.step, GMS.step, hrs]
    cases hm : ms.fs.s.renet.broadcast ch m with
    | ok rs' =>
      rw [so_map_ok tie hm]
      exact ⟨_, rfl, ⟨simFS_sendGhost sim.fs mrss hrs rs' ch m, sim.to, sim.ro⟩,
        ⟨fsGood_sendGhost hg.fs (hsg.broadcast hm) ch m, hg.oR, hg.oN⟩⟩
    | err e => exact nomatch e
    | panic msg =>
      obtain ⟨m', e⟩ := so_map_panic tie hm
      rw [e]
  | srvBroadcastExcept ex ch m =>
    have tie := server_broadcast_except_eq (ε := Empty) mrss ms.fs.s.renet ex ch m
      (fun p hp _ => sendMsgOk_of (hsg.conns p hp) (hrg.2 p hp) ch m hrg.1)
    simp only [cutMOp, MS.step, GMS.step, hrs]
    cases hm : ms.fs.s.renet.broadcastExcept ex ch m with
    | ok rs' =>
      rw [so_map_ok tie hm]
      by_cases hex : ex = cid
      · simp only [if_pos hex]
        exact ⟨_, rfl, ⟨simFS_setRenet sim.fs mrss rs', sim.to, sim.ro⟩,
          ⟨fsGood_setRenet hg.fs (hsg.broadcastExcept hm), hg.oR, hg.oN⟩⟩
      · simp only [if_neg hex]
        exact ⟨_, rfl, ⟨simFS_sendGhost sim.fs mrss hrs rs' ch m, sim.to, sim.ro⟩,
          ⟨fsGood_sendGhost hg.fs (hsg.broadcastExcept hm) ch m, hg.oR, hg.oN⟩⟩
    | err e => exact nomatch e
    | panic msg =>
      obtain ⟨m', e⟩ := so_map_panic tie hm
      rw [e]
  | othSend ch m => exact oth_gsim a hl cid hg sim (.othSend ch m) (.cliSend ch m) rfl rfl hrg trivial
  | othRecv ch => exact oth_gsim a hl cid hg sim (.othRecv ch) (.cliRecv ch) rfl rfl hrg trivial
  | othTick dt => exact oth_gsim a hl cid hg sim (.othTick dt) (.cliTick dt) rfl rfl hrg trivial
  | othDisconnect => exact oth_gsim a hl cid hg sim .othDisconnect .cliDisconnect rfl rfl trivial trivial
  | othUpdate d inbox => exact oth_gsim a hl cid hg sim (.othUpdate d inbox) (.cliUpdate d inbox) rfl rfl hrg hloc
  | othSendPackets => exact oth_gsim a hl cid hg sim .othSendPackets .cliSendPackets rfl rfl trivial hloc
  | othTransportDisconnect => exact oth_gsim a hl cid hg sim .othTransportDisconnect .cliTransportDisconnect rfl rfl trivial trivial

/-! ## runs -/

/-- **the side condition of a run** (decidable) -/
def MSRunOK (a : AEAD) (cid : Nat) (ms : MS) : List MOp → Prop
  | [] => True
  | op :: ops => MOpInRange ms op ∧ MOpLocalOk a ms op ∧
      match ms.step a cid (cutMOp op) with
      | some ms' => MSRunOK a cid ms' ops
      | none => True

instance decMSRunOK (a : AEAD) (cid : Nat) : ∀ (ms : MS) (ops : List MOp), Decidable (MSRunOK a cid ms ops)
  | _, [] => isTrue trivial
  | ms, op :: ops => by
    unfold MSRunOK
    have : Decidable (match ms.step a cid (cutMOp op) with | some ms' => MSRunOK a cid ms' ops | none => True) := by
      cases ms.step a cid (cutMOp op) with
      | none => exact isTrue trivial
      | some ms' => exact decMSRunOK a cid ms' ops
    infer_instance

theorem mrun_gsim_from (a : AEAD) (hl : a.Laws) (cid : Nat) : ∀ (ops : List MOp) (ms : MS) (gm : GMS), MSGood ms →
    SimMS ms gm → MSRunOK a cid ms ops →
    match ms.run a cid (ops.map cutMOp) with
    | some ms' => ∃ gm', gm.run a cid ops = some gm' ∧ SimMS ms' gm' ∧ MSGood ms'
    | none => gm.run a cid ops = none := by
  intro ops
  induction ops with
  | nil => intro ms gm hg hsim _; exact ⟨gm, rfl, hsim, hg⟩
  | cons op ops ih =>
    intro ms gm hg hsim hok
    obtain ⟨hrg, hloc, hrest⟩ := hok
    have hstep := mstep_gsim a hl cid hg hsim op hrg hloc
    simp only [List.map_cons, MS.run, GMS.run]
    cases hs : ms.step a cid (cutMOp op) with
    | none =>
      rw [hs] at hstep
      simp only [hstep]
    | some ms' =>
      rw [hs] at hstep hrest
      obtain ⟨gm', e, hsim', hg'⟩ := hstep
      simp only [e]
      exact ih ms' gm' hg' hsim' hrest

/-- model → generated: the generated run exists and ends in a related state -/
theorem mrun_gsim (a : AEAD) (hl : a.Laws) (cid : Nat) (ops : List MOp) (ms0 ms : MS) (gm0 : GMS) (hg : MSGood ms0)
    (hsim : SimMS ms0 gm0) (hok : MSRunOK a cid ms0 ops) (hr : ms0.run a cid (ops.map cutMOp) = some ms) :
    ∃ gm, gm0.run a cid ops = some gm ∧ SimMS ms gm ∧ MSGood ms := by
  have := mrun_gsim_from a hl cid ops ms0 gm0 hg hsim hok
  rw [hr] at this
  exact this

/-- generated → model -/
theorem mrun_gsim_conv (a : AEAD) (hl : a.Laws) (cid : Nat) (ops : List MOp) (ms0 : MS) (gm0 gm : GMS) (hg : MSGood ms0)
    (hsim : SimMS ms0 gm0) (hok : MSRunOK a cid ms0 ops) (hr : gm0.run a cid ops = some gm) :
    ∃ ms, ms0.run a cid (ops.map cutMOp) = some ms ∧ SimMS ms gm ∧ MSGood ms := by
  have := mrun_gsim_from a hl cid ops ms0 gm0 hg hsim hok
  cases hm : ms0.run a cid (ops.map cutMOp) with
  | none => rw [hm] at this; rw [hr] at this; cases this
  | some ms =>
    rw [hm] at this
    obtain ⟨gm', e, hs, hgd⟩ := this
    rw [hr] at e; cases e
    exact ⟨ms, rfl, hs, hgd⟩

/-- the canonical generated representation of a model state -/
def gmOf (ms : MS) : GMS :=
  { g := gOf ms.fs
    to := ctrR [] #[] (List.replicate C.NETCODE_MAX_PACKET_BYTES 0) ms.o.netcode (List.replicate C.TRANSPORT_CLIENT_BUFFER 0)
    ro := reprConn (fun _ => 0) ms.o.renet }

theorem simMS_gmOf (ms : MS) : SimMS ms (gmOf ms) :=
  ⟨simFS_gOf ms.fs, ⟨[], #[], _, _, List.length_replicate, List.length_replicate, rfl⟩, ⟨_, rfl⟩⟩

/-! ## the theorems of C20M about the generated code -/

/-- **C01, several clients, generated code.**  After every run of the generated several-client stack from (the
    representation of) a state in which `cid`'s session is established: on every ReliableOrdered channel of `cid`'s link,
    in both directions, what the generated receiver handed to its application is a prefix of what the sending application
    submitted to the generated sender — whatever the other generated client, the server application's per-id calls and
    broadcasts (generated `RenetServer`), and the adversary do. -/
theorem src_multi_ordered_prefix (a : AEAD) (hl : a.Laws) (cfg : Cfg) (cid : Nat) (ms0 : MS) (gm0 gm : GMS) (ops : List MOp)
    (he : Established cfg cid ms0.fs) (hgood : MSGood ms0) (hsim : SimMS ms0 gm0) (hr : gm0.run a cid ops = some gm)
    (hok : MSRunOK a cid ms0 ops) (hnf : MNoForgeryRunD a cid ms0 (ops.map cutMOp))
    (hss : MSingleSessionRun a cid ms0 (ops.map cutMOp)) :
    (GCountersUp cfg gm.g → ∀ ch, cfg.Ordered ch → gm.g.obtS ch <+: gm.g.subC ch) ∧
    (GCountersDown cfg gm.g → ∀ ch, (Cfg.swap cfg).Ordered ch → gm.g.obtC ch <+: gm.g.subS ch) := by
  obtain ⟨ms, hm, sim, -⟩ := mrun_gsim_conv a hl cid ops ms0 gm0 gm hgood hsim hok hr
  obtain ⟨h1, h2⟩ := C20M.multi_ordered_prefix a hl cfg cid ms0 ms _ he hm hnf hss
  constructor
  · intro hc ch ho
    rw [sim.fs.obtS, sim.fs.subC]
    exact (h1 (countersUp_of_sim sim.fs hc) ch ho).map toNats
  · intro hc ch ho
    rw [sim.fs.obtC, sim.fs.subS]
    exact (h2 (countersDown_of_sim sim.fs hc) ch ho).map toNats

theorem mem_map_toNats {l l' : List Bytes} (h : ∀ x ∈ l, x ∈ l') : ∀ y ∈ l.map toNats, y ∈ l'.map toNats := by
  intro y hy
  obtain ⟨x, hx, rfl⟩ := List.mem_map.mp hy
  exact List.mem_map.mpr ⟨x, h x hx, rfl⟩

/-- **C03, several clients, generated code.** -/
theorem src_multi_integrity (a : AEAD) (hl : a.Laws) (cfg : Cfg) (cid : Nat) (ms0 : MS) (gm0 gm : GMS) (ops : List MOp)
    (he : Established cfg cid ms0.fs) (hgood : MSGood ms0) (hsim : SimMS ms0 gm0) (hr : gm0.run a cid ops = some gm)
    (hok : MSRunOK a cid ms0 ops) (hnf : MNoForgeryRunD a cid ms0 (ops.map cutMOp))
    (hss : MSingleSessionRun a cid ms0 (ops.map cutMOp)) :
    (GCountersUp cfg gm.g →
      (∀ ch, cfg.Ordered ch ∨ cfg.Unordered ch → ∀ x ∈ gm.g.obtS ch, x ∈ gm.g.subC ch) ∧
      (∀ ch, cfg.Unreliable ch → ∀ x ∈ gm.g.obtS ch, x ∈ gm.g.subCU ch)) ∧
    (GCountersDown cfg gm.g →
      (∀ ch, (Cfg.swap cfg).Ordered ch ∨ (Cfg.swap cfg).Unordered ch → ∀ x ∈ gm.g.obtC ch, x ∈ gm.g.subS ch) ∧
      (∀ ch, (Cfg.swap cfg).Unreliable ch → ∀ x ∈ gm.g.obtC ch, x ∈ gm.g.subSU ch)) := by
  obtain ⟨ms, hm, sim, -⟩ := mrun_gsim_conv a hl cid ops ms0 gm0 gm hgood hsim hok hr
  obtain ⟨h1, h2⟩ := C20M.multi_integrity a hl cfg cid ms0 ms _ he hm hnf hss
  constructor
  · intro hc
    obtain ⟨q1, q2⟩ := h1 (countersUp_of_sim sim.fs hc)
    refine ⟨fun ch hk => ?_, fun ch hk => ?_⟩
    · rw [sim.fs.obtS, sim.fs.subC]; exact mem_map_toNats (q1 ch hk)
    · rw [sim.fs.obtS, sim.fs.subCU]; exact mem_map_toNats (q2 ch hk)
  · intro hc
    obtain ⟨q1, q2⟩ := h2 (countersDown_of_sim sim.fs hc)
    refine ⟨fun ch hk => ?_, fun ch hk => ?_⟩
    · rw [sim.fs.obtC, sim.fs.subS]; exact mem_map_toNats (q1 ch hk)
    · rw [sim.fs.obtC, sim.fs.subSU]; exact mem_map_toNats (q2 ch hk)

/-! ## non-vacuity: the generated several-client stack EVALUATED by the kernel on the two-client session of `C20M.Ex`

  Start state `gmOf ms0`: the generated representation of the model state after client 7's handshake, with client 9's
  generated transport fresh from `NetcodeClient::new`.  The kernel runs the 38 operations of `C20M.Ex.ops` through the
  generated code — client 9's handshake through the generated `NetcodeServerTransport::update`, the generated
  `broadcast_message`, `broadcast_message_except`, `send_message(9, …)`, both clients' traffic, client 9's disconnect, client
  7 continuing — and the theorems above are APPLIED to that run with every hypothesis discharged. -/
namespace Ex
open RenetVerif.C20

abbrev ms0 := C20M.Ex.ms0
abbrev ops := C20M.Ex.ops
abbrev cfg := C20F.Ex.cfg

/-- the model invariants of the other client's two layers (fresh from `NetcodeClient::new` / `RenetClient::new`) -/
theorem o0_good : CliInv C20M.Ex.o0.netcode ∧ EpGood C20M.Ex.o0.renet := by
  have e : C20M.Ex.o0.renet = Conn.fromChannels 60000 exChans exChans := by decide +kernel
  refine ⟨⟨by decide +kernel, by decide +kernel, fun _ => by decide +kernel⟩, ?_⟩
  rw [e]; exact epGood_fromChannels _ _ _

theorem ms0_good : MSGood ms0 := ⟨SrcPropsFullStack.Ex.fs0_good, o0_good.2, o0_good.1⟩

def gfin : GMS := ((gmOf ms0).run toyAead 7 ops).getD (gmOf ms0)

/-- no datagram of the run is longer than a receive buffer -/
theorem cut_ops : ops.map cutMOp = ops := by decide +kernel
/-- the side condition of the run, decided by evaluation -/
theorem runOK : MSRunOK toyAead 7 ms0 ops := by decide +kernel

/-- ONE kernel evaluation of the generated run: it returns normally; what the generated code did (the observations of
    `C20M.Ex.all`, read off the generated state); the counter conditions -/
theorem gall :
    ((gmOf ms0).run toyAead 7 ops).isSome = true ∧
    (gfin.g.subC 1 = [[1, 2, 3], [6]] ∧ gfin.g.obtS 1 = [[1, 2, 3], [6]] ∧
      gfin.g.subS 1 = [[5, 5], [2], [9, 9], [8]] ∧ gfin.g.obtC 1 = [[5, 5], [2], [9, 9], [8]]) ∧
    (gfin.g.rc.packet_sequence ≤ Varint.MAX + 1 ∧ gfin.g.ySeq ≤ Varint.MAX + 1 ∧
      (∀ c ∈ cfg.send, c.id < 256 ∧ (gfin.g.subC c.id).length ≤ Varint.MAX + 1 ∧
        (gfin.g.subS c.id).length ≤ Varint.MAX + 1) ∧
      (∀ c ∈ cfg.send, ∀ m ∈ gfin.g.subC c.id ++ gfin.g.subCU c.id ++ gfin.g.subS c.id ++ gfin.g.subSU c.id,
        m.length ≤ MAX_NUM_SLICES * SLICE_SIZE)) := by
  decide +kernel

theorem grun : (gmOf ms0).run toyAead 7 ops = some gfin := some_getD gall.1 _

theorem gcountersUp : GCountersUp cfg gfin.g := by
  obtain ⟨h1, -, h3, h4⟩ := gall.2.2
  refine ⟨fun c hc => (h3 c hc).1, h1, fun c hc => (h3 c hc).2.1, fun c hc m hm => h4 c hc m ?_, fun c hc m hm => h4 c hc m ?_⟩
  · simp only [List.mem_append]; exact Or.inl (Or.inl (Or.inl hm))
  · simp only [List.mem_append]; exact Or.inl (Or.inl (Or.inr hm))

theorem gcountersDown : GCountersDown cfg gfin.g := by
  obtain ⟨-, h2, h3, h4⟩ := gall.2.2
  refine ⟨fun c hc => (h3 c hc).1, h2, fun c hc => (h3 c hc).2.2, fun c hc m hm => h4 c hc m ?_, fun c hc m hm => h4 c hc m ?_⟩
  · simp only [List.mem_append]; exact Or.inl (Or.inr hm)
  · simp only [List.mem_append]; exact Or.inr hm

/-- **`src_multi_ordered_prefix` applied** to the generated run (all hypotheses discharged), both directions -/
example : gfin.g.obtS 1 <+: gfin.g.subC 1 ∧ gfin.g.obtC 1 <+: gfin.g.subS 1 :=
  let h := src_multi_ordered_prefix toyAead toyAead_laws cfg 7 ms0 (gmOf ms0) gfin ops C20M.Ex.established ms0_good
    (simMS_gmOf ms0) grun runOK (by rw [cut_ops]; exact C20M.Ex.noForgery) (by rw [cut_ops]; exact C20M.Ex.singleSession)
  ⟨h.1 gcountersUp 1 C20F.Ex.ordered1, h.2 gcountersDown 1 C20F.Ex.ordered1'⟩

/-- **`src_multi_integrity` applied**: server → client 7, channel 1 -/
example : ∀ x ∈ gfin.g.obtC 1, x ∈ gfin.g.subS 1 :=
  ((src_multi_integrity toyAead toyAead_laws cfg 7 ms0 (gmOf ms0) gfin ops C20M.Ex.established ms0_good
    (simMS_gmOf ms0) grun runOK (by rw [cut_ops]; exact C20M.Ex.noForgery) (by rw [cut_ops]; exact C20M.Ex.singleSession)).2
    gcountersDown).1 1 (Or.inl C20F.Ex.ordered1')

/-- what the generated code did: client 7 obtained both broadcasts, the except-9 broadcast and its own message, in order,
    and not the message addressed to client 9; the server obtained client 7's two messages -/
example : gfin.g.subC 1 = [[1, 2, 3], [6]] ∧ gfin.g.obtS 1 = [[1, 2, 3], [6]] ∧
    gfin.g.subS 1 = [[5, 5], [2], [9, 9], [8]] ∧ gfin.g.obtC 1 = [[5, 5], [2], [9, 9], [8]] := gall.2.1

end Ex

end RenetVerif.SrcPropsFullStackMulti
