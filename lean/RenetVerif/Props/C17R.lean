/-
  The real cipher.  Every netcode theorem of this development is stated for an arbitrary `a : AEAD` under the
  functional laws `a.Laws` (and, where needed, range authenticity `Auth a`).  `AEAD.chacha` is the
  ChaCha20-Poly1305 / XChaCha20-Poly1305 of the compiled driver (`Netcode/ChaCha2.lean`: RFC 8439 + XChaCha
  draft; validated against their test vectors in `Netcode/ChaCha2Test.lean` and, byte for byte, against the
  RustCrypto `chacha20poly1305` crate by every netcode correspondence run).  Here it is shown to satisfy both
  hypotheses, so the theorems hold of the model *with the real cipher*, not only of the toy instance:

    * `chacha_laws`  : open ∘ seal = id, |seal p| = |p| + 16, |open c| + 16 = |c|   (both nonce sizes)
    * `chacha_exact` : `open k n ad c = some p ↔ c = seal k n ad p` — the tag comparison covers all 16 bytes and
                       the whole ciphertext; nothing but a sealed string opens (this is exactness of the
                       verification, NOT unforgeability: that a third party cannot *find* such a string without
                       the key is the cryptographic assumption on Poly1305, never a theorem here)
    * `chacha_auth`  : `Auth AEAD.chacha`
  and the headline wire theorems are instantiated.
-/
import RenetVerif.Lemmas.ChaChaLaws
import RenetVerif.Netcode.ChaCha2Test
import RenetVerif.Props.C17
import RenetVerif.Props.C16N
namespace RenetVerif.C17R
open RenetVerif RenetVerif.Netcode RenetVerif.NcAead

theorem chacha_laws : AEAD.chacha.Laws := AEAD.chacha_laws

theorem chacha_exact (k n ad c p : Bytes) : AEAD.chacha.open k n ad c = some p ↔ c = AEAD.chacha.seal k n ad p :=
  ChaChaLaws.open_eq_some_iff k n ad c p

theorem chacha_xexact (k n ad c p : Bytes) : AEAD.chacha.xopen k n ad c = some p ↔ c = AEAD.chacha.xseal k n ad p :=
  ChaChaLaws.xopen_eq_some_iff k n ad c p

theorem chacha_auth : C17.Auth AEAD.chacha := by
  intro k n ad c h
  cases ho : AEAD.chacha.open k n ad c with
  | none => exact absurd ho h
  | some p => exact ⟨p, (chacha_exact k n ad c p).1 ho⟩

/-- wire round trip with the real cipher: what `encode` seals, `decode` opens to the same packet and sequence -/
theorem packet_roundtrip_chacha (p : Netcode.Packet) (hwf : p.WF) (hp : p.packetType ≠ .connectionRequest)
    (seq : Nat) (hseq : seq < 2 ^ 64) (key : Bytes) (proto cap : Nat) (bytes : Bytes)
    (henc : p.encode AEAD.chacha cap proto (some (seq, key)) = .ok bytes) :
    Netcode.Packet.decode AEAD.chacha bytes proto (some key) none = (.ok (seq, p), none) :=
  C16N.packet_roundtrip AEAD.chacha chacha_laws p hwf hp seq hseq key proto cap bytes henc

/-- with the real cipher, every datagram that decodes to a sealed kind IS a `seal` output under the same key, the
    sequence its own bytes spell, the protocol id and its own prefix byte -/
theorem decode_authentic_chacha (buf : Bytes) (proto : Nat) (key : Bytes) (rp rp' : Option RP)
    (seq : Nat) (p : Netcode.Packet)
    (h : Netcode.Packet.decode AEAD.chacha buf proto (some key) rp = (.ok (seq, p), rp'))
    (hp : p.packetType ≠ .connectionRequest) :
    ∃ pfx seqbytes plain, seqbytes.length = pfx.toNat / 16 ∧ seq = leVal seqbytes ∧
      buf = pfx :: (seqbytes ++ AEAD.chacha.seal key (Netcode.Packet.nonce seq)
        (Netcode.Packet.additionalData pfx proto) plain) :=
  C17.decode_authentic AEAD.chacha chacha_auth buf proto key rp rp' seq p h hp

end RenetVerif.C17R
