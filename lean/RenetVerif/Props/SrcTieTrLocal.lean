/-
  Source tie, transports, with a LOCAL renet-side condition (usable for LIVE sessions).

  `SrcTieTrClosed.lean` states the transport ties for a range predicate `Rg` with `RangeClosed Rg`.  That hypothesis cannot hold
  of a live connection: `RangeClosed.gp` keeps `Rg` along every `get_packets_to_send`, `RangeClosed.send` makes `Rg` imply
  `SendRange`, in particular `flushSeq ≤ 2^60`; but every flush of a connected `RenetClient` with a non-empty `pending_acks`
  emits an ack packet, i.e. increments `packet_sequence` by at least one, and leaves `pending_acks` non-empty; so from
  `Rg c` one gets `Rg (flush^n c)` and `packetSeq c + n ≤ flushSeq (flush^n c) ≤ 2^60` for every `n` — false for `n > 2^60`.
  (And `RangeClosed.pp` forces the same for a connection without pending acks: any well-formed packet makes them non-empty.)

  Here the renet side of each tie is: the model invariants (`SGood` / `EpGood`: ARE invariants, established by
  `RenetServer::new` / `from_channels` and kept by every operation) and the LOCAL condition of the one call, defined by recursion
  over the model's run of that call and decidable by evaluation (`Lemmas/SrcEquiv/TrLocal.lean`):
    `SrvUpdateOk`   every `process_packet_from` of the receive loop and of the two id loops finds its connection in `ConnInRange`
    `SendLoopOk`    the connection flushed in each round of `send_packets` is in `ConnInRange`
    `IdLoopOk`      (for `disconnect_all`; `disconnect` never surfaces a payload, so this is about nothing but is cheap)
    `CliUpdateOk`   every payload the client's receive loop surfaces finds the `RenetClient` in `ConnInRange`
    client `send_packets`: the `RenetClient` is in `ConnInRange` (when the netcode client is not disconnected)
  The netcode side is `NS.ServerInv` / `CliInv` as in `SrcTieTrInv.lean`.  `NetcodeClientTransport::disconnect` needs nothing
  (`ctr_disconnect`).  The relations: `RsRel s g := SGood s ∧ ∃ mrss, g = reprServer mrss s`,
  `RcRel c g := EpGood c ∧ ∃ mrs, g = reprConn mrs c`.
-/
import RenetVerif.Lemmas.SrcEquiv.TrLocal
set_option maxRecDepth 10000
namespace RenetVerif.SrcTie
open RenetVerif RenetVerif.SrcEquiv RenetVerif.RustSem RenetVerif.Netcode RenetVerif.Transport RenetVerif.SrcSystem RenetVerif.SrcMulti
open Src.renet_netcode.server Src.renet_netcode.client

/-- the graded simulations hold for the relations "model invariants ∧ generated = repr (model)" with no further hypothesis -/
theorem rn_sim_local : RnSimL RsRel := rnSimL_rel
theorem rc_sim_local : RcSimL RcRel := rcSimL_rel

/-- `NetcodeServerTransport::update`, local condition `SrvUpdateOk` -/
theorem tr_update_local (a : AEAD) (hl : a.Laws) (g : ServerGlue) (mrss : Nat → Nat → Nat) (hi : NS.ServerInv g.netcode)
    (hg : SGood g.renet) (duration : Nat) (inbox : List Dgram) (hin : inbox.length + 1 < 2 ^ 64) (out : Array Dgram)
    (o buf : List Nat) (ho : o.length = C.NETCODE_MAX_PACKET_BYTES) (hb : buf.length = C.TRANSPORT_SERVER_BUFFER)
    (hok : SrvUpdateOk a g duration (inbox.map (recvFrom C.TRANSPORT_SERVER_BUFFER)) out) :
    TrOut RsRel NS.ServerInv [] C.TRANSPORT_SERVER_BUFFER
      (serverUpdateFrom a g duration (inbox.map (recvFrom C.TRANSPORT_SERVER_BUFFER)) out)
      (@NetcodeServerTransport.update (aeadOf a) (trR inbox out o g.netcode buf) duration (reprServer mrss g.renet)) :=
  tr_update_eqL a hl rnSimL_rel (ncInv_serverInv a) g _ hi ⟨hg, mrss, rfl⟩ duration inbox hin out o buf ho hb hok

/-- `NetcodeServerTransport::send_packets`, local condition `SendLoopOk` -/
theorem tr_send_packets_local {ε : Type} (a : AEAD) (hl : a.Laws) (g : ServerGlue) (mrss : Nat → Nat → Nat)
    (hi : NS.ServerInv g.netcode) (hg : SGood g.renet) (inbox : List Dgram) (out : Array Dgram) (o buf : List Nat)
    (ho : o.length = C.NETCODE_MAX_PACKET_BYTES) (hok : SendLoopOk a g g.renet.clientsId out) :
    TrOut (ε := ε) RsRel NS.ServerInv inbox buf.length (serverSendLoop a g g.renet.clientsId out)
      (@NetcodeServerTransport.send_packets (aeadOf a) ε (trR inbox out o g.netcode buf) (reprServer mrss g.renet)) :=
  tr_send_packets_eqL a hl rnSimL_rel (ncInv_serverInv a) g _ hi ⟨hg, mrss, rfl⟩ inbox out o buf ho hok

/-- `NetcodeServerTransport::disconnect_all`, local condition `IdLoopOk` -/
theorem tr_disconnect_all_local {ε : Type} (a : AEAD) (hl : a.Laws) (g : ServerGlue) (mrss : Nat → Nat → Nat)
    (hi : NS.ServerInv g.netcode) (hg : SGood g.renet) (inbox : List Dgram) (out : Array Dgram) (o buf : List Nat)
    (ho : o.length = C.NETCODE_MAX_PACKET_BYTES)
    (hok : IdLoopOk (fun ns id => ns.disconnect a id) g g.netcode.clientsId out) :
    TrOut (ε := ε) RsRel NS.ServerInv inbox buf.length (serverIdLoop (fun ns id => ns.disconnect a id) g g.netcode.clientsId out)
      (@NetcodeServerTransport.disconnect_all (aeadOf a) ε (trR inbox out o g.netcode buf) (reprServer mrss g.renet)) :=
  tr_disconnect_all_eqL a hl rnSimL_rel (ncInv_serverInv a) g _ hi ⟨hg, mrss, rfl⟩ inbox out o buf ho hok

/-- `NetcodeClientTransport::update`, local condition `CliUpdateOk` -/
theorem ctr_update_local (a : AEAD) (hl : a.Laws) (g : ClientGlue) (mrs : Nat → Nat) (hi : CliInv g.netcode) (hg : EpGood g.renet)
    (duration : Nat) (inbox : List Dgram) (hin : inbox.length + 1 < 2 ^ 64) (out : Array Dgram) (o buf : List Nat)
    (ho : o.length = C.NETCODE_MAX_PACKET_BYTES) (hb : buf.length = C.TRANSPORT_CLIENT_BUFFER)
    (hok : CliUpdateOk a g (inbox.map (recvFrom C.TRANSPORT_CLIENT_BUFFER))) :
    match clientUpdateFrom a g duration (inbox.map (recvFrom C.TRANSPORT_CLIENT_BUFFER)) out with
    | .ok r => ∃ rest, rest.map (recvFrom C.TRANSPORT_CLIENT_BUFFER) = r.rest ∧
        CliTrOut RcRel CliInv C.TRANSPORT_CLIENT_BUFFER r.result r.g r.out rest
          (@NetcodeClientTransport.update (aeadOf a) (ctrR inbox out o g.netcode buf) duration (reprConn mrs g.renet))
    | .err e => nomatch e
    | .panic _ => ∃ msg, @NetcodeClientTransport.update (aeadOf a) (ctrR inbox out o g.netcode buf) duration
        (reprConn mrs g.renet) = .panic msg :=
  ctr_update_eqL a hl rcSimL_rel (ncCInv_cliInv a) g _ hi ⟨hg, mrs, rfl⟩ duration inbox hin out o buf ho hb hok

/-- `NetcodeClientTransport::send_packets`, local condition: the `RenetClient` in range when the netcode client is live -/
theorem ctr_send_packets_local (a : AEAD) (hl : a.Laws) (g : ClientGlue) (mrs : Nat → Nat) (hi : CliInv g.netcode)
    (hg : EpGood g.renet) (inbox : List Dgram) (out : Array Dgram) (o buf : List Nat)
    (ho : o.length = C.NETCODE_MAX_PACKET_BYTES) (hok : g.netcode.disconnectReason = none → ConnInRange g.renet) :
    match clientSendPacketsFrom a g out with
    | .ok (res, g', out') => CliTrOut RcRel CliInv buf.length res g' out' inbox
        (@NetcodeClientTransport.send_packets (aeadOf a) (ctrR inbox out o g.netcode buf) (reprConn mrs g.renet))
    | .err e => nomatch e
    | .panic _ => ∃ msg, @NetcodeClientTransport.send_packets (aeadOf a) (ctrR inbox out o g.netcode buf)
        (reprConn mrs g.renet) = .panic msg :=
  ctr_send_packets_eqL a hl rcSimL_rel (ncCInv_cliInv a) g _ hi ⟨hg, mrs, rfl⟩ inbox out o buf ho hok

end RenetVerif.SrcTie
