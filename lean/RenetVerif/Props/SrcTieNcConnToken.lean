/-
  Source tie, group NcConnToken: `renetcode/src/token.rs` `ConnectToken::{write, read}`, `PrivateConnectToken::{write, read}`
  and `get_additional_data` ↔ `Netcode.ConnectToken.{writeTo, read}`, `Netcode.PrivateConnectToken.{writeTo, read,
  additionalData}` of `Netcode/Token.lean`.

  `reprTok` / `reprPTok` map model tokens to the generated structs (`i32` timeouts are `Int`s, the address array via
  `reprAddrs`).  Writers and readers are stated over the `io::Cursor` models with the state carried by an `Err`
  forgotten (`Res.forget`, see `Props/SrcTieNcAddr.lean`); the readers additionally drop the final cursor, which the model
  does not return.  `tokErr` maps the two errors of `ConnectToken::read` (`InvalidVersion`, `IoError`).
-/
import RenetVerif.Lemmas.SrcEquiv.NcConnToken
namespace RenetVerif.SrcTie
open RenetVerif RenetVerif.SrcEquiv RenetVerif.RustSem

/-- `ConnectToken::write`: the cursor of the model writer, or `io::Error` exactly when the model writer fails -/
theorem nc_conn_token_write {w : Netcode.Wr} {tail : List Nat} (h : WrOk w tail) (t : Netcode.ConnectToken)
    (hlen : t.serverAddresses.length < 2 ^ 32) :
    (Src.renetcode.token.ConnectToken.write (reprTok t) (wcur w tail)).forget =
      match t.writeTo w with
      | some w' => .ok (wcur w' (tail.drop (tokBytes t).length), ())
      | none => .err .opaque := by
  rw [tok_write_forget _ (cinv_wcur h) _ hlen, wres_wcur h, tok_writeTo_eq]
  cases w.writeAll (tokBytes t) <;> rfl

/-- `PrivateConnectToken::write` -/
theorem nc_private_token_write {w : Netcode.Wr} {tail : List Nat} (h : WrOk w tail) (t : Netcode.PrivateConnectToken)
    (hlen : t.serverAddresses.length < 2 ^ 32) :
    (Src.renetcode.token.PrivateConnectToken.write (reprPTok t) (wcur w tail)).forget =
      match t.writeTo w with
      | some w' => .ok (wcur w' (tail.drop (ptokBytes t).length), ())
      | none => .err .opaque := by
  rw [ptok_write_forget _ (cinv_wcur h) _ hlen, wres_wcur h, ptok_writeTo_eq]
  cases w.writeAll (ptokBytes t) <;> rfl

/-- `ConnectToken::read` on any input -/
theorem nc_conn_token_read {rest buf : Bytes} (h : rest <:+ buf) :
    mapRes (fun x => x.2) id (Src.renetcode.token.ConnectToken.read (rcur buf rest)).forget =
      mapRes reprTok tokErr (Netcode.ConnectToken.read rest) :=
  tok_read_forget h

/-- `PrivateConnectToken::read` on any input -/
theorem nc_private_token_read {rest buf : Bytes} (h : rest <:+ buf) :
    mapRes (fun x => x.2) id (Src.renetcode.token.PrivateConnectToken.read (rcur buf rest)).forget =
      match Netcode.PrivateConnectToken.read rest with
      | some t => .ok (reprPTok t)
      | none => .err .opaque :=
  ptok_read_forget h

/-- token.rs `get_additional_data` -/
theorem nc_token_additional_data {ε : Type} (protocolId expireTimestamp : Nat) :
    (Src.renetcode.token.get_additional_data protocolId expireTimestamp : Res ε _) =
      .ok (toNats (Netcode.PrivateConnectToken.additionalData protocolId expireTimestamp)) :=
  tok_additional_data_eq protocolId expireTimestamp

/-- a private token (timeout -1, one IPv4 address) -/
def exPTok : Src.renetcode.token.PrivateConnectToken :=
  ⟨7, -1, some (.v4 [10, 0, 0, 1] 9) :: List.replicate 31 none, List.replicate 32 1, List.replicate 32 2, List.replicate 256 3⟩

/-- round trip through the generated writer and reader -/
example :
    (match Src.renetcode.token.PrivateConnectToken.write exPTok ⟨List.replicate 400 0, 0⟩ with
     | .ok (c, ()) => mapRes (fun x : ReadCursor × Src.renetcode.token.PrivateConnectToken => x.2) id
         (Src.renetcode.token.PrivateConnectToken.read ⟨c.buf, 0⟩).forget
     | _ => (.err IoError.opaque : Res IoError Src.renetcode.token.PrivateConnectToken)) = .ok exPTok := by
  decide +kernel
/-- a version string that is not "NETCODE 1.02\0" is `InvalidVersion` -/
example : (Src.renetcode.token.ConnectToken.read ⟨List.replicate 21 0, 0⟩).forget = .err .InvalidVersion := by
  decide +kernel
example : (Src.renetcode.token.ConnectToken.read ⟨List.replicate 20 0, 0⟩).forget = .err (.IoError .opaque) := by
  decide +kernel

end RenetVerif.SrcTie
