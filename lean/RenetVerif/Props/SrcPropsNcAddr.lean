/-
  C07 (hostile input never panics) stated DIRECTLY about the generated `read_server_addresses` of
  `Generated/Src/NcAddr.lean` (derived from `renetcode/src/token.rs`).  The model reader
  (`Netcode.readServerAddresses : Bytes → Option …`, total by its type) appears only in the proof: `SrcTieNcAddr.nc_addr_read`.
-/
import RenetVerif.Props.SrcTieNcAddr
import RenetVerif.Lemmas.SrcCorollaries
namespace RenetVerif.SrcCor
open RenetVerif RenetVerif.SrcEquiv RenetVerif.RustSem

/-- every generated read cursor over bytes, positioned inside its buffer, is the cursor of a model suffix -/
theorem rcur_ofNats (l : List Nat) (hl : BytesOk l) (pos : Nat) (hpos : pos ≤ l.length) :
    rcur (ofNats l) ((ofNats l).drop pos) = ⟨l, pos⟩ := by
  have hlen : (ofNats l).length = l.length := by simp [ofNats]
  simp only [rcur, toNats_ofNats hl, List.length_drop, hlen]
  congr 1
  omega

theorem drop_suffix {α : Type} (l : List α) (n : Nat) : l.drop n <:+ l := List.drop_suffix n l

end RenetVerif.SrcCor

namespace RenetVerif.SrcProps
open RenetVerif RenetVerif.SrcEquiv RenetVerif.SrcTie RenetVerif.SrcCor RenetVerif.RustSem
open Src.renetcode.token

/-- **C07, `read_server_addresses` never panics**: on EVERY byte list and every cursor position inside it — any
    announced count (clamped to the 32 slots), any address type byte, truncated records — the generated reader returns
    the address array or an `io::Error`. -/
theorem nc_read_server_addresses_never_panics (l : List Nat) (hl : BytesOk l) (pos : Nat) (hpos : pos ≤ l.length) :
    NoPanic (read_server_addresses ⟨l, pos⟩) := by
  have h := nc_addr_read (rest := (ofNats l).drop pos) (buf := ofNats l) (drop_suffix _ _)
  rw [rcur_ofNats l hl pos hpos] at h
  rw [← noPanic_forget, h]
  cases Netcode.readServerAddresses ((ofNats l).drop pos) with
  | none => exact noPanic_err _
  | some x => exact noPanic_ok _

/-- whatever it accepts has exactly the 32 slots of the Rust array and a first address -/
example : NoPanic (read_server_addresses ⟨[33, 0, 0, 0] ++ (List.replicate 33 [1, 10, 0, 0, 1, 1, 0]).flatten, 0⟩) :=
  nc_read_server_addresses_never_panics _ (by decide +kernel) 0 (Nat.zero_le _)
/-- hostile inputs evaluated on the generated text: count 2^32-1 with no records, unknown address type, empty input -/
example : (read_server_addresses ⟨[255, 255, 255, 255], 0⟩).forget = .err .opaque := by decide +kernel
example : (read_server_addresses ⟨[1, 0, 0, 0, 9, 1, 2, 3, 4, 5, 6], 0⟩).forget = .err .opaque := by decide +kernel
example : (read_server_addresses ⟨[], 0⟩).forget = .err .opaque := by decide +kernel
example : okSnd (read_server_addresses ⟨[1, 0, 0, 0, 1, 127, 0, 0, 1, 0x88, 0x13, 99], 0⟩) =
    some (some (.v4 [127, 0, 0, 1] 5000) :: List.replicate 31 none) := by decide +kernel

end RenetVerif.SrcProps
