/-
  Source tie, group NcToken: `renetcode/src/packet.rs` `ChallengeToken::{new, read, write}` over the cursor models
  ↔ the reader / writer steps of `Netcode.ChallengeToken.{decode, generate}` (`readCT` = `readU64` then
  `readN NETCODE_USER_DATA_BYTES`; `writeCT` = `Wr.writeAll (leBytes client_id 8)` then `Wr.writeAll user_data`).
  (`ConnectToken` / `PrivateConnectToken` / server-address (de)serialisation and `Packet::{write, read}` are NOT
  translated: see the stage-2 report.)
-/
import RenetVerif.Lemmas.SrcEquiv.NcToken
namespace RenetVerif.SrcTie
open RenetVerif RenetVerif.SrcEquiv RenetVerif.RustSem Netcode

/-- `ChallengeToken::read` at any cursor position -/
theorem nc_challenge_token_read (buf rest : Bytes) (h : rest <:+ buf) :
    Src.renetcode.packet.ChallengeToken.read (rcur buf rest) = rdRes buf reprCT (readCT rest) :=
  challenge_read_eq h

/-- `ChallengeToken::write` at any cursor position: both `write_all`s as in the model; on `WriteZero` the error
    carries the cursor filled to the end of the buffer (`wfull`) -/
theorem nc_challenge_token_write (w : Wr) (tail : List Nat) (h : WrOk w tail) (t : Netcode.ChallengeToken) :
    Src.renetcode.packet.ChallengeToken.write (reprCT t) (wcur w tail) =
      match w.writeAll (leBytes t.clientId 8) with
      | none => .err (.opaque, wfull w tail (leBytes t.clientId 8))
      | some w1 =>
        match w1.writeAll t.userData with
        | none => .err (.opaque, wfull w1 (tail.drop 8) t.userData)
        | some w' => .ok (wcur w' (tail.drop (8 + t.userData.length)), ()) :=
  challenge_write_eq h t

/-- … it fails exactly when the model writer `writeCT` fails -/
theorem nc_challenge_token_write_fails_iff (w : Wr) (tail : List Nat) (h : WrOk w tail) (t : Netcode.ChallengeToken) :
    (∃ e, Src.renetcode.packet.ChallengeToken.write (reprCT t) (wcur w tail) = .err e) ↔ writeCT t w = none :=
  challenge_write_ok h t

/-- `ChallengeToken::new` -/
theorem nc_challenge_token_new {ε : Type} (clientId : Nat) (userData : Bytes) :
    (Src.renetcode.packet.ChallengeToken.new clientId (toNats userData) : Res ε _) = .ok (reprCT ⟨clientId, userData⟩) :=
  challenge_new_eq clientId userData

example : Src.renetcode.packet.ChallengeToken.write ⟨0x0102, [7, 8]⟩ (WriteCursor.new (List.replicate 12 0)) =
    .ok (⟨[2, 1, 0, 0, 0, 0, 0, 0, 7, 8, 0, 0], 10⟩, ()) := by decide +kernel
example : Src.renetcode.packet.ChallengeToken.write ⟨0x0102, [7, 8]⟩ (WriteCursor.new (List.replicate 9 0)) =
    .err (.opaque, ⟨[2, 1, 0, 0, 0, 0, 0, 0, 7], 9⟩) := by
  decide +kernel
example : Src.renetcode.packet.ChallengeToken.read (ReadCursor.new (List.replicate 263 0)) =
    .err (.opaque, ⟨List.replicate 263 0, 263⟩) := by
  decide +kernel
example : Src.renetcode.packet.ChallengeToken.read (ReadCursor.new ([5, 0, 0, 0, 0, 0, 0, 0] ++ List.replicate 256 3)) =
    .ok (⟨[5, 0, 0, 0, 0, 0, 0, 0] ++ List.replicate 256 3, 264⟩, ⟨5, List.replicate 256 3⟩) := by decide +kernel

end RenetVerif.SrcTie
