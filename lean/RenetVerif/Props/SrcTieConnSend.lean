/-
  Source tie, group ConnSend: `renet/src/remote_connection.rs` `RenetClient::get_packets_to_send`
  ↔ `Conn.getPacketsToSend` of `Renet/Conn.lean`.

  The whole function is covered: the early return of a disconnected client, the loop over `channel_send_order`
  (`get_mut(channel_id).unwrap()` on the send tables, the calls into `SendChannelReliable::get_packets_to_send` /
  `SendChannelUnreliable::get_packets_to_send` with the shared packet sequence and byte budget, `append`), the ack
  packet, the `sent_packets` bookkeeping (one entry per packet; `ack_ranges.last().unwrap()`, `last_range.end - 1`)
  and the serialisation of every packet through `Packet::to_bytes` into the 1400-byte scratch buffer
  (`OctetsMut::with_slice(&mut buffer)`, `bytes_sent += len as u64`, `buffer[..len].to_vec()`), a serialisation error
  disconnecting the client and returning no packets.  The statistics statement
  (`self.stats.sent_packets(..)`, an ignored field) is dropped.
  `reprConn mrs c` as in `SrcTieConn.lean`; the result is the new client and the serialised packets.
-/
import RenetVerif.Lemmas.SrcEquiv.ConnSend
namespace RenetVerif.SrcTie
open RenetVerif RenetVerif.SrcEquiv RenetVerif.RustSem
open Src.renet.remote_connection

/-- `SendOk c` (decidable along the model's run): what keeps the Rust integers in range —
    * `ChanLoopOk`: for each channel of the send order, in the state the model's loop reaches it: the hypotheses of the
      channel theorems (`SrcTieSendRel` / `SrcTieSendUnrel`: unacked entries well formed against the clock, the
      packet sequence has room for the packets that will be built, memory counters consistent);
    * after the loop: the sequence has room for the ack packet, every packet of the tick has a defined model
      encoding (varints `< 2^62`, ack ranges non-empty and ordered) and `bytes_sent: u64` cannot overflow.
    A missing channel, an empty or zero-ended last ack range are NOT excluded: both sides panic there. -/
theorem conn_get_packets_to_send {ε : Type} (mrs : Nat → Nat) (c : Conn) (hok : SendOk c) :
    SameOutcome (RenetClient.get_packets_to_send (reprConn mrs c) : Res ε _)
      (mapRes (fun x => (reprConn mrs x.1, x.2.map toNats)) (fun e => nomatch e) c.getPacketsToSend) :=
  conn_get_packets_eq mrs c hok

/-- a connected client at t = 1000 ns, next packet sequence 5: one reliable channel with one queued, never sent message
    and the pending ack range 3..5 -/
def exSend : RenetClient :=
  ⟨5, 1000, [], [⟨3, 5⟩], [.Reliable 1], [], [], [(1, ⟨1, [(0, .Small [7, 8] none)], 1, 100, 4, 2⟩)], [], 60000, .Connected⟩

/-- packet 5 carries the message (now marked as sent at 1000), packet 6 the acks; both are recorded in `sent_packets` -/
example : (RenetClient.get_packets_to_send exSend : Res Empty _) =
    .ok ({ exSend with
            packet_sequence := 7,
            sent_packets := [(5, ⟨1000, .ReliableMessages 1 [0]⟩), (6, ⟨1000, .Ack 4⟩)],
            send_reliable_channels := [(1, ⟨1, [(0, .Small [7, 8] (some 1000))], 1, 100, 4, 2⟩)] },
         [[0, 5, 1, 0, 1, 0, 2, 7, 8], [4, 6, 4, 1, 0]]) := by decide +kernel
/-- a disconnected client sends nothing and does not change -/
example : (RenetClient.get_packets_to_send { exSend with connection_status := .Disconnected .Transport } : Res Empty _) =
    .ok ({ exSend with connection_status := .Disconnected .Transport }, []) := by decide +kernel
/-- a channel of the send order that is missing from the table: `unwrap()` panics -/
example : ∃ s, (RenetClient.get_packets_to_send { exSend with channel_send_order := [.Reliable 2] } : Res Empty _) = .panic s :=
  ⟨_, rfl⟩
/-- a last ack range ending at 0: `last_range.end - 1` underflows -/
example : ∃ s, (RenetClient.get_packets_to_send { exSend with pending_acks := [⟨0, 0⟩] } : Res Empty _) = .panic s :=
  ⟨_, rfl⟩

end RenetVerif.SrcTie
