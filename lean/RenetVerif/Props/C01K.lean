/-
  C01 — LIVENESS, the closed k-ROUND bound (budget smaller than the backlog), at SYSTEM level.

  Props/C01L.lean proves what ONE lossless round does — everything when the per-tick budget covers the whole backlog
  (`round_delivers`, `bounded_delivery`), the covered prefix otherwise (`progress_per_tick_partial`) — and that B's
  acknowledgements release what was delivered (`acks_release_after_round`).  Here these are ITERATED into one
  theorem about k rounds.  Definitions and proofs: Lemmas/LivenessK.lean.

  A FULL LOSSLESS ROUND for the reliable channel `ch` from A to B, with parameters `r : RoundP`, is the operation list

      r.ops ch  =  updA r.dt ; flushA ; deliverToB k (k ∈ r.ks) ; recvB ch (r.n times) ; flushB ; deliverToA r.ai

  A's clock advances; A flushes; the network hands B the datagrams of that flush; B's application drains the
  channel; B flushes; the network hands A the last datagram of that flush (B's ack packet).
  `roundsOps ch rs` concatenates the rounds `rs`.

  STANDING HYPOTHESES, on the state `s` the first round starts from (any state reachable by `Sys.run`):
    neither endpoint is disconnected; H3 `Room (s.submitted ch) rB` (B's receive channel has room for every submitted
    message that has not arrived yet — see C01L; it is PRESERVED by the rounds, so it is assumed only once).
  PER-ROUND SIDE CONDITIONS `Rounds cfg ch Sched s rs`: for every round `r`, in the state `s'` the previous rounds lead
  to (`RoundOK`) and the state `su` after its `updA` (`TickOK`):
    timer     `r.dt ≥ resend_time` of the channel (so everything stored is due: H1 by `due_after_update`),
    drain     `r.n` calls suffice: `|submitted| ≤ |obtained| + r.n`,
    counters  `CountersOK cfg su`, `su.a.CountersOK` (nothing reaches 2^62 in this flush),
    all/exact `r.ks` lists exactly the datagrams of this flush (any order, repetitions allowed): lossless,
    cap       B holds fewer than ACK_RANGE_CAP = 64 pending ack ranges (beyond it the Rust code forgets to acknowledge),
    back      after the drain B's counters are in range, B has something to acknowledge, and `r.ai` is the index of
              the last datagram of B's flush,
    sched     the scheduling hypothesis `Sched su` of the theorem at hand:
                `SchedBytes ch B su`  H4 (the flush carries only channel `ch` and acks) and H2 in the form
                                      `B ≤ availAtTurn su.a ch` (at least `B` bytes are left at the channel's turn);
                `SchedCount ch q su`  H4 and H2 for the `q` oldest entries: `backlog (unacked.take q) ≤ availAtTurn`;
                nothing               for a configuration whose only A → B channel is `ch` (`Single cfg ch`): there
                                      `availAtTurn = available_bytes_per_tick` and H4 is automatic.
  The side conditions of later rounds are stated as implications (`∀ v, s.run (r.ops ch) = some v → …`): that the run
  does not panic is a CONCLUSION.  They are decidable on concrete states (`roundsb`, `rounds_of_b`).

  WHAT "THE BUDGET COVERS A MESSAGE" MEANS.  `backlog` (C01L) counts a small message with its length and a sliced
  message with `SLICE_SIZE` per slice not yet acknowledged — the code accepts a slice only while
  `available_bytes ≥ SLICE_SIZE`, whatever its real length.  The UNITS of transmission are the small messages and the
  single slices, in id order, the slices of one message in the order of its slice loop (from the round-robin cursor);
  every unit costs at most `SLICE_SIZE`.  A flush that is offered `B` bytes emits the longest prefix of units whose
  cost fits (`getPackets_cover_part`) — all of them, or so many that less than one unit of budget is unused.  A sliced
  message larger than the budget is thus sent over several rounds; what was acknowledged is not sent again.

  RESULTS (ReliableOrdered channel unless said otherwise).
    k_round_delivery         every round offers the channel at least `B ≥ SLICE_SIZE` bytes: after `k ≥ 1` rounds with
                             `k * (B - SLICE_SIZE + 1) ≥ backlog`, `obtained = submitted`, in order, nothing panicked,
                             nobody disconnected.  ANY messages, small or sliced.
    k_round_delivery_single  the same for a single-channel configuration: `B = available_bytes_per_tick ≥ SLICE_SIZE`,
                             no H2/H4 hypothesis at all.
    k_round_delivery_cost    sharper when all stored entries are cheap: every entry costs at most `c`, every round
                             offers at least `B ≥ c` bytes (`B < SLICE_SIZE` allowed): `k * (B - c + 1) ≥ backlog`.
    k_round_delivery_entries counting entries instead of bytes: every round covers the `q ≥ 1` oldest entries (q = 1:
                             "the budget covers the oldest stored message"): `k * q ≥` number of stored entries.
    k_round_delivery_unordered
                             ReliableUnordered channel, same hypotheses and bound as `k_round_delivery`: `obtained`
                             is a permutation of `submitted` (C02's liveness clause).  (All of LivenessK is generic in
                             the channel kind — `KindOf`, `Delivered` —; only this instance is restated here.)
    full_round               one full round covering the `q` oldest entries: both endpoints stay live, H3 is kept,
                             `obtained` stays a prefix of `submitted`, only uncovered entries remain in A's `unacked`,
                             none more expensive; if all entries were covered, `obtained = submitted`.

  NOT PROVED (what the names do not promise).
    * Tightness.  A round is credited with `B - SLICE_SIZE + 1` bytes (resp. `B - c + 1`), the worst case of the greedy
      prefix, not with what it really carried; `ExS` and `ExB` below finish one round before the bound.
    * The `back` side condition `pendingAcks ≠ []` is assumed per round, not derived (it holds whenever B received a
      datagram it has not seen acknowledged; checked by evaluation in the examples); likewise the counter conditions
      are assumed per round rather than derived from a bound on the initial counters.
-/
import RenetVerif.Lemmas.LivenessK
namespace RenetVerif.C01K
open RenetVerif C RenetVerif.System RenetVerif.Live RenetVerif.LiveK

/-- **C01 liveness, k rounds (bytes, any messages).**  From any reachable state with both endpoints live and room at B
    (H3): if every one of the full lossless rounds `rs` offers channel `ch` at least `B ≥ SLICE_SIZE` bytes at its turn
    and carries nothing else (`SchedBytes`), then after `k = rs.length ≥ 1` rounds with
    `k * (B - SLICE_SIZE + 1) ≥ backlog` nothing has panicked, both endpoints are live, and B's application has
    obtained exactly the submitted messages, in order. -/
theorem k_round_delivery (cfg : Cfg) (ops : List SysOp) (s : Sys) (hr : (Sys.init cfg).run ops = some s)
    (hda : s.a.isDisconnected = false) (hdb : s.b.isDisconnected = false)
    (ch : Nat) (ho : cfg.Ordered ch) (sA : SendRel) (hfA : SMap.find? s.a.sendRel ch = some sA)
    (rB : RecvRel) (hfB : SMap.find? s.b.recvRel ch = some rB) (H3 : Room (s.submitted ch) rB)
    (B : Nat) (hSB : SLICE_SIZE ≤ B)
    (rs : List RoundP) (hR : Rounds cfg ch (SchedBytes ch B) s rs)
    (hk1 : rs ≠ []) (hk : backlog sA.unacked ≤ rs.length * (B - SLICE_SIZE + 1)) :
    ∃ u, s.run (roundsOps ch rs) = some u ∧ u.a.isDisconnected = false ∧ u.b.isDisconnected = false ∧
      u.submitted ch = s.submitted ch ∧ u.obtained ch = s.submitted ch :=
  rounds_bytes_any cfg ops s hr hda hdb ch true ho sA hfA rB hfB H3 B hSB (SchedBytes ch B) (fun _ _ _ h => h) rs hR hk1 hk

/-- **C01 liveness, k rounds, single-channel configuration**: the only A → B channel is the ReliableOrdered channel
    `ch`; the budget is `available_bytes_per_tick ≥ SLICE_SIZE`; no scheduling hypothesis is left (`Sched = True`). -/
theorem k_round_delivery_single (cfg : Cfg) (ops : List SysOp) (s : Sys) (hr : (Sys.init cfg).run ops = some s)
    (hda : s.a.isDisconnected = false) (hdb : s.b.isDisconnected = false)
    (ch : Nat) (hsingle : Single cfg ch) (sA : SendRel) (hfA : SMap.find? s.a.sendRel ch = some sA)
    (rB : RecvRel) (hfB : SMap.find? s.b.recvRel ch = some rB) (H3 : Room (s.submitted ch) rB)
    (hSB : SLICE_SIZE ≤ cfg.budget)
    (rs : List RoundP) (hR : Rounds cfg ch (fun _ => True) s rs)
    (hk1 : rs ≠ []) (hk : backlog sA.unacked ≤ rs.length * (cfg.budget - SLICE_SIZE + 1)) :
    ∃ u, s.run (roundsOps ch rs) = some u ∧ u.a.isDisconnected = false ∧ u.b.isDisconnected = false ∧
      u.submitted ch = s.submitted ch ∧ u.obtained ch = s.submitted ch :=
  rounds_bytes_any_single cfg ops s hr hda hdb ch hsingle sA hfA rB hfB H3 hSB rs hR hk1 hk

/-- **C02 liveness, k rounds (ReliableUnordered channel).**  The same bound: every round offers channel `ch` at least
    `B ≥ SLICE_SIZE` bytes; after `k ≥ 1` rounds with `k * (B - SLICE_SIZE + 1) ≥ backlog` B's application has
    obtained every submitted message exactly once (a permutation of the submission log). -/
theorem k_round_delivery_unordered (cfg : Cfg) (ops : List SysOp) (s : Sys) (hr : (Sys.init cfg).run ops = some s)
    (hda : s.a.isDisconnected = false) (hdb : s.b.isDisconnected = false)
    (ch : Nat) (ho : cfg.Unordered ch) (sA : SendRel) (hfA : SMap.find? s.a.sendRel ch = some sA)
    (rB : RecvRel) (hfB : SMap.find? s.b.recvRel ch = some rB) (H3 : Room (s.submitted ch) rB)
    (B : Nat) (hSB : SLICE_SIZE ≤ B)
    (rs : List RoundP) (hR : Rounds cfg ch (SchedBytes ch B) s rs)
    (hk1 : rs ≠ []) (hk : backlog sA.unacked ≤ rs.length * (B - SLICE_SIZE + 1)) :
    ∃ u, s.run (roundsOps ch rs) = some u ∧ u.a.isDisconnected = false ∧ u.b.isDisconnected = false ∧
      u.submitted ch = s.submitted ch ∧ (u.obtained ch).Perm (s.submitted ch) :=
  rounds_bytes_any cfg ops s hr hda hdb ch false ho sA hfA rB hfB H3 B hSB (SchedBytes ch B) (fun _ _ _ h => h) rs hR hk1 hk

/-- **k rounds, cheap entries.**  Every stored entry costs at most `c` bytes and every round offers channel `ch` at
    least `B ≥ c` bytes: `k = rs.length ≥ 1` rounds with `k * (B - c + 1) ≥ backlog` deliver everything. -/
theorem k_round_delivery_cost (cfg : Cfg) (ops : List SysOp) (s : Sys) (hr : (Sys.init cfg).run ops = some s)
    (hda : s.a.isDisconnected = false) (hdb : s.b.isDisconnected = false)
    (ch : Nat) (ho : cfg.Ordered ch) (sA : SendRel) (hfA : SMap.find? s.a.sendRel ch = some sA)
    (rB : RecvRel) (hfB : SMap.find? s.b.recvRel ch = some rB) (H3 : Room (s.submitted ch) rB)
    (B c : Nat) (hcB : c ≤ B) (hcost : ∀ x ∈ sA.unacked, entryCost x.2 ≤ c)
    (rs : List RoundP) (hR : Rounds cfg ch (SchedBytes ch B) s rs)
    (hk1 : rs ≠ []) (hk : backlog sA.unacked ≤ rs.length * (B - c + 1)) :
    ∃ u, s.run (roundsOps ch rs) = some u ∧ u.a.isDisconnected = false ∧ u.b.isDisconnected = false ∧
      u.submitted ch = s.submitted ch ∧ u.obtained ch = s.submitted ch :=
  rounds_bytes cfg ops s hr hda hdb ch true ho sA hfA rB hfB H3 B c hcB hcost (SchedBytes ch B) (fun _ _ _ h => h) rs hR hk1 hk

/-- **k rounds, entry count.**  Every round offers channel `ch` a budget that covers the `q` oldest entries of A's
    `unacked` (`SchedCount`; `q = 1`: the oldest stored message): `k = rs.length ≥ 1` rounds with `k * q ≥` number of
    stored entries deliver everything. -/
theorem k_round_delivery_entries (cfg : Cfg) (ops : List SysOp) (s : Sys) (hr : (Sys.init cfg).run ops = some s)
    (hda : s.a.isDisconnected = false) (hdb : s.b.isDisconnected = false)
    (ch : Nat) (ho : cfg.Ordered ch) (sA : SendRel) (hfA : SMap.find? s.a.sendRel ch = some sA)
    (rB : RecvRel) (hfB : SMap.find? s.b.recvRel ch = some rB) (H3 : Room (s.submitted ch) rB)
    (q : Nat) (rs : List RoundP) (hR : Rounds cfg ch (SchedCount ch q) s rs)
    (hk1 : rs ≠ []) (hk : sA.unacked.length ≤ rs.length * q) :
    ∃ u, s.run (roundsOps ch rs) = some u ∧ u.a.isDisconnected = false ∧ u.b.isDisconnected = false ∧
      u.submitted ch = s.submitted ch ∧ u.obtained ch = s.submitted ch :=
  rounds_count cfg ops s hr hda hdb ch true ho sA hfA rB hfB H3 q rs hR hk1 hk

/-- **One full lossless round** covering the `q` oldest entries of A's `unacked` on channel `ch`. -/
theorem full_round (cfg : Cfg) (ops : List SysOp) (s : Sys) (hr : (Sys.init cfg).run ops = some s)
    (hda : s.a.isDisconnected = false) (hdb : s.b.isDisconnected = false)
    (ch : Nat) (ho : cfg.Ordered ch) (sA : SendRel) (hfA : SMap.find? s.a.sendRel ch = some sA)
    (rB : RecvRel) (hfB : SMap.find? s.b.recvRel ch = some rB) (H3 : Room (s.submitted ch) rB)
    (dt : Nat) (hdt : sA.resend ≤ dt) (su : Sys) (hsu : s.step (.updA dt) = some su)
    (hc : CountersOK cfg su) (hcA : su.a.CountersOK)
    (q : Nat) (H2 : backlog (sA.unacked.take q) ≤ availAtTurn su.a ch)
    (H4 : ∀ p ∈ flushPk su.a, OnlyCh ch p)
    (ks : List Nat) (hks1 : ∀ k ∈ newIdx su, k ∈ ks) (hks2 : ∀ k ∈ ks, k ∈ newIdx su)
    (n : Nat) (hn : (s.submitted ch).length ≤ (s.obtained ch).length + n)
    (hcap : su.b.pendingAcks.length + ks.length < ACK_RANGE_CAP)
    (ai : Nat)
    (hB : ∀ u, su.run (roundOps ch ks n) = some u → u.b.CountersOK ∧ u.b.pendingAcks ≠ [] ∧ ai = ackIdx u) :
    ∃ v, s.run (fullRoundOps ch dt ks n ai) = some v ∧
      v.a.isDisconnected = false ∧ v.b.isDisconnected = false ∧ v.submitted = s.submitted ∧
      s.obtained ch <+: v.obtained ch ∧ v.obtained ch <+: s.submitted ch ∧
      (∃ rB', SMap.find? v.b.recvRel ch = some rB' ∧ Room (s.submitted ch) rB') ∧
      (∃ sA', SMap.find? v.a.sendRel ch = some sA' ∧
        ∀ x ∈ sA'.unacked, ∃ u0, (x.1, u0) ∈ sA.unacked.drop q ∧ entryCost x.2 ≤ entryCost u0) ∧
      (sA.unacked.drop q = [] → v.obtained ch = s.submitted ch) := by
  obtain ⟨v, h1, h2, h3, h4, h5, h6, h7, ⟨sA', hf', -, hemb, -, -⟩, h9⟩ :=
    LiveK.full_round cfg ops s hr hda hdb ch true ho sA hfA rB hfB H3 dt hdt su hsu hc hcA q H2 H4 ks hks1 hks2 n hn hcap ai hB
  refine ⟨v, h1, h2, h3, h4, h5, h6 rfl, h7, ⟨sA', hf', ?_⟩, h9⟩
  intro x hx
  obtain ⟨u0, h0, hs0⟩ := hemb x hx
  exact ⟨u0, h0, entryCost_le_of_shrunk hs0⟩

/-! ## non-vacuity: concrete runs evaluated by the kernel

  `ExS` — single-channel configuration (ReliableOrdered channel 0 each way), 3000 bytes per tick, resend time 100 ns.
  A submits a 3-byte message (cost 3) and a 3700-byte message (4 slices, cost 4800): backlog 4803 > 3000.  The sliced
  entry NEVER fits into one tick's budget; it is sent over two rounds, two slices each.
  `k_round_delivery_single`: `k * (3000 - 1200 + 1) ≥ 4803` holds for `k = 3`.
  Round 1 = `updA 1000 ; flushA (outA[0..2]: the small packet, slices 0, 1) ; deliverToB 0, 1, 2 ; recvB 0 twice ;
  flushB (outB[0]) ; deliverToA 0`; round 2 carries slices 2, 3 and A's ack packet (`outA[3..5]`, `outB[1]`) and
  completes the delivery; round 3 finds only A's ack packet to send (`outA[6]`, `outB[2]`). -/
namespace ExS

def cfg : Cfg := ⟨3000, [⟨0, .ordered, 100000, 100⟩], [⟨0, .ordered, 100000, 100⟩]⟩
def m0 : Bytes := [1, 2, 3]
def m1 : Bytes := List.replicate 3600 7 ++ List.replicate 100 9
def ops : List SysOp := [.sendA 0 m0, .sendA 0 m1]
def r1 : RoundP := ⟨1000, [0, 1, 2], 2, 0⟩
def r2 : RoundP := ⟨1000, [3, 4, 5], 2, 1⟩
def r3 : RoundP := ⟨1000, [6], 2, 2⟩

def s : Sys := ((Sys.init cfg).run ops).getD (Sys.init cfg)
theorem run_s : (Sys.init cfg).run ops = some s := some_getD (by decide +kernel) _
def sA : SendRel := (SMap.find? s.a.sendRel 0).getD (SendRel.new 0 0 0)
theorem find_sA : SMap.find? s.a.sendRel 0 = some sA := some_getD (by decide +kernel) _
def rB : RecvRel := (SMap.find? s.b.recvRel 0).getD (RecvRel.new 0 true)
theorem find_rB : SMap.find? s.b.recvRel 0 = some rB := some_getD (by decide +kernel) _

theorem single0 : Single cfg 0 := ⟨_, _, rfl⟩

/-- the standing hypotheses, and the numbers: backlog 4803 > 3000 = budget; the sliced entry alone costs 4800 -/
theorem start : s.a.isDisconnected = false ∧ s.b.isDisconnected = false ∧ Room (s.submitted 0) rB ∧
    backlog sA.unacked = 4803 ∧ sA.unacked.map (fun x => (x.1, entryCost x.2)) = [(0, 3), (1, 4800)] ∧
    availAtTurn s.a 0 = 3000 ∧ s.submitted 0 = [m0, m1] ∧ s.obtained 0 = [] := by decide +kernel

/-- the side conditions of the three rounds (timer, drain, counters, lossless delivery, ack cap, the way back), each
    checked in the state the run reaches -/
theorem rounds : Rounds cfg 0 (fun _ => True) s [r1, r2, r3] :=
  rounds_of_b (schedb := fun _ => true) (fun _ _ => trivial) _ _ (by decide +kernel)

/-- **`k_round_delivery_single` applied with `k = 3`**: `4803 ≤ 3 * (3000 - 1200 + 1)` -/
theorem delivered : ∃ u, s.run (roundsOps 0 [r1, r2, r3]) = some u ∧ u.a.isDisconnected = false ∧
    u.b.isDisconnected = false ∧ u.submitted 0 = s.submitted 0 ∧ u.obtained 0 = s.submitted 0 :=
  k_round_delivery_single cfg ops s run_s start.1 start.2.1 0 single0 sA find_sA rB find_rB start.2.2.1 (by decide)
    [r1, r2, r3] rounds (by simp) (by rw [start.2.2.2.1]; decide)

/-- what the kernel computes for that run: after round 1 `[m0]` is obtained and A still stores entry 1 at the cost of
    two slices; after round 2 both messages are obtained and A stores nothing -/
example : (s.run (roundsOps 0 [r1])).map (fun u => (u.obtained 0,
      (SMap.find? u.a.sendRel 0).map (fun x => x.unacked.map (fun e => (e.1, entryCost e.2))))) =
      some ([m0], some [(1, 2400)]) ∧
    (s.run (roundsOps 0 [r1, r2])).map (fun u => (u.obtained 0, (SMap.find? u.a.sendRel 0).map (·.unacked.length))) =
      some ([m0, m1], some 0) := by decide +kernel

end ExS

/-! `ExK` — the configuration of `C01L.ExP`: 1300 bytes per tick; A submits a 3-byte message (entry 0, cost 3) and a
    1300-byte message (entry 1: two slices, cost 2400).  The backlog (2403 bytes) exceeds the budget; two entries are
    stored, every round covers the oldest one (`q = 1`), so `k_round_delivery_entries` gives `k = 2` rounds.
    (In round 2 entry 1 costs only 1200 bytes: round 1 carried its slice 0 in the 1297 bytes left over, and B
    acknowledged it.  The byte bound `k_round_delivery` would ask for `k * 101 ≥ 2403` here.) -/
namespace ExK

def cfg : Cfg := ⟨1300, [⟨0, .ordered, 100000, 100⟩], [⟨0, .ordered, 100000, 100⟩]⟩
def m0 : Bytes := [1, 2, 3]
def m1 : Bytes := List.replicate 1200 7 ++ List.replicate 100 9
def ops : List SysOp := [.sendA 0 m0, .sendA 0 m1]
def r1 : RoundP := ⟨1000, [0, 1], 2, 0⟩
def r2 : RoundP := ⟨1000, [2, 3], 2, 1⟩

def s : Sys := ((Sys.init cfg).run ops).getD (Sys.init cfg)
theorem run_s : (Sys.init cfg).run ops = some s := some_getD (by decide +kernel) _
def sA : SendRel := (SMap.find? s.a.sendRel 0).getD (SendRel.new 0 0 0)
theorem find_sA : SMap.find? s.a.sendRel 0 = some sA := some_getD (by decide +kernel) _
def rB : RecvRel := (SMap.find? s.b.recvRel 0).getD (RecvRel.new 0 true)
theorem find_rB : SMap.find? s.b.recvRel 0 = some rB := some_getD (by decide +kernel) _

theorem ordered0 : cfg.Ordered 0 := ⟨⟨_, List.mem_singleton.mpr rfl, rfl, rfl⟩, by decide⟩

theorem start : s.a.isDisconnected = false ∧ s.b.isDisconnected = false ∧ Room (s.submitted 0) rB ∧
    sA.unacked.length = 2 ∧ backlog sA.unacked = 2403 ∧ availAtTurn s.a 0 = 1300 ∧
    s.submitted 0 = [m0, m1] ∧ s.obtained 0 = [] := by decide +kernel

/-- the side conditions of both rounds, H2 for the oldest entry and H4 among them -/
theorem rounds : Rounds cfg 0 (SchedCount 0 1) s [r1, r2] :=
  rounds_of_b (schedCount_of_b 0 1) _ _ (by decide +kernel)

/-- **`k_round_delivery_entries` applied with `q = 1`, `k = 2`** -/
theorem delivered : ∃ u, s.run (roundsOps 0 [r1, r2]) = some u ∧ u.a.isDisconnected = false ∧
    u.b.isDisconnected = false ∧ u.submitted 0 = s.submitted 0 ∧ u.obtained 0 = s.submitted 0 :=
  k_round_delivery_entries cfg ops s run_s start.1 start.2.1 0 ordered0 sA find_sA rB find_rB start.2.2.1 1 [r1, r2]
    rounds (by simp) (by rw [start.2.2.2.1]; decide)

example : (s.run (roundsOps 0 [r1])).map (fun u => (u.obtained 0,
      (SMap.find? u.a.sendRel 0).map (fun x => x.unacked.map (fun e => (e.1, entryCost e.2))))) =
      some ([m0], some [(1, 1200)]) ∧
    (s.run (roundsOps 0 [r1, r2])).map (fun u => (u.obtained 0, (SMap.find? u.a.sendRel 0).map (·.unacked.length))) =
      some ([m0, m1], some 0) := by decide +kernel

end ExK

/-! `ExB` — 1000 bytes per tick (less than one slice); A submits five 400-byte messages: backlog 2000 bytes, every entry
    costs `c = 400`.  `k_round_delivery_cost` with `B = 1000`: `k * (1000 - 400 + 1) ≥ 2000` holds for `k = 4`.
    (The run needs three rounds — two messages fit per tick, packed into one datagram —; the fourth finds nothing left
    to send but A's ack packet.)  The first three rounds satisfy `k_round_delivery_entries` with `q = 2`: `3 * 2 ≥ 5`. -/
namespace ExB

def cfg : Cfg := ⟨1000, [⟨0, .ordered, 100000, 100⟩], [⟨0, .ordered, 100000, 100⟩]⟩
def msg (b : UInt8) : Bytes := List.replicate 400 b
def ops : List SysOp := [.sendA 0 (msg 1), .sendA 0 (msg 2), .sendA 0 (msg 3), .sendA 0 (msg 4), .sendA 0 (msg 5)]
def r1 : RoundP := ⟨1000, [0], 5, 0⟩
def r2 : RoundP := ⟨1000, [1, 2], 5, 1⟩
def r3 : RoundP := ⟨1000, [3, 4], 5, 2⟩
def r4 : RoundP := ⟨1000, [5], 5, 3⟩

def s : Sys := ((Sys.init cfg).run ops).getD (Sys.init cfg)
theorem run_s : (Sys.init cfg).run ops = some s := some_getD (by decide +kernel) _
def sA : SendRel := (SMap.find? s.a.sendRel 0).getD (SendRel.new 0 0 0)
theorem find_sA : SMap.find? s.a.sendRel 0 = some sA := some_getD (by decide +kernel) _
def rB : RecvRel := (SMap.find? s.b.recvRel 0).getD (RecvRel.new 0 true)
theorem find_rB : SMap.find? s.b.recvRel 0 = some rB := some_getD (by decide +kernel) _

theorem ordered0 : cfg.Ordered 0 := ⟨⟨_, List.mem_singleton.mpr rfl, rfl, rfl⟩, by decide⟩

theorem start : s.a.isDisconnected = false ∧ s.b.isDisconnected = false ∧ Room (s.submitted 0) rB ∧
    sA.unacked.length = 5 ∧ backlog sA.unacked = 2000 ∧ (∀ x ∈ sA.unacked, entryCost x.2 ≤ 400) ∧
    s.obtained 0 = [] := by decide +kernel

theorem rounds4 : Rounds cfg 0 (SchedBytes 0 1000) s [r1, r2, r3, r4] :=
  rounds_of_b (schedBytes_of_b 0 1000) _ _ (by decide +kernel)

/-- **`k_round_delivery_cost` applied with `B = 1000`, `c = 400`, `k = 4`**: `2000 ≤ 4 * (1000 - 400 + 1)` -/
theorem delivered : ∃ u, s.run (roundsOps 0 [r1, r2, r3, r4]) = some u ∧ u.a.isDisconnected = false ∧
    u.b.isDisconnected = false ∧ u.submitted 0 = s.submitted 0 ∧ u.obtained 0 = s.submitted 0 :=
  k_round_delivery_cost cfg ops s run_s start.1 start.2.1 0 ordered0 sA find_sA rB find_rB start.2.2.1 1000 400 (by decide)
    start.2.2.2.2.2.1 [r1, r2, r3, r4] rounds4 (by simp) (by rw [start.2.2.2.2.1]; decide)

theorem rounds3 : Rounds cfg 0 (SchedCount 0 2) s [r1, r2, r3] :=
  rounds_of_b (schedCount_of_b 0 2) _ _ (by decide +kernel)

/-- **`k_round_delivery_entries` applied with `q = 2`, `k = 3`**: `5 ≤ 3 * 2` -/
theorem delivered3 : ∃ u, s.run (roundsOps 0 [r1, r2, r3]) = some u ∧ u.a.isDisconnected = false ∧
    u.b.isDisconnected = false ∧ u.submitted 0 = s.submitted 0 ∧ u.obtained 0 = s.submitted 0 :=
  k_round_delivery_entries cfg ops s run_s start.1 start.2.1 0 ordered0 sA find_sA rB find_rB start.2.2.1 2
    [r1, r2, r3] rounds3 (by simp) (by rw [start.2.2.2.1]; decide)

/-- what the kernel computes: 2, 4, 5 messages obtained after 1, 2, 3 rounds -/
example : (s.run (roundsOps 0 [r1])).map (fun u => (u.obtained 0).length) = some 2 ∧
    (s.run (roundsOps 0 [r1, r2])).map (fun u => (u.obtained 0).length) = some 4 ∧
    (s.run (roundsOps 0 [r1, r2, r3])).map (fun u => u.obtained 0 == u.submitted 0) = some true := by decide +kernel

end ExB

/-! `ExU` — a ReliableUnordered channel, 3000 bytes per tick.  A submits a 3700-byte message (4 slices), a 3-byte and a
    2-byte message: backlog 4805.  `k_round_delivery_unordered`: `3 * (3000 - 1200 + 1) ≥ 4805`.  The datagrams of a
    round are handed over in reverse order, one of them twice in round 2; B's application obtains the two small
    messages in round 1 and the sliced one in round 2 — a permutation of the submission order. -/
namespace ExU

def cfg : Cfg := ⟨3000, [⟨0, .unordered, 100000, 100⟩], [⟨0, .ordered, 100000, 100⟩]⟩
def m0 : Bytes := List.replicate 3600 7 ++ List.replicate 100 9
def m1 : Bytes := [1, 2, 3]
def m2 : Bytes := [4, 5]
def ops : List SysOp := [.sendA 0 m0, .sendA 0 m1, .sendA 0 m2]
def r1 : RoundP := ⟨1000, [2, 1, 0], 3, 0⟩
def r2 : RoundP := ⟨1000, [5, 4, 3, 4], 3, 1⟩
def r3 : RoundP := ⟨1000, [6], 3, 2⟩

def s : Sys := ((Sys.init cfg).run ops).getD (Sys.init cfg)
theorem run_s : (Sys.init cfg).run ops = some s := some_getD (by decide +kernel) _
def sA : SendRel := (SMap.find? s.a.sendRel 0).getD (SendRel.new 0 0 0)
theorem find_sA : SMap.find? s.a.sendRel 0 = some sA := some_getD (by decide +kernel) _
def rB : RecvRel := (SMap.find? s.b.recvRel 0).getD (RecvRel.new 0 true)
theorem find_rB : SMap.find? s.b.recvRel 0 = some rB := some_getD (by decide +kernel) _

theorem unordered0 : cfg.Unordered 0 := ⟨⟨_, List.mem_singleton.mpr rfl, rfl, rfl⟩, by decide⟩

theorem start : s.a.isDisconnected = false ∧ s.b.isDisconnected = false ∧ Room (s.submitted 0) rB ∧
    backlog sA.unacked = 4805 ∧ s.submitted 0 = [m0, m1, m2] ∧ s.obtained 0 = [] := by decide +kernel

theorem rounds : Rounds cfg 0 (SchedBytes 0 3000) s [r1, r2, r3] :=
  rounds_of_b (schedBytes_of_b 0 3000) _ _ (by decide +kernel)

/-- **`k_round_delivery_unordered` applied with `B = 3000`, `k = 3`** -/
theorem delivered : ∃ u, s.run (roundsOps 0 [r1, r2, r3]) = some u ∧ u.a.isDisconnected = false ∧
    u.b.isDisconnected = false ∧ u.submitted 0 = s.submitted 0 ∧ (u.obtained 0).Perm (s.submitted 0) :=
  k_round_delivery_unordered cfg ops s run_s start.1 start.2.1 0 unordered0 sA find_sA rB find_rB start.2.2.1 3000
    (by decide) [r1, r2, r3] rounds (by simp) (by rw [start.2.2.2.1]; decide)

/-- what the kernel computes: the small messages after round 1, the sliced one after round 2 -/
example : (s.run (roundsOps 0 [r1])).map (fun u => u.obtained 0) = some [m1, m2] ∧
    (s.run (roundsOps 0 [r1, r2])).map (fun u => u.obtained 0) = some [m1, m2, m0] := by decide +kernel

end ExU

end RenetVerif.C01K
