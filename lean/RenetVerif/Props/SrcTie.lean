/-
  Source tie: the Lean definitions that /verif/translator derives from the CURRENT Rust text
  (`RenetVerif/Generated/Src.lean`, namespace `RenetVerif.Src`, regenerated on every check run) compute
  exactly what the hand-written model computes.  If one of these Rust functions is edited, the
  regenerated text changes and these theorems are re-checked against it.

  Conventions: generated integers are `Nat`s (a `uN` argument is assumed `< 2^N` where it matters, stated
  as a hypothesis), arrays/`Vec`s/slices are `List`s.  `absRP`/`absSC`/`absPT`/`absErr` are the abstraction
  functions generated type → model type, `reprRP`/`reprSC`/`toNats` their (right-)inverses on well-formed
  values; `WfRP`, `WfSC`, `BytesOk` are decidable (so is `p.enc = .ok bytes` in part D).  `SameOutcome` compares `ok`/`err` values exactly and
  panics up to the text of the site.
-/
import RenetVerif.Lemmas.SrcEquiv
namespace RenetVerif.SrcTie
open RenetVerif RenetVerif.SrcEquiv

/-! ## A. `renetcode/src/replay_protection.rs` ↔ `Netcode.RP` -/
section A
open Src.renetcode.replay_protection Netcode

/-- `ReplayProtection::new()` is well-formed and abstracts to `RP.new` -/
theorem replay_new {ε : Type} :
    ∃ st h, (ReplayProtection.new : Res ε ReplayProtection) = .ok st ∧ absRP st h = RP.new :=
  ⟨_, wf_reprRP _, rp_new_eq, absRP_reprRP _ _⟩

/-- `already_received` never panics on a well-formed state and returns the model's verdict -/
theorem replay_already_received {ε : Type} (st : ReplayProtection) (h : WfRP st) (sequence : Nat) (hs : sequence < 2 ^ 64) :
    (ReplayProtection.already_received st sequence : Res ε Bool) = .ok ((absRP st h).alreadyReceived sequence) := by
  have := already_received_eq (ε := ε) (absRP st h) sequence hs
  rwa [reprRP_absRP] at this

/-- `advance_sequence` never panics on a well-formed state; the new state is well-formed and abstracts to
    `RP.advance` -/
theorem replay_advance_sequence {ε : Type} (st : ReplayProtection) (h : WfRP st) (sequence : Nat) (hs : sequence < 2 ^ 64) :
    ∃ st' h', (ReplayProtection.advance_sequence st sequence : Res ε (ReplayProtection × Unit)) = .ok (st', ()) ∧
      absRP st' h' = (absRP st h).advance sequence := by
  have := advance_sequence_eq (ε := ε) (absRP st h) sequence hs
  rw [reprRP_absRP] at this
  exact ⟨_, wf_reprRP _, this, absRP_reprRP _ _⟩

example : (ReplayProtection.already_received (reprRP ((RP.new.advance 300).advance 7)) 44 : Res Empty Bool) = .ok true := by
  decide +kernel
example : (ReplayProtection.already_received (reprRP ((RP.new.advance 300).advance 7)) 301 : Res Empty Bool) = .ok false := by
  decide +kernel
example : (ReplayProtection.advance_sequence (reprRP RP.new) 5 : Res Empty _) = .ok (reprRP (RP.new.advance 5), ()) := by
  decide +kernel
end A

/-! ## B. `renetcode/src/packet.rs` ↔ `Netcode.Packet` / `Netcode.PacketType` -/
section B
open Src.renetcode.packet Netcode

/-- `sequence_bytes_required` (the 8-round mask loop) never panics and equals the model's byte count -/
theorem sequence_bytes_required {ε : Type} (sequence : Nat) :
    (Src.renetcode.packet.sequence_bytes_required sequence : Res ε Nat) = .ok (Packet.sequenceBytesRequired sequence) :=
  sequence_bytes_required_eq sequence

/-- `encode_prefix(value, sequence)` for a packet-type nibble `value < 16`: the model's prefix byte -/
theorem encode_prefix {ε : Type} (value sequence : Nat) (hv : value < 16) :
    (Src.renetcode.packet.encode_prefix value sequence : Res ε Nat) = .ok (Packet.encodePrefix value sequence).toNat :=
  encode_prefix_eq value sequence hv

/-- `decode_prefix` on any byte -/
theorem decode_prefix {ε : Type} (value : UInt8) :
    (Src.renetcode.packet.decode_prefix value.toNat : Res ε (Nat × Nat)) = .ok (Packet.decodePrefix value) :=
  decode_prefix_eq value

/-- `PacketType::from_u8`: same variant / same error for every `value` -/
theorem packet_type_from_u8 (value : Nat) :
    mapRes absPT absErr (Src.renetcode.packet.PacketType.from_u8 value) = Netcode.PacketType.fromU8 value :=
  from_u8_eq value

/-- `PacketType::apply_replay_protection` -/
theorem packet_type_apply_replay_protection {ε : Type} (t : Src.renetcode.packet.PacketType) :
    (Src.renetcode.packet.PacketType.apply_replay_protection t : Res ε Bool) = .ok (absPT t).applyReplayProtection :=
  apply_replay_protection_eq t

example : (Src.renetcode.packet.sequence_bytes_required 0x012345 : Res Empty Nat) = .ok 3 := by decide +kernel
example : (Src.renetcode.packet.sequence_bytes_required 0 : Res Empty Nat) = .ok 1 := by decide +kernel
example : (Src.renetcode.packet.encode_prefix 5 0x0100 : Res Empty Nat) = .ok 0x25 := by decide +kernel
example : (Src.renetcode.packet.decode_prefix 0x25 : Res Empty (Nat × Nat)) = .ok (5, 2) := by decide +kernel
example : Src.renetcode.packet.PacketType.from_u8 4 = .ok .KeepAlive := by decide +kernel
example : Src.renetcode.packet.PacketType.from_u8 7 = .err .InvalidPacketType := by decide +kernel
example : (Src.renetcode.packet.PacketType.apply_replay_protection .Challenge : Res Empty Bool) = .ok false := by decide +kernel
end B

/-! ## C. `renet/src/channel/slice_constructor.rs` ↔ `SliceCtor` -/
section C
open Src.renet.channel.slice_constructor

/-- `SliceConstructor::new`: without `usize` overflow of `num_slices * SLICE_SIZE` it is the model's constructor -/
theorem slice_constructor_new {ε : Type} (message_id num_slices : Nat) (h : num_slices * C.SLICE_SIZE < 2 ^ 64) :
    (SliceConstructor.new message_id num_slices : Res ε SliceConstructor) = .ok (reprSC message_id (SliceCtor.new num_slices)) :=
  sc_new_eq message_id num_slices h

/-- … and with overflow it panics (debug-profile multiplication) -/
theorem slice_constructor_new_overflow {ε : Type} (message_id num_slices : Nat) (h : ¬ num_slices * C.SLICE_SIZE < 2 ^ 64) :
    ∃ site, (SliceConstructor.new message_id num_slices : Res ε SliceConstructor) = .panic site :=
  sc_new_overflow message_id num_slices h

/-- `process_slice` on a well-formed state and a byte slice: same new state and payload, same
    `InvalidSliceMessage` error, and a panic exactly when the model panics -/
theorem slice_constructor_process_slice (st : SliceConstructor) (hst : WfSC st) (slice_index : Nat) (bytes : List Nat)
    (hb : BytesOk bytes) :
    SameOutcome (SliceConstructor.process_slice st slice_index bytes)
      (mapRes (fun r => (reprSC st.message_id r.1, r.2.map toNats)) reprCE
        ((absSC st).processSlice slice_index (ofNats bytes))) := by
  have := process_slice_eq st.message_id (absSC st) slice_index (ofNats bytes) hst.2.1 hst.2.2
  rwa [reprSC_absSC st hst.1, toNats_ofNats hb] at this

/-- the same statement from the model's side: for every model state and message id -/
theorem slice_constructor_process_slice' (message_id : Nat) (c : SliceCtor) (slice_index : Nat) (bytes : Bytes)
    (hn : c.numSlices * C.SLICE_SIZE < 2 ^ 64) (hr : c.numReceived + 1 < 2 ^ 64) :
    SameOutcome (SliceConstructor.process_slice (reprSC message_id c) slice_index (toNats bytes))
      (mapRes (fun r => (reprSC message_id r.1, r.2.map toNats)) reprCE (c.processSlice slice_index bytes)) :=
  process_slice_eq message_id c slice_index bytes hn hr

/-- a 1-slice message of 3 bytes completes at once -/
example :
    (SliceConstructor.new 9 1 >>= fun st => SliceConstructor.process_slice st 0 [1, 2, 3]) =
      .ok (⟨9, 1, 1, [true], []⟩, some [1, 2, 3]) := by decide +kernel
/-- a wrong slice index is an error -/
example :
    (SliceConstructor.new 9 1 >>= fun st => SliceConstructor.process_slice st 1 [1, 2, 3]) =
      .err .InvalidSliceMessage := by decide +kernel
end C

/-! ## D. `renet/src/packet.rs` `Packet::to_bytes` (over the octets model of RustSem) ↔ `Packet.enc` / `Packet.toBytes` -/
section D
open RustSem

/-- `SerializationError` generated ↦ model -/
def absSerErr : Src.renet.packet.SerializationError → SerErr
  | .BufferTooShort => .bufferTooShort | .InvalidNumSlices => .invalidNumSlices
  | .SliceSizeAboveLimit => .sliceSizeAboveLimit | .EmptySlice => .emptySlice
  | .InvalidAckRange => .invalidAckRange | .InvalidPacketType => .invalidPacketType

/-- `Packet::to_bytes` on ANY cursor (`off ≤ buf.len()`), for every model packet whose model encoding is defined
    (`p.enc = .ok bytes`: all varints `< 2^62`, ack ranges non-empty and ordered — decidable): if the bytes fit,
    exactly the model's bytes are written at the offset, the offset advances and their number is returned;
    otherwise `Err(BufferTooShort)`.  No panic. -/
theorem packet_to_bytes (p : Packet) (b : OctetsMut) (hb : b.off ≤ b.buf.length) (bytes : Bytes)
    (henc : p.enc = .ok bytes) :
    Src.renet.packet.Packet.to_bytes (reprPacket p) b =
      if b.off + bytes.length ≤ b.buf.length then
        .ok ({ buf := b.buf.take b.off ++ toNats bytes ++ b.buf.drop (b.off + bytes.length), off := b.off + bytes.length },
             bytes.length)
      else .err .BufferTooShort := by
  have := to_bytes_eq p b hb bytes henc
  simpa [finish, owrite, toNats_length] using this

/-- on a fresh buffer: the written prefix / the error is what the model's `Packet.toBytes buf.len()` returns -/
theorem packet_to_bytes_fresh (p : Packet) (buf : List Nat) (bytes : Bytes) (henc : p.enc = .ok bytes) :
    mapRes (fun r => ofNats (r.1.buf.take r.2)) absSerErr
        (Src.renet.packet.Packet.to_bytes (reprPacket p) (OctetsMut.with_slice buf)) =
      Packet.toBytes buf.length p := by
  have h := packet_to_bytes p (OctetsMut.with_slice buf) (Nat.zero_le _) bytes henc
  rw [h]
  unfold Packet.toBytes
  rw [henc]
  simp only [OctetsMut.with_slice, Nat.zero_add, List.take_zero, List.nil_append, Res.bind_ok]
  by_cases hfit : bytes.length ≤ buf.length
  · rw [if_pos hfit, if_pos hfit]
    simp only [mapRes, Res.pure_eq]
    congr 1
    have hl : (toNats bytes).length = bytes.length := toNats_length _
    rw [List.take_append_of_le_length (by omega), List.take_of_length_le (by omega), ofNats_toNats]
  · rw [if_neg hfit, if_neg hfit]; rfl

/-- a SmallReliable packet with one 3-byte message into an 16-byte buffer -/
example :
    Src.renet.packet.Packet.to_bytes (.SmallReliable 5 1 [(7, [9, 9, 9])]) (OctetsMut.with_slice (List.replicate 16 0)) =
      .ok (⟨[0, 5, 1, 0, 1, 7, 3, 9, 9, 9, 0, 0, 0, 0, 0, 0], 10⟩, 10) := by decide +kernel
/-- a two-byte varint (sequence 300 = 0x412c) and a buffer that is too short -/
example :
    Src.renet.packet.Packet.to_bytes (.Ack 300 [⟨10, 20⟩, ⟨35, 40⟩]) (OctetsMut.with_slice (List.replicate 9 0)) =
      .ok (⟨[4, 0x41, 0x2c, 39, 4, 1, 14, 9, 0], 8⟩, 8) := by decide +kernel
example :
    Src.renet.packet.Packet.to_bytes (.Ack 300 [⟨10, 20⟩, ⟨35, 40⟩]) (OctetsMut.with_slice (List.replicate 7 0)) =
      .err .BufferTooShort := by decide +kernel

/-- `Packet::from_bytes` on a read cursor over `pre ++ rest` standing after `pre` (every byte sequence, every
    position): it never panics; it returns the model decoder's packet and leaves the cursor where the model's
    remaining input starts, or fails with the model's error. -/
theorem packet_from_bytes (pre rest : Bytes) :
    Src.renet.packet.Packet.from_bytes ⟨toNats (pre ++ rest), pre.length⟩ =
      match Packet.decode rest with
      | .ok (p, r) => .ok (⟨toNats (pre ++ rest), (pre ++ rest).length - r.length⟩, reprPacket p)
      | .error e => .err (reprSerErr e) := by
  have h := from_bytes_eq (pre ++ rest) rest (List.suffix_append pre rest)
  have hc : cur (pre ++ rest) rest = ⟨toNats (pre ++ rest), pre.length⟩ := by
    simp [cur]
  rw [hc] at h
  rw [h]
  cases Packet.decode rest with
  | error e => rfl
  | ok x => rfl

/-- on a fresh cursor: the packet / error of the model's `Packet.fromBytes` -/
theorem packet_from_bytes_fresh (buf : Bytes) :
    mapRes Prod.snd id (Src.renet.packet.Packet.from_bytes (Octets.with_slice (toNats buf))) =
      match Packet.fromBytes buf with
      | .ok p => .ok (reprPacket p)
      | .error e => .err (reprSerErr e) := by
  have h := packet_from_bytes [] buf
  simp only [List.nil_append, List.length_nil] at h
  unfold Octets.with_slice Packet.fromBytes
  rw [h]
  cases Packet.decode buf with
  | error e => rfl
  | ok x => rfl

/-! test vectors for the generated `from_bytes` -/
example :
    Src.renet.packet.Packet.from_bytes (Octets.with_slice [0, 5, 1, 0, 1, 7, 3, 9, 9, 9, 0, 0]) =
      .ok (⟨[0, 5, 1, 0, 1, 7, 3, 9, 9, 9, 0, 0], 10⟩, .SmallReliable 5 1 [(7, [9, 9, 9])]) := by decide +kernel
example :
    Src.renet.packet.Packet.from_bytes (Octets.with_slice [4, 0x41, 0x2c, 39, 4, 1, 14, 9]) =
      .ok (⟨[4, 0x41, 0x2c, 39, 4, 1, 14, 9], 8⟩, .Ack 300 [⟨10, 20⟩, ⟨35, 40⟩]) := by decide +kernel
example : Src.renet.packet.Packet.from_bytes (Octets.with_slice [2, 5, 1, 7, 0, 0, 1, 9]) = .err .InvalidNumSlices := by
  decide +kernel
example : Src.renet.packet.Packet.from_bytes (Octets.with_slice [4, 0x41]) = .err .BufferTooShort := by decide +kernel
example : Src.renet.packet.Packet.from_bytes (Octets.with_slice [9]) = .err .InvalidPacketType := by decide +kernel
end D

end RenetVerif.SrcTie
