/-
  Source tie: the Lean definitions that /verif/translator derives from the CURRENT Rust text
  (`RenetVerif/Generated/Src.lean`, namespace `RenetVerif.Src`, regenerated on every check run) compute
  exactly what the hand-written model computes.  If one of these Rust functions is edited, the
  regenerated text changes and these theorems are re-checked against it.

  Conventions: generated integers are `Nat`s (a `uN` argument is assumed `< 2^N` where it matters, stated
  as a hypothesis), arrays/`Vec`s/slices are `List`s.  `absRP`/`absSC`/`absPT`/`absErr` are the abstraction
  functions generated type → model type, `reprRP`/`reprSC`/`toNats` their (right-)inverses on well-formed
  values; `WfRP`, `WfSC`, `BytesOk` are decidable (so is `p.enc = .ok bytes` in part D).  `SameOutcome` compares `ok`/`err` values exactly and
  panics up to the text of the site.
-/
import RenetVerif.Props.SrcTieReplay
import RenetVerif.Props.SrcTiePrefix
import RenetVerif.Props.SrcTieSlice
import RenetVerif.Props.SrcTiePacket
import RenetVerif.Props.SrcTieAcks
import RenetVerif.Props.SrcTieTokenTable
import RenetVerif.Props.SrcTieNcSerialize
import RenetVerif.Props.SrcTieNcToken
import RenetVerif.Props.SrcTieNcSequence
import RenetVerif.Props.SrcTieSendUnrel
import RenetVerif.Props.SrcTieRecvUnrel
import RenetVerif.Props.SrcTieSendRel
import RenetVerif.Props.SrcTieRecvRel
import RenetVerif.Props.SrcTieNcPacket
import RenetVerif.Props.SrcTieNcAddr
import RenetVerif.Props.SrcTieNcConnToken
import RenetVerif.Props.SrcTieConn
import RenetVerif.Props.SrcTieConnSend
import RenetVerif.Props.SrcTieConnRecv
import RenetVerif.Props.SrcTieServer
import RenetVerif.Props.SrcTieNcCodec
import RenetVerif.Props.SrcTieNcServerQuery
import RenetVerif.Props.SrcTieNcServerSend
import RenetVerif.Props.SrcTieNcServerRecv
import RenetVerif.Props.SrcTieNcTokenGen
import RenetVerif.Props.SrcTieNcClient
import RenetVerif.Props.SrcTieTrServer
import RenetVerif.Props.SrcTieTrClient
import RenetVerif.Props.SrcTieTrInv
import RenetVerif.Props.SrcTieInv
import RenetVerif.Props.SrcTieTrClosed
