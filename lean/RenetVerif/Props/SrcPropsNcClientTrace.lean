/-
  WHOLE-TRACE theorems on the GENERATED netcode client (`Generated/Src/NcClient.lean`, translated from `renetcode/src/client.rs`).
  Every theorem has a GENERATED RUN in its hypotheses (`GNcC.exec` / `GNcC.run`, `Lemmas/SrcEquiv/SrcNcClientSystem.lean`: the
  generated `NetcodeClient::new`, then generated `update` / `process_packet` / `generate_payload_packet` / `disconnect` calls with
  ARBITRARY arguments) and concludes about what `Lemmas/SrcEquiv/SrcNcClientSeal.lean` reads off the generated results log
  `GNcC.outs` and the generated struct.  The hand model occurs only inside the proofs (`gsurf_sim`, `gclog_sim`).

    (1) C04 `payloads_at_most_once`   the payloads the generated `process_packet` surfaced along a whole generated run from `new`
                                      stem from pairwise distinct sequence numbers; each is the plaintext its own datagram opens
                                      to, as a `Payload` packet, under the token's server-to-client key; the generated struct's
                                      `replay_protection` is the representation of the `Recv.run` window of exactly the datagrams
                                      handed to `process_packet`, which satisfies `RP.Inv window accepted`; and the GENERATED
                                      `ReplayProtection::already_received` on that window returns `true` for every sequence number
                                      whose payload surfaced.   (Transports `C04C.client_new_payloads_at_most_once`,
                                      `C04C.client_surfaced_rejected_after`.)
    (2) C17 `client_nonces_strict`    the datagrams the generated client seals along a generated run (seal log `gclog`: key and
                                      sequence number read off the generated struct before each call, datagram = what the call
                                      returned) are all under the token's client-to-server key, carry strictly increasing sequence
                                      numbers — except that a later record may be IDENTICAL to an earlier one (the `Disconnect`
                                      datagram of repeated `disconnect` calls) —, and each datagram is
                                      `prefix ‖ sequence bytes ‖ a.seal key (nonce seq) aad plain` for the recorded key and number.
                                      (Transports `C17.client_nonces_strict`, `C17.client_log_sound`.)
  NOT DONE here: goal (3), totality of the generated `update` / `generate_payload_packet` / `disconnect` along whole traces (see
  the note at the end of the file).
-/
import RenetVerif.Lemmas.SrcEquiv.SrcNcClientSeal
import RenetVerif.Props.SrcPropsNcClientHistory
import RenetVerif.Props.C04C
import RenetVerif.Props.C17
set_option linter.unusedSimpArgs false
set_option linter.unusedVariables false
namespace RenetVerif.SrcPropsNcClientTrace
open RenetVerif RenetVerif.SrcEquiv RenetVerif.RustSem RenetVerif.Netcode RenetVerif.Netcode.Packet
open RenetVerif.SrcNcClientSystem RenetVerif.SrcNcClientSeal RenetVerif.NcAead RenetVerif.NcClientTrace
open RenetVerif.SrcPropsNcClientHistory

/-! ## (1) C04: at most once, authentic, over a whole generated run -/

/-- the sequence numbers of the pairs read off the generated results log, the excluded point `2^64-1` dropped -/
def gsurfSeqs (ps : List (Bytes × List Nat)) : List Nat :=
  (ps.map fun x => wireSeq x.1).filter fun s => decide (s ≠ 2 ^ 64 - 1)

theorem gsurfSeqs_map (ps : List (Bytes × Bytes)) :
    gsurfSeqs (ps.map fun x => (x.1, toNats x.2)) = C04C.surfacedSeqs ps := by
  simp only [gsurfSeqs, C04C.surfacedSeqs, List.map_map]
  rfl

/-- the model constructor starts with the empty window -/
theorem new_window {ct : Nat} {tok : Netcode.ConnectToken} {c : Netcode.NetcodeClient}
    (h : Netcode.NetcodeClient.new ct tok = .ok c) : c.replayProtection = RP.new := by
  unfold Netcode.NetcodeClient.new at h
  split at h
  · cases h; rfl
  · cases h

/-- a generated execution from `new`, split at the constructor, with the related model start -/
theorem exec_split {a : AEAD} {ct : Nat} {tok : Netcode.ConnectToken} {r1 r2 r3 r4 : List Nat} {ops : List CliOp} {g : GNcC}
    (ht : tok.timeoutSeconds < 2 ^ 31) (hg : GNcC.exec a ct tok r1 r2 r3 r4 ops = some g) :
    ∃ g0 m0, GNcC.init a ct tok r1 r2 r3 r4 = some g0 ∧ g0.run a ops = some g ∧ g0.outs = [] ∧ SimNcC m0 g0 ∧
      CliInv m0.cli ∧ Netcode.NetcodeClient.new ct tok = .ok m0.cli := by
  have h0 := cinit_sim a ct tok r1 r2 r3 r4
  unfold GNcC.exec at hg
  cases hm : MNcC.init ct tok with
  | none => rw [hm] at h0; rw [h0] at hg; cases hg
  | some m0 =>
    rw [hm] at h0
    obtain ⟨g0, e0, hsim0⟩ := h0
    rw [e0] at hg
    refine ⟨g0, m0, e0, hg, ?_, hsim0, inv_minit ht hm, ?_⟩
    · rw [hsim0.outs]
      unfold MNcC.init at hm
      split at hm
      · cases hm; rfl
      · cases hm
    · unfold MNcC.init at hm
      split at hm
      · rename_i c hc; cases hm; exact hc
      · cases hm

/-- **(1) C04 at-most-once over a whole GENERATED client run.**  `g` is reached from the generated `NetcodeClient::new` by ANY
    generated calls `ops` (in range: the token's timeout is an `i32`, datagrams shorter than `2^64 - 16` bytes).  `gsurf ops g.outs`
    reads off the results log the (datagram, payload) pairs the generated `process_packet` surfaced.  Then:
      * their sequence numbers (`2^64-1` aside) are pairwise distinct;
      * each pair `(buf, p)`: `buf` was handed to `process_packet` in this run, and `p` is the plaintext `buf` opens to, as a
        `Payload` packet, under the token's server-to-client key (nonce = its own sequence number, additional data = version ‖
        protocol id ‖ its own prefix byte);
      * the generated struct still holds the token, and its `replay_protection` is the `Recv.run` window of exactly the datagrams
        handed to `process_packet`, which satisfies `RP.Inv` for the ghost list of accepted sequence numbers;
      * the GENERATED `already_received` on the generated window returns `true` for the sequence number of every surfaced payload. -/
theorem payloads_at_most_once {a : AEAD} (hl : a.Laws) {ct : Nat} {tok : Netcode.ConnectToken} {r1 r2 r3 r4 : List Nat}
    {ops : List CliOp} {g : GNcC} (hr : CliInRange tok ops) (hg : GNcC.exec a ct tok r1 r2 r3 r4 ops = some g) :
    (gsurfSeqs (gsurf ops g.outs)).Nodup ∧
    (∀ x ∈ gsurf ops g.outs, x.1 ∈ gBufs ops ∧
      ∃ p, x.2 = toNats p ∧ SealedOpen a x.1 tok.protocolId tok.serverToClientKey .payload p) ∧
    g.cli.connect_token = reprTok tok ∧
    g.cli.replay_protection = reprRP (Recv.run a tok.protocolId tok.serverToClientKey (gBufs ops)).window ∧
    RP.Inv (Recv.run a tok.protocolId tok.serverToClientKey (gBufs ops)).window
      (Recv.run a tok.protocolId tok.serverToClientKey (gBufs ops)).accepted ∧
    (∀ s ∈ gsurfSeqs (gsurf ops g.outs),
      (Src.renetcode.replay_protection.ReplayProtection.already_received g.cli.replay_protection s : Res Empty Bool)
        = .ok true) := by
  obtain ⟨g0, m0, -, hrun, hout0, hsim0, hi0, hnew⟩ := exec_split hr.1 hg
  obtain ⟨m', ps, hsim', hprun, hsurf⟩ := gsurf_sim hl hi0 hsim0 hr.2 hrun
  rw [hout0] at hsurf
  simp only [List.length_nil, List.drop_zero] at hsurf
  obtain ⟨p1, p2, p3, p4, p5⟩ := C04C.client_new_payloads_at_most_once a hnew hprun
  rw [recvBufs_toCl] at p2 p4 p5
  obtain ⟨out, _, hc⟩ := hsim'.cli
  have htok0 : m0.cli.connectToken = tok := (Cl.new_sequence hnew).2.1
  have hw0 : m0.cli.replayProtection =
      (Recv.run a m0.cli.connectToken.protocolId m0.cli.connectToken.serverToClientKey []).window := by
    rw [new_window hnew]; rfl
  have prej := C04C.client_surfaced_rejected_after a [] hw0 hprun
  rw [hsurf, gsurfSeqs_map]
  refine ⟨p1, ?_, ?_, ?_, ?_, ?_⟩
  · intro x hx
    obtain ⟨y, hy, rfl⟩ := List.mem_map.mp hx
    obtain ⟨q1, q2⟩ := p2 y hy
    exact ⟨q1, y.2, rfl, q2⟩
  · rw [hc]
    show reprTok m'.cli.connectToken = reprTok tok
    rw [p3]
  · rw [hc]
    show reprRP m'.cli.replayProtection = _
    rw [p4]
  · rw [← p4]; exact p5
  · intro s hs
    have hrej := prej s hs
    have hlt : s < 2 ^ 64 := by
      simp only [C04C.surfacedSeqs, List.mem_filter, List.mem_map] at hs
      obtain ⟨⟨y, hy, rfl⟩, -⟩ := hs
      exact wireSeq_lt (p2 y hy).2.seq_len
    rw [hc]
    show (Src.renetcode.replay_protection.ReplayProtection.already_received (reprRP m'.cli.replayProtection) s : Res Empty Bool)
      = .ok true
    rw [already_received_eq _ _ hlt, hrej]

/-! ## (2) C17: nonce discipline of the generated client -/

/-- **(2) C17 on the generated client, from any related pair of states.**  `g.cli` represents the model client `m.cli`
    (`SimNcC`, e.g. by `gcreach_model` for any state reached by a generated run from `new`); `ops` is ANY trace of generated
    calls (in range) that runs to its end.  For the seal log `gclog a g ops` read off the generated code:
      * every record is under the `client_to_server_key` of the generated struct's connect token, with a sequence number at
        least the generated struct's `sequence` at the start;
      * sequence numbers strictly increase along the log, except that a later record may be IDENTICAL (key, number, datagram)
        to an earlier one;
      * hence two records with the same sequence number are the same record: no nonce is used for two different datagrams;
      * soundness: every recorded datagram is `prefix ‖ sequence bytes ‖ a.seal key (nonce seq) aad plain` (`SealRec.datagram`)
        for a seal under exactly the recorded key and sequence number. -/
theorem client_nonces_strict {a : AEAD} (hl : a.Laws) {m : MNcC} {g g' : GNcC} (hi : CliInv m.cli) (hsim : SimNcC m g)
    {ops : List CliOp} (hr : CliOpsInRange ops) (hrun : g.run a ops = some g') :
    (∀ e ∈ gclog a g ops, e.key = g.cli.connect_token.client_to_server_key ∧ g.cli.sequence ≤ e.seq) ∧
    (gclog a g ops).Pairwise (fun e e' => e.seq < e'.seq ∨ e' = e) ∧
    (∀ e ∈ gclog a g ops, ∀ e' ∈ gclog a g ops, e.seq = e'.seq → e = e') ∧
    (∀ e ∈ gclog a g ops, ∃ r : SealRec, toNats r.key = e.key ∧ r.seq = e.seq ∧ e.datagram = toNats (r.datagram a)) := by
  rw [gclog_sim hl ops hi hsim hr hrun]
  obtain ⟨c1, c2, -, c4⟩ := C17.client_nonces_strict a m.cli (ops.map toCl)
  obtain ⟨out, _, hc⟩ := hsim.cli
  refine ⟨?_, ?_, ?_, ?_⟩
  · intro e he
    obtain ⟨r, hr', rfl⟩ := List.mem_map.mp he
    obtain ⟨k1, k2⟩ := c1 r hr'
    rw [hc]
    exact ⟨by show toNats r.key = toNats m.cli.connectToken.clientToServerKey; rw [k1], k2⟩
  · rw [List.pairwise_map]
    refine c2.imp ?_
    intro r r' h
    rcases h with h | h
    · exact Or.inl h
    · exact Or.inr (by rw [h])
  · intro e he e' he' hs
    obtain ⟨r, hr', rfl⟩ := List.mem_map.mp he
    obtain ⟨r', hr'', rfl⟩ := List.mem_map.mp he'
    rw [c4 r hr' r' hr'' hs]
  · intro e he
    obtain ⟨r, hr', rfl⟩ := List.mem_map.mp he
    exact ⟨r, rfl, rfl, rfl⟩

/-- **… from the generated `NetcodeClient::new`**: the generated constructor starts the counter at 0; all datagrams the generated
    client ever seals in the run — one connection attempt after the other and the session — are under the token's
    client-to-server key and carry strictly increasing sequence numbers (a repeated `Disconnect` datagram aside). -/
theorem client_nonces_strict_from_new {a : AEAD} (hl : a.Laws) {ct : Nat} {tok : Netcode.ConnectToken} {r1 r2 r3 r4 : List Nat}
    {ops : List CliOp} {g : GNcC} (hr : CliInRange tok ops) (hg : GNcC.exec a ct tok r1 r2 r3 r4 ops = some g) :
    ∃ g0, GNcC.init a ct tok r1 r2 r3 r4 = some g0 ∧ g0.cli.sequence = 0 ∧
      (∀ e ∈ gclog a g0 ops, e.key = toNats tok.clientToServerKey) ∧
      (gclog a g0 ops).Pairwise (fun e e' => e.seq < e'.seq ∨ e' = e) ∧
      (∀ e ∈ gclog a g0 ops, ∀ e' ∈ gclog a g0 ops, e.seq = e'.seq → e = e') ∧
      (∀ e ∈ gclog a g0 ops, ∃ r : SealRec, toNats r.key = e.key ∧ r.seq = e.seq ∧ e.datagram = toNats (r.datagram a)) := by
  obtain ⟨g0, m0, hinit, hrun, -, hsim0, hi0, hnew⟩ := exec_split hr.1 hg
  obtain ⟨n1, n2, n3, n4⟩ := client_nonces_strict hl hi0 hsim0 hr.2 hrun
  obtain ⟨s0, t0, -⟩ := Cl.new_sequence hnew
  obtain ⟨out, _, hc⟩ := hsim0.cli
  refine ⟨g0, hinit, ?_, ?_, n2, n3, n4⟩
  · rw [hc]; exact s0
  · intro e he
    rw [(n1 e he).1, hc]
    show toNats m0.cli.connectToken.clientToServerKey = _
    rw [t0]

/-! ## non-vacuity: concrete generated client runs (world of `Lemmas/NcExamples.lean`, AEAD `Ex.a` with `C18V.a_laws`),
    evaluated by the kernel on the generated code -/
section Examples
open NS.Ex

/-- the model-level example run of `Props/C04C.lean` as operations of the generated system: handshake, payloads 3 and 5, a
    replay, a forgery, a modified copy, an outgoing payload, a clock step, payload 4, 5 again, `disconnect`, payload 7 -/
def exOps : List CliOp :=
  [.update 0, .packet chalA, .update 250000000, .packet kaA,
   .packet C04C.pl3, .packet C04C.pl5, .packet C04C.pl3, .packet C04C.forgedP, .packet C04C.pl3mod, .sendPayload [1],
   .update 1000, .packet C04C.pl4, .packet C04C.pl5, .disconnect, .packet C04C.pl7]

theorem exOps_inRange : CliInRange tokenA exOps := by decide +kernel

set_option maxRecDepth 100000 in
/-- **the generated run surfaces three payloads** (kernel evaluation of the generated code): sequence numbers 3, 5, 4 -/
theorem ex_gen_surf : (GNcC.exec NS.Ex.a 0 tokenA [] [] [] [] exOps).map (fun g => gsurf exOps g.outs) =
    some [(C04C.pl3, [9, 9]), (C04C.pl5, [5]), (C04C.pl4, [4, 4, 4])] := by decide +kernel

/-- `payloads_at_most_once` on that generated run -/
example : ∃ g, GNcC.exec NS.Ex.a 0 tokenA [] [] [] [] exOps = some g ∧
    gsurfSeqs (gsurf exOps g.outs) = [3, 5, 4] ∧ (gsurfSeqs (gsurf exOps g.outs)).Nodup ∧
    g.cli.replay_protection = reprRP (Recv.run NS.Ex.a tokenA.protocolId tokenA.serverToClientKey (gBufs exOps)).window ∧
    (∀ s ∈ gsurfSeqs (gsurf exOps g.outs),
      (Src.renetcode.replay_protection.ReplayProtection.already_received g.cli.replay_protection s : Res Empty Bool)
        = .ok true) := by
  have h := ex_gen_surf
  cases hg : GNcC.exec NS.Ex.a 0 tokenA [] [] [] [] exOps with
  | none => rw [hg] at h; cases h
  | some g =>
    rw [hg] at h
    simp only [Option.map_some, Option.some.injEq] at h
    obtain ⟨p1, -, -, p4, -, p6⟩ := payloads_at_most_once C18V.a_laws exOps_inRange hg
    exact ⟨g, rfl, by rw [h]; decide +kernel, p1, p4, p6⟩

set_option maxRecDepth 100000 in
/-- **the seal log of that generated run** (kernel evaluation of the generated code): the response (1), the keep-alive is not due,
    the payload (2), the `Disconnect` datagram (3) — the connection request (sequence number 0) is sent in the clear -/
theorem ex_gen_log : (GNcC.init NS.Ex.a 0 tokenA [] [] [] []).map
      (fun g0 => (gclog NS.Ex.a g0 exOps).map fun e => (e.seq, e.datagram.length)) =
    some [(1, 326), (2, 19), (3, 18)] := by decide +kernel

/-- `client_nonces_strict_from_new` on that generated run -/
example : ∃ g0, GNcC.init NS.Ex.a 0 tokenA [] [] [] [] = some g0 ∧
    (gclog NS.Ex.a g0 exOps).map (·.seq) = [1, 2, 3] ∧
    (gclog NS.Ex.a g0 exOps).Pairwise (fun e e' => e.seq < e'.seq ∨ e' = e) ∧
    (∀ e ∈ gclog NS.Ex.a g0 exOps, e.key = toNats tokenA.clientToServerKey) := by
  have h := ex_gen_surf
  cases hg : GNcC.exec NS.Ex.a 0 tokenA [] [] [] [] exOps with
  | none => rw [hg] at h; cases h
  | some g =>
    obtain ⟨g0, hinit, -, n1, n2, -, -⟩ := client_nonces_strict_from_new C18V.a_laws exOps_inRange hg
    have hl := ex_gen_log
    rw [hinit] at hl
    simp only [Option.map_some, Option.some.injEq] at hl
    refine ⟨g0, hinit, ?_, n2, n1⟩
    have := congrArg (List.map Prod.fst) hl
    rw [List.map_map] at this
    exact this

end Examples

end RenetVerif.SrcPropsNcClientTrace

/-
  NOT DONE (nothing below is claimed):
  * goal (3): totality of the generated `update` / `generate_payload_packet` / `disconnect` along whole traces from `new`.  What is
    needed and missing at the model level: a TRACE invariant carrying `NetcodeClient.CInv` (time stamps not in the future, 32
    address slots, `i32` timeout) through `generate_payload_packet` and `disconnect` (only `update` and `process_packet` have it,
    `C07.client_update_total`, `C07.client_inv_process_packet`), the clock law `update(d)` ok ⇒ `current_time' = current_time + d`
    and the counter law `sequence' ≤ sequence + 1` per call, and "`Packet::encode` never unwinds" for the two sealing calls; with
    these the decidable head-room hypotheses would be `now + Σ d + TIMEOUT_MAX_NS ≤ DURATION_MAX`, `#calls < 2^64` and
    `32 ≤ tok.serverAddresses.length`.  What IS available on the generated client: no byte string handed to the generated
    `process_packet` unwinds, at any point of any generated run (`SrcPropsNcClientHistory.packets_total`).
  * (1) and (2) for `NetcodeClient::new` with `ClientAuthentication::Unsecure` as the start of `GNcC`.
-/
