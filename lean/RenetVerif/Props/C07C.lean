/-
  C07, client half, over WHOLE TRACES of the model `NetcodeClient` (closes the first NOT DONE bullet of
  `Props/SrcPropsNcClientHistory.lean` / goal (3) of `Props/SrcPropsNcClientTrace.lean` at the model level; the generated level is
  `Props/SrcPropsNcClientTotal.lean`).

  "A `NetcodeClient` built by `NetcodeClient::new` from a token `ConnectToken::read` accepted never panics, whatever is done to
   it — `update` with any duration, `process_packet` with ARBITRARY bytes, `generate_payload_packet` with any payload,
   `disconnect`, in any order, in any state — as long as the accumulated clock stays the token's timeout below `Duration::MAX`
   and fewer than `2^64 - sequence` calls that send are made.  Every call returns one of its documented results."

  Proofs: Lemmas/NcClientTotal.lean.
    trace invariant `CTInv c`   = `NetcodeClient.CInv c` (time stamps not in the future, 32 address slots, `i32` timeout — what
                                  `C07.client_update_total` needs) ∧ `sequence ≤ u64::MAX`;
    head room `HeadRoom c ops`  = `current_time + Σ d + tmo c ≤ DURATION_MAX  ∧  sequence + #(update | send calls) ≤ u64::MAX`
                                  (decidable; `tmo c` = the token's OWN `timeout_seconds` as a duration, 0 when not positive;
                                  `head_room_of_max`: the room `TIMEOUT_MAX_NS` = 2^31 s of the largest `i32` timeout suffices
                                  for every token);
    laws                          clock `current_time' = current_time + d`; counter `sequence ≤ sequence' ≤ sequence + 1`;
                                  the token never changes.
  No hypothesis on the AEAD, on the bytes received, on the client's state.

  Necessity of the head room (each excluded point panics):
    `clock_overflow_panics`     `current_time + d > Duration::MAX`                         → `update` panics (any client);
    `deadline_overflow_panics`  clock one second below `Duration::MAX`, a datagram just received, timeout 5 s:
                                `last_received + timeout` overflows → `update(0)` panics, while with exactly the room of the
                                token's timeout (5 s) it returns (`deadline_at_bound_returns`): the clock bound is tight for a
                                client that has just received a datagram;
    `client_send_panics_iff`    `generate_payload_packet` panics EXACTLY when the payload is sendable, the client connected and
                                `sequence = u64::MAX`;
    `counter_overflow_panics`   `update` at `sequence = u64::MAX` with a packet due panics.
-/
import RenetVerif.Lemmas.NcClientTotal
import RenetVerif.Lemmas.NcExamples
import RenetVerif.Props.C07
import RenetVerif.Props.C04C
set_option linter.unusedSimpArgs false
set_option linter.unusedVariables false
namespace RenetVerif.C07C
open RenetVerif RenetVerif.Netcode RenetVerif.Netcode.Packet RenetVerif.NcAead RenetVerif.NcClientTrace
open RenetVerif.NcClientTotal

/-! ### 1. the invariant is established by `new` -/

/-- `NetcodeClient::new` on any token `ConnectToken::read` accepted succeeds (D7 repaired) and establishes the trace invariant;
    clock `now`, counter 0 -/
theorem client_new_ctinv {src : Bytes} {t : ConnectToken} (h : ConnectToken.read src = .ok t) (now : Nat) :
    ∃ c, NetcodeClient.new now t = .ok c ∧ CTInv c ∧ c.currentTime = now ∧ c.sequence = 0 ∧ c.connectToken = t := by
  obtain ⟨c, hc⟩ := NetcodeClient.new_of_read h now
  exact ⟨c, hc, ctinv_new h hc⟩

/-- the trace invariant implies what `C07.client_update_total` needs -/
theorem ctinv_cinv {c : NetcodeClient} (h : CTInv c) : NetcodeClient.CInv c := h.cinv

/-! ### 2. every operation preserves it; clock and counter laws; exact results -/

/-- **one call** (`update d` | `process_packet bytes` | `generate_payload_packet payload` | `disconnect`) inside the head room of
    that call: it returns normally with a documented result, keeps the invariant and the token, the clock advances by exactly the
    call's duration, the counter by at most one (and only for `update` / `generate_payload_packet`) -/
theorem client_op_total (a : AEAD) {c : NetcodeClient} (op : Cl.COp) (hinv : CTInv c)
    (ht : c.currentTime + dur op + tmo c ≤ DURATION_MAX) (hseq : c.sequence + sends op ≤ U64_MAX) :
    ∃ o c', tstep a c op = some (o, c') ∧ Documented a c op o ∧ CTInv c' ∧ c'.currentTime = c.currentTime + dur op ∧
      c.sequence ≤ c'.sequence ∧ c'.sequence ≤ c.sequence + sends op ∧ c'.connectToken = c.connectToken :=
  tstep_total a op hinv ht hseq

/-- `process_packet` needs no head room at all: ARBITRARY bytes, any time -/
theorem client_process_packet_ct (a : AEAD) {c : NetcodeClient} (buf : Bytes) (hinv : CTInv c) :
    ∃ r c', NetcodeClient.processPacket a c buf = .ok (r, c') ∧ CTInv c' ∧ c'.currentTime = c.currentTime ∧
      c'.sequence = c.sequence ∧ c'.connectToken = c.connectToken ∧ (r ≠ none → c.state = .connected) :=
  pp_ct a buf hinv

/-- the exact result of `generate_payload_packet`, in every state (no invariant needed) -/
theorem client_send_exact (a : AEAD) (c : NetcodeClient) (pl : Bytes) :
    NetcodeClient.generatePayloadPacket a c pl =
      if pl.length > Netcode.C.NETCODE_MAX_PAYLOAD_BYTES then .err .payloadAboveLimit
      else if c.state ≠ .connected then .err .clientNotConnected
      else if c.sequence + 1 ≤ U64_MAX then .ok ((c.serverAddr, payloadDatagram a c pl), afterSend c)
      else .panic "client.rs generate_payload_packet: sequence += 1" :=
  send_eq a c pl

/-- `generate_payload_packet` panics EXACTLY at the excluded point of the counter head room -/
theorem client_send_panics_iff (a : AEAD) (c : NetcodeClient) (pl : Bytes) :
    (NetcodeClient.generatePayloadPacket a c pl).isPanic = true ↔
      pl.length ≤ Netcode.C.NETCODE_MAX_PAYLOAD_BYTES ∧ c.state = .connected ∧ U64_MAX < c.sequence + 1 :=
  send_panics_iff a c pl

/-- the exact result of `disconnect`: `Ok((server_addr, sealed Disconnect datagram))` in every state, whatever the counter -/
theorem client_disconnect_exact (a : AEAD) (c : NetcodeClient) :
    NetcodeClient.disconnect a c =
      (.ok (c.serverAddr, disconnectDatagram a c), { c with state := .disconnected .disconnectedByClient }) :=
  disconnect_eq a c

/-- `update` past `Duration::MAX` panics, for every client: the clock head room cannot be dropped -/
theorem clock_overflow_panics (a : AEAD) (c : NetcodeClient) (d : Nat) (h : DURATION_MAX < c.currentTime + d) :
    (NetcodeClient.update a c d).isPanic = true :=
  update_panics_of_clock a c d h

/-! ### 3. whole traces -/

/-- **`client_trace_total`**: from a client satisfying `CTInv`, along ANY trace of `update` (any duration), `process_packet`
    (ARBITRARY bytes), `generate_payload_packet` (any payload) and `disconnect` calls inside the head room, NO call panics
    (`trun … = some …`: the run reaches its end); the final client satisfies `CTInv` and holds the same token, its clock is
    `current_time + Σ d`, its counter moved by at most the number of sending calls; the log has one entry per call, every logged
    state satisfies `CTInv` and every logged result is a documented outcome of its call in its state. -/
theorem client_trace_total (a : AEAD) (ops : List Cl.COp) {c : NetcodeClient} (hinv : CTInv c) (hr : HeadRoom c ops) :
    ∃ c' log, trun a c ops = some (c', log) ∧ CTInv c' ∧ c'.currentTime = c.currentTime + totalDur ops ∧
      c.sequence ≤ c'.sequence ∧ c'.sequence ≤ c.sequence + totalSends ops ∧ c'.connectToken = c.connectToken ∧
      log.map (·.2.1) = ops ∧ ∀ x ∈ log, CTInv x.1 ∧ Documented a x.1 x.2.1 x.2.2 :=
  trun_total a ops hinv hr

/-- the room of the largest `i32` timeout (2^31 s) is enough whatever the token -/
theorem head_room_of_max {c : NetcodeClient} {ops : List Cl.COp} (hinv : CTInv c)
    (ht : c.currentTime + totalDur ops + NetcodeClient.TIMEOUT_MAX_NS ≤ DURATION_MAX)
    (hs : c.sequence + totalSends ops ≤ U64_MAX) : HeadRoom c ops :=
  headRoom_of_max hinv ht hs

/-- **… from `NetcodeClient::new`** on a token `ConnectToken::read` accepted: the head room is a condition on `now`, the token's
    timeout and the trace alone — `now + Σ d + timeout ≤ Duration::MAX` and at most `u64::MAX` sending calls -/
theorem client_trace_total_from_new (a : AEAD) {src : Bytes} {t : ConnectToken} (h : ConnectToken.read src = .ok t) (now : Nat)
    (ops : List Cl.COp) (ht : now + totalDur ops + fromSecs t.timeoutSeconds.toNat ≤ DURATION_MAX)
    (hs : totalSends ops ≤ U64_MAX) :
    ∃ c c' log, NetcodeClient.new now t = .ok c ∧ trun a c ops = some (c', log) ∧ CTInv c' ∧
      c'.currentTime = now + totalDur ops ∧ c'.sequence ≤ totalSends ops ∧ c'.connectToken = t ∧
      log.map (·.2.1) = ops ∧ ∀ x ∈ log, CTInv x.1 ∧ Documented a x.1 x.2.1 x.2.2 := by
  obtain ⟨c, hc, hinv, h1, h2, h3⟩ := client_new_ctinv h now
  obtain ⟨c', log, hrun, hi', t', -, s', k', hl, hd⟩ :=
    client_trace_total a ops hinv ⟨by unfold tmo; rw [h1, h3]; exact ht, by rw [h2, Nat.zero_add]; exact hs⟩
  exact ⟨c, c', log, hc, hrun, hi', by rw [t', h1], by rw [h2, Nat.zero_add] at s'; exact s', by rw [k', h3], hl, hd⟩

/-- the same for the runner `NcClientTrace.prun` of round 20: every trace inside the head room runs to its end, so the "the run
    succeeds" hypothesis of `C04C.client_new_payloads_at_most_once` is discharged by the head room -/
theorem client_prun_total (a : AEAD) (ops : List Cl.COp) {c : NetcodeClient} (hinv : CTInv c) (hr : HeadRoom c ops) :
    ∃ c' ps, prun a c ops = some (c', ps) ∧ CTInv c' ∧ c'.currentTime = c.currentTime + totalDur ops ∧
      c.sequence ≤ c'.sequence ∧ c'.sequence ≤ c.sequence + totalSends ops ∧ c'.connectToken = c.connectToken :=
  prun_total a ops hinv hr

/-- **C04 at-most-once without a run hypothesis**: from `new` on a token `read` accepted, along any trace inside the head room,
    the run exists, the payloads it surfaced stem from pairwise distinct sequence numbers, each is the plaintext its datagram
    opens to under the token's server-to-client key, and the stored window is the `Recv.run` window of the datagrams handed in -/
theorem client_new_payloads_at_most_once_total (a : AEAD) {src : Bytes} {t : ConnectToken} (h : ConnectToken.read src = .ok t)
    (now : Nat) (ops : List Cl.COp) (ht : now + totalDur ops + fromSecs t.timeoutSeconds.toNat ≤ DURATION_MAX)
    (hs : totalSends ops ≤ U64_MAX) :
    ∃ c c' ps, NetcodeClient.new now t = .ok c ∧ prun a c ops = some (c', ps) ∧ (C04C.surfacedSeqs ps).Nodup ∧
      (∀ x ∈ ps, x.1 ∈ recvBufs ops ∧ SealedOpen a x.1 t.protocolId t.serverToClientKey .payload x.2) ∧
      c'.replayProtection = (Recv.run a t.protocolId t.serverToClientKey (recvBufs ops)).window := by
  obtain ⟨c, hc, hinv, h1, h2, h3⟩ := client_new_ctinv h now
  obtain ⟨c', ps, hp, -⟩ :=
    client_prun_total a ops hinv ⟨by unfold tmo; rw [h1, h3]; exact ht, by rw [h2, Nat.zero_add]; exact hs⟩
  obtain ⟨q1, q2, -, q4, -⟩ := C04C.client_new_payloads_at_most_once a hc hp
  exact ⟨c, c', ps, hc, hp, q1, q2, q4⟩

/-! ### witnesses (world of `Lemmas/NcExamples.lean`: AEAD `Ex.a`, token `tokenA`, client `cA0 = new(0, tokenA)`) -/
section Examples
open NS.Ex

def okOr {ε α : Type} (d : α) : Res ε α → α
  | .ok x => x
  | _ => d

/-- the 2048 bytes of `tokenA` -/
def tokenABytes : Bytes := okOr [] tokenA.write

set_option maxRecDepth 100000 in
/-- `ConnectToken::read` accepts them: `tokenA` is a token "that `read` accepts" -/
theorem tokenA_read : ConnectToken.read tokenABytes = .ok tokenA := by decide +kernel

/-- `client_new_ctinv` instantiated -/
theorem cA0_ctinv : CTInv cA0 := by
  obtain ⟨c, hc, hi, -⟩ := client_new_ctinv tokenA_read 0
  rw [cA0_new] at hc
  cases hc
  exact hi

/-- the trace of `Props/C04C.lean`: handshake, payloads, a replay, a forgery, an outgoing payload, a clock step, `disconnect`,
    one more datagram — followed by hostile input, an over-long payload, a send while disconnected, a long clock step -/
def exOps : List Cl.COp :=
  C04C.exOps ++ [.recv [], .recv (List.replicate 1500 255), .send (List.replicate 1301 0), .send [2], .update (10 ^ 18),
    .disconnect]

theorem exOps_headRoom : HeadRoom cA0 exOps := by decide +kernel
/-- `head_room_of_max` on it -/
example : HeadRoom cA0 exOps := head_room_of_max cA0_ctinv (by decide +kernel) (by decide +kernel)

/-- what an example shows of a logged result -/
def shape : Out → String × Nat
  | .sent none => ("sent", 0)
  | .sent (some x) => ("sent", x.1.length)
  | .received none => ("received", 0)
  | .received (some p) => ("received", p.length + 1)
  | .payload r => ("payload", r.2.length)
  | .payloadErr .payloadAboveLimit => ("payloadErr: above limit", 0)
  | .payloadErr .clientNotConnected => ("payloadErr: not connected", 0)
  | .payloadErr _ => ("payloadErr", 0)
  | .disconnected r => ("disconnected", r.2.length)
  | .disconnectErr _ => ("disconnectErr", 0)

set_option maxRecDepth 100000 in
/-- **the run, evaluated**: request 1078 bytes, response 326, three payloads surfaced, the outgoing payload (19 bytes), the
    Disconnect datagram (18 bytes), then nothing but the two documented errors and a second Disconnect datagram; final clock
    and counter -/
theorem ex_run : (trun NS.Ex.a cA0 exOps).map (fun x => (x.2.map (fun e => shape e.2.2), x.1.currentTime, x.1.sequence)) =
    some ([("sent", 1078), ("received", 0), ("sent", 326), ("received", 0),
      ("received", 3), ("received", 2), ("received", 0), ("received", 0), ("received", 0), ("payload", 19), ("sent", 0),
      ("received", 4), ("received", 0), ("disconnected", 18), ("received", 0),
      ("received", 0), ("received", 0), ("payloadErr: above limit", 0), ("payloadErr: not connected", 0), ("sent", 0),
      ("disconnected", 18)], 250000000 + 1000 + 10 ^ 18, 3) := by decide +kernel

/-- `client_trace_total` on that run (its hypotheses hold; its conclusions agree with the evaluation above) -/
example : ∃ c' log, trun NS.Ex.a cA0 exOps = some (c', log) ∧ CTInv c' ∧ c'.currentTime = 250000000 + 1000 + 10 ^ 18 ∧
    c'.sequence ≤ 7 ∧ c'.connectToken = tokenA ∧ log.length = 21 ∧
    ∀ x ∈ log, Documented NS.Ex.a x.1 x.2.1 x.2.2 := by
  obtain ⟨c', log, h1, h2, h3, -, h5, h6, h7, h8⟩ := client_trace_total NS.Ex.a exOps cA0_ctinv exOps_headRoom
  refine ⟨c', log, h1, h2, ?_, ?_, h6, ?_, fun x hx => (h8 x hx).2⟩
  · rw [h3]; decide +kernel
  · exact Nat.le_trans h5 (by decide +kernel)
  · rw [← List.length_map (f := (·.2.1)), h7]; decide +kernel

/-- `client_trace_total_from_new` / `client_new_payloads_at_most_once_total` on the same input: from the token BYTES -/
example : ∃ c c' log, NetcodeClient.new 0 tokenA = .ok c ∧ trun NS.Ex.a c exOps = some (c', log) ∧ CTInv c' :=
  let ⟨c, c', log, h1, h2, h3, _⟩ := client_trace_total_from_new NS.Ex.a tokenA_read 0 exOps (by decide +kernel) (by decide +kernel)
  ⟨c, c', log, h1, h2, h3⟩
example : ∃ c c' ps, NetcodeClient.new 0 tokenA = .ok c ∧ prun NS.Ex.a c exOps = some (c', ps) ∧ (C04C.surfacedSeqs ps).Nodup :=
  let ⟨c, c', ps, h1, h2, h3, _⟩ :=
    client_new_payloads_at_most_once_total NS.Ex.a tokenA_read 0 exOps (by decide +kernel) (by decide +kernel)
  ⟨c, c', ps, h1, h2, h3⟩

/-- `client_op_total` on one call: hostile bytes to the fresh client -/
example : ∃ o c', tstep NS.Ex.a cA0 (.recv (List.replicate 40 255)) = some (o, c') ∧ CTInv c' :=
  let ⟨o, c', h1, _, h3, _⟩ := client_op_total NS.Ex.a (.recv (List.replicate 40 255)) cA0_ctinv (by decide +kernel)
    (by decide +kernel)
  ⟨o, c', h1, h3⟩

/-! the excluded points panic -/

/-- client A connected (after the handshake) -/
def cConn : NetcodeClient := { cA0 with state := .connected, sequence := 2 }

/-- the clock at `Duration::MAX`: one more nanosecond panics (`clock_overflow_panics` instantiated, and evaluated) -/
example : (NetcodeClient.update NS.Ex.a { cConn with currentTime := DURATION_MAX } 1).isPanic = true :=
  clock_overflow_panics NS.Ex.a _ 1 (by decide +kernel)
example : (NetcodeClient.update NS.Ex.a { cConn with currentTime := DURATION_MAX } 1).isPanic = true := by decide +kernel

/-- connected, clock and last receive time `room` below `Duration::MAX` -/
def cLate (room : Nat) : NetcodeClient :=
  { cConn with currentTime := DURATION_MAX - room, lastPacketReceivedTime := DURATION_MAX - room }

/-- the clock one second below `Duration::MAX`, the last datagram just received, a 5 s timeout: `update(0)` stays below
    `Duration::MAX` — and panics in `last_packet_received_time + timeout` -/
theorem deadline_overflow_panics : (NetcodeClient.update NS.Ex.a (cLate (10 ^ 9)) 0).isPanic = true := by decide +kernel
/-- … while with exactly the room of the token's timeout (`HeadRoom` holds with equality) it returns -/
theorem deadline_at_bound_returns : (NetcodeClient.update NS.Ex.a (cLate (5 * 10 ^ 9)) 0).isPanic = false := by decide +kernel
example : (cLate (5 * 10 ^ 9)).currentTime + 0 + tmo (cLate (5 * 10 ^ 9)) = DURATION_MAX := by decide +kernel
example : ¬ HeadRoom (cLate (10 ^ 9)) [.update 0] := by decide +kernel

/-- the counter at `u64::MAX`: `generate_payload_packet` panics (`client_send_panics_iff`), … -/
example : (NetcodeClient.generatePayloadPacket NS.Ex.a { cConn with sequence := U64_MAX } [1]).isPanic = true :=
  (client_send_panics_iff NS.Ex.a _ [1]).mpr ⟨by decide, rfl, by decide +kernel⟩
/-- … `update` with a keep-alive due panics, … -/
theorem counter_overflow_panics : (NetcodeClient.update NS.Ex.a { cConn with sequence := U64_MAX } 0).isPanic = true := by
  decide +kernel
/-- … one below it both return, and `disconnect` returns even at `u64::MAX` (it does not advance the counter) -/
example : (NetcodeClient.generatePayloadPacket NS.Ex.a { cConn with sequence := U64_MAX - 1 } [1]).isPanic = false := by
  decide +kernel
example : (NetcodeClient.update NS.Ex.a { cConn with sequence := U64_MAX - 1 } 0).isPanic = false := by decide +kernel
example : (NetcodeClient.disconnect NS.Ex.a { cConn with sequence := U64_MAX }).1.isPanic = false := by
  rw [client_disconnect_exact]; rfl

end Examples

end RenetVerif.C07C
