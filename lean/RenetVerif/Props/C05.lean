/-
  C05 — Only a valid, unexpired, untampered connect token from its own address connects.

  Model: RenetVerif/Netcode/Server.lean, Token.lean, Wire.lean (renetcode/src/{server,token,packet}.rs, repaired:
  the response path compares the challenge token's id and user data with the half-open session — defect D10).
  Proofs: Lemmas/NcHandshake.lean on top of the symbolic execution of `process_packet` (Lemmas/NcTablePP.lean).
  The AEAD is a parameter; no theorem assumes unforgeability: "authenticates" always means "the AEAD's `open`
  succeeded under that key / nonce / AAD".  `ServerInv`: Props/C10.lean.

  `Accepted a s addr v pid expire xnonce data t` (Lemmas/NcTablePP.lean) = every check a connection request passes
  before the server answers it:
    version   v = NETCODE_VERSION_INFO                protocol   pid = s.protocolId
    unexpired now.secs < expire                       opens      the private token `data` xopens under s.connectKey,
                                                                 nonce `xnonce`, AAD = version ‖ protocol ‖ expire,
                                                                 and parses to the private token `t`
    host      secure ⇒ some address listed in `t` ∈ s.publicAddresses
    addrFree / idFree   neither `addr` nor `t.clientId` is connected          room   pending map not full
    binding   no token entry carries this token's MAC with another address
-/
import RenetVerif.Lemmas.NcExamples
namespace RenetVerif.C05
open RenetVerif RenetVerif.Netcode RenetVerif.Netcode.NS

/-- **`connected_only_if`** — `process_packet` reports `ClientConnected id addr' ud` only if: the datagram came from
    `addr' = addr`; `addr` had a half-open session `p` with `p.clientId = id` and `p.userData = ud`; the datagram
    decodes under `p`'s client-to-server key to a `Response` whose challenge token opens under this server's
    challenge key to **exactly `(id, ud)`** (D10 repaired); `id` and `addr` were not connected and slot `i` was free.
    The new session is `p` promoted, the half-open one is gone, the answer is the keep-alive for slot `i`. -/
theorem connected_only_if {a : AEAD} {s s' : NetcodeServer} {addr addr' : Addr} {buf ud ka : Bytes} {id : Nat}
    (hi : ServerInv s) (h : s.processPacket a addr buf = .ok (.clientConnected id addr' ud ka, s')) :
    addr' = addr ∧ ∃ p sq ts td w' i,
      pendingFind s.pendingClients addr = some p ∧ p.clientId = id ∧ p.userData = ud ∧ p.addr = addr ∧
      findClientByAddr s.clients addr = none ∧ findClientById s.clients id = none ∧
      Packet.decode a buf s.protocolId (some p.receiveKey) (some p.replayProtection) =
        (.ok (sq, .response ts td), some w') ∧
      ChallengeToken.decode a td ts s.challengeKey = .ok ⟨id, ud⟩ ∧
      firstFreeSlot s.clients = some i ∧
      s'.clients = s.clients.set i (some (promoted p w' s.currentTime)) ∧
      s'.pendingClients = pendingRemove s.pendingClients addr ∧
      (Packet.keepAlive (i % 2 ^ 32) (s.maxClients % 2 ^ 32)).encode a Netcode.C.NETCODE_MAX_PACKET_BYTES s.protocolId
        (some (p.sequence, p.sendKey)) = .ok ka :=
  NS.connected_only_if hi h

/-- `ClientConnected` is reported by `process_packet` only (never by update / disconnect / …) -/
theorem connected_is_packet {a : AEAD} {s s' : NetcodeServer} {op : Op} {id : Nat} {ad : Addr} {ud ka : Bytes}
    (hi : ServerInv s) (h : step a s op = some (.clientConnected id ad ud ka, s')) :
    ∃ buf, op = .packet ad buf ∧ s.processPacket a ad buf = .ok (.clientConnected id ad ud ka, s') :=
  step_connected_is_packet hi h

/-- **`pending_only_if`** — after `process_packet`, a half-open session for address `x` either was there before with
    the same identity (id, address, user data, both keys, timeout, expiry) or was created by this very datagram:
    then `x = addr`, the datagram is a connection request `Accepted` for the current state, fewer than `max_clients`
    clients are connected, and the session's fields are exactly those of the opened token
    (`mkPending now addr expire t`). -/
theorem pending_only_if {a : AEAD} {s s' : NetcodeServer} {addr : Addr} {buf : Bytes} {r : ServerResult}
    (hi : ServerInv s) (h : s.processPacket a addr buf = .ok (r, s')) {x : Addr} {p' : Connection}
    (hp : pendingFind s'.pendingClients x = some p') :
    (∃ p, pendingFind s.pendingClients x = some p ∧ ident p' = ident p) ∨
    (x = addr ∧ ∃ v pid expire xnonce data t,
      (Packet.decode a buf s.protocolId none none).1 = .ok (0, .connectionRequest v pid expire xnonce data) ∧
      Accepted a s addr v pid expire xnonce data t ∧ countConnected s.clients < s.maxClients ∧
      p' = mkPending s.currentTime addr expire t) :=
  NS.pending_only_if hi h hp

/-- **The whole positive half of C05** over all histories (`ReachH a s hist`: `s` reachable from `new` by any
    operations, `hist` = the datagrams processed so far with the states they met): `ClientConnected id addr ud` is
    reported only after a connection request *from the same address* that was `Accepted` — so its private token
    authenticated under the server's key and protocol id, was unexpired, listed one of the server's addresses —,
    **the reported id and user data are exactly those sealed in that token**, and the present datagram is a response
    (sealed under that token's client-to-server key) echoing a challenge token that opens under this server's
    challenge key to that id and user data. -/
theorem connected_only_after_request {a : AEAD} {s s' : NetcodeServer} {hist : List Arrival} (hr : ReachH a s hist)
    {addr addr' : Addr} {buf ud ka : Bytes} {id : Nat}
    (h : s.processPacket a addr buf = .ok (.clientConnected id addr' ud ka, s')) :
    addr' = addr ∧
    ∃ ar ∈ hist, ar.addr = addr ∧ ∃ v pid expire xnonce data t,
      (Packet.decode a ar.buf ar.s.protocolId none none).1 = .ok (0, .connectionRequest v pid expire xnonce data) ∧
      Accepted a ar.s addr v pid expire xnonce data t ∧ countConnected ar.s.clients < ar.s.maxClients ∧
      t.clientId = id ∧ t.userData = ud ∧
      ∃ sq ts td w' rk, Packet.decode a buf s.protocolId (some t.clientToServerKey) (some rk) =
          (.ok (sq, .response ts td), some w') ∧
        ChallengeToken.decode a td ts s.challengeKey = .ok ⟨id, ud⟩ :=
  NS.connected_only_after_request hr h

/-! ## the negative half: every wrong request ends without a session -/

/-- **A connection request failing any check of `Accepted` produces nothing**: result `None`, the connected sessions
    as before, and every half-open session was there before with the same identity. -/
theorem rejected_request {a : AEAD} {s s' : NetcodeServer} {addr : Addr} {buf : Bytes} {r : ServerResult}
    (hi : ServerInv s) (h : s.processPacket a addr buf = .ok (r, s')) {v : Bytes} {pid expire : Nat}
    {xnonce data : Bytes}
    (hdec : (Packet.decode a buf s.protocolId none none).1 = .ok (0, .connectionRequest v pid expire xnonce data))
    (hno : ∀ t, ¬ Accepted a s addr v pid expire xnonce data t) :
    r = .none ∧ sessions s'.clients = sessions s.clients ∧
    ∀ y p', pendingFind s'.pendingClients y = some p' → ∃ p, pendingFind s.pendingClients y = some p ∧ ident p' = ident p :=
  processPacket_rejects hi h hdec hno

/-- expired token (`expire ≤ now.secs`) -/
theorem expired {a : AEAD} {s : NetcodeServer} {addr : Addr} {v : Bytes} {pid expire : Nat} {xnonce data : Bytes}
    (h : expire ≤ asSecs s.currentTime) (t : PrivateConnectToken) : ¬ Accepted a s addr v pid expire xnonce data t :=
  not_accepted_expired h t

/-- token for another protocol id (public field) -/
theorem foreign_protocol {a : AEAD} {s : NetcodeServer} {addr : Addr} {v : Bytes} {pid expire : Nat}
    {xnonce data : Bytes} (h : pid ≠ s.protocolId) (t : PrivateConnectToken) :
    ¬ Accepted a s addr v pid expire xnonce data t := not_accepted_protocol h t

/-- the private token does not open under (server key, xnonce, version ‖ server protocol id ‖ claimed expiry):
    tampered ciphertext or tag, tampered public expiry or protocol id, token sealed with a foreign key -/
theorem tampered_or_foreign_key {a : AEAD} {s : NetcodeServer} {addr : Addr} {v : Bytes} {pid expire : Nat}
    {xnonce data : Bytes}
    (h : a.xopen s.connectKey xnonce (PrivateConnectToken.additionalData s.protocolId expire) data = none)
    (t : PrivateConnectToken) : ¬ Accepted a s addr v pid expire xnonce data t := not_accepted_xopen h t

/-- secure mode and no address sealed in the token is one of the server's public addresses -/
theorem wrong_host {a : AEAD} {s : NetcodeServer} {addr : Addr} {v : Bytes} {pid expire : Nat} {xnonce data : Bytes}
    {t : PrivateConnectToken} (hs : s.secure = true) (ht : TokenOpens a s expire xnonce data t)
    (hh : ∀ x, some x ∈ t.serverAddresses → x ∉ s.publicAddresses) (t' : PrivateConnectToken) :
    ¬ Accepted a s addr v pid expire xnonce data t' := not_accepted_host hs ht hh t'

/-- the exact answers of `handle_connection_request` for the header checks and the AEAD failure -/
theorem expired_error {a : AEAD} {s : NetcodeServer} {addr : Addr} {expire : Nat} {xnonce data : Bytes}
    (h : expire ≤ asSecs s.currentTime) :
    NetcodeServer.handleConnectionRequest a s addr Netcode.C.NETCODE_VERSION_INFO s.protocolId expire xnonce data =
      .err (.expired, s) := hcr_expired h
theorem protocol_error {a : AEAD} {s : NetcodeServer} {addr : Addr} {pid expire : Nat} {xnonce data : Bytes}
    (h : pid ≠ s.protocolId) :
    NetcodeServer.handleConnectionRequest a s addr Netcode.C.NETCODE_VERSION_INFO pid expire xnonce data =
      .err (.invalidProtocolID, s) := hcr_invalid_protocol h
theorem crypto_error {a : AEAD} {s : NetcodeServer} {addr : Addr} {expire : Nat} {xnonce data : Bytes}
    (hx : asSecs s.currentTime < expire) (hd : Netcode.C.NETCODE_MAC_BYTES ≤ data.length)
    (h : a.xopen s.connectKey xnonce (PrivateConnectToken.additionalData s.protocolId expire) data = none) :
    NetcodeServer.handleConnectionRequest a s addr Netcode.C.NETCODE_VERSION_INFO s.protocolId expire xnonce data =
      .err (.tokenGenerationError .cryptoError, s) := hcr_crypto_error hx hd h

/-- **`token_address_binding_partial`** — a token whose MAC is still recorded in the token-entry table with address
    `e.address` is refused from every other address: no result, no session, no half-open session.
    MISSING for the clause "a token already used from a different address never produces a connection": the table has
    `NETCODE_TOKEN_ENTRIES` = 2048 entries without expiry; when all are occupied `find_or_add_connect_token_entry`
    overwrites one (the oldest) — `binding_lost_when_full` below —, so after 2048 *other* tokens have been accepted the
    binding of a still unexpired token is forgotten and the same token is accepted from a new address (its half-open
    session is then created from that address).  Within the token's lifetime this needs 2048 further valid tokens. -/
theorem token_address_binding_partial {a : AEAD} {s s' : NetcodeServer} {addr : Addr} {buf : Bytes} {r : ServerResult}
    (hi : ServerInv s) (h : s.processPacket a addr buf = .ok (r, s')) {v : Bytes} {pid expire : Nat}
    {xnonce data : Bytes}
    (hdec : (Packet.decode a buf s.protocolId none none).1 = .ok (0, .connectionRequest v pid expire xnonce data))
    {e : ConnectTokenEntry} (he : some e ∈ s.connectTokenEntries) (hm : e.mac = tokenMac data) (ha : e.address ≠ addr) :
    r = .none ∧ sessions s'.clients = sessions s.clients ∧
    ∀ y p', pendingFind s'.pendingClients y = some p' → ∃ p, pendingFind s.pendingClients y = some p ∧ ident p' = ident p :=
  NS.token_address_binding_partial hi h hdec he hm ha

/-- what is missing, as a theorem: when the table is full and a token with a new MAC is accepted, some recorded entry
    `e_old` is overwritten, its MAC is gone from the table, and the token-to-address check then passes for that MAC
    from *any* address -/
theorem binding_lost_when_full {s : NetcodeServer} (hi : ServerInv s) {ne : ConnectTokenEntry}
    (hn : ∀ e, some e ∈ s.connectTokenEntries → e.mac ≠ ne.mac) (hfull : ∀ x ∈ s.connectTokenEntries, x ≠ none) :
    ∃ k e_old, s.connectTokenEntries[k]? = some (some e_old) ∧
      s.findOrAddConnectTokenEntry ne = ({ s with connectTokenEntries := s.connectTokenEntries.set k (some ne) }, true) ∧
      (∀ e, some e ∈ (s.findOrAddConnectTokenEntry ne).1.connectTokenEntries → e.mac ≠ e_old.mac) ∧
      ∀ addr', ((s.findOrAddConnectTokenEntry ne).1.findOrAddConnectTokenEntry ⟨s.currentTime, addr', e_old.mac⟩).2 = true :=
  NS.binding_lost_when_full hi hn hfull

/-! ## the negative half: responses -/

/-- **Responses carrying anything but the matching challenge never produce a connection**: if every way the datagram
    decodes (under the half-open session's key) to a `Response` has a challenge token that does not open under the
    server's challenge key to that session's `(id, user data)`, no `ClientConnected` is reported. -/
theorem response_needs_matching_challenge {a : AEAD} {s s' : NetcodeServer} {addr : Addr} {buf : Bytes}
    {r : ServerResult} (hi : ServerInv s) (h : s.processPacket a addr buf = .ok (r, s'))
    (hbad : ∀ p sq ts td w', pendingFind s.pendingClients addr = some p →
      Packet.decode a buf s.protocolId (some p.receiveKey) (some p.replayProtection) = (.ok (sq, .response ts td), some w') →
      ChallengeToken.decode a td ts s.challengeKey ≠ .ok ⟨p.clientId, p.userData⟩) :
    ∀ id ad ud ka, r ≠ .clientConnected id ad ud ka := NS.response_needs_matching_challenge hi h hbad

/-- a response (or anything else) from an address without half-open session never connects -/
theorem no_pending_no_connection {a : AEAD} {s s' : NetcodeServer} {addr : Addr} {buf : Bytes} {r : ServerResult}
    (hi : ServerInv s) (h : s.processPacket a addr buf = .ok (r, s'))
    (hnp : pendingFind s.pendingClients addr = none) : ∀ id ad ud ka, r ≠ .clientConnected id ad ud ka :=
  NS.no_pending_no_connection hi h hnp

/-! ## examples (toy AEAD `Ex.a`, world of Lemmas/NcExamples.lean) -/
section Examples
open Ex

theorem inv_s1 : ServerInv s1 := step_inv s0_empty.inv s_request
theorem reachH_s1 : ReachH a s1 [⟨s0, addrA, reqA⟩] := .step (.init s0_empty) s_request

/-- the honest handshake meets the hypotheses of `connected_only_if` / `connected_only_after_request` -/
example : addrA = addrA ∧ ∃ p sq ts td w' i,
      pendingFind s1.pendingClients addrA = some p ∧ p.clientId = 11 ∧ p.userData = udA ∧ p.addr = addrA ∧
      findClientByAddr s1.clients addrA = none ∧ findClientById s1.clients 11 = none ∧
      Packet.decode a respA s1.protocolId (some p.receiveKey) (some p.replayProtection) =
        (.ok (sq, .response ts td), some w') ∧
      ChallengeToken.decode a td ts s1.challengeKey = .ok ⟨11, udA⟩ ∧
      firstFreeSlot s1.clients = some i ∧
      s2.clients = s1.clients.set i (some (promoted p w' s1.currentTime)) ∧
      s2.pendingClients = pendingRemove s1.pendingClients addrA ∧
      (Packet.keepAlive (i % 2 ^ 32) (s1.maxClients % 2 ^ 32)).encode a Netcode.C.NETCODE_MAX_PACKET_BYTES s1.protocolId
        (some (p.sequence, p.sendKey)) = .ok kaA :=
  connected_only_if inv_s1 (pp_of_step s_response)

example : ∃ ar ∈ [(⟨s0, addrA, reqA⟩ : Arrival)], ar.addr = addrA ∧ ∃ v pid expire xnonce data t,
      (Packet.decode a ar.buf ar.s.protocolId none none).1 = .ok (0, .connectionRequest v pid expire xnonce data) ∧
      Accepted a ar.s addrA v pid expire xnonce data t ∧ countConnected ar.s.clients < ar.s.maxClients ∧
      t.clientId = 11 ∧ t.userData = udA ∧
      ∃ sq ts td w' rk, Packet.decode a respA s1.protocolId (some t.clientToServerKey) (some rk) =
          (.ok (sq, .response ts td), some w') ∧
        ChallengeToken.decode a td ts s1.challengeKey = .ok ⟨11, udA⟩ :=
  (connected_only_after_request reachH_s1 (pp_of_step s_response)).2

/-- the half-open session of `s1` was created by A's request, from A's token -/
example : (∃ p, pendingFind s0.pendingClients addrA = some p ∧ ident pendA = ident p) ∨
    (addrA = addrA ∧ ∃ v pid expire xnonce data t,
      (Packet.decode a reqA s0.protocolId none none).1 = .ok (0, .connectionRequest v pid expire xnonce data) ∧
      Accepted a s0 addrA v pid expire xnonce data t ∧ countConnected s0.clients < s0.maxClients ∧
      pendA = mkPending s0.currentTime addrA expire t) :=
  pending_only_if s0_empty.inv (pp_of_step s_request) (x := addrA) (p' := pendA) (by decide +kernel)

/-- expired: the server's clock is at the expiry second (30 s) -/
example : ∀ r s', sLate.processPacket a addrA reqA = .ok (r, s') → r = .none ∧ sessions s'.clients = sessions sLate.clients :=
  fun r s' h => ⟨(rejected_request sLate_empty.inv h (reqA_decodes _) (expired (by decide))).1,
    (rejected_request sLate_empty.inv h (reqA_decodes _) (expired (by decide))).2.1⟩
example : sLate.processPacket a addrA reqA = .ok (.none, sLate) := by decide +kernel

/-- foreign protocol id: the server speaks protocol 43 -/
example : ∀ r s', sPid.processPacket a addrA reqA = .ok (r, s') → r = .none :=
  fun r s' h => (rejected_request sPid_empty.inv h (reqA_decodes _) (foreign_protocol (by decide))).1

/-- tampered token (last tag byte changed): the AEAD does not open -/
example : ∀ r s', s0.processPacket a addrA reqT = .ok (r, s') → r = .none :=
  fun r s' h => (rejected_request s0_empty.inv h reqT_decodes (tampered_or_foreign_key (by decide +kernel))).1
example : s0.processPacket a addrA reqT = .ok (.none, s0) := by decide +kernel

/-- wrong host: the server's public address is not the one sealed in the token -/
example : ∀ r s', sHost.processPacket a addrA reqA = .ok (r, s') → r = .none :=
  fun r s' h => (rejected_request sHost_empty.inv h (reqA_decodes _)
    (wrong_host rfl (privA_opens sHost rfl) (by
      intro x hx
      have : x = srvAddr := by
        simp only [privA, List.mem_cons, Option.some.injEq, List.mem_replicate, reduceCtorEq, and_false, or_false] at hx
        exact hx
      subst this; decide))).1

/-- A's token presented from B's address while its MAC is recorded for A's address -/
example : ∀ r s', s1.processPacket a addrB reqA = .ok (r, s') → r = .none ∧ sessions s'.clients = sessions s1.clients :=
  fun r s' h =>
    have := token_address_binding_partial inv_s1 h (reqA_decodes _) (e := ⟨0, addrA, macA⟩)
      (by simp [s1]) (by decide +kernel) (by decide)
    ⟨this.1, this.2.1⟩
example : s1.processPacket a addrB reqA = .ok (.none, s1) := by decide +kernel

/-- a response from A's address echoing the challenge of another id / user data does not connect -/
example : ∀ r s', s1.processPacket a addrA respBad = .ok (r, s') → ∀ id ad ud ka, r ≠ .clientConnected id ad ud ka :=
  fun r s' h => response_needs_matching_challenge inv_s1 h (by
    intro p sq ts td w' hp hd
    have hp' : p = pendA := by
      have : pendingFind s1.pendingClients addrA = some pendA := by decide +kernel
      rw [this] at hp; cases hp; rfl
    subst hp'
    have hd' : Packet.decode a respBad 42 (some kc2s) (some RP.new) = (.ok (sq, .response ts td), some w') := hd
    rw [respBad_decodes] at hd'
    cases hd'
    have : s1.challengeKey = ckey := rfl
    rw [this, chalTokB_opens]
    decide)

/-- the response from an address without half-open session -/
example : ∀ r s', s1.processPacket a addrB respA = .ok (r, s') → ∀ id ad ud ka, r ≠ .clientConnected id ad ud ka :=
  fun r s' h => no_pending_no_connection inv_s1 h (by decide +kernel)

example : ∃ buf, Op.packet addrA respA = .packet addrA buf ∧
    s1.processPacket a addrA buf = .ok (.clientConnected 11 addrA udA kaA, s2) := connected_is_packet inv_s1 s_response

/-- the exact errors: A's token at the expiry second; for protocol 43; with a broken tag -/
example : NetcodeServer.handleConnectionRequest a sLate addrA Netcode.C.NETCODE_VERSION_INFO sLate.protocolId 30 xnA
    privDataA = .err (.expired, sLate) := expired_error (by decide)
example : NetcodeServer.handleConnectionRequest a sPid addrA Netcode.C.NETCODE_VERSION_INFO 42 30 xnA privDataA =
    .err (.invalidProtocolID, sPid) := protocol_error (by decide)
example : NetcodeServer.handleConnectionRequest a s0 addrA Netcode.C.NETCODE_VERSION_INFO s0.protocolId 30 xnA
    privDataT = .err (.tokenGenerationError .cryptoError, s0) :=
  crypto_error (by decide) (by decide +kernel) (by decide +kernel)

/-- a full (3-entry) token table: accepting a token with a new MAC overwrites an entry, after which the overwritten
    token's MAC is accepted from any address -/
example : ∃ (k : Nat) (e_old : ConnectTokenEntry), sFull.connectTokenEntries[k]? = some (some e_old) ∧
    ∀ addr', ((sFull.findOrAddConnectTokenEntry ⟨4, addrA, List.replicate 15 0 ++ [35]⟩).1.findOrAddConnectTokenEntry
      ⟨sFull.currentTime, addr', e_old.mac⟩).2 = true := by
  obtain ⟨k, e_old, h1, _, _, h4⟩ := binding_lost_when_full sFull_inv (ne := ⟨4, addrA, List.replicate 15 0 ++ [35]⟩)
    (by
      intro e he
      simp only [sFull, List.mem_cons, Option.some.injEq, List.not_mem_nil, or_false] at he
      rcases he with rfl | rfl | rfl <;> decide)
    (by
      intro x hx
      simp only [sFull, List.mem_cons, List.not_mem_nil, or_false] at hx
      rcases hx with rfl | rfl | rfl <;> simp)
  exact ⟨k, e_old, h1, h4⟩

end Examples
end RenetVerif.C05
