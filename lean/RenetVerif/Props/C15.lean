/-
  C15 — a reliable message/slice is not transmitted again earlier than `resend_time` after its previous transmission;
  it is transmitted by the first flush at which `resend_time` has elapsed while it is unacked and the budget allows;
  it is never transmitted after it was acked (= removed from `unacked`).

  All statements are about one `SendRel.getPackets s seq avail now = (s', ps, seq', avail')` (reliable.rs:94-202).
  "due" for a `last_sent` stamp `ls`:  `ls = none ∨ ∃ t, ls = some t ∧ resend ≤ now - t`.
  Proofs: Lemmas/Flush.lean.
-/
import RenetVerif.Lemmas.Flush
namespace RenetVerif.C15
open RenetVerif C

/-! ### not earlier than `resend_time` -/

/-- A small message last sent less than `resend_time` ago keeps its stamp and (keys being distinct, as in any map)
    is in no packet of this flush. -/
theorem small_not_early {s s' : SendRel} {seq avail now seq' avail' : Nat} {ps : List Packet}
    (h : s.getPackets seq avail now = (s', ps, seq', avail')) {id t : Nat} {m : Bytes}
    (hf : SMap.find? s.unacked id = some (.small m (some t))) (hlt : now - t < s.resend) :
    SMap.find? s'.unacked id = some (.small m (some t)) ∧
    ((SMap.keys s.unacked).Nodup → ∀ sq c msgs, Packet.smallReliable sq c msgs ∈ ps → ∀ x ∈ msgs, x.1 ≠ id) :=
  SendRel.small_not_early h hf hlt

/-- A slice that is acked, or was last sent less than `resend_time` ago, keeps its stamp and is in no packet of this
    flush. -/
theorem slice_not_early {s s' : SendRel} {seq avail now seq' avail' : Nat} {ps : List Packet}
    (h : s.getPackets seq avail now = (s', ps, seq', avail')) {id n na nx i : Nat} {m : Bytes} {ak : List Bool}
    {ls : List (Option Nat)}
    (hf : SMap.find? s.unacked id = some (.sliced m n na nx ak ls))
    (hskip : ak.getD i false = true ∨ ∃ t, ls.getD i none = some t ∧ now - t < s.resend) :
    (∃ nx' ls', SMap.find? s'.unacked id = some (.sliced m n na nx' ak ls') ∧ ls'.getD i none = ls.getD i none) ∧
    ((SMap.keys s.unacked).Nodup → ∀ sq c sl, Packet.reliableSlice sq c sl ∈ ps → sl.messageId = id → sl.sliceIndex ≠ i) :=
  SendRel.slice_not_early h hf hskip

/-- Every entry is transformed by `EntryStep`: message, slice count and ack bits unchanged; each `last_sent` slot is
    either untouched or was due (and unacked) and now holds `now`.  No entry appears or disappears. -/
theorem entry_step {s s' : SendRel} {seq avail now seq' avail' : Nat} {ps : List Packet}
    (h : s.getPackets seq avail now = (s', ps, seq', avail')) (id : Nat) :
    (SMap.find? s.unacked id = none ∧ SMap.find? s'.unacked id = none) ∨
    ∃ u u', SMap.find? s.unacked id = some u ∧ SMap.find? s'.unacked id = some u' ∧ EntryStep now s.resend u u' :=
  SendRel.getPackets_entry h id

/-! ### every transmission is genuine, was due, and is stamped `now` -/

/-- Every `(id, payload)` of an emitted small-message packet is the `Small` entry stored under `id`, which was due;
    afterwards its stamp is `some now`. -/
theorem small_emitted {s s' : SendRel} {seq avail now seq' avail' : Nat} {ps : List Packet}
    (h : s.getPackets seq avail now = (s', ps, seq', avail')) (hn : (SMap.keys s.unacked).Nodup)
    {sq c : Nat} {msgs : List (Nat × Bytes)} (hp : Packet.smallReliable sq c msgs ∈ ps) :
    c = s.ch ∧ ∀ x ∈ msgs, ∃ ls, SMap.find? s.unacked x.1 = some (.small x.2 ls) ∧
      (ls = none ∨ ∃ t, ls = some t ∧ s.resend ≤ now - t) ∧
      SMap.find? s'.unacked x.1 = some (.small x.2 (some now)) :=
  SendRel.small_emitted h hn hp

/-- Every emitted slice packet is slice `i < n` of the `Sliced` entry stored under its message id, cut by the
    sender's rule, was not acked and was due; afterwards its slot holds `some now` (the table having a slot `i`). -/
theorem slice_emitted {s s' : SendRel} {seq avail now seq' avail' : Nat} {ps : List Packet}
    (h : s.getPackets seq avail now = (s', ps, seq', avail')) (hn : (SMap.keys s.unacked).Nodup)
    {sq c : Nat} {sl : Slice} (hp : Packet.reliableSlice sq c sl ∈ ps) :
    c = s.ch ∧ ∃ m na nx ak ls nx' ls',
      SMap.find? s.unacked sl.messageId = some (.sliced m sl.numSlices na nx ak ls) ∧
      sl.sliceIndex < sl.numSlices ∧ sl.payload = sliceBytes m sl.numSlices sl.sliceIndex ∧
      ak.getD sl.sliceIndex false = false ∧
      (ls.getD sl.sliceIndex none = none ∨ ∃ t, ls.getD sl.sliceIndex none = some t ∧ s.resend ≤ now - t) ∧
      SMap.find? s'.unacked sl.messageId = some (.sliced m sl.numSlices na nx' ak ls') ∧
      (sl.sliceIndex < ls.length → ls'.getD sl.sliceIndex none = some now) :=
  SendRel.slice_emitted h hn hp

/-- Genuineness (membership form, no side condition; used by C01): a reliable flush emits only small-message packets
    of its own channel whose every `(id, payload)` is a `Small` entry of `unacked`, and slice packets that are slice
    `i < n` of a `Sliced` entry of `unacked`. -/
theorem genuine {s s' : SendRel} {seq avail now seq' avail' : Nat} {ps : List Packet}
    (h : s.getPackets seq avail now = (s', ps, seq', avail')) : ∀ p ∈ ps, GenuineRel s.ch s.unacked p :=
  SendRel.getPackets_genuine h

/-- … in `find?` form, for maps with distinct keys. -/
theorem genuine_find {s s' : SendRel} {seq avail now seq' avail' : Nat} {ps : List Packet}
    (h : s.getPackets seq avail now = (s', ps, seq', avail')) (hn : (SMap.keys s.unacked).Nodup) :
    ∀ p ∈ ps, GenuineRelFind s.ch s.unacked p :=
  fun p hp => (SendRel.getPackets_genuine h p hp).toFind hn

/-! ### never after the ack -/

/-- An id absent from `unacked` — its ack removed it — occurs in no packet of the flush. -/
theorem acked_never {s s' : SendRel} {seq avail now seq' avail' : Nat} {ps : List Packet}
    (h : s.getPackets seq avail now = (s', ps, seq', avail')) {id : Nat} (hf : SMap.find? s.unacked id = none) :
    (∀ sq c msgs, Packet.smallReliable sq c msgs ∈ ps → ∀ x ∈ msgs, x.1 ≠ id) ∧
    (∀ sq c sl, Packet.reliableSlice sq c sl ∈ ps → sl.messageId ≠ id) :=
  SendRel.acked_never h hf

/-! ### transmitted by the first flush at which it is due and the budget allows -/

/-- Small message, exact form.  "The budget allows" is the code's own test at the message's turn: after the entries
    with smaller ids (`pre`) have been served, the remaining budget covers the message length. -/
theorem small_live_at_turn {s s' : SendRel} {seq avail now seq' avail' : Nat} {ps : List Packet}
    (h : s.getPackets seq avail now = (s', ps, seq', avail'))
    {pre post : SMap Unacked} {id : Nat} {m : Bytes} {ls : Option Nat}
    (hun : s.unacked = pre ++ (id, .small m ls) :: post)
    (hdue : ls = none ∨ ∃ t, ls = some t ∧ s.resend ≤ now - t)
    (hav : m.length ≤ (relLoop s.ch now s.resend pre ⟨[], [], 0, seq, avail⟩).2.avail) :
    ∃ sq msgs, Packet.smallReliable sq s.ch msgs ∈ ps ∧ (id, m) ∈ msgs :=
  SendRel.small_live_at_turn h hun hdue hav

/-- Small message, simple form: if what is left of the budget after the flush still covers the message, a due
    unacked message was transmitted by this flush. -/
theorem small_live {s s' : SendRel} {seq avail now seq' avail' : Nat} {ps : List Packet}
    (h : s.getPackets seq avail now = (s', ps, seq', avail'))
    {id : Nat} {m : Bytes} {ls : Option Nat}
    (hf : SMap.find? s.unacked id = some (.small m ls))
    (hdue : ls = none ∨ ∃ t, ls = some t ∧ s.resend ≤ now - t)
    (hav : m.length ≤ avail') :
    ∃ sq msgs, Packet.smallReliable sq s.ch msgs ∈ ps ∧ (id, m) ∈ msgs :=
  SendRel.small_live h hf hdue hav

/-- Slice, exact form.  The code accepts a slice when at least `SLICE_SIZE` bytes of budget remain at its turn — after
    the entries `pre` and, inside this message's loop `for i in 0..n`, after the loop indices `a` that precede `i0`;
    the slice handled at loop index `i0` is `(next_slice_to_send + i0) % n`. -/
theorem slice_live_at_turn {s s' : SendRel} {seq avail now seq' avail' : Nat} {ps : List Packet}
    (h : s.getPackets seq avail now = (s', ps, seq', avail'))
    {pre post : SMap Unacked} {id n na nx : Nat} {m : Bytes} {ak : List Bool} {ls : List (Option Nat)}
    {a b : List Nat} {i0 : Nat}
    (hun : s.unacked = pre ++ (id, .sliced m n na nx ak ls) :: post)
    (hr : List.range n = a ++ i0 :: b)
    (hak : ak.getD ((nx + i0) % n) false = false)
    (hdue : ls.getD ((nx + i0) % n) none = none ∨ ∃ t, ls.getD ((nx + i0) % n) none = some t ∧ s.resend ≤ now - t)
    (hav : SLICE_SIZE ≤ (slicedLoop s.ch id now s.resend m n nx ak a
      (ls, nx, (relLoop s.ch now s.resend pre ⟨[], [], 0, seq, avail⟩).2)).2.2.avail) :
    ∃ sq, Packet.reliableSlice sq s.ch ⟨id, (nx + i0) % n, n, sliceBytes m n ((nx + i0) % n)⟩ ∈ ps :=
  SendRel.slice_live_at_turn h hun hr hak hdue hav

/-- Slice, simple form: if at least `SLICE_SIZE` bytes of budget are left after the flush, every due unacked slice of
    every sliced message was transmitted by this flush. -/
theorem slice_live {s s' : SendRel} {seq avail now seq' avail' : Nat} {ps : List Packet}
    (h : s.getPackets seq avail now = (s', ps, seq', avail'))
    {id n na nx i : Nat} {m : Bytes} {ak : List Bool} {ls : List (Option Nat)}
    (hf : SMap.find? s.unacked id = some (.sliced m n na nx ak ls)) (hi : i < n)
    (hak : ak.getD i false = false)
    (hdue : ls.getD i none = none ∨ ∃ t, ls.getD i none = some t ∧ s.resend ≤ now - t)
    (hav : SLICE_SIZE ≤ avail') :
    ∃ sq, Packet.reliableSlice sq s.ch ⟨id, i, n, sliceBytes m n i⟩ ∈ ps :=
  SendRel.slice_live h hf hi hak hdue hav

/-! ### the unreliable channel emits only what was queued -/

/-- Every packet of an unreliable flush is either a small-message packet of the channel whose messages are queued
    messages of at most `SLICE_SIZE` bytes, or slice `i < n` of a queued message `m` longer than `SLICE_SIZE` with
    `n = div_ceil(len, SLICE_SIZE)`, carried under a message id drawn from `[sliced_message_id, sliced_message_id')`
    — and then all `n` slices of `m` under that id are among the packets of this same flush. -/
theorem unreliable_genuine {s s' : SendUnrel} {seq avail seq' avail' : Nat} {ps : List Packet}
    (h : s.getPackets seq avail = (s', ps, seq', avail')) :
    s.slicedId ≤ s'.slicedId ∧ ∀ p ∈ ps, UnrelPktOK s.ch s.queue s.slicedId s'.slicedId ps p :=
  SendUnrel.getPackets_emitted h

/-! ### non-vacuity -/

def mk (n : Nat) (b : UInt8) : Bytes := List.replicate n b

/-- a channel (resend time 100) with: a small message never sent; a small message sent at t = 960 (not due at
    now = 1000); a 3-slice message whose slice 0 is acked, slice 1 was sent at 950 (not due) and slice 2 at 800 (due) -/
def exRel : SendRel :=
  ⟨2, [(0, .small (mk 5 1) none), (1, .small (mk 6 2) (some 960)),
       (2, .sliced (mk 2500 3) 3 1 1 [true, false, false] [some 700, some 950, some 800])], 3, 100, 100000, 2511⟩

set_option maxRecDepth 100000 in
/-- the hypotheses of the theorems above are met by this state, and the flush at `now = 1000` with a budget of 5000
    sends exactly message 0 and slice 2 of message 2 -/
example : (SMap.keys exRel.unacked).Nodup ∧ exRel.WFd ∧
    SMap.find? exRel.unacked 1 = some (.small (mk 6 2) (some 960)) ∧ 1000 - 960 < exRel.resend ∧
    (exRel.getPackets 4 5000 1000).2.1 =
      [Packet.reliableSlice 4 2 ⟨2, 2, 3, sliceBytes (mk 2500 3) 3 2⟩, Packet.smallReliable 5 2 [(0, mk 5 1)]] ∧
    SLICE_SIZE ≤ (exRel.getPackets 4 5000 1000).2.2.2 ∧
    SMap.find? (exRel.getPackets 4 5000 1000).1.unacked 2 =
      some (.sliced (mk 2500 3) 3 1 3 [true, false, false] [some 700, some 950, some 1000]) := by decide +kernel

end RenetVerif.C15
