/-
  HISTORY-LEVEL netcode theorems on the GENERATED code (`Generated/Src/NcServer*.lean`, translated from
  `renetcode/src/server.rs`).  Every theorem has a GENERATED RUN in its hypothesis — `GReach a g`: `g` (generated
  `NetcodeServer` struct + ghost logs) is reached by `GNc.exec` (generated `NetcodeServer::new`, then any list of generated
  `process_packet` / `update` / `update_client` / `disconnect` / `set_max_clients` / `generate_payload_packet` calls with
  arbitrary arguments, `Lemmas/SrcEquiv/SrcNcSystem.lean`) under the range side condition `OpsInRange` — and concludes about
  the generated state, the generated query functions or the logged outputs of the generated functions.  Each is proved by
  transporting the model theorem along the simulation `run_sim_conv` (`greach_model`).
-/
import RenetVerif.Lemmas.SrcEquiv.SrcNcSystem
import RenetVerif.Props.C10
import RenetVerif.Props.C05H
import RenetVerif.Props.C18T
import RenetVerif.Props.C18V
import RenetVerif.Props.C19
set_option linter.unusedSimpArgs false
set_option linter.unusedVariables false
namespace RenetVerif.SrcPropsNcHistory
open RenetVerif RenetVerif.SrcEquiv RenetVerif.RustSem RenetVerif.Netcode RenetVerif.Netcode.NS RenetVerif.SrcNcSystem
open Src.renetcode.server

/-! ## generated runs -/

/-- **`g` is reached by a generated run**: from the generated `NetcodeServer::new` (`exec`), or from a generated struct that
    represents an empty model server (`fromEmpty`; `NetcodeServer::new` returns such a struct with 2048 token entries —
    this constructor also admits other table sizes, used by the kernel-evaluated examples), by any list of operations in
    range. -/
inductive GReach (a : AEAD) : GNc → Prop
  | exec {c : NcCfg} {ops : List Op} {g : GNc} : OpsInRange ops → GNc.exec a c ops = some g → GReach a g
  | fromEmpty {s0 : Netcode.NetcodeServer} {out : List Nat} {ops : List Op} {g : GNc} : EmptyServer s0 →
      out.length = Netcode.C.NETCODE_MAX_PACKET_BYTES → OpsInRange ops →
      GNc.run a ⟨reprNS out s0, [], []⟩ ops = some g → GReach a g

/-- the simulation, packaged: a generated-reachable state is related to a model state that is `NS.Reach`able /
    `NS.ReachH`able with the related logs -/
theorem greach_model {a : AEAD} (hl : a.Laws) {g : GNc} (h : GReach a g) : ∃ m, MGood a m ∧ SimNc m g := by
  cases h with
  | exec hr hg =>
    obtain ⟨m, hm, hsim⟩ := run_sim_conv a hl _ _ g hr hg
    exact ⟨m, mgood_exec hm, hsim⟩
  | @fromEmpty s0 out ops g he ho hr hg =>
    have hsim0 : SimNc ⟨s0, [], []⟩ ⟨reprNS out s0, [], []⟩ := ⟨⟨out, ho, rfl⟩, rfl, .nil⟩
    obtain ⟨m, hm, hsim⟩ := run_sim_conv_of a hl ops (m := ⟨s0, [], []⟩) he.inv hsim0 hr hg
    exact ⟨m, mgood_run ops (mgood_empty a he) hm, hsim⟩

/-- a generated-reachable state continued by a generated run is generated-reachable -/
theorem GReach.run {a : AEAD} {g g' : GNc} {ops : List Op} (h : GReach a g) (hr : OpsInRange ops)
    (hg : g.run a ops = some g') : GReach a g' := by
  cases h with
  | @exec c ops0 g hr0 hg0 =>
    refine .exec (c := c) (ops := ops0 ++ ops) (fun o ho => ?_) ?_
    · rcases List.mem_append.mp ho with h1 | h1
      · exact hr0 o h1
      · exact hr o h1
    · unfold GNc.exec at hg0 ⊢
      cases h0 : GNc.init c with
      | none => rw [h0] at hg0; cases hg0
      | some g0 =>
        rw [h0] at hg0
        simp only [GNc.run_append, hg0, Option.bind_some, hg]
  | @fromEmpty s0 out ops0 g he ho hr0 hg0 =>
    refine .fromEmpty (ops := ops0 ++ ops) he ho (fun o ho => ?_) ?_
    · rcases List.mem_append.mp ho with h1 | h1
      · exact hr0 o h1
      · exact hr o h1
    · simp only [GNc.run_append, hg0, Option.bind_some, hg]

/-! ## reading the generated struct -/

theorem at_of_repr {out : List Nat} {s : Netcode.NetcodeServer} {i : Nat} {gc : SConnection}
    (h : (reprNS out s).clients[i]? = some (some gc)) : ∃ c, At s.clients i c ∧ gc = reprNConn c := by
  have h' : (s.clients.map (Option.map reprNConn))[i]? = some (some gc) := h
  rw [List.getElem?_map] at h'
  cases hc : s.clients[i]? with
  | none => rw [hc] at h'; cases h'
  | some oc =>
    rw [hc] at h'
    cases oc with
    | none => simp at h'
    | some c =>
      simp only [Option.map_some, Option.some.injEq] at h'
      exact ⟨c, hc, h'.symm⟩

theorem repr_of_at {out : List Nat} {s : Netcode.NetcodeServer} {i : Nat} {c : Netcode.Connection} (h : At s.clients i c) :
    (reprNS out s).clients[i]? = some (some (reprNConn c)) := by
  show (s.clients.map (Option.map reprNConn))[i]? = _
  rw [List.getElem?_map, (h : s.clients[i]? = some (some c))]
  rfl

theorem reprCS_connected {x : Netcode.ConnectionState} (h : x = .connected) : reprCS x = .Connected := by
  subst h; rfl

/-! ## (a) C10: the connection table in every state reachable by a generated run -/

/-- **C10 `distinct` / `count_le_slots` on the generated struct** (transports `NS.Reach.inv` = `C10.inv_new` +
    `C10.inv_step`, read as in `C10.distinct`, `C10.count_le_slots`).  In every state reachable by a generated run the
    occupied slots of the generated `clients: Box<[Option<Connection>]>` hold pairwise distinct `client_id`s, pairwise
    distinct `addr`s, all in state `Connected`; the occupied slots number at most the slots; `max_clients` is at most the
    number of slots, which is at most `NETCODE_MAX_CLIENTS` = 1024.  No hypothesis on the model side. -/
theorem table_inv {a : AEAD} (hl : a.Laws) {g : GNc} (h : GReach a g) :
    (∀ (i j : Nat) (ci cj : SConnection), g.srv.clients[i]? = some (some ci) → g.srv.clients[j]? = some (some cj) →
      ci.client_id = cj.client_id → i = j) ∧
    (∀ (i j : Nat) (ci cj : SConnection), g.srv.clients[i]? = some (some ci) → g.srv.clients[j]? = some (some cj) →
      ci.addr = cj.addr → i = j) ∧
    (∀ (i : Nat) (c : SConnection), g.srv.clients[i]? = some (some c) →
      c.state = Src.renetcode.server.ConnectionState.Connected) ∧
    (g.srv.clients.filter Option.isSome).length ≤ g.srv.clients.length ∧
    g.srv.max_clients ≤ g.srv.clients.length ∧ g.srv.clients.length ≤ 1024 := by
  obtain ⟨m, hg, ⟨out, ho, hs⟩, -, -⟩ := greach_model hl h
  have hi := hg.reach.inv
  rw [hs]
  refine ⟨fun i j ci cj h1 h2 he => ?_, fun i j ci cj h1 h2 he => ?_, fun i c h1 => ?_, List.length_filter_le _ _, ?_, ?_⟩
  · obtain ⟨c1, a1, rfl⟩ := at_of_repr h1
    obtain ⟨c2, a2, rfl⟩ := at_of_repr h2
    exact hi.slots.ids i j c1 c2 a1 a2 he
  · obtain ⟨c1, a1, rfl⟩ := at_of_repr h1
    obtain ⟨c2, a2, rfl⟩ := at_of_repr h2
    exact hi.slots.addrs i j c1 c2 a1 a2 (reprAddr_inj he)
  · obtain ⟨c1, a1, rfl⟩ := at_of_repr h1
    exact reprCS_connected (hi.slots.conn i c1 a1)
  · have := hi.maxLe
    show m.srv.maxClients ≤ (m.srv.clients.map (Option.map reprNConn)).length
    rw [List.length_map]; exact this
  · have := hi.lenLe
    show (m.srv.clients.map (Option.map reprNConn)).length ≤ 1024
    rw [List.length_map]; exact this

/-- **C10 `distinct` through the generated query functions**: in every state reachable by a generated run, the generated
    `clients_id()` returns a list without repetition, the generated `connected_clients()` returns at most the number of
    slots, and two ids for which the generated `client_addr(id)` returns the same address are equal.
    (Transports `C10.distinct`, `C10.count_le_slots` via `nc_server_clients_id`, `nc_server_connected_clients`,
    `nc_server_client_addr`.) -/
theorem table_inv_queries {a : AEAD} (hl : a.Laws) {g : GNc} (h : GReach a g) :
    (∃ ids, (NetcodeServer.clients_id g.srv : Res Empty _) = .ok ids ∧ ids.Nodup) ∧
    (∃ n, (NetcodeServer.connected_clients g.srv : Res Empty _) = .ok n ∧ n ≤ g.srv.clients.length) ∧
    (∀ id1 id2 ad, (NetcodeServer.client_addr g.srv id1 : Res Empty _) = .ok (some ad) →
      (NetcodeServer.client_addr g.srv id2 : Res Empty _) = .ok (some ad) → id1 = id2) := by
  obtain ⟨m, hg, ⟨out, ho, hs⟩, -, -⟩ := greach_model hl h
  have hi := hg.reach.inv
  rw [hs]
  refine ⟨⟨_, SrcTie.nc_server_clients_id out m.srv, clientsId_nodup hi.slots⟩,
    ⟨_, SrcTie.nc_server_connected_clients out m.srv, ?_⟩, fun id1 id2 ad h1 h2 => ?_⟩
  · show countConnected m.srv.clients ≤ (m.srv.clients.map (Option.map reprNConn)).length
    rw [List.length_map]; exact count_le_length _
  · rw [SrcTie.nc_server_client_addr] at h1 h2
    simp only [Res.ok.injEq, Option.map_eq_some_iff] at h1 h2
    obtain ⟨a1, e1, r1⟩ := h1
    obtain ⟨a2, e2, r2⟩ := h2
    have ea : a1 = a2 := reprAddr_inj (r1.trans r2.symm)
    subst ea
    obtain ⟨i, c1, at1, id1e, ad1⟩ := (clientAddr_iff hi.slots).mp e1
    obtain ⟨j, c2, at2, id2e, ad2⟩ := (clientAddr_iff hi.slots).mp e2
    have hij := hi.slots.addrs i j c1 c2 at1 at2 (ad1.trans ad2.symm)
    subst hij
    have := at_inj at1 at2
    subst this
    exact id1e.symm.trans id2e

/-! ### never lowering the limit -/

/-- along the generated run, every `set_max_clients n` is called with `n` at least the `max_clients` field of the generated
    struct at that moment -/
def GNoLower (a : AEAD) : GNc → List Op → Prop
  | _, [] => True
  | g, op :: ops => (∀ n, op = .setMaxClients n → g.srv.max_clients ≤ n) ∧
      match g.step a op with
      | some g' => GNoLower a g' ops
      | none => True

theorem mstep_spec {a : AEAD} {m m' : MNc} {op : Op} (h : m.step a op = some m') :
    ∃ r, NS.step a m.srv op = some (r, m'.srv) ∧ m'.results = m.results ++ [r] ∧
      m'.arrivals = m.arrivals ++ arrivalOf m.srv op := by
  unfold MNc.step at h
  cases hs : NS.step a m.srv op with
  | none => rw [hs] at h; cases h
  | some x =>
    obtain ⟨r, s'⟩ := x
    rw [hs] at h
    cases h
    exact ⟨r, rfl, rfl, rfl⟩

theorem reachNL_run (a : AEAD) (hl : a.Laws) : ∀ (ops : List Op) (m : MNc) (g g' : GNc), ServerInv m.srv → SimNc m g →
    ReachNL a m.srv → OpsInRange ops → GNoLower a g ops → g.run a ops = some g' →
    ∃ m', SimNc m' g' ∧ ReachNL a m'.srv := by
  intro ops
  induction ops with
  | nil => intro m g g' _ hsim hnl _ _ hg; cases hg; exact ⟨m, hsim, hnl⟩
  | cons op ops ih =>
    intro m g g' hi hsim hnl hr hno hg
    have hstep := step_sim a hl hi hsim op (hr op List.mem_cons_self)
    simp only [GNc.run] at hg
    obtain ⟨hlow, hrest⟩ := hno
    cases hs : m.step a op with
    | none =>
      rw [hs] at hstep
      rw [hstep] at hg; cases hg
    | some m1 =>
      rw [hs] at hstep
      obtain ⟨g1, e, hsim1⟩ := hstep
      rw [e] at hg hrest
      obtain ⟨r, hns, -, -⟩ := mstep_spec hs
      obtain ⟨out, _, hsrv⟩ := hsim.srv
      have hnl1 : ReachNL a m1.srv := .step hnl hns (fun n hn => by
        have := hlow n hn
        rw [hsrv] at this
        exact this)
      exact ih m1 g1 g' (step_inv hi hns) hsim1 hnl1 (fun o ho => hr o (List.mem_cons_of_mem _ ho)) hrest hg

/-- **C10 `count_le_max` over a generated run**: if along a generated execution from the generated `NetcodeServer::new` the
    limit is never lowered (`GNoLower`: read off the `max_clients` field of the generated struct before each
    `set_max_clients`), then the generated `connected_clients()` is at most the generated `max_clients()`, and there are
    exactly `max_clients` slots.  (Transports `NS.ReachNL.count_le_max` = `C10.count_le_max`.) -/
theorem count_le_max {a : AEAD} (hl : a.Laws) {c : NcCfg} {ops : List Op} {g0 g : GNc} (hr : OpsInRange ops)
    (h0 : GNc.init c = some g0) (hg : g0.run a ops = some g) (hno : GNoLower a g0 ops) :
    ∃ n k, (NetcodeServer.connected_clients g.srv : Res Empty _) = .ok n ∧
      (NetcodeServer.max_clients' g.srv : Res Empty _) = .ok k ∧ n ≤ k ∧ g.srv.clients.length = k := by
  have hi0 := init_sim c
  cases hm0 : MNc.init c with
  | none => rw [hm0] at hi0; rw [h0] at hi0; cases hi0
  | some m0 =>
    rw [hm0] at hi0
    obtain ⟨g0', e0, hsim0⟩ := hi0
    rw [h0] at e0; cases e0
    have hnl0 : ReachNL a m0.srv := by
      unfold MNc.init at hm0
      split at hm0
      · rename_i s hs; cases hm0; exact .init (new_inv hs).2.2.2.2.2.1
      · cases hm0
    obtain ⟨m, hsim, hnl⟩ := reachNL_run a hl ops m0 g0 g (inv_minit hm0) hsim0 hnl0 hr hno hg
    obtain ⟨out, _, hs⟩ := hsim.srv
    have hc := hnl.count_le_max
    rw [hs]
    refine ⟨_, _, SrcTie.nc_server_connected_clients out m.srv, SrcTie.nc_server_max_clients out m.srv, hc.2, ?_⟩
    show (m.srv.clients.map (Option.map reprNConn)).length = m.srv.maxClients
    rw [List.length_map]; exact hc.1

/-! ### the event log of a generated run -/

/-- what the application sees of the connection table, over the generated types -/
inductive GEvent where
  | connected (id : Nat) (addr : RustSem.SocketAddr) (userData : List Nat)
  | disconnected (id : Nat) (addr : RustSem.SocketAddr)
  deriving DecidableEq, Repr

/-- the event projection of a generated `ServerResult` (mirror of `NS.eventOf`) -/
def gEventOf : SServerResult → List GEvent
  | .ClientConnected id ad ud _ => [.connected id ad ud]
  | .ClientDisconnected id ad _ => [.disconnected id ad]
  | _ => []

/-- the `ClientConnected` / `ClientDisconnected` results the generated functions returned so far -/
def _root_.RenetVerif.SrcNcSystem.GNc.events (g : GNc) : List GEvent := g.results.flatMap gEventOf

def reprEvent : Event → GEvent
  | .connected id ad ud => .connected id (reprAddr ad) (toNats ud)
  | .disconnected id ad => .disconnected id (reprAddr ad)

theorem reprEvent_inj {x y : Event} (h : reprEvent x = reprEvent y) : x = y := by
  cases x <;> cases y <;> simp only [reprEvent, GEvent.connected.injEq, GEvent.disconnected.injEq, reduceCtorEq] at h
  · obtain ⟨rfl, h2, h3⟩ := h; rw [reprAddr_inj h2, toNats_inj h3]
  · obtain ⟨rfl, h2⟩ := h; rw [reprAddr_inj h2]

theorem gEventOf_repr (r : Netcode.ServerResult) : gEventOf (reprNSR r) = (eventOf r).map reprEvent := by
  cases r <;> rfl

theorem events_sim {m : MNc} {g : GNc} (h : SimNc m g) : g.events = m.events.map reprEvent := by
  unfold GNc.events MNc.events
  rw [h.results]
  generalize m.results = l
  induction l with
  | nil => rfl
  | cons r rest ih =>
    simp only [List.map_cons, List.flatMap_cons, List.map_append, ih, gEventOf_repr]

theorem not_mem_map_repr {e : Event} {l : List Event} (h : e ∉ l) : reprEvent e ∉ l.map reprEvent := by
  intro hm
  obtain ⟨x, hx, he⟩ := List.mem_map.mp hm
  rw [reprEvent_inj he] at hx
  exact h hx

/-- **C10 `disconnected_only_after_connected` over a generated run**: in the event log of a generated run every
    `ClientDisconnected id addr` is preceded by a `ClientConnected id addr _` (same id AND same address) with no
    `ClientDisconnected id addr` in between.  (Transports `C10.disconnected_only_after_connected`; no model-side
    hypothesis.) -/
theorem disconnected_only_after_connected {a : AEAD} (hl : a.Laws) {g : GNc} (h : GReach a g) {pre post : List GEvent}
    {id : Nat} {ad : RustSem.SocketAddr} (he : g.events = pre ++ .disconnected id ad :: post) :
    ∃ ud l1 l2, pre = l1 ++ .connected id ad ud :: l2 ∧ GEvent.disconnected id ad ∉ l2 := by
  obtain ⟨m, hg, hsim⟩ := greach_model hl h
  rw [events_sim hsim] at he
  obtain ⟨pre', rest', hsplit, hpre, hrest⟩ := List.map_eq_append_iff.mp he
  obtain ⟨e, post', hrest', hee, hpost⟩ := List.map_eq_cons_iff.mp hrest
  cases e with
  | connected id' ad' ud' => simp [reprEvent] at hee
  | disconnected id' ad' =>
    simp only [reprEvent, GEvent.disconnected.injEq] at hee
    obtain ⟨rfl, rfl⟩ := hee
    have hr := hg.reach
    rw [hsplit, hrest'] at hr
    obtain ⟨ud, l1, l2, hp, hn⟩ := C10.disconnected_only_after_connected hr
    refine ⟨toNats ud, l1.map reprEvent, l2.map reprEvent, ?_, ?_⟩
    · rw [← hpre, hp]; simp only [List.map_append, List.map_cons, reprEvent]
    · exact not_mem_map_repr hn

/-- **C10 `at_most_one_disconnected` over a generated run**: between two `ClientDisconnected id _` of the event log of a
    generated run lies a `ClientConnected id addr' _` with the address the second one names.  (Transports
    `C10.at_most_one_disconnected`.) -/
theorem at_most_one_disconnected {a : AEAD} (hl : a.Laws) {g : GNc} (h : GReach a g) {pre mid post : List GEvent}
    {id : Nat} {ad ad' : RustSem.SocketAddr}
    (he : g.events = pre ++ .disconnected id ad :: (mid ++ .disconnected id ad' :: post)) :
    ∃ ud, GEvent.connected id ad' ud ∈ mid := by
  obtain ⟨m, hg, hsim⟩ := greach_model hl h
  rw [events_sim hsim] at he
  obtain ⟨pre', rest', hsplit, hpre, hrest⟩ := List.map_eq_append_iff.mp he
  obtain ⟨e, rest2, hrest', hee, hrest2⟩ := List.map_eq_cons_iff.mp hrest
  obtain ⟨mid', rest3, hsplit3, hmid, hrest3⟩ := List.map_eq_append_iff.mp hrest2
  obtain ⟨e', post', hrest3', hee', hpost⟩ := List.map_eq_cons_iff.mp hrest3
  cases e with
  | connected id' ad' ud' => simp [reprEvent] at hee
  | disconnected id1 ad1 =>
    cases e' with
    | connected id' ad' ud' => simp [reprEvent] at hee'
    | disconnected id2 ad2 =>
      simp only [reprEvent, GEvent.disconnected.injEq] at hee hee'
      obtain ⟨rfl, rfl⟩ := hee
      obtain ⟨rfl, rfl⟩ := hee'
      have hr := hg.reach
      rw [hsplit, hrest', hsplit3, hrest3'] at hr
      obtain ⟨ud, hmem⟩ := C10.at_most_one_disconnected hr
      refine ⟨toNats ud, ?_⟩
      rw [← hmid]
      exact List.mem_map.mpr ⟨_, hmem, rfl⟩

/-! ## (b) C05 / C05H: `ClientConnected` only after an accepted request from the same address -/

/-- the generated `process_packet` on a related state returned `.ok`: so did the model's, with the related result -/
theorem pp_model {a : AEAD} (hl : a.Laws) {s : Netcode.NetcodeServer} (hi : ServerInv s) {out : List Nat}
    (ho : out.length = Netcode.C.NETCODE_MAX_PACKET_BYTES) {addr : Addr} {buf : Bytes} (hb : buf.length + 16 < 2 ^ 64)
    {srv' : SNetcodeServer} {buf' : List Nat} {R : SServerResult}
    (hp : @NetcodeServer.process_packet (aeadOf a) Empty (reprNS out s) (reprAddr addr) (toNats buf) = .ok (srv', buf', R)) :
    ∃ r s', s.processPacket a addr buf = .ok (r, s') ∧ R = reprNSR r ∧
      ∃ out', out'.length = Netcode.C.NETCODE_MAX_PACKET_BYTES ∧ srv' = reprNS out' s' := by
  have tie := SrcTie.nc_server_process_packet (ε := Empty) a hl out ho s hi.entriesPos addr buf hb
  cases hm : s.processPacket a addr buf with
  | ok x =>
    obtain ⟨r, s'⟩ := x
    rw [hm] at tie
    obtain ⟨out', buf'', ho', e⟩ := tie
    rw [e] at hp
    simp only [Res.ok.injEq, Prod.mk.injEq] at hp
    obtain ⟨rfl, rfl, rfl⟩ := hp
    exact ⟨r, s', rfl, rfl, out', ho', rfl⟩
  | err e => exact nomatch e
  | panic msg =>
    rw [hm] at tie
    obtain ⟨m', e⟩ := tie
    rw [e] at hp; cases hp

theorem reprNSR_connected {r : Netcode.ServerResult} {id : Nat} {ad : RustSem.SocketAddr} {ud ka : List Nat}
    (h : Src.renetcode.server.ServerResult.ClientConnected id ad ud ka = reprNSR r) :
    ∃ ad0 ud0 ka0, r = .clientConnected id ad0 ud0 ka0 ∧ ad = reprAddr ad0 ∧ ud = toNats ud0 ∧ ka = toNats ka0 := by
  cases r <;> simp only [reprNSR, Src.renetcode.server.ServerResult.ClientConnected.injEq, reduceCtorEq] at h
  obtain ⟨rfl, rfl, rfl, rfl⟩ := h
  exact ⟨_, _, _, rfl, rfl, rfl, rfl⟩

/-- **C05 `connected_only_after_request` over a generated run.**  `g` is reached by a generated run; the generated
    `process_packet` on `g.srv`, for a datagram `buf` from `addr`, returns `ClientConnected id addr' ud ka`.  Then
    `addr' = addr`, and the arrival log of the generated run contains an EARLIER datagram `ga` from the same address, which met
    a generated state `ga.srv` representing a model state `ar.s` (`ArrRel`), such that — stated on the related model values
    `ar`, `s` — it decodes to a connection request that was `Accepted` in `ar.s` (token authentic under the server's key and
    protocol id, unexpired, lists a server address) while fewer than `max_clients` were connected; the reported id and user
    data are exactly those sealed in that token; and the present datagram is a response under that token's client-to-server
    key echoing a challenge token that opens under the server's challenge key to that id and user data.
    (Transports `C05.connected_only_after_request`.) -/
theorem connected_only_after_request {a : AEAD} (hl : a.Laws) {g : GNc} (h : GReach a g) {addr : Addr} {buf : Bytes}
    (hb : buf.length + 16 < 2 ^ 64) {srv' : SNetcodeServer} {buf' : List Nat} {id : Nat} {addr' : RustSem.SocketAddr}
    {ud ka : List Nat}
    (hp : @NetcodeServer.process_packet (aeadOf a) Empty g.srv (reprAddr addr) (toNats buf) =
      .ok (srv', buf', .ClientConnected id addr' ud ka)) :
    addr' = reprAddr addr ∧
    ∃ s, (∃ out, out.length = Netcode.C.NETCODE_MAX_PACKET_BYTES ∧ g.srv = reprNS out s) ∧
    ∃ ga ∈ g.arrivals, ga.addr = reprAddr addr ∧ ∃ ar, ArrRel ga ar ∧ ar.addr = addr ∧
      ∃ v pid expire xnonce data t,
        (Netcode.Packet.decode a ar.buf ar.s.protocolId none none).1 = .ok (0, .connectionRequest v pid expire xnonce data) ∧
        Accepted a ar.s addr v pid expire xnonce data t ∧ countConnected ar.s.clients < ar.s.maxClients ∧
        t.clientId = id ∧ toNats t.userData = ud ∧
        ∃ sq ts td w' rk, Netcode.Packet.decode a buf s.protocolId (some t.clientToServerKey) (some rk) =
            (.ok (sq, .response ts td), some w') ∧
          Netcode.ChallengeToken.decode a td ts s.challengeKey = .ok ⟨id, t.userData⟩ := by
  obtain ⟨m, hg, hsim⟩ := greach_model hl h
  obtain ⟨out, ho, hs⟩ := hsim.srv
  rw [hs] at hp
  obtain ⟨r, s', hm, hR, -⟩ := pp_model hl hg.reach.inv ho hb hp
  obtain ⟨ad0, ud0, ka0, rfl, rfl, rfl, rfl⟩ := reprNSR_connected hR
  obtain ⟨hadr, ar, har, hax, v, pid, expire, xnonce, data, t, hd, hacc, hcnt, hid, hud, sq, ts, td, w', rk, hdec, hch⟩ :=
    C05.connected_only_after_request hg.reachH hm
  subst hadr
  obtain ⟨ga, hga, hrel⟩ := forall2_mem_right hsim.arrivals har
  refine ⟨rfl, m.srv, ⟨out, ho, hs⟩, ga, hga, by rw [hrel.2.1, hax], ar, hrel, hax, v, pid, expire, xnonce, data, t, hd, hacc,
    hcnt, hid, by rw [hud], sq, ts, td, w', rk, hdec, by rw [hud]; exact hch⟩

/-- **C05H `connected_from_first_presenter` over a generated run.**  As above, and in addition: if (model-side hypothesis,
    stated on every model arrival list related entry by entry to the generated arrival log) at most as many distinct token
    MACs were registered along the run as the token-entry table has entries (`Covered`; `L.length ≤
    connect_token_entries.len()` is read off the generated struct), then there is a model history `hist` related entry by
    entry to the generated arrival log in which EVERY arrival that registered that token's MAC came from `addr` — the client
    is connected from the address that first validly presented the token.
    (Transports `C05H.connected_from_first_presenter`.) -/
theorem connected_from_first_presenter {a : AEAD} (hl : a.Laws) {g : GNc} (h : GReach a g) {L : List Bytes}
    (hcov : ∀ hist, Forall₂ ArrRel g.arrivals hist → NcBinding.Covered a hist L)
    (hlen : L.length ≤ g.srv.connect_token_entries.length) {addr : Addr} {buf : Bytes}
    (hb : buf.length + 16 < 2 ^ 64) {srv' : SNetcodeServer} {buf' : List Nat} {id : Nat} {addr' : RustSem.SocketAddr}
    {ud ka : List Nat}
    (hp : @NetcodeServer.process_packet (aeadOf a) Empty g.srv (reprAddr addr) (toNats buf) =
      .ok (srv', buf', .ClientConnected id addr' ud ka)) :
    addr' = reprAddr addr ∧
    ∃ hist, Forall₂ ArrRel g.arrivals hist ∧ ∃ ar ∈ hist, ar.addr = addr ∧
      ∃ v pid expire xnonce data t,
        (Netcode.Packet.decode a ar.buf ar.s.protocolId none none).1 = .ok (0, .connectionRequest v pid expire xnonce data) ∧
        Accepted a ar.s addr v pid expire xnonce data t ∧ t.clientId = id ∧ toNats t.userData = ud ∧
        ∀ ar' ∈ hist, NcBinding.Registers a ar'.s ar'.addr ar'.buf (tokenMac data) → ar'.addr = addr := by
  obtain ⟨m, hg, hsim⟩ := greach_model hl h
  obtain ⟨out, ho, hs⟩ := hsim.srv
  rw [hs] at hp
  obtain ⟨r, s', hm, hR, -⟩ := pp_model hl hg.reach.inv ho hb hp
  obtain ⟨ad0, ud0, ka0, rfl, rfl, rfl, rfl⟩ := reprNSR_connected hR
  have hlen' : L.length ≤ m.srv.connectTokenEntries.length := by
    rw [hs] at hlen
    have e : (reprNS out m.srv).connect_token_entries.length = m.srv.connectTokenEntries.length := by
      show (m.srv.connectTokenEntries.map (Option.map reprEntry)).length = _
      rw [List.length_map]
    rw [e] at hlen; exact hlen
  obtain ⟨hadr, ar, har, hax, v, pid, expire, xnonce, data, t, hd, hacc, hid, hud, hall⟩ :=
    C05H.connected_from_first_presenter hg.reachH (hcov _ hsim.arrivals) hlen' hm
  subst hadr
  exact ⟨rfl, m.arrivals, hsim.arrivals, ar, har, hax, v, pid, expire, xnonce, data, t, hd, hacc, hid, by rw [hud], hall⟩

/-! ## (d) C18T: a fresh session is never timed out, over every generated server trace -/

/-- the model run and `NcLive2.runOps` (the trace semantics of `C18T.never_timed_out`) -/
theorem mrun_runOps {a : AEAD} : ∀ (ops : List Op) {m m' : MNc}, m.run a ops = some m' →
    ∃ rs, NcLive2.runOps a m.srv ops = some (rs, m'.srv) ∧ m'.results = m.results ++ rs := by
  intro ops
  induction ops with
  | nil => intro m m' h; cases h; exact ⟨[], rfl, by simp⟩
  | cons op ops ih =>
    intro m m' h
    simp only [MNc.run] at h
    cases hs : m.step a op with
    | none => rw [hs] at h; cases h
    | some m1 =>
      rw [hs] at h
      obtain ⟨r, hns, hres, -⟩ := mstep_spec hs
      obtain ⟨rs, hro, hres'⟩ := ih h
      refine ⟨r :: rs, ?_, ?_⟩
      · simp only [NcLive2.runOps, hns, hro, Option.map_some]
      · rw [hres', hres, List.append_assoc]; rfl

/-- the identity of a generated connection (mirror of `NS.ident`): id, address, user data, both keys, timeout, expiry -/
def gIdent (c : SConnection) : Nat × RustSem.SocketAddr × List Nat × List Nat × List Nat × Int × Nat :=
  (c.client_id, c.addr, c.user_data, c.send_key, c.receive_key, c.timeout_seconds, c.expire_timestamp)

theorem gIdent_repr {c c' : Netcode.Connection} (h : ident c' = ident c) : gIdent (reprNConn c') = gIdent (reprNConn c) := by
  simp only [ident, Ident.mk.injEq] at h
  obtain ⟨h1, h2, h3, h4, h5, h6, h7⟩ := h
  simp only [gIdent, reprNConn, h1, h2, h3, h4, h5, h6, h7]

theorem reprNSR_disconnected {r : Netcode.ServerResult} {id : Nat} {ad : RustSem.SocketAddr} {o : Option (List Nat)}
    (h : reprNSR r = Src.renetcode.server.ServerResult.ClientDisconnected id ad o) :
    ∃ ad0 o0, r = .clientDisconnected id ad0 o0 := by
  cases r <;> simp only [reprNSR, Src.renetcode.server.ServerResult.ClientDisconnected.injEq, reduceCtorEq] at h
  obtain ⟨rfl, -, -⟩ := h
  exact ⟨_, _, rfl⟩

/-- **C18T `never_timed_out` over every generated server trace** (from any pair of related states).  The generated state
    `g` represents the model state `m` (`SimNc`, e.g. by `run_sim` / `greach_model`), which satisfies `NS.ServerInv` and holds
    the session `cn` of client `id` in slot `i`.  `ops` is ANY generated trace (in range) that runs to its end (`g.run a ops =
    some g'`).  The trace hypothesis `Fresh` is stated on the related model state: at every `update_client id` the token's
    timeout is not positive or `now ≤ last + timeout` (`last`: the time of the most recent authentic datagram of that
    session), nobody calls `disconnect id`, no datagram is an authentic Disconnect packet of that session; everything else
    (forged / replayed / foreign datagrams, other clients, `set_max_clients`, any `update`) is unconstrained.
    Then in the generated final state slot `i` still holds a session with the same identity, the generated
    `is_client_connected(id)` returns `true`, and none of the generated calls of the trace returned
    `ClientDisconnected id ..`.  (Transports `C18T.never_timed_out`.) -/
theorem never_timed_out {a : AEAD} (hl : a.Laws) {m : MNc} {g g' : GNc} (hi : ServerInv m.srv) (hsim : SimNc m g)
    {ops : List Op} (hr : OpsInRange ops) (hrun : g.run a ops = some g') {id i : Nat} {cn : Netcode.Connection}
    (hc : At m.srv.clients i cn) (hid : cn.clientId = id) (hfresh : NcLive2.Fresh a id m.srv cn.lastPacketReceivedTime ops) :
    g.srv.clients[i]? = some (some (reprNConn cn)) ∧
    (∃ gc', g'.srv.clients[i]? = some (some gc') ∧ gIdent gc' = gIdent (reprNConn cn)) ∧
    (NetcodeServer.is_client_connected g'.srv id : Res Empty _) = .ok true ∧
    (∀ ad o, Src.renetcode.server.ServerResult.ClientDisconnected id ad o ∉ g'.results.drop g.results.length) := by
  obtain ⟨m', hm', hsim'⟩ := run_sim_conv_of a hl ops hi hsim hr hrun
  obtain ⟨rs, hro, hres⟩ := mrun_runOps ops hm'
  obtain ⟨⟨c', hc', hident⟩, hconn, hnd, -⟩ := C18T.never_timed_out a hi hc hid hfresh hro
  obtain ⟨out, _, hs⟩ := hsim.srv
  obtain ⟨out', _, hs'⟩ := hsim'.srv
  refine ⟨by rw [hs]; exact repr_of_at hc, ⟨_, by rw [hs']; exact repr_of_at hc', gIdent_repr hident⟩, ?_, ?_⟩
  · rw [hs', SrcTie.nc_server_is_client_connected, hconn]
  · intro ad o hmem
    rw [hsim'.results, hsim.results, hres, List.map_append, List.length_map] at hmem
    have e : (m.results.map reprNSR ++ rs.map reprNSR).drop m.results.length = rs.map reprNSR := by
      rw [List.drop_append_of_le_length (by rw [List.length_map]; exact Nat.le_refl _)]
      simp
    rw [e] at hmem
    obtain ⟨r, hr', he⟩ := List.mem_map.mp hmem
    obtain ⟨ad0, o0, rfl⟩ := reprNSR_disconnected he
    exact hnd ad0 o0 hr'

/-- **… from the generated `NetcodeServer::new`**: the generated execution of `ops0` reaches `g`, the model execution of the
    same operations reaches `m` (so `m` and `g` are related by the simulation); then as above for every continuation. -/
theorem never_timed_out_exec {a : AEAD} (hl : a.Laws) {c : NcCfg} {ops0 ops : List Op} {m : MNc} {g g' : GNc}
    (hm : MNc.exec a c ops0 = some m) (hg : GNc.exec a c ops0 = some g) (hr0 : OpsInRange ops0) (hr : OpsInRange ops)
    (hrun : g.run a ops = some g') {id i : Nat} {cn : Netcode.Connection}
    (hc : At m.srv.clients i cn) (hid : cn.clientId = id) (hfresh : NcLive2.Fresh a id m.srv cn.lastPacketReceivedTime ops) :
    g.srv.clients[i]? = some (some (reprNConn cn)) ∧
    (∃ gc', g'.srv.clients[i]? = some (some gc') ∧ gIdent gc' = gIdent (reprNConn cn)) ∧
    (NetcodeServer.is_client_connected g'.srv id : Res Empty _) = .ok true ∧
    (∀ ad o, Src.renetcode.server.ServerResult.ClientDisconnected id ad o ∉ g'.results.drop g.results.length) := by
  obtain ⟨g2, e, hsim⟩ := run_sim a hl c ops0 m hr0 hm
  rw [hg] at e; cases e
  exact never_timed_out hl (mgood_exec hm).reach.inv hsim hr hrun hc hid hfresh

/-! ## (f) C19: the shape of a reply, after any generated run -/

/-- the datagram a generated `ServerResult` carries (mirror of `ServerResult.datagram`) -/
def gDatagram : SServerResult → Option (List Nat)
  | .PacketToSend _ out => some out
  | .ClientConnected _ _ _ out => some out
  | .ClientDisconnected _ _ out => out
  | _ => none

theorem gDatagram_repr (r : Netcode.ServerResult) : gDatagram (reprNSR r) = r.datagram.map toNats := by
  cases r <;> rfl

/-- **C19 `reply_to_same_address` / `reply_strictly_smaller` after any generated run.**  `g` is reached by a generated run;
    the two `u64` counters `global_sequence`, `challenge_sequence` of the generated struct have not reached `u64::MAX`
    (otherwise the debug-profile arithmetic check unwinds); the generated finder `find_client_mut_by_addr` finds no connected
    client with the source address.  Then whatever datagram the generated `process_packet` answers with — for ANY bytes — is
    addressed to the source address (as `PacketToSend` or inside `ClientConnected`) and is STRICTLY SHORTER than the datagram
    received: no amplification.  (Transports `C19.reply_to_same_address`, `C19.reply_strictly_smaller`; their hypothesis
    `SInv 1` follows from the two counter bounds and `NS.ServerInv` — pending connections have sequence 0.) -/
theorem reply_shape {a : AEAD} (hl : a.Laws) {g : GNc} (h : GReach a g) (hgs : g.srv.global_sequence < 2 ^ 64 - 1)
    (hcs : g.srv.challenge_sequence < 2 ^ 64 - 1) {addr : Addr} {buf : Bytes} (hb : buf.length + 16 < 2 ^ 64)
    (hf : (find_client_mut_by_addr g.srv.clients (reprAddr addr) : Res Empty _) = .ok none)
    {srv' : SNetcodeServer} {buf' : List Nat} {R : SServerResult}
    (hp : @NetcodeServer.process_packet (aeadOf a) Empty g.srv (reprAddr addr) (toNats buf) = .ok (srv', buf', R))
    {out : List Nat} (ho : gDatagram R = some out) :
    (R = .PacketToSend (reprAddr addr) out ∨ ∃ id ud, R = .ClientConnected id (reprAddr addr) ud out) ∧
      out.length < buf.length := by
  obtain ⟨m, hg, hsim⟩ := greach_model hl h
  obtain ⟨o, ho', hs⟩ := hsim.srv
  have hi := hg.reach.inv
  rw [hs] at hp hf hgs hcs
  obtain ⟨r, s', hm, rfl, -⟩ := pp_model hl hi ho' hb hp
  have hinv : NetcodeServer.SInv (0 + 1) m.srv := by
    refine ⟨?_, ?_, fun x hx => ?_⟩
    · have : m.srv.globalSequence < 2 ^ 64 - 1 := hgs
      show m.srv.globalSequence + 1 ≤ 2 ^ 64 - 1
      omega
    · have : m.srv.challengeSequence < 2 ^ 64 - 1 := hcs
      show m.srv.challengeSequence + 1 ≤ 2 ^ 64 - 1
      omega
    · rw [(hi.pend x hx).seq]; decide
  have hf' : findClientByAddr m.srv.clients addr = none := by
    have e := SrcTie.nc_find_client_mut_by_addr (ε := Empty) m.srv.clients addr
    have hf2 : (find_client_mut_by_addr (m.srv.clients.map (Option.map reprNConn)) (reprAddr addr) : Res Empty _) = .ok none := hf
    rw [e] at hf2
    simp only [Res.ok.injEq, Option.map_eq_none_iff] at hf2
    exact hf2
  rw [gDatagram_repr] at ho
  cases hd : r.datagram with
  | none => rw [hd] at ho; cases ho
  | some out0 =>
    rw [hd] at ho
    simp only [Option.map_some, Option.some.injEq] at ho
    subst ho
    refine ⟨?_, ?_⟩
    · rcases C19.reply_to_same_address a hinv hf' hm hd with rfl | ⟨id, ud, rfl⟩
      · exact Or.inl rfl
      · exact Or.inr ⟨id, toNats ud, rfl⟩
    · rw [toNats_length]
      exact C19.reply_strictly_smaller a hl hinv hf' hm hd

/-! ## more of C10 over generated runs: lookups and payload routing -/

/-- **C10 `payload_routing_in` after any generated run**: a `Payload id p` surfaced by the generated `process_packet` from
    a datagram of source `addr` carries the id for which the generated `client_addr(id)` returns `addr`.
    (Transports `C10.payload_routing_in`.) -/
theorem payload_routing_in {a : AEAD} (hl : a.Laws) {g : GNc} (h : GReach a g) {addr : Addr} {buf : Bytes}
    (hb : buf.length + 16 < 2 ^ 64) {srv' : SNetcodeServer} {buf' : List Nat} {id : Nat} {p : List Nat}
    (hp : @NetcodeServer.process_packet (aeadOf a) Empty g.srv (reprAddr addr) (toNats buf) = .ok (srv', buf', .Payload id p)) :
    (NetcodeServer.client_addr g.srv id : Res Empty _) = .ok (some (reprAddr addr)) := by
  obtain ⟨m, hg, hsim⟩ := greach_model hl h
  obtain ⟨o, ho', hs⟩ := hsim.srv
  rw [hs] at hp ⊢
  obtain ⟨r, s', hm, hR, -⟩ := pp_model hl hg.reach.inv ho' hb hp
  cases r <;> simp only [reprNSR, Src.renetcode.server.ServerResult.Payload.injEq, reduceCtorEq] at hR
  obtain ⟨rfl, rfl⟩ := hR
  rw [SrcTie.nc_server_client_addr, (C10.payload_routing_in hg.reach hm).1]
  rfl

/-- **C10 `lookups` after any generated run**: if the generated `client_addr(id)` and `user_data(id)` answer `ad` and `ud`, then
    the generated `is_client_connected(id)` is `true` and the event log of the generated run contains `ClientConnected id ad ud`
    with no `ClientDisconnected id ad` after it.  (Transports `C10.lookups`.) -/
theorem lookups {a : AEAD} (hl : a.Laws) {g : GNc} (h : GReach a g) {id : Nat} {ad : RustSem.SocketAddr} {ud : List Nat}
    (h1 : (NetcodeServer.client_addr g.srv id : Res Empty _) = .ok (some ad))
    (h2 : (NetcodeServer.user_data g.srv id : Res Empty _) = .ok (some ud)) :
    (NetcodeServer.is_client_connected g.srv id : Res Empty _) = .ok true ∧
    ∃ l1 l2, g.events = l1 ++ .connected id ad ud :: l2 ∧ GEvent.disconnected id ad ∉ l2 := by
  obtain ⟨m, hg, hsim⟩ := greach_model hl h
  obtain ⟨o, ho', hs⟩ := hsim.srv
  rw [hs] at h1 h2 ⊢
  rw [SrcTie.nc_server_client_addr] at h1
  rw [SrcTie.nc_server_user_data] at h2
  simp only [Res.ok.injEq, Option.map_eq_some_iff] at h1 h2
  obtain ⟨ad0, e1, rfl⟩ := h1
  obtain ⟨ud0, e2, rfl⟩ := h2
  obtain ⟨hc, l1, l2, hlog, hn⟩ := C10.lookups hg.reach e1 e2
  refine ⟨by rw [SrcTie.nc_server_is_client_connected, hc], l1.map reprEvent, l2.map reprEvent, ?_, not_mem_map_repr hn⟩
  rw [events_sim hsim, hlog]
  simp only [List.map_append, List.map_cons, reprEvent]

/-- the generated execution of `ops0 ++ ops` is the generated run of `ops` from the state the execution of `ops0` reached -/
theorem exec_append {a : AEAD} {c : NcCfg} {ops0 ops : List Op} {g : GNc} (hg : GNc.exec a c ops0 = some g) :
    GNc.exec a c (ops0 ++ ops) = g.run a ops := by
  unfold GNc.exec at hg ⊢
  cases h0 : GNc.init c with
  | none => rw [h0] at hg; cases hg
  | some g0 =>
    rw [h0] at hg
    simp only [GNc.run_append, hg, Option.bind_some]

/-- the hypotheses of `never_timed_out_exec` as one decidable check: the model execution of `ops0` from `new` succeeds, holds a
    session of client `id` in slot `i`, and `ops` is `Fresh` for it -/
def freshAfterB (a : AEAD) (c : NcCfg) (ops0 : List Op) (i id : Nat) (ops : List Op) : Bool :=
  match MNc.exec a c ops0 with
  | some m => match m.srv.clients[i]? with
    | some (some cn) => decide (cn.clientId = id) && NcLive2.freshB a id m.srv cn.lastPacketReceivedTime ops
    | _ => false
  | none => false

/-- `never_timed_out_exec` with its model-side hypotheses in checkable form -/
theorem never_timed_out_check {a : AEAD} (hl : a.Laws) {c : NcCfg} {ops0 ops : List Op} {i id : Nat}
    (hB : freshAfterB a c ops0 i id ops = true) (hr0 : OpsInRange ops0) (hr : OpsInRange ops)
    (hsome : (GNc.exec a c (ops0 ++ ops)).isSome = true) :
    ∃ g g', GNc.exec a c ops0 = some g ∧ GNc.exec a c (ops0 ++ ops) = some g' ∧
      (NetcodeServer.is_client_connected g'.srv id : Res Empty _) = .ok true ∧
      (∀ ad o, Src.renetcode.server.ServerResult.ClientDisconnected id ad o ∉ g'.results.drop g.results.length) := by
  unfold freshAfterB at hB
  cases hm : MNc.exec a c ops0 with
  | none => rw [hm] at hB; cases hB
  | some m =>
    rw [hm] at hB
    simp only at hB
    cases hc : m.srv.clients[i]? with
    | none => rw [hc] at hB; cases hB
    | some oc =>
      cases oc with
      | none => rw [hc] at hB; cases hB
      | some cn =>
        rw [hc] at hB
        simp only [Bool.and_eq_true, decide_eq_true_eq] at hB
        obtain ⟨hid, hf⟩ := hB
        obtain ⟨g, hg, -⟩ := run_sim a hl c ops0 m hr0 hm
        cases hg' : GNc.exec a c (ops0 ++ ops) with
        | none => rw [hg'] at hsome; cases hsome
        | some g' =>
          have hrun : g.run a ops = some g' := by rw [← exec_append hg]; exact hg'
          have := never_timed_out_exec hl hm hg hr0 hr hrun (i := i) hc hid hf
          exact ⟨g, g', hg, rfl, this.2.2.1, this.2.2.2⟩

/-! ## non-vacuity: a concrete generated run (world of `Lemmas/NcExamples.lean`, toy AEAD `Ex.a` with `C18V.a_laws`)

  The generated `NetcodeServer::new(now 0, max_clients 2, protocol 42, [srvAddr], Secure{key})` (2048 token entries), then:
  client A's connection request, a hostile datagram from another address, A's response (→ `ClientConnected 11`), a payload
  from A, its replay, a payload to A, a clock step, `update_client 11`, a hostile datagram from A's address,
  `disconnect 11` (→ `ClientDisconnected 11`).  The generated run is evaluated by the kernel. -/
section Examples
open Ex

def exCfg : NcCfg := ⟨0, 2, 42, [srvAddr], true, key, ckey⟩
def hostile : Bytes := 21 :: 7 :: List.replicate 30 255
def exOps1 : List Op := [.packet addrA reqA, .packet addrB hostile]
def exOps2 : List Op :=
  [.packet addrA respA, .packet addrA payFromA, .packet addrA payFromA, .sendPayload 11 [9, 9], .update 1000000000,
   .updateClient 11, .packet addrA hostile, .disconnect 11]
def exOps : List Op := exOps1 ++ exOps2

/-- what an example shows of a generated result -/
def shape : SServerResult → String × Nat
  | .None => ("None", 0)
  | .PacketToSend _ p => ("PacketToSend", p.length)
  | .Payload id p => ("Payload", id * 1000 + p.length)
  | .ClientConnected id _ _ _ => ("ClientConnected", id)
  | .ClientDisconnected id _ _ => ("ClientDisconnected", id)

def okOr {α : Type} (d : α) : Res Empty α → α
  | .ok x => x
  | _ => d

set_option maxRecDepth 100000 in
/-- **the generated run succeeds** (kernel evaluation of the generated code), returns these results — challenge (333 bytes),
    nothing for the hostile datagram, `ClientConnected 11`, `Payload 11 [1,2,3]`, NOTHING for its replay, the sealed payload
    for A, …, `ClientDisconnected 11` —, and the generated `clients_id()` is empty at the end -/
theorem ex_run : (GNc.exec Ex.a exCfg exOps).map (fun g => (g.results.map shape, okOr [7] (NetcodeServer.clients_id g.srv))) =
    some ([("PacketToSend", 333), ("None", 0), ("ClientConnected", 11), ("Payload", 11003), ("None", 0), ("PacketToSend", 20),
      ("None", 0), ("PacketToSend", 26), ("None", 0), ("ClientDisconnected", 11)], []) := by decide +kernel

set_option maxRecDepth 100000 in
/-- the event log of the generated run -/
theorem ex_events : (GNc.exec Ex.a exCfg exOps).map (·.events) =
    some [.connected 11 (reprAddr addrA) (toNats udA), .disconnected 11 (reprAddr addrA)] := by decide +kernel

set_option maxRecDepth 100000 in
/-- … and it agrees with the model run, result by result (both evaluated by the kernel; `run_sim` proves this for every run) -/
theorem ex_agree : (GNc.exec Ex.a exCfg exOps).map (·.results) =
    (MNc.exec Ex.a exCfg exOps).map (fun m => m.results.map reprNSR) := by decide +kernel

theorem exOps_inRange : OpsInRange exOps := by decide +kernel
theorem exOps1_inRange : OpsInRange exOps1 := by decide +kernel

theorem ex_g : ∃ g, GNc.exec Ex.a exCfg exOps = some g ∧
    g.events = [.connected 11 (reprAddr addrA) (toNats udA), .disconnected 11 (reprAddr addrA)] := by
  have h := ex_events
  cases hg : GNc.exec Ex.a exCfg exOps with
  | none => rw [hg] at h; cases h
  | some g => rw [hg] at h; exact ⟨g, rfl, Option.some.inj h⟩

/-- the hypotheses of the transferred theorems hold on it: `GReach` -/
theorem ex_greach : ∃ g, GReach Ex.a g ∧
    g.events = [.connected 11 (reprAddr addrA) (toNats udA), .disconnected 11 (reprAddr addrA)] := by
  obtain ⟨g, hg, he⟩ := ex_g
  exact ⟨g, .exec exOps_inRange hg, he⟩

/-- `table_inv`, `table_inv_queries`, `disconnected_only_after_connected` instantiated -/
example : ∃ g, GReach Ex.a g ∧ (∃ ids, (NetcodeServer.clients_id g.srv : Res Empty _) = .ok ids ∧ ids.Nodup) ∧
    g.srv.max_clients ≤ g.srv.clients.length ∧
    ∃ ud l1 l2, ([] : List GEvent) ++ [GEvent.connected 11 (reprAddr addrA) (toNats udA)] =
        l1 ++ .connected 11 (reprAddr addrA) ud :: l2 ∧ GEvent.disconnected 11 (reprAddr addrA) ∉ l2 := by
  obtain ⟨g, hr, he⟩ := ex_greach
  exact ⟨g, hr, (table_inv_queries C18V.a_laws hr).1, (table_inv C18V.a_laws hr).2.2.2.2.1,
    disconnected_only_after_connected C18V.a_laws hr (pre := [.connected 11 (reprAddr addrA) (toNats udA)]) (post := []) he⟩

/-- the generated `process_packet` reports `ClientConnected 11` from `addrA` with A's user data -/
def isConnA : Res Empty (SNetcodeServer × List Nat × SServerResult) → Bool
  | .ok (_, _, .ClientConnected id ad ud _) => id == 11 && ad == reprAddr addrA && ud == toNats udA
  | _ => false

set_option maxRecDepth 100000 in
theorem ex_resp : (match GNc.exec Ex.a exCfg exOps1 with
    | some g => isConnA (@NetcodeServer.process_packet (aeadOf Ex.a) Empty g.srv (reprAddr addrA) (toNats respA))
    | none => false) = true := by decide +kernel

/-- `connected_only_after_request` instantiated: the hypothesis (a generated `process_packet` returning `ClientConnected`
    after a generated run) holds for A's response after A's request and a hostile datagram -/
example : ∃ ga : GArrival, ga.addr = reprAddr addrA ∧ ∃ ar, ArrRel ga ar ∧
    ∃ v pid expire xnonce data t, Accepted Ex.a ar.s addrA v pid expire xnonce data t ∧ t.clientId = 11 := by
  have h := ex_resp
  cases hg : GNc.exec Ex.a exCfg exOps1 with
  | none => rw [hg] at h; cases h
  | some g =>
    rw [hg] at h
    simp only at h
    cases hp : @NetcodeServer.process_packet (aeadOf Ex.a) Empty g.srv (reprAddr addrA) (toNats respA) with
    | err e => exact nomatch e
    | panic msg => rw [hp] at h; cases h
    | ok x =>
      obtain ⟨srv', buf', R⟩ := x
      rw [hp] at h
      cases R with
      | ClientConnected id ad ud ka =>
        simp only [isConnA, Bool.and_eq_true, beq_iff_eq] at h
        obtain ⟨⟨rfl, rfl⟩, rfl⟩ := h
        obtain ⟨-, s, -, ga, -, hga, ar, hrel, -, v, pid, expire, xnonce, data, t, -, hacc, -, hid, -⟩ :=
          connected_only_after_request C18V.a_laws (.exec exOps1_inRange hg) (by decide +kernel) hp
        exact ⟨ga, hga, ar, hrel, v, pid, expire, xnonce, data, t, hacc, hid⟩
      | _ => cases h

/-- the hypotheses of `reply_shape` in checkable form -/
def replyHypB (g : GNc) (addr : Addr) : Bool :=
  decide (g.srv.global_sequence < 2 ^ 64 - 1) && decide (g.srv.challenge_sequence < 2 ^ 64 - 1) &&
    match (find_client_mut_by_addr g.srv.clients (reprAddr addr) : Res Empty _) with
    | .ok none => true
    | _ => false

theorem replyHypB_spec {g : GNc} {addr : Addr} (h : replyHypB g addr = true) :
    g.srv.global_sequence < 2 ^ 64 - 1 ∧ g.srv.challenge_sequence < 2 ^ 64 - 1 ∧
      (find_client_mut_by_addr g.srv.clients (reprAddr addr) : Res Empty _) = .ok none := by
  unfold replyHypB at h
  simp only [Bool.and_eq_true, decide_eq_true_eq] at h
  obtain ⟨⟨h1, h2⟩, h3⟩ := h
  refine ⟨h1, h2, ?_⟩
  cases hf : (find_client_mut_by_addr g.srv.clients (reprAddr addr) : Res Empty _) with
  | ok o =>
    rw [hf] at h3
    cases o with
    | none => rfl
    | some k => cases h3
  | err e => exact nomatch e
  | panic msg => rw [hf] at h3; cases h3

set_option maxRecDepth 100000 in
theorem ex_reply_hyp : (match GNc.exec Ex.a exCfg exOps1 with
    | some g => replyHypB g addrA
    | none => false) = true := by decide +kernel

/-- `reply_shape` instantiated: the keep-alive inside the `ClientConnected` answering A's response (325 bytes) is shorter -/
example : ∃ g srv' buf' R out, GNc.exec Ex.a exCfg exOps1 = some g ∧
    @NetcodeServer.process_packet (aeadOf Ex.a) Empty g.srv (reprAddr addrA) (toNats respA) = .ok (srv', buf', R) ∧
    gDatagram R = some out ∧ out.length < respA.length := by
  have h := ex_resp
  have h' := ex_reply_hyp
  cases hg : GNc.exec Ex.a exCfg exOps1 with
  | none => rw [hg] at h; cases h
  | some g =>
    rw [hg] at h h'
    simp only at h h'
    obtain ⟨h1, h2, h3⟩ := replyHypB_spec h'
    cases hp : @NetcodeServer.process_packet (aeadOf Ex.a) Empty g.srv (reprAddr addrA) (toNats respA) with
    | err e => exact nomatch e
    | panic msg => rw [hp] at h; cases h
    | ok x =>
      obtain ⟨srv', buf', R⟩ := x
      rw [hp] at h
      cases R with
      | ClientConnected id ad ud ka =>
        have hb : respA.length + 16 < 2 ^ 64 := by decide +kernel
        have hsh := (reply_shape C18V.a_laws (.exec exOps1_inRange hg) h1 h2 hb h3 hp (out := ka) rfl).2
        exact ⟨g, srv', buf', _, ka, rfl, hp, rfl, hsh⟩
      | _ => cases h

/-! ### `count_le_max` and `never_timed_out`: the handshake, then `C18T.traceA` (with a `set_max_clients 3`) -/

def hsOps : List Op := [.packet addrA reqA, .packet addrA respA]

instance decGNoLower (a : AEAD) : ∀ (g : GNc) (ops : List Op), Decidable (GNoLower a g ops)
  | _, [] => isTrue trivial
  | g, op :: ops => by
    unfold GNoLower
    have d1 : Decidable (∀ n, op = .setMaxClients n → g.srv.max_clients ≤ n) := by
      cases op with
      | setMaxClients k =>
        exact decidable_of_iff (g.srv.max_clients ≤ k)
          ⟨fun h n hn => by cases hn; exact h, fun h => h k rfl⟩
      | _ => exact isTrue (fun n hn => by cases hn)
    have d2 : Decidable (match g.step a op with | some g' => GNoLower a g' ops | none => True) := by
      cases g.step a op with
      | none => exact isTrue trivial
      | some g' => exact decGNoLower a g' ops
    infer_instance

def nlB : Bool := match GNc.init exCfg with
  | some g0 => decide (GNoLower Ex.a g0 (hsOps ++ C18T.traceA)) && (g0.run Ex.a (hsOps ++ C18T.traceA)).isSome
  | none => false
set_option maxRecDepth 100000 in
theorem nlB_true : nlB = true := by decide +kernel

/-- `count_le_max` instantiated: a generated run from `new` that never lowers the limit -/
example : ∃ g n k, GNc.exec Ex.a exCfg (hsOps ++ C18T.traceA) = some g ∧
    (NetcodeServer.connected_clients g.srv : Res Empty _) = .ok n ∧
    (NetcodeServer.max_clients' g.srv : Res Empty _) = .ok k ∧ n ≤ k := by
  have h := nlB_true
  unfold nlB at h
  cases h0 : GNc.init exCfg with
  | none => rw [h0] at h; cases h
  | some g0 =>
    rw [h0] at h
    simp only [Bool.and_eq_true, decide_eq_true_eq] at h
    obtain ⟨hnl, hsome⟩ := h
    cases hg : g0.run Ex.a (hsOps ++ C18T.traceA) with
    | none => rw [hg] at hsome; cases hsome
    | some g =>
      obtain ⟨n, k, h1, h2, h3, -⟩ := count_le_max C18V.a_laws (by decide +kernel) h0 hg hnl
      exact ⟨g, n, k, by simp only [GNc.exec, h0, hg], h1, h2, h3⟩

set_option maxRecDepth 100000 in
/-- the model execution of the handshake from `new`: A (id 11) is in slot 0 and `C18T.traceA` is `Fresh` for it -/
theorem ex_fresh : freshAfterB Ex.a exCfg hsOps 0 11 C18T.traceA = true := by decide +kernel
set_option maxRecDepth 100000 in
theorem ex_trace_runs : (GNc.exec Ex.a exCfg (hsOps ++ C18T.traceA)).isSome = true := by decide +kernel
theorem hsOps_inRange : OpsInRange hsOps := by decide +kernel
theorem traceA_inRange : OpsInRange C18T.traceA := by decide +kernel

/-- `never_timed_out_exec` instantiated: after the generated handshake, the generated run of `C18T.traceA` (clock steps up to the
    time-out boundary, an authentic and a forged keep-alive, another client's request, a payload, `disconnect 12`,
    `set_max_clients 3`, three `update_client 11`) keeps client 11 connected -/
example : ∃ g g', GNc.exec Ex.a exCfg hsOps = some g ∧ GNc.exec Ex.a exCfg (hsOps ++ C18T.traceA) = some g' ∧
    (NetcodeServer.is_client_connected g'.srv 11 : Res Empty _) = .ok true ∧
    (∀ ad o, Src.renetcode.server.ServerResult.ClientDisconnected 11 ad o ∉ g'.results.drop g.results.length) :=
  never_timed_out_check C18V.a_laws ex_fresh hsOps_inRange traceA_inRange ex_trace_runs

end Examples

end RenetVerif.SrcPropsNcHistory

/-
  NOT DONE (left for a later round; nothing below is claimed):

  * (c) C04 `payload_at_most_once` / `payloads_authentic` over a generated SERVER run.  The model theorems are about
    `Recv.run` (a run of `Packet::decode` calls on ONE session's key and window); Props/C04.lean itself lists "the lifting of
    the per-session statements to arbitrary interleavings of server API calls" as not covered, so there is no model-level
    server-trace theorem to transport yet.  What is needed first: a model lemma that the `Payload` results of `NS.step`-runs for
    one session are the `surfaced` list of `Recv.run` on the datagrams from that session's address (then `run_sim_conv` + the
    `results` log of `GNc` transport it as above; `ex_run` shows the behaviour on the concrete run: the replayed payload
    datagram yields `None`).
  * (e) C17 nonce uniqueness (`server_session_nonces_strict`, `handshake_nonces_disjoint`).  The model theorems are about the
    instrumented semantics `NcAead.Sv.sstep` / `Sv.sessLog` (ghost seal records read off the state before / after each call).
    Transport needs the same instrumentation over the generated struct (fields `global_sequence`, `clients[i].sequence`,
    `clients[i].send_key`, generated `find_client_slot_by_id`) and `Sv.sstep a s op = (NS.step a s op').map …` (the op types
    `Sv.SOp` and `NS.Op` are isomorphic).
  DONE LATER, elsewhere: the client trace system (`Lemmas/SrcEquiv/SrcNcClientSystem.lean`, `Props/SrcPropsNcClientHistory.lean`);
  C10 `no_second_connected`, `log_replays` and the per-call C04 server statements (`Props/SrcPropsNcHistoryMore.lean`).
  DONE LATER (round 20), elsewhere: (c) → Props/C04H.lean + Props/SrcPropsNcPayloadOnce.lean; (e) → Props/SrcPropsNcNonces.lean.
-/
