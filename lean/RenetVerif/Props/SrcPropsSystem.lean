/-
  C01 / C02 / C03 / C08 — SYSTEM level (end to end), ABOUT THE GENERATED CODE.

  `GSys` (`Lemmas/SrcEquiv/SrcSystem.lean`) is the two-endpoint system of `Props/C01S.lean` with both endpoints GENERATED
  `RenetClient` values (`Generated/Src/ConnTypes.lean`, translated from `renet/src/remote_connection.rs`), built by the generated
  `RenetClient::from_channels` and driven only through the generated `send_message`, `receive_message`, `update`,
  `get_packets_to_send`, `process_packet`.  `GSys.exec cfg ops = some g`: the constructor and every call of the run returned
  normally (no panic, no index out of range) and `g` is the final state; `g.submitted`, `g.submittedU`, `g.obtained`,
  `g.deliveredToB` are the same ghost logs as in `C01S` (byte strings are `List Nat`, as in the generated code); `g.outA` is
  the list of all datagrams A's `get_packets_to_send` returned.

  Hypotheses of every theorem:
  * `GCountersOK cfg g` — `System.CountersOK` read off the generated state (field `packet_sequence` of the generated struct,
    lengths of the ghost logs);
  * `RunInRange cfg ops` — THE range side condition of the source tie (`SrcSystem.RunInRange`): the channel ids of the
    configuration are distinct per kind and direction (else an `assert!` of `from_channels` fires), and before every
    operation of the run both endpoints are in range (`ConnInRange`: send counters / budgets `≤ 2^60`, receive budgets
    `≤ 2^63`, receive cursor `< 2^64`, packet sequence after the next flush `≤ 2^60`), submitted messages are
    shorter than `2^63` bytes and the clock stays within `Duration::MAX`.  It is stated over the states of the MODEL run
    (`Sys.run`, as far as it gets) and is decidable by evaluation (see the end of this file).
  The hand model appears in the statements only inside `RunInRange`; the proofs go through `SrcSystem.run_sim_conv` (the
  generated run succeeds ⇒ the model run succeeds in a `SimSys`-related state) and the theorems of `Props/C01S.lean`.
-/
import RenetVerif.Lemmas.SrcEquiv.SrcSystem
import RenetVerif.Props.C01S
set_option maxRecDepth 100000
namespace RenetVerif.SrcPropsSystem
open RenetVerif C RenetVerif.System RenetVerif.SrcEquiv RenetVerif.SrcSystem

/-- **C01, end to end, generated code.**  On a ReliableOrdered channel the sequence of messages B's application has obtained
    from the generated `receive_message` is a prefix of the sequence A's application submitted to the generated
    `send_message` — byte identical, no gaps, no duplicates, no reordering — whatever the network loses, duplicates, delays or
    reorders. -/
theorem src_ordered_prefix_end_to_end (cfg : Cfg) (ops : List SysOp) (g : GSys)
    (hr : GSys.exec cfg ops = some g) (hrg : RunInRange cfg ops) (hc : GCountersOK cfg g) (ch : Nat) (ho : cfg.Ordered ch) :
    g.obtained ch <+: g.submitted ch := by
  obtain ⟨s, hs, sim⟩ := run_sim_conv cfg ops g hrg hr
  rw [sim.obtained, sim.submitted]
  exact (C01S.ordered_prefix_end_to_end cfg ops s hs (countersOK_of_sim sim hc) ch ho).map toNats

/-- the same at every intermediate moment of a longer generated run: the counters hypothesis is only needed for the final
    state -/
theorem src_ordered_prefix_always (cfg : Cfg) (ops1 ops2 : List SysOp) (g1 g : GSys)
    (hr1 : GSys.exec cfg ops1 = some g1) (hr : GSys.exec cfg (ops1 ++ ops2) = some g) (hrg : RunInRange cfg (ops1 ++ ops2))
    (hc : GCountersOK cfg g) (ch : Nat) (ho : cfg.Ordered ch) : g1.obtained ch <+: g1.submitted ch := by
  obtain ⟨s, hs, sim⟩ := run_sim_conv cfg _ g hrg hr
  rw [Sys.run_append] at hs
  cases hs1 : (Sys.init cfg).run ops1 with
  | none => rw [hs1] at hs; cases hs
  | some s1 =>
    rw [hs1] at hs
    obtain ⟨g1', e1, sim1⟩ := run_sim cfg ops1 s1 (runInRange_prefix cfg ops1 ops2 hrg) hs1
    rw [hr1] at e1; cases e1
    rw [sim1.obtained, sim1.submitted]
    exact (C01S.ordered_prefix_always cfg ops1 ops2 s1 s hs1 hs (countersOK_of_sim sim hc) ch ho).map toNats

/-- **C02, end to end, generated code.**  On a ReliableUnordered channel the obtained messages are the submitted messages at
    pairwise distinct positions of the submission log: each at most once, intact, nothing fabricated. -/
theorem src_unordered_once_end_to_end (cfg : Cfg) (ops : List SysOp) (g : GSys)
    (hr : GSys.exec cfg ops = some g) (hrg : RunInRange cfg ops) (hc : GCountersOK cfg g) (ch : Nat) (hu : cfg.Unordered ch) :
    ∃ ids : List Nat, ids.Nodup ∧ (g.obtained ch).map some = ids.map (fun id => (g.submitted ch)[id]?) := by
  obtain ⟨s, hs, sim⟩ := run_sim_conv cfg ops g hrg hr
  obtain ⟨ids, hn, h⟩ := C01S.unordered_once_end_to_end cfg ops s hs (countersOK_of_sim sim hc) ch hu
  refine ⟨ids, hn, ?_⟩
  have := congrArg (List.map (Option.map toNats)) h
  simp only [List.map_map] at this
  rw [sim.obtained, sim.submitted, List.map_map]
  simpa [Function.comp_def, List.getElem?_map] using this

/-- **C03, end to end, generated code (reliable kinds).**  Every message obtained was submitted, byte for byte. -/
theorem src_integrity_end_to_end (cfg : Cfg) (ops : List SysOp) (g : GSys)
    (hr : GSys.exec cfg ops = some g) (hrg : RunInRange cfg ops) (hc : GCountersOK cfg g) (ch : Nat)
    (hk : cfg.Ordered ch ∨ cfg.Unordered ch) :
    ∀ x ∈ g.obtained ch, x ∈ g.submitted ch := by
  obtain ⟨s, hs, sim⟩ := run_sim_conv cfg ops g hrg hr
  intro x hx
  rw [sim.obtained] at hx
  obtain ⟨y, hy, rfl⟩ := List.mem_map.mp hx
  rw [sim.submitted]
  exact List.mem_map_of_mem (C01S.integrity_end_to_end cfg ops s hs (countersOK_of_sim sim hc) ch hk y hy)

/-- **C03, end to end, generated code (unreliable kind).**  On an Unreliable channel every message B's application obtains —
    small, or reassembled from slices — is byte-identical to one that was passed to `send_message` on that channel
    (`submittedU`); nothing is fabricated, nothing is assembled from slices of different messages. -/
theorem src_integrity_unreliable_end_to_end (cfg : Cfg) (ops : List SysOp) (g : GSys)
    (hr : GSys.exec cfg ops = some g) (hrg : RunInRange cfg ops) (hc : GCountersOK cfg g) (ch : Nat) (hk : cfg.Unreliable ch) :
    ∀ x ∈ g.obtained ch, x ∈ g.submittedU ch := by
  obtain ⟨s, hs, sim⟩ := run_sim_conv cfg ops g hrg hr
  intro x hx
  rw [sim.obtained] at hx
  obtain ⟨y, hy, rfl⟩ := List.mem_map.mp hx
  rw [sim.submittedU]
  exact List.mem_map_of_mem (C01S.integrity_unreliable_end_to_end cfg ops s hs (countersOK_of_sim sim hc) ch hk y hy)

/-- **C08, end to end, generated code.**  "Released" is read off the GENERATED struct: `sA` is the entry of channel `ch` in
    the field `send_reliable_channels` of A, message `id` has been issued (`id < sA.next_reliable_message_id`) and is no longer
    in `sA.unacked_messages`.  Then every packet needed to rebuild that message was handed to B, and the GENERATED decoder
    `Packet::from_bytes` (`GDecodes`) reads it from the delivered datagram: `m` being the `id`-th submitted message,
    * `m` small: some datagram `outA[k]`, `k ∈ deliveredToB`, decodes to a SmallReliable packet of channel `ch` containing
      `(id, m)`;
    * `m` sliced: for EVERY slice index `i < n = ⌈|m| / SLICE_SIZE⌉`, some delivered datagram decodes to the ReliableSlice
      packet `(ch, id, i, n, gSliceBytes m n i)`.
    Lost, duplicated, reordered or stale acknowledgements (any `deliverToA` schedule) cannot cause an earlier release. -/
theorem src_release_only_after_delivery (cfg : Cfg) (ops : List SysOp) (g : GSys)
    (hr : GSys.exec cfg ops = some g) (hrg : RunInRange cfg ops) (hc : GCountersOK cfg g) (ch : Nat)
    (sA : Src.renet.channel.reliable.SendChannelReliable)
    (hf : RustSem.Map.find? g.a.send_reliable_channels ch = some sA) (id : Nat) (hid : id < sA.next_reliable_message_id)
    (hrel : RustSem.Map.find? sA.unacked_messages id = none) :
    ∃ m, (g.submitted ch)[id]? = some m ∧
      (m.length ≤ SLICE_SIZE → ∃ k ∈ g.deliveredToB, ∃ bytes sq msgs, g.outA[k]? = some bytes ∧
          GDecodes bytes (.SmallReliable sq ch msgs) ∧ (id, m) ∈ msgs) ∧
      (SLICE_SIZE < m.length → ∀ i, i < divCeil m.length SLICE_SIZE → ∃ k ∈ g.deliveredToB, ∃ bytes sq,
          g.outA[k]? = some bytes ∧
          GDecodes bytes (.ReliableSlice sq ch
            ⟨id, i, divCeil m.length SLICE_SIZE, gSliceBytes m (divCeil m.length SLICE_SIZE) i⟩)) := by
  obtain ⟨s, hs, sim⟩ := run_sim_conv cfg ops g hrg hr
  obtain ⟨sM, hfM, rfl⟩ := find_sendRel_of_sim sim hf
  obtain ⟨m, hm, h1, h2⟩ := C01S.release_only_after_delivery cfg ops s hs (countersOK_of_sim sim hc) ch sM hfM id hid
    (unacked_none_of_repr hrel)
  refine ⟨toNats m, by rw [sim.submitted, List.getElem?_map, hm]; rfl, ?_, ?_⟩
  · intro hl
    rw [toNats_length] at hl
    obtain ⟨k, hk, bytes, sq, msgs, hb, hd, hin⟩ := h1 hl
    refine ⟨k, by rw [sim.deliveredToB]; exact hk, toNats bytes, sq, _, by rw [sim.outA, List.getElem?_map, hb]; rfl,
      gdecodes_of_fromBytes hd, ?_⟩
    exact List.mem_map.mpr ⟨(id, m), hin, rfl⟩
  · intro hl i hi
    rw [toNats_length] at hl hi
    obtain ⟨k, hk, bytes, sq, hb, hd⟩ := h2 hl i hi
    refine ⟨k, by rw [sim.deliveredToB]; exact hk, toNats bytes, sq, by rw [sim.outA, List.getElem?_map, hb]; rfl, ?_⟩
    have := gdecodes_of_fromBytes hd
    simp only [reprPacket, reprSlice, toNats_sliceBytes] at this
    rw [toNats_length]
    exact this

/-- … and the same for a message still being transmitted: a slice that A's generated struct has marked acknowledged (entry
    `Sliced` of `unacked_messages` with `acked[i] = true`; A will not retransmit it) was handed to B -/
theorem src_slice_marked_only_after_delivery (cfg : Cfg) (ops : List SysOp) (g : GSys)
    (hr : GSys.exec cfg ops = some g) (hrg : RunInRange cfg ops) (hc : GCountersOK cfg g) (ch : Nat)
    (sA : Src.renet.channel.reliable.SendChannelReliable)
    (hf : RustSem.Map.find? g.a.send_reliable_channels ch = some sA) (id : Nat) (m : GBytes) (n k nx : Nat) (a : List Bool)
    (ls : List (Option Nat)) (hent : RustSem.Map.find? sA.unacked_messages id = some (.Sliced m n k nx a ls))
    (i : Nat) (hi : a[i]? = some true) :
    ∃ j ∈ g.deliveredToB, ∃ bytes sq, g.outA[j]? = some bytes ∧
      GDecodes bytes (.ReliableSlice sq ch ⟨id, i, n, gSliceBytes m n i⟩) := by
  obtain ⟨s, hs, sim⟩ := run_sim_conv cfg ops g hrg hr
  obtain ⟨sM, hfM, rfl⟩ := find_sendRel_of_sim sim hf
  obtain ⟨m0, rfl, hentM⟩ := unacked_sliced_of_repr hent
  obtain ⟨j, hj, bytes, sq, hb, hd⟩ := C01S.slice_marked_only_after_delivery cfg ops s hs (countersOK_of_sim sim hc) ch sM hfM
    id m0 n k nx a ls hentM i hi
  refine ⟨j, by rw [sim.deliveredToB]; exact hj, toNats bytes, sq, by rw [sim.outA, List.getElem?_map, hb]; rfl, ?_⟩
  have := gdecodes_of_fromBytes hd
  simp only [reprPacket, reprSlice, toNats_sliceBytes] at this
  exact this

/-! ## non-vacuity: the concrete runs of `Props/C01S.lean`, executed by the kernel ON THE GENERATED CODE

  For each example: the range side condition `RunInRange` is decided by evaluation, the generated execution `GSys.exec` is
  evaluated by the kernel (it returns `some _`: no generated function panics), the counters hypothesis is evaluated on the
  generated final state, and the theorems above are instantiated.  The schedules contain loss, duplication and reordering
  (see the descriptions in `C01S`). -/

/-- a placeholder for `Option.getD` (never used: the executions below return `some _`) -/
def gzero : GSys :=
  ⟨reprConn (fun _ => 0) (Conn.fromChannels 0 [] []), reprConn (fun _ => 0) (Conn.fromChannels 0 [] []), [], [],
   fun _ => [], fun _ => [], fun _ => [], []⟩

/-! `C01S.Ex`: one ReliableOrdered channel; a 3-byte and a 1300-byte (two-slice) message; slice 0 lost at first, slice 1
    delivered twice, acks delivered late and twice, one retransmission -/
namespace Ex
abbrev cfg := C01S.Ex.cfg
abbrev ops1 := C01S.Ex.ops1
abbrev ops2 := C01S.Ex.ops2
abbrev m0 := C01S.Ex.m0
abbrev m1 := C01S.Ex.m1

def gmid : GSys := (GSys.exec cfg ops1).getD gzero
def gfin : GSys := (GSys.exec cfg (ops1 ++ ops2)).getD gzero

/-- the range side condition holds (decided by evaluation) -/
theorem inRange : RunInRange cfg (ops1 ++ ops2) := by decide +kernel
/-- the generated code runs through both parts of the schedule without a panic -/
theorem grun1 : GSys.exec cfg ops1 = some gmid := some_getD (by decide +kernel) _
theorem grun12 : GSys.exec cfg (ops1 ++ ops2) = some gfin := some_getD (by decide +kernel) _

/-- everything the examples below need to know about the two generated states, evaluated by the kernel -/
theorem gfacts :
    (gfin.a.packet_sequence ≤ Varint.MAX + 1 ∧ (∀ c ∈ cfg.send, (gfin.submitted c.id).length ≤ Varint.MAX + 1) ∧
      (∀ c ∈ cfg.send, ∀ m ∈ gfin.submitted c.id, m.length ≤ MAX_NUM_SLICES * SLICE_SIZE) ∧
      (∀ c ∈ cfg.send, ∀ m ∈ gfin.submittedU c.id, m.length ≤ MAX_NUM_SLICES * SLICE_SIZE)) ∧
    (gmid.submitted 0 = [toNats m0, toNats m1] ∧ gmid.obtained 0 = [toNats m0] ∧
      gfin.submitted 0 = [toNats m0, toNats m1] ∧ gfin.obtained 0 = [toNats m0, toNats m1] ∧
      gfin.deliveredToB = [1, 2, 1, 3] ∧ gfin.outA.length = 5 ∧ gfin.outB.length = 2) ∧
    (RustSem.Map.find? gfin.a.send_reliable_channels 0).map (fun s => (s.next_reliable_message_id, s.unacked_messages))
      = some (2, []) := by
  decide +kernel

/-- the counters hypothesis holds in the generated final state -/
theorem gcounters : GCountersOK cfg gfin := ⟨by decide, gfacts.1.1, gfacts.1.2.1, gfacts.1.2.2.1, gfacts.1.2.2.2⟩

/-- C01 at the end of the generated run … -/
example : gfin.obtained 0 <+: gfin.submitted 0 :=
  src_ordered_prefix_end_to_end cfg _ gfin grun12 inRange gcounters 0 C01S.Ex.ordered0
/-- … and at the intermediate moment `gmid` -/
example : gmid.obtained 0 <+: gmid.submitted 0 :=
  src_ordered_prefix_always cfg ops1 ops2 gmid gfin grun1 grun12 inRange gcounters 0 C01S.Ex.ordered0
/-- what actually happened in the generated run: a strict prefix in the middle (message 1 incomplete: slice 0 lost),
    everything at the end; four datagrams were handed to B, one of them twice, two of A's five datagrams never -/
example : gmid.submitted 0 = [toNats m0, toNats m1] ∧ gmid.obtained 0 = [toNats m0] ∧
    gfin.submitted 0 = [toNats m0, toNats m1] ∧ gfin.obtained 0 = [toNats m0, toNats m1] ∧
    gfin.deliveredToB = [1, 2, 1, 3] ∧ gfin.outA.length = 5 ∧ gfin.outB.length = 2 := gfacts.2.1
/-- C03 -/
example : ∀ x ∈ gfin.obtained 0, x ∈ gfin.submitted 0 :=
  src_integrity_end_to_end cfg _ gfin grun12 inRange gcounters 0 (Or.inl C01S.Ex.ordered0)

/-- A's generated sending channel at the end: both messages issued and released -/
theorem gchanFin : ∃ sA, RustSem.Map.find? gfin.a.send_reliable_channels 0 = some sA ∧
    sA.next_reliable_message_id = 2 ∧ sA.unacked_messages = [] := by
  have h := gfacts.2.2
  cases hf : RustSem.Map.find? gfin.a.send_reliable_channels 0 with
  | none => rw [hf] at h; cases h
  | some sA =>
    rw [hf] at h
    simp only [Option.map_some, Option.some.injEq, Prod.mk.injEq] at h
    exact ⟨sA, rfl, h.1, h.2⟩

/-- C08 for the small message 0 and the sliced message 1: the delivered datagrams exist and the generated decoder reads
    the packets from them -/
example (id : Nat) (hid : id < 2) : ∃ m, (gfin.submitted 0)[id]? = some m ∧
    (m.length ≤ SLICE_SIZE → ∃ k ∈ gfin.deliveredToB, ∃ bytes sq msgs, gfin.outA[k]? = some bytes ∧
      GDecodes bytes (.SmallReliable sq 0 msgs) ∧ (id, m) ∈ msgs) ∧
    (SLICE_SIZE < m.length → ∀ i, i < divCeil m.length SLICE_SIZE → ∃ k ∈ gfin.deliveredToB, ∃ bytes sq,
      gfin.outA[k]? = some bytes ∧ GDecodes bytes (.ReliableSlice sq 0
        ⟨id, i, divCeil m.length SLICE_SIZE, gSliceBytes m (divCeil m.length SLICE_SIZE) i⟩)) := by
  obtain ⟨sA, hf, hn, hu⟩ := gchanFin
  exact src_release_only_after_delivery cfg _ gfin grun12 inRange gcounters 0 sA hf id (by omega) (by rw [hu]; rfl)

end Ex

/-! `C01S.ExU`: a ReliableUnordered channel; B's application gets the LATER message first; one datagram delivered twice -/
namespace ExU
abbrev cfg := C01S.ExU.cfg
abbrev ops := C01S.ExU.ops
abbrev a := C01S.ExU.a
abbrev b := C01S.ExU.b

def gfin : GSys := (GSys.exec cfg ops).getD gzero
theorem inRange : RunInRange cfg ops := by decide +kernel
theorem grun : GSys.exec cfg ops = some gfin := some_getD (by decide +kernel) _
theorem gfacts :
    (gfin.a.packet_sequence ≤ Varint.MAX + 1 ∧ (∀ c ∈ cfg.send, (gfin.submitted c.id).length ≤ Varint.MAX + 1) ∧
      (∀ c ∈ cfg.send, ∀ m ∈ gfin.submitted c.id, m.length ≤ MAX_NUM_SLICES * SLICE_SIZE) ∧
      (∀ c ∈ cfg.send, ∀ m ∈ gfin.submittedU c.id, m.length ≤ MAX_NUM_SLICES * SLICE_SIZE)) ∧
    (gfin.submitted 0 = [toNats a, toNats b] ∧ gfin.obtained 0 = [toNats b, toNats a]) := by decide +kernel
theorem gcounters : GCountersOK cfg gfin := ⟨by decide, gfacts.1.1, gfacts.1.2.1, gfacts.1.2.2.1, gfacts.1.2.2.2⟩

/-- C02 -/
example : ∃ ids : List Nat, ids.Nodup ∧ (gfin.obtained 0).map some = ids.map (fun id => (gfin.submitted 0)[id]?) :=
  src_unordered_once_end_to_end cfg ops gfin grun inRange gcounters 0 C01S.ExU.unordered0
/-- what actually happened: out of order, each exactly once (witness `ids = [1, 0]`) -/
example : gfin.submitted 0 = [toNats a, toNats b] ∧ gfin.obtained 0 = [toNats b, toNats a] := gfacts.2
/-- C03 -/
example : ∀ x ∈ gfin.obtained 0, x ∈ gfin.submitted 0 :=
  src_integrity_end_to_end cfg ops gfin grun inRange gcounters 0 (Or.inr C01S.ExU.unordered0)

end ExU

/-! `C01S.ExN`: an Unreliable channel; the large message is reassembled from slices delivered out of order, then a stale
    duplicate fragment arrives -/
namespace ExN
abbrev cfg := C01S.ExN.cfg
abbrev ops := C01S.ExN.ops
abbrev a := C01S.ExN.a
abbrev b := C01S.ExN.b

def gfin : GSys := (GSys.exec cfg ops).getD gzero
theorem inRange : RunInRange cfg ops := by decide +kernel
theorem grun : GSys.exec cfg ops = some gfin := some_getD (by decide +kernel) _
theorem gfacts :
    (gfin.a.packet_sequence ≤ Varint.MAX + 1 ∧ (∀ c ∈ cfg.send, (gfin.submitted c.id).length ≤ Varint.MAX + 1) ∧
      (∀ c ∈ cfg.send, ∀ m ∈ gfin.submitted c.id, m.length ≤ MAX_NUM_SLICES * SLICE_SIZE) ∧
      (∀ c ∈ cfg.send, ∀ m ∈ gfin.submittedU c.id, m.length ≤ MAX_NUM_SLICES * SLICE_SIZE)) ∧
    (gfin.submittedU 0 = [toNats a, toNats b] ∧ gfin.obtained 0 = [toNats a, toNats b] ∧ gfin.outA.length = 3 ∧
      gfin.deliveredToB = [1, 2, 0, 1]) := by
  decide +kernel
theorem gcounters : GCountersOK cfg gfin := ⟨by decide, gfacts.1.1, gfacts.1.2.1, gfacts.1.2.2.1, gfacts.1.2.2.2⟩

/-- C03 on the unreliable kind -/
example : ∀ x ∈ gfin.obtained 0, x ∈ gfin.submittedU 0 :=
  src_integrity_unreliable_end_to_end cfg ops gfin grun inRange gcounters 0 C01S.ExN.unreliable0
/-- what actually happened: both messages arrived, the large one reassembled from slices delivered out of order -/
example : gfin.submittedU 0 = [toNats a, toNats b] ∧ gfin.obtained 0 = [toNats a, toNats b] ∧ gfin.outA.length = 3 ∧
    gfin.deliveredToB = [1, 2, 0, 1] := gfacts.2

end ExN

end RenetVerif.SrcPropsSystem
