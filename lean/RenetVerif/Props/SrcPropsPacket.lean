/-
  C16 (wire round trip) and C06 (hostile bytes never panic) stated DIRECTLY about the generated
  `renet::packet::Packet::{to_bytes, from_bytes}` of `Generated/Src/Packet.lean` (derived from `renet/src/packet.rs`).
  The model (`RenetVerif.Packet`, `Packet.enc/decode`) appears only in the proofs:
  `SrcTiePacket` (generated = model) ∘ `Props/C16.packet_roundtrip`.

  `WfPacket gp` is an intrinsic, decidable-by-inspection predicate on the GENERATED packet type: what every packet the
  library builds satisfies (varint fields ≤ 2^62-1, channel id a `u8`, < 65536 messages, payload bytes `< 256`, slice
  counts / sizes within the limits `from_bytes` enforces, ack ranges ascending non-empty non-adjacent).
-/
import RenetVerif.Props.SrcTiePacket
import RenetVerif.Props.C16
import RenetVerif.Lemmas.SrcCorollaries
namespace RenetVerif.SrcCor
open RenetVerif RenetVerif.SrcEquiv RenetVerif.RustSem

/-! ### helpers: abstraction of a generated packet -/

def absSlice (s : Src.renet.packet.Slice) : Slice := ⟨s.message_id, s.slice_index, s.num_slices, ofNats s.payload⟩

def absPacket : SPacket → RenetVerif.Packet
  | .SmallReliable s c m => .smallReliable s c (m.map fun x => (x.1, ofNats x.2))
  | .SmallUnreliable s c m => .smallUnreliable s c (m.map ofNats)
  | .ReliableSlice s c sl => .reliableSlice s c (absSlice sl)
  | .UnreliableSlice s c sl => .unreliableSlice s c (absSlice sl)
  | .Ack s r => .ack s (pairs r)

/-- every byte stored in the packet is a byte -/
def PacketBytesOk : SPacket → Prop
  | .SmallReliable _ _ m => ∀ x ∈ m, BytesOk x.2
  | .SmallUnreliable _ _ m => ∀ x ∈ m, BytesOk x
  | .ReliableSlice _ _ sl => BytesOk sl.payload
  | .UnreliableSlice _ _ sl => BytesOk sl.payload
  | .Ack _ _ => True

/-- intrinsic well-formedness of a generated packet (`Varint.MAX = 2^62-1`, `C.SLICE_SIZE = 1200`,
    `C.MAX_NUM_SLICES` are the constants extracted from the Rust source) -/
def WfPacket : SPacket → Prop
  | .SmallReliable seq ch msgs => seq ≤ Varint.MAX ∧ ch < 256 ∧ msgs.length < 65536 ∧
      ∀ x ∈ msgs, x.1 ≤ Varint.MAX ∧ x.2.length ≤ Varint.MAX ∧ BytesOk x.2
  | .SmallUnreliable seq ch msgs => seq ≤ Varint.MAX ∧ ch < 256 ∧ msgs.length < 65536 ∧
      ∀ x ∈ msgs, x.length ≤ Varint.MAX ∧ BytesOk x
  | .ReliableSlice seq ch sl => seq ≤ Varint.MAX ∧ ch < 256 ∧ sl.message_id ≤ Varint.MAX ∧ sl.slice_index ≤ Varint.MAX ∧
      1 ≤ sl.num_slices ∧ sl.num_slices ≤ C.MAX_NUM_SLICES ∧ 1 ≤ sl.payload.length ∧ sl.payload.length ≤ C.SLICE_SIZE ∧
      BytesOk sl.payload
  | .UnreliableSlice seq ch sl => seq ≤ Varint.MAX ∧ ch < 256 ∧ sl.message_id ≤ Varint.MAX ∧
      sl.slice_index ≤ Varint.MAX ∧ 1 ≤ sl.num_slices ∧ sl.num_slices ≤ C.MAX_NUM_SLICES ∧
      sl.payload.length ≤ Varint.MAX ∧ BytesOk sl.payload
  | .Ack seq ranges => seq ≤ Varint.MAX ∧ ranges ≠ [] ∧ RangesWF ranges ∧ ∀ r ∈ ranges, r.«end» ≤ Varint.MAX + 1

theorem reprSlice_absSlice (s : Src.renet.packet.Slice) (h : BytesOk s.payload) : reprSlice (absSlice s) = s := by
  cases s; simp only [reprSlice, absSlice]; rw [toNats_ofNats h]

theorem absSlice_reprSlice (s : Slice) : absSlice (reprSlice s) = s := by
  cases s; simp only [reprSlice, absSlice]; rw [ofNats_toNats]

theorem reprRange_pairs (l : List RustSem.Range) : (pairs l).map reprRange = l := by
  induction l with
  | nil => rfl
  | cons r l ih => simp only [pairs, List.map_cons, reprRange] at ih ⊢; rw [ih]

theorem pairs_reprRange (l : List AckRange) : pairs (l.map reprRange) = l := by
  induction l with
  | nil => rfl
  | cons r l ih => simp only [pairs, List.map_cons, reprRange] at ih ⊢; rw [ih]

theorem map_toNats_ofNats : ∀ (m : List (List Nat)), (∀ x ∈ m, BytesOk x) → (m.map ofNats).map toNats = m
  | [], _ => rfl
  | x :: m, h => by
    simp only [List.map_cons]
    rw [toNats_ofNats (h x (by simp)), map_toNats_ofNats m (fun y hy => h y (by simp [hy]))]

theorem map_pair_toNats_ofNats : ∀ (m : List (Nat × List Nat)), (∀ x ∈ m, BytesOk x.2) →
    (m.map fun x => (x.1, ofNats x.2)).map (fun x => (x.1, toNats x.2)) = m
  | [], _ => rfl
  | x :: m, h => by
    simp only [List.map_cons]
    rw [toNats_ofNats (h x (by simp)), map_pair_toNats_ofNats m (fun y hy => h y (by simp [hy]))]

/-- a generated packet whose bytes are bytes is the image of its abstraction -/
theorem reprPacket_absPacket (gp : SPacket) (h : PacketBytesOk gp) : reprPacket (absPacket gp) = gp := by
  cases gp with
  | SmallReliable s c m => simp only [absPacket, reprPacket]; rw [map_pair_toNats_ofNats m h]
  | SmallUnreliable s c m => simp only [absPacket, reprPacket]; rw [map_toNats_ofNats m h]
  | ReliableSlice s c sl => simp only [absPacket, reprPacket]; rw [reprSlice_absSlice sl h]
  | UnreliableSlice s c sl => simp only [absPacket, reprPacket]; rw [reprSlice_absSlice sl h]
  | Ack s r => simp only [absPacket, reprPacket]; rw [reprRange_pairs]

theorem absPacket_reprPacket (p : RenetVerif.Packet) : absPacket (reprPacket p) = p := by
  cases p with
  | smallReliable s c m =>
    simp only [absPacket, reprPacket, List.map_map]
    congr 1
    conv => rhs; rw [← List.map_id m]
    apply List.map_congr_left
    intro x _; simp [ofNats_toNats]
  | smallUnreliable s c m =>
    simp only [absPacket, reprPacket, List.map_map]
    congr 1
    conv => rhs; rw [← List.map_id m]
    apply List.map_congr_left
    intro x _; simp [ofNats_toNats]
  | reliableSlice s c sl => simp only [absPacket, reprPacket, absSlice_reprSlice]
  | unreliableSlice s c sl => simp only [absPacket, reprPacket, absSlice_reprSlice]
  | ack s r => simp only [absPacket, reprPacket, pairs_reprRange]

theorem ofNats_length (l : List Nat) : (ofNats l).length = l.length := by simp [ofNats]

theorem wfPacket_bytesOk {gp : SPacket} (h : WfPacket gp) : PacketBytesOk gp := by
  cases gp with
  | SmallReliable s c m => exact fun x hx => (h.2.2.2 x hx).2.2
  | SmallUnreliable s c m => exact fun x hx => (h.2.2.2 x hx).2
  | ReliableSlice s c sl => exact h.2.2.2.2.2.2.2.2
  | UnreliableSlice s c sl => exact h.2.2.2.2.2.2.2
  | Ack s r => trivial

/-- the intrinsic predicate implies the model's `Packet.WF` of the abstraction -/
theorem wf_absPacket {gp : SPacket} (h : WfPacket gp) : (absPacket gp).WF := by
  cases gp with
  | SmallReliable s c m =>
    obtain ⟨h1, h2, h3, h4⟩ := h
    refine ⟨h1, h2, by simpa using h3, ?_⟩
    intro x hx
    simp only [List.mem_map] at hx
    obtain ⟨y, hy, rfl⟩ := hx
    exact ⟨(h4 y hy).1, by simpa [ofNats_length] using (h4 y hy).2.1⟩
  | SmallUnreliable s c m =>
    obtain ⟨h1, h2, h3, h4⟩ := h
    refine ⟨h1, h2, by simpa using h3, ?_⟩
    intro x hx
    simp only [List.mem_map] at hx
    obtain ⟨y, hy, rfl⟩ := hx
    simpa [ofNats_length] using (h4 y hy).1
  | ReliableSlice s c sl =>
    obtain ⟨h1, h2, h3, h4, h5, h6, h7, h8, _⟩ := h
    exact ⟨h1, h2, h3, h4, h5, h6, by simpa [absSlice, ofNats_length] using h7, by simpa [absSlice, ofNats_length] using h8⟩
  | UnreliableSlice s c sl =>
    obtain ⟨h1, h2, h3, h4, h5, h6, h7, _⟩ := h
    exact ⟨h1, h2, h3, h4, h5, h6, by simpa [absSlice, ofNats_length] using h7⟩
  | Ack s r =>
    obtain ⟨h1, h2, h3, h4⟩ := h
    refine ⟨h1, Acks.ackWF_of_wf _ (by simpa [pairs] using h2) ((rangesWF_iff r).1 h3) ?_⟩
    intro x hx
    simp only [pairs, List.mem_map] at hx
    obtain ⟨y, hy, rfl⟩ := hx
    exact h4 y hy

/-- a model packet whose encoding is defined and fits the buffer is written by the generated `to_bytes` -/
theorem to_bytes_of_enc (p : RenetVerif.Packet) (bytes : Bytes) (henc : p.enc = .ok bytes) (buf : List Nat)
    (hfit : bytes.length ≤ buf.length) :
    ∃ b', Src.renet.packet.Packet.to_bytes (reprPacket p) (OctetsMut.with_slice buf) = .ok (b', bytes.length) := by
  have ht := SrcTie.packet_to_bytes p (OctetsMut.with_slice buf) (Nat.zero_le _) bytes henc
  simp only [OctetsMut.with_slice, Nat.zero_add] at ht
  rw [if_pos hfit] at ht
  exact ⟨_, forget_eq_ok ht⟩

/-- round trip for the representation of a model packet that is well-formed in the sense of C16 -/
theorem roundtrip_repr (p : RenetVerif.Packet) (hwf : p.WF) (buf : List Nat) (b' : OctetsMut) (n : Nat)
    (hw : Src.renet.packet.Packet.to_bytes (reprPacket p) (OctetsMut.with_slice buf) = .ok (b', n)) :
    n ≤ buf.length ∧ b'.off = n ∧ b'.buf.length = buf.length ∧
    Src.renet.packet.Packet.from_bytes (Octets.with_slice (b'.buf.take n)) = .ok (⟨b'.buf.take n, n⟩, reprPacket p) := by
  obtain ⟨bytes, henc, hdec⟩ := C16.packet_roundtrip _ hwf
  have ht := SrcTie.packet_to_bytes p (OctetsMut.with_slice buf) (Nat.zero_le _) bytes henc
  rw [hw] at ht
  simp only [OctetsMut.with_slice, Nat.zero_add, List.take_zero, List.nil_append] at ht
  have hl : (toNats bytes).length = bytes.length := toNats_length _
  split at ht
  · rename_i hfit
    have := Res.ok.inj ht
    obtain ⟨hb, hn⟩ := Prod.mk.inj this
    subst hn
    subst hb
    have htake : (toNats bytes ++ List.drop bytes.length buf).take bytes.length = toNats bytes := by
      rw [List.take_append_of_le_length (by omega), List.take_of_length_le (by omega)]
    refine ⟨hfit, rfl, by simp [hl]; omega, ?_⟩
    simp only [htake]
    have hf := SrcTie.packet_from_bytes [] bytes
    simp only [List.nil_append, List.length_nil] at hf
    have hd : RenetVerif.Packet.decode bytes = .ok (p, []) := by
      obtain ⟨b2, hb2, hd2⟩ := RenetVerif.Packet.decode_enc _ hwf
      rw [henc] at hb2; cases hb2
      simpa using hd2 []
    rw [hd] at hf
    simp only [List.length_nil, Nat.sub_zero] at hf
    unfold Octets.with_slice
    cases hr : Src.renet.packet.Packet.from_bytes ⟨toNats bytes, 0⟩ with
    | ok a => rw [hr] at hf; simp only [Res.forget] at hf; rw [Res.ok.inj hf]
    | err e => rw [hr] at hf; cases hf
    | panic s => rw [hr] at hf; cases hf
  · cases ht

end RenetVerif.SrcCor

namespace RenetVerif.SrcProps
open RenetVerif RenetVerif.SrcEquiv RenetVerif.SrcTie RenetVerif.SrcCor RenetVerif.RustSem

/-! ### headline statements -/

/-- **C16/C06, `to_bytes` is total on well-formed packets.**  On a fresh buffer of ANY size the generated `to_bytes`
    does not panic; its only failure is `Err(BufferTooShort)`. -/
theorem packet_to_bytes_total (gp : SPacket) (h : WfPacket gp) (buf : List Nat) :
    (∃ b' n, Src.renet.packet.Packet.to_bytes gp (OctetsMut.with_slice buf) = .ok (b', n)) ∨
    (∃ b', Src.renet.packet.Packet.to_bytes gp (OctetsMut.with_slice buf) = .err (.BufferTooShort, b')) := by
  obtain ⟨bytes, henc, _⟩ := C16.packet_roundtrip _ (wf_absPacket h)
  have ht := packet_to_bytes (absPacket gp) (OctetsMut.with_slice buf) (Nat.zero_le _) bytes henc
  rw [reprPacket_absPacket gp (wfPacket_bytesOk h)] at ht
  cases hr : Src.renet.packet.Packet.to_bytes gp (OctetsMut.with_slice buf) with
  | ok a => exact .inl ⟨a.1, a.2, rfl⟩
  | err e =>
    rw [hr] at ht
    right
    refine ⟨e.2, ?_⟩
    split at ht
    · cases ht
    · simp only [Res.forget] at ht
      have : e.1 = .BufferTooShort := Res.err.inj ht
      rw [← this]
  | panic s =>
    rw [hr] at ht
    split at ht <;> cases ht

/-- **C16, round trip of the generated code.**  Whenever the generated `to_bytes` of a well-formed packet succeeds on a
    fresh buffer, writing `n` bytes, the generated `from_bytes` on exactly those `n` bytes returns the packet
    (and has consumed all `n` bytes). -/
theorem packet_roundtrip (gp : SPacket) (h : WfPacket gp) (buf : List Nat) (b' : OctetsMut) (n : Nat)
    (hw : Src.renet.packet.Packet.to_bytes gp (OctetsMut.with_slice buf) = .ok (b', n)) :
    n ≤ buf.length ∧ b'.off = n ∧ b'.buf.length = buf.length ∧
    Src.renet.packet.Packet.from_bytes (Octets.with_slice (b'.buf.take n)) = .ok (⟨b'.buf.take n, n⟩, gp) := by
  have := roundtrip_repr (absPacket gp) (wf_absPacket h) buf b' n
    (by rw [reprPacket_absPacket gp (wfPacket_bytesOk h)]; exact hw)
  rwa [reprPacket_absPacket gp (wfPacket_bytesOk h)] at this

/-- both together: on a fresh buffer of ANY size a well-formed packet is either written and read back as itself, or
    rejected with `Err(BufferTooShort)` (for the packets the channels build the second case does not occur on a buffer
    of 1300 bytes: `SrcPropsSendUnrel.send_unrel_packets_fit`, `SrcPropsSendRel.send_rel_packets_roundtrip`). -/
theorem packet_roundtrip_exists (gp : SPacket) (h : WfPacket gp) (buf : List Nat) :
    (∃ b' n, Src.renet.packet.Packet.to_bytes gp (OctetsMut.with_slice buf) = .ok (b', n) ∧
      Src.renet.packet.Packet.from_bytes (Octets.with_slice (b'.buf.take n)) = .ok (⟨b'.buf.take n, n⟩, gp)) ∨
    (∃ b', Src.renet.packet.Packet.to_bytes gp (OctetsMut.with_slice buf) = .err (.BufferTooShort, b')) := by
  rcases packet_to_bytes_total gp h buf with ⟨b', n, hw⟩ | he
  · exact .inl ⟨b', n, hw, (packet_roundtrip gp h buf b' n hw).2.2.2⟩
  · exact .inr he

/-- **C06, hostile input.**  The generated `from_bytes` never panics: on EVERY byte list (every element `< 256`) and
    every cursor position inside it, it returns a packet or an `Err`. -/
theorem packet_from_bytes_never_panics (l : List Nat) (hl : BytesOk l) (off : Nat) (hoff : off ≤ l.length) :
    NoPanic (Src.renet.packet.Packet.from_bytes ⟨l, off⟩) := by
  have h := packet_from_bytes ((ofNats l).take off) ((ofNats l).drop off)
  rw [List.take_append_drop, toNats_ofNats hl] at h
  have hlen : ((ofNats l).take off).length = off := by simp [ofNats_length]; omega
  rw [hlen] at h
  rw [← noPanic_forget, h]
  cases RenetVerif.Packet.decode ((ofNats l).drop off) with
  | ok x => exact noPanic_ok _
  | error e => exact noPanic_err _

/-- … in particular on a fresh cursor over a received datagram -/
theorem packet_from_bytes_fresh_never_panics (l : List Nat) (hl : BytesOk l) :
    NoPanic (Src.renet.packet.Packet.from_bytes (Octets.with_slice l)) :=
  packet_from_bytes_never_panics l hl 0 (Nat.zero_le _)

/-- an accepted packet consumed a prefix of the input: the returned cursor is over the same bytes and within bounds -/
theorem packet_from_bytes_cursor (l : List Nat) (hl : BytesOk l) (c : Octets) (gp : SPacket)
    (h : Src.renet.packet.Packet.from_bytes (Octets.with_slice l) = .ok (c, gp)) : c.buf = l ∧ c.off ≤ l.length := by
  have hf := packet_from_bytes [] (ofNats l)
  simp only [List.nil_append, List.length_nil, toNats_ofNats hl] at hf
  unfold Octets.with_slice at h
  rw [h] at hf
  cases hd : RenetVerif.Packet.decode (ofNats l) with
  | error e => rw [hd] at hf; cases hf
  | ok x =>
    rw [hd] at hf
    have := Res.ok.inj hf
    have hc : c = ⟨l, (ofNats l).length - x.2.length⟩ := (Prod.mk.inj this).1
    rw [hc]
    exact ⟨rfl, by simp [ofNats_length]⟩

/-! ### examples (evaluated on the generated text) -/

def exSmall : SPacket := .SmallReliable 300 1 [(7, [9, 9, 9]), (16384, [])]
def exSlice : SPacket := .ReliableSlice 5 2 ⟨70000, 1, 2, [1, 2, 3]⟩
def exAck : SPacket := .Ack 300 [⟨10, 20⟩, ⟨35, 40⟩]

theorem exSmall_wf : WfPacket exSmall := by
  refine ⟨by decide, by decide, by decide, ?_⟩
  intro x hx
  simp only [List.mem_cons, List.mem_nil_iff, or_false] at hx
  rcases hx with rfl | rfl <;> exact ⟨by decide, by decide, by decide⟩
theorem exSlice_wf : WfPacket exSlice := by
  refine ⟨by decide, by decide, by decide, by decide, by decide, by decide, by decide, by decide, by decide⟩
theorem exAck_wf : WfPacket exAck := by
  refine ⟨by decide, by decide, by decide, ?_⟩
  intro r hr
  simp only [List.mem_cons, List.mem_nil_iff, or_false] at hr
  rcases hr with rfl | rfl <;> decide

/-- observation: `to_bytes` on a fresh buffer, then `from_bytes` on the bytes written -/
def rtrip (gp : SPacket) (buf : List Nat) : Option (Octets × SPacket) :=
  match Src.renet.packet.Packet.to_bytes gp (OctetsMut.with_slice buf) with
  | .ok r =>
    (match Src.renet.packet.Packet.from_bytes (Octets.with_slice (r.1.buf.take r.2)) with
     | .ok x => some x
     | _ => none)
  | _ => none

/-- the round trip computed on the generated functions … -/
example : (rtrip exSmall (List.replicate 1400 0)).map Prod.snd = some exSmall := by decide +kernel
example : (rtrip exSlice (List.replicate 1400 0)).map Prod.snd = some exSlice := by decide +kernel
example : (rtrip exSlice (List.replicate 1400 0)).map (·.1.off) = some 13 := by decide +kernel
/-- … and as an instance of the theorem -/
example : ∃ b' n, Src.renet.packet.Packet.to_bytes exAck (OctetsMut.with_slice (List.replicate 9 0)) = .ok (b', n) ∧
    Src.renet.packet.Packet.from_bytes (Octets.with_slice (b'.buf.take n)) = .ok (⟨b'.buf.take n, n⟩, exAck) := by
  have hok : Src.renet.packet.Packet.to_bytes exAck (OctetsMut.with_slice (List.replicate 9 0)) =
      .ok (⟨[4, 0x41, 0x2c, 39, 4, 1, 14, 9, 0], 8⟩, 8) := by decide +kernel
  exact ⟨_, _, hok, (packet_roundtrip exAck exAck_wf _ _ _ hok).2.2.2⟩
/-- a buffer that is too short: `Err(BufferTooShort)`, no panic -/
example : Src.renet.packet.Packet.to_bytes exAck (OctetsMut.with_slice (List.replicate 7 0)) =
    .err (.BufferTooShort, ⟨[4, 0x41, 0x2c, 39, 4, 1, 14], 7⟩) := by decide +kernel
/-- hostile inputs: truncated varint, unknown packet type, slice count 0, ack range running backwards -/
example : NoPanic (Src.renet.packet.Packet.from_bytes (Octets.with_slice [4, 0x41])) :=
  packet_from_bytes_fresh_never_panics _ (by decide)
example : Src.renet.packet.Packet.from_bytes (Octets.with_slice [9]) = .err (.InvalidPacketType, ⟨[9], 1⟩) := by decide +kernel
example : Src.renet.packet.Packet.from_bytes (Octets.with_slice [2, 5, 1, 7, 0, 0, 1, 9]) =
    .err (.InvalidNumSlices, ⟨[2, 5, 1, 7, 0, 0, 1, 9], 6⟩) := by decide +kernel
example : (Src.renet.packet.Packet.from_bytes (Octets.with_slice [4, 1, 0, 5, 9])).forget = .err .InvalidAckRange := by decide +kernel

end RenetVerif.SrcProps
