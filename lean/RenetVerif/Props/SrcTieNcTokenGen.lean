/-
  Source tie, group NcTokenGen: `renetcode/src/token.rs` `PrivateConnectToken::generate`, `ConnectToken::generate` ↔
  `PrivateConnectToken.generate`, `ConnectToken.generate` of `Netcode/Token.lean`.

  `generate_random_bytes()` (crypto.rs, external; manifest `RANDOM_SOURCES`) is an explicit parameter per call site, in textual
  order: `PrivateConnectToken::generate` takes `rand1` (client_to_server_key), `rand2` (server_to_client_key), `rand3`
  (user data, used only when the caller passes `None`); `ConnectToken::generate` passes its `rand1..rand3` on and takes
  `rand4` (the XChaCha nonce).  The model takes the same bytes as arguments (`userData := ud.getD rand3`).
  `for (i, addr) in server_addresses.into_iter().enumerate()` fills the first slots of the 32-entry address array.
-/
import RenetVerif.Lemmas.SrcEquiv.NcTokenGen
set_option maxRecDepth 10000
namespace RenetVerif.SrcTie
open RenetVerif RenetVerif.SrcEquiv RenetVerif.RustSem RenetVerif.Netcode

/-- `MaxHostCount` above 32 addresses, `NoServerAddressAvailable` for none, else the token with the given keys -/
theorem nc_private_token_generate (cid : Nat) (to : Int) (addrs : List Addr) (ud : Option Bytes) (r1 r2 r3 : Bytes) :
    Src.renetcode.token.PrivateConnectToken.generate cid to (addrs.map reprAddr) (ud.map toNats) (toNats r1) (toNats r2) (toNats r3)
      = mapRes reprPTok reprTGE (Netcode.PrivateConnectToken.generate cid to addrs (ud.getD r3) r1 r2) :=
  ptok_generate_eq cid to addrs ud r1 r2 r3

/-- `current_time.as_secs() + expire_seconds` panics on u64 overflow; the private part is sealed under `private_key` with the
    nonce `rand4` (AEAD abstract) -/
theorem nc_connect_token_generate (a : AEAD) (ct pid es cid : Nat) (to : Int) (addrs : List Addr) (ud : Option Bytes)
    (key r1 r2 r3 r4 : Bytes) :
    SameOutcome (@Src.renetcode.token.ConnectToken.generate (aeadOf a) ct pid es cid to (addrs.map reprAddr) (ud.map toNats)
        (toNats key) (toNats r1) (toNats r2) (toNats r3) (toNats r4))
      (mapRes reprTok reprTGE (Netcode.ConnectToken.generate a ct pid es cid to addrs (ud.getD r3) r1 r2 r4 key)) :=
  tok_generate_eq a ct pid es cid to addrs ud key r1 r2 r3 r4

example : (match Src.renetcode.token.PrivateConnectToken.generate 7 15 [.v4 [10, 0, 0, 1] 5000, .v4 [10, 0, 0, 2] 5000] none
      [1] [2] [3] with
    | .ok t => (t.server_addresses.take 3, t.server_addresses.length, t.client_to_server_key, t.user_data)
        == ([some (.v4 [10, 0, 0, 1] 5000), some (.v4 [10, 0, 0, 2] 5000), none], 32, [1], [3])
    | _ => false) = true := by decide +kernel
example : Src.renetcode.token.PrivateConnectToken.generate 7 15 [] none [1] [2] [3] = .err .NoServerAddressAvailable := by
  decide +kernel

end RenetVerif.SrcTie
