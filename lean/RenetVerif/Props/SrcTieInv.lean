/-
  Source tie: the well-formedness hypotheses of the RECEIVE path hold in the reachable states.

  `ProcOk c bytes` — the hypothesis of `conn_process_packet` (`SrcTieConnRecv.lean`) and, per connection, of
  `server_process_packet_from` (`SrcTieServer.lean`) — follows, for EVERY byte sequence, from
    * the model invariant `Conn.SInv` (`Lemmas/ConnInv.lean`: established by `from_channels`, kept by every operation on
      every input — `fromChannels_invP`, `processPacket_totalP`, `getPacketsToSend_invP`, …),
    * `ChanSorted c`: the four channel tables are key-sorted — established by `from_channels`, kept by `send_message`,
      `receive_message`, `update`, `process_packet`, `get_packets_to_send`, the status setters (proved here),
    * the configured budgets being at most `2^63` bytes (`RecvBudgetOk`, `SendBudgetOk`; counter-range conditions on the
      configuration: no operation changes a budget),
    * no recorded send time lying in the future (the second clause of `TimeOK`, `Lemmas/AckFinal.lean`: `timeOK_fresh`,
      `timeOK_apply`).
  In particular the per-packet hypotheses `DispatchOk` (sorted slice tables, `CtorOk`, `RelMsgsOk` / `UnrelMsgsOk`,
  `AckLoopOk` for the whole ack loop) are discharged: what the decoder accepts (`Packet.WF`) is in range.
  NOT covered: the send path (`SendOk`, `UpdateOk`): it needs invariants the model development does not have yet (time
  stamps of unacked entries `≤ now`, `next slice index ≤ n`), not just a bridge.
-/
import RenetVerif.Lemmas.SrcEquiv.InvBridge
import RenetVerif.Props.SrcTieConnRecv
import RenetVerif.Props.SrcTieServer
set_option maxRecDepth 10000
namespace RenetVerif.SrcTie
open RenetVerif RenetVerif.SrcEquiv RenetVerif.RustSem
open Src.renet.remote_connection

/-- `from_channels`: sorted tables -/
theorem chan_sorted_from_channels (budget : Nat) (send recv : List ChanCfg) :
    ChanSorted (Conn.fromChannels budget send recv) := chanSorted_fromChannels budget send recv
theorem chan_sorted_send_message {c c' : Conn} {ch : Nat} {m : Bytes} (h : ChanSorted c) (hr : c.sendMessage ch m = .ok c') :
    ChanSorted c' := chanSorted_sendMessage h hr
theorem chan_sorted_receive_message {c c' : Conn} {ch : Nat} {o : Option Bytes} (h : ChanSorted c)
    (hr : c.receiveMessage ch = .ok (c', o)) : ChanSorted c' := chanSorted_receiveMessage h hr
theorem chan_sorted_update {c c' : Conn} {dt : Nat} (h : ChanSorted c) (hr : c.update dt = .ok c') : ChanSorted c' :=
  chanSorted_update h hr
theorem chan_sorted_process_packet {c c' : Conn} {bytes : Bytes} (h : ChanSorted c) (hr : c.processPacket bytes = .ok c') :
    ChanSorted c' := chanSorted_processPacket h hr
theorem chan_sorted_get_packets_to_send {c c' : Conn} {bs : List Bytes} (h : ChanSorted c)
    (hr : c.getPacketsToSend = .ok (c', bs)) : ChanSorted c' := chanSorted_getPacketsToSend h hr
theorem chan_sorted_disconnect_with {c : Conn} (h : ChanSorted c) (r : Reason) : ChanSorted (c.disconnectWith r) :=
  h.disconnectWith r
theorem chan_sorted_set_connected {c : Conn} (h : ChanSorted c) : ChanSorted c.setConnected := h.setConnected
theorem chan_sorted_set_connecting {c : Conn} (h : ChanSorted c) : ChanSorted c.setConnecting := h.setConnecting

/-- a stored slice constructor is `CtorOk` as soon as its reservation fits a `u64` -/
theorem ctor_ok_of_inv {k : SliceCtor} (h : k.Inv) (hsz : k.numSlices * C.SLICE_SIZE < 2 ^ 64) : CtorOk k := ctorOk_of_inv h hsz
/-- the whole ack loop: every step finds a sorted table, a past time stamp, counters in range -/
theorem ack_loop_ok_of_inv (l : List Nat) (c : Conn) (h : AckInv c) : AckLoopOk c l := ackLoopOk_of_inv l c h
theorem dispatch_ok_of_inv {c : Conn} (hi : c.SInv) (hs : ChanSorted c) (hb : RecvBudgetOk c) (hsb : SendBudgetOk c)
    (ht : ∀ k v, SMap.find? c.sent k = some v → v.1 ≤ c.now) {p : Packet} (hw : p.WF) : DispatchOk c p :=
  dispatchOk_of_inv hi hs hb hsb ht hw
/-- `ProcOk` for every byte sequence -/
theorem proc_ok_of_inv {c : Conn} (hi : c.SInv) (hs : ChanSorted c) (hb : RecvBudgetOk c) (hsb : SendBudgetOk c)
    (ht : ∀ k v, SMap.find? c.sent k = some v → v.1 ≤ c.now) (bytes : Bytes) : ProcOk c bytes :=
  procOk_of_inv hi hs hb hsb ht bytes

/-- `process_packet` for EVERY byte sequence, with the hypothesis `ProcOk` replaced by invariants of the state -/
theorem conn_process_packet_inv {ε : Type} (mrs : Nat → Nat) (c : Conn) (bytes : Bytes) (hi : c.SInv) (hs : ChanSorted c)
    (hb : RecvBudgetOk c) (hsb : SendBudgetOk c) (ht : ∀ k v, SMap.find? c.sent k = some v → v.1 ≤ c.now) :
    ∃ mrs', SameOutcome (RenetClient.process_packet (reprConn mrs c) (toNats bytes) : Res ε _)
      (mapRes (fun c' => (reprConn mrs' c', ())) (fun e => nomatch e) (c.processPacket bytes)) :=
  conn_process_packet mrs c bytes (procOk_of_inv hi hs hb hsb ht bytes)

/-- the same for the server: `process_packet_from` for every byte sequence and every client id -/
theorem server_process_packet_from_inv (mrss : Nat → Nat → Nat) (s : Server) (bytes : Bytes) (id : Nat) (hs : MSorted s.conns)
    (hc : ∀ c, SMap.find? s.conns id = some c → c.SInv ∧ ChanSorted c ∧ RecvBudgetOk c ∧ SendBudgetOk c ∧
      ∀ k v, SMap.find? c.sent k = some v → v.1 ≤ c.now) :
    ∃ mrss', SameOutcome (Src.renet.server.RenetServer.process_packet_from (reprServer mrss s) (toNats bytes) id)
      (srvOut mrss' (fun _ : Unit => ())
        (match s.processPacketFrom bytes id with
         | .ok (s', true) => .ok (s', some ())
         | .ok (s', false) => .ok (s', none)
         | .panic m => .panic m
         | .err e => nomatch e)) :=
  server_process_packet_from mrss s bytes id hs (fun c hf => by
    obtain ⟨h1, h2, h3, h4, h5⟩ := hc c hf
    exact procOk_of_inv h1 h2 h3 h4 h5 bytes)

end RenetVerif.SrcTie
