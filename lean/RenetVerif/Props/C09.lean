/-
  C09 — "For every channel the memory accounted to it stays between zero and the configured maximum; send-side
  bytes come back when messages are acknowledged (reliable) or flushed (unreliable), receive-side bytes when
  messages are handed to the application, and incomplete unreliable fragments stop counting after 3 s without
  progress.  Hence when all submitted reliable messages have been received and acknowledged, every channel again
  offers its whole budget, and a connection whose traffic stays within budget and whose application drains
  promptly is never disconnected for exhausted channel memory, however packets were lost, duplicated or
  reordered on the way."

  Proofs: Lemmas/ConnInv.lean over the invariant `Conn.Inv` of C06 (which every operation preserves on every
  input: Props/C06.lean).  Sections:
    (a) bounds and exact accounting            (b) send side: bytes come back on ack / flush
    (c) receive side: bytes come back on receive   (d) stale unreliable fragments
    (e) quiescence                             (f) delivered messages are ignored forever (repaired defect D1)
    (g) refusals and memory disconnects only for over-budget traffic
  Counters are natural numbers in the model, so "≥ 0" is the statement that no checked subtraction ever fails —
  i.e. the no-panic theorems of C06; the equalities below are what makes them succeed.
-/
import RenetVerif.Lemmas.ConnInv
namespace RenetVerif.C09
open RenetVerif C

/-! ## (a) bounds and exact accounting -/

/-- in every state satisfying the invariant, for all four channel kinds: the counter equals the bytes actually
    held (unacknowledged messages / queued messages / deliverable messages plus `num_slices * SLICE_SIZE` per
    partially reassembled message) and is at most the configured maximum -/
theorem memory_exact_and_bounded (c : Conn) (h : c.Inv) :
    (∀ ch s, SMap.find? c.sendRel ch = some s → s.mem = SI.msum s.unacked ∧ s.mem ≤ s.maxMem) ∧
    (∀ ch s, SMap.find? c.sendUnrel ch = some s → s.mem = sumLen s.queue ∧ s.mem ≤ s.maxMem) ∧
    (∀ ch r, SMap.find? c.recvRel ch = some r →
      r.mem = SMap.sumBy List.length r.messages + SMap.sumBy SliceCtor.reserved r.slices ∧ r.mem ≤ r.maxMem) ∧
    (∀ ch r, SMap.find? c.recvUnrel ch = some r →
      r.mem = sumLen r.messages + SMap.sumBy SliceCtor.reserved r.slices ∧ r.mem ≤ r.maxMem) :=
  CI.memory_accountingP h

/-- `channel_available_memory` is exactly the rest of the budget -/
theorem available_is_rest_of_budget (c : Conn) (h : c.Inv) :
    (∀ ch s, SMap.find? c.sendRel ch = some s → c.availableMemory ch = .ok (s.maxMem - SI.msum s.unacked)) ∧
    (∀ ch s, SMap.find? c.sendRel ch = none → SMap.find? c.sendUnrel ch = some s →
      c.availableMemory ch = .ok (s.maxMem - sumLen s.queue)) := by
  constructor
  · intro ch s hf
    simp only [Conn.availableMemory, hf, SendRel.available, (h.sendRel_find hf).1.mem]
  · intro ch s hn hf
    simp only [Conn.availableMemory, hn, hf, SendUnrel.available, (h.sendUnrel_find hf).1]

/-! ## (b) send side -/

/-- Reliable: across `process_packet` (any bytes) a channel's counter never grows, stays exact, and a message that
    was not stored before is not stored after; so bytes come back exactly for the messages that leave `unacked` —
    which happens only through a matching acknowledgement (C08 `release_only_by_ack`). -/
theorem reliable_bytes_return_on_ack (c c' : Conn) (bytes : Bytes) (h : c.Inv) (hp : c.processPacket bytes = .ok c')
    (ch : Nat) (s : SendRel) (hs : SMap.find? c.sendRel ch = some s) :
    ∃ s', SMap.find? c'.sendRel ch = some s' ∧ s'.maxMem = s.maxMem ∧
      s.mem = SI.msum s.unacked ∧ s'.mem = SI.msum s'.unacked ∧ s'.mem ≤ s.mem ∧
      (∀ id, SMap.find? s.unacked id = none → SMap.find? s'.unacked id = none) ∧
      (s'.mem < s.mem → ∃ id, SMap.find? s.unacked id ≠ none ∧ SMap.find? s'.unacked id = none) := by
  obtain ⟨c2, e, i, -⟩ := CI.processPacket_totalP goodP_winv h bytes
  rw [e] at hp; cases hp
  rcases SI.Conn.processPacket_eff h.send e with hsame | ⟨aseq, ranges, L, -, -, heff⟩
  · refine ⟨s, by rw [hsame]; exact hs, rfl, (h.sendRel_find hs).1.mem, (h.sendRel_find hs).1.mem, Nat.le_refl _,
      fun _ hx => hx, fun hlt => absurd hlt (Nat.lt_irrefl _)⟩
  · obtain ⟨s', hs', eff⟩ := heff ch s hs
    exact ⟨s', hs', eff.maxMem, (h.sendRel_find hs).1.mem, (i.sendRel_find hs').1.mem, eff.memLe, eff.gone,
      eff.memLt⟩

/-- Reliable: a flush neither releases nor charges anything -/
theorem reliable_bytes_unchanged_by_flush (c c' : Conn) (out : List Bytes) (h : c.Inv)
    (hr : c.getPacketsToSend = .ok (c', out)) (ch : Nat) (s : SendRel) (hs : SMap.find? c.sendRel ch = some s) :
    ∃ s', SMap.find? c'.sendRel ch = some s' ∧ s'.mem = s.mem ∧ s'.maxMem = s.maxMem := by
  obtain ⟨-, -, g, -⟩ := SI.Conn.getPacketsToSend_spec h.send h.acksWF hr
  obtain ⟨s', h1, h2, h3, -⟩ := g.keeps hs
  exact ⟨s', h1, h2, h3⟩

/-- Unreliable: after every flush of a live connection, every unreliable send channel of the send order is empty
    and accounts zero bytes (sent or dropped — nothing waits) -/
theorem unreliable_bytes_return_on_flush (c c' : Conn) (out : List Bytes) (h : c.Inv) (hd : c.isDisconnected = false)
    (hr : c.getPacketsToSend = .ok (c', out)) (ch : Nat) (hch : (false, ch) ∈ c.order) (s' : SendUnrel)
    (hs' : SMap.find? c'.sendUnrel ch = some s') : s'.queue = [] ∧ s'.mem = 0 :=
  CI.getPacketsToSend_drainsP h hd hr ch hch s' hs'

/-- … and the send order of a connection built by `fromChannels` (and evolved by any operations, which keep the
    channel tables' key sets) contains every unreliable send channel -/
theorem unreliable_channels_all_in_order (budget : Nat) (send recv : List ChanCfg) (c : Conn)
    (hsc : (Conn.fromChannels budget send recv).SameChans c) (ch : Nat) (s : SendUnrel)
    (hf : SMap.find? c.sendUnrel ch = some s) : (false, ch) ∈ c.order :=
  CI.fresh_order_complete hsc hf

/-! ## (c) receive side -/

theorem reliable_receive_returns_bytes (r r' : RecvRel) (m : Bytes) (h : r.receive = .ok (r', some m)) :
    r.mem = r'.mem + m.length ∧ r'.maxMem = r.maxMem ∧ r'.slices = r.slices := CI.recvRel_receive_mem h

theorem unreliable_receive_returns_bytes (r r' : RecvUnrel) (m : Bytes) (h : r.receive = .ok (r', some m)) :
    r.mem = r'.mem + m.length ∧ r'.maxMem = r.maxMem ∧ r'.slices = r.slices ∧ r.messages = m :: r'.messages :=
  CI.recvUnrel_receive_mem h

theorem receive_nothing_changes_nothing (r r' : RecvRel) (u u' : RecvUnrel) :
    (r.receive = .ok (r', none) → r' = r) ∧ (u.receive = .ok (u', none) → u' = u) :=
  ⟨CI.recvRel_receive_none, CI.recvUnrel_receive_none⟩

/-- connection level: `receive_message` handing out `m` lowers the counter of channel `ch` by exactly `m.length` -/
theorem receiveMessage_returns_bytes (c c' : Conn) (ch : Nat) (m : Bytes)
    (h : c.receiveMessage ch = .ok (c', some m)) :
    (∃ r r', SMap.find? c.recvRel ch = some r ∧ SMap.find? c'.recvRel ch = some r' ∧
        r.mem = r'.mem + m.length ∧ r'.maxMem = r.maxMem) ∨
    (∃ r r', SMap.find? c.recvUnrel ch = some r ∧ SMap.find? c'.recvUnrel ch = some r' ∧
        r.mem = r'.mem + m.length ∧ r'.maxMem = r.maxMem) := CI.receiveMessage_returns_bytes h

/-! ## (d) stale unreliable fragments -/

/-- After `update`, in every unreliable receive channel every time stamp still stored is younger than
    `DISCARD_FRAGMENT_AFTER_NS`; every stored constructor of a partially received message has such a time stamp …
    (continued in `stale_fragments_stop_counting`) -/
theorem no_stale_timestamp_after_update (c c' : Conn) (dt : Nat) (h : c.Inv) (hu : c.update dt = .ok c') :
    ∀ ch r', SMap.find? c'.recvUnrel ch = some r' →
      ∀ id t, SMap.find? r'.lastReceived id = some t → c'.now - t < DISCARD_FRAGMENT_AFTER_NS :=
  CI.update_no_staleP h hu

/-- … so a fragment whose last slice arrived `DISCARD_FRAGMENT_AFTER_NS` or longer ago is gone after `update`,
    and since the accounting equality holds again, its `num_slices * SLICE_SIZE` bytes no longer count -/
theorem stale_fragments_stop_counting (c c' : Conn) (dt : Nat) (h : c.Inv) (hu : c.update dt = .ok c')
    (ch : Nat) (r : RecvUnrel) (hr : SMap.find? c.recvUnrel ch = some r) (id t : Nat)
    (ht : SMap.find? r.lastReceived id = some t) (hold : c.now + dt - t ≥ DISCARD_FRAGMENT_AFTER_NS) :
    ∃ r', SMap.find? c'.recvUnrel ch = some r' ∧ SMap.find? r'.slices id = none ∧
      r'.mem = sumLen r'.messages + SMap.sumBy SliceCtor.reserved r'.slices ∧ r'.maxMem = r.maxMem := by
  obtain ⟨c2, e, i, -, -, -, -, -, f0⟩ := CI.update_totalP h dt
  rw [e] at hu; cases hu
  obtain ⟨r', ed, hr'⟩ := f0 ch r hr
  refine ⟨r', hr', RecvUnrel.discardOld_removes_staleP r r' (h.recvUnrel_find hr) _ id t ht hold ed,
    (i.recvUnrel_find hr').acct, ?_⟩
  rw [RecvUnrel.discardOld_eq] at ed
  exact discardLoop_maxMem _ _ _ ed
where
  discardLoop_maxMem : ∀ (ids : List Nat) (r r' : RecvUnrel), discardLoop ids r = .ok r' → r'.maxMem = r.maxMem
    | [], r, r', h => by cases h; rfl
    | id :: rest, r, r', h => by
      unfold discardLoop at h
      split at h
      · cases h
      · simp only [Res.csub] at h
        split at h
        · simp only [Res.bind_ok] at h
          have := discardLoop_maxMem rest _ r' h
          exact this
        · cases h

/-! ## (e) quiescence -/

/-- When nothing is unacknowledged, nothing is queued, nothing waits for the application and nothing is partially
    reassembled, every counter is zero and every send channel offers its whole budget again -/
theorem quiescent_full_budget (c : Conn) (h : c.Inv)
    (h1 : ∀ ch s, SMap.find? c.sendRel ch = some s → s.unacked = [])
    (h2 : ∀ ch s, SMap.find? c.sendUnrel ch = some s → s.queue = [])
    (h3 : ∀ ch r, SMap.find? c.recvRel ch = some r → r.messages = [] ∧ r.slices = [])
    (h4 : ∀ ch r, SMap.find? c.recvUnrel ch = some r → r.messages = [] ∧ r.slices = []) :
    (∀ ch s, SMap.find? c.sendRel ch = some s → s.mem = 0 ∧ c.availableMemory ch = .ok s.maxMem) ∧
    (∀ ch s, SMap.find? c.sendUnrel ch = some s → s.mem = 0 ∧
      (SMap.find? c.sendRel ch = none → c.availableMemory ch = .ok s.maxMem)) ∧
    (∀ ch r, SMap.find? c.recvRel ch = some r → r.mem = 0) ∧
    (∀ ch r, SMap.find? c.recvUnrel ch = some r → r.mem = 0) :=
  CI.quiescentP h h1 h2 h3 h4

/-! ## (f) delivered or complete messages are ignored entirely (repaired defect D1) -/

/-- a slice of a message that is complete and waiting, below the cursor, or (unordered) already delivered: the
    channel state is returned unchanged — no reservation is made -/
theorem slice_of_finished_message_ignored (r : RecvRel) (sl : Slice)
    (h : SMap.contains r.messages sl.messageId = true ∨ sl.messageId < r.oldest ∨
      (r.ordered = false ∧ sl.messageId ∈ r.received)) : r.processSlice sl = .ok r :=
  CI.recvRel_processSlice_ignored r sl h

theorem copy_of_finished_message_ignored (r : RecvRel) (m : Bytes) (id : Nat)
    (h : id < r.oldest ∨ (r.ordered = true ∧ SMap.contains r.messages id = true) ∨
      (r.ordered = false ∧ id ∈ r.received)) : r.processMessage m id = .ok r :=
  CI.recvRel_processMessage_ignored r m id h

/-- **Once handed to the application, ignored forever**: after any later history of the channel (`RecvRel.Steps`:
    messages and slices accepted, ignored or refused; the application draining), every slice or copy of the
    delivered message leaves the channel state unchanged.  Ordered and unordered channels. -/
theorem delivered_ignored_forever (r r1 r2 : RecvRel) (m : Bytes) (hi : r.WInv)
    (hrecv : r.receive = .ok (r1, some m)) (hsteps : RecvRel.Steps r1 r2) :
    ∃ id, SMap.find? r.messages id = some m ∧
      (∀ sl : Slice, sl.messageId = id → r2.processSlice sl = .ok r2) ∧ (∀ m', r2.processMessage m' id = .ok r2) :=
  CI.delivered_ignored_forever hi hrecv hsteps

/-! ## (g) only over-budget traffic is refused -/

/-- reliable receive channel: `ReliableChannelMaxMemoryReached` only for a message that does not fit into what is
    left, or for the FIRST slice seen of a message whose reservation does not fit; never for an existing
    constructor, never at completion; the channel state is unchanged by the refusal -/
theorem refusal_only_over_budget (r : RecvRel) (h : r.WInv) :
    (∀ m id r', r.processMessage m id = .err (.maxMemory, r') → r' = r ∧ r.mem + m.length > r.maxMem) ∧
    (∀ sl r', r.processSlice sl = .err (.maxMemory, r') →
      r' = r ∧ SMap.contains r.slices sl.messageId = false ∧ r.mem + sl.numSlices * SLICE_SIZE > r.maxMem) := by
  obtain ⟨a, b⟩ := CI.refusal_only_over_budget ctorPred_winv r h
  exact ⟨a, fun sl r' => b sl r' (SliceCtor.new_winv _)⟩

/-- unreliable receive channel: never a memory error (what does not fit is dropped silently) -/
theorem unreliable_never_refuses (r : RecvUnrel) (sl : Slice) (now : Nat) (e : ChanErr) (r' : RecvUnrel)
    (h : r.processSlice sl now = .err (e, r')) : e = .invalidSlice := CI.recvUnrel_never_refuses r sl now e r' h

/-- **Connection level, receiving.**  `process_packet` leaves a live connection disconnected with
    `ReceiveChannelError(ch, ReliableChannelMaxMemoryReached)` only if the packet's small messages together exceed
    the free budget of reliable channel `ch`, or it is the first slice seen of a message whose reservation exceeds
    it.  Lost, duplicated or reordered packets of in-budget traffic can therefore not cause it: duplicates are
    ignored ((f)), later slices of a message being reassembled need no new memory, completion releases more than
    it takes. -/
theorem memory_disconnect_only_over_budget (c c' : Conn) (h : c.Inv) (bytes : Bytes) (ch : Nat)
    (hd : c.isDisconnected = false) (e : c.processPacket bytes = .ok c')
    (hs : c'.status = .disconnected (.recvChan ch .maxMemory)) :
    ∃ r, SMap.find? c.recvRel ch = some r ∧
      ((∃ seq msgs, Packet.fromBytes bytes = .ok (.smallReliable seq ch msgs) ∧
          r.mem + relSmallSum msgs > r.maxMem) ∨
       (∃ seq sl, Packet.fromBytes bytes = .ok (.reliableSlice seq ch sl) ∧
          SMap.contains r.slices sl.messageId = false ∧ r.mem + sl.numSlices * SLICE_SIZE > r.maxMem)) :=
  CI.maxMemory_disconnect_only_over_budgetP goodP_winv h hd e hs

/-- **Connection level, sending.**  `send_message` disconnects a live connection with `SendChannelError` only when
    the message exceeds what is left of that reliable channel's budget (`channel_available_memory`) -/
theorem send_disconnect_only_over_budget (c c' : Conn) (ch ch' : Nat) (m : Bytes) (e : ChanErr)
    (hd : c.isDisconnected = false) (h : c.sendMessage ch m = .ok c')
    (hs : c'.status = .disconnected (.sendChan ch' e)) :
    ch' = ch ∧ e = .maxMemory ∧ ∃ s, SMap.find? c.sendRel ch = some s ∧ s.mem + m.length > s.maxMem :=
  CI.sendChan_disconnect_only_over_budget hd h hs

/-- no other operation can produce a memory disconnect: `update`, `receive_message`, `get_packets_to_send` (with
    counters in range) leave the status unchanged -/
theorem other_operations_never_disconnect (c : Conn) (h : c.Inv) :
    (∀ dt c', c.update dt = .ok c' → c'.status = c.status) ∧
    (∀ ch c' m, c.receiveMessage ch = .ok (c', m) → c'.status = c.status) ∧
    (c.CountersOK → ∃ c' out, c.getPacketsToSend = .ok (c', out) ∧ c'.status = c.status) := by
  refine ⟨fun dt c' e => SL.Conn.update_status e, fun ch c' m e => (SL.Conn.receiveMessage_frame e).2.2.2.1,
    fun hc => ?_⟩
  obtain ⟨c', out, e, -, s, -⟩ := CI.getPacketsToSend_totalP h hc
  exact ⟨c', out, e, s⟩

/-! ## non-vacuity: one run exhibiting every clause -/
namespace Ex

def cfg : List ChanCfg :=
  [⟨0, .ordered, 10000, 100⟩, ⟨1, .unordered, 10000, 100⟩, ⟨2, .unreliable, 10000, 0⟩]
def bytesOf (p : Packet) : Bytes := match p.toBytes SER_BUFFER with | .ok b => b | _ => []
def big : Bytes := List.replicate 1201 7
def full : Bytes := List.replicate 1200 5

def c0 : Conn := Conn.fromChannels 60000 cfg cfg

def ops : List SL.ConnOp :=
  [ .setConnected, .sendMessage 0 [1, 2, 3], .sendMessage 0 big, .sendMessage 2 [9, 9],      -- 4: queued
    .getPacketsToSend,                                                                         -- 5: flushed
    .processPacket (bytesOf (.ack 20 [(0, 3)])),                                               -- 6: all three packets acked
    .processPacket (bytesOf (.reliableSlice 21 1 ⟨5, 0, 2, full⟩)),
    .processPacket (bytesOf (.unreliableSlice 22 2 ⟨3, 0, 3, full⟩)),
    .processPacket (bytesOf (.smallReliable 23 1 [(2, [7, 7, 7])])),                           -- 9: buffered
    .receiveMessage 1,                                                                         -- 10: message 2 delivered
    .processPacket (bytesOf (.reliableSlice 24 1 ⟨2, 0, 2, full⟩)),                            -- 11: late duplicate of message 2
    .update 3000000000,                                                                        -- 12: fragment of message 3 stale
    .processPacket (bytesOf (.reliableSlice 25 1 ⟨5, 1, 2, [1]⟩)), .receiveMessage 1 ]         -- 14: message 5 completed, delivered

def st (k : Nat) : Conn := match SL.Conn.runOps c0 (ops.take k) with | .ok c => c | _ => c0

instance (c : Conn) (op : SL.ConnOp) : Decidable (CI.ChanValid c op) := by
  cases op <;> simp only [CI.ChanValid] <;> infer_instance

theorem ops_valid : ∀ op ∈ ops, CI.ChanValid c0 op := by decide +kernel

set_option maxRecDepth 100000 in
theorem st_run (k : Nat) (hk : k ≤ 14) : SL.Conn.runOps c0 (ops.take k) = .ok (st k) := by
  have : ∀ k ∈ List.range 15, SL.Conn.runOps c0 (ops.take k) = .ok (st k) := by decide +kernel
  exact this k (List.mem_range.mpr (by omega))

/-- every state of the run satisfies the invariant (hypothesis of all connection-level theorems above) -/
theorem st_inv (k : Nat) (hk : k ≤ 14) : (st k).Inv ∧ c0.SameChans (st k) := by
  obtain ⟨c', e, i, sc⟩ := CI.runOps_totalP goodP_winv (ops.take k) c0 (CI.fromChannels_invP _ _ _)
    (fun op ho => ops_valid op (List.mem_of_mem_take ho))
    (CI.flushOK_of_b _ _ (by
      have : ∀ k ∈ List.range 15, CI.flushOKb c0 (ops.take k) = true := by decide +kernel
      exact this k (List.mem_range.mpr (by omega))))
  rw [st_run k hk] at e
  rw [Res.ok.inj e]; exact ⟨i, sc⟩

def sendMem (c : Conn) : Option Nat × Option Nat :=
  ((SMap.find? c.sendRel 0).map (·.mem), (SMap.find? c.sendUnrel 2).map (·.mem))
def recvMem (c : Conn) : Option Nat × Option Nat :=
  ((SMap.find? c.recvRel 1).map (·.mem), (SMap.find? c.recvUnrel 2).map (·.mem))

/-- (b): 1204 reliable and 2 unreliable bytes charged; the flush returns the unreliable ones, the ack the reliable
    ones.  (c): 2403 → 2400 when the 3-byte message is handed over.  (f): the late duplicate slice of the delivered
    message 2 changes nothing (before the fix it reserved another 2400 bytes forever).  (d): the 3600 bytes of the
    stale unreliable fragment stop counting at t = 3 s.  (c) again: completion and delivery return the rest. -/
example :
    sendMem (st 4) = (some 1204, some 2) ∧ sendMem (st 5) = (some 1204, some 0) ∧ sendMem (st 6) = (some 0, some 0) ∧
    recvMem (st 9) = (some 2403, some 3600) ∧ recvMem (st 10) = (some 2400, some 3600) ∧
    recvMem (st 11) = (some 2400, some 3600) ∧ recvMem (st 12) = (some 2400, some 0) ∧
    recvMem (st 14) = (some 0, some 0) ∧ (st 14).status = .connected := by decide +kernel

/-- hypotheses of (b) `unreliable_bytes_return_on_flush` at state 4: live connection, channel 2 in the send order
    (also by `unreliable_channels_all_in_order`), the flush returns -/
example : (st 4).Inv ∧ (st 4).isDisconnected = false ∧ (false, 2) ∈ (st 4).order ∧
    ∃ c' out, (st 4).getPacketsToSend = .ok (c', out) := by
  refine ⟨(st_inv 4 (by omega)).1, by decide +kernel, ?_, ?_⟩
  · exact unreliable_channels_all_in_order 60000 cfg cfg (st 4) (st_inv 4 (by omega)).2 2
      ((SMap.find? (st 4).sendUnrel 2).getD (SendUnrel.new 0 0)) (by decide +kernel)
  · obtain ⟨c', out, e, -⟩ := CI.getPacketsToSend_totalP (st_inv 4 (by omega)).1
      (CI.countersOK_of_b (by decide +kernel))
    exact ⟨c', out, e⟩

/-- hypotheses of (b) `reliable_bytes_return_on_ack` at state 5, channel 0 -/
example : (st 5).Inv ∧ (∃ c', (st 5).processPacket (bytesOf (.ack 20 [(0, 3)])) = .ok c') ∧
    (SMap.find? (st 5).sendRel 0).isSome = true := by
  refine ⟨(st_inv 5 (by omega)).1, ?_, by decide +kernel⟩
  obtain ⟨c', e, -⟩ := CI.processPacket_totalP goodP_winv (st_inv 5 (by omega)).1 (bytesOf (.ack 20 [(0, 3)]))
  exact ⟨c', e⟩

/-- hypothesis of (c): at state 9 `receive_message(1)` hands out the 3-byte message -/
example : (match (st 9).receiveMessage 1 with | .ok (_, m) => m | _ => none) = some [7, 7, 7] := by decide +kernel

/-- hypotheses of (d) `stale_fragments_stop_counting` at state 11 with `dt = 3 s`: the fragment of message 3 on
    unreliable channel 2 was last touched at t = 0 -/
example : (st 11).Inv ∧ (SMap.find? (st 11).recvUnrel 2).map (·.lastReceived) = some [(3, 0)] ∧
    (st 11).now + 3000000000 - 0 ≥ DISCARD_FRAGMENT_AFTER_NS ∧
    (∃ c', (st 11).update 3000000000 = .ok c') := by
  refine ⟨(st_inv 11 (by omega)).1, by decide +kernel, by decide +kernel, ?_⟩
  obtain ⟨c', e, -⟩ := CI.update_totalP (st_inv 11 (by omega)).1 3000000000
  exact ⟨c', e⟩

theorem forall_find_of_all {α : Type} (p : α → Bool) (m : SMap α) (h : m.all (fun x => p x.2) = true) :
    ∀ k v, SMap.find? m k = some v → p v = true := by
  intro k v hf
  exact List.all_eq_true.mp h _ (SMap.mem_of_find? hf)

/-- hypotheses of (e) `quiescent_full_budget` at the end of the run: everything acknowledged, flushed, delivered
    or discarded — and (by the theorem) every channel offers its whole budget of 10000 bytes again -/
example : (st 14).Inv ∧
    (∀ ch s, SMap.find? (st 14).sendRel ch = some s → s.unacked = []) ∧
    (∀ ch s, SMap.find? (st 14).sendUnrel ch = some s → s.queue = []) ∧
    (∀ ch r, SMap.find? (st 14).recvRel ch = some r → r.messages = [] ∧ r.slices = []) ∧
    (∀ ch r, SMap.find? (st 14).recvUnrel ch = some r → r.messages = [] ∧ r.slices = []) ∧
    (st 14).availableMemory 0 = .ok 10000 ∧ (st 14).availableMemory 2 = .ok 10000 := by
  refine ⟨(st_inv 14 (by omega)).1, ?_, ?_, ?_, ?_, by decide +kernel, by decide +kernel⟩
  · intro ch s hf
    have := forall_find_of_all (fun s : SendRel => s.unacked.isEmpty) _ (by decide +kernel) ch s hf
    exact List.isEmpty_iff.mp this
  · intro ch s hf
    have := forall_find_of_all (fun s : SendUnrel => s.queue.isEmpty) _ (by decide +kernel) ch s hf
    exact List.isEmpty_iff.mp this
  · intro ch r hf
    have := forall_find_of_all (fun r : RecvRel => r.messages.isEmpty && r.slices.isEmpty) _ (by decide +kernel) ch r hf
    simp only [Bool.and_eq_true, List.isEmpty_iff] at this
    exact this
  · intro ch r hf
    have := forall_find_of_all (fun r : RecvUnrel => r.messages.isEmpty && r.slices.isEmpty) _ (by decide +kernel) ch r hf
    simp only [Bool.and_eq_true, List.isEmpty_iff] at this
    exact this

/-! ### (f) on the unordered channel of state 9 -/

def exR : RecvRel := (SMap.find? (st 9).recvRel 1).getD (RecvRel.new 0 false)
def exR1 : RecvRel := match exR.receive with | .ok (r, _) => r | _ => exR
def dupSlice : Slice := ⟨2, 0, 2, full⟩
def exR2 : RecvRel := match exR1.processMessage [4, 4] 9 with | .ok r => r | _ => exR1

theorem exR_winv : exR.WInv := by
  have hf : SMap.find? (st 9).recvRel 1 = some exR := by decide +kernel
  exact (st_inv 9 (by omega)).1.recvRel_find hf

/-- hypotheses of `delivered_ignored_forever`: unordered channel holding a partially reassembled message and the
    3-byte message 2; message 2 is delivered; another message (id 9) arrives; then a slice of message 2 shows up
    — and, by the theorem, is ignored: `exR2` is returned unchanged (still 2402 bytes) -/
example : exR.WInv ∧ exR.ordered = false ∧ exR.receive = .ok (exR1, some [7, 7, 7]) ∧ RecvRel.Steps exR1 exR2 ∧
    dupSlice.messageId = 2 ∧ exR2.mem = 2402 ∧ exR2.processSlice dupSlice = .ok exR2 := by
  have hrecv : exR.receive = .ok (exR1, some [7, 7, 7]) := by decide +kernel
  have hstep : exR1.processMessage [4, 4] 9 = .ok exR2 := by decide +kernel
  have hsteps : RecvRel.Steps exR1 exR2 := .message (Or.inl hstep) (.refl _)
  obtain ⟨id, hid, hign, -⟩ := delivered_ignored_forever exR exR1 exR2 [7, 7, 7] exR_winv hrecv hsteps
  have hid2 : id = 2 := by
    have h2 : SMap.find? exR.messages 2 = some [7, 7, 7] := by decide +kernel
    have hall : ∀ k ∈ exR.messages.map (·.1), k = 2 := by decide +kernel
    exact hall id (by
      have := SMap.mem_of_find? hid
      exact List.mem_map.mpr ⟨_, this, rfl⟩)
  exact ⟨exR_winv, by decide +kernel, hrecv, hsteps, rfl, by decide +kernel, hign dupSlice (by rw [hid2]; rfl)⟩

/-! ### (g) over-budget traffic, and only that, is refused -/

/-- a first slice announcing 9 slices (10800 bytes) on a channel with 10000 bytes: refused, the connection is
    disconnected with exactly the reason the theorem talks about; a 9000-byte reliable message on top of 1204
    unacknowledged bytes likewise on the send side -/
example :
    (match (st 9).processPacket (bytesOf (.reliableSlice 30 1 ⟨8, 0, 9, full⟩)) with
     | .ok c => some c.status | _ => none) = some (.disconnected (.recvChan 1 .maxMemory)) ∧
    (match (st 4).sendMessage 0 (List.replicate 9000 1) with
     | .ok c => some c.status | _ => none) = some (.disconnected (.sendChan 0 .maxMemory)) ∧
    (st 9).isDisconnected = false ∧ (st 4).isDisconnected = false := by decide +kernel

/-- whereas the same 9-slice announcement for the message already being reassembled (id 5) is not a memory
    problem at all (it is rejected as inconsistent), and an 8-slice first slice (9600 bytes) does not fit either
    because 2403 bytes are in use: the bound is on `mem + reservation`, as stated -/
example :
    (match (st 9).processPacket (bytesOf (.reliableSlice 30 1 ⟨5, 1, 9, full⟩)) with
     | .ok c => some c.status | _ => none) = some (.disconnected (.recvChan 1 .invalidSlice)) ∧
    (match (st 9).processPacket (bytesOf (.reliableSlice 30 1 ⟨8, 0, 6, full⟩)) with
     | .ok c => some (c.status, recvMem c) | _ => none) = some (.connected, (some 9603, some 3600)) := by
  decide +kernel

end Ex
end RenetVerif.C09
