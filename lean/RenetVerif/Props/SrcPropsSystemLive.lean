/-
  C01 / C02 — LIVENESS at SYSTEM level, ABOUT THE GENERATED CODE.

  `GSys` (`Lemmas/SrcEquiv/SrcSystem.lean`, see `Props/SrcPropsSystem.lean`) is the two-endpoint system whose endpoints are
  GENERATED `RenetClient` values driven only through the generated functions.  The liveness theorems of `Props/C01L.lean` (one
  lossless round), `Props/C01K.lean` (k rounds, budget smaller than the backlog) and `Props/C01KC.lean` (the same with the
  per-round counter conditions derived) are transferred through the simulation `SrcSystem.run_sim`:

      hypothesis   `GSys.exec cfg ops = some g`                 the generated run up to the start of the rounds,
      conclusion   `∃ u, GSys.exec cfg (ops ++ rounds) = some u ∧ …`
                   the GENERATED execution of the rounds returns normally (no generated function panics), the generated
                   `is_disconnected` of both endpoints is `false`, and on the generated ghost logs
                   `u.submitted ch = g.submitted ch`, `u.obtained ch = g.submitted ch` (a permutation for ReliableUnordered).

  "Both ends live" at the start is a hypothesis on the GENERATED state (`is_disconnected g.a = .ok false`).  The remaining
  hypotheses of the model theorems (`AllDue`, backlog bound, `Room`, `OnlyCh`, `Rounds`, `RoundsSched`, `HeadRoom`: schedule and
  budget facts) are stated, as in C01L / C01K / C01KC, on the model state `s` with `(Sys.init cfg).run ops = some s` — the
  state `SimSys`-related to `g` (`SrcSystem.sim_of_runs`; it is determined by `ops`, `run_sim_conv` gives its existence).
  `RunInRange cfg (ops ++ rounds)` is the range side condition of the source tie over the whole execution.
-/
import RenetVerif.Lemmas.SrcEquiv.SrcSystem
import RenetVerif.Props.C01L
import RenetVerif.Props.C01K
import RenetVerif.Props.C01KC
set_option maxRecDepth 100000
namespace RenetVerif.SrcPropsSystemLive
open RenetVerif C RenetVerif.System RenetVerif.Live RenetVerif.LiveK RenetVerif.LiveKC RenetVerif.SrcEquiv RenetVerif.SrcSystem
open Src.renet.remote_connection

/-- **C01 liveness on the generated code: one lossless round delivers everything (ReliableOrdered), H1–H4** (analogue of
    `C01L.round_delivers`).  The generated execution of `flushA ; deliverToB k (k ∈ ks) ; recvB ch (n times)` returns
    normally, nobody is disconnected, and B's application has obtained exactly what A's application submitted, in order. -/
theorem src_round_delivers (cfg : Cfg) (ops : List SysOp) (g : GSys) (hg : GSys.exec cfg ops = some g)
    (s : Sys) (hr : (Sys.init cfg).run ops = some s)
    (ch : Nat) (ks : List Nat) (n : Nat) (hrg : RunInRange cfg (ops ++ roundOps ch ks n))
    (hga : (RenetClient.is_disconnected g.a : Res Empty Bool) = .ok false)
    (hgb : (RenetClient.is_disconnected g.b : Res Empty Bool) = .ok false)
    (hc : CountersOK cfg s) (hcA : s.a.CountersOK) (ho : cfg.Ordered ch)
    (sA : SendRel) (hfA : SMap.find? s.a.sendRel ch = some sA) (rB : RecvRel) (hfB : SMap.find? s.b.recvRel ch = some rB)
    (H1 : AllDue s.a.now sA.resend sA.unacked) (H2 : backlog sA.unacked ≤ availAtTurn s.a ch)
    (H3 : Room (s.submitted ch) rB) (H4 : ∀ p ∈ flushPk s.a, OnlyCh ch p)
    (hks1 : ∀ k ∈ newIdx s, k ∈ ks) (hks2 : ∀ k ∈ ks, k ∈ newIdx s)
    (hn : (s.submitted ch).length ≤ (s.obtained ch).length + n) :
    ∃ u, GSys.exec cfg (ops ++ roundOps ch ks n) = some u ∧
      (RenetClient.is_disconnected u.a : Res Empty Bool) = .ok false ∧
      (RenetClient.is_disconnected u.b : Res Empty Bool) = .ok false ∧
      u.submitted ch = g.submitted ch ∧ u.obtained ch = g.submitted ch := by
  obtain ⟨hda, hdb⟩ := model_live_of_sim (sim_of_runs cfg ops _ s g hr hg hrg) hga hgb
  exact live_transfer cfg ops _ s g hr hg hrg ch
    (C01L.round_delivers cfg ops s hr hc hcA hda hdb ch ho sA hfA rB hfB H1 H2 H3 H4 ks hks1 hks2 n hn)

/-- **C02 liveness on the generated code: one lossless round (ReliableUnordered), H1–H4** (analogue of
    `C01L.round_delivers_unordered_live`): every submitted message is obtained exactly once. -/
theorem src_round_delivers_unordered (cfg : Cfg) (ops : List SysOp) (g : GSys) (hg : GSys.exec cfg ops = some g)
    (s : Sys) (hr : (Sys.init cfg).run ops = some s)
    (ch : Nat) (ks : List Nat) (n : Nat) (hrg : RunInRange cfg (ops ++ roundOps ch ks n))
    (hga : (RenetClient.is_disconnected g.a : Res Empty Bool) = .ok false)
    (hgb : (RenetClient.is_disconnected g.b : Res Empty Bool) = .ok false)
    (hc : CountersOK cfg s) (hcA : s.a.CountersOK) (ho : cfg.Unordered ch)
    (sA : SendRel) (hfA : SMap.find? s.a.sendRel ch = some sA) (rB : RecvRel) (hfB : SMap.find? s.b.recvRel ch = some rB)
    (H1 : AllDue s.a.now sA.resend sA.unacked) (H2 : backlog sA.unacked ≤ availAtTurn s.a ch)
    (H3 : Room (s.submitted ch) rB) (H4 : ∀ p ∈ flushPk s.a, OnlyCh ch p)
    (hks1 : ∀ k ∈ newIdx s, k ∈ ks) (hks2 : ∀ k ∈ ks, k ∈ newIdx s)
    (hn : (s.submitted ch).length ≤ (s.obtained ch).length + n) :
    ∃ u, GSys.exec cfg (ops ++ roundOps ch ks n) = some u ∧
      (RenetClient.is_disconnected u.a : Res Empty Bool) = .ok false ∧
      (RenetClient.is_disconnected u.b : Res Empty Bool) = .ok false ∧
      u.submitted ch = g.submitted ch ∧ (u.obtained ch).Perm (g.submitted ch) := by
  obtain ⟨hda, hdb⟩ := model_live_of_sim (sim_of_runs cfg ops _ s g hr hg hrg) hga hgb
  exact live_transfer_perm cfg ops _ s g hr hg hrg ch
    (C01L.round_delivers_unordered_live cfg ops s hr hc hcA hda hdb ch ho sA hfA rB hfB H1 H2 H3 H4 ks hks1 hks2 n hn)

/-- **C01 liveness on the generated code, k rounds** (analogue of `C01K.k_round_delivery`): every round offers the channel at
    least `B ≥ SLICE_SIZE` bytes; after `k = rs.length ≥ 1` full lossless rounds with `k * (B - SLICE_SIZE + 1) ≥ backlog` the
    generated execution has returned normally, nobody is disconnected, `obtained = submitted`, in order.  ANY messages,
    small or sliced; the budget may be smaller than the backlog. -/
theorem src_k_round_delivery (cfg : Cfg) (ops : List SysOp) (g : GSys) (hg : GSys.exec cfg ops = some g)
    (s : Sys) (hr : (Sys.init cfg).run ops = some s)
    (ch : Nat) (rs : List RoundP) (hrg : RunInRange cfg (ops ++ roundsOps ch rs))
    (hga : (RenetClient.is_disconnected g.a : Res Empty Bool) = .ok false)
    (hgb : (RenetClient.is_disconnected g.b : Res Empty Bool) = .ok false)
    (ho : cfg.Ordered ch) (sA : SendRel) (hfA : SMap.find? s.a.sendRel ch = some sA)
    (rB : RecvRel) (hfB : SMap.find? s.b.recvRel ch = some rB) (H3 : Room (s.submitted ch) rB)
    (B : Nat) (hSB : SLICE_SIZE ≤ B) (hR : Rounds cfg ch (SchedBytes ch B) s rs)
    (hk1 : rs ≠ []) (hk : backlog sA.unacked ≤ rs.length * (B - SLICE_SIZE + 1)) :
    ∃ u, GSys.exec cfg (ops ++ roundsOps ch rs) = some u ∧
      (RenetClient.is_disconnected u.a : Res Empty Bool) = .ok false ∧
      (RenetClient.is_disconnected u.b : Res Empty Bool) = .ok false ∧
      u.submitted ch = g.submitted ch ∧ u.obtained ch = g.submitted ch := by
  obtain ⟨hda, hdb⟩ := model_live_of_sim (sim_of_runs cfg ops _ s g hr hg hrg) hga hgb
  exact live_transfer cfg ops _ s g hr hg hrg ch
    (C01K.k_round_delivery cfg ops s hr hda hdb ch ho sA hfA rB hfB H3 B hSB rs hR hk1 hk)

/-- **C02 liveness on the generated code, k rounds (ReliableUnordered)** (analogue of `C01K.k_round_delivery_unordered`):
    `obtained` is a permutation of `submitted`. -/
theorem src_k_round_delivery_unordered (cfg : Cfg) (ops : List SysOp) (g : GSys) (hg : GSys.exec cfg ops = some g)
    (s : Sys) (hr : (Sys.init cfg).run ops = some s)
    (ch : Nat) (rs : List RoundP) (hrg : RunInRange cfg (ops ++ roundsOps ch rs))
    (hga : (RenetClient.is_disconnected g.a : Res Empty Bool) = .ok false)
    (hgb : (RenetClient.is_disconnected g.b : Res Empty Bool) = .ok false)
    (ho : cfg.Unordered ch) (sA : SendRel) (hfA : SMap.find? s.a.sendRel ch = some sA)
    (rB : RecvRel) (hfB : SMap.find? s.b.recvRel ch = some rB) (H3 : Room (s.submitted ch) rB)
    (B : Nat) (hSB : SLICE_SIZE ≤ B) (hR : Rounds cfg ch (SchedBytes ch B) s rs)
    (hk1 : rs ≠ []) (hk : backlog sA.unacked ≤ rs.length * (B - SLICE_SIZE + 1)) :
    ∃ u, GSys.exec cfg (ops ++ roundsOps ch rs) = some u ∧
      (RenetClient.is_disconnected u.a : Res Empty Bool) = .ok false ∧
      (RenetClient.is_disconnected u.b : Res Empty Bool) = .ok false ∧
      u.submitted ch = g.submitted ch ∧ (u.obtained ch).Perm (g.submitted ch) := by
  obtain ⟨hda, hdb⟩ := model_live_of_sim (sim_of_runs cfg ops _ s g hr hg hrg) hga hgb
  exact live_transfer_perm cfg ops _ s g hr hg hrg ch
    (C01K.k_round_delivery_unordered cfg ops s hr hda hdb ch ho sA hfA rB hfB H3 B hSB rs hR hk1 hk)

/-- **C01 liveness on the generated code, k rounds, single-channel configuration** (analogue of
    `C01K.k_round_delivery_single`): the only A → B channel is the ReliableOrdered channel `ch`, the budget is
    `available_bytes_per_tick ≥ SLICE_SIZE`; no scheduling hypothesis. -/
theorem src_k_round_delivery_single (cfg : Cfg) (ops : List SysOp) (g : GSys) (hg : GSys.exec cfg ops = some g)
    (s : Sys) (hr : (Sys.init cfg).run ops = some s)
    (ch : Nat) (rs : List RoundP) (hrg : RunInRange cfg (ops ++ roundsOps ch rs))
    (hga : (RenetClient.is_disconnected g.a : Res Empty Bool) = .ok false)
    (hgb : (RenetClient.is_disconnected g.b : Res Empty Bool) = .ok false)
    (hsingle : Single cfg ch) (sA : SendRel) (hfA : SMap.find? s.a.sendRel ch = some sA)
    (rB : RecvRel) (hfB : SMap.find? s.b.recvRel ch = some rB) (H3 : Room (s.submitted ch) rB)
    (hSB : SLICE_SIZE ≤ cfg.budget) (hR : Rounds cfg ch (fun _ => True) s rs)
    (hk1 : rs ≠ []) (hk : backlog sA.unacked ≤ rs.length * (cfg.budget - SLICE_SIZE + 1)) :
    ∃ u, GSys.exec cfg (ops ++ roundsOps ch rs) = some u ∧
      (RenetClient.is_disconnected u.a : Res Empty Bool) = .ok false ∧
      (RenetClient.is_disconnected u.b : Res Empty Bool) = .ok false ∧
      u.submitted ch = g.submitted ch ∧ u.obtained ch = g.submitted ch := by
  obtain ⟨hda, hdb⟩ := model_live_of_sim (sim_of_runs cfg ops _ s g hr hg hrg) hga hgb
  exact live_transfer cfg ops _ s g hr hg hrg ch
    (C01K.k_round_delivery_single cfg ops s hr hda hdb ch hsingle sA hfA rB hfB H3 hSB rs hR hk1 hk)

/-- **k rounds on the generated code, per-round side conditions closed** (analogue of `C01KC.k_round_delivery_closed`):
    besides the standing hypotheses only the schedule facts `RoundsSched` and the head-room `HeadRoom` on the initial state. -/
theorem src_k_round_delivery_closed (cfg : Cfg) (ops : List SysOp) (g : GSys) (hg : GSys.exec cfg ops = some g)
    (s : Sys) (hr : (Sys.init cfg).run ops = some s)
    (ch : Nat) (rs : List RoundP) (hrg : RunInRange cfg (ops ++ roundsOps ch rs))
    (hga : (RenetClient.is_disconnected g.a : Res Empty Bool) = .ok false)
    (hgb : (RenetClient.is_disconnected g.b : Res Empty Bool) = .ok false)
    (ho : cfg.Ordered ch) (sA : SendRel) (hfA : SMap.find? s.a.sendRel ch = some sA)
    (rB : RecvRel) (hfB : SMap.find? s.b.recvRel ch = some rB) (H3 : Room (s.submitted ch) rB)
    (B : Nat) (hSB : SLICE_SIZE ≤ B) (hRS : RoundsSched ch (SchedBytes ch B) s rs) (hH : HeadRoom cfg s rs)
    (hk1 : rs ≠ []) (hk : backlog sA.unacked ≤ rs.length * (B - SLICE_SIZE + 1)) :
    ∃ u, GSys.exec cfg (ops ++ roundsOps ch rs) = some u ∧
      (RenetClient.is_disconnected u.a : Res Empty Bool) = .ok false ∧
      (RenetClient.is_disconnected u.b : Res Empty Bool) = .ok false ∧
      u.submitted ch = g.submitted ch ∧ u.obtained ch = g.submitted ch := by
  obtain ⟨hda, hdb⟩ := model_live_of_sim (sim_of_runs cfg ops _ s g hr hg hrg) hga hgb
  exact live_transfer cfg ops _ s g hr hg hrg ch
    (C01KC.k_round_delivery_closed cfg ops s hr hda hdb ch ho sA hfA rB hfB H3 B hSB rs hRS hH hk1 hk)

/-- … single-channel configuration (analogue of `C01KC.k_round_delivery_single_closed`) -/
theorem src_k_round_delivery_single_closed (cfg : Cfg) (ops : List SysOp) (g : GSys) (hg : GSys.exec cfg ops = some g)
    (s : Sys) (hr : (Sys.init cfg).run ops = some s)
    (ch : Nat) (rs : List RoundP) (hrg : RunInRange cfg (ops ++ roundsOps ch rs))
    (hga : (RenetClient.is_disconnected g.a : Res Empty Bool) = .ok false)
    (hgb : (RenetClient.is_disconnected g.b : Res Empty Bool) = .ok false)
    (hsingle : Single cfg ch) (sA : SendRel) (hfA : SMap.find? s.a.sendRel ch = some sA)
    (rB : RecvRel) (hfB : SMap.find? s.b.recvRel ch = some rB) (H3 : Room (s.submitted ch) rB)
    (hSB : SLICE_SIZE ≤ cfg.budget) (hRS : RoundsSched ch (fun _ => True) s rs) (hH : HeadRoom cfg s rs)
    (hk1 : rs ≠ []) (hk : backlog sA.unacked ≤ rs.length * (cfg.budget - SLICE_SIZE + 1)) :
    ∃ u, GSys.exec cfg (ops ++ roundsOps ch rs) = some u ∧
      (RenetClient.is_disconnected u.a : Res Empty Bool) = .ok false ∧
      (RenetClient.is_disconnected u.b : Res Empty Bool) = .ok false ∧
      u.submitted ch = g.submitted ch ∧ u.obtained ch = g.submitted ch := by
  obtain ⟨hda, hdb⟩ := model_live_of_sim (sim_of_runs cfg ops _ s g hr hg hrg) hga hgb
  exact live_transfer cfg ops _ s g hr hg hrg ch
    (C01KC.k_round_delivery_single_closed cfg ops s hr hda hdb ch hsingle sA hfA rB hfB H3 hSB rs hRS hH hk1 hk)

/-- … ReliableUnordered (analogue of `C01KC.k_round_delivery_unordered_closed`) -/
theorem src_k_round_delivery_unordered_closed (cfg : Cfg) (ops : List SysOp) (g : GSys) (hg : GSys.exec cfg ops = some g)
    (s : Sys) (hr : (Sys.init cfg).run ops = some s)
    (ch : Nat) (rs : List RoundP) (hrg : RunInRange cfg (ops ++ roundsOps ch rs))
    (hga : (RenetClient.is_disconnected g.a : Res Empty Bool) = .ok false)
    (hgb : (RenetClient.is_disconnected g.b : Res Empty Bool) = .ok false)
    (ho : cfg.Unordered ch) (sA : SendRel) (hfA : SMap.find? s.a.sendRel ch = some sA)
    (rB : RecvRel) (hfB : SMap.find? s.b.recvRel ch = some rB) (H3 : Room (s.submitted ch) rB)
    (B : Nat) (hSB : SLICE_SIZE ≤ B) (hRS : RoundsSched ch (SchedBytes ch B) s rs) (hH : HeadRoom cfg s rs)
    (hk1 : rs ≠ []) (hk : backlog sA.unacked ≤ rs.length * (B - SLICE_SIZE + 1)) :
    ∃ u, GSys.exec cfg (ops ++ roundsOps ch rs) = some u ∧
      (RenetClient.is_disconnected u.a : Res Empty Bool) = .ok false ∧
      (RenetClient.is_disconnected u.b : Res Empty Bool) = .ok false ∧
      u.submitted ch = g.submitted ch ∧ (u.obtained ch).Perm (g.submitted ch) := by
  obtain ⟨hda, hdb⟩ := model_live_of_sim (sim_of_runs cfg ops _ s g hr hg hrg) hga hgb
  exact live_transfer_perm cfg ops _ s g hr hg hrg ch
    (C01KC.k_round_delivery_unordered_closed cfg ops s hr hda hdb ch ho sA hfA rB hfB H3 B hSB rs hRS hH hk1 hk)

/-! ## non-vacuity: the examples of C01L / C01K / C01KC executed by the kernel ON THE GENERATED CODE -/

/-- a placeholder for `Option.getD` (never used: the executions below return `some _`) -/
def gzero : GSys :=
  ⟨reprConn (fun _ => 0) (Conn.fromChannels 0 [] []), reprConn (fun _ => 0) (Conn.fromChannels 0 [] []), [], [],
   fun _ => [], fun _ => [], fun _ => [], []⟩

/-! `C01K.ExS` — single ReliableOrdered channel, budget 3000 bytes per tick, a 3-byte and a 3700-byte (four-slice) message:
    backlog 4803 > budget; `k = 3` rounds, `4803 ≤ 3 * (3000 - 1200 + 1)`. -/
namespace ExS
abbrev cfg := C01K.ExS.cfg
abbrev ops := C01K.ExS.ops
abbrev rs : List RoundP := [C01K.ExS.r1, C01K.ExS.r2, C01K.ExS.r3]

def g : GSys := (GSys.exec cfg ops).getD gzero
def gu : GSys := (GSys.exec cfg (ops ++ roundsOps 0 rs)).getD gzero

/-- the range side condition over the two submissions and the three rounds, decided by evaluation -/
theorem inRange : RunInRange cfg (ops ++ roundsOps 0 rs) := by decide +kernel
/-- the generated run up to the start of the rounds (kernel evaluation of the generated code) -/
theorem grun : GSys.exec cfg ops = some g := some_getD (by decide +kernel) _
/-- both generated endpoints are live at the start, and what has been submitted -/
theorem gstart : (RenetClient.is_disconnected g.a : Res Empty Bool) = .ok false ∧
    (RenetClient.is_disconnected g.b : Res Empty Bool) = .ok false ∧
    g.submitted 0 = [toNats C01K.ExS.m0, toNats C01K.ExS.m1] ∧ g.obtained 0 = [] := by decide +kernel

/-- **`src_k_round_delivery_single` applied with `k = 3`** (per-round side conditions `C01K.ExS.rounds`) -/
theorem delivered : ∃ u, GSys.exec cfg (ops ++ roundsOps 0 rs) = some u ∧
    (RenetClient.is_disconnected u.a : Res Empty Bool) = .ok false ∧
    (RenetClient.is_disconnected u.b : Res Empty Bool) = .ok false ∧
    u.submitted 0 = g.submitted 0 ∧ u.obtained 0 = g.submitted 0 :=
  src_k_round_delivery_single cfg ops g grun C01K.ExS.s C01K.ExS.run_s 0 rs inRange gstart.1 gstart.2.1 C01K.ExS.single0
    C01K.ExS.sA C01K.ExS.find_sA C01K.ExS.rB C01K.ExS.find_rB C01K.ExS.start.2.2.1 (by decide) C01K.ExS.rounds (by simp)
    (by rw [C01K.ExS.start.2.2.2.1]; decide)

/-- **`src_k_round_delivery_single_closed` applied** (schedule facts and head-room of `C01KC.ExS`) -/
example : ∃ u, GSys.exec cfg (ops ++ roundsOps 0 rs) = some u ∧
    (RenetClient.is_disconnected u.a : Res Empty Bool) = .ok false ∧
    (RenetClient.is_disconnected u.b : Res Empty Bool) = .ok false ∧
    u.submitted 0 = g.submitted 0 ∧ u.obtained 0 = g.submitted 0 :=
  src_k_round_delivery_single_closed cfg ops g grun C01K.ExS.s C01K.ExS.run_s 0 rs inRange gstart.1 gstart.2.1
    C01K.ExS.single0 C01K.ExS.sA C01K.ExS.find_sA C01K.ExS.rB C01K.ExS.find_rB C01K.ExS.start.2.2.1 (by decide)
    C01KC.ExS.roundsSched C01KC.ExS.headRoom (by simp) (by rw [C01K.ExS.start.2.2.2.1]; decide)

/-- what the kernel computes when it runs the generated code through the three rounds: both messages obtained, in order;
    A emitted 7 datagrams, all handed to B; both ends live; A's generated channel stores nothing any more -/
theorem gfacts : GSys.exec cfg (ops ++ roundsOps 0 rs) = some gu ∧
    gu.obtained 0 = [toNats C01K.ExS.m0, toNats C01K.ExS.m1] ∧ gu.outA.length = 7 ∧
    gu.deliveredToB = [0, 1, 2, 3, 4, 5, 6] ∧
    (RenetClient.is_disconnected gu.a : Res Empty Bool) = .ok false ∧
    (RenetClient.is_disconnected gu.b : Res Empty Bool) = .ok false ∧
    (RustSem.Map.find? gu.a.send_reliable_channels 0).map (fun s => s.unacked_messages.length) = some 0 := by
  refine ⟨some_getD (by decide +kernel) _, ?_⟩
  decide +kernel

end ExS

/-! `C01K.ExU` — a ReliableUnordered channel, budget 3000, a 3700-byte and two small messages; datagrams handed over in
    reverse order, one of them twice. -/
namespace ExU
abbrev cfg := C01K.ExU.cfg
abbrev ops := C01K.ExU.ops
abbrev rs : List RoundP := [C01K.ExU.r1, C01K.ExU.r2, C01K.ExU.r3]

def g : GSys := (GSys.exec cfg ops).getD gzero
theorem inRange : RunInRange cfg (ops ++ roundsOps 0 rs) := by decide +kernel
theorem grun : GSys.exec cfg ops = some g := some_getD (by decide +kernel) _
theorem gstart : (RenetClient.is_disconnected g.a : Res Empty Bool) = .ok false ∧
    (RenetClient.is_disconnected g.b : Res Empty Bool) = .ok false := by decide +kernel

/-- **`src_k_round_delivery_unordered` applied with `B = 3000`, `k = 3`** -/
theorem delivered : ∃ u, GSys.exec cfg (ops ++ roundsOps 0 rs) = some u ∧
    (RenetClient.is_disconnected u.a : Res Empty Bool) = .ok false ∧
    (RenetClient.is_disconnected u.b : Res Empty Bool) = .ok false ∧
    u.submitted 0 = g.submitted 0 ∧ (u.obtained 0).Perm (g.submitted 0) :=
  src_k_round_delivery_unordered cfg ops g grun C01K.ExU.s C01K.ExU.run_s 0 rs inRange gstart.1 gstart.2 C01K.ExU.unordered0
    C01K.ExU.sA C01K.ExU.find_sA C01K.ExU.rB C01K.ExU.find_rB C01K.ExU.start.2.2.1 3000 (by decide) C01K.ExU.rounds (by simp)
    (by rw [C01K.ExU.start.2.2.2.1]; decide)

/-- **`src_k_round_delivery_unordered_closed` applied** -/
example : ∃ u, GSys.exec cfg (ops ++ roundsOps 0 rs) = some u ∧
    (RenetClient.is_disconnected u.a : Res Empty Bool) = .ok false ∧
    (RenetClient.is_disconnected u.b : Res Empty Bool) = .ok false ∧
    u.submitted 0 = g.submitted 0 ∧ (u.obtained 0).Perm (g.submitted 0) :=
  src_k_round_delivery_unordered_closed cfg ops g grun C01K.ExU.s C01K.ExU.run_s 0 rs inRange gstart.1 gstart.2
    C01K.ExU.unordered0 C01K.ExU.sA C01K.ExU.find_sA C01K.ExU.rB C01K.ExU.find_rB C01K.ExU.start.2.2.1 3000 (by decide)
    C01KC.ExU.roundsSched C01KC.ExU.headRoom (by simp) (by rw [C01K.ExU.start.2.2.2.1]; decide)

end ExU

/-! `C01L.ExU` — one lossless round on a ReliableUnordered channel (the state `s` is reached after
    `sendA ; sendA ; flushA ; updA 1000`; the first flush is lost), datagrams handed over in the order 4, 5, 3. -/
namespace ExL
abbrev cfg := C01L.ExU.cfg
abbrev ops := C01L.ExU.ops

def g : GSys := (GSys.exec cfg ops).getD gzero
theorem inRange : RunInRange cfg (ops ++ roundOps 0 [4, 5, 3] 2) := by decide +kernel
theorem grun : GSys.exec cfg ops = some g := some_getD (by decide +kernel) _
theorem gstart : (RenetClient.is_disconnected g.a : Res Empty Bool) = .ok false ∧
    (RenetClient.is_disconnected g.b : Res Empty Bool) = .ok false := by decide +kernel

/-- **`src_round_delivers_unordered` applied** -/
example : ∃ u, GSys.exec cfg (ops ++ roundOps 0 [4, 5, 3] 2) = some u ∧
    (RenetClient.is_disconnected u.a : Res Empty Bool) = .ok false ∧
    (RenetClient.is_disconnected u.b : Res Empty Bool) = .ok false ∧
    u.submitted 0 = g.submitted 0 ∧ (u.obtained 0).Perm (g.submitted 0) :=
  src_round_delivers_unordered cfg ops g grun C01L.ExU.s C01L.ExU.run_s 0 [4, 5, 3] 2 inRange gstart.1 gstart.2
    C01L.ExU.counters C01L.ExU.countersA C01L.ExU.unordered0 C01L.ExU.sA C01L.ExU.find_sA C01L.ExU.rB C01L.ExU.find_rB
    C01L.ExU.facts.2.2.2.2.2.2.1 C01L.ExU.facts.2.2.2.2.2.2.2.1 C01L.ExU.facts.2.2.2.2.2.2.2.2.1
    C01L.ExU.facts.2.2.2.2.2.2.2.2.2
    (by rw [C01L.ExU.facts.2.2.2.2.2.1]; decide) (by rw [C01L.ExU.facts.2.2.2.2.2.1]; decide)
    (by rw [C01L.ExU.facts.2.2.2.1, C01L.ExU.facts.2.2.2.2.1]; decide)

end ExL

/-! `C01L.Ex` — one lossless round on a ReliableOrdered channel from the state `su` reached after
    `sendA m0 ; sendA m1 ; flushA ; updA 1000` (first flush lost, resend time elapsed). -/
namespace ExO
abbrev cfg := C01L.Ex.cfg
abbrev ops : List SysOp := C01L.Ex.ops ++ [SysOp.updA 1000]
abbrev su := C01L.Ex.su

def rBu : RecvRel := (SMap.find? su.b.recvRel 0).getD (RecvRel.new 0 true)
theorem find_rBu : SMap.find? su.b.recvRel 0 = some rBu := some_getD (by decide +kernel) _

def g : GSys := (GSys.exec cfg ops).getD gzero
theorem inRange : RunInRange cfg (ops ++ roundOps 0 [3, 4, 5] 2) := by decide +kernel
theorem grun : GSys.exec cfg ops = some g := some_getD (by decide +kernel) _
theorem gstart : (RenetClient.is_disconnected g.a : Res Empty Bool) = .ok false ∧
    (RenetClient.is_disconnected g.b : Res Empty Bool) = .ok false := by decide +kernel

/-- H3, H4 and the drain bound in the state `su` -/
theorem hyps : Room (su.submitted 0) rBu ∧ (∀ p ∈ flushPk su.a, OnlyCh 0 p) ∧ newIdx su = [3, 4, 5] ∧
    (su.submitted 0).length ≤ (su.obtained 0).length + 2 := by decide +kernel

/-- **`src_round_delivers` applied** -/
example : ∃ u, GSys.exec cfg (ops ++ roundOps 0 [3, 4, 5] 2) = some u ∧
    (RenetClient.is_disconnected u.a : Res Empty Bool) = .ok false ∧
    (RenetClient.is_disconnected u.b : Res Empty Bool) = .ok false ∧
    u.submitted 0 = g.submitted 0 ∧ u.obtained 0 = g.submitted 0 :=
  src_round_delivers cfg ops g grun su C01L.Ex.run_su 0 [3, 4, 5] 2 inRange gstart.1 gstart.2
    C01L.Ex.counters C01L.Ex.countersA C01L.Ex.ordered0 C01L.Ex.sAu C01L.Ex.find_sAu rBu find_rBu
    C01L.Ex.ackHyps.2.1 C01L.Ex.ackHyps.2.2.1 hyps.1 hyps.2.1
    (by rw [hyps.2.2.1]; exact fun _ h => h) (by rw [hyps.2.2.1]; exact fun _ h => h) hyps.2.2.2

end ExO

end RenetVerif.SrcPropsSystemLive
