/-
  Source tie, group NcSequence: `renetcode/src/packet.rs` `write_sequence` (calls `sequence_bytes_required` of group
  Prefix) over the `io::Cursor` write model ↔ `Packet.writeSequence` of `Netcode/Wire.lean`.
  (`wcur`, `WrOk`: see `Props/SrcTieNcSerialize.lean`.)
-/
import RenetVerif.Lemmas.SrcEquiv.NcSequence
namespace RenetVerif.SrcTie
open RenetVerif RenetVerif.SrcEquiv RenetVerif.RustSem Netcode

/-- `write_sequence(out, seq)` ↔ `Packet.writeSequence` (a short write is not an error): never panics -/
theorem nc_write_sequence (w : Wr) (tail : List Nat) (h : WrOk w tail) (seq : Nat) :
    Src.renetcode.packet.write_sequence (wcur w tail) seq =
      .ok (wcur (Packet.writeSequence w seq).1 (tail.drop (Packet.writeSequence w seq).2), (Packet.writeSequence w seq).2) :=
  write_sequence_eq h seq

example : Src.renetcode.packet.write_sequence (WriteCursor.new [0, 0, 0, 0]) 0x1234 = .ok (⟨[0x34, 0x12, 0, 0], 2⟩, 2) := by
  decide +kernel
/-- short write: one byte of room for a two-byte sequence -/
example : Src.renetcode.packet.write_sequence ⟨[7, 0], 1⟩ 0x1234 = .ok (⟨[7, 0x34], 2⟩, 1) := by decide +kernel

end RenetVerif.SrcTie
