/-
  Source tie: the Lean definitions that /verif/translator derives from the CURRENT Rust text
  (`RenetVerif/Generated/Src.lean`, namespace `RenetVerif.Src`, regenerated on every check run) compute
  exactly what the hand-written model computes.  If one of these Rust functions is edited, the
  regenerated text changes and these theorems are re-checked against it.

  Conventions: generated integers are `Nat`s (a `uN` argument is assumed `< 2^N` where it matters, stated
  as a hypothesis), arrays/`Vec`s/slices are `List`s.  `absRP`/`absSC`/`absPT`/`absErr` are the abstraction
  functions generated type → model type, `reprRP`/`reprSC`/`toNats` their (right-)inverses on well-formed
  values; `WfRP`, `WfSC`, `BytesOk` are decidable (so is `p.enc = .ok bytes` in part D).  `SameOutcome` compares `ok`/`err` values exactly and
  panics up to the text of the site.
-/
import RenetVerif.Lemmas.SrcEquiv.Prefix
namespace RenetVerif.SrcTie
open RenetVerif RenetVerif.SrcEquiv

/-! ## B. `renetcode/src/packet.rs` ↔ `Netcode.Packet` / `Netcode.PacketType` -/
section B
open Src.renetcode.packet Netcode

/-- `sequence_bytes_required` (the 8-round mask loop) never panics and equals the model's byte count -/
theorem sequence_bytes_required {ε : Type} (sequence : Nat) :
    (Src.renetcode.packet.sequence_bytes_required sequence : Res ε Nat) = .ok (Packet.sequenceBytesRequired sequence) :=
  sequence_bytes_required_eq sequence

/-- `encode_prefix(value, sequence)` for a packet-type nibble `value < 16`: the model's prefix byte -/
theorem encode_prefix {ε : Type} (value sequence : Nat) (hv : value < 16) :
    (Src.renetcode.packet.encode_prefix value sequence : Res ε Nat) = .ok (Packet.encodePrefix value sequence).toNat :=
  encode_prefix_eq value sequence hv

/-- `decode_prefix` on any byte -/
theorem decode_prefix {ε : Type} (value : UInt8) :
    (Src.renetcode.packet.decode_prefix value.toNat : Res ε (Nat × Nat)) = .ok (Packet.decodePrefix value) :=
  decode_prefix_eq value

/-- `PacketType::from_u8`: same variant / same error for every `value` -/
theorem packet_type_from_u8 (value : Nat) :
    mapRes absPT absErr (Src.renetcode.packet.PacketType.from_u8 value) = Netcode.PacketType.fromU8 value :=
  from_u8_eq value

/-- `PacketType::apply_replay_protection` -/
theorem packet_type_apply_replay_protection {ε : Type} (t : Src.renetcode.packet.PacketType) :
    (Src.renetcode.packet.PacketType.apply_replay_protection t : Res ε Bool) = .ok (absPT t).applyReplayProtection :=
  apply_replay_protection_eq t

example : (Src.renetcode.packet.sequence_bytes_required 0x012345 : Res Empty Nat) = .ok 3 := by decide +kernel
example : (Src.renetcode.packet.sequence_bytes_required 0 : Res Empty Nat) = .ok 1 := by decide +kernel
example : (Src.renetcode.packet.encode_prefix 5 0x0100 : Res Empty Nat) = .ok 0x25 := by decide +kernel
example : (Src.renetcode.packet.decode_prefix 0x25 : Res Empty (Nat × Nat)) = .ok (5, 2) := by decide +kernel
example : Src.renetcode.packet.PacketType.from_u8 4 = .ok .KeepAlive := by decide +kernel
example : Src.renetcode.packet.PacketType.from_u8 7 = .err .InvalidPacketType := by decide +kernel
example : (Src.renetcode.packet.PacketType.apply_replay_protection .Challenge : Res Empty Bool) = .ok false := by decide +kernel
end B

end RenetVerif.SrcTie
