/-
  C13 — every packet returned by `get_packets_to_send` is at most NETCODE_MAX_PAYLOAD_BYTES (1300) long and
  serialization never fails, for any mix of message sizes, ids, sequence numbers and pending ack ranges
  (counters < 2^62).

  Proofs: Lemmas/Flush.lean.  Bounds:
    smallPacketBound       = 12 + SLICE_SIZE + 10            (type, seq ≤ 8, channel, count 2; body ≤ SLICE_SIZE + 10)
    smallUnrelPacketBound  = 12 + SLICE_SIZE + 2
    slicePacketBound       = 1 + 8 + 1 + 8 + 8 + 8 + 2 + SLICE_SIZE
    ackPacketBound         = 1 + 8 + 8 + 8 + 8 + 16 * (ACK_RANGE_CAP - 1)
-/
import RenetVerif.Lemmas.Flush
namespace RenetVerif.C13
open RenetVerif C

/-! ### side conditions on the constants (each `by decide`: a changed constant breaks exactly its lemma) -/
theorem small_reliable_bound_fits : 12 + SLICE_SIZE + 10 ≤ NETCODE_MAX_PAYLOAD_BYTES := by decide
theorem small_unreliable_bound_fits : 12 + SLICE_SIZE + 2 ≤ NETCODE_MAX_PAYLOAD_BYTES := by decide
theorem slice_bound_fits : 1 + 8 + 1 + 8 + 8 + 8 + 2 + SLICE_SIZE ≤ NETCODE_MAX_PAYLOAD_BYTES := by decide
theorem slice_bound_loose_fits : 1 + 8 + 1 + 8 + 8 + 8 + 8 + SLICE_SIZE ≤ NETCODE_MAX_PAYLOAD_BYTES := by decide
theorem ack_bound_fits : 1 + 8 + 8 + 8 + 8 + 16 * (ACK_RANGE_CAP - 1) ≤ NETCODE_MAX_PAYLOAD_BYTES := by decide
theorem payload_fits_buffer : NETCODE_MAX_PAYLOAD_BYTES ≤ SER_BUFFER := by decide
/-- the largest small message still gets a two-byte length varint -/
theorem slice_size_two_byte_varint : SLICE_SIZE ≤ 16383 := by decide

/-! ### channel level -/

/-- Reliable channel.  Invariant `s.WF`: distinct ids below `next_message_id`; small entries at most `SLICE_SIZE`
    long; sliced entries non-empty with `num_slices = div_ceil(len, SLICE_SIZE)` and machine-representable length
    (`≤ 2^62-1`).  Counters: `next_message_id ≤ 2^62`, returned `packet_sequence ≤ 2^62` (so every number used is
    `< 2^62`).  Then every packet of the flush encodes without panic, a small-message packet into at most
    `12 + SLICE_SIZE + 10` bytes, a slice packet into at most `1+8+1+8+8+8+2 + SLICE_SIZE` bytes. -/
theorem reliable_sizes {s s' : SendRel} {seq avail now seq' avail' : Nat} {ps : List Packet}
    (h : s.getPackets seq avail now = (s', ps, seq', avail')) (hwf : s.WF)
    (hid : s.nextId ≤ Varint.MAX + 1) (hseq : seq' ≤ Varint.MAX + 1) :
    ∀ p ∈ ps, ∃ b, p.enc = .ok b ∧
      ((∃ sq msgs, p = Packet.smallReliable sq s.ch msgs ∧ b.length ≤ 12 + SLICE_SIZE + 10) ∨
       (∃ sq sl, p = Packet.reliableSlice sq s.ch sl ∧ b.length ≤ 1 + 8 + 1 + 8 + 8 + 8 + 2 + SLICE_SIZE)) :=
  SendRel.getPackets_sizes h hwf hid hseq

/-- … hence `to_bytes` into the 1400-byte scratch buffer succeeds with at most 1300 bytes. -/
theorem reliable_fits {s s' : SendRel} {seq avail now seq' avail' : Nat} {ps : List Packet}
    (h : s.getPackets seq avail now = (s', ps, seq', avail')) (hwf : s.WF)
    (hid : s.nextId ≤ Varint.MAX + 1) (hseq : seq' ≤ Varint.MAX + 1) :
    ∀ p ∈ ps, ∃ b, p.toBytes SER_BUFFER = .ok b ∧ b.length ≤ NETCODE_MAX_PAYLOAD_BYTES :=
  fun p hp => (SendRel.getPackets_fits h hwf hid hseq p hp).1.toBytes

/-- … and when additionally the channel id is a byte and no message needs more than `MAX_NUM_SLICES` slices, every
    packet is well-formed in the sense of the round-trip theorem C16 (the peer decodes exactly what was sent). -/
theorem reliable_wf {s s' : SendRel} {seq avail now seq' avail' : Nat} {ps : List Packet}
    (h : s.getPackets seq avail now = (s', ps, seq', avail')) (hwf : s.WF) (hch : s.ch < 256)
    (hid : s.nextId ≤ Varint.MAX + 1) (hseq : seq' ≤ Varint.MAX + 1)
    (hbig : ∀ id m n na nx ak ls, (id, Unacked.sliced m n na nx ak ls) ∈ s.unacked → n ≤ MAX_NUM_SLICES) :
    ∀ p ∈ ps, p.WF :=
  SendRel.getPackets_wf h hwf hch hid hseq hbig

/-- The invariant is inductive over sending and flushing. -/
theorem reliable_invariant :
    (∀ ch resend maxMem, (SendRel.new ch resend maxMem).WF) ∧
    (∀ (s s' : SendRel) (m : Bytes), s.sendMessage m = .ok s' → s.WF → m.length ≤ Varint.MAX → s'.WF) ∧
    (∀ (s s' : SendRel) (seq avail now seq' avail' : Nat) (ps : List Packet),
      s.getPackets seq avail now = (s', ps, seq', avail') → s.WF → s'.WF ∧ s'.nextId = s.nextId) :=
  ⟨SendRel.new_wf, fun _ _ _ h hw hl => SendRel.sendMessage_wf h hw hl,
   fun _ _ _ _ _ _ _ _ h hw => ⟨SendRel.getPackets_wf_preserved h hw, (SendRel.getPackets_keeps h).2.2.1⟩⟩

/-- Unreliable channel.  Queued messages of machine-representable length; the slice-message-id counter and the
    returned `packet_sequence` at most `2^62`.  Then every packet of the flush encodes without panic, a small-message
    packet into at most `12 + SLICE_SIZE + 2` bytes, a slice packet into at most `1+8+1+8+8+8+2 + SLICE_SIZE`. -/
theorem unreliable_sizes {s s' : SendUnrel} {seq avail seq' avail' : Nat} {ps : List Packet}
    (h : s.getPackets seq avail = (s', ps, seq', avail'))
    (hlen : ∀ m ∈ s.queue, m.length ≤ Varint.MAX)
    (hid : s'.slicedId ≤ Varint.MAX + 1) (hseq : seq' ≤ Varint.MAX + 1) :
    ∀ p ∈ ps, ∃ b, p.enc = .ok b ∧
      ((∃ sq msgs, p = Packet.smallUnreliable sq s.ch msgs ∧ b.length ≤ 12 + SLICE_SIZE + 2) ∨
       (∃ sq sl, p = Packet.unreliableSlice sq s.ch sl ∧ b.length ≤ 1 + 8 + 1 + 8 + 8 + 8 + 2 + SLICE_SIZE)) :=
  SendUnrel.getPackets_sizes h hlen hid hseq

theorem unreliable_fits {s s' : SendUnrel} {seq avail seq' avail' : Nat} {ps : List Packet}
    (h : s.getPackets seq avail = (s', ps, seq', avail'))
    (hlen : ∀ m ∈ s.queue, m.length ≤ Varint.MAX)
    (hid : s'.slicedId ≤ Varint.MAX + 1) (hseq : seq' ≤ Varint.MAX + 1) :
    ∀ p ∈ ps, ∃ b, p.toBytes SER_BUFFER = .ok b ∧ b.length ≤ NETCODE_MAX_PAYLOAD_BYTES :=
  fun p hp => (SendUnrel.getPackets_fits h hlen hid hseq p hp).1.toBytes

/-- the slice-id counter advances by at most one per queued message -/
theorem unreliable_sliced_id {s s' : SendUnrel} {seq avail seq' avail' : Nat} {ps : List Packet}
    (h : s.getPackets seq avail = (s', ps, seq', avail')) : s'.slicedId ≤ s.slicedId + s.queue.length :=
  SendUnrel.getPackets_slicedId h

/-- Ack packet: a pending list that is sorted/disjoint/non-adjacent (`Acks.WF`, C16), non-empty, with at most
    `ACK_RANGE_CAP` ranges and range ends at most `2^62`, encodes without panic into at most
    `1 + 8 + 8 + 8 + 8 + 16 * (ACK_RANGE_CAP - 1)` bytes. -/
theorem ack_size (seq : Nat) (l : List AckRange) (hs : seq ≤ Varint.MAX) (hne : l ≠ []) (hwf : Acks.WF l)
    (hlen : l.length ≤ ACK_RANGE_CAP) (hb : ∀ r ∈ l, r.2 ≤ Varint.MAX + 1) :
    ∃ b, (Packet.ack seq l).enc = .ok b ∧ b.length ≤ 1 + 8 + 8 + 8 + 8 + 16 * (ACK_RANGE_CAP - 1) := by
  obtain ⟨b, h1, h2⟩ := enc_ack_len seq l hs (Acks.ackWF_of_wf l hne hwf hb)
  refine ⟨b, h1, ?_⟩
  have : 16 * (l.length - 1) ≤ 16 * (ACK_RANGE_CAP - 1) := Nat.mul_le_mul_left _ (by omega)
  omega

/-! ### connection level -/

/-- `get_packets_to_send` of a connection.  Invariant `Conn.FlushInv`: every channel of the send order exists; every
    reliable send channel satisfies `SendRel.WF` with `next_message_id ≤ 2^62`; every unreliable send channel holds
    machine-representable messages and `sliced_message_id + queue length ≤ 2^62`; the pending-ack list is
    `Acks.WF`, has at most `ACK_RANGE_CAP` ranges, range ends at most `2^62`.  Counter hypothesis: `packet_sequence`
    after this flush (`Conn.flushSeq`) is at most `2^62`.
    Then the call returns normally (no panic), the connection status is unchanged (in particular no
    `PacketSerialization` disconnect), and every datagram is at most `NETCODE_MAX_PAYLOAD_BYTES` long. -/
theorem connection_fits (c : Conn) (hinv : c.FlushInv) (hseq : c.flushSeq ≤ Varint.MAX + 1) :
    ∃ c' bs, c.getPacketsToSend = .ok (c', bs) ∧ c'.status = c.status ∧
      (∀ b ∈ bs, b.length ≤ NETCODE_MAX_PAYLOAD_BYTES) ∧ c'.packetSeq ≤ c.flushSeq :=
  Conn.getPacketsToSend_fits c hinv hseq

/-! ### non-vacuity -/

def mk (n : Nat) (b : UInt8) : Bytes := List.replicate n b
def okOr {ε α : Type} (d : α) : Res ε α → α
  | .ok a => a
  | _ => d

def cfg : List ChanCfg := [⟨0, .ordered, 100000, 300⟩, ⟨1, .unreliable, 100000, 0⟩]

/-- a connection built by running the model: connected; reliable channel 0 holds a 5-byte and a 2500-byte message;
    unreliable channel 1 holds 7-, 1300- and 3000-byte messages; two packets (sequence 3 and 9) were received, so
    two ack ranges are pending -/
def exConn : Conn :=
  let c := (Conn.fromChannels 4000 cfg cfg).setConnected
  let c := okOr c (c.sendMessage 0 (mk 5 1))
  let c := okOr c (c.sendMessage 0 (mk 2500 2))
  let c := okOr c (c.sendMessage 1 (mk 7 3))
  let c := okOr c (c.sendMessage 1 (mk 1300 4))
  let c := okOr c (c.sendMessage 1 (mk 3000 5))
  let c := okOr c (c.processPacket (okOr [] (Packet.enc (.smallUnreliable 3 1 [[1, 2]]))))
  okOr c (c.processPacket (okOr [] (Packet.enc (.smallUnreliable 9 1 [[1, 2]]))))

set_option maxRecDepth 100000 in
example : exConn.FlushInv ∧ exConn.flushSeq ≤ Varint.MAX + 1 :=
  ⟨Conn.FlushInvd.inv (by decide +kernel), by decide +kernel⟩

set_option maxRecDepth 100000 in
/-- the state is non-trivial, and the flush produces eight datagrams (three reliable slices, a reliable small packet,
    two unreliable slices, an unreliable small packet, the ack packet) -/
example : exConn.pendingAcks = [(3, 4), (9, 10)] ∧ exConn.order = [(true, 0), (false, 1)] ∧
    (match exConn.getPacketsToSend with
     | .ok (c', bs) => (bs.map List.length, c'.packetSeq, c'.status)
     | _ => ([], 0, .connecting)) = ([1208, 1208, 108, 12, 1208, 108, 13, 7], 8, .connected) := by decide +kernel

/-- The pending-ack part of the invariant is inductive: recording a received sequence number `< 2^62` keeps the list
    well-formed, within `ACK_RANGE_CAP` ranges (on every path of `add_pending_ack` — the tree under verification
    contains the `fix:` for the insert path, finding D16) and with range ends `≤ 2^62`. -/
theorem pending_acks_invariant (seq : Nat) (l : List AckRange) (h : Acks.WF l) (hl : l.length ≤ ACK_RANGE_CAP)
    (hb : ∀ r ∈ l, r.2 ≤ Varint.MAX + 1) (hs : seq ≤ Varint.MAX) :
    Acks.WF (Acks.add ACK_RANGE_CAP seq l) ∧ (Acks.add ACK_RANGE_CAP seq l).length ≤ ACK_RANGE_CAP ∧
    ∀ r ∈ Acks.add ACK_RANGE_CAP seq l, r.2 ≤ Varint.MAX + 1 :=
  ⟨Acks.add_wf _ _ _ h, Acks.add_length _ _ _ (by decide) h hl, Acks.add_bound _ _ _ _ h hb (by omega)⟩

/-- The cap matters: 160 well-formed ranges spaced 2^31 apart (what the pre-fix code accumulated from 160 packets
    with descending sequence numbers) make an ack packet that does not fit `SER_BUFFER`: `to_bytes` fails with
    `BufferTooShort`, which `get_packets_to_send` turns into a self-disconnect. -/
def manyAcks : List AckRange := (List.range 160).map (fun k => (k * 2147483648, k * 2147483648 + 1))

set_option maxRecDepth 100000 in
theorem ack_cap_needed :
    manyAcks.length = 160 ∧ acksWFb manyAcks = true ∧
    (Packet.ack 0 manyAcks).toBytes SER_BUFFER = .err .bufferTooShort := by decide +kernel

end RenetVerif.C13
