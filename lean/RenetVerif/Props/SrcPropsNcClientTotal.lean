/-
  Whole-trace TOTALITY of the netcode client on the GENERATED code (`Generated/Src/NcClient.lean`, translated from
  `renetcode/src/client.rs`), and the `ClientAuthentication::Unsecure` start.  Closes the first and third NOT DONE bullets of
  `Props/SrcPropsNcClientHistory.lean` and both bullets of `Props/SrcPropsNcClientTrace.lean`.

  Every theorem is about GENERATED runs (`GNcC`: generated `NetcodeClient::new`, then generated `update` / `process_packet` /
  `generate_payload_packet` / `disconnect` calls with arbitrary arguments, `Lemmas/SrcEquiv/SrcNcClientSystem.lean`); the hand
  model (`Netcode/Client.lean`, `Props/C07C.lean`, `Lemmas/NcClientTotal.lean`) occurs inside proofs only — except in
  `gen_run_total`, the "from any pair of related states" form, whose start is given by the simulation relation.

    (2) `gen_trace_total`            generated `new(ct, Secure { tok })` returned `Ok`, the token has its 32 address slots and an
                                     `i32` timeout, the datagrams are shorter than `2^64 - 16` bytes, and the trace is inside the
                                     head room (`ct + Σ d + timeout ≤ Duration::MAX`, at most `u64::MAX` sending calls): NO
                                     generated call of the trace panics (`GNcC.exec … = some g`); the generated clock is
                                     `ct + Σ d`, the generated counter at most the number of sending calls, the token is kept,
                                     one result is logged per call, `generate_payload_packet` returned `Ok`,
                                     `Err(PayloadAboveLimit)` or `Err(ClientNotConnected)` and `disconnect` returned `Ok`;
        `gen_trace_total_of_read`    the same from token BYTES `ConnectToken::read` accepts: the generated `new` succeeds too;
        `gen_run_total`              the same from any generated state related to a model client satisfying the invariants;
    (3) `initU_eq_init` / `execU_eq_exec`   generated `new(ct, Unsecure { protocol_id, client_id, server_addr, user_data })` with the
                                     four explicit random values IS the generated `new(ct, Secure { tok })` for the token
                                     `ConnectToken::generate` makes of them (same result, same struct), so every `GNcC`
                                     theorem holds from that start:
        `gen_trace_total_unsecure`, `payloads_at_most_once_unsecure`, `client_nonces_strict_from_new_unsecure`.
-/
import RenetVerif.Props.SrcPropsNcClientTrace
import RenetVerif.Props.C07C
set_option linter.unusedSimpArgs false
set_option linter.unusedVariables false
namespace RenetVerif.SrcPropsNcClientTotal
open RenetVerif RenetVerif.SrcEquiv RenetVerif.RustSem RenetVerif.Netcode RenetVerif.Netcode.Packet
open RenetVerif.SrcNcClientSystem RenetVerif.SrcNcClientSeal RenetVerif.NcAead RenetVerif.NcClientTrace
open RenetVerif.SrcPropsNcClientHistory RenetVerif.NcClientTotal

/-! ## the head room of a generated trace -/

/-- the clock step of a call -/
def gdur : CliOp → Nat
  | .update d => d
  | _ => 0

/-- the calls that may advance the packet counter -/
def gsends : CliOp → Nat
  | .update _ => 1
  | .sendPayload _ => 1
  | _ => 0

def gTotalDur (ops : List CliOp) : Nat := (ops.map gdur).sum
def gTotalSends (ops : List CliOp) : Nat := (ops.map gsends).sum

@[simp] theorem gTotalDur_cons (op : CliOp) (ops : List CliOp) : gTotalDur (op :: ops) = gdur op + gTotalDur ops := by
  simp [gTotalDur]
@[simp] theorem gTotalSends_cons (op : CliOp) (ops : List CliOp) : gTotalSends (op :: ops) = gsends op + gTotalSends ops := by
  simp [gTotalSends]

/-- **the head room of a generated trace started at clock `now`, counter `seq`, with a token of timeout `tmoNs` nanoseconds**
    (decidable): `now + Σ d + timeout ≤ Duration::MAX` and `seq + #(update | generate_payload_packet calls) ≤ u64::MAX` -/
def GHeadRoom (now seq tmoNs : Nat) (ops : List CliOp) : Prop :=
  now + gTotalDur ops + tmoNs ≤ DURATION_MAX ∧ seq + gTotalSends ops ≤ U64_MAX

instance (now seq tmoNs : Nat) (ops : List CliOp) : Decidable (GHeadRoom now seq tmoNs ops) := by
  unfold GHeadRoom; infer_instance

/-- the timeout of a token as a duration (`Duration::from_secs(timeout_seconds as u64)` where it is read: only when positive) -/
def tokTmo (tok : Netcode.ConnectToken) : Nat := fromSecs tok.timeoutSeconds.toNat

/-- **the documented results** of the generated calls, as far as they can be read off the result alone:
    `generate_payload_packet` returns `Ok`, `Err(PayloadAboveLimit)` or `Err(ClientNotConnected)`; `disconnect` returns `Ok` -/
def GDoc : GCOut → Prop
  | .payloadErr e => e = .PayloadAboveLimit ∨ e = .ClientNotConnected
  | .disconnectErr _ => False
  | _ => True

instance (o : GCOut) : Decidable (GDoc o) := by cases o <;> unfold GDoc <;> infer_instance

/-! ## the model system `MNcC` inside the head room -/

def toC : CliOp → Cl.COp
  | .update d => .update d
  | .packet b => .recv b
  | .sendPayload p => .send p
  | .disconnect => .disconnect

def toM : Out → MCOut
  | .sent o => .sent o
  | .received p => .received p
  | .payload r => .payload r
  | .payloadErr e => .payloadErr e
  | .disconnected r => .disconnected r
  | .disconnectErr e => .disconnectErr e

theorem dur_toC (op : CliOp) : dur (toC op) = gdur op := by cases op <;> rfl
theorem sends_toC (op : CliOp) : sends (toC op) = gsends op := by cases op <;> rfl

/-- the model step of `SrcNcClientSystem` is the step of `Lemmas/NcClientTotal.lean` -/
theorem mcstep_tstep (a : AEAD) (c : Netcode.NetcodeClient) (op : CliOp) :
    mcstep a c op = (tstep a c (toC op)).map (fun x => (toM x.1, x.2)) := by
  cases op with
  | update d =>
    simp only [mcstep, tstep, toC]
    cases c.update a d with
    | ok x => rfl
    | err e => exact nomatch e
    | panic m => rfl
  | packet buf =>
    simp only [mcstep, tstep, toC]
    cases c.processPacket a buf with
    | ok x => rfl
    | err e => exact nomatch e
    | panic m => rfl
  | sendPayload p =>
    simp only [mcstep, tstep, toC]
    cases c.generatePayloadPacket a p with
    | ok x => rfl
    | err e => rfl
    | panic m => rfl
  | disconnect =>
    simp only [mcstep, tstep, toC]
    cases (c.disconnect a).1 with
    | ok x => rfl
    | err e => rfl
    | panic m => rfl

theorem gdoc_of_documented {a : AEAD} {c : Netcode.NetcodeClient} {op : Cl.COp} {o : Out} (h : Documented a c op o) :
    GDoc (reprMCOut (toM o)) := by
  cases op <;> cases o <;> simp only [Documented] at h <;> simp only [toM, reprMCOut, GDoc]
  · rcases h with ⟨-, rfl⟩ | ⟨-, -, rfl⟩
    · exact Or.inl rfl
    · exact Or.inr rfl

/-- one model operation inside the head room -/
theorem mstep_total (a : AEAD) {m : MNcC} (op : CliOp) (hinv : CTInv m.cli)
    (ht : m.cli.currentTime + gdur op + tmo m.cli ≤ DURATION_MAX)
    (hseq : m.cli.sequence + gsends op ≤ U64_MAX) :
    ∃ m' r, m.step a op = some m' ∧ m'.outs = m.outs ++ [r] ∧ GDoc (reprMCOut r) ∧ CTInv m'.cli ∧
      m'.cli.currentTime = m.cli.currentTime + gdur op ∧ m.cli.sequence ≤ m'.cli.sequence ∧
      m'.cli.sequence ≤ m.cli.sequence + gsends op ∧ m'.cli.connectToken = m.cli.connectToken := by
  obtain ⟨o, c', hs, hdoc, hi, h1, h2, h3, h4⟩ :=
    tstep_total a (toC op) hinv (by rw [dur_toC]; exact ht) (by rw [sends_toC]; exact hseq)
  rw [dur_toC] at h1
  rw [sends_toC] at h3
  refine ⟨⟨c', m.outs ++ [toM o]⟩, toM o, ?_, rfl, gdoc_of_documented hdoc, hi, h1, h2, h3, h4⟩
  unfold MNcC.step
  rw [mcstep_tstep, hs]
  rfl

/-- **the model system inside the head room runs to its end** -/
theorem mrun_total (a : AEAD) : ∀ (ops : List CliOp) (m : MNcC), CTInv m.cli →
    GHeadRoom m.cli.currentTime m.cli.sequence (tmo m.cli) ops →
    ∃ m' rs, m.run a ops = some m' ∧ m'.outs = m.outs ++ rs ∧ rs.length = ops.length ∧ (∀ r ∈ rs, GDoc (reprMCOut r)) ∧
      CTInv m'.cli ∧ m'.cli.currentTime = m.cli.currentTime + gTotalDur ops ∧ m.cli.sequence ≤ m'.cli.sequence ∧
      m'.cli.sequence ≤ m.cli.sequence + gTotalSends ops ∧ m'.cli.connectToken = m.cli.connectToken := by
  intro ops
  induction ops with
  | nil =>
    intro m hinv _
    exact ⟨m, [], rfl, (List.append_nil _).symm, rfl, (fun r hr => nomatch hr), hinv, rfl, Nat.le_refl _, Nat.le_refl _, rfl⟩
  | cons op ops ih =>
    intro m hinv hr
    obtain ⟨hr1, hr2⟩ := hr
    rw [gTotalDur_cons] at hr1
    rw [gTotalSends_cons] at hr2
    obtain ⟨m1, r, hs, ho, hd, hi1, t1, s1, s2, k1⟩ := mstep_total a op hinv (by omega) (by omega)
    have hk : tmo m1.cli = tmo m.cli := by unfold tmo; rw [k1]
    obtain ⟨m', rs, hrun, ho', hl, hds, hi', t', s1', s2', k'⟩ := ih m1 hi1 ⟨by omega, by omega⟩
    refine ⟨m', r :: rs, by simp only [MNcC.run, hs, hrun], by rw [ho', ho, List.append_assoc]; rfl,
      by simp only [List.length_cons, hl], ?_, hi', by rw [gTotalDur_cons]; omega, by omega,
      by rw [gTotalSends_cons]; omega, by rw [k', k1]⟩
    intro x hx
    rcases List.mem_cons.mp hx with rfl | hx
    · exact hd
    · exact hds x hx

/-! ## (2) generated runs -/

/-- **no generated call of a trace inside the head room panics — from any pair of related states**: the generated state `g`
    represents the model client `m.cli` (`SimNcC`, e.g. by `crun_sim` / `gcreach_model`), which satisfies the invariant `CliInv`
    of the closed ties and the trace invariant `CTInv`; `ops` is ANY trace of `update(d)` / `process_packet(any bytes)` /
    `generate_payload_packet(p)` / `disconnect()` calls, in range and inside the head room read off the GENERATED clock and
    counter and the token's timeout.  Then the generated run reaches its end; the generated clock advanced by exactly `Σ d`, the generated counter by at
    most the number of sending calls, the generated token is unchanged, one result per call was logged and each is documented;
    the end state is again related to a model client satisfying both invariants. -/
theorem gen_run_total {a : AEAD} (hl : a.Laws) {m : MNcC} {g : GNcC} (hi : CliInv m.cli) (hct : CTInv m.cli)
    (hsim : SimNcC m g) {ops : List CliOp} (hr : CliOpsInRange ops)
    (hh : GHeadRoom g.cli.current_time g.cli.sequence (tokTmo m.cli.connectToken) ops) :
    ∃ g', g.run a ops = some g' ∧
      g'.cli.current_time = g.cli.current_time + gTotalDur ops ∧
      g.cli.sequence ≤ g'.cli.sequence ∧ g'.cli.sequence ≤ g.cli.sequence + gTotalSends ops ∧
      g'.cli.connect_token = g.cli.connect_token ∧
      (∃ rs, g'.outs = g.outs ++ rs ∧ rs.length = ops.length ∧ ∀ r ∈ rs, GDoc r) ∧
      ∃ m', SimNcC m' g' ∧ CliInv m'.cli ∧ CTInv m'.cli := by
  obtain ⟨out, hout, hs⟩ := hsim.cli
  have hh' : GHeadRoom m.cli.currentTime m.cli.sequence (tmo m.cli) ops := by rw [hs] at hh; exact hh
  obtain ⟨m', rs, hrun, ho, hlen, hd, hi', t', s1, s2, k'⟩ := mrun_total a ops m hct hh'
  obtain ⟨g', hg, hsim'⟩ := crun_sim_of a hl ops hi hsim hr hrun
  obtain ⟨out', hout', hs'⟩ := hsim'.cli
  refine ⟨g', hg, ?_, ?_, ?_, ?_, ⟨rs.map reprMCOut, ?_, by rw [List.length_map, hlen], ?_⟩, m', hsim', inv_mrun ops hi hrun, hi'⟩
  · rw [hs, hs']; exact t'
  · rw [hs, hs']; exact s1
  · rw [hs, hs']; exact s2
  · rw [hs, hs']
    show reprTok m'.cli.connectToken = reprTok m.cli.connectToken
    rw [k']
  · rw [hsim'.outs, hsim.outs, ho, List.map_append]
  · intro r hr
    obtain ⟨x, hx, rfl⟩ := List.mem_map.mp hr
    exact hd x hx

/-- the generated constructor returned `Ok` only if the model's did, with the related model start -/
theorem init_split {a : AEAD} {ct : Nat} {tok : Netcode.ConnectToken} {r1 r2 r3 r4 : List Nat} {g0 : GNcC}
    (h0 : GNcC.init a ct tok r1 r2 r3 r4 = some g0) :
    ∃ m0, MNcC.init ct tok = some m0 ∧ SimNcC m0 g0 ∧ Netcode.NetcodeClient.new ct tok = .ok m0.cli ∧ g0.outs = [] := by
  have h := cinit_sim a ct tok r1 r2 r3 r4
  cases hm : MNcC.init ct tok with
  | none => rw [hm] at h; rw [h0] at h; cases h
  | some m0 =>
    rw [hm] at h
    obtain ⟨g0', e, hsim⟩ := h
    rw [h0] at e; cases e
    refine ⟨m0, rfl, hsim, ?_, ?_⟩
    · unfold MNcC.init at hm
      split at hm
      · rename_i c hc; cases hm; exact hc
      · cases hm
    · unfold GNcC.init at h0
      split at h0
      · cases h0; rfl
      · cases h0

/-- **`gen_trace_total`: no generated call of a trace in range panics, from the generated `NetcodeClient::new`.**
    Hypotheses (all decidable on concrete data): the generated `new(ct, Secure { tok }, ..)` returned `Ok` (`GNcC.init … = some _`);
    the token has its 32 address slots and an `i32` timeout (what `ConnectToken::read` guarantees, `gen_trace_total_of_read`);
    the datagrams handed to `process_packet` are shorter than `2^64 - 16` bytes — otherwise ARBITRARY; the head room
    `ct + Σ d + timeout ≤ Duration::MAX` (the token's own `timeout_seconds`) and
    `#(update | generate_payload_packet calls) ≤ u64::MAX`.
    Then the generated execution reaches its end: no generated `update` / `process_packet` / `generate_payload_packet` /
    `disconnect` call panicked; the generated clock is `ct + Σ d`, the generated counter at most the number of sending calls, the
    generated struct holds the token, one result was logged per call, and `generate_payload_packet` returned only `Ok`,
    `Err(PayloadAboveLimit)`, `Err(ClientNotConnected)`, `disconnect` only `Ok`. -/
theorem gen_trace_total {a : AEAD} (hl : a.Laws) {ct : Nat} {tok : Netcode.ConnectToken} {r1 r2 r3 r4 : List Nat} {g0 : GNcC}
    (h0 : GNcC.init a ct tok r1 r2 r3 r4 = some g0)
    (hlen : Netcode.C.NETCODE_TOKEN_MAX_ADDRESSES ≤ tok.serverAddresses.length) {ops : List CliOp} (hr : CliInRange tok ops)
    (hh : GHeadRoom ct 0 (tokTmo tok) ops) :
    ∃ g, GNcC.exec a ct tok r1 r2 r3 r4 ops = some g ∧
      g.cli.current_time = ct + gTotalDur ops ∧ g.cli.sequence ≤ gTotalSends ops ∧ g.cli.connect_token = reprTok tok ∧
      g.outs.length = ops.length ∧ (∀ r ∈ g.outs, GDoc r) ∧ GCReach a g := by
  obtain ⟨m0, hm0, hsim0, hnew, hout0⟩ := init_split h0
  obtain ⟨hct, t0, s0, k0⟩ := ctinv_new_of hlen hr.1 hnew
  obtain ⟨out, hout, hs⟩ := hsim0.cli
  have hh0 : GHeadRoom g0.cli.current_time g0.cli.sequence (tokTmo m0.cli.connectToken) ops := by
    rw [hs]
    show GHeadRoom m0.cli.currentTime m0.cli.sequence (tokTmo m0.cli.connectToken) ops
    rw [t0, s0, k0]; exact hh
  obtain ⟨g, hg, h1, -, h3, h4, ⟨rs, h5, h6, h7⟩, -⟩ := gen_run_total hl (inv_minit hr.1 hm0) hct hsim0 hr.2 hh0
  have hexec : GNcC.exec a ct tok r1 r2 r3 r4 ops = some g := by
    unfold GNcC.exec; rw [h0]; exact hg
  rw [hs] at h1 h3 h4
  refine ⟨g, hexec, ?_, ?_, ?_, ?_, ?_, .exec hr hexec⟩
  · rw [h1]; show m0.cli.currentTime + _ = _; rw [t0]
  · have : g.cli.sequence ≤ m0.cli.sequence + gTotalSends ops := h3
    rw [s0, Nat.zero_add] at this; exact this
  · rw [h4]; show reprTok m0.cli.connectToken = _; rw [k0]
  · rw [h5, hout0, List.nil_append, h6]
  · intro r hr'
    rw [h5, hout0, List.nil_append] at hr'
    exact h7 r hr'

/-- **… from token BYTES**: for a token `ConnectToken::read` accepts, the generated `new` returns `Ok` as well — the whole generated
    execution `new; ops` exists for every trace in range inside the head room -/
theorem gen_trace_total_of_read {a : AEAD} (hl : a.Laws) {src : Bytes} {tok : Netcode.ConnectToken}
    (hread : Netcode.ConnectToken.read src = .ok tok) (ct : Nat) (r1 r2 r3 r4 : List Nat) {ops : List CliOp}
    (hr : CliOpsInRange ops) (hh : GHeadRoom ct 0 (tokTmo tok) ops) :
    ∃ g, GNcC.exec a ct tok r1 r2 r3 r4 ops = some g ∧
      g.cli.current_time = ct + gTotalDur ops ∧ g.cli.sequence ≤ gTotalSends ops ∧ g.cli.connect_token = reprTok tok ∧
      g.outs.length = ops.length ∧ (∀ r ∈ g.outs, GDoc r) ∧ GCReach a g := by
  obtain ⟨c, hc, hinv, -, -, hk⟩ := C07C.client_new_ctinv hread ct
  have h := cinit_sim a ct tok r1 r2 r3 r4
  have hm : MNcC.init ct tok = some ⟨c, []⟩ := by unfold MNcC.init; rw [hc]
  rw [hm] at h
  obtain ⟨g0, h0, -⟩ := h
  have ha := hinv.cinv.addrs
  have hto := hinv.cinv.timeout
  rw [hk] at ha hto
  exact gen_trace_total hl h0 ha ⟨hto, hr⟩ hh

/-! ## (3) `NetcodeClient::new` with `ClientAuthentication::Unsecure` as a start of `GNcC` -/

/-- generated `NetcodeClient::new(ct, ClientAuthentication::Unsecure { protocol_id, client_id, server_addr, user_data }, r1..r4)`;
    `r1..r4`: the four random values the Rust code draws (client-to-server key, server-to-client key, user data when none is
    given, nonce), explicit parameters of the generated function -/
def GNcC.initU (a : AEAD) (ct pid cid : Nat) (addr : Addr) (ud : Option Bytes) (r1 r2 r3 r4 : Bytes) : Option GNcC :=
  match @Src.renetcode.client.NetcodeClient.new (aeadOf a) ct (.Unsecure pid cid (reprAddr addr) (ud.map toNats))
      (toNats r1) (toNats r2) (toNats r3) (toNats r4) with
  | .ok c => some { cli := c, outs := [] }
  | _ => none

/-- the whole generated execution from the `Unsecure` constructor -/
def GNcC.execU (a : AEAD) (ct pid cid : Nat) (addr : Addr) (ud : Option Bytes) (r1 r2 r3 r4 : Bytes) (ops : List CliOp) :
    Option GNcC :=
  match GNcC.initU a ct pid cid addr ud r1 r2 r3 r4 with
  | some g => g.run a ops
  | none => none

/-- the token the `Unsecure` constructor generates: 300 s to expiry, timeout 15 s, the one server address, the all-zero key -/
def unsecureToken (a : AEAD) (ct pid cid : Nat) (addr : Addr) (ud : Option Bytes) (r1 r2 r3 r4 : Bytes) :
    Res TokenGenErr Netcode.ConnectToken :=
  Netcode.ConnectToken.generate a ct pid 300 cid 15 [addr] (ud.getD r3) r1 r2 r4 (List.replicate Netcode.C.NETCODE_KEY_BYTES 0)

/-- a constructor result as a start of `GNcC` -/
def ofNew : Res SNErr SNetcodeClient → Option GNcC
  | .ok c => some { cli := c, outs := [] }
  | _ => none

theorem so_mapRes_init {X Y : Res SNErr SNetcodeClient} {R : NRes Netcode.NetcodeClient} {f : Netcode.NetcodeClient → SNetcodeClient}
    (hx : SameOutcome X (mapRes f reprNErr R)) (hy : SameOutcome Y (mapRes f reprNErr R)) : ofNew X = ofNew Y := by
  cases hR : R with
  | ok c => rw [so_ok hx hR, so_ok hy hR]
  | err e => rw [so_err hx hR, so_err hy hR]
  | panic m =>
    obtain ⟨m1, e1⟩ := so_panic hx hR
    obtain ⟨m2, e2⟩ := so_panic hy hR
    rw [e1, e2]
    rfl

/-- **the `Unsecure` constructor is the `Secure` constructor on the generated token**: same `Ok` struct, or both fail -/
theorem initU_eq_init (a : AEAD) {ct pid cid : Nat} {addr : Addr} {ud : Option Bytes} {r1 r2 r3 r4 : Bytes}
    {tok : Netcode.ConnectToken} (hgen : unsecureToken a ct pid cid addr ud r1 r2 r3 r4 = .ok tok) (s1 s2 s3 s4 : List Nat) :
    GNcC.initU a ct pid cid addr ud r1 r2 r3 r4 = GNcC.init a ct tok s1 s2 s3 s4 := by
  have tu := SrcTie.nc_client_new_unsecure a ct pid cid addr ud r1 r2 r3 r4
  unfold unsecureToken at hgen
  rw [hgen] at tu
  dsimp only at tu
  have := so_mapRes_init tu (SrcTie.nc_client_new_secure a ct tok s1 s2 s3 s4)
  exact this

theorem execU_eq_exec (a : AEAD) {ct pid cid : Nat} {addr : Addr} {ud : Option Bytes} {r1 r2 r3 r4 : Bytes}
    {tok : Netcode.ConnectToken} (hgen : unsecureToken a ct pid cid addr ud r1 r2 r3 r4 = .ok tok) (s1 s2 s3 s4 : List Nat)
    (ops : List CliOp) :
    GNcC.execU a ct pid cid addr ud r1 r2 r3 r4 ops = GNcC.exec a ct tok s1 s2 s3 s4 ops := by
  unfold GNcC.execU GNcC.exec
  rw [initU_eq_init a hgen s1 s2 s3 s4]
  rfl

/-- the shape of the generated token: the server address in the first of 32 slots, timeout 15 s, the drawn keys -/
theorem unsecureToken_shape {a : AEAD} {ct pid cid : Nat} {addr : Addr} {ud : Option Bytes} {r1 r2 r3 r4 : Bytes}
    {tok : Netcode.ConnectToken} (hgen : unsecureToken a ct pid cid addr ud r1 r2 r3 r4 = .ok tok) :
    tok.serverAddresses = some addr :: List.replicate 31 none ∧ tok.timeoutSeconds = 15 ∧ tok.protocolId = pid ∧
      tok.clientId = cid ∧ tok.clientToServerKey = r1 ∧ tok.serverToClientKey = r2 := by
  unfold unsecureToken Netcode.ConnectToken.generate at hgen
  simp only at hgen
  split at hgen
  · cases hgen
  · have hp : Netcode.PrivateConnectToken.generate cid 15 [addr] (ud.getD r3) r1 r2 =
        .ok { clientId := cid, timeoutSeconds := 15, serverAddresses := some addr :: List.replicate 31 none,
              clientToServerKey := r1, serverToClientKey := r2, userData := ud.getD r3 } := rfl
    rw [hp] at hgen
    simp only [Res.bind_ok] at hgen
    rw [Res.bind_eq_ok] at hgen
    obtain ⟨pd, -, hgen⟩ := hgen
    cases hgen
    exact ⟨rfl, rfl, rfl, rfl, rfl, rfl⟩

/-- the generated `Unsecure` constructor returns `Ok` whenever token generation does -/
theorem initU_isSome (a : AEAD) {ct pid cid : Nat} {addr : Addr} {ud : Option Bytes} {r1 r2 r3 r4 : Bytes}
    {tok : Netcode.ConnectToken} (hgen : unsecureToken a ct pid cid addr ud r1 r2 r3 r4 = .ok tok) :
    ∃ g0, GNcC.initU a ct pid cid addr ud r1 r2 r3 r4 = some g0 := by
  obtain ⟨hsa, -⟩ := unsecureToken_shape hgen
  rw [initU_eq_init a hgen [] [] [] []]
  have h := cinit_sim a ct tok [] [] [] []
  have hm : ∃ m0, MNcC.init ct tok = some m0 := by
    unfold MNcC.init Netcode.NetcodeClient.new
    rw [hsa]
    exact ⟨_, rfl⟩
  obtain ⟨m0, hm⟩ := hm
  rw [hm] at h
  obtain ⟨g0, e, -⟩ := h
  exact ⟨g0, e⟩

/-- **`gen_trace_total` from the `Unsecure` constructor**: token generation from the four random values succeeded (always, for
    values of the sizes the Rust code draws and a clock below `u64::MAX - 300` s); the datagrams are shorter than `2^64 - 16`
    bytes; the head room with the constructor's fixed timeout of 15 s.  Then the generated `new(ct, Unsecure { .. })` returns `Ok` and NO generated call of the trace panics;
    clock, counter and results as in `gen_trace_total`. -/
theorem gen_trace_total_unsecure {a : AEAD} (hl : a.Laws) {ct pid cid : Nat} {addr : Addr} {ud : Option Bytes}
    {r1 r2 r3 r4 : Bytes} {tok : Netcode.ConnectToken} (hgen : unsecureToken a ct pid cid addr ud r1 r2 r3 r4 = .ok tok)
    {ops : List CliOp} (hr : CliOpsInRange ops) (hh : GHeadRoom ct 0 (fromSecs 15) ops) :
    ∃ g, GNcC.execU a ct pid cid addr ud r1 r2 r3 r4 ops = some g ∧
      g.cli.current_time = ct + gTotalDur ops ∧ g.cli.sequence ≤ gTotalSends ops ∧ g.cli.connect_token = reprTok tok ∧
      g.outs.length = ops.length ∧ (∀ r ∈ g.outs, GDoc r) := by
  obtain ⟨hsa, hto, -⟩ := unsecureToken_shape hgen
  obtain ⟨g0, h0⟩ := initU_isSome a hgen
  rw [initU_eq_init a hgen [] [] [] []] at h0
  obtain ⟨g, hg, h1, h2, h3, h4, h5, -⟩ := gen_trace_total hl h0 (by rw [hsa, List.length_cons, List.length_replicate]; decide)
    ⟨by rw [hto]; decide, hr⟩ (by unfold tokTmo; rw [hto]; exact hh)
  exact ⟨g, by rw [execU_eq_exec a hgen [] [] [] []]; exact hg, h1, h2, h3, h4, h5⟩

/-- **`payloads_at_most_once` (round 20) from the `Unsecure` constructor** -/
theorem payloads_at_most_once_unsecure {a : AEAD} (hl : a.Laws) {ct pid cid : Nat} {addr : Addr} {ud : Option Bytes}
    {r1 r2 r3 r4 : Bytes} {tok : Netcode.ConnectToken} (hgen : unsecureToken a ct pid cid addr ud r1 r2 r3 r4 = .ok tok)
    {ops : List CliOp} {g : GNcC} (hr : CliOpsInRange ops) (hg : GNcC.execU a ct pid cid addr ud r1 r2 r3 r4 ops = some g) :
    (SrcPropsNcClientTrace.gsurfSeqs (gsurf ops g.outs)).Nodup ∧
    (∀ x ∈ gsurf ops g.outs, x.1 ∈ gBufs ops ∧ ∃ p, x.2 = toNats p ∧ SealedOpen a x.1 pid r2 .payload p) ∧
    g.cli.connect_token = reprTok tok ∧
    g.cli.replay_protection = reprRP (Recv.run a pid r2 (gBufs ops)).window ∧
    (∀ s ∈ SrcPropsNcClientTrace.gsurfSeqs (gsurf ops g.outs),
      (Src.renetcode.replay_protection.ReplayProtection.already_received g.cli.replay_protection s : Res Empty Bool)
        = .ok true) := by
  obtain ⟨-, hto, hp, -, -, hk⟩ := unsecureToken_shape hgen
  rw [execU_eq_exec a hgen [] [] [] []] at hg
  obtain ⟨p1, p2, p3, p4, -, p6⟩ := SrcPropsNcClientTrace.payloads_at_most_once hl ⟨by rw [hto]; decide, hr⟩ hg
  rw [hp, hk] at p2 p4
  exact ⟨p1, p2, p3, p4, p6⟩

/-- **`client_nonces_strict_from_new` (round 20) from the `Unsecure` constructor**: the counter starts at 0; every datagram the
    generated client seals in the run is under the drawn client-to-server key `r1`, with strictly increasing sequence numbers (a
    repeated `Disconnect` datagram aside) -/
theorem client_nonces_strict_from_new_unsecure {a : AEAD} (hl : a.Laws) {ct pid cid : Nat} {addr : Addr} {ud : Option Bytes}
    {r1 r2 r3 r4 : Bytes} {tok : Netcode.ConnectToken} (hgen : unsecureToken a ct pid cid addr ud r1 r2 r3 r4 = .ok tok)
    {ops : List CliOp} {g : GNcC} (hr : CliOpsInRange ops) (hg : GNcC.execU a ct pid cid addr ud r1 r2 r3 r4 ops = some g) :
    ∃ g0, GNcC.initU a ct pid cid addr ud r1 r2 r3 r4 = some g0 ∧ g0.cli.sequence = 0 ∧
      (∀ e ∈ gclog a g0 ops, e.key = toNats r1) ∧
      (gclog a g0 ops).Pairwise (fun e e' => e.seq < e'.seq ∨ e' = e) ∧
      (∀ e ∈ gclog a g0 ops, ∀ e' ∈ gclog a g0 ops, e.seq = e'.seq → e = e') := by
  obtain ⟨-, hto, -, -, hk, -⟩ := unsecureToken_shape hgen
  rw [execU_eq_exec a hgen [] [] [] []] at hg
  obtain ⟨g0, h0, n0, n1, n2, n3, -⟩ :=
    SrcPropsNcClientTrace.client_nonces_strict_from_new hl ⟨by rw [hto]; decide, hr⟩ hg
  rw [hk] at n1
  exact ⟨g0, by rw [initU_eq_init a hgen [] [] [] []]; exact h0, n0, n1, n2, n3⟩

/-! ## non-vacuity: concrete generated client runs (world of `Lemmas/NcExamples.lean`, AEAD `Ex.a` with `C18V.a_laws`),
    evaluated by the kernel on the generated code -/
section Examples
open NS.Ex

/-- the trace of `Props/C07C.lean` as operations of the generated system: the handshake and session of `Props/C04C.lean`
    (payloads, a replay, a forgery, an outgoing payload, `disconnect`), then hostile input, an over-long payload, a send while
    disconnected, a clock step of 10^9 s, a second `disconnect` -/
def gOps : List CliOp :=
  SrcPropsNcClientTrace.exOps ++ [.packet [], .packet (List.replicate 1500 255), .sendPayload (List.replicate 1301 0),
    .sendPayload [2], .update (10 ^ 18), .disconnect]

example : gOps.map toC = C07C.exOps := rfl

theorem gOps_inRange : CliInRange tokenA gOps := by decide +kernel
theorem gOps_headRoom : GHeadRoom 0 0 (tokTmo tokenA) gOps := by decide +kernel
theorem gOps_headRoomU : GHeadRoom 0 0 (fromSecs 15) gOps := by decide +kernel

set_option maxRecDepth 100000 in
/-- the generated `new(0, Secure { tokenA })` returns `Ok` (kernel evaluation of the generated constructor) -/
theorem ex_init : (GNcC.init NS.Ex.a 0 tokenA [] [] [] []).isSome = true := by decide +kernel

/-- **`gen_trace_total` on that generated run**: by the theorem — not by evaluation — no generated call panics -/
example : ∃ g, GNcC.exec NS.Ex.a 0 tokenA [] [] [] [] gOps = some g ∧ g.cli.current_time = 250000000 + 1000 + 10 ^ 18 ∧
    g.cli.sequence ≤ 7 ∧ g.cli.connect_token = reprTok tokenA ∧ g.outs.length = 21 ∧ ∀ r ∈ g.outs, GDoc r := by
  cases h0 : GNcC.init NS.Ex.a 0 tokenA [] [] [] [] with
  | none => have := ex_init; rw [h0] at this; cases this
  | some g0 =>
    obtain ⟨g, h1, h2, h3, h4, h5, h6, -⟩ := gen_trace_total C18V.a_laws h0 (by decide) gOps_inRange gOps_headRoom
    refine ⟨g, h1, ?_, Nat.le_trans h3 (by decide +kernel), h4, ?_, h6⟩
    · rw [h2]; decide +kernel
    · rw [h5]; decide +kernel

set_option maxRecDepth 100000 in
/-- **the same run, evaluated by the kernel on the generated code** (agrees with the theorem and with the model run
    `C07C.ex_run`): request 1078 bytes, response 326, three payloads surfaced, the outgoing payload (19 bytes), the Disconnect
    datagram (18 bytes), nothing for the hostile datagrams, the two documented errors, a second Disconnect datagram; the generated
    clock and counter -/
theorem ex_gen_run : (GNcC.exec NS.Ex.a 0 tokenA [] [] [] [] gOps).map
      (fun g => (g.outs.map shapeC, g.cli.current_time, g.cli.sequence)) =
    some ([("sent", 1078), ("received", 0), ("sent", 326), ("received", 0),
      ("received", 3), ("received", 2), ("received", 0), ("received", 0), ("received", 0), ("payload", 19), ("sent", 0),
      ("received", 4), ("received", 0), ("disconnected", 18), ("received", 0),
      ("received", 0), ("received", 0), ("payloadErr", 0), ("payloadErr", 0), ("sent", 0),
      ("disconnected", 18)], 250000000 + 1000 + 10 ^ 18, 3) := by decide +kernel

/-- `gen_trace_total_of_read` on the token BYTES (`C07C.tokenA_read`): the generated `new` and the whole trace, any random values -/
example (r1 r2 r3 r4 : List Nat) : ∃ g, GNcC.exec NS.Ex.a 0 tokenA r1 r2 r3 r4 gOps = some g ∧ g.outs.length = gOps.length :=
  let ⟨g, h1, _, _, _, h5, _⟩ := gen_trace_total_of_read C18V.a_laws C07C.tokenA_read 0 r1 r2 r3 r4 gOps_inRange.2 gOps_headRoom
  ⟨g, h1, h5⟩

/-- `gen_run_total` continued after that run (a state reached by a generated run is related to a model client with both
    invariants): ANY further datagrams and 1000 more clock steps of one second do not unwind either -/
example (bufs : List Bytes) (hb : ∀ b ∈ bufs, b.length + 16 < 2 ^ 64) :
    ∃ g, GNcC.exec NS.Ex.a 0 tokenA [] [] [] [] (gOps ++ bufs.map .packet) = some g := by
  cases h0 : GNcC.init NS.Ex.a 0 tokenA [] [] [] [] with
  | none => have := ex_init; rw [h0] at this; cases this
  | some g0 =>
    obtain ⟨g, h1, -, -, -, -, -, hreach⟩ := gen_trace_total C18V.a_laws h0 (by decide) gOps_inRange gOps_headRoom
    obtain ⟨g', e', -⟩ := packets_total C18V.a_laws bufs hreach hb
    exact ⟨g', by rw [exec_append h1]; exact e'⟩

/-! the excluded points panic on the generated code as well -/

/-- the generated client after the handshake -/
def gConn : Option GNcC := GNcC.exec NS.Ex.a 0 tokenA [] [] [] [] hsCli

set_option maxRecDepth 100000 in
/-- generated `update` past `Duration::MAX` panics, up to `Duration::MAX` it returns (the last datagram came long ago: the client
    times out); generated `generate_payload_packet` / `update` with the counter at `u64::MAX` panic, the generated `disconnect`
    does not, and one below `u64::MAX` `generate_payload_packet` returns (kernel evaluation of the generated code) -/
theorem ex_gen_excluded :
    gConn.map (fun g => ((g.step NS.Ex.a (.update (DURATION_MAX - 250000000 + 1))).isSome,
      (g.step NS.Ex.a (.update (DURATION_MAX - 250000000))).isSome,
      (GNcC.step NS.Ex.a { g with cli := { g.cli with sequence := U64_MAX } } (.sendPayload [1])).isSome,
      (GNcC.step NS.Ex.a { g with cli := { g.cli with sequence := U64_MAX } } (.update (10 ^ 9))).isSome,
      (GNcC.step NS.Ex.a { g with cli := { g.cli with sequence := U64_MAX } } .disconnect).isSome,
      (GNcC.step NS.Ex.a { g with cli := { g.cli with sequence := U64_MAX - 1 } } (.sendPayload [1])).isSome)) =
    some (false, true, false, false, true, true) := by decide +kernel

/-- the generated client with clock and last receive time `room` below `Duration::MAX` -/
def gLate (g : GNcC) (room : Nat) : GNcC :=
  { g with cli := { g.cli with current_time := DURATION_MAX - room, last_packet_received_time := DURATION_MAX - room } }

set_option maxRecDepth 100000 in
/-- the clock bound is tight on the generated code too: one second below `Duration::MAX` with a datagram just received and a 5 s
    timeout the generated `update(0)` panics (`last_packet_received_time + timeout`); with exactly 5 s of room it returns -/
theorem ex_gen_deadline :
    gConn.map (fun g => (((gLate g (10 ^ 9)).step NS.Ex.a (.update 0)).isSome,
      ((gLate g (5 * 10 ^ 9)).step NS.Ex.a (.update 0)).isSome)) = some (false, true) := by decide +kernel

/-! ### the `Unsecure` start: `new(0, Unsecure { protocol_id: 42, client_id: 11, server_addr, user_data: None })` with the random
    values `kc2s`, `ks2c` (keys), `udA` (user data), `xnA` (nonce) -/

/-- the token the generated constructor makes of them -/
def tokU : ConnectToken := C07C.okOr tokenA (unsecureToken NS.Ex.a 0 42 11 srvAddr none kc2s ks2c udA xnA)

set_option maxRecDepth 100000 in
theorem tokU_gen : unsecureToken NS.Ex.a 0 42 11 srvAddr none kc2s ks2c udA xnA = .ok tokU := by decide +kernel

/-- it is not `tokenA` (300 s to expiry, timeout 15 s, sealed under the all-zero key) -/
example : tokU.expireTimestamp = 300 ∧ tokU.timeoutSeconds = 15 ∧ tokU ≠ tokenA := by decide +kernel

/-- `gen_trace_total_unsecure` on the trace: by the theorem, the generated `new(.., Unsecure ..)` returns `Ok` and no generated
    call panics -/
example : ∃ g, GNcC.execU NS.Ex.a 0 42 11 srvAddr none kc2s ks2c udA xnA gOps = some g ∧
    g.cli.current_time = 250000000 + 1000 + 10 ^ 18 ∧ g.cli.connect_token = reprTok tokU ∧ g.outs.length = 21 ∧
    ∀ r ∈ g.outs, GDoc r := by
  obtain ⟨g, h1, h2, -, h4, h5, h6⟩ := gen_trace_total_unsecure C18V.a_laws tokU_gen gOps_inRange.2 gOps_headRoomU
  refine ⟨g, h1, ?_, h4, ?_, h6⟩
  · rw [h2]; decide +kernel
  · rw [h5]; decide +kernel

set_option maxRecDepth 100000 in
/-- **the run from the generated `Unsecure` constructor, evaluated by the kernel on the generated code**: the same handshake and
    session (the toy AEAD of this world does not bind the key), three payloads surfaced -/
theorem ex_gen_run_unsecure : (GNcC.execU NS.Ex.a 0 42 11 srvAddr none kc2s ks2c udA xnA gOps).map
      (fun g => (g.outs.map shapeC, g.cli.current_time, g.cli.sequence)) =
    some ([("sent", 1078), ("received", 0), ("sent", 326), ("received", 0),
      ("received", 3), ("received", 2), ("received", 0), ("received", 0), ("received", 0), ("payload", 19), ("sent", 0),
      ("received", 4), ("received", 0), ("disconnected", 18), ("received", 0),
      ("received", 0), ("received", 0), ("payloadErr", 0), ("payloadErr", 0), ("sent", 0),
      ("disconnected", 18)], 250000000 + 1000 + 10 ^ 18, 3) := by decide +kernel

set_option maxRecDepth 100000 in
theorem ex_gen_surf_unsecure : (GNcC.execU NS.Ex.a 0 42 11 srvAddr none kc2s ks2c udA xnA gOps).map
      (fun g => gsurf gOps g.outs) = some [(C04C.pl3, [9, 9]), (C04C.pl5, [5]), (C04C.pl4, [4, 4, 4])] := by decide +kernel

/-- `payloads_at_most_once_unsecure` and `client_nonces_strict_from_new_unsecure` on that run -/
example : ∃ g, GNcC.execU NS.Ex.a 0 42 11 srvAddr none kc2s ks2c udA xnA gOps = some g ∧
    (gsurf gOps g.outs).length = 3 ∧ (SrcPropsNcClientTrace.gsurfSeqs (gsurf gOps g.outs)).Nodup ∧
    g.cli.replay_protection = reprRP (Recv.run NS.Ex.a 42 ks2c (gBufs gOps)).window := by
  have h := ex_gen_surf_unsecure
  cases hg : GNcC.execU NS.Ex.a 0 42 11 srvAddr none kc2s ks2c udA xnA gOps with
  | none => rw [hg] at h; cases h
  | some g =>
    rw [hg] at h
    simp only [Option.map_some, Option.some.injEq] at h
    obtain ⟨p1, -, -, p4, -⟩ := payloads_at_most_once_unsecure C18V.a_laws tokU_gen gOps_inRange.2 hg
    exact ⟨g, rfl, by rw [h]; rfl, p1, p4⟩
example : ∃ g0, GNcC.initU NS.Ex.a 0 42 11 srvAddr none kc2s ks2c udA xnA = some g0 ∧ g0.cli.sequence = 0 ∧
    (∀ e ∈ gclog NS.Ex.a g0 gOps, e.key = toNats kc2s) ∧
    (gclog NS.Ex.a g0 gOps).Pairwise (fun e e' => e.seq < e'.seq ∨ e' = e) := by
  have h := ex_gen_run_unsecure
  cases hg : GNcC.execU NS.Ex.a 0 42 11 srvAddr none kc2s ks2c udA xnA gOps with
  | none => rw [hg] at h; cases h
  | some g =>
    obtain ⟨g0, h0, n0, n1, n2, -⟩ := client_nonces_strict_from_new_unsecure C18V.a_laws tokU_gen gOps_inRange.2 hg
    exact ⟨g0, h0, n0, n1, n2⟩

end Examples

end RenetVerif.SrcPropsNcClientTotal
