/-
  C13 (netcode half) — every datagram produced by the netcode layer for a payload of at most
  NETCODE_MAX_PAYLOAD_BYTES, or for its own handshake / keep-alive / disconnect packets, is at most
  NETCODE_MAX_PACKET_BYTES (1400) long.
  C16N (section at the end) — the netcode wire format round-trips: `decode (encode p) = p` for every packet kind.

  Proofs: Lemmas/NcWire.lean.  Layout of a sealed datagram (`sealedBytes`):
      prefix (1) ‖ sequence (1..8 little-endian bytes, as many as the value needs) ‖ seal(body) (|body| + 16)
  and of a connection request:  0x00 ‖ body (13 + 8 + 8 + 24 + 1024).
  All sizes use the AEAD length law `AEAD.Laws.seal_length` (ciphertext = plaintext + 16-byte tag).

  Two complementary statements:
    * `encode_fits_buffer`: whatever `Packet::encode` returns fits the buffer it was given; every call site of the
      netcode layer passes a buffer of NETCODE_MAX_PACKET_BYTES, hence the function-level bounds of section 2;
    * encoding *succeeds* for payloads up to NETCODE_MAX_PAYLOAD_BYTES (`payload_encodes`) and for every
      handshake packet (sizes of section 1), i.e. nothing is dropped for lack of room.
-/
import RenetVerif.Lemmas.NcWire
namespace RenetVerif.C13N
open RenetVerif RenetVerif.Netcode RenetVerif.Netcode.Packet

/-! ### side conditions on the constants -/
theorem max_payload_fits :
    1 + 8 + Netcode.C.NETCODE_MAX_PAYLOAD_BYTES + Netcode.C.NETCODE_MAC_BYTES ≤ Netcode.C.NETCODE_MAX_PACKET_BYTES := by decide
theorem request_fits : 1 + REQUEST_BODY ≤ Netcode.C.NETCODE_MAX_PACKET_BYTES := by decide
theorem challenge_fits :
    1 + 8 + (8 + Netcode.C.NETCODE_CHALLENGE_TOKEN_BYTES) + Netcode.C.NETCODE_MAC_BYTES ≤ Netcode.C.NETCODE_MAX_PACKET_BYTES := by
  decide
theorem mac_is_16 : Netcode.C.NETCODE_MAC_BYTES = 16 := by decide
theorem request_body_eq : REQUEST_BODY = 1077 := by decide

/-! ### 1. sizes by packet kind -/

/-- plaintext length of each kind (well-formed values: Rust's fixed-size arrays) -/
theorem body_length {p : Packet} (h : p.WF) :
    p.body.length = match p with
      | .connectionRequest .. => REQUEST_BODY
      | .challenge .. | .response .. => 8 + Netcode.C.NETCODE_CHALLENGE_TOKEN_BYTES
      | .keepAlive .. => 8
      | .payload b => b.length
      | .connectionDenied | .disconnect => 0 := by
  cases p with
  | connectionRequest v pid e x d =>
    obtain ⟨hv, _, _, hx, hd⟩ := h
    simp only [body, List.length_append, leBytes_length, hv, hx, hd, REQUEST_BODY]; omega
  | challenge s d => simp only [body, List.length_append, leBytes_length, h.2]
  | response s d => simp only [body, List.length_append, leBytes_length, h.2]
  | keepAlive i m => simp [body]
  | payload b => rfl
  | connectionDenied => rfl
  | disconnect => rfl

/-- a sealed datagram is exactly `1 + seqbytes + |body| + 16` long, `1 ≤ seqbytes ≤ 8` -/
theorem sealed_size (a : AEAD) (hl : a.Laws) (p : Packet) (proto seq : Nat) (key : Bytes) :
    (sealedBytes a p proto seq key).length = 1 + sequenceBytesRequired seq + p.body.length + 16 ∧
    1 ≤ sequenceBytesRequired seq ∧ sequenceBytesRequired seq ≤ 8 :=
  ⟨sealed_length a p proto seq key hl, sbr_pos seq, sbr_le seq⟩

/-- `encode` of a sealed kind: succeeds iff the buffer has room, and then returns `sealedBytes` -/
theorem encode_sealed (a : AEAD) (p : Packet) (cap proto seq : Nat) (key : Bytes)
    (hp : p.packetType ≠ .connectionRequest) :
    encode a p cap proto (some (seq, key)) =
      if 1 + sequenceBytesRequired seq + p.body.length + 16 ≤ cap then .ok (sealedBytes a p proto seq key)
      else .err .ioError :=
  encode_sealed_eq a p cap proto seq key hp

/-- a connection request is `1 + |body|` = 1078 bytes, exactly -/
theorem encode_request (a : AEAD) {v : Bytes} {pid e : Nat} {x d : Bytes} (h : (connectionRequest v pid e x d).WF)
    (proto : Nat) (crypto : Option (Nat × Bytes)) :
    ∃ out, encode a (connectionRequest v pid e x d) Netcode.C.NETCODE_MAX_PACKET_BYTES proto crypto = .ok out ∧
      out.length = 1 + REQUEST_BODY := by
  have hb := body_length h
  dsimp only at hb
  have := request_fits
  rw [encode_request_eq, if_pos (by rw [hb]; exact this)]
  exact ⟨_, rfl, by simp only [List.length_cons, hb]; omega⟩

/-- every handshake / keep-alive / disconnect packet encodes into the 1400-byte buffer; sizes:
    challenge, response ≤ 333; keep-alive ≤ 33; denied, disconnect ≤ 25 -/
theorem handshake_encodes (a : AEAD) (hl : a.Laws) {p : Packet} (h : p.WF) (hp : p.packetType ≠ .connectionRequest)
    (hnp : ∀ b, p ≠ .payload b) (proto seq : Nat) (key : Bytes) :
    encode a p Netcode.C.NETCODE_MAX_PACKET_BYTES proto (some (seq, key)) = .ok (sealedBytes a p proto seq key) ∧
    (sealedBytes a p proto seq key).length ≤ (match p with
      | .challenge .. | .response .. => 333
      | .keepAlive .. => 33
      | _ => 25) := by
  have hb := body_length h
  have h300 : Netcode.C.NETCODE_CHALLENGE_TOKEN_BYTES = 300 := rfl
  have h1400 : Netcode.C.NETCODE_MAX_PACKET_BYTES = 1400 := rfl
  cases p with
  | connectionRequest v pid e x d => exact absurd rfl hp
  | payload b => exact absurd rfl (hnp b)
  | challenge s d =>
    dsimp only at hb
    have := encode_sealed_ok a hl (.challenge s d) Netcode.C.NETCODE_MAX_PACKET_BYTES proto seq key hp (by rw [hb, h300, h1400]; decide)
    exact ⟨this.1, by have := this.2.2; rw [hb, h300] at this; exact this⟩
  | response s d =>
    dsimp only at hb
    have := encode_sealed_ok a hl (.response s d) Netcode.C.NETCODE_MAX_PACKET_BYTES proto seq key hp (by rw [hb, h300, h1400]; decide)
    exact ⟨this.1, by have := this.2.2; rw [hb, h300] at this; exact this⟩
  | keepAlive i m =>
    dsimp only at hb
    have := encode_sealed_ok a hl (.keepAlive i m) Netcode.C.NETCODE_MAX_PACKET_BYTES proto seq key hp (by rw [hb, h1400]; decide)
    exact ⟨this.1, by have := this.2.2; rw [hb] at this; exact this⟩
  | connectionDenied =>
    dsimp only at hb
    have := encode_sealed_ok a hl .connectionDenied Netcode.C.NETCODE_MAX_PACKET_BYTES proto seq key hp (by rw [hb, h1400]; decide)
    exact ⟨this.1, by have := this.2.2; rw [hb] at this; exact this⟩
  | disconnect =>
    dsimp only at hb
    have := encode_sealed_ok a hl .disconnect Netcode.C.NETCODE_MAX_PACKET_BYTES proto seq key hp (by rw [hb, h1400]; decide)
    exact ⟨this.1, by have := this.2.2; rw [hb] at this; exact this⟩

/-- a payload of at most NETCODE_MAX_PAYLOAD_BYTES always encodes, into `1 + seqbytes + |p| + 16 ≤ 1400` bytes -/
theorem payload_encodes (a : AEAD) (hl : a.Laws) (p : Bytes) (hp : p.length ≤ Netcode.C.NETCODE_MAX_PAYLOAD_BYTES)
    (proto seq : Nat) (key : Bytes) :
    encode a (.payload p) Netcode.C.NETCODE_MAX_PACKET_BYTES proto (some (seq, key)) =
      .ok (sealedBytes a (.payload p) proto seq key) ∧
    (sealedBytes a (.payload p) proto seq key).length = 1 + sequenceBytesRequired seq + p.length + 16 ∧
    (sealedBytes a (.payload p) proto seq key).length ≤ Netcode.C.NETCODE_MAX_PACKET_BYTES :=
  encode_payload_ok a hl p hp proto seq key

/-- whatever `encode` returns fits the buffer it was given -/
theorem encode_fits_buffer (a : AEAD) (hl : a.Laws) {p : Packet} {cap proto : Nat} {crypto : Option (Nat × Bytes)}
    {out : Bytes} (h : encode a p cap proto crypto = .ok out) : out.length ≤ cap :=
  encode_le_cap a hl h

/-! ### 2. every function of the netcode layer that emits a datagram -/

theorem server_generate_payload_packet (a : AEAD) (hl : a.Laws) {s s' : NetcodeServer} {cid : Nat} {payload out : Bytes}
    {addr : Addr} (h : NetcodeServer.generatePayloadPacket a s cid payload = .ok ((addr, out), s')) :
    out.length ≤ Netcode.C.NETCODE_MAX_PACKET_BYTES :=
  NetcodeServer.generatePayloadPacket_size a hl h

/-- `update_client` (keep-alive or disconnect packet) -/
theorem server_update_client (a : AEAD) (hl : a.Laws) {s s' : NetcodeServer} {cid : Nat} {r : ServerResult}
    (h : NetcodeServer.updateClient a s cid = .ok (r, s')) {out : Bytes} (ho : r.datagram = some out) :
    out.length ≤ Netcode.C.NETCODE_MAX_PACKET_BYTES :=
  NetcodeServer.updateClient_size a hl s cid _ h out ho

theorem server_disconnect (a : AEAD) (hl : a.Laws) {s s' : NetcodeServer} {cid : Nat} {r : ServerResult}
    (h : NetcodeServer.disconnect a s cid = .ok (r, s')) {out : Bytes} (ho : r.datagram = some out) :
    out.length ≤ Netcode.C.NETCODE_MAX_PACKET_BYTES :=
  NetcodeServer.disconnect_size a hl s cid _ h out ho

/-- `process_packet` (challenge, denied, keep-alive on connect): at most 333 bytes; connected addresses get nothing -/
theorem server_process_packet (a : AEAD) (hl : a.Laws) {n : Nat} {s s' : NetcodeServer}
    (hinv : NetcodeServer.SInv (n + 1) s) {addr : Addr} {buf : Bytes} {r : ServerResult}
    (h : NetcodeServer.processPacket a s addr buf = .ok (r, s')) {out : Bytes} (ho : r.datagram = some out) :
    out.length ≤ NetcodeServer.REQUEST_REPLY_MAX := by
  cases hf : findClientByAddr s.clients addr with
  | none =>
    obtain ⟨r', s'', h', _, hr⟩ := NetcodeServer.processPacket_unconnected a hinv addr buf hf
    rw [h] at h'; cases h'
    have : NetcodeServer.RESPONSE_REPLY_MAX ≤ NetcodeServer.REQUEST_REPLY_MAX := by decide
    rcases hr with hr | hr <;> rcases hr with hr | ⟨_, ⟨o, hr, hb⟩ | ⟨id, ud, o, hr, hb⟩⟩
    all_goals subst hr
    all_goals first
      | (cases ho; done)
      | (cases ho; have := hb hl; omega)
  | some sc =>
    obtain ⟨slot, c⟩ := sc
    have key := NetcodeServer.connected_sat a s addr buf hf
    unfold NetcodeServer.processPacket at h
    cases hi : NetcodeServer.processPacketInternal a s addr buf with
    | ok rs =>
      rw [hi] at h key; cases h
      rcases key.2 with hr | ⟨_, _, _, hr, _⟩ | ⟨_, _, hr, _⟩ <;> dsimp only at hr <;> rw [hr] at ho <;> cases ho
    | err es => rw [hi] at h; cases h; cases ho
    | panic m => rw [hi] at h; cases h

theorem client_generate_payload_packet (a : AEAD) (hl : a.Laws) {c c' : NetcodeClient} {payload out : Bytes}
    {addr : Addr} (h : NetcodeClient.generatePayloadPacket a c payload = .ok ((addr, out), c')) :
    out.length ≤ Netcode.C.NETCODE_MAX_PACKET_BYTES :=
  NetcodeClient.generatePayloadPacket_size a hl h

/-- … and it succeeds for every payload up to the limit on a connected client -/
theorem client_generate_payload_packet_ok (a : AEAD) (hl : a.Laws) (c : NetcodeClient) (hst : c.state = .connected)
    (payload : Bytes) (hp : payload.length ≤ Netcode.C.NETCODE_MAX_PAYLOAD_BYTES) (hseq : c.sequence + 1 ≤ U64_MAX) :
    ∃ out c', NetcodeClient.generatePayloadPacket a c payload = .ok ((c.serverAddr, out), c') ∧
      out.length ≤ Netcode.C.NETCODE_MAX_PACKET_BYTES := by
  have h := NetcodeClient.generatePayloadPacket_ok a hl c hst payload hp hseq
  exact ⟨_, _, h, NetcodeClient.generatePayloadPacket_size a hl h⟩

/-- `update` (connection request, response, keep-alive) -/
theorem client_update (a : AEAD) (hl : a.Laws) {c c' : NetcodeClient} {d : Nat} {out : Bytes} {addr : Addr}
    (h : NetcodeClient.update a c d = .ok (some (out, addr), c')) : out.length ≤ Netcode.C.NETCODE_MAX_PACKET_BYTES :=
  NetcodeClient.update_size a hl c d _ h out addr rfl

theorem client_disconnect (a : AEAD) (hl : a.Laws) (c : NetcodeClient) {addr : Addr} {out : Bytes}
    (h : (NetcodeClient.disconnect a c).1 = .ok (addr, out)) : out.length ≤ Netcode.C.NETCODE_MAX_PACKET_BYTES :=
  NetcodeClient.disconnect_size a hl c h

/-! ### C16N: wire round trip -/

/-- sealed kinds: what `encode` returns decodes — same protocol id, same key, a window that has not seen the sequence —
    to the packet and its sequence number; the window is advanced for keep-alive, payload and disconnect -/
theorem roundtrip_sealed (a : AEAD) (hl : a.Laws) {p : Packet} (hwf : p.WF) (hp : p.packetType ≠ .connectionRequest)
    {cap proto seq : Nat} (hs : seq < 2 ^ 64) (key : Bytes) {out : Bytes}
    (henc : encode a p cap proto (some (seq, key)) = .ok out) (rp : Option RP)
    (hfresh : ∀ w, rp = some w → p.packetType.applyReplayProtection = true → w.alreadyReceived seq = false) :
    decode a out proto (some key) rp = (.ok (seq, p), stepWindow p.packetType seq rp) := by
  rw [encode_sealed_eq a p cap proto seq key hp] at henc
  split at henc
  · cases henc
    refine decode_sealedBytes a p proto seq key hl hs hp hwf rp ?_
    cases rp with
    | none => rfl
    | some w =>
      rw [isDup_some]
      cases hpr : p.packetType.applyReplayProtection with
      | false => rfl
      | true => rw [hfresh w rfl hpr]; rfl
  · cases henc

/-- connection request (sent in clear, sequence 0, no key needed) -/
theorem roundtrip_request (a : AEAD) {p : Packet} (hwf : p.WF) (hp : p.packetType = .connectionRequest)
    {cap proto : Nat} {crypto : Option (Nat × Bytes)} {out : Bytes} (henc : encode a p cap proto crypto = .ok out)
    (proto' : Nat) (key : Option Bytes) (rp : Option RP) :
    decode a out proto' key rp = (.ok (0, p), rp) := by
  cases p with
  | connectionRequest v pid e x d =>
    rw [encode_request_eq] at henc
    split at henc
    · cases henc; exact decode_request_bytes a hp hwf proto' key rp
    · cases henc
  | _ => cases hp

/-! ### 3. the transports' receive buffers (`renet_netcode`: `NetcodeServerTransport.buffer`,
`NetcodeClientTransport.buffer`; sizes read from the source by `tools/gen_consts.py`)

`UdpSocket::recv_from` truncates a datagram that is longer than the buffer it is given, and a truncated
datagram fails authentication, so the peer's traffic would be dropped every tick. Every datagram either
side emits fits the buffer of the transport that receives it. -/

theorem transport_buffers_hold_max_datagram :
    Netcode.C.NETCODE_MAX_PACKET_BYTES ≤ RenetVerif.C.TRANSPORT_SERVER_BUFFER ∧
    Netcode.C.NETCODE_MAX_PACKET_BYTES ≤ RenetVerif.C.TRANSPORT_CLIENT_BUFFER := by decide

/-- the largest datagram that really occurs (a 1300-byte payload under the largest sequence number,
1325 bytes) fits both receive buffers -/
theorem transport_buffers_hold_largest_payload_datagram (a : AEAD) (hl : a.Laws) (p : Bytes)
    (hp : p.length = Netcode.C.NETCODE_MAX_PAYLOAD_BYTES) (proto seq : Nat) (key : Bytes) :
    (sealedBytes a (.payload p) proto seq key).length ≤ RenetVerif.C.TRANSPORT_SERVER_BUFFER ∧
    (sealedBytes a (.payload p) proto seq key).length ≤ RenetVerif.C.TRANSPORT_CLIENT_BUFFER :=
  ⟨Nat.le_trans (payload_encodes a hl p (Nat.le_of_eq hp) proto seq key).2.2 transport_buffers_hold_max_datagram.1,
   Nat.le_trans (payload_encodes a hl p (Nat.le_of_eq hp) proto seq key).2.2 transport_buffers_hold_max_datagram.2⟩

/-- what a client emits fits the server transport's receive buffer -/
theorem client_datagram_fits_server_buffer (a : AEAD) (hl : a.Laws) {c c' : NetcodeClient} {payload out : Bytes}
    {addr : Addr} (h : NetcodeClient.generatePayloadPacket a c payload = .ok ((addr, out), c')) :
    out.length ≤ RenetVerif.C.TRANSPORT_SERVER_BUFFER :=
  Nat.le_trans (client_generate_payload_packet a hl h) transport_buffers_hold_max_datagram.1

/-- what the server emits for a client fits the client transport's receive buffer -/
theorem server_datagram_fits_client_buffer (a : AEAD) (hl : a.Laws) {s s' : NetcodeServer} {cid : Nat}
    {payload out : Bytes} {addr : Addr}
    (h : NetcodeServer.generatePayloadPacket a s cid payload = .ok ((addr, out), s')) :
    out.length ≤ RenetVerif.C.TRANSPORT_CLIENT_BUFFER :=
  Nat.le_trans (server_generate_payload_packet a hl h) transport_buffers_hold_max_datagram.2

/-! ### non-vacuity -/
section examples

def key : Bytes := List.replicate 32 7
def big : Bytes := List.replicate 1300 0xAB
theorem big_len : big.length ≤ Netcode.C.NETCODE_MAX_PAYLOAD_BYTES := by decide +kernel

/-- the largest payload with the largest sequence: 1 + 8 + 1300 + 16 = 1325 bytes -/
example : (sealedBytes AEAD.toy (.payload big) 42 (2 ^ 63) key).length = 1325 := by decide +kernel
example : encode AEAD.toy (.payload big) Netcode.C.NETCODE_MAX_PACKET_BYTES 42 (some (2 ^ 63, key)) =
    .ok (sealedBytes AEAD.toy (.payload big) 42 (2 ^ 63) key) :=
  (payload_encodes AEAD.toy AEAD.toy_laws big big_len 42 (2 ^ 63) key).1
/-- one byte more than the limit would still fit the buffer; 1376 bytes (+25) would not -/
example : (encode AEAD.toy (.payload (List.replicate 1376 0)) 1400 42 (some (2 ^ 63, key))) = .err .ioError := by
  decide +kernel

/-- keep-alive with a one-byte and an eight-byte sequence: 26 and 33 bytes -/
example : (sealedBytes AEAD.toy (.keepAlive 1 2) 42 0 key).length = 26 ∧
    (sealedBytes AEAD.toy (.keepAlive 1 2) 42 (2 ^ 63) key).length = 33 := by decide +kernel
example : (keepAlive 1 2).WF := by decide
example : decode AEAD.toy (sealedBytes AEAD.toy (.keepAlive 1 2) 42 5 key) 42 (some key) none
    = (.ok (5, .keepAlive 1 2), none) :=
  roundtrip_sealed AEAD.toy AEAD.toy_laws (p := .keepAlive 1 2) (by decide) (by decide) (cap := 1400) (by decide) key
    (by decide +kernel) none (by intro w h; cases h)
example : (challenge 7 (List.replicate 300 1)).WF := by decide +kernel
example : (connectionRequest Netcode.C.NETCODE_VERSION_INFO 42 30 (List.replicate 24 5) (List.replicate 1024 6)).WF := by
  decide +kernel

end examples

end RenetVerif.C13N
