/-
  Source tie, group TrServer: `renet_netcode/src/server.rs` (`handle_server_result`,
  `NetcodeServerTransport::{new, addresses, max_clients, set_max_clients, connected_clients, user_data, client_addr,
  time_since_last_received_packet, disconnect_all, update, send_packets}`) and `renet_netcode/src/lib.rs`
  (`NetcodeTransportError` and its `From` impls) ↔ `Transport/Glue.lean` (`handleServerResult`, `serverDisconnectAll`,
  `serverUpdate`, `serverSendPackets`).

  * The `UdpSocket` is the model socket `RustSem.UdpSocket` (header of `Base/RustSem.lean`): `recv_from` pops the next
    event of the socket's script (`inbox`; no event = `WouldBlock`) and copies a datagram, cut to the buffer's size, into
    the buffer; `send_to` appends to the socket's log and does not fail; `&UdpSocket` is threaded as state.  `sockR inbox out`
    is the socket whose script is the datagrams `inbox` and whose log is `out`; the glue model's input is
    `inbox.map (recvFrom TRANSPORT_SERVER_BUFFER)` — the theorems prove that cut.
  * The methods take the `RenetServer` by `&mut`.  What they need from it is the simulation `RnSim R` (a relation `R`
    between the model `Server` and the generated `RenetServer`, kept by `process_packet_from`, `add_connection`,
    `remove_connection`, `get_packets_to_send`, with `clients_id` / `disconnections_id` in the model's key order);
    `rn_sim_of_inv` derives it from the theorems of `SrcTieServer.lean` for any invariant that implies their per-call
    hypotheses (`MSorted`, `CfgOk`, `ProcOk`, `SendOk`).  Likewise `NcInv a I`: an invariant of the model `NetcodeServer`
    that implies the per-call hypotheses of `SrcTieNcServer{Query,Send,Recv}.lean` (token-entry table not empty, `i32`
    time-outs, no pending connection in state `Disconnected`) and is kept by the model's operations.
  * `loop { match recv_from … }` is `whileFuel` with the manifest fuel `self.socket.pending() + 1` (`pending()` = the
    length of the script; model-only): one event is consumed per round, the theorems prove that the fuel-exhaustion site
    is never reached.  Hypothesis `inbox.length + 1 < 2^64` (the fuel expression is evaluated in `u64`).
  * The receive buffer and the netcode scratch buffer are left existentially quantified with their lengths
    (`process_packet` decrypts in place in `self.buffer[..len]`; its length is preserved: `PktOut`).
  * The glue model logs per call (`#[]`); the generated code appends to the socket's log.  The theorems are stated from an
    arbitrary log `out` (`serverIdLoop … out`, `serverUpdateFrom … out`, `serverSendLoop … out`); the model's top-level
    definitions are the case `out = #[]` (`*_model` lemmas, by `rfl`).
  * Socket errors are outside the glue model: `tr_recv_error` states, on the generated loop body, what each error kind does.
-/
import RenetVerif.Lemmas.SrcEquiv.TrServer
set_option maxRecDepth 10000
namespace RenetVerif.SrcTie
open RenetVerif RenetVerif.SrcEquiv RenetVerif.RustSem RenetVerif.Netcode RenetVerif.Transport
open Src.renet_netcode.server

/-- `handle_server_result`: nothing / `send_to(addr, payload)` / `process_packet_from` (an `Err(ClientNotFound)` is only
    logged) / `add_connection` then `send_to` / `remove_connection` then `send_to` of the optional packet -/
theorem tr_handle_server_result {ε : Type} {R : Server → SRenetServer → Prop} (hsim : RnSim R) {rs : Server} {g : SRenetServer}
    (h : R rs g) (r : Netcode.ServerResult) (inbox : List Dgram) (out : Array Dgram) :
    GlueOut R inbox (handleServerResult r rs out) (handle_server_result (reprNSR r) (sockR inbox out) g : Res ε _) :=
  handle_server_result_eq hsim h r inbox out

/-- `disconnect_all`: `disconnect` + `handle_server_result` for every connected netcode client, in slot order -/
theorem tr_disconnect_all {ε : Type} (a : AEAD) (hl : a.Laws) {R : Server → SRenetServer → Prop} (hsim : RnSim R)
    {I : Netcode.NetcodeServer → Prop} (hinv : NcInv a I) (g : ServerGlue) (gr : SRenetServer) (hi : I g.netcode)
    (hr : R g.renet gr) (inbox : List Dgram) (out : Array Dgram) (o buf : List Nat) (ho : o.length = C.NETCODE_MAX_PACKET_BYTES) :
    TrOut (ε := ε) R I inbox buf.length (serverIdLoop (fun ns id => ns.disconnect a id) g g.netcode.clientsId out)
      (@NetcodeServerTransport.disconnect_all (aeadOf a) ε (trR inbox out o g.netcode buf) gr) :=
  tr_disconnect_all_eq a hl hsim hinv g gr hi hr inbox out o buf ho
theorem tr_disconnect_all_model (a : AEAD) (g : ServerGlue) :
    serverDisconnectAll a g = serverIdLoop (fun ns id => ns.disconnect a id) g g.netcode.clientsId #[] := rfl

/-- `update`: `NetcodeServer::update`; every queued datagram (cut to the buffer) through `process_packet` and
    `handle_server_result`, in arrival order, until the socket would block; `update_client` for every connected client
    (slot order); `disconnect` for every disconnected renet connection (key order).  Always `Ok(())` without socket errors;
    the socket's queue is empty afterwards. -/
theorem tr_update (a : AEAD) (hl : a.Laws) {R : Server → SRenetServer → Prop} (hsim : RnSim R)
    {I : Netcode.NetcodeServer → Prop} (hinv : NcInv a I) (g : ServerGlue) (gr : SRenetServer) (hi : I g.netcode)
    (hr : R g.renet gr) (duration : Nat) (inbox : List Dgram) (hin : inbox.length + 1 < 2 ^ 64) (out : Array Dgram)
    (o buf : List Nat) (ho : o.length = C.NETCODE_MAX_PACKET_BYTES) (hb : buf.length = C.TRANSPORT_SERVER_BUFFER) :
    TrOut R I [] C.TRANSPORT_SERVER_BUFFER
      (serverUpdateFrom a g duration (inbox.map (recvFrom C.TRANSPORT_SERVER_BUFFER)) out)
      (@NetcodeServerTransport.update (aeadOf a) (trR inbox out o g.netcode buf) duration gr) :=
  tr_update_eq a hl hsim hinv g gr hi hr duration inbox hin out o buf ho hb
theorem tr_update_model (a : AEAD) (g : ServerGlue) (duration : Nat) (inbox : List Dgram) :
    serverUpdate a g duration inbox = serverUpdateFrom a g duration inbox #[] := rfl

/-- `send_packets`: for every connected renet client (key order) `get_packets_to_send(..).unwrap()` (panics for an unknown
    id), each packet through `generate_payload_packet` and `send_to`; the first error abandons the rest of that client -/
theorem tr_send_packets {ε : Type} (a : AEAD) (hl : a.Laws) {R : Server → SRenetServer → Prop} (hsim : RnSim R)
    {I : Netcode.NetcodeServer → Prop} (hinv : NcInv a I) (g : ServerGlue) (gr : SRenetServer) (hi : I g.netcode)
    (hr : R g.renet gr) (inbox : List Dgram) (out : Array Dgram) (o buf : List Nat) (ho : o.length = C.NETCODE_MAX_PACKET_BYTES) :
    TrOut (ε := ε) R I inbox buf.length (serverSendLoop a g g.renet.clientsId out)
      (@NetcodeServerTransport.send_packets (aeadOf a) ε (trR inbox out o g.netcode buf) gr) :=
  tr_send_packets_eq a hl hsim hinv g gr hi hr inbox out o buf ho
theorem tr_send_packets_model (a : AEAD) (g : ServerGlue) :
    serverSendPackets a g = serverSendLoop a g g.renet.clientsId #[] := rfl

/-- socket errors in `update`'s receive loop (about the GENERATED loop body; the glue model has no socket errors):
    `WouldBlock` / `Interrupted` → `break`, `ConnectionReset` → `continue`, anything else → `Err(IO(e))` -/
theorem tr_recv_error [RustSem.Aead] (e : RustSem.IoError) (evs : List RustSem.RecvEvent)
    (log : List (RustSem.SocketAddr × List Nat)) (ns : SNetcodeServer) (buf : List Nat) (gr : SRenetServer) :
    recvBody ((⟨⟨.error e :: evs, log⟩, ns, buf⟩ : SServerTransport), gr) =
      match e with
      | .wouldBlock => .ret (.brk (⟨⟨evs, log⟩, ns, buf⟩, gr))
      | .interrupted => .ret (.brk (⟨⟨evs, log⟩, ns, buf⟩, gr))
      | .connectionReset => .ret (.cont (⟨⟨evs, log⟩, ns, buf⟩, gr))
      | .opaque => .err (.IO .opaque, (⟨⟨evs, log⟩, ns, buf⟩, gr)) := recvBody_error e evs log ns buf gr
/-- `recvBody` is the loop body of the generated `update` -/
theorem tr_update_loop_body [RustSem.Aead] (self : SServerTransport) (duration : Nat) (server : SRenetServer) :
    NetcodeServerTransport.update self duration server = Exec.run
      ((Exec.call (Src.renetcode.server.NetcodeServer.update self.netcode_server duration)).bind fun t1 =>
        (Exec.call (RustSem.UdpSocket.pending ({ self with netcode_server := t1.1 } : SServerTransport).socket)).bind fun t2 =>
        (RustSem.add 64 t2 1 "renet_netcode/src/server.rs:NetcodeServerTransport::update: self.socket.pending() + 1").bind fun t3 =>
        (RustSem.whileFuel t3 "renet_netcode/src/server.rs:NetcodeServerTransport::update: fuel exhausted"
          (({ self with netcode_server := t1.1 } : SServerTransport), server) recvBody).bind fun x =>
        (Exec.call (Src.renetcode.server.NetcodeServer.clients_id x.1.netcode_server)).bind fun t11 =>
        (RustSem.forEach t11 x (idBody (fun s id => Src.renetcode.server.NetcodeServer.update_client s id))).bind fun y =>
        (Exec.call (Src.renet.server.RenetServer.disconnections_id y.2)).bind fun t14 =>
        (RustSem.forEach t14 y (idBody (fun s id => Src.renetcode.server.NetcodeServer.disconnect s id))).bind fun z =>
        Exec.val (z.1, z.2, ())) := update_unfold self duration server

/-- `new`: `set_nonblocking(true)?`, `NetcodeServer::new` (panics above `NETCODE_MAX_CLIENTS`), zeroed receive buffer -/
theorem tr_new (ct mc pid : Nat) (addrs : List Addr) (secure : Bool) (pk ck : Bytes) (inbox : List Dgram) (out : Array Dgram) :
    match Netcode.NetcodeServer.new ct mc pid addrs secure pk ck with
    | .ok s => NetcodeServerTransport.new ⟨ct, mc, pid, addrs.map reprAddr, reprAuth secure pk⟩ (sockR inbox out) (toNats ck)
        = .ok (trR inbox out (List.replicate C.NETCODE_MAX_PACKET_BYTES 0) s (List.replicate C.TRANSPORT_SERVER_BUFFER 0))
    | .err e => nomatch e
    | .panic _ => ∃ msg, NetcodeServerTransport.new ⟨ct, mc, pid, addrs.map reprAddr, reprAuth secure pk⟩ (sockR inbox out) (toNats ck)
        = .panic msg := tr_new_eq ct mc pid addrs secure pk ck inbox out

theorem tr_addresses {ε : Type} (inbox : List Dgram) (out : Array Dgram) (o : List Nat) (s : Netcode.NetcodeServer) (buf : List Nat) :
    (NetcodeServerTransport.addresses (trR inbox out o s buf) : Res ε _) = .ok (s.addresses.map reprAddr) :=
  tr_addresses_eq inbox out o s buf
theorem tr_max_clients {ε : Type} (inbox : List Dgram) (out : Array Dgram) (o : List Nat) (s : Netcode.NetcodeServer) (buf : List Nat) :
    (NetcodeServerTransport.max_clients (trR inbox out o s buf) : Res ε _) = .ok s.maxClients := tr_max_clients_eq inbox out o s buf
theorem tr_set_max_clients {ε : Type} (inbox : List Dgram) (out : Array Dgram) (o : List Nat) (s : Netcode.NetcodeServer)
    (buf : List Nat) (n : Nat) :
    (NetcodeServerTransport.set_max_clients (trR inbox out o s buf) n : Res ε _) = .ok (trR inbox out o (s.setMaxClients n) buf, ()) :=
  tr_set_max_clients_eq inbox out o s buf n
theorem tr_connected_clients {ε : Type} (inbox : List Dgram) (out : Array Dgram) (o : List Nat) (s : Netcode.NetcodeServer)
    (buf : List Nat) :
    (NetcodeServerTransport.connected_clients (trR inbox out o s buf) : Res ε _) = .ok s.connectedClients :=
  tr_connected_clients_eq inbox out o s buf
theorem tr_user_data {ε : Type} (inbox : List Dgram) (out : Array Dgram) (o : List Nat) (s : Netcode.NetcodeServer) (buf : List Nat)
    (id : Nat) :
    (NetcodeServerTransport.user_data (trR inbox out o s buf) id : Res ε _) = .ok ((s.userData id).map toNats) :=
  tr_user_data_eq inbox out o s buf id
theorem tr_client_addr {ε : Type} (inbox : List Dgram) (out : Array Dgram) (o : List Nat) (s : Netcode.NetcodeServer) (buf : List Nat)
    (id : Nat) :
    (NetcodeServerTransport.client_addr (trR inbox out o s buf) id : Res ε _) = .ok ((s.clientAddr id).map reprAddr) :=
  tr_client_addr_eq inbox out o s buf id
theorem tr_time_since_last_received_packet {ε : Type} (inbox : List Dgram) (out : Array Dgram) (o : List Nat)
    (s : Netcode.NetcodeServer) (buf : List Nat) (id : Nat) :
    SameOutcome (NetcodeServerTransport.time_since_last_received_packet (trR inbox out o s buf) id : Res ε _)
      (mapRes (fun x => x) (fun e => nomatch e) (s.timeSinceLastReceivedPacket id)) := tr_time_since_eq inbox out o s buf id

/-- the simulation from the `RenetServer` ties (`SrcTieServer.lean`), for an invariant implying their hypotheses -/
theorem rn_sim_of_inv (Inv : Server → Prop) (hsort : ∀ s, Inv s → MSorted s.conns) (hcfg : ∀ s, Inv s → CfgOk s)
    (hproc : ∀ s, Inv s → ∀ bytes id c, SMap.find? s.conns id = some c → ProcOk c bytes)
    (hsend : ∀ s, Inv s → ∀ id c, SMap.find? s.conns id = some c → SendOk c)
    (hppf : ∀ s, Inv s → ∀ bytes id s' b, s.processPacketFrom bytes id = .ok (s', b) → Inv s')
    (hadd : ∀ s, Inv s → ∀ id, Inv (s.addConnection id)) (hrem : ∀ s, Inv s → ∀ id, Inv (s.removeConnection id))
    (hgp : ∀ s, Inv s → ∀ id s' ps, s.getPacketsToSend id = .ok (s', ps) → Inv s') :
    RnSim (fun s g => Inv s ∧ ∃ mrss, g = reprServer mrss s) :=
  rnSim_of_inv Inv hsort hcfg hproc hsend hppf hadd hrem hgp

/-! ### the model socket on concrete values -/

/-- a 5-byte datagram into a 3-byte buffer: cut to 3 bytes; the event is consumed -/
example : RustSem.UdpSocket.recv_from ⟨[.dgram (.v4 [10, 0, 0, 1] 7) [1, 2, 3, 4, 5]], []⟩ [0, 0, 0] =
    .ok (⟨[], []⟩, [1, 2, 3], (3, .v4 [10, 0, 0, 1] 7)) := by decide +kernel
/-- a 2-byte datagram into a 4-byte buffer: the rest of the buffer keeps its contents -/
example : RustSem.UdpSocket.recv_from ⟨[.dgram (.v4 [10, 0, 0, 1] 7) [1, 2]], []⟩ [9, 9, 9, 9] =
    .ok (⟨[], []⟩, [1, 2, 9, 9], (2, .v4 [10, 0, 0, 1] 7)) := by decide +kernel
example : RustSem.UdpSocket.recv_from ⟨[], []⟩ [0, 0] = .err (.wouldBlock, (⟨[], []⟩, [0, 0])) := by decide +kernel
example : RustSem.UdpSocket.send_to ⟨[], [(.v4 [1, 1, 1, 1] 1, [5])]⟩ [6, 7] (.v4 [10, 0, 0, 1] 7) =
    .ok (⟨[], [(.v4 [1, 1, 1, 1] 1, [5]), (.v4 [10, 0, 0, 1] 7, [6, 7])]⟩, 2) := by decide +kernel

end RenetVerif.SrcTie
