/-
  C01 — LIVENESS, the k-ROUND bound: the LAST `_partial` of the development removed — NO clause `r.ks ≠ []` at all.
  Definitions and proofs: Lemmas/LivenessKCut.lean.

  WHY `k_round_delivery_closed3_partial` (Props/C01KD.lean) was partial.  Its operation list `roundsOps ch rs` is fixed
  in advance and every round ends with `deliverToA r.ai`.  A round that starts with an EMPTY backlog (the bound
  `k * (B - SLICE_SIZE + 1) ≥ backlog` is not sharp, so trailing rounds may find nothing to send) makes A emit at most
  its ack packet; if A has nothing to acknowledge either, `r.ks = []`, B's flush is empty, and `deliverToA r.ai` is
  UNDEFINED (`Ex0.fixed_list_undefined` below: the fixed list does not run from the initial state).  So "the round
  hands B a datagram" had to stay as a schedule fact for those rounds.

  THE CUT SCHEDULE `cutOps ch s rs` — the operation list depends on the state:
      a round that starts with a NON-EMPTY backlog on channel `ch` is the full lossless round `r.ops ch` of Props/C01K
          (updA r.dt ; flushA ; deliverToB k (k ∈ r.ks) ; recvB ch × r.n ; flushB ; deliverToA r.ai);
      the FIRST round that starts with an EMPTY backlog is B's application draining the channel (recvB ch × r.n) and
          ENDS the schedule.
  `cutOps_eq`: `cutOps ch s rs = roundsOps ch (rs.take j) ++ (the recvB calls of round j, if j < k)`, `j = cutLen ch s rs`.
  The drain of the idle round is NOT optional: a reachable state can have an empty backlog at A (everything
  acknowledged) while B's application has not asked for the messages yet (`Ex0`); a schedule that did nothing at all
  in such a round would not deliver.

  SCHEDULE DESCRIPTION `RoundsSched4 ch Sched s rs` — hypotheses about what the ENVIRONMENT does, nothing else:
      every round reached     drain      `r.n` calls suffice: `|submitted| ≤ |obtained| + r.n`
      a round with a non-empty backlog (`RoundSched0`)
                              timer      `r.dt ≥ resend_time` of the channel
                              sched      `Sched su` (`SchedBytes ch B`: H4 and `B ≤ availAtTurn`; `True` for `Single`)
                              all/exact  `r.ks` lists exactly the datagrams of this flush (lossless hand-over)
                              back       `r.ai` is the index of the last datagram of B's flush
      NOTHING about `r.ks ≠ []`; nothing but `drain` about the round that starts with an empty backlog; nothing at
      all about the rounds after it.  `roundsSched4_of_roundsSched3`: it is implied by `RoundsSched3`.
  HEAD-ROOM `HeadRoom3 cfg s rs` on the INITIAL state (unchanged from C01KD): system / static counters,
      `packetSeq + k * (units + 1) ≤ 2^62`, `B.packetSeq + k ≤ 2^62`, `pendingAcks + kTotal rs < 64`.

  RESULTS.
    k_round_delivery_closed4            ReliableOrdered: after the cut schedule of `k ≥ 1` rounds with
                                        `k * (B - SLICE_SIZE + 1) ≥ backlog` nothing has panicked, both endpoints are
                                        live, `obtained = submitted`.
    k_round_delivery_single_closed4     single-channel configuration, `B = available_bytes_per_tick`, `Sched = True`.
    k_round_delivery_unordered_closed4  ReliableUnordered: `obtained` is a permutation of `submitted`.
    k_round_delivery_closed4_rounds     the same with the operation list spelled out through `cutOps_eq`.
    delivered_stable / k_round_delivery_closed4_stable
                                        what the rounds that were cut off (or anything else the environment does
                                        afterwards, short of `sendA`) can change: nothing — `obtained` stays equal to
                                        `submitted` in every later state (`CountersOK` on that state, as in Props/C01S).
    idle_delivers                       an empty backlog at A + B's drain = everything delivered (the idle round).

  NOT CLAIMED.  That the FIXED list `roundsOps ch rs` runs to its end when a round is idle: it need not
  (`Ex0.fixed_list_undefined`).  The coarse `acks` head-room (`kTotal rs` counts the `ks` of ALL rounds, repetitions
  and cut rounds included — choose `ks = []` for rounds expected to be idle, as `ExS.r3'` does) stays for the reason
  given in note (B) of Props/C01KC.lean.
-/
import RenetVerif.Props.C01KD
import RenetVerif.Lemmas.LivenessKCut
namespace RenetVerif.C01KE
open RenetVerif C RenetVerif.System RenetVerif.Live RenetVerif.LiveK RenetVerif.LiveKC RenetVerif.FlushCount
  RenetVerif.LiveKCut

/-! ## the k-round theorems -/

/-- **C01 liveness, k rounds, side conditions closed (4): no non-emptiness clause.**  Reachable `s`, both endpoints
    live, room at B (H3), `B ≥ SLICE_SIZE`.  REMAINING hypotheses: `RoundsSched4` with `SchedBytes ch B` (drain; for
    rounds with a non-empty backlog: timer, H4 + `B` bytes at the channel's turn, all/exact, `r.ai = ackIdx u`),
    `HeadRoom3` on the initial state, `k ≥ 1`, `k * (B - SLICE_SIZE + 1) ≥ backlog`.  Then the cut schedule runs without
    panic, nobody is disconnected, and B's application has obtained exactly the submitted messages, in order. -/
theorem k_round_delivery_closed4 (cfg : Cfg) (ops : List SysOp) (s : Sys) (hr : (Sys.init cfg).run ops = some s)
    (hda : s.a.isDisconnected = false) (hdb : s.b.isDisconnected = false)
    (ch : Nat) (ho : cfg.Ordered ch) (sA : SendRel) (hfA : SMap.find? s.a.sendRel ch = some sA)
    (rB : RecvRel) (hfB : SMap.find? s.b.recvRel ch = some rB) (H3 : Room (s.submitted ch) rB)
    (B : Nat) (hSB : SLICE_SIZE ≤ B)
    (rs : List RoundP) (hRS : RoundsSched4 ch (SchedBytes ch B) s rs) (hH : HeadRoom3 cfg s rs)
    (hk1 : rs ≠ []) (hk : backlog sA.unacked ≤ rs.length * (B - SLICE_SIZE + 1)) :
    ∃ u, s.run (cutOps ch s rs) = some u ∧ u.a.isDisconnected = false ∧ u.b.isDisconnected = false ∧
      u.submitted ch = s.submitted ch ∧ u.obtained ch = s.submitted ch :=
  cut_rounds cfg ch true ho B hSB (SchedBytes ch B) (fun _ _ _ h => h) rs ops s sA rB hr hda hdb hfA hfB H3 hRS hH hk1 hk

/-- **Single-channel configuration, side conditions closed (4).**  No scheduling hypothesis (`Sched = True`), no
    non-emptiness clause. -/
theorem k_round_delivery_single_closed4 (cfg : Cfg) (ops : List SysOp) (s : Sys) (hr : (Sys.init cfg).run ops = some s)
    (hda : s.a.isDisconnected = false) (hdb : s.b.isDisconnected = false)
    (ch : Nat) (hsingle : Single cfg ch) (sA : SendRel) (hfA : SMap.find? s.a.sendRel ch = some sA)
    (rB : RecvRel) (hfB : SMap.find? s.b.recvRel ch = some rB) (H3 : Room (s.submitted ch) rB)
    (hSB : SLICE_SIZE ≤ cfg.budget)
    (rs : List RoundP) (hRS : RoundsSched4 ch (fun _ => True) s rs) (hH : HeadRoom3 cfg s rs)
    (hk1 : rs ≠ []) (hk : backlog sA.unacked ≤ rs.length * (cfg.budget - SLICE_SIZE + 1)) :
    ∃ u, s.run (cutOps ch s rs) = some u ∧ u.a.isDisconnected = false ∧ u.b.isDisconnected = false ∧
      u.submitted ch = s.submitted ch ∧ u.obtained ch = s.submitted ch :=
  cut_rounds cfg ch true (single_ordered hsingle) cfg.budget hSB (fun _ => True)
    (fun ops' su hr' _ => by
      obtain ⟨pkU, hU, -⟩ := system_inv cfg ops' su hr'
      exact ⟨single_only hU.invA.1 (single_order hsingle hU), by rw [single_avail hsingle hU]; exact Nat.le_refl _⟩)
    rs ops s sA rB hr hda hdb hfA hfB H3 hRS hH hk1 hk

/-- **C02 liveness, k rounds (ReliableUnordered), side conditions closed (4).**  Same hypotheses; B's application has
    obtained every submitted message exactly once. -/
theorem k_round_delivery_unordered_closed4 (cfg : Cfg) (ops : List SysOp) (s : Sys) (hr : (Sys.init cfg).run ops = some s)
    (hda : s.a.isDisconnected = false) (hdb : s.b.isDisconnected = false)
    (ch : Nat) (ho : cfg.Unordered ch) (sA : SendRel) (hfA : SMap.find? s.a.sendRel ch = some sA)
    (rB : RecvRel) (hfB : SMap.find? s.b.recvRel ch = some rB) (H3 : Room (s.submitted ch) rB)
    (B : Nat) (hSB : SLICE_SIZE ≤ B)
    (rs : List RoundP) (hRS : RoundsSched4 ch (SchedBytes ch B) s rs) (hH : HeadRoom3 cfg s rs)
    (hk1 : rs ≠ []) (hk : backlog sA.unacked ≤ rs.length * (B - SLICE_SIZE + 1)) :
    ∃ u, s.run (cutOps ch s rs) = some u ∧ u.a.isDisconnected = false ∧ u.b.isDisconnected = false ∧
      u.submitted ch = s.submitted ch ∧ (u.obtained ch).Perm (s.submitted ch) :=
  cut_rounds cfg ch false ho B hSB (SchedBytes ch B) (fun _ _ _ h => h) rs ops s sA rB hr hda hdb hfA hfB H3 hRS hH hk1 hk

/-- **the same, the operation list spelled out**: `j = cutLen ch s rs ≤ k` full rounds of Props/C01K, then — if a round
    is left — the `receive_message` calls of round `j`. -/
theorem k_round_delivery_closed4_rounds (cfg : Cfg) (ops : List SysOp) (s : Sys) (hr : (Sys.init cfg).run ops = some s)
    (hda : s.a.isDisconnected = false) (hdb : s.b.isDisconnected = false)
    (ch : Nat) (ho : cfg.Ordered ch) (sA : SendRel) (hfA : SMap.find? s.a.sendRel ch = some sA)
    (rB : RecvRel) (hfB : SMap.find? s.b.recvRel ch = some rB) (H3 : Room (s.submitted ch) rB)
    (B : Nat) (hSB : SLICE_SIZE ≤ B)
    (rs : List RoundP) (hRS : RoundsSched4 ch (SchedBytes ch B) s rs) (hH : HeadRoom3 cfg s rs)
    (hk1 : rs ≠ []) (hk : backlog sA.unacked ≤ rs.length * (B - SLICE_SIZE + 1)) :
    ∃ j u, j ≤ rs.length ∧ s.run (roundsOps ch (rs.take j) ++ idleTail ch (rs.drop j)) = some u ∧
      u.a.isDisconnected = false ∧ u.b.isDisconnected = false ∧
      u.submitted ch = s.submitted ch ∧ u.obtained ch = s.submitted ch := by
  obtain ⟨u, hu, h⟩ := k_round_delivery_closed4 cfg ops s hr hda hdb ch ho sA hfA rB hfB H3 B hSB rs hRS hH hk1 hk
  rw [cutOps_eq] at hu
  exact ⟨cutLen ch s rs, u, cutLen_le ch rs s, hu, h⟩

/-! ## what the cut-off rounds can still change: nothing -/

/-- **Once delivered, delivered for ever** — ReliableOrdered.  From a reachable state with `obtained = submitted` on
    channel `ch`, any further operations other than `sendA` that do not panic (more rounds, stale or duplicated
    datagrams, …) leave `submitted` alone and `obtained ch` equal to it. -/
theorem delivered_stable (cfg : Cfg) (ops : List SysOp) (u : Sys) (hr : (Sys.init cfg).run ops = some u)
    (ch : Nat) (ho : cfg.Ordered ch) (hd : u.obtained ch = u.submitted ch)
    (ops' : List SysOp) (w : Sys) (hw : u.run ops' = some w) (hno : ∀ op ∈ ops', ∀ c m, op ≠ .sendA c m)
    (hc : CountersOK cfg w) : w.submitted = u.submitted ∧ w.obtained ch = w.submitted ch := by
  obtain ⟨h1, -, h3⟩ := LiveKCut.delivered_stable cfg ops u hr ch true ho hd ops' w hw hno hc
  exact ⟨h1, h3⟩

/-- the same for a ReliableUnordered channel: `obtained` stays the same permutation of `submitted` -/
theorem delivered_stable_unordered (cfg : Cfg) (ops : List SysOp) (u : Sys) (hr : (Sys.init cfg).run ops = some u)
    (ch : Nat) (ho : cfg.Unordered ch) (hd : (u.obtained ch).Perm (u.submitted ch))
    (ops' : List SysOp) (w : Sys) (hw : u.run ops' = some w) (hno : ∀ op ∈ ops', ∀ c m, op ≠ .sendA c m)
    (hc : CountersOK cfg w) :
    w.submitted = u.submitted ∧ w.obtained ch = u.obtained ch ∧ (w.obtained ch).Perm (w.submitted ch) :=
  LiveKCut.delivered_stable cfg ops u hr ch false ho hd ops' w hw hno hc

/-- **k rounds, then anything**: after the cut schedule, whatever operations other than `sendA` follow — e.g. the
    rounds that were cut off, as far as they run — every later state (with counters in range) still has
    `obtained = submitted` = what was submitted when the first round started. -/
theorem k_round_delivery_closed4_stable (cfg : Cfg) (ops : List SysOp) (s : Sys) (hr : (Sys.init cfg).run ops = some s)
    (hda : s.a.isDisconnected = false) (hdb : s.b.isDisconnected = false)
    (ch : Nat) (ho : cfg.Ordered ch) (sA : SendRel) (hfA : SMap.find? s.a.sendRel ch = some sA)
    (rB : RecvRel) (hfB : SMap.find? s.b.recvRel ch = some rB) (H3 : Room (s.submitted ch) rB)
    (B : Nat) (hSB : SLICE_SIZE ≤ B)
    (rs : List RoundP) (hRS : RoundsSched4 ch (SchedBytes ch B) s rs) (hH : HeadRoom3 cfg s rs)
    (hk1 : rs ≠ []) (hk : backlog sA.unacked ≤ rs.length * (B - SLICE_SIZE + 1))
    (ops' : List SysOp) (hno : ∀ op ∈ ops', ∀ c m, op ≠ .sendA c m) (w : Sys)
    (hw : s.run (cutOps ch s rs ++ ops') = some w) (hc : CountersOK cfg w) :
    w.submitted ch = s.submitted ch ∧ w.obtained ch = s.submitted ch := by
  obtain ⟨u, hu, -, -, hsub, hobt⟩ := k_round_delivery_closed4 cfg ops s hr hda hdb ch ho sA hfA rB hfB H3 B hSB rs hRS hH hk1 hk
  rw [Sys.run_append, hu] at hw
  have hru : (Sys.init cfg).run (ops ++ cutOps ch s rs) = some u := by rw [Sys.run_append, hr]; exact hu
  obtain ⟨h1, h2⟩ := delivered_stable cfg _ u hru ch ho (by rw [hobt, hsub]) ops' w hw hno hc
  exact ⟨by rw [h1, hsub], by rw [h2, h1, hsub]⟩

/-- **The idle round.**  A's channel stores nothing (everything acknowledged): B's drain alone delivers everything. -/
theorem idle_delivers (cfg : Cfg) (ops : List SysOp) (s : Sys) (hr : (Sys.init cfg).run ops = some s)
    (hc : CountersOK cfg s) (hdb : s.b.isDisconnected = false)
    (ch : Nat) (ho : cfg.Ordered ch) (sA : SendRel) (hfA : SMap.find? s.a.sendRel ch = some sA)
    (h0 : sA.unacked = []) (n : Nat) (hn : (s.submitted ch).length ≤ (s.obtained ch).length + n) :
    ∃ u, s.run (List.replicate n (SysOp.recvB ch)) = some u ∧ u.a = s.a ∧ u.b.isDisconnected = false ∧
      u.submitted = s.submitted ∧ u.obtained ch = s.submitted ch :=
  idle_drain cfg ops s hr hc hdb ch true ho sA hfA h0 n hn

/-! ## non-vacuity

  `C01K.ExS`: 3000 bytes per tick vs. a 3-byte message and a 3700-byte sliced message (4 slices), backlog 4803, `k = 3`.
  Rounds 1 and 2 (`r1`, `r2` of `C01K.ExS`) start with a non-empty backlog; everything is delivered after two rounds, so
  round 3 starts with an EMPTY backlog.  Its parameters `r3'` hand B NOTHING (`ks = []`), do not advance the clock
  (`dt = 0` — below the resend time) and name no sensible ack datagram: `RoundsSched3` is FALSE for `[r1, r2, r3']`
  (C01KD needed `r3.ks = [6]`), `RoundsSched4` holds, every hypothesis is discharged by the kernel. -/
namespace ExS
open C01K.ExS

def r3' : RoundP := ⟨0, [], 2, 0⟩

theorem roundsSched4 : RoundsSched4 0 (fun _ => True) s [r1, r2, r3'] :=
  roundsSched4_of_b (schedb := fun _ => true) (fun _ _ => trivial) _ _ (by decide +kernel)

theorem headRoom3 : HeadRoom3 cfg s [r1, r2, r3'] := headRoom3_of_b (by decide +kernel)

/-- the checker of the C01KD schedule description rejects these rounds: the third hands over nothing -/
example : roundsSched3b 0 (fun _ => true) s [r1, r2, r3'] = false := by decide +kernel

/-- the cut schedule: two full rounds, then the two `receive_message` calls of round 3 -/
theorem cut_ops : cutLen 0 s [r1, r2, r3'] = 2 ∧
    cutOps 0 s [r1, r2, r3'] = roundsOps 0 [r1, r2] ++ [SysOp.recvB 0, SysOp.recvB 0] := by decide +kernel

/-- **`k_round_delivery_single_closed4` applied with `k = 3`**: `4803 ≤ 3 * (3000 - 1200 + 1)` -/
theorem delivered4 : ∃ u, s.run (cutOps 0 s [r1, r2, r3']) = some u ∧ u.a.isDisconnected = false ∧
    u.b.isDisconnected = false ∧ u.submitted 0 = s.submitted 0 ∧ u.obtained 0 = s.submitted 0 :=
  k_round_delivery_single_closed4 cfg ops s run_s start.1 start.2.1 0 single0 sA find_sA rB find_rB start.2.2.1 (by decide)
    [r1, r2, r3'] roundsSched4 headRoom3 (by simp) (by rw [start.2.2.2.1]; decide)

/-- what the kernel computes for that run -/
example : (s.run (cutOps 0 s [r1, r2, r3'])).map (fun u => (u.obtained 0 == u.submitted 0, idleb 0 u)) =
    some (true, true) := by decide +kernel

/-- `k_round_delivery_closed4_stable` on that run followed by the ORIGINAL third round `r3` of `C01K.ExS` (A's ack
    packet to B and back) and a stale duplicate: still `obtained = submitted` -/
example : ∃ w, s.run (cutOps 0 s [r1, r2, r3'] ++ (C01K.ExS.r3.ops 0 ++ [SysOp.deliverToB 1])) = some w ∧
    w.submitted 0 = s.submitted 0 ∧ w.obtained 0 = s.submitted 0 := by
  have hrun : (s.run (cutOps 0 s [r1, r2, r3'] ++ (C01K.ExS.r3.ops 0 ++ [SysOp.deliverToB 1]))).isSome = true := by
    decide +kernel
  obtain ⟨w, hw⟩ := Option.isSome_iff_exists.mp hrun
  have hc : CountersOK cfg w := by
    have : (s.run (cutOps 0 s [r1, r2, r3'] ++ (C01K.ExS.r3.ops 0 ++ [SysOp.deliverToB 1]))).all
        (fun w => countersSysb cfg w) = true := by decide +kernel
    rw [hw] at this
    exact countersSys_of_b this
  refine ⟨w, hw, ?_⟩
  exact k_round_delivery_closed4_stable cfg ops s run_s start.1 start.2.1 0 (single_ordered single0) sA find_sA rB find_rB
    start.2.2.1 3000 (by decide) [r1, r2, r3']
    (roundsSched4_of_b (schedBytes_of_b 0 3000) _ _ (by decide +kernel)) headRoom3 (by simp)
    (by rw [start.2.2.2.1]; decide) _ (by
      intro op hop c m e
      rcases List.mem_append.mp hop with h | h
      · exact roundP_ops_nosend 0 _ op h c m e
      · subst e
        simp at h) w hw hc

end ExS

/-! `C01K.ExU` — ReliableUnordered channel, reverse order, one datagram twice in round 2; round 3 hands over nothing -/
namespace ExU
open C01K.ExU

def r3' : RoundP := ⟨0, [], 3, 0⟩

/-- **`k_round_delivery_unordered_closed4`** on that run -/
theorem delivered4 : ∃ u, s.run (cutOps 0 s [r1, r2, r3']) = some u ∧ u.a.isDisconnected = false ∧
    u.b.isDisconnected = false ∧ u.submitted 0 = s.submitted 0 ∧ (u.obtained 0).Perm (s.submitted 0) :=
  k_round_delivery_unordered_closed4 cfg ops s run_s start.1 start.2.1 0 unordered0 sA find_sA rB find_rB start.2.2.1 3000
    (by decide) [r1, r2, r3'] (roundsSched4_of_b (schedBytes_of_b 0 3000) _ _ (by decide +kernel))
    (headRoom3_of_b (by decide +kernel)) (by simp) (by rw [start.2.2.2.1]; decide)

example : cutLen 0 s [r1, r2, r3'] = 2 := by decide +kernel

/-- `delivered_stable_unordered` after that run: a stale datagram is handed to B again and B's application asks once
    more — nothing further is obtained -/
example : ∃ u w, s.run (cutOps 0 s [r1, r2, r3']) = some u ∧ u.run [SysOp.deliverToB 1, SysOp.recvB 0] = some w ∧
    w.obtained 0 = u.obtained 0 ∧ (w.obtained 0).Perm (w.submitted 0) := by
  obtain ⟨u, hu, -, -, hsub, hp⟩ := delivered4
  have hrun : (s.run (cutOps 0 s [r1, r2, r3'] ++ [SysOp.deliverToB 1, SysOp.recvB 0])).isSome = true := by
    decide +kernel
  obtain ⟨w, hw0⟩ := Option.isSome_iff_exists.mp hrun
  have hc : CountersOK cfg w := by
    have : (s.run (cutOps 0 s [r1, r2, r3'] ++ [SysOp.deliverToB 1, SysOp.recvB 0])).all
        (fun w => countersSysb cfg w) = true := by decide +kernel
    rw [hw0] at this
    exact countersSys_of_b this
  have hw : u.run [SysOp.deliverToB 1, SysOp.recvB 0] = some w := by
    rw [Sys.run_append, hu] at hw0
    simp only [Option.bind_some] at hw0
    exact hw0
  have hru : (Sys.init cfg).run (ops ++ cutOps 0 s [r1, r2, r3']) = some u := by
    rw [Sys.run_append, run_s]
    simp only [Option.bind_some]
    exact hu
  obtain ⟨-, h2, h3⟩ := delivered_stable_unordered cfg _ u hru 0 unordered0 (by rw [hsub]; exact hp) _ w hw
    (by intro op hop c m e; subst e; simp at hop) hc
  exact ⟨u, w, hu, hw, h2, h3⟩

end ExU

/-! `Ex0` — the FIRST round is idle.  A's 3-byte message has been flushed, handed to B and acknowledged (A's `unacked` is
    empty), but B's application has not asked for it: `obtained = []`, `submitted = [m0]`.  One round `⟨0, [], 1, 0⟩`
    (`1 * (3000 - 1200 + 1) ≥ 0`): the cut schedule is ONE `receive_message` call, and it delivers.  The fixed list of
    Props/C01K for the same parameters, run from the INITIAL state (nothing submitted, nothing to acknowledge), is
    undefined: B's flush emits nothing, there is no datagram 0 to hand to A. -/
namespace Ex0

def cfg : Cfg := ⟨3000, [⟨0, .ordered, 100000, 100⟩], [⟨0, .ordered, 100000, 100⟩]⟩
def m0 : Bytes := [1, 2, 3]
def ops : List SysOp := [.sendA 0 m0, .updA 1000, .flushA, .deliverToB 0, .flushB, .deliverToA 0]
def r : RoundP := ⟨0, [], 1, 0⟩
def s : Sys := ((Sys.init cfg).run ops).getD (Sys.init cfg)
theorem run_s : (Sys.init cfg).run ops = some s := some_getD (by decide +kernel) _
def sA : SendRel := (SMap.find? s.a.sendRel 0).getD (SendRel.new 0 0 0)
theorem find_sA : SMap.find? s.a.sendRel 0 = some sA := some_getD (by decide +kernel) _
def rB : RecvRel := (SMap.find? s.b.recvRel 0).getD (RecvRel.new 0 true)
theorem find_rB : SMap.find? s.b.recvRel 0 = some rB := some_getD (by decide +kernel) _

theorem start : s.a.isDisconnected = false ∧ s.b.isDisconnected = false ∧ Room (s.submitted 0) rB ∧
    sA.unacked = [] ∧ backlog sA.unacked = 0 ∧ s.submitted 0 = [m0] ∧ s.obtained 0 = [] ∧
    cutOps 0 s [r] = [SysOp.recvB 0] := by decide +kernel

theorem delivered : ∃ u, s.run (cutOps 0 s [r]) = some u ∧ u.a.isDisconnected = false ∧
    u.b.isDisconnected = false ∧ u.submitted 0 = s.submitted 0 ∧ u.obtained 0 = s.submitted 0 :=
  k_round_delivery_single_closed4 cfg ops s run_s start.1 start.2.1 0 ⟨_, _, rfl⟩ sA find_sA rB find_rB start.2.2.1
    (by decide) [r] (roundsSched4_of_b (schedb := fun _ => true) (fun _ _ => trivial) _ _ (by decide +kernel))
    (headRoom3_of_b (by decide +kernel)) (by simp) (by rw [start.2.2.2.2.1]; decide)

/-- `idle_delivers` on that state -/
example : ∃ u, s.run [SysOp.recvB 0] = some u ∧ u.a = s.a ∧ u.b.isDisconnected = false ∧
    u.submitted = s.submitted ∧ u.obtained 0 = s.submitted 0 :=
  idle_delivers cfg ops s run_s (headRoom3_of_b (rs := [r]) (by decide +kernel)).sys start.2.1 0
    (single_ordered ⟨_, _, rfl⟩) sA find_sA start.2.2.2.1 1 (by rw [start.2.2.2.2.2.1, start.2.2.2.2.2.2.1]; decide)

/-- the fixed operation list of one round with nothing to send and nothing to acknowledge does not run: the
    hypotheses of the cut theorem hold in the initial state (trivially: backlog 0), its schedule is empty -/
theorem fixed_list_undefined : (Sys.init cfg).run (roundsOps 0 [⟨1000, [], 0, 0⟩]) = none ∧
    cutOps 0 (Sys.init cfg) [⟨1000, [], 0, 0⟩] = [] ∧
    roundsSched4b 0 (fun _ => true) (Sys.init cfg) [⟨1000, [], 0, 0⟩] = true := by decide +kernel

end Ex0

end RenetVerif.C01KE
